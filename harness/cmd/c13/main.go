// Command c13 drives /repo/gcs (Golomb-coded set filters): it evaluates the
// property's own predicates on the implementation (members always match through
// all four query forms, empty filter / empty query match nothing, the any-of
// forms agree with the item-by-item query, all of it against an independent
// big-integer / bit-list reference) and writes correspondence cases for the Coq
// model (Run/Run_C13.v).  It also hosts the allocation probe for the size hint
// of HashMatchAny (C13_alloc_bound, shared with C08), run in a child process
// under an address-space cap.
package main

import (
	"encoding/hex"
	"encoding/json"
	"fmt"
	"io"
	"os"
	"os/exec"
	"path/filepath"
	"runtime"
	"sort"
	"strconv"
	"strings"
	"sync"
	"time"

	"github.com/aead/siphash"
	"github.com/gcash/bchutil/gcs"

	"verif/harness/cmd/c13/gref"
	"verif/harness/internal/vh"
)

var cfg vh.Config
var rep *vh.Report
var cases *vh.Cases

// spec is one filter to build.  Sets too large to print are described by Gen.
type spec struct {
	P    uint8
	M    uint64
	Key  [16]byte
	Data [][]byte
	Gen  string // non-empty: how Data was generated (e.g. "LE64(0..5999)")
}

func hexItems(items [][]byte) []string {
	out := make([]string, len(items))
	for i, it := range items {
		out[i] = hex.EncodeToString(it)
	}
	return out
}

func (s spec) replay(extra map[string]interface{}) map[string]interface{} {
	m := map[string]interface{}{"P": s.P, "M": strconv.FormatUint(s.M, 10), "key": hex.EncodeToString(s.Key[:]), "N": len(s.Data)}
	if s.Gen != "" {
		m["set"] = s.Gen
	} else {
		m["items"] = hexItems(s.Data)
	}
	for k, v := range extra {
		m[k] = v
	}
	return m
}

func trimQ(q [][]byte) interface{} {
	if len(q) > 300 {
		return map[string]interface{}{"count": len(q), "first": hexItems(q[:4]), "last": hexItems(q[len(q)-4:]),
			"note": "list too long to print: re-run the family with the recorded seed (bin/check --replay does)"}
	}
	return hexItems(q)
}

// answers holds the implementation's observable answers for one query list.
type answers struct {
	single         []bool
	zip, hash, any bool
	err            string
	hung, skipped  bool // hung: no answer within hangLimit; skipped: not run because three earlier queries hung
}

// queryFailed reports a hung or failed query under the given key; true when the answers must not be used.
func queryFailed(a answers, key, what string, replay func() map[string]interface{}) bool {
	switch {
	case a.skipped:
		return true
	case a.hung:
		rep.Violate("C13:query:hang", "a query did not return (Match / ZipMatchAny / HashMatchAny / MatchAny are loops over N and the query list)", replay())
		return true
	case a.err != "":
		rep.Violate(key, what, replay())
		return true
	}
	return false
}

// queryAll runs the query forms under a watchdog: a query that does not come back (a cursor that wraps and never
// reaches its bound) is reported with its input instead of hanging the run; the stuck goroutine is abandoned.
var hangs int

const hangLimit = 25 * time.Second

func queryAll(f *gcs.Filter, key [16]byte, qs [][]byte, singles bool) answers {
	if hangs >= 3 {
		return answers{single: make([]bool, len(qs)), skipped: true, err: "not run: three earlier queries did not return"}
	}
	done := make(chan answers, 1)
	go func() { done <- queryAllDirect(f, key, qs, singles) }()
	select {
	case a := <-done:
		return a
	case <-time.After(hangLimit):
		hangs++
		return answers{single: make([]bool, len(qs)), hung: true, err: fmt.Sprintf("no answer after %v (Match / ZipMatchAny / HashMatchAny / MatchAny on %d items)", hangLimit, len(qs))}
	}
}

func queryAllDirect(f *gcs.Filter, key [16]byte, qs [][]byte, singles bool) (a answers) {
	p, msg := vh.Catch(func() {
		var err error
		if singles {
			for _, q := range qs {
				var b bool
				b, err = f.Match(key, q)
				if err != nil {
					a.err = "Match: " + err.Error()
				}
				a.single = append(a.single, b)
			}
		}
		if a.zip, err = f.ZipMatchAny(key, qs); err != nil {
			a.err = "ZipMatchAny: " + err.Error()
		}
		if a.hash, err = f.HashMatchAny(key, qs); err != nil {
			a.err = "HashMatchAny: " + err.Error()
		}
		if a.any, err = f.MatchAny(key, qs); err != nil {
			a.err = "MatchAny: " + err.Error()
		}
	})
	if p {
		a.err = "panic: " + msg
	}
	return
}

func errClass(err error) int {
	switch {
	case err == nil:
		return 0
	case err == gcs.ErrNTooBig:
		return 1
	case err == gcs.ErrPTooBig:
		return 2
	case err == io.EOF || err == io.ErrUnexpectedEOF:
		return 3
	}
	return 4
}

func addQueryCase(n uint32, p uint8, m uint64, data []byte, key [16]byte, qs [][]byte, a answers, what string) {
	cases.Add(fmt.Sprintf("Query %d %d %d %s %s %s %s %s %s %s", n, p, m, vh.CoqBytes(data), vh.CoqBytes(key[:]), gref.CoqItems(qs),
		gref.CoqBools(a.single), vh.CoqBool(a.zip), vh.CoqBool(a.hash), vh.CoqBool(a.any)),
		map[string]interface{}{"op": "FromBytes+Match/Zip/Hash/MatchAny", "family": what, "N": n, "P": p, "M": strconv.FormatUint(m, 10), "filter": vh.Hex(data),
			"key": vh.Hex(key[:]), "queries": hexItems(qs), "impl_single": a.single, "impl_zip": a.zip, "impl_hash": a.hash, "impl_any": a.any})
}

// checkBuilt builds the filter of s and runs every C13 monitor on it with the given query lists.
// corr: also record correspondence cases.  Returns the filter (nil on a build error).
func checkBuilt(s spec, queryLists [][][]byte, corr bool, family string) *gcs.Filter {
	n := len(s.Data)
	var f *gcs.Filter
	var err error
	if p, msg := vh.Catch(func() { f, err = gcs.BuildGCSFilter(s.P, s.M, s.Key, s.Data) }); p {
		rep.Violate("C13:build:panic", "BuildGCSFilter panicked", s.replay(map[string]interface{}{"panic": msg}))
		return nil
	}
	rep.Count("build:"+family, fmt.Sprintf("b%d/%d/%d/%x", s.P, s.M, n, s.Key[:4]), n > 0 && err == nil)
	rep.Histogram[fmt.Sprintf("P=%d", s.P)]++
	if err != nil {
		if s.P <= 32 {
			rep.Violate("C13:build:error", "BuildGCSFilter failed on admissible parameters", s.replay(map[string]interface{}{"error": err.Error()}))
		}
		if corr {
			cases.Add(fmt.Sprintf("Build %d %d %s %s %d 0 []", s.P, s.M, vh.CoqBytes(s.Key[:]), gref.CoqItems(s.Data), errClass(err)),
				map[string]interface{}{"op": "BuildGCSFilter", "spec": s.replay(nil), "impl_class": errClass(err)})
		}
		return nil
	}
	fb, _ := f.Bytes()
	if len(fb) > 20000 {
		corr = false // a list literal that long overflows coqc's stack; the monitors below still run
	}
	if corr {
		cases.Add(fmt.Sprintf("Build %d %d %s %s 0 %d %s", s.P, s.M, vh.CoqBytes(s.Key[:]), gref.CoqItems(s.Data), f.N(), vh.CoqBytes(fb)),
			map[string]interface{}{"op": "BuildGCSFilter", "spec": s.replay(nil), "impl_N": f.N(), "impl_bytes": vh.Hex(fb)})
	}
	// reference view of the set
	F := gref.Modulus(uint64(n), s.M)
	refSet := make(map[uint64]bool, n)
	refVals := make([]uint64, n)
	for i, d := range s.Data {
		refVals[i] = gref.Value(s.Key, F, d)
		refSet[refVals[i]] = true
	}

	// --- members: every member matches through all four forms
	step := 1
	if n > 150 {
		step = n / 150
		if n > 150000 {
			step = n / 40 // one query decodes the whole filter: fewer evenly spread members, the ranked ones below stay
		}
	}
	memberIdx := []int{}
	for i := 0; i < n; i += step {
		memberIdx = append(memberIdx, i)
	}
	rankOf := map[int]int{}
	if n > 150 {
		// members chosen by their RANK in the sorted stream (position of their codeword), not by their position in
		// the input: the first and the last codewords (a lost or damaged tail of the bytes only hurts the last
		// members), and the ranks around every power of two from 2^8 up (a narrow decode counter wraps there),
		// also relative to the end of the stream (N - 2^k: what a counter of k bits makes of N)
		order := make([]int, n)
		for i := range order {
			order[i] = i
		}
		sort.Slice(order, func(a, b int) bool { return refVals[order[a]] < refVals[order[b]] })
		ranks := []int{0, 1, 2}
		for k := 1; k <= 12; k++ {
			ranks = append(ranks, n-k)
		}
		for sh := uint(8); sh <= 24; sh++ {
			for d := -1; d <= 1; d++ {
				ranks = append(ranks, 1<<sh+d, n%(1<<sh)+d, n-n%(1<<sh)+d)
			}
		}
		seen := map[int]bool{}
		for _, rk := range ranks {
			if rk >= 0 && rk < n && !seen[rk] {
				seen[rk] = true
				memberIdx = append(memberIdx, order[rk])
				rankOf[order[rk]] = rk
			}
		}
		rep.Histogram["member:ranked"] += len(seen)
	}
	for _, i := range memberIdx {
		d := s.Data[i]
		a := queryAll(f, s.Key, [][]byte{d}, true)
		rep.Count("member", fmt.Sprintf("m%x/%d/%d/%x", d, s.P, s.M, s.Key[:2]), true)
		if a.hung || a.skipped {
			queryFailed(a, "", "", func() map[string]interface{} {
				return s.replay(map[string]interface{}{"queries": []string{hex.EncodeToString(d)}, "error": a.err})
			})
			continue
		}
		if a.err != "" || !a.single[0] || !a.zip || !a.hash || !a.any {
			extra := map[string]interface{}{"member": hex.EncodeToString(d), "member_index_in_set": i, "Match": a.single, "ZipMatchAny": a.zip, "HashMatchAny": a.hash, "MatchAny": a.any, "error": a.err, "filter_bytes": len(fb)}
			if rk, ok := rankOf[i]; ok {
				extra["member_rank_in_sorted_stream"] = rk
			}
			rep.Violate("C13:member:missed", "a member of the set is not reported by every query form", s.replay(extra))
		}
	}
	// --- empty query matches nothing
	a0 := queryAll(f, s.Key, nil, false)
	rep.Count("emptyquery", "", false)
	if a0.hung || a0.skipped {
		queryFailed(a0, "", "", func() map[string]interface{} { return s.replay(map[string]interface{}{"queries": []string{}, "error": a0.err}) })
	} else if a0.err != "" || a0.zip || a0.hash || a0.any {
		rep.Violate("C13:empty:query", "an empty query matched", s.replay(map[string]interface{}{"ZipMatchAny": a0.zip, "HashMatchAny": a0.hash, "MatchAny": a0.any, "error": a0.err}))
	}
	// --- query lists: item-by-item vs reference; any-of forms vs "some item matches"
	for li, qs := range queryLists {
		singles := len(qs) <= 400
		a := queryAll(f, s.Key, qs, singles)
		rep.Count("query:"+family, fmt.Sprintf("q%d/%d/%d/%x/%d/%d", s.P, s.M, n, s.Key[:4], li, len(qs)), n > 0 && len(qs) > 0)
		rep.Histogram[sizeClass(len(qs), n)]++
		if queryFailed(a, "C13:query:error", "a query failed or panicked", func() map[string]interface{} {
			return s.replay(map[string]interface{}{"queries": trimQ(qs), "error": a.err})
		}) {
			continue
		}
		want := false
		for i, q := range qs {
			ref := refSet[gref.Value(s.Key, F, q)]
			want = want || ref
			if singles && a.single[i] != ref {
				key := "C13:match:false_positive"
				if ref {
					key = "C13:match:missed"
				}
				rep.Violate(key, "Match disagrees with membership of the hashed value in the set of hashed members (independent reference)",
					s.replay(map[string]interface{}{"query": hex.EncodeToString(q), "Match": a.single[i], "reference": ref}))
			}
		}
		if n == 0 && (a.zip || a.hash || a.any) {
			rep.Violate("C13:empty:filter", "an empty filter matched", s.replay(map[string]interface{}{"queries": trimQ(qs), "ZipMatchAny": a.zip, "HashMatchAny": a.hash, "MatchAny": a.any}))
		}
		if a.zip != want || a.hash != want || a.any != want {
			rep.Violate("C13:strategies:agree", "an any-of form differs from 'some queried item matches individually'",
				s.replay(map[string]interface{}{"queries": trimQ(qs), "some_item_matches": want, "ZipMatchAny": a.zip, "HashMatchAny": a.hash, "MatchAny": a.any}))
			if len(qs) > 1 { // minimise: find a single responsible item (long lists: the matching items first, then a bounded prefix)
				cand := qs
				if len(qs) > 200 {
					cand = nil
					for _, q := range qs {
						if refSet[gref.Value(s.Key, F, q)] && len(cand) < 40 {
							cand = append(cand, q)
						}
					}
					cand = append(cand, qs[:100]...)
				}
				for _, q := range cand {
					b := queryAll(f, s.Key, [][]byte{q}, true)
					if b.err == "" && (b.zip != b.single[0] || b.hash != b.single[0] || b.any != b.single[0]) {
						rep.Violate("C13:strategies:agree", "an any-of form differs from 'some queried item matches individually'",
							s.replay(map[string]interface{}{"queries": []string{hex.EncodeToString(q)}, "Match": b.single[0], "ZipMatchAny": b.zip, "HashMatchAny": b.hash, "MatchAny": b.any}))
						break
					}
				}
			}
		}
		if corr && singles && len(qs) <= 70 && (li+n+int(s.P))%5 == 0 {
			addQueryCase(f.N(), f.P(), s.M, fb, s.Key, qs, a, family)
		}
	}
	return f
}

func sizeClass(q, n int) string {
	switch {
	case q == 0:
		return "query=0"
	case q < n/2:
		return "query<N/2"
	case q == n/2:
		return "query=N/2"
	}
	return "query>N/2"
}

func randItem(r *vh.RNG) []byte {
	switch r.Intn(6) {
	case 0:
		return gref.LE64(uint64(r.Intn(1000)))
	case 1:
		return r.Bytes(r.Intn(4))
	case 2:
		return r.Bytes(36) // an outpoint
	}
	return r.Bytes(r.Intn(34))
}

func randKey(r *vh.RNG) (k [16]byte) {
	if r.Intn(6) == 0 {
		return
	}
	copy(k[:], r.Bytes(16))
	return
}

// queriesFor builds query lists around the strategy switch (N/2): members, non-members, mixed, duplicates.
func queriesFor(r *vh.RNG, data [][]byte, small bool) [][][]byte {
	n := len(data)
	non := func(k int) [][]byte {
		out := make([][]byte, k)
		for i := range out {
			out[i] = append([]byte{0xEE}, r.Bytes(9+r.Intn(6))...)
		}
		return out
	}
	var ls [][][]byte
	sizes := []int{1, 2, n/2 - 1, n / 2, n/2 + 1, n + 3}
	for _, sz := range sizes {
		if sz < 1 {
			continue
		}
		if small && sz > 40 {
			sz = 40
		}
		ls = append(ls, non(sz)) // (almost surely) no member
		if n > 0 {
			mixed := non(sz)
			mixed[r.Intn(sz)] = data[r.Intn(n)]
			if sz > 2 {
				mixed[r.Intn(sz)] = mixed[r.Intn(sz)] // duplicate
			}
			ls = append(ls, mixed)
		}
	}
	if n > 0 {
		k := n
		if k > 30 {
			k = 30
		}
		mem := make([][]byte, k)
		for i := range mem {
			mem[i] = data[r.Intn(n)]
		}
		ls = append(ls, mem)
	}
	return ls
}

func mShapes(p uint8, r *vh.RNG) []uint64 {
	two := uint64(1) << p
	ms := []uint64{two, two + 1 + uint64(r.Intn(int(two%1000+7))), two*3 + 1}
	if p <= 10 {
		ms = append(ms, 1, 0)
	}
	if 784931>>p <= 2048 {
		ms = append(ms, 784931)
	}
	if p >= 1 {
		ms = append(ms, two/2+1)
	}
	if p >= 26 {
		ms = append(ms, two*2, two*5+3) // quotients of several units next to P = 32 (deltas >= 2^32)
	}
	return ms
}

// ---------- families ----------
func familySmall(rng *vh.RNG) {
	r := rng.Fork("small")
	ns := []int{0, 1, 2, 3, 5, 8, 13, 21, 34, 55}
	rounds := cfg.Scale(1, 4)
	if cfg.Search {
		rounds = 12
	}
	for round := 0; round < rounds; round++ {
		for p := 0; p <= 32; p++ {
			ms := mShapes(uint8(p), r)
			for mi, m := range ms {
				// every N for the monitors, a rotating subset for the Coq cases
				for ni, n := range ns {
					corr := !cfg.Search && round == 0 && (ni+p+mi)%len(ns) == (mi*3)%len(ns) && (mi < 3 || p >= 26 && mi >= len(ms)-2)
					if cfg.Search || round > 0 || corr || (p+ni)%3 == 0 {
						s := spec{P: uint8(p), M: m, Key: randKey(r)}
						for i := 0; i < n; i++ {
							s.Data = append(s.Data, randItem(r))
						}
						if n > 3 && r.Intn(3) == 0 {
							s.Data[0] = s.Data[n-1] // duplicate member: a zero delta
						}
						checkBuilt(s, queriesFor(r, s.Data, true), corr, "small")
					}
				}
			}
		}
	}
	// fixed edges: P just beyond the limit; modulus wrapping mod 2^64; M = 0
	for _, p := range []uint8{33, 40, 255} {
		checkBuilt(spec{P: p, M: 10, Data: [][]byte{{1}}}, nil, true, "edge")
	}
	for _, m := range []uint64{1<<63 + 5, 1<<63 + 200, 1<<62 + 3} { // N*M wraps to a small modulus for suitable N
		for _, n := range []int{2, 4} {
			s := spec{P: 3, M: m, Key: randKey(r)}
			for i := 0; i < n; i++ {
				s.Data = append(s.Data, randItem(r))
			}
			if gref.Modulus(uint64(n), m) < 1<<20 {
				checkBuilt(s, queriesFor(r, s.Data, true), true, "wrap")
			}
		}
	}
}

// values that reduce to exactly 0, coinciding reduced values, duplicates fed directly to BuildGCSFilter
func familyZero(rng *vh.RNG) {
	r := rng.Fork("zero")
	be := func(v uint32) []byte { return []byte{byte(v >> 24), byte(v >> 16), byte(v >> 8), byte(v)} }
	// (a) the repository's brute-forced zero-hash vector, queried below and above N/2
	{
		s := spec{P: 19, M: 784931, Key: [16]byte{0x25, 0x28, 0x0d, 0x25, 0x26, 0xe1, 0xd3, 0xc7, 0xa5, 0x71, 0x85, 0x34, 0x92, 0xa5, 0x7e, 0x68}}
		for i := uint32(0); i < 12; i++ {
			s.Data = append(s.Data, be(i))
		}
		target := be(16060032)
		s.Data = append(s.Data, target)
		if gref.Value(s.Key, gref.Modulus(13, s.M), target) == 0 {
			rep.Count("zerohash", "repo-vector", true)
		}
		seven := [][]byte{target}
		for i := uint32(100); len(seven) < 7; i++ {
			seven = append(seven, be(i))
		}
		checkBuilt(s, [][][]byte{{target}, seven, {be(50), target, be(51)}}, !cfg.Search, "zero")
		s2 := s
		s2.Data = append(append([][]byte{}, s.Data[:12]...), be(12)) // the same without the zero-hash member
		checkBuilt(s2, [][][]byte{{target}, seven}, !cfg.Search, "zero")
	}
	// (b) tiny ranges: every value is 0 or coincides with another
	for i := 0; i < cfg.Scale(120, 600); i++ {
		n := 1 + r.Intn(10)
		s := spec{P: uint8(r.Intn(9)), M: uint64(r.Intn(4)), Key: randKey(r)}
		if i%7 == 0 {
			s.P = uint8(r.Intn(33))
		}
		for k := 0; k < n; k++ {
			s.Data = append(s.Data, randItem(r))
		}
		if n > 1 && i%3 == 0 {
			s.Data[n-1] = s.Data[0]
		}
		checkBuilt(s, queriesFor(r, s.Data, true), !cfg.Search && i%6 == 0, "zero")
	}
	// (c) brute-forced zero-hash members under ordinary parameters
	for i := 0; i < cfg.Scale(12, 60); i++ {
		p := uint8(r.Intn(14))
		n := 2 + r.Intn(14)
		s := spec{P: p, M: uint64(1)<<p + uint64(r.Intn(3)), Key: randKey(r)}
		F := gref.Modulus(uint64(n), s.M)
		var zero []byte
		for t := 0; t < 400000 && zero == nil; t++ {
			it := gref.LE64(r.U64())
			if gref.Value(s.Key, F, it) == 0 {
				zero = it
			}
		}
		if zero == nil {
			continue
		}
		rep.Count("zerohash", fmt.Sprintf("z%d", i), true)
		s.Data = append(s.Data, zero)
		for len(s.Data) < n {
			s.Data = append(s.Data, randItem(r))
		}
		ql := queriesFor(r, s.Data, true)
		big := [][]byte{zero}
		for len(big) < n {
			big = append(big, append([]byte{0xEE}, r.Bytes(10)...))
		}
		ql = append(ql, [][]byte{zero}, big)
		checkBuilt(s, ql, !cfg.Search && i < 6, "zero")
	}
	// (d) large P with M >= 2^P: deltas of 2^32 and more with a non-zero quotient
	for _, c := range []struct {
		p uint8
		m uint64
	}{{32, 1 << 33}, {31, 1 << 33}, {28, 1 << 32}, {32, 1<<34 + 5}, {30, 1 << 32}} {
		for _, n := range []int{1, 2, 7, 20, 45} {
			s := spec{P: c.p, M: c.m, Key: randKey(r)}
			for k := 0; k < n; k++ {
				s.Data = append(s.Data, randItem(r))
			}
			checkBuilt(s, queriesFor(r, s.Data, true), !cfg.Search && n == 7, "largeP")
		}
	}
}

func le64Range(n int) [][]byte {
	out := make([][]byte, n)
	for i := range out {
		out[i] = gref.LE64(uint64(i))
	}
	return out
}

func familyBig(rng *vh.RNG) {
	r := rng.Fork("big")
	type cfgT struct {
		n int
		p uint8
		m uint64
	}
	list := []cfgT{{1000, 19, 784931}, {6000, 19, 784931}, {3000, 8, 300}, {2500, 0, 1}, {2000, 32, 1 << 32}}
	if cfg.Thorough() || cfg.Search {
		list = append(list, cfgT{20000, 19, 784931}, cfgT{100000, 19, 784931}, cfgT{100000, 10, 1 << 10}, cfgT{50000, 25, 1<<25 + 77}, cfgT{70000, 5, 43})
	}
	for _, c := range list {
		s := bigSpec(c.n, c.p, c.m, randKey(r), r.U64())
		checkBuilt(s, queriesFor(r, s.Data, false), false, "big")
	}
	// Round 3: size classes of N and of the byte length.  N in [2^16, 2^17) (a 16-bit decode counter wraps; bit 16 of N
	// set) at the default parameters in EVERY tier; thorough/search: the same binade at P = 32 (remainders of a full
	// word; 420 kB, above 400000 bytes), N in [2^17, 2^18), exactly 2^16 and 2^17, and a filter above 1 MiB.  A separate stream so that the
	// older configurations keep their inputs.
	r2 := rng.Fork("big-r3")
	list2 := []cfgT{{70000, 19, 784931}}
	if cfg.Thorough() || cfg.Search {
		list2 = append(list2, cfgT{100000, 32, 1 << 32}, cfgT{66000, 32, 1<<32 + 12345}, cfgT{140000, 19, 784931}, cfgT{400000, 19, 784931}, cfgT{131072, 1, 3}, cfgT{65536, 8, 1 << 8})
	}
	for _, c := range list2 {
		s := bigSpec(c.n, c.p, c.m, randKey(r2), r2.U64())
		checkBuilt(s, queriesFor(r2, s.Data, false), false, "big")
	}
}

// bigSpec is a set too large to print, described by a formula (runReplay parses it back).
func bigSpec(n int, p uint8, m uint64, key [16]byte, seed uint64) spec {
	s := spec{P: p, M: m, Key: key}
	s.Gen = fmt.Sprintf("N=%d items: LE64(x*0x9E3779B97F4A7C15 + %d) for x in 0..N-1", n, seed)
	s.Data = make([][]byte, n)
	for i := range s.Data {
		s.Data[i] = gref.LE64(uint64(i)*0x9E3779B97F4A7C15 + seed)
	}
	return s
}

// parseBigSpec reconstructs the items of a bigSpec description.
func parseBigSpec(g string) ([][]byte, bool) {
	var n int
	var seed uint64
	if _, err := fmt.Sscanf(g, "N=%d items: LE64(x*0x9E3779B97F4A7C15 + %d) for x in 0..N-1", &n, &seed); err != nil || n < 0 || n > 1<<24 {
		return nil, false
	}
	return bigSpec(n, 0, 0, [16]byte{}, seed).Data, true
}

// query lists whose LENGTH crosses 2^8 and 2^16 (255/256/257, 65535/65536/65537 items): a narrow cursor over the
// queried items (range index in HashMatchAny, queryIndex over the sorted values in ZipMatchAny) wraps there.  The only
// member of a list is put at the END of the list and is also the LAST of the sorted query values (every non-member
// hashes below it), or first / in the middle; filters on both sides of the N/2 switch of MatchAny.
func familyQuerySize(rng *vh.RNG) {
	r := rng.Fork("querysize")
	type qc struct {
		n     int
		p     uint8
		m     uint64
		sizes []int
	}
	small, large := []int{255, 256, 257}, []int{65535, 65536, 65537}
	list := []qc{{12, 19, 784931, small}, {400, 19, 784931, small}, {3000, 19, 784931, small}, {600, 32, 1 << 32, small},
		{40, 19, 784931, large}, {3000, 19, 784931, large}}
	if cfg.Thorough() || cfg.Search {
		// N/2 above 65537: MatchAny takes the zip route with the long lists
		list = append(list, qc{140000, 19, 784931, large}, qc{2000, 32, 1 << 32, large}, qc{1, 10, 1 << 10, large}, qc{70000, 8, 300, append(append([]int{}, small...), 511, 512, 513, 32767, 32768, 32769)})
	}
	for _, c := range list {
		s := bigSpec(c.n, c.p, c.m, randKey(r), r.U64())
		F := gref.Modulus(uint64(c.n), c.m)
		// the members with the largest and the smallest hashed value, and one in the middle
		hi, lo := 0, 0
		vals := make([]uint64, c.n)
		for i, d := range s.Data {
			vals[i] = gref.Value(s.Key, F, d)
			if vals[i] > vals[hi] {
				hi = i
			}
			if vals[i] < vals[lo] {
				lo = i
			}
		}
		inSet := map[uint64]bool{}
		for _, v := range vals {
			inSet[v] = true
		}
		nonBelow := func(k int, bound uint64) [][]byte { // k non-members hashing below bound (and not onto a member)
			out := make([][]byte, 0, k)
			for t := 0; len(out) < k && t < 40*k+1000; t++ {
				it := append([]byte{0xEE}, r.Bytes(9)...)
				if v := gref.Value(s.Key, F, it); v < bound && !inSet[v] {
					out = append(out, it)
				}
			}
			return out
		}
		var lists [][][]byte
		for _, k := range c.sizes {
			none := nonBelow(k, F)
			lists = append(lists, none) // no member at all
			if vals[hi] > uint64(k) {
				last := append(nonBelow(k-1, vals[hi]), s.Data[hi]) // member last in the list AND last in sorted order
				lists = append(lists, last)
			}
			end := append(append([][]byte{}, none[:k-1]...), s.Data[r.Intn(c.n)]) // member at the end of the list, any rank
			first := append([][]byte{s.Data[lo]}, none[:k-1]...)                   // member first in both orders
			mid := append([][]byte{}, none[:k-1]...)
			mid = append(mid[:k/2], append([][]byte{s.Data[r.Intn(c.n)]}, mid[k/2:]...)...)
			lists = append(lists, end, first, mid)
			rep.Histogram[fmt.Sprintf("querysize:%d", k)] += 5
		}
		for _, l := range lists {
			rep.Count("querysize", fmt.Sprintf("z%d/%d/%d/%x", c.n, c.p, len(l), l[len(l)-1]), true)
		}
		checkBuilt(s, lists, false, "querysize")
	}
}

// collision search: a query whose reduced value differs from a member's by a multiple of 2^32
func familyCollision(rng *vh.RNG) {
	r := rng.Fork("collision")
	// (a) the replay of the repaired defect: N = 6000, default P/M, zero key, set LE64(0..5999)
	{
		s := spec{P: 19, M: 784931, Data: le64Range(6000), Gen: "LE64(0..5999)"}
		F := gref.Modulus(6000, s.M)
		members := map[uint32][]uint64{}
		full := map[uint64]bool{}
		for _, d := range s.Data {
			v := gref.Value(s.Key, F, d)
			members[uint32(v)] = append(members[uint32(v)], v)
			full[v] = true
		}
		var qs [][]byte
		limit := uint64(cfg.Scale(3000000, 12000000))
		for i := uint64(1 << 32); i < 1<<32+limit && len(qs) < cfg.Scale(2, 6); i++ {
			v := gref.Value(s.Key, F, gref.LE64(i))
			if _, ok := members[uint32(v)]; ok && !full[v] {
				qs = append(qs, gref.LE64(i))
			}
		}
		rep.Extra["collision_queries_N6000"] = hexItems(qs)
		var lists [][][]byte
		for _, q := range qs {
			lists = append(lists, [][]byte{q})
		}
		if len(qs) > 1 {
			lists = append(lists, qs)
		}
		for range qs {
			rep.Count("collision2^32", "c6000"+strconv.Itoa(len(qs)), true)
		}
		checkBuilt(s, lists, false, "collision")
	}
	// (b) birthday-constructed collisions small enough for the Coq cases
	type cc struct {
		n int
		p uint8
		m uint64
	}
	// the last two have N<<P < 2^32 <= N*M (values need more than 32 bits although N*2^P does not)
	list := []cc{{40, 32, 1 << 32}, {24, 30, 1 << 30}, {50, 28, 1<<28 + 12345}, {60, 20, 1 << 27}, {45, 26, 1<<27 + 999}, {60, 25, 1 << 27}}
	if cfg.Thorough() || cfg.Search {
		list = append(list, cc{60, 27, 1 << 27}, cc{33, 31, 1<<31 + 1}, cc{12, 32, 1 << 32}, cc{200, 16, 1 << 25}, cc{7000, 19, 784931}, cc{5473, 19, 784931}, cc{8191, 19, 784931})
	}
	for ci, c := range list {
		key := randKey(r)
		F := gref.Modulus(uint64(c.n), c.m)
		if F < 1<<32 {
			continue
		}
		seen := map[uint32][]byte{}
		seenV := map[uint32]uint64{}
		var a, b []byte
		for i := 0; i < 4000000 && a == nil; i++ {
			it := gref.LE64(r.U64())
			v := gref.Value(key, F, it)
			if prev, ok := seen[uint32(v)]; ok && seenV[uint32(v)] != v {
				a, b = prev, it
				break
			}
			seen[uint32(v)], seenV[uint32(v)] = it, v
		}
		if a == nil {
			rep.Extra[fmt.Sprintf("collision_not_found_%d", ci)] = true
			continue
		}
		s := spec{P: c.p, M: c.m, Key: key, Data: [][]byte{a}}
		vb := gref.Value(key, F, b)
		for len(s.Data) < c.n {
			it := randItem(r)
			if gref.Value(key, F, it) != vb {
				s.Data = append(s.Data, it)
			}
		}
		rep.Count("collision2^32", fmt.Sprintf("cb%d", ci), true)
		// lists below and above N/2 so that MatchAny takes both routes
		pad := func(k int) [][]byte {
			out := [][]byte{b}
			for len(out) < k {
				it := append([]byte{0xDD}, r.Bytes(8)...)
				if _, dup := seen[uint32(gref.Value(key, F, it))]; !dup {
					out = append(out, it)
				}
			}
			return out
		}
		checkBuilt(s, [][][]byte{{b}, pad(c.n/2 + 1), pad(3), {a, b}, {b, a}}, !cfg.Search && c.n <= 60, "collision")
		// the same with the roles swapped (b a member, a only queried): whichever of the two hashed values is
		// the smaller one, one of the two filters has the member as the LARGER of a pair of queried values that
		// agree in their low 32 bits
		s2 := spec{P: c.p, M: c.m, Key: key, Data: append([][]byte{b}, s.Data[1:]...)}
		va := gref.Value(key, F, a)
		ok := true
		for _, it := range s2.Data[1:] {
			if gref.Value(key, F, it) == va {
				ok = false
			}
		}
		if ok {
			rep.Count("collision2^32", fmt.Sprintf("cs%d", ci), true)
			checkBuilt(s2, [][][]byte{{a}, {a, b}, {b, a}, append(pad(3), a)}, !cfg.Search && ci == 0, "collision")
		}
	}
}

// hostile / non-built filters: correspondence only (the property speaks about built filters), plus
// the documented dispatch rule of MatchAny where the two strategies differ.
func familyHostile(rng *vh.RNG) {
	r := rng.Fork("hostile")
	count := cfg.Scale(60, 300)
	for i := 0; i < count; i++ {
		p := uint8(r.Intn(12))
		if i%7 == 0 {
			p = uint8(r.Intn(33))
		}
		m := uint64(1)<<p + uint64(r.Intn(5))
		key := randKey(r)
		var data []byte
		var n uint32
		var qs [][]byte
		switch i % 3 {
		case 0: // garbage bytes, arbitrary claimed N
			data = r.Bytes(r.Intn(24))
			n = uint32(r.Intn(12))
			if i%9 == 0 {
				n = uint32(100000 + r.Intn(900000)) // claims far more than the bytes can hold
			}
			for k := r.Intn(6); k >= 0; k-- {
				qs = append(qs, randItem(r))
			}
		default: // overfull: the stream encodes more values than N claims
			claimed := 2 + r.Intn(12)
			total := claimed + 1 + r.Intn(12)
			F := gref.Modulus(uint64(claimed), m)
			items := make([][]byte, total)
			for k := range items {
				items[k] = randItem(r)
			}
			vals := gref.Values(key, F, items)
			data = gref.Pack(gref.EncodeBits(uint(p), vals))
			n = uint32(claimed)
			// queries: some items beyond the claimed count, lists on both sides of N/2
			k := 1 + r.Intn(claimed)
			for len(qs) < k {
				qs = append(qs, items[r.Intn(total)])
			}
		}
		var f *gcs.Filter
		var err error
		if pn, msg := vh.Catch(func() { f, err = gcs.FromBytes(n, p, m, data) }); pn || err != nil {
			rep.Violate("C13:hostile:frombytes", "FromBytes failed or panicked on admissible parameters", map[string]interface{}{"N": n, "P": p, "M": m, "bytes": vh.Hex(data), "panic": msg})
			continue
		}
		t0 := time.Now()
		a := queryAll(f, key, qs, true)
		if a.skipped {
			continue
		}
		rep.Count("hostile", fmt.Sprintf("h%d/%x", n, data), len(data) > 0)
		if a.err != "" {
			rep.Violate("C13:hostile:panic", "a query on a deserialised filter failed or panicked", map[string]interface{}{"N": n, "P": p, "M": m, "bytes": vh.Hex(data), "queries": hexItems(qs), "error": a.err})
			continue
		}
		if time.Since(t0) > 2*time.Second {
			rep.Violate("C13:hostile:time", "queries on a small deserialised filter took more than 2 s", map[string]interface{}{"N": n, "P": p, "M": m, "bytes": vh.Hex(data), "queries": hexItems(qs)})
		}
		// dispatch rule: MatchAny is HashMatchAny when len(data) >= N/2, ZipMatchAny otherwise
		wantAny := a.zip
		if len(qs) >= int(n/2) {
			wantAny = a.hash
		}
		if a.zip != a.hash {
			rep.Histogram["hostile:zip!=hash"]++
		}
		if a.any != wantAny {
			rep.Violate("C13:any:dispatch", "MatchAny did not return the answer of the strategy its documented rule selects (hash when len(query) >= N/2, zip otherwise)",
				map[string]interface{}{"N": n, "P": p, "M": m, "bytes": vh.Hex(data), "key": vh.Hex(key[:]), "queries": hexItems(qs), "ZipMatchAny": a.zip, "HashMatchAny": a.hash, "MatchAny": a.any})
		}
		addQueryCase(n, p, m, data, key, qs, a, "hostile")
		cases.Add(fmt.Sprintf("Stream %d %s", p, vh.CoqBytes(data)), map[string]interface{}{"op": "model-internal: bstream machine reader vs bit-list reader", "P": p, "bytes": vh.Hex(data)})
	}
}

// long unary runs: quotients crossing 2^8 and 2^16 (and the exact boundaries 255/256/257, 65535/65536/65537
// with P = 0, N = 1, found by scanning items), so that a narrow quotient counter in the writer or the reader shows
func familyLongRun(rng *vh.RNG) {
	r := rng.Fork("longrun")
	type lc struct {
		p uint8
		q uint64 // M = q << p: the quotient of a single value is uniform in [0, q)
	}
	list := []lc{{0, 300}, {3, 520}, {0, 70000}, {1, 140000}, {5, 200000}, {0, 66000}}
	if cfg.Thorough() || cfg.Search {
		list = append(list, lc{8, 300000}, lc{0, 1 << 20}, lc{19, 70000}, lc{32, 66000})
	}
	maxQ := func(s spec) uint64 {
		vals := gref.Values(s.Key, gref.Modulus(uint64(len(s.Data)), s.M), s.Data)
		var last, mq uint64
		for _, v := range vals {
			if q := (v - last) >> s.P; q > mq {
				mq = q
			}
			last = v
		}
		return mq
	}
	note := func(s spec) {
		mq := maxQ(s)
		switch {
		case mq >= 1<<16:
			rep.Histogram["longrun:q>=2^16"]++
		case mq >= 1<<8:
			rep.Histogram["longrun:q>=2^8"]++
		default:
			rep.Histogram["longrun:q<2^8"]++
		}
		rep.Count("longrun", fmt.Sprintf("l%d/%d/%x", s.P, s.M, s.Key[:4]), mq >= 1<<8)
	}
	for li, c := range list {
		for _, n := range []int{1, 2, 3} {
			for rep2 := 0; rep2 < cfg.Scale(2, 6); rep2++ {
				s := spec{P: c.p, M: c.q<<c.p + uint64(r.Intn(3)), Key: randKey(r)}
				for i := 0; i < n; i++ {
					s.Data = append(s.Data, randItem(r))
				}
				note(s)
				// Coq: the two short ones (the run of exactly 65536 below also goes to Coq)
				corr := !cfg.Search && rep2 == 0 && li < 2 && n == 2
				checkBuilt(s, queriesFor(r, s.Data, true), corr, "longrun")
			}
		}
	}
	// exact boundaries: P = 0, N = 1, so the quotient is the hashed value itself
	for _, m := range []uint64{300, 70000} {
		targets := []uint64{255, 256, 257}
		if m > 1<<16 {
			targets = []uint64{65535, 65536, 65537}
		}
		key := randKey(r)
		found := map[uint64][]byte{}
		for t := 0; t < 3000000 && len(found) < len(targets); t++ {
			it := gref.LE64(r.U64())
			v := gref.Value(key, m, it)
			for _, tg := range targets {
				if v == tg && found[tg] == nil {
					found[tg] = it
				}
			}
		}
		for _, tg := range targets {
			it := found[tg]
			if it == nil {
				rep.Extra[fmt.Sprintf("longrun_boundary_not_found_%d", tg)] = true
				continue
			}
			rep.Histogram[fmt.Sprintf("longrun:q=%d", tg)]++
			s := spec{P: 0, M: m, Key: key, Data: [][]byte{it}}
			note(s)
			non := append([]byte{0xEE}, r.Bytes(9)...)
			checkBuilt(s, [][][]byte{{it}, {non}, {non, it}}, !cfg.Search && (tg <= 257 || tg == 65536), "longrun")
		}
	}
}

// codeword lengths around the machine word: one code is quotient + 1 + P bits; for every P the quotients
// that make it 63, 64 and 65 bits (P = 32: 30, 31, 32; P = 0: 62, 63, 64), and the neighbours of 32, found
// by scanning items for N = 1 (M = (q+2) << P, so the quotient is uniform in [0, q+2)), then reused in a
// three-item set
func codewordItem(r *vh.RNG, key [16]byte, p uint8, q uint64) (uint64, []byte) {
	m := (q + 2) << p
	for t := 0; t < 20000; t++ {
		it := gref.LE64(r.U64())
		if gref.Value(key, m, it)>>p == q {
			return m, it
		}
	}
	return m, nil
}

func familyCodeword(rng *vh.RNG) {
	r := rng.Fork("codeword")
	for p := 0; p <= 32; p++ {
		qs := []uint64{62 - uint64(p), 63 - uint64(p), 64 - uint64(p)}
		if p == 32 || cfg.Thorough() || cfg.Search {
			qs = append(qs, 31, 32, 33)
		}
		for _, q := range qs {
			key := randKey(r)
			m, it := codewordItem(r, key, uint8(p), q)
			if it == nil {
				rep.Extra[fmt.Sprintf("codeword_not_found_P%d_q%d", p, q)] = true
				continue
			}
			rep.Count("codeword", fmt.Sprintf("k%d/%d", p, q), true)
			rep.Histogram[fmt.Sprintf("codeword:bits=%d", q+1+uint64(p))]++
			non := append([]byte{0xEE}, r.Bytes(9)...)
			s := spec{P: uint8(p), M: m, Key: key, Data: [][]byte{it}}
			corr := !cfg.Search && (p == 32 && q == 32 || p == 0 && q == 64 || p == 31 && q == 33 || p == 8 && q == 55)
			checkBuilt(s, [][][]byte{{it}, {non, it}}, corr, "codeword")
			// the same code somewhere inside a longer stream (not byte aligned)
			s3 := spec{P: uint8(p), M: m / 3, Key: key, Data: [][]byte{it, randItem(r), randItem(r)}}
			checkBuilt(s3, [][][]byte{{it}, {non, it}}, false, "codeword")
		}
	}
}

// state left over between calls: filters of the same shape (same N, P, M, byte length) but different
// content, queried alternately; every member must still match through every form, every time
func familyInterleave(rng *vh.RNG) {
	r := rng.Fork("interleave")
	for i := 0; i < cfg.Scale(25, 120); i++ {
		p := uint8(r.Intn(21))
		if i%5 == 0 {
			p = uint8(r.Intn(33))
		}
		n := 1 + r.Intn(6)
		m := uint64(1)<<p + uint64(r.Intn(4))
		if i%4 == 0 {
			p, m = 19, 784931
		}
		mk := func() spec {
			s := spec{P: p, M: m, Key: randKey(r)}
			for k := 0; k < n; k++ {
				s.Data = append(s.Data, append([]byte{byte(k)}, r.Bytes(1+r.Intn(12))...))
			}
			return s
		}
		size := func(s spec) int {
			f, err := gcs.BuildGCSFilter(s.P, s.M, s.Key, s.Data)
			if err != nil {
				return -1
			}
			b, _ := f.Bytes()
			return len(b)
		}
		a := mk()
		la := size(a)
		var group []spec
		group = append(group, a)
		for t := 0; t < 60 && len(group) < 3; t++ {
			b := mk()
			if i%2 == 0 {
				b.Key = a.Key // same key, different items
			}
			if size(b) == la {
				group = append(group, b)
			}
		}
		rep.Count("interleave", fmt.Sprintf("i%d/%d/%d/%x", p, m, n, a.Key[:4]), len(group) > 1)
		rep.Histogram[fmt.Sprintf("interleave:group=%d", len(group))]++
		// A B (C) A B ...: each pass queries the members and a few foreign items (members of the others)
		for gi := range group {
			group[gi].Gen = fmt.Sprintf("interleave group %d, filter %d of %d of the same shape, queried alternately (stateful: re-run the family with the recorded seed); items=%v", i, gi, len(group), hexItems(group[gi].Data))
		}
		for pass := 0; pass < 2; pass++ {
			for gi, s := range group {
				var foreign [][]byte
				for gj, o := range group {
					if gj != gi {
						foreign = append(foreign, o.Data...)
					}
				}
				lists := [][][]byte{s.Data}
				if len(foreign) > 0 {
					lists = append(lists, foreign, append(append([][]byte{}, foreign...), s.Data[0]))
				}
				checkBuilt(s, lists, false, "interleave")
			}
		}
	}
}

// several filters ALIVE AT ONCE, of every size class (empty, a few hundred bytes, several kB, two above 64 KiB; thorough:
// 420 kB and above 1 MiB), queried alternately and then from several goroutines at the same time (no -race needed: every
// answer - Bytes(), N(), P(), Match, the three any-of forms - is compared with the per-filter reference).  Anything the
// package keeps between calls or shares between filters (staging buffers, caches keyed by size or shape) shows here.
type liveFilter struct {
	s       spec
	f       *gcs.Filter
	ref     []byte // reference encoding of the set
	members [][]byte
	nons    [][]byte
	nonRef  []bool
	nonAny  bool
}

func (l *liveFilter) describe() map[string]interface{} {
	return l.s.replay(map[string]interface{}{"filter_bytes": len(l.ref)})
}

// probe runs operation op (round-robin) on the filter and returns "" or a description of the disagreement.
func (l *liveFilter) probe(op, k int) (string, map[string]interface{}) {
	bad := func(what string, extra map[string]interface{}) (string, map[string]interface{}) { return what, extra }
	var out string
	var ex map[string]interface{}
	if p, msg := vh.Catch(func() {
		switch op % 6 {
		case 0:
			b, err := l.f.Bytes()
			if err != nil || !bytesEq(b, l.ref) {
				out, ex = bad("Bytes() differs from the reference encoding of this filter's set", map[string]interface{}{"impl_len": len(b), "reference_len": len(l.ref), "first_difference_at_byte": firstDiff(b, l.ref), "error": fmt.Sprint(err)})
			}
		case 1:
			if len(l.members) == 0 {
				return
			}
			m := l.members[k%len(l.members)]
			if ok, err := l.f.Match(l.s.Key, m); !ok || err != nil {
				out, ex = bad("Match misses a member", map[string]interface{}{"member": hex.EncodeToString(m), "error": fmt.Sprint(err)})
			}
		case 2:
			if len(l.nons) == 0 {
				return
			}
			j := k % len(l.nons)
			if ok, err := l.f.Match(l.s.Key, l.nons[j]); ok != l.nonRef[j] || err != nil {
				out, ex = bad("Match disagrees with the reference on a non-member", map[string]interface{}{"query": hex.EncodeToString(l.nons[j]), "Match": ok, "reference": l.nonRef[j], "error": fmt.Sprint(err)})
			}
		case 3:
			if len(l.members) == 0 {
				return
			}
			qs := append(append([][]byte{}, l.nons...), l.members[k%len(l.members)])
			z, e1 := l.f.ZipMatchAny(l.s.Key, qs)
			h, e2 := l.f.HashMatchAny(l.s.Key, qs)
			a, e3 := l.f.MatchAny(l.s.Key, qs)
			if !z || !h || !a || e1 != nil || e2 != nil || e3 != nil {
				out, ex = bad("an any-of form misses a list that ends with a member", map[string]interface{}{"queries": trimQ(qs), "ZipMatchAny": z, "HashMatchAny": h, "MatchAny": a})
			}
		case 4:
			z, e1 := l.f.ZipMatchAny(l.s.Key, l.nons)
			h, e2 := l.f.HashMatchAny(l.s.Key, l.nons)
			a, e3 := l.f.MatchAny(l.s.Key, l.nons)
			if z != l.nonAny || h != l.nonAny || a != l.nonAny || e1 != nil || e2 != nil || e3 != nil {
				out, ex = bad("an any-of form disagrees with the reference on a list of non-members", map[string]interface{}{"queries": trimQ(l.nons), "reference": l.nonAny, "ZipMatchAny": z, "HashMatchAny": h, "MatchAny": a})
			}
		default:
			if int(l.f.N()) != len(l.s.Data) || l.f.P() != l.s.P {
				out, ex = bad("N() / P() changed", map[string]interface{}{"N": l.f.N(), "P": l.f.P()})
			}
		}
	}); p {
		return "panic: " + msg, map[string]interface{}{}
	}
	return out, ex
}

func bytesEq(a, b []byte) bool { return len(a) == len(b) && firstDiff(a, b) < 0 }

func firstDiff(a, b []byte) int {
	for i := 0; i < len(a) && i < len(b); i++ {
		if a[i] != b[i] {
			return i
		}
	}
	if len(a) != len(b) {
		if len(a) < len(b) {
			return len(a)
		}
		return len(b)
	}
	return -1
}

var opNames = []string{"Bytes", "Match(member)", "Match(non-member)", "Zip/Hash/MatchAny(non-members + member)", "Zip/Hash/MatchAny(non-members)", "N/P"}

func familyShared(rng *vh.RNG) {
	r := rng.Fork("shared")
	type fc struct {
		n int
		p uint8
		m uint64
	}
	list := []fc{{30000, 19, 784931}, {300, 19, 784931}, {26000, 19, 784931}, {0, 19, 784931}, {2000, 32, 1 << 32}, {30000, 19, 784931}, {7, 5, 40}}
	if cfg.Thorough() || cfg.Search {
		list = append(list, fc{400000, 19, 784931}, fc{100000, 32, 1 << 32}, fc{400000, 19, 784931})
	}
	var live []*liveFilter
	var alive []interface{}
	for _, c := range list {
		l := &liveFilter{s: bigSpec(c.n, c.p, c.m, randKey(r), r.U64())}
		var err error
		if l.f, err = gcs.BuildGCSFilter(c.p, c.m, l.s.Key, l.s.Data); err != nil {
			rep.Violate("C13:build:error", "BuildGCSFilter failed on admissible parameters", l.s.replay(map[string]interface{}{"error": err.Error()}))
			continue
		}
		F := gref.Modulus(uint64(c.n), c.m)
		vals := make([]uint64, c.n)
		inSet := map[uint64]bool{}
		order := make([]int, c.n)
		for i, d := range l.s.Data {
			vals[i] = gref.Value(l.s.Key, F, d)
			inSet[vals[i]] = true
			order[i] = i
		}
		sort.Slice(order, func(a, b int) bool { return vals[order[a]] < vals[order[b]] })
		sorted := make([]uint64, c.n)
		for i, o := range order {
			sorted[i] = vals[o]
		}
		l.ref = gref.Pack(gref.EncodeBits(uint(c.p), sorted))
		// members: mostly of low rank (cheap: the decode stops early, so the time goes into the private copy every
		// query starts with), the last two codewords, one in the middle
		for _, rk := range []int{0, 1, 2, 3, 5, 8, 13, 21, c.n / 2, c.n - 2, c.n - 1} {
			if rk >= 0 && rk < c.n {
				l.members = append(l.members, l.s.Data[order[rk]])
			}
		}
		for k := 0; k < 6; k++ {
			it := append([]byte{0xEE}, r.Bytes(9)...)
			ref := inSet[gref.Value(l.s.Key, F, it)]
			l.nons, l.nonRef = append(l.nons, it), append(l.nonRef, ref)
			l.nonAny = l.nonAny || ref
		}
		live = append(live, l)
		alive = append(alive, l.describe())
		rep.Count("shared:filter", fmt.Sprintf("sf%d/%d/%x", c.n, c.p, l.s.Key[:4]), c.n > 0)
		switch {
		case len(l.ref) >= 1<<20:
			rep.Histogram["shared:bytes>=1MiB"]++
		case len(l.ref) >= 64<<10:
			rep.Histogram["shared:bytes>=64KiB"]++
		default:
			rep.Histogram["shared:bytes<64KiB"]++
		}
	}
	violate := func(key, mode string, fi, op int, what string, ex map[string]interface{}) {
		rp := map[string]interface{}{"sequence": "stateful: all filters below are alive at once; re-run the family with the recorded seed (bin/check --replay does)",
			"mode": mode, "filters_alive": alive, "filter": fi, "operation": opNames[op%6]}
		for k, v := range ex {
			rp[k] = v
		}
		rep.Violate(key, "with several filters alive, "+what, rp)
	}
	// (1) alternately, one goroutine: A B C ... A B C ..., every operation on every filter, three passes
	for pass := 0; pass < 3; pass++ {
		for op := 0; op < 6; op++ {
			for fi, l := range live {
				for k := 0; k < 3; k++ {
					rep.Count("shared:sequential", "", false)
					if hangs >= 3 {
						continue
					}
					type pr struct {
						what string
						ex   map[string]interface{}
					}
					ch := make(chan pr, 1)
					go func() { w, e := l.probe(op, pass*3+k+8*(k%2)); ch <- pr{w, e} }()
					var what string
					var ex map[string]interface{}
					select {
					case x := <-ch:
						what, ex = x.what, x.ex
					case <-time.After(hangLimit):
						hangs++
						rp := l.describe()
						rp["operation"] = opNames[op%6]
						rep.Violate("C13:query:hang", "a query did not return (Match / ZipMatchAny / HashMatchAny / MatchAny are loops over N and the query list)", rp)
					}
					if what != "" {
						violate("C13:shared:sequential", fmt.Sprintf("alternating calls from one goroutine, pass %d", pass), fi, op, what, ex)
					}
				}
			}
		}
	}
	// (2) the same from several goroutines at once, each walking the filters in its own order
	if hangs >= 3 {
		return
	}
	workers, iters := 8, cfg.Scale(80, 120)
	var mu sync.Mutex
	var wg sync.WaitGroup
	stop := false
	total := 0
	for w := 0; w < workers; w++ {
		wg.Add(1)
		go func(w int) {
			defer wg.Done()
			count := 0
			for it := 0; it < iters; it++ {
				for j := range live {
					fi := (j*(2*w+1) + w) % len(live)
					op := it + j + w
					if op%6 >= 3 && op%6 <= 4 && it%4 != 0 {
						op = it % 3 // the any-of forms decode the whole filter: every fourth round only
					}
					what, ex := live[fi].probe(op, it+w)
					count++
					if what != "" {
						mu.Lock()
						violate("C13:shared:concurrent", fmt.Sprintf("%d goroutines querying at the same time (nothing is written by the caller)", workers), fi, op, what, ex)
						stop = true
						mu.Unlock()
					}
				}
				mu.Lock()
				s := stop
				mu.Unlock()
				if s {
					break
				}
			}
			mu.Lock()
			total += count
			mu.Unlock()
		}(w)
	}
	finished := make(chan struct{})
	go func() { wg.Wait(); close(finished) }()
	select {
	case <-finished:
	case <-time.After(40 * hangLimit):
		hangs = 3
		mu.Lock()
		rep.Violate("C13:query:hang", "queries from several goroutines did not all return", map[string]interface{}{"sequence": "stateful: re-run the family with the recorded seed", "filters_alive": alive, "goroutines": workers})
		mu.Unlock()
		return
	}
	for i := 0; i < total; i++ {
		rep.Count("shared:concurrent", "", false)
	}
}

// query buffers reused and overwritten in place between calls (a rescan loop does this): the answers must
// depend on the CONTENT of the items at the time of the call, not on the identity of the byte slices
func familyReuse(rng *vh.RNG) {
	r := rng.Fork("reuse")
	for i := 0; i < cfg.Scale(60, 300); i++ {
		p := uint8(r.Intn(21))
		m := uint64(1)<<p + uint64(r.Intn(4))
		if i%4 == 0 {
			p, m = 19, 784931
		}
		n := 4 + r.Intn(20)
		s := spec{P: p, M: m, Key: randKey(r)}
		for k := 0; k < n; k++ {
			s.Data = append(s.Data, r.Bytes(8))
		}
		f, err := gcs.BuildGCSFilter(s.P, s.M, s.Key, s.Data)
		if err != nil {
			continue
		}
		F := gref.Modulus(uint64(n), s.M)
		refSet := map[uint64]bool{}
		for _, d := range s.Data {
			refSet[gref.Value(s.Key, F, d)] = true
		}
		k := 1 + r.Intn(6)
		if i%3 == 0 {
			k = n/2 + 1 + r.Intn(3) // at or above N/2: MatchAny takes the hash route
		}
		bufs := make([][]byte, k)
		for j := range bufs {
			bufs[j] = append([]byte{0xEE}, r.Bytes(7)...)
		}
		var history []string
		step := func(what string) bool {
			history = append(history, what+": "+strings.Join(hexItems(bufs), ","))
			a := queryAll(f, s.Key, bufs, true)
			if a.skipped {
				return false
			}
			rep.Count("reuse", fmt.Sprintf("u%d/%d/%s", i, len(history), what), true)
			if a.err != "" {
				rep.Violate("C13:query:error", "a query failed or panicked", s.replay(map[string]interface{}{"sequence_same_buffers": history, "error": a.err}))
				return false
			}
			want := false
			for j, q := range bufs {
				ref := refSet[gref.Value(s.Key, F, q)]
				want = want || ref
				if a.single[j] != ref {
					key := "C13:match:false_positive"
					if ref {
						key = "C13:match:missed"
					}
					rep.Violate(key, "Match disagrees with membership of the hashed value (query buffers reused in place)",
						s.replay(map[string]interface{}{"sequence_same_buffers": history, "query": hex.EncodeToString(q), "Match": a.single[j], "reference": ref}))
					return false
				}
			}
			if a.zip != want || a.hash != want || a.any != want {
				rep.Violate("C13:strategies:agree", "an any-of form differs from 'some queried item matches individually' when the caller reuses (overwrites in place) the byte slices of an earlier query",
					s.replay(map[string]interface{}{"sequence_same_buffers": history, "some_item_matches": want, "ZipMatchAny": a.zip, "HashMatchAny": a.hash, "MatchAny": a.any}))
				return false
			}
			return true
		}
		s.Gen = fmt.Sprintf("reuse#%d (stateful: the same query slices are overwritten in place between calls; re-run the family with the recorded seed); items=%v", i, hexItems(s.Data))
		if !step("non-members") {
			continue
		}
		j := r.Intn(k)
		copy(bufs[j], s.Data[r.Intn(n)]) // same slice, now holding a member
		if !step("one buffer overwritten with a member") {
			continue
		}
		copy(bufs[j], append([]byte{0xEE}, r.Bytes(7)...))
		if !step("overwritten back with a non-member") {
			continue
		}
		for j := range bufs {
			copy(bufs[j], s.Data[r.Intn(n)])
		}
		step("all buffers overwritten with members")
	}
}

// digests and moduli that make the middle column of the 64x64 product overflow: M = c*2^32 - 1 (so
// N*M has its low word just below 2^32) and items whose SipHash has its high word within a few
// thousand of 2^32 (found by scanning).  fastReduction itself is monitored elsewhere; this drives
// the reduction as BuildGCSFilter and the queries apply it.
func carryItems(r *vh.RNG, key [16]byte, want int, slack uint64) [][]byte {
	var out [][]byte
	for t := 0; t < 40000000 && len(out) < want; t++ {
		it := gref.LE64(r.U64())
		if gref.Sip(key, it)>>32 >= 1<<32-slack {
			out = append(out, it)
		}
	}
	return out
}

func familyReduceWrap(rng *vh.RNG) {
	r := rng.Fork("reducewrap")
	type rc struct {
		c uint64 // M = c*2^32 - 1
		n int
	}
	list := []rc{{1000, 50}, {4096, 12}, {2000, 30}, {3000, 4}}
	if cfg.Thorough() || cfg.Search {
		list = append(list, rc{500, 200}, rc{64, 2000}, rc{8000, 9})
	}
	for li, c := range list {
		m := c.c<<32 - 1
		key := randKey(r)
		F := gref.Modulus(uint64(c.n), m)
		nHi, nLo := F>>32, F&0xffffffff
		// high word of the digest within nHi/4 of 2^32 (and the low word of N*M is within N of 2^32)
		crafted := carryItems(r, key, 3, nHi/4)
		s := spec{P: 32, M: m, Key: key, Data: crafted}
		for len(s.Data) < c.n {
			s.Data = append(s.Data, randItem(r))
		}
		rep.Count("reducewrap", fmt.Sprintf("w%d/%d/%x", c.c, c.n, key[:4]), len(crafted) > 0)
		rep.Histogram[fmt.Sprintf("reducewrap:crafted=%d", len(crafted))]++
		rep.Sample(map[string]interface{}{"reducewrap": map[string]interface{}{"N": c.n, "M": strconv.FormatUint(m, 10), "N*M_hi": nHi, "2^32-N*M_lo": 1<<32 - nLo, "crafted_items": hexItems(crafted)}}, 2)
		ql := queriesFor(r, s.Data, true)
		if len(crafted) > 0 {
			ql = append(ql, crafted, [][]byte{crafted[0]})
		}
		checkBuilt(s, ql, !cfg.Search && li == 1, "reducewrap")
	}
}

// valid encodings cut at every byte length (the last code straddles or touches the end of the stream for
// every alignment of P), with the true and an excessive N: EOF rules of the bit reader on the real code
// vs the model (correspondence), plus the hostile-input monitors
func familyTruncated(rng *vh.RNG) {
	r := rng.Fork("truncated")
	ps := []uint8{0, 1, 7, 8, 9, 15, 16, 17, 24, 25, 31, 32}
	idx := 0
	for _, p := range ps {
		m := uint64(1)<<p + 3
		key := randKey(r)
		n := 3 + r.Intn(3)
		var items [][]byte
		for k := 0; k < n; k++ {
			items = append(items, randItem(r))
		}
		full, err := gcs.BuildGCSFilter(p, m, key, items)
		if err != nil {
			continue
		}
		fb, _ := full.Bytes()
		for cut := 0; cut <= len(fb); cut++ {
			for _, claimed := range []uint32{uint32(n), uint32(n) + 4} {
				idx++
				data := append([]byte{}, fb[:cut]...)
				f, err := gcs.FromBytes(claimed, p, m, data)
				if err != nil {
					rep.Violate("C13:hostile:frombytes", "FromBytes failed on admissible parameters", map[string]interface{}{"N": claimed, "P": p, "M": m, "bytes": vh.Hex(data)})
					continue
				}
				qs := items
				if idx%2 == 0 {
					qs = items[:1+r.Intn(len(items))]
				}
				a := queryAll(f, key, qs, true)
				if a.skipped {
					continue
				}
				rep.Count("truncated", fmt.Sprintf("t%d/%d/%x", p, claimed, data), cut > 0 && cut < len(fb))
				if a.err != "" {
					rep.Violate("C13:hostile:panic", "a query on a deserialised filter failed or panicked", map[string]interface{}{"N": claimed, "P": p, "M": m, "bytes": vh.Hex(data), "queries": hexItems(qs), "error": a.err})
					continue
				}
				// the uncut stream with the true N is the built filter: every item must match
				if cut == len(fb) && claimed == uint32(n) {
					for i := range qs {
						if !a.single[i] {
							rep.Violate("C13:member:missed", "a member is not matched after Bytes()/FromBytes", map[string]interface{}{"N": claimed, "P": p, "M": strconv.FormatUint(m, 10), "key": vh.Hex(key[:]), "items": hexItems(items), "member": hex.EncodeToString(qs[i])})
						}
					}
				}
				wantAny := a.zip
				if len(qs) >= int(claimed/2) {
					wantAny = a.hash
				}
				if a.any != wantAny {
					rep.Violate("C13:any:dispatch", "MatchAny did not return the answer of the strategy its documented rule selects (hash when len(query) >= N/2, zip otherwise)",
						map[string]interface{}{"N": claimed, "P": p, "M": m, "bytes": vh.Hex(data), "key": vh.Hex(key[:]), "queries": hexItems(qs), "ZipMatchAny": a.zip, "HashMatchAny": a.hash, "MatchAny": a.any})
				}
				if !cfg.Search && (cfg.Thorough() || idx%3 == 0) {
					addQueryCase(claimed, p, m, data, key, qs, a, "truncated")
					if idx%6 == 0 {
						cases.Add(fmt.Sprintf("Stream %d %s", p, vh.CoqBytes(data)), map[string]interface{}{"op": "model-internal: bstream machine reader vs bit-list reader", "P": p, "bytes": vh.Hex(data)})
					}
				}
			}
		}
	}
}

func familyPrimitives(rng *vh.RNG) {
	r := rng.Fork("prim")
	// SipHash: Coq model vs github.com/aead/siphash (and the independent dchest implementation as a monitor)
	for i := 0; i < cfg.Scale(40, 120); i++ {
		var key [16]byte
		copy(key[:], r.Bytes(16))
		if i == 0 {
			for j := range key {
				key[j] = byte(j)
			}
		}
		ln := i % 40
		if i > 80 {
			ln = 250 + r.Intn(20) // length counter wraps at 256
		}
		msg := r.Bytes(ln)
		out := siphash.Sum64(msg, &key)
		rep.Count("siphash", fmt.Sprintf("s%x%x", key, msg), true)
		if ref := gref.Sip(key, msg); ref != out {
			rep.Violate("C13:dep:siphash", "two SipHash-2-4 implementations disagree", map[string]interface{}{"key": vh.Hex(key[:]), "msg": vh.Hex(msg), "aead": out, "dchest": ref})
		}
		cases.Add(fmt.Sprintf("Sip %s %s %d", vh.CoqBytes(key[:]), vh.CoqBytes(msg), out), map[string]interface{}{"op": "siphash.Sum64", "key": vh.Hex(key[:]), "msg": vh.Hex(msg), "impl": out})
	}
	// fastReduction against (v*n)>>64 with big integers
	edge := []uint64{0, 1, 2, 0xffffffff, 0x100000000, 0x100000001, 0xfffffffe00000001, 0xffffffff00000000, 0x8000000000000000, 0xffffffffffffffff, 0x00000001ffffffff, 0xffffffff00000001}
	total := cfg.Scale(20000, 400000)
	for i := 0; i < total; i++ {
		var v, n uint64
		switch {
		case i < len(edge)*len(edge):
			v, n = edge[i/len(edge)], edge[i%len(edge)]
		case i%3 == 0:
			v, n = r.U64(), r.U64()
		case i%3 == 1:
			v, n = r.U64(), uint64(r.Intn(100000)+1)*784931 // real moduli
		default:
			v, n = r.U64()|0xffffffff, r.U64()|0xffffffff00000000 // carry-heavy
		}
		out := gcs.VerifFastReduction(v, n>>32, uint64(uint32(n)))
		nontrivial := n >= 1<<32
		rep.Count("fastReduction", fmt.Sprintf("r%d/%d", v, n), nontrivial)
		if ref := gref.Reduce(v, n); ref != out {
			rep.Violate("C14:fastreduction:spec", "fastReduction(v, n>>32, uint32(n)) differs from floor(v*n/2^64)", map[string]interface{}{"v": strconv.FormatUint(v, 10), "n": strconv.FormatUint(n, 10), "impl": strconv.FormatUint(out, 10), "reference": strconv.FormatUint(ref, 10)})
		}
		if i < cfg.Scale(250, 600) {
			cases.Add(fmt.Sprintf("Red %d %d %d %d", v, n>>32, uint64(uint32(n)), out), map[string]interface{}{"op": "fastReduction", "v": strconv.FormatUint(v, 10), "n": strconv.FormatUint(n, 10), "impl": strconv.FormatUint(out, 10)})
		}
	}
}

// ---------- allocation probe (child process under an address-space cap) ----------
type probeSpec struct {
	P      uint8  `json:"P"`
	M      uint64 `json:"M"`
	NBytes string `json:"nbytes"` // hex, N-prefixed serialisation
}
type probeOut struct {
	N          uint32 `json:"N"`
	Len        int    `json:"len"`
	AllocBytes uint64 `json:"alloc_bytes"`
	Result     bool   `json:"result"`
	Err        string `json:"err"`
}

func probeChild() {
	var ps probeSpec
	if err := json.Unmarshal([]byte(os.Getenv("VERIF_GCS_PROBE")), &ps); err != nil {
		fmt.Println(`{"err":"bad probe spec"}`)
		os.Exit(0)
	}
	raw, _ := hex.DecodeString(ps.NBytes)
	var out probeOut
	f, err := gcs.FromNBytes(ps.P, ps.M, raw)
	if err != nil {
		out.Err = err.Error()
	} else {
		fb, _ := f.Bytes()
		out.N, out.Len = f.N(), len(fb)
		var key [16]byte
		var m0, m1 runtime.MemStats
		runtime.GC()
		runtime.ReadMemStats(&m0)
		res, err := f.HashMatchAny(key, [][]byte{{1, 2, 3}})
		runtime.ReadMemStats(&m1)
		out.AllocBytes = m1.TotalAlloc - m0.TotalAlloc
		out.Result = res
		if err != nil {
			out.Err = err.Error()
		}
	}
	j, _ := json.Marshal(out)
	fmt.Println(string(j))
	os.Exit(0)
}

func familyAlloc(rng *vh.RNG) {
	r := rng.Fork("alloc")
	self, err := os.Executable()
	if err != nil {
		rep.Extra["alloc_probe"] = "skipped: " + err.Error()
		return
	}
	type probe struct {
		p    uint8
		n    uint64
		body []byte
	}
	probes := []probe{
		{19, 0xfffffffe, []byte{0xff, 0x00, 0x00}}, // fe feffffff ff 00 00 : the repaired defect (N = 2^32-2)
		{19, 0xffffffff, []byte{0x00, 0x00}},       // N = 2^32-1
		{0, 0xffffffff, []byte{0xaa, 0x55, 0x00}},  // P = 0: at most 24 values
		{32, 50000000, r.Bytes(40)},                // 5*10^7 claimed, 40 bytes
		{5, 3000000, r.Bytes(1 + r.Intn(64))},
	}
	for i := 0; i < cfg.Scale(2, 10); i++ {
		probes = append(probes, probe{uint8(r.Intn(33)), uint64(1000000 + r.Intn(1<<31)), r.Bytes(r.Intn(200))})
	}
	for _, pr := range probes {
		nb := append(gref.VarInt(pr.n), pr.body...)
		ps := probeSpec{P: pr.p, M: 784931, NBytes: hex.EncodeToString(nb)}
		j, _ := json.Marshal(ps)
		// 3 GiB of address space: far above what the repaired code needs, far below the 2^32-entry map
		cmd := exec.Command("sh", "-c", "ulimit -v 3145728; exec \"$0\"", self)
		cmd.Env = append(os.Environ(), "VERIF_GCS_PROBE="+string(j), "GOGC=off", "GOMAXPROCS=2")
		done := make(chan struct{})
		var outb []byte
		var cerr error
		go func() { outb, cerr = cmd.Output(); close(done) }()
		select {
		case <-done:
		case <-time.After(150 * time.Second):
			if cmd.Process != nil {
				cmd.Process.Kill()
			}
			<-done
			cerr = fmt.Errorf("timeout after 150 s")
		}
		bound := uint64(len(pr.body)) * 8 / (uint64(pr.p) + 1)
		replay := map[string]interface{}{"call": "gcs.FromNBytes(P, M, nbytes) then HashMatchAny(zero key, [010203])", "P": pr.p, "M": 784931, "nbytes": ps.NBytes,
			"claimed_N": pr.n, "filter_len": len(pr.body), "values_the_bytes_can_hold": bound}
		rep.Count("allocprobe", ps.NBytes+strconv.Itoa(int(pr.p)), true)
		var po probeOut
		if cerr != nil || json.Unmarshal(lastLine(outb), &po) != nil {
			msg := "no output"
			if cerr != nil {
				msg = cerr.Error()
				if ee, ok := cerr.(*exec.ExitError); ok {
					msg += ": " + firstLine(ee.Stderr)
				}
			}
			replay["child"] = msg
			rep.Violate("C13:alloc:hint", "HashMatchAny on a short filter claiming a huge N died under a 3 GiB address-space cap (allocation driven by the claimed N)", replay)
			continue
		}
		// a map pre-sized for h entries costs well under 64 bytes per entry; 1 MiB of slack for the rest
		limit := uint64(1<<20) + 64*(bound+1)
		replay["allocated_bytes"] = po.AllocBytes
		replay["limit_bytes"] = limit
		if po.Err == "" && po.AllocBytes > limit {
			rep.Violate("C13:alloc:hint", "HashMatchAny allocated far more than the filter bytes can justify (pre-sizing from the claimed N)", replay)
		}
		rep.Sample(map[string]interface{}{"alloc_probe": replay}, 3)
	}
}

func lastLine(b []byte) []byte {
	s := strings.TrimSpace(string(b))
	if i := strings.LastIndexByte(s, '\n'); i >= 0 {
		s = s[i+1:]
	}
	return []byte(s)
}
func firstLine(b []byte) string {
	s := strings.TrimSpace(string(b))
	if i := strings.IndexByte(s, '\n'); i >= 0 {
		s = s[:i]
	}
	if len(s) > 200 {
		s = s[:200]
	}
	return s
}

// ---------- the production build configuration (child process built without the verif tag) ----------
// The harness is built with -tags verif (the add-only hook files need it); the library is used without.  A file
// constrained by `!verif` - or anything else that differs between the two configurations - is invisible to every
// monitor above.  cmd/c13/prod is a public-API-only monitor program; it is built here, at run time, with the same
// module configuration but WITHOUT the tag, and its findings are merged into this report.
func familyProd(rng *vh.RNG) {
	wd, _ := os.Getwd()
	if _, err := os.Stat(filepath.Join(wd, "cmd", "c13", "prod", "main.go")); err != nil {
		rep.Extra["prod_configuration"] = "skipped: not run from the harness directory (bin/check runs it there)"
		return
	}
	if strings.Contains(os.Getenv("GOFLAGS"), "-tags") {
		rep.Extra["prod_configuration"] = "skipped: GOFLAGS sets build tags"
		return
	}
	bin := filepath.Join(cfg.Out, "c13prod")
	run := func(limit time.Duration, name string, args ...string) ([]byte, error) {
		cmd := exec.Command(name, args...)
		done := make(chan struct{})
		var outb []byte
		var err error
		go func() { outb, err = cmd.CombinedOutput(); close(done) }()
		select {
		case <-done:
		case <-time.After(limit):
			if cmd.Process != nil {
				cmd.Process.Kill()
			}
			<-done
			err = fmt.Errorf("timeout after %v", limit)
		}
		return outb, err
	}
	t0 := time.Now()
	if outb, err := run(600*time.Second, "go", "build", "-o", bin, "./cmd/c13/prod"); err != nil {
		rep.Violate("C13:prod:build", "the gcs package (or the public-API monitor program) does not build in the production configuration, i.e. without the verif tag",
			map[string]interface{}{"build_configuration": "production (no verif tag)", "command": "go build ./cmd/c13/prod (in /verif/harness)", "error": err.Error(), "output": firstLine(outb)})
		return
	}
	tier := "quick"
	if cfg.Thorough() || cfg.Search {
		tier = "thorough"
	}
	outb, err := run(400*time.Second, bin, strconv.FormatUint(cfg.Seed, 10), tier)
	var po struct {
		WithVerifTag bool           `json:"with_verif_tag"`
		Executions   int            `json:"executions"`
		Filters      int            `json:"filters"`
		Histogram    map[string]int `json:"histogram"`
		Violations   []struct {
			Key    string                 `json:"key"`
			What   string                 `json:"what"`
			Replay map[string]interface{} `json:"replay"`
		} `json:"violations"`
	}
	if err != nil || json.Unmarshal(lastLine(outb), &po) != nil {
		rep.Violate("C13:prod:run", "the public-API monitor program built in the production configuration (no verif tag) died",
			map[string]interface{}{"build_configuration": "production (no verif tag)", "error": fmt.Sprint(err), "output": firstLine(outb)})
		return
	}
	rep.Extra["prod_configuration"] = map[string]interface{}{"with_verif_tag": po.WithVerifTag, "filters": po.Filters, "executions": po.Executions, "seconds": int(time.Since(t0).Seconds())}
	for i := 0; i < po.Executions; i++ {
		rep.Count("prod", "", false)
	}
	for i := 0; i < po.Filters; i++ {
		rep.Count("prod:filter", fmt.Sprintf("pf%d", i), true)
	}
	for k, v := range po.Histogram {
		rep.Histogram[k] += v
	}
	for _, v := range po.Violations {
		rep.Violate(v.Key, v.What+" [production build configuration: no verif tag]", v.Replay)
	}
}

// ---------- replay ----------
func runReplay(path string) {
	raw, err := os.ReadFile(path)
	vh.Must(err)
	var doc struct {
		Input map[string]interface{} `json:"input"`
	}
	vh.Must(json.Unmarshal(raw, &doc))
	in := doc.Input
	if _, ok := in["nbytes"]; ok { // allocation probe
		familyAlloc(vh.NewRNG(cfg.Seed))
		return
	}
	if _, ok := in["build_configuration"]; ok { // found by the program built without the verif tag
		familyProd(vh.NewRNG(cfg.Seed))
		return
	}
	s := spec{}
	if v, ok := in["P"].(float64); ok {
		s.P = uint8(v)
	}
	if v, ok := in["M"].(string); ok {
		s.M, _ = strconv.ParseUint(v, 10, 64)
	}
	if v, ok := in["key"].(string); ok {
		b, _ := hex.DecodeString(v)
		copy(s.Key[:], b)
	}
	if v, ok := in["items"].([]interface{}); ok {
		for _, x := range v {
			b, _ := hex.DecodeString(fmt.Sprint(x))
			s.Data = append(s.Data, b)
		}
	} else if g, ok := in["set"].(string); ok && strings.HasPrefix(g, "LE64(0..") {
		hi, _ := strconv.Atoi(strings.TrimSuffix(strings.TrimPrefix(g, "LE64(0.."), ")"))
		s.Data, s.Gen = le64Range(hi+1), g
	} else if d, ok2 := parseBigSpec(fmt.Sprint(in["set"])); ok2 {
		s.Data, s.Gen = d, fmt.Sprint(in["set"])
	}
	_, long := in["queries"].(map[string]interface{}) // a query list too long to print: re-run the families
	_, stateful := in["sequence"]
	if s.Data == nil && in["items"] == nil || long || stateful {
		// generated big sets / stateful sequences: re-run the families with the recorded seed
		rng := vh.NewRNG(cfg.Seed)
		familyQuerySize(rng)
		familyShared(rng)
		familyProd(rng)
		familyBig(rng)
		familyCollision(rng)
		familyLongRun(rng)
		familyCodeword(rng)
		familyInterleave(rng)
		familyReuse(rng)
		familyReduceWrap(rng)
		return
	}
	var qs [][]byte
	for _, k := range []string{"queries", "query", "member"} {
		switch v := in[k].(type) {
		case []interface{}:
			for _, x := range v {
				b, _ := hex.DecodeString(fmt.Sprint(x))
				qs = append(qs, b)
			}
		case string:
			b, _ := hex.DecodeString(v)
			qs = append(qs, b)
		}
	}
	checkBuilt(s, [][][]byte{qs}, false, "replay")
}

func main() {
	if os.Getenv("VERIF_GCS_PROBE") != "" {
		probeChild()
		return
	}
	cfg = vh.ParseFlags("C13")
	rep = vh.NewReport(cfg)
	cases = vh.NewCases(cfg, "Run.Run_C13", 80)
	rep.Rule = "a filter build counts when N > 0; a query list when the filter and the list are non-empty; fastReduction when n >= 2^32 (both halves of the 128-bit product in play); collision2^32 = constructed queries whose hashed value differs from a member's by a multiple of 2^32"
	rng := vh.NewRNG(cfg.Seed)
	if cfg.Replay != "" {
		runReplay(cfg.Replay)
	} else {
		secs := map[string]float64{}
		timed := func(name string, f func(*vh.RNG)) {
			t0 := time.Now()
			f(rng)
			secs[name] = float64(int(time.Since(t0).Seconds()*10)) / 10
		}
		timed("small", familySmall)
		timed("zero", familyZero)
		timed("big", familyBig)
		timed("querysize", familyQuerySize)
		timed("shared", familyShared)
		timed("prod", familyProd)
		timed("collision", familyCollision)
		timed("alloc", familyAlloc)
		timed("longrun", familyLongRun)
		timed("codeword", familyCodeword)
		timed("interleave", familyInterleave)
		timed("reuse", familyReuse)
		timed("reducewrap", familyReduceWrap)
		if !cfg.Search {
			timed("hostile", familyHostile)
			timed("truncated", familyTruncated)
			timed("primitives", familyPrimitives)
		}
		rep.Extra["family_seconds"] = secs
	}
	rep.Cases = cases.Len()
	rep.Extra["duplicate_cases_dropped"] = cases.Dups
	_, err := cases.Flush()
	vh.Must(err)
	vh.Must(rep.Write(cfg))
	fmt.Printf("c13: %d implementation executions, %d correspondence cases, %d monitor violations\n", rep.Evaluations, rep.Cases, len(rep.Violations))
}

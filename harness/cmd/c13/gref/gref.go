// Package gref is an independent reference for Golomb-coded sets, written from
// the BIP158 text with big integers and explicit bit lists (no code shared with
// /repo/gcs or its dependencies: SipHash comes from github.com/dchest/siphash,
// the implementation under test uses github.com/aead/siphash).
package gref

import (
	"encoding/binary"
	"math/big"
	"sort"
	"strconv"
	"strings"

	dsip "github.com/dchest/siphash"
)

var two64 = new(big.Int).Lsh(big.NewInt(1), 64)

// Sip is SipHash-2-4 of msg under the 16-byte key.
func Sip(key [16]byte, msg []byte) uint64 {
	return dsip.Hash(binary.LittleEndian.Uint64(key[0:8]), binary.LittleEndian.Uint64(key[8:16]), msg)
}

// Reduce is floor(v * f / 2^64).
func Reduce(v, f uint64) uint64 {
	p := new(big.Int).Mul(new(big.Int).SetUint64(v), new(big.Int).SetUint64(f))
	return p.Rsh(p, 64).Uint64()
}

// Modulus is N*M reduced mod 2^64 (what a uint64 product holds).
func Modulus(n uint64, m uint64) uint64 {
	p := new(big.Int).Mul(new(big.Int).SetUint64(n), new(big.Int).SetUint64(m))
	return p.Mod(p, two64).Uint64()
}

// Value maps one item into [0, F).
func Value(key [16]byte, f uint64, item []byte) uint64 { return Reduce(Sip(key, item), f) }

// Values returns the sorted hashed values of data under modulus f.
func Values(key [16]byte, f uint64, data [][]byte) []uint64 {
	vs := make([]uint64, len(data))
	for i, d := range data {
		vs[i] = Value(key, f, d)
	}
	sort.Slice(vs, func(i, j int) bool { return vs[i] < vs[j] })
	return vs
}

// EncodeBits is the Golomb-Rice code of the deltas of the sorted values: quotient in unary
// (ones, then a zero), remainder in P bits, most significant first.
func EncodeBits(p uint, sorted []uint64) []bool {
	var bits []bool
	last := new(big.Int)
	for _, v := range sorted {
		bv := new(big.Int).SetUint64(v)
		d := new(big.Int).Sub(bv, last)
		q := new(big.Int).Rsh(d, p)
		for i := uint64(0); i < q.Uint64(); i++ {
			bits = append(bits, true)
		}
		bits = append(bits, false)
		for i := int(p) - 1; i >= 0; i-- {
			bits = append(bits, d.Bit(i) == 1)
		}
		last = bv
	}
	return bits
}

// Pack writes bits most significant first, zero padding the last byte.
func Pack(bits []bool) []byte {
	out := make([]byte, (len(bits)+7)/8)
	for i, b := range bits {
		if b {
			out[i/8] |= 0x80 >> uint(i%8)
		}
	}
	return out
}

// Unpack is the bit list of a byte string.
func Unpack(b []byte) []bool {
	bits := make([]bool, 0, 8*len(b))
	for _, x := range b {
		for i := 7; i >= 0; i-- {
			bits = append(bits, x>>uint(i)&1 == 1)
		}
	}
	return bits
}

// Decode reads values until the bits run out (max < 0) or max values were read.
// It returns the running sums (mod 2^64) and the number of bits consumed by complete codes.
func Decode(p uint, data []byte, max int) (vals []uint64, used int) {
	bits := Unpack(data)
	pos := 0
	var last uint64
	for max < 0 || len(vals) < max {
		i := pos
		var q uint64
		for i < len(bits) && bits[i] {
			q++
			i++
		}
		if i >= len(bits) {
			break
		}
		i++ // the terminating zero
		if i+int(p) > len(bits) {
			break
		}
		var r uint64
		for k := 0; k < int(p); k++ {
			r <<= 1
			if bits[i+k] {
				r |= 1
			}
		}
		i += int(p)
		last += q<<p + r
		vals = append(vals, last)
		pos = i
	}
	return vals, pos
}

// Contains reports whether v occurs in the sorted or unsorted list vs.
func Contains(vs []uint64, v uint64) bool {
	for _, x := range vs {
		if x == v {
			return true
		}
	}
	return false
}

// VarInt is Bitcoin's CompactSize encoding.
func VarInt(n uint64) []byte {
	switch {
	case n < 0xfd:
		return []byte{byte(n)}
	case n <= 0xffff:
		return []byte{0xfd, byte(n), byte(n >> 8)}
	case n <= 0xffffffff:
		return []byte{0xfe, byte(n), byte(n >> 8), byte(n >> 16), byte(n >> 24)}
	}
	b := make([]byte, 9)
	b[0] = 0xff
	binary.LittleEndian.PutUint64(b[1:], n)
	return b
}

// CoqItems prints a list of byte strings as a Coq list (list N).
func CoqItems(items [][]byte) string {
	if len(items) == 0 {
		return "[]"
	}
	var sb strings.Builder
	sb.WriteByte('[')
	for i, it := range items {
		if i > 0 {
			sb.WriteString("; ")
		}
		sb.WriteByte('[')
		for j, x := range it {
			if j > 0 {
				sb.WriteByte(';')
			}
			sb.WriteString(strconv.Itoa(int(x)))
		}
		sb.WriteByte(']')
	}
	sb.WriteByte(']')
	return sb.String()
}

// CoqBools prints a list of booleans.
func CoqBools(bs []bool) string {
	it := make([]string, len(bs))
	for i, b := range bs {
		if b {
			it[i] = "true"
		} else {
			it[i] = "false"
		}
	}
	return "[" + strings.Join(it, ";") + "]"
}

// LE64 is the 8-byte little-endian encoding of v.
func LE64(v uint64) []byte {
	b := make([]byte, 8)
	binary.LittleEndian.PutUint64(b, v)
	return b
}

//go:build !verif

package main

// withVerifTag records the build configuration of this binary: the production configuration, no verif tag.
const withVerifTag = false

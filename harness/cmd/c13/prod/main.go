// Command prod is the C13 monitor program for the PRODUCTION build configuration: it is built by the c13 harness at
// run time WITHOUT the `verif` build tag (the harness itself needs the tag for the add-only hook files) and uses the
// public API of /repo/gcs only.  Whatever a file constrained by `!verif` (or by anything else the tagged harness
// build leaves out) does to filters is seen here.  Same predicates as the harness: members match through every query
// form (chosen evenly and by rank in the sorted stream), non-members agree with the independent reference, the any-of
// forms agree with "some item matches", bytes and serialisations equal the reference encoding.
// Output: one JSON object on stdout.
package main

import (
	"bytes"
	"encoding/hex"
	"encoding/json"
	"fmt"
	"os"
	"sort"
	"strconv"
	"time"

	"github.com/gcash/bchutil/gcs"

	"verif/harness/cmd/c13/gref"
)

type violation struct {
	Key    string                 `json:"key"`
	What   string                 `json:"what"`
	Replay map[string]interface{} `json:"replay"`
}

type output struct {
	WithVerifTag bool           `json:"with_verif_tag"`
	Executions   int            `json:"executions"`
	Filters      int            `json:"filters"`
	Histogram    map[string]int `json:"histogram"`
	Violations   []violation    `json:"violations"`
}

var out = output{WithVerifTag: withVerifTag, Histogram: map[string]int{}}

func violate(key, what string, replay map[string]interface{}) {
	replay["build_configuration"] = "production: harness/cmd/c13/prod built without -tags verif, public API only"
	for _, v := range out.Violations {
		if v.Key == key {
			return
		}
	}
	out.Violations = append(out.Violations, violation{key, what, replay})
}

// splitmix64, as vh.RNG
type rng struct{ s uint64 }

func (r *rng) u64() uint64 {
	r.s += 0x9E3779B97F4A7C15
	z := r.s
	z = (z ^ (z >> 30)) * 0xBF58476D1CE4E5B9
	z = (z ^ (z >> 27)) * 0x94D049BB133111EB
	return z ^ (z >> 31)
}

// catch runs f under a watchdog; a panic is returned as text; a call that does not return ends the program with
// a finding (the stuck goroutine cannot be stopped).
var current map[string]interface{}

func catch(f func()) string {
	done := make(chan string, 1)
	go func() {
		defer func() {
			if e := recover(); e != nil {
				done <- fmt.Sprint(e)
			}
		}()
		f()
		done <- ""
	}()
	select {
	case msg := <-done:
		return msg
	case <-time.After(25 * time.Second):
		rp := map[string]interface{}{}
		for k, v := range current {
			rp[k] = v
		}
		violate("C13:query:hang", "a call did not return within 25 s", rp)
		j, _ := json.Marshal(out)
		fmt.Println(string(j))
		os.Exit(0)
	}
	return ""
}

func check(r *rng, n int, p uint8, m uint64) {
	var key [16]byte
	for i := 0; i < 16; i += 8 {
		copy(key[i:], gref.LE64(r.u64()))
	}
	seed := r.u64()
	data := make([][]byte, n)
	for i := range data {
		data[i] = gref.LE64(uint64(i)*0x9E3779B97F4A7C15 + seed)
	}
	desc := func(extra map[string]interface{}) map[string]interface{} {
		mm := map[string]interface{}{"P": p, "M": strconv.FormatUint(m, 10), "key": hex.EncodeToString(key[:]), "N": n,
			"set": fmt.Sprintf("N=%d items: LE64(x*0x9E3779B97F4A7C15 + %d) for x in 0..N-1", n, seed)}
		for k, v := range extra {
			mm[k] = v
		}
		return mm
	}
	current = desc(nil)
	var f *gcs.Filter
	var err error
	if msg := catch(func() { f, err = gcs.BuildGCSFilter(p, m, key, data) }); msg != "" || err != nil {
		violate("C13:build:error", "BuildGCSFilter failed or panicked on admissible parameters", desc(map[string]interface{}{"panic": msg, "error": fmt.Sprint(err)}))
		return
	}
	out.Filters++
	out.Histogram[fmt.Sprintf("prod:N=%d,P=%d", n, p)]++
	F := gref.Modulus(uint64(n), m)
	vals := make([]uint64, n)
	inSet := map[uint64]bool{}
	order := make([]int, n)
	for i, d := range data {
		vals[i] = gref.Value(key, F, d)
		inSet[vals[i]] = true
		order[i] = i
	}
	sort.Slice(order, func(a, b int) bool { return vals[order[a]] < vals[order[b]] })
	sorted := make([]uint64, n)
	for i, o := range order {
		sorted[i] = vals[o]
	}
	ref := gref.Pack(gref.EncodeBits(uint(p), sorted))
	// bytes and serialisations
	if msg := catch(func() {
		fb, _ := f.Bytes()
		nb, e1 := f.NBytes()
		pb, e2 := f.PBytes()
		npb, e3 := f.NPBytes()
		out.Executions += 4
		vi := gref.VarInt(uint64(n))
		if !bytes.Equal(fb, ref) || int(f.N()) != n || f.P() != p {
			violate("C14:bytes:bip158", "filter bytes / N / P differ from the reference Golomb-Rice encoding", desc(map[string]interface{}{"impl_len": len(fb), "reference_len": len(ref)}))
		}
		if e1 != nil || e2 != nil || e3 != nil || !bytes.Equal(nb, append(append([]byte{}, vi...), ref...)) || !bytes.Equal(pb, append([]byte{p}, ref...)) ||
			!bytes.Equal(npb, append(append(append([]byte{}, vi...), p), ref...)) {
			violate("C14:ser:concat", "NBytes / PBytes / NPBytes is not CompactSize(N) / P / both followed by the filter bytes", desc(nil))
		}
		g, err := gcs.FromNBytes(p, m, nb)
		if err != nil {
			violate("C14:roundtrip:error", "FromNBytes rejected NBytes()", desc(map[string]interface{}{"error": err.Error()}))
		} else if gb, _ := g.Bytes(); !bytes.Equal(gb, ref) || g.N() != f.N() {
			violate("C14:roundtrip:fields", "a filter rebuilt from NBytes() has different N / bytes", desc(nil))
		}
	}); msg != "" {
		violate("C14:ser:panic", "a serialisation method panicked", desc(map[string]interface{}{"panic": msg}))
	}
	// members: evenly spread and by rank
	idx := map[int]int{} // index in data -> rank (or -1)
	step := 1
	if n > 60 {
		step = n / 60
	}
	for i := 0; i < n; i += step {
		idx[i] = -1
	}
	ranks := []int{0, 1, n - 1, n - 2, n - 3, n / 2}
	for sh := uint(8); sh <= 20; sh++ {
		for d := -1; d <= 1; d++ {
			ranks = append(ranks, 1<<sh+d, n%(1<<sh)+d)
		}
	}
	for _, rk := range ranks {
		if rk >= 0 && rk < n {
			idx[order[rk]] = rk
		}
	}
	keys := make([]int, 0, len(idx))
	for i := range idx {
		keys = append(keys, i)
	}
	sort.Ints(keys)
	for _, i := range keys {
		d := data[i]
		var a, z, h, y bool
		current = desc(map[string]interface{}{"queries": []string{hex.EncodeToString(d)}})
		msg := catch(func() {
			a, _ = f.Match(key, d)
			z, _ = f.ZipMatchAny(key, [][]byte{d})
			h, _ = f.HashMatchAny(key, [][]byte{d})
			y, _ = f.MatchAny(key, [][]byte{d})
		})
		out.Executions += 4
		if msg != "" || !a || !z || !h || !y {
			violate("C13:member:missed", "a member of the set is not reported by every query form",
				desc(map[string]interface{}{"member": hex.EncodeToString(d), "member_rank_in_sorted_stream": idx[i], "Match": a, "ZipMatchAny": z, "HashMatchAny": h, "MatchAny": y, "panic": msg}))
			break
		}
	}
	// non-members and any-of lists (sizes around 2^8) against the reference
	for _, k := range []int{1, 3, 255, 256, 257} {
		qs := make([][]byte, k)
		want := false
		for j := range qs {
			qs[j] = append([]byte{0xEE}, gref.LE64(r.u64())...)
			want = want || inSet[gref.Value(key, F, qs[j])]
		}
		withMember := append(append([][]byte{}, qs...), nil)
		if n > 0 {
			withMember[k] = data[order[n-1]]
		} else {
			withMember = withMember[:k]
		}
		for li, l := range [][][]byte{qs, withMember} {
			w := want || (li == 1 && n > 0)
			var z, h, y bool
			current = desc(map[string]interface{}{"queries_count": len(l), "calls": "ZipMatchAny / HashMatchAny / MatchAny"})
			if len(l) <= 300 {
				hx := make([]string, len(l))
				for j := range l {
					hx[j] = hex.EncodeToString(l[j])
				}
				current["queries"] = hx
			}
			msg := catch(func() {
				z, _ = f.ZipMatchAny(key, l)
				h, _ = f.HashMatchAny(key, l)
				y, _ = f.MatchAny(key, l)
			})
			out.Executions += 3
			if msg != "" || z != w || h != w || y != w {
				rp := desc(map[string]interface{}{"some_item_matches": w, "ZipMatchAny": z, "HashMatchAny": h, "MatchAny": y, "panic": msg})
				if len(l) <= 300 {
					hx := make([]string, len(l))
					for j := range l {
						hx[j] = hex.EncodeToString(l[j])
					}
					rp["queries"] = hx
				}
				violate("C13:strategies:agree", "an any-of form differs from 'some queried item matches individually'", rp)
			}
		}
		if k <= 3 {
			for _, q := range qs {
				var a bool
				catch(func() { a, _ = f.Match(key, q) })
				out.Executions++
				if refA := inSet[gref.Value(key, F, q)]; a != refA {
					k := "C13:match:false_positive"
					if refA {
						k = "C13:match:missed"
					}
					violate(k, "Match disagrees with membership of the hashed value in the set of hashed members (independent reference)", desc(map[string]interface{}{"query": hex.EncodeToString(q), "Match": a, "reference": refA}))
				}
			}
		}
	}
}

func main() {
	seed := uint64(1)
	thorough := false
	if len(os.Args) > 1 {
		seed, _ = strconv.ParseUint(os.Args[1], 10, 64)
	}
	if len(os.Args) > 2 && os.Args[2] == "thorough" {
		thorough = true
	}
	r := &rng{s: seed*0x9E3779B97F4A7C15 + 0x70726f64}
	for _, n := range []int{0, 1, 2, 5, 40, 255, 256, 257, 300, 1000, 6000} {
		check(r, n, 19, 784931)
	}
	for _, c := range []struct {
		n int
		p uint8
		m uint64
	}{{300, 0, 1}, {300, 8, 300}, {2000, 32, 1 << 32}, {513, 32, 1<<33 + 5}, {70000, 19, 784931}} {
		check(r, c.n, c.p, c.m)
	}
	if thorough {
		check(r, 100000, 32, 1<<32)
		check(r, 140000, 19, 784931)
		check(r, 400000, 19, 784931)
	}
	j, _ := json.Marshal(out)
	fmt.Println(string(j))
}

//go:build verif

package main

// withVerifTag records the build configuration of this binary (it is meant to be built WITHOUT the tag).
const withVerifTag = true

//go:build verif

package main

// Differential tests of the third mode on the REAL bloom, hdkeychain and block/tx functions of /repo
// (coordinator's request: a Go-vs-Gallina run for every G6/G7 function kept).  Dependencies the Gallina
// side cannot compute (txscript, HMAC-SHA512, secp256k1, RIPEMD-160, transaction hashes) are oracle tables
// computed here by the real libraries and passed into the Coq file as association lists.
//
//   cd /verif/harness && go test -tags verif ./cmd/gotrans -run TestDifferential6

import (
	"bytes"
	"crypto/hmac"
	"crypto/sha512"
	"fmt"
	"math/rand"
	"os"
	"os/exec"
	"path/filepath"
	"regexp"
	"sort"
	"strings"
	"testing"

	"github.com/gcash/bchd/bchec"
	"github.com/gcash/bchd/chaincfg"
	"github.com/gcash/bchd/chaincfg/chainhash"
	"github.com/gcash/bchd/txscript"
	"github.com/gcash/bchd/wire"
	"github.com/gcash/bchutil"
	"github.com/gcash/bchutil/bloom"
	"github.com/gcash/bchutil/hdkeychain"
)

type coqRun struct {
	t     *testing.T
	calls []string
	defs  strings.Builder
}

func (r *coqRun) add(lhs, rhs string) { r.calls = append(r.calls, fmt.Sprintf("eqz (%s) %s", lhs, rhs)) }

func zOk(parts ...string) string { return "(Ok [" + strings.Join(parts, ";") + "])" }
func zBytes(b []byte) []string {
	var o []string
	for _, x := range b {
		o = append(o, fmt.Sprintf("%d%%Z", x))
	}
	return o
}
func zBool(b bool) string {
	if b {
		return "1%Z"
	}
	return "0%Z"
}

const prelude6 = `From BU Require Import Lib.Bytes Lib.Sha256 Lib.Radix Base58.Base58 HD.HD Gen.Nets.
From T6 Require Gen.Kernels3.
Fixpoint zl_eqb (a b : list Z) : bool :=
  match a, b with [], [] => true | x :: a', y :: b' => (x =? y)%Z && zl_eqb a' b' | _, _ => false end.
Definition eqz (a b : res (list Z)) : bool :=
  match a, b with Ok x, Ok y => zl_eqb x y | Err e, Err f => e =? f | Panic k, Panic j => k =? j | _, _ => false end.
Definition lift {A} (f : A -> list Z) (r : res A) : res (list Z) := match r with Ok x => Ok (f x) | Err e => Err e | Panic k => Panic k end.
Definition zb (b : bool) : Z := if b then 1%Z else 0%Z.
Fixpoint assoc {V} (d : V) (tab : list (list N * V)) (k : list N) : V :=
  match tab with [] => d | (k', v) :: t => if list_eqb k' k then v else assoc d t k end.
`

func (r *coqRun) run(src string) {
	t := r.t
	coqc, err := exec.LookPath("coqc")
	if err != nil {
		t.Skip("coqc not on PATH")
	}
	theories := "/verif/coq/theories"
	dir := t.TempDir()
	os.MkdirAll(filepath.Join(dir, "Gen"), 0o755)
	if err := os.WriteFile(filepath.Join(dir, "Gen", "Kernels3.v"), []byte(src), 0o644); err != nil {
		t.Fatal(err)
	}
	runc := func(file string) []byte {
		cmd := exec.Command(coqc, "-q", "-Q", theories, "BU", "-Q", dir, "T6", file)
		cmd.Dir = dir
		out, err := cmd.CombinedOutput()
		if err != nil {
			t.Fatalf("coqc %s failed: %v\n%.4000s", file, err, out)
		}
		return out
	}
	runc(filepath.Join(dir, "Gen", "Kernels3.v"))
	var sb strings.Builder
	sb.WriteString(prelude6)
	sb.WriteString(r.defs.String())
	sb.WriteString("Definition results : list bool := [\n  " + strings.Join(r.calls, ";\n  ") + "].\n")
	sb.WriteString("Definition R := Eval vm_compute in results.\nSet Printing Width 1000000.\nSet Printing Depth 100000000.\nPrint R.\n")
	file := filepath.Join(dir, "Diff6.v")
	os.WriteFile(file, []byte(sb.String()), 0o644)
	out := runc(file)
	m := regexp.MustCompile(`(?s)R\s*=\s*\[(.*?)\]`).FindSubmatch(out)
	if m == nil {
		t.Fatalf("cannot parse coqc output:\n%.2000s", out)
	}
	got := regexp.MustCompile(`true|false`).FindAllString(string(m[1]), -1)
	if len(got) != len(r.calls) {
		t.Fatalf("coq returned %d values for %d calls", len(got), len(r.calls))
	}
	bad := 0
	for i := range got {
		if got[i] != "true" {
			bad++
			if bad <= 8 {
				t.Errorf("Go and Gallina differ: %.700s", r.calls[i])
			}
		}
	}
	t.Logf("%d calls of the real functions compared, %d differ", len(r.calls), bad)
}

func genSrc(t *testing.T) string {
	if _, err := os.Stat("/verif/coq/theories/HD/HD.vo"); err != nil {
		t.Skip("compiled theories not found")
	}
	src, errs := buildKernels3("/repo", kernels3)
	if len(errs) > 0 {
		t.Fatalf("rejected: %v", errs)
	}
	return src
}

// ---------------------------------------------------------------------------
// bloom

func coqMsgTx(tx *wire.MsgTx) string {
	var ins, outs []string
	for _, in := range tx.TxIn {
		ins = append(ins, fmt.Sprintf("Some (Kernels3.mk_wire_TxIn (Kernels3.mk_wire_OutPoint %s %d) %s %d)",
			blist(in.PreviousOutPoint.Hash[:]), in.PreviousOutPoint.Index, blist(in.SignatureScript), in.Sequence))
	}
	for _, o := range tx.TxOut {
		outs = append(outs, fmt.Sprintf("Some (Kernels3.mk_wire_TxOut unit (%d)%%Z %s tt)", o.Value, blist(o.PkScript)))
	}
	return fmt.Sprintf("(Kernels3.mk_wire_MsgTx unit (%d)%%Z [%s] [%s] %d)", tx.Version, strings.Join(ins, ";"), strings.Join(outs, ";"), tx.LockTime)
}

func coqTx(tx *bchutil.Tx) string {
	return fmt.Sprintf("(Some %s, Some %s)", blist(tx.Hash()[:]), coqMsgTx(tx.MsgTx()))
}

func TestDifferential6Bloom(t *testing.T) {
	src := genSrc(t)
	r := &coqRun{t: t}
	rng := rand.New(rand.NewSource(6))
	scripts := map[string]bool{}
	note := func(s []byte) { scripts[string(s)] = true }
	coqFilter := func(m *wire.MsgFilterLoad) string {
		if m == nil {
			return "(Kernels3.mk_bloom_Filter (Kernels3.mk_sync_Mutex 0%Z) None)"
		}
		return fmt.Sprintf("(Kernels3.mk_bloom_Filter (Kernels3.mk_sync_Mutex 0%%Z) (Some (Kernels3.mk_wire_MsgFilterLoad %s %d %d %d)))", blist(m.Filter), m.HashFuncs, m.Tweak, m.Flags)
	}
	viewF := "(fun bf => match Kernels3.bloom_Filter_msgFilterLoad bf with Some m => List.map Z.of_N (Kernels3.wire_MsgFilterLoad_Filter m) | None => [(-1)%Z] end)"
	rb := func(n int) []byte { b := make([]byte, n); rng.Read(b); return b }
	newMsg := func(flags wire.BloomUpdateType) *wire.MsgFilterLoad {
		return &wire.MsgFilterLoad{Filter: make([]byte, 1+rng.Intn(24)), HashFuncs: uint32(1 + rng.Intn(6)), Tweak: rng.Uint32(), Flags: flags}
	}
	clone := func(m *wire.MsgFilterLoad) *wire.MsgFilterLoad {
		c := *m
		c.Filter = append([]byte(nil), m.Filter...)
		return &c
	}
	// Add / Matches / AddOutPoint / MatchesOutPoint / AddHash
	for i := 0; i < 40; i++ {
		m := newMsg(wire.BloomUpdateNone)
		if i%13 == 0 {
			m.Filter = nil // an empty filter matches everything, adds nothing
		}
		pre := rb(rng.Intn(10))
		f0 := bloom.LoadFilter(clone(m))
		f0.Add(pre)
		m1 := clone(f0.MsgFilterLoad())
		r.add(fmt.Sprintf("lift %s (Kernels3.bloom_Filter_Add 60 %s %s)", viewF, coqFilter(m), blist(pre)), zOk(zBytes(m1.Filter)...))
		probe := pre
		if rng.Intn(2) == 0 {
			probe = rb(rng.Intn(10))
		}
		r.add(fmt.Sprintf("lift (fun b => [zb b]) (Kernels3.bloom_Filter_Matches %s %s)", coqFilter(m1), blist(probe)), zOk(zBool(f0.Matches(probe))))
		h := chainhash.Hash{}
		copy(h[:], rb(32))
		op := wire.NewOutPoint(&h, rng.Uint32())
		f1 := bloom.LoadFilter(clone(m1))
		f1.AddOutPoint(op)
		m2 := clone(f1.MsgFilterLoad())
		coqOp := fmt.Sprintf("(Some (Kernels3.mk_wire_OutPoint %s %d))", blist(h[:]), op.Index)
		r.add(fmt.Sprintf("lift %s (Kernels3.bloom_Filter_AddOutPoint 60 %s %s)", viewF, coqFilter(m1), coqOp), zOk(zBytes(m2.Filter)...))
		op2 := op
		if rng.Intn(2) == 0 {
			op2 = wire.NewOutPoint(&h, rng.Uint32())
		}
		coqOp2 := fmt.Sprintf("(Some (Kernels3.mk_wire_OutPoint %s %d))", blist(h[:]), op2.Index)
		r.add(fmt.Sprintf("lift (fun b => [zb b]) (Kernels3.bloom_Filter_MatchesOutPoint %s %s)", coqFilter(m2), coqOp2), zOk(zBool(f1.MatchesOutPoint(op2))))
		f1.AddHash(&h)
		r.add(fmt.Sprintf("lift %s (Kernels3.bloom_Filter_AddHash 60 %s (Some %s))", viewF, coqFilter(m2), blist(h[:])), zOk(zBytes(f1.MsgFilterLoad().Filter)...))
	}
	// unloaded filter
	r.add(fmt.Sprintf("lift (fun b => [zb b]) (Kernels3.bloom_Filter_Matches %s [1;2])", coqFilter(nil)), zOk(zBool(bloom.LoadFilter(nil).Matches([]byte{1, 2}))))

	// transactions: outputs P2PKH / P2PK / multisig / junk, inputs with pushes
	mkScript := func(kind int) []byte {
		b := txscript.NewScriptBuilder()
		switch kind {
		case 0:
			b.AddOp(txscript.OP_DUP).AddOp(txscript.OP_HASH160).AddData(rb(20)).AddOp(txscript.OP_EQUALVERIFY).AddOp(txscript.OP_CHECKSIG)
		case 1:
			pk := append([]byte{2}, rb(32)...)
			b.AddData(pk).AddOp(txscript.OP_CHECKSIG)
		case 2:
			b.AddOp(txscript.OP_1).AddData(append([]byte{2}, rb(32)...)).AddData(append([]byte{3}, rb(32)...)).AddOp(txscript.OP_2).AddOp(txscript.OP_CHECKMULTISIG)
		case 3:
			return []byte{0x4c} // malformed push: PushedData fails
		default:
			b.AddData(rb(1 + rng.Intn(6))).AddData(rb(3))
		}
		s, _ := b.Script()
		return s
	}
	mkTx := func(prev []*wire.OutPoint) *wire.MsgTx {
		tx := wire.NewMsgTx(1)
		tx.LockTime = rng.Uint32()
		nin := 1 + rng.Intn(2)
		for j := 0; j < nin; j++ {
			var op wire.OutPoint
			if len(prev) > 0 && rng.Intn(2) == 0 {
				op = *prev[rng.Intn(len(prev))]
			} else {
				copy(op.Hash[:], rb(32))
				op.Index = uint32(rng.Intn(3))
			}
			sig := mkScript(4)
			if rng.Intn(5) == 0 {
				sig = mkScript(3)
			}
			note(sig)
			tx.AddTxIn(wire.NewTxIn(&op, sig))
		}
		nout := 1 + rng.Intn(3)
		for j := 0; j < nout; j++ {
			pk := mkScript(rng.Intn(5))
			note(pk)
			tx.AddTxOut(wire.NewTxOut(int64(rng.Intn(1000)), pk, wire.TokenData{}))
		}
		return tx
	}
	depsTx := "(@fst (option (list N)) (option (Kernels3.wire_MsgTx unit))) new_outpoint script_class (@snd (option (list N)) (option (Kernels3.wire_MsgTx unit))) pushed_data"
	for i := 0; i < 30; i++ {
		flags := []wire.BloomUpdateType{wire.BloomUpdateNone, wire.BloomUpdateAll, wire.BloomUpdateP2PubkeyOnly, 7}[rng.Intn(4)]
		m := newMsg(flags)
		tx := bchutil.NewTx(mkTx(nil))
		f := bloom.LoadFilter(clone(m))
		// make something match sometimes: the tx hash, a pushed item, or an outpoint
		switch rng.Intn(4) {
		case 0:
			f.AddHash(tx.Hash())
		case 1:
			for _, o := range tx.MsgTx().TxOut {
				if pd, err := txscript.PushedData(o.PkScript); err == nil && len(pd) > 0 {
					f.Add(pd[len(pd)-1])
					break
				}
			}
		case 2:
			f.AddOutPoint(&tx.MsgTx().TxIn[0].PreviousOutPoint)
		}
		m0 := clone(f.MsgFilterLoad())
		got := f.MatchTxAndUpdate(tx)
		want := append([]string{zBool(got)}, zBytes(f.MsgFilterLoad().Filter)...)
		r.add(fmt.Sprintf("lift (fun '(b, bf) => zb b :: %s bf) (Kernels3.bloom_Filter_MatchTxAndUpdate unit _ %s 60 %s %s)", viewF, depsTx, coqFilter(m0), coqTx(tx)), zOk(want...))
	}
	// blocks: GetMatchedIndices
	var txHashes []string
	for i := 0; i < 8; i++ {
		n := 2 + rng.Intn(4)
		blk := wire.NewMsgBlock(&wire.BlockHeader{})
		var prev []*wire.OutPoint
		for j := 0; j < n; j++ {
			tx := mkTx(prev)
			blk.AddTransaction(tx)
			h := tx.TxHash()
			prev = append(prev, wire.NewOutPoint(&h, 0))
			txHashes = append(txHashes, fmt.Sprintf("(%d, %s)", tx.LockTime, blist(h[:])))
		}
		b := bchutil.NewBlock(blk)
		m := newMsg([]wire.BloomUpdateType{wire.BloomUpdateAll, wire.BloomUpdateNone, wire.BloomUpdateP2PubkeyOnly}[rng.Intn(3)])
		f := bloom.LoadFilter(clone(m))
		// match one output script push of a random tx so that dependants follow through BloomUpdateAll
		k := rng.Intn(n)
		for _, o := range blk.Transactions[k].TxOut {
			if pd, err := txscript.PushedData(o.PkScript); err == nil && len(pd) > 0 {
				f.Add(pd[0])
				break
			}
		}
		m0 := clone(f.MsgFilterLoad())
		mi := bloom.GetMatchedIndices(b, f)
		var idx []int
		for i2, v := range mi {
			if v {
				idx = append(idx, i2)
			}
		}
		sort.Ints(idx)
		var want []string
		for _, x := range idx {
			want = append(want, fmt.Sprintf("%d%%Z", x))
		}
		var txs []string
		for _, tx := range b.Transactions() {
			txs = append(txs, coqTx(tx))
		}
		r.add(fmt.Sprintf("lift (matched_view %d) (Kernels3.GetMatchedIndices (list tx_t) unit tx_t (fun b => b) %s msgtx_hash 200 [%s] (Some %s))", n, depsTx, strings.Join(txs, ";"), coqFilter(m0)), zOk(want...))
	}
	// the oracle tables
	var pd, cl []string
	var keys []string
	for s := range scripts {
		keys = append(keys, s)
	}
	sort.Strings(keys)
	for _, s := range keys {
		items, err := txscript.PushedData([]byte(s))
		if err != nil {
			pd = append(pd, fmt.Sprintf("(%s, ([], 1))", blist([]byte(s))))
		} else {
			var its []string
			for _, it := range items {
				its = append(its, blist(it))
			}
			pd = append(pd, fmt.Sprintf("(%s, ([%s], 0))", blist([]byte(s)), strings.Join(its, ";")))
		}
		cl = append(cl, fmt.Sprintf("(%s, %d)", blist([]byte(s)), txscript.GetScriptClass([]byte(s))))
	}
	fmt.Fprintf(&r.defs, "Definition tx_t : Type := (option (list N) * option (Kernels3.wire_MsgTx unit))%%type.\n")
	fmt.Fprintf(&r.defs, "Definition pushed_tab : list (list N * (list (list N) * N)) := [%s].\n", strings.Join(pd, ";\n  "))
	fmt.Fprintf(&r.defs, "Definition class_tab : list (list N * N) := [%s].\n", strings.Join(cl, ";\n  "))
	fmt.Fprintf(&r.defs, "Definition pushed_data (s : list N) : list (list N) * N := assoc ([], 1) pushed_tab s.\n")
	fmt.Fprintf(&r.defs, "Definition script_class (s : list N) : N := assoc 0 class_tab s.\n")
	fmt.Fprintf(&r.defs, "Definition new_outpoint (h : option (list N)) (i : N) : option Kernels3.wire_OutPoint := match h with Some x => Some (Kernels3.mk_wire_OutPoint x i) | None => None end.\n")
	fmt.Fprintf(&r.defs, "Definition txhash_tab : list (N * list N) := [%s].\n", strings.Join(txHashes, ";\n  "))
	fmt.Fprintf(&r.defs, "Fixpoint nassoc (tab : list (N * list N)) (k : N) : list N := match tab with [] => [] | (k', v) :: t => if k' =? k then v else nassoc t k end.\n")
	fmt.Fprintf(&r.defs, "Definition msgtx_hash (m : option (Kernels3.wire_MsgTx unit)) : list N := match m with Some x => nassoc txhash_tab (Kernels3.wire_MsgTx_LockTime unit x) | None => [] end.\n")
	fmt.Fprintf(&r.defs, "Definition matched_view (n : nat) (m : option (list (Z * bool))) : list Z := List.filter (fun i => match Kernels3.Go3.mget Z.eqb m i with Some true => true | _ => false end) (Kernels2.Go.zseq 0%%Z n).\n")
	r.run(src)
}

// ---------------------------------------------------------------------------
// hdkeychain

func TestDifferential6HD(t *testing.T) {
	src := genSrc(t)
	r := &coqRun{t: t}
	rng := rand.New(rand.NewSource(66))
	net := &chaincfg.MainNetParams
	hmacTab := map[string][]byte{}
	pubTab := map[string][]byte{}
	h160Tab := map[string][]byte{}
	parseTab := map[string]bool{}
	hm := func(key, data []byte) {
		m := hmac.New(sha512.New, key)
		m.Write(data)
		hmacTab[string(key)+"|"+string(data)] = m.Sum(nil)
	}
	pubOf := func(priv []byte) []byte {
		_, pk := bchec.PrivKeyFromBytes(bchec.S256(), priv)
		c := pk.SerializeCompressed()
		pubTab[string(priv)] = c
		h160Tab[string(c)] = bchutil.Hash160(c)
		return c
	}
	codeHD := func(err error) string {
		switch err {
		case nil:
			return "0%Z"
		case hdkeychain.ErrDeriveBeyondMaxDepth:
			return "Z.of_N Kernels3.hdkeychain_ErrDeriveBeyondMaxDepth"
		case hdkeychain.ErrDeriveHardFromPublic:
			return "Z.of_N Kernels3.hdkeychain_ErrDeriveHardFromPublic"
		case hdkeychain.ErrInvalidChild:
			return "Z.of_N Kernels3.hdkeychain_ErrInvalidChild"
		case hdkeychain.ErrUnusableSeed:
			return "Z.of_N Kernels3.hdkeychain_ErrUnusableSeed"
		case hdkeychain.ErrInvalidSeedLen:
			return "Z.of_N Kernels3.hdkeychain_ErrInvalidSeedLen"
		case hdkeychain.ErrBadChecksum:
			return "Z.of_N Kernels3.hdkeychain_ErrBadChecksum"
		case hdkeychain.ErrInvalidKeyLen:
			return "Z.of_N Kernels3.hdkeychain_ErrInvalidKeyLen"
		}
		return "1%Z" // the error of bchec.ParsePubKey, passed on at site 1
	}
	mainp := "(Some mainp)"
	var strs []string
	for i := 0; i < 10; i++ {
		seed := make([]byte, []int{16, 32, 64, 15, 65, 20}[i%6])
		rng.Read(seed)
		hm([]byte("Bitcoin seed"), seed)
		master, err := hdkeychain.NewMaster(seed, net)
		want := zOk(codeHD(err))
		if err == nil {
			want = zOk(append([]string{"0%Z"}, zBytes([]byte(master.String()))...)...)
		}
		r.add(fmt.Sprintf("lift view_key (new_master %s %s)", blist(seed), mainp), want)
		if err != nil {
			continue
		}
		strs = append(strs, master.String())
		// private derivation (hardened and not): the parent's key and public key are known to the oracles
		parent := master
		for d := 0; d < 3; d++ {
			idx := uint32(rng.Intn(5))
			if rng.Intn(2) == 0 {
				idx += hdkeychain.HardenedKeyStart
			}
			ps := parent.String()
			dec := decodeXKey(ps)
			pub := pubOf(dec.key)
			data := make([]byte, 37)
			if idx >= hdkeychain.HardenedKeyStart {
				copy(data[1:], dec.key)
			} else {
				copy(data, pub)
			}
			data[33], data[34], data[35], data[36] = byte(idx>>24), byte(idx>>16), byte(idx>>8), byte(idx)
			hm(dec.chain, data)
			child, cerr := parent.Child(idx)
			want := zOk(codeHD(cerr))
			if cerr == nil {
				want = zOk(append([]string{"0%Z"}, zBytes([]byte(child.String()))...)...)
			}
			r.add(fmt.Sprintf("lift view_child (child_of %s %d)", blist([]byte(ps)), idx), want)
			if cerr != nil {
				break
			}
			strs = append(strs, child.String())
			if npub, nerr := child.Neuter(); nerr == nil {
				strs = append(strs, npub.String())
			}
			parent = child
		}
	}
	// NewKeyFromString then String: valid, mutated and truncated strings
	for _, s := range strs {
		for v := 0; v < 3; v++ {
			in := s
			if v == 1 {
				b := []byte(s)
				b[rng.Intn(len(b))] = "123456789ABCDEFGHJKLMNPQRSTUVWXYZabcdefghijkmnopqrstuvwxyz"[rng.Intn(58)]
				in = string(b)
			}
			if v == 2 {
				in = s[:rng.Intn(len(s))]
			}
			if dk := decodeXKeyMaybe(in); dk != nil && !dk.priv {
				_, perr := bchec.ParsePubKey(dk.key, bchec.S256())
				parseTab[string(dk.key)] = perr == nil
			}
			k, err := hdkeychain.NewKeyFromString(in)
			want := zOk(codeHD(err))
			if err == nil {
				want = zOk(append([]string{"0%Z"}, zBytes([]byte(k.String()))...)...)
			}
			r.add(fmt.Sprintf("lift view_key (key_from_string %s)", blist([]byte(in))), want)
		}
	}
	tab := func(m map[string][]byte) string {
		var ks []string
		for k := range m {
			ks = append(ks, k)
		}
		sort.Strings(ks)
		var out []string
		for _, k := range ks {
			out = append(out, fmt.Sprintf("(%s, %s)", blist([]byte(k)), blist(m[k])))
		}
		return "[" + strings.Join(out, ";\n  ") + "]"
	}
	var pt []string
	for k, ok := range parseTab {
		if ok {
			pt = append(pt, fmt.Sprintf("(%s, true)", blist([]byte(k))))
		}
	}
	sort.Strings(pt)
	fmt.Fprintf(&r.defs, "Definition hmac_tab : list (list N * list N) := %s.\n", tab(hmacTab))
	fmt.Fprintf(&r.defs, "Definition pub_tab : list (list N * list N) := %s.\n", tab(pubTab))
	fmt.Fprintf(&r.defs, "Definition h160_tab : list (list N * list N) := %s.\n", tab(h160Tab))
	fmt.Fprintf(&r.defs, "Definition parse_tab : list (list N * bool) := [%s].\n", strings.Join(pt, ";\n  "))
	r.defs.WriteString(`
Definition mainp := Kernels3.mk_chaincfg_Params (net_name mainnet) (cash_prefix mainnet) (slp_prefix mainnet) (pkh_id mainnet) (sh_id mainnet) (wif_id mainnet) (hd_priv_id mainnet) (hd_pub_id mainnet) 0.
(* big.Int := N; a public key / a coordinate pair := the scalar's bytes (looked up in the oracle when serialised) *)
Definition i_set (_ : N) (b : list N) : N := be_value b 0.
Definition i_cmp (a b : N) : Z := match N.compare a b with Lt => (-1)%Z | Eq => 0%Z | Gt => 1%Z end.
Definition i_sign (a : N) : Z := if a =? 0 then 0%Z else 1%Z.
Definition i_bytes (a : N) : list N := digits 256 a.
Definition i_add (_ a b : N) : N * N := (a + b, a + b).
Definition i_mod (_ a b : N) : N * N := (a mod b, a mod b).
Definition curve_n (_ : unit) : N := secp_nN.
Definition sbm (_ : unit) (k : list N) : N * N := (be_value k 0, 0).
Definition pk_of (x _ : N) : N := x.
Definition pad32 (b : list N) : list N := List.repeat 0 (32 - List.length b) ++ b.
Definition ser_c (p : N) : list N := assoc [] pub_tab (pad32 (digits 256 p)).
Definition h160 (b : list N) : list N := assoc [] h160_tab b.
Definition hash_t : Type := (list N * list N)%type.
Definition h_new (k : list N) : hash_t := (k, []).
Definition h_write (h : hash_t) (d : list N) : Z * N * hash_t := (Z.of_nat (List.length d), 0, (fst h, snd h ++ d)).
Definition h_sum (h : hash_t) (b : list N) : list N := b ++ assoc [] hmac_tab (fst h ++ [124] ++ snd h).
Definition parse_pk (k : list N) (_ : unit) : N * N := if assoc false parse_tab k then (0, 0) else (0, 7).
Definition new_master (seed : list N) net := Kernels3.NewMaster unit N hash_t tt h_new h_write h_sum 0 i_set curve_n i_cmp i_sign seed net.
Definition key_from_string (s : list N) := Kernels3.NewKeyFromString unit N N Base58.decode sha256d tt parse_pk 0 i_set curve_n i_cmp i_sign s.
Definition key_string (k : Kernels3.hdkeychain_ExtendedKey) := Kernels3.ExtendedKey_String unit N N Base58.encode sha256d tt ser_c sbm pk_of k.
Definition view_key (r : option Kernels3.hdkeychain_ExtendedKey * N) : list Z :=
  match r with
  | (Some k, 0) => match key_string k with Ok (s, _) => 0%Z :: List.map Z.of_N s | _ => [(-2)%Z] end
  | (_, e) => [Z.of_N e]
  end.
Definition child_of (s : list N) (i : N) :=
  match key_from_string s with
  | Ok (Some k, 0) => Kernels3.ExtendedKey_Child unit N N hash_t tt i_bytes ser_c parse_pk (fun _ => false) h160 sbm pk_of h_new h_write h_sum 0 i_set curve_n i_cmp i_sign i_add i_mod (fun p => p) (fun p => p) (fun _ a _ _ _ => (a, a)) k i
  | _ => Panic 99
  end.
Definition view_child (r : option Kernels3.hdkeychain_ExtendedKey * N * Kernels3.hdkeychain_ExtendedKey) : list Z := view_key (fst r).
`)
	r.run(src)
}

type xkey struct {
	key, chain []byte
	priv       bool
}

func decodeXKeyMaybe(s string) *xkey {
	defer func() { recover() }()
	k, err := hdkeychain.NewKeyFromString(s)
	if err != nil && err != hdkeychain.ErrUnusableSeed {
		// still report the key data for the ParsePubKey oracle when the layout is right
	}
	_ = k
	return decodeXKey(s)
}

// decodeXKey reads the fields of a serialised extended key (base58check layout of BIP32)
func decodeXKey(s string) *xkey {
	raw := base58Decode(s)
	if len(raw) != 82 {
		return nil
	}
	p := raw[:78]
	kd := p[45:78]
	if kd[0] == 0 {
		return &xkey{key: append([]byte(nil), kd[1:]...), chain: append([]byte(nil), p[13:45]...), priv: true}
	}
	return &xkey{key: append([]byte(nil), kd...), chain: append([]byte(nil), p[13:45]...)}
}

// ---------------------------------------------------------------------------
// block / tx

func TestDifferential6Block(t *testing.T) {
	src := genSrc(t)
	r := &coqRun{t: t}
	rng := rand.New(rand.NewSource(666))
	for i := 0; i < 12; i++ {
		n := rng.Intn(5)
		blk := wire.NewMsgBlock(&wire.BlockHeader{})
		var txs []string
		for j := 0; j < n; j++ {
			tx := wire.NewMsgTx(int32(1 + rng.Intn(2)))
			tx.LockTime = rng.Uint32()
			blk.AddTransaction(tx)
			txs = append(txs, "Some "+coqMsgTx(tx))
		}
		coqBlk := fmt.Sprintf("(Kernels3.mk_bchutil_Block unit unit (Some (Kernels3.mk_wire_MsgBlock unit unit tt [%s])) [] None (-1)%%Z [] false)", strings.Join(txs, ";"))
		b := bchutil.NewBlock(blk)
		// Tx(k) for an index in and out of range, then Transactions()
		k := rng.Intn(n+2) - 1
		tx, err := b.Tx(k)
		want := zOk("1%Z")
		if err == nil {
			want = zOk("0%Z", fmt.Sprintf("%d%%Z", tx.Index()), fmt.Sprintf("%d%%Z", tx.MsgTx().LockTime))
		}
		r.add(fmt.Sprintf("lift view_tx (Kernels3.Block_Tx unit unit %s (%d)%%Z)", coqBlk, k), want)
		all := b.Transactions()
		var parts []string
		for _, x := range all {
			parts = append(parts, fmt.Sprintf("%d%%Z", x.Index()), fmt.Sprintf("%d%%Z", x.MsgTx().LockTime))
		}
		r.add(fmt.Sprintf("lift view_txs (match Kernels3.Block_Tx unit unit %s (%d)%%Z with Ok (_, _, b') => Kernels3.Block_Transactions_ unit unit b' | Panic p => Panic p | Err e => Err e end)", coqBlk, k), zOk(parts...))
		b.SetHeight(int32(i))
		r.add(fmt.Sprintf("lift (fun z => [z]) (Ok (Kernels3.Block_Height unit unit (Kernels3.Block_SetHeight unit unit %s (%d)%%Z)))", coqBlk, i), zOk(fmt.Sprintf("%d%%Z", b.Height())))
	}
	r.defs.WriteString(`
Definition view_tx (r : option (Kernels3.bchutil_Tx unit) * N * Kernels3.bchutil_Block unit unit) : list Z :=
  match r with
  | (Some t, 0, _) => [0%Z; Kernels3.bchutil_Tx_txIndex unit t;
                        match Kernels3.bchutil_Tx_msgTx unit t with Some m => Z.of_N (Kernels3.wire_MsgTx_LockTime unit m) | None => (-1)%Z end]
  | _ => [1%Z]
  end.
Definition view_txs (r : list (option (Kernels3.bchutil_Tx unit)) * Kernels3.bchutil_Block unit unit) : list Z :=
  List.flat_map (fun o => match o with
    | Some t => [Kernels3.bchutil_Tx_txIndex unit t; match Kernels3.bchutil_Tx_msgTx unit t with Some m => Z.of_N (Kernels3.wire_MsgTx_LockTime unit m) | None => (-1)%Z end]
    | None => [(-9)%Z] end) (fst r).
`)
	r.run(src)
}

var _ = bytes.Equal

func base58Decode(s string) []byte { return base58DecodeImpl(s) }

package main

// Third mode: expressions.  ex(e) returns a pure Gallina term; whatever can panic or rebinds a variable
// (checked primitives, nil dereference, calls of fallible functions, calls that change their receiver) is
// first appended to c.pend ("do t <- .. ;;" / "let x := .. in"), in evaluation order.

import (
	"fmt"
	"go/ast"
	"go/constant"
	"go/token"
	"go/types"
	"path/filepath"
	"sort"
	"strings"
)

type m3 struct {
	*ctx
	g         *g3
	spec      k3spec
	sig       *fsig3
	body      []ast.Stmt
	bodyNode  ast.Node
	pend      []string
	ntmp      int
	effect    bool
	sites     []string
	siteOf    map[ast.Node]int
	erased    map[types.Object]bool
	recvObj   types.Object
	paramObjs []types.Object
	named     []types.Object
	loops     []*loop3
	fallible  bool
	usesFuel  bool
	names     map[types.Object]string
	direct    map[types.Object]bool
	usedVars  map[string]bool
	fragOut   []types.Object
	synthN    int
	curRet    []mtype
	closures  map[types.Object]*ast.FuncLit
	classBusy map[types.Object]bool
	heapObj   types.Object              // (heap variant) the synthetic variable standing for the table
	origins   map[types.Object]*origin4 // (fourth mode, JSON) where an alias came from
	nn        map[string]int            // (phase 5) pointer terms known non-nil on the current path -> epoch
	nnKill    map[string]int            // (phase 5) Coq variable name -> epoch of its latest rebinding
	nnEpoch   int
	aliasLive map[types.Object]aliasSrc5 // (phase 5, H7) variables holding internal storage of an abstract object
}

type loop3 struct {
	tier        int
	st          []types.Object
	label       string
	lastOfOuter bool // the loop is the last statement of the enclosing loop's body
}

func (c *m3) fresh() string {
	c.ntmp++
	return fmt.Sprintf("t%d_", c.ntmp)
}

func (c *m3) bind(rhs string) string {
	t := c.fresh()
	c.pend = append(c.pend, fmt.Sprintf("do %s <- %s ;;", t, rhs))
	c.effect = true
	return t
}

func (c *m3) tyOf(e ast.Expr) mtype { return c.mt(c.typeOf(e), e) }

// ---------------------------------------------------------------------------
// names: one Coq name per Go variable (shadowing declarations get a numeric suffix)

func (c *m3) assignNames() {
	c.names = map[types.Object]string{}
	var ids []*ast.Ident
	ast.Inspect(c.fn, func(n ast.Node) bool {
		if id, ok := n.(*ast.Ident); ok {
			if _, isVar := c.p.info.Defs[id].(*types.Var); isVar && id.Name != "_" {
				ids = append(ids, id)
			}
		}
		return true
	})
	sort.Slice(ids, func(i, j int) bool { return ids[i].Pos() < ids[j].Pos() })
	count := map[string]int{}
	for _, id := range ids {
		o := c.p.info.Defs[id]
		if v, ok := o.(*types.Var); ok && v.IsField() {
			continue
		}
		if _, done := c.names[o]; done {
			continue
		}
		base := coqName(id.Name)
		if reserved3[base] {
			base += "_"
		}
		count[base]++
		if count[base] == 1 {
			c.names[o] = base
		} else {
			c.names[o] = fmt.Sprintf("%s_%d", strings.TrimSuffix(base, "_"), count[base])
		}
	}
}

// names of constructors / constants of the Coq prelude that would be read as patterns in binders
var reserved3 = map[string]bool{
	"N": true, "Z": true, "nat": true, "bool": true, "option": true, "prod": true, "Type": true,
	"left": true, "right": true, "inl": true, "inr": true, "Some": true, "None": true, "O": true, "S": true,
	"Lt": true, "Gt": true, "Eq": true, "xH": true, "xO": true, "xI": true, "N0": true, "Npos": true, "Z0": true,
	"Zpos": true, "Zneg": true, "eq_refl": true, "I": true, "conj": true, "exist": true, "length": true, "app": true,
	"map": true, "rev": true, "hd": true, "tl": true, "nth": true, "id": true, "not": true, "max": true, "min": true,
}

func (c *m3) vn(o types.Object) string {
	if n, ok := c.names[o]; ok {
		return n
	}
	return coqName(o.Name())
}

func (c *m3) allNames() []string {
	var out []string
	for _, n := range c.names {
		out = append(out, n)
	}
	sort.Strings(out)
	return out
}

// synthVar makes a fresh local variable of the given type (switch tags)
func (c *m3) synthVar(at token.Pos, base string, t types.Type) *ast.Ident {
	c.synthN++
	id := &ast.Ident{NamePos: at, Name: fmt.Sprintf("%s%s%d_", synthMark, base, c.synthN)}
	v := types.NewVar(at, c.p.tpkg, id.Name, t)
	c.p.info.Defs[id] = v
	return id
}

func (c *m3) useOf(def *ast.Ident) *ast.Ident {
	id := &ast.Ident{NamePos: def.NamePos, Name: def.Name}
	c.p.info.Uses[id] = c.p.info.Defs[def]
	c.p.info.Types[id] = types.TypeAndValue{Type: c.p.info.Defs[def].Type()}
	return id
}

// computeDirect: local pointers initialised by &T{..} / new(T) and never assigned again are the record itself
func (c *m3) computeDirect() {
	c.direct = map[types.Object]bool{}
	defs := map[types.Object]int{}
	good := map[types.Object]bool{}
	ast.Inspect(c.fn.Body, func(n ast.Node) bool {
		switch n := n.(type) {
		case *ast.AssignStmt:
			for i, l := range n.Lhs {
				id, ok := l.(*ast.Ident)
				if !ok {
					continue
				}
				o := c.obj(id)
				if o == nil {
					continue
				}
				defs[o]++
				if n.Tok == token.DEFINE && len(n.Lhs) == len(n.Rhs) && c.p.info.Defs[id] != nil {
					if c.isFreshPtr(n.Rhs[i]) {
						good[o] = true
					}
				}
			}
		case *ast.RangeStmt:
			for _, e := range []ast.Expr{n.Key, n.Value} {
				if id, ok := e.(*ast.Ident); ok && c.obj(id) != nil {
					defs[c.obj(id)] += 2
				}
			}
		case *ast.ValueSpec:
			for _, id := range n.Names {
				defs[c.p.info.Defs[id]] += 2
			}
		case *ast.UnaryExpr:
			if id, ok := n.X.(*ast.Ident); ok && n.Op == token.AND && c.obj(id) != nil {
				defs[c.obj(id)] += 2 // &p
			}
		}
		return true
	})
	for o := range good {
		if defs[o] == 1 {
			if _, isPtr := o.Type().Underlying().(*types.Pointer); isPtr && abstractName3(o.Type()) == "" && !(curMode4 && isBigInt4(o.Type())) && !isHeapPtr4(o.Type()) {
				c.direct[o] = true
			}
		}
	}
}

func (c *m3) isFreshPtr(e ast.Expr) bool {
	switch e := e.(type) {
	case *ast.ParenExpr:
		return c.isFreshPtr(e.X)
	case *ast.UnaryExpr:
		if e.Op == token.AND {
			_, ok := e.X.(*ast.CompositeLit)
			return ok
		}
	case *ast.CallExpr:
		if id, ok := e.Fun.(*ast.Ident); ok {
			if b, isB := c.obj(id).(*types.Builtin); isB && b.Name() == "new" {
				return true
			}
		}
	}
	return false
}

// varType: the value type of the Coq variable standing for o
func (c *m3) varType(o types.Object, at ast.Node) mtype {
	if o == c.heapObj && o != nil {
		e := c.heapElemType(at)
		return mtype{k: mList, elem: &e}
	}
	if c.direct[o] {
		return c.mt(o.Type().Underlying().(*types.Pointer).Elem(), at)
	}
	return c.mt(o.Type(), at)
}

// ---------------------------------------------------------------------------
// constants

func (c *m3) const3(e ast.Expr) (string, bool) {
	tv, ok := c.p.info.Types[e]
	if !ok || tv.Value == nil {
		return "", false
	}
	if curMode4 {
		if s, ok := c.constFloat4(e); ok {
			return s, true
		}
	}
	switch tv.Value.Kind() {
	case constant.Bool:
		if constant.BoolVal(tv.Value) {
			return "true", true
		}
		return "false", true
	case constant.String:
		return bytesLit([]byte(constant.StringVal(tv.Value))), true
	case constant.Int:
		t := c.mt(tv.Type, e)
		s := tv.Value.ExactString()
		if t.k == mZ {
			return zlit(s), true
		}
		if t.k == mN {
			return s, true
		}
	case constant.Float:
		v := constant.ToInt(tv.Value)
		if v.Kind() == constant.Int {
			t := c.mt(tv.Type, e)
			if t.k == mZ {
				return zlit(v.ExactString()), true
			}
			if t.k == mN && constant.Sign(v) >= 0 {
				return v.ExactString(), true
			}
		}
	}
	c.fail(e, "unsupported constant `%s`", c.srcText(e.Pos(), e.End()))
	return "", false
}

func (c *m3) lenOf(x string) string { return fmt.Sprintf("(Z.of_nat (List.length %s))", x) }

// ---------------------------------------------------------------------------
// errors

func (c *m3) isCreation(e ast.Expr) bool {
	ce, ok := e.(*ast.CallExpr)
	if !ok {
		return false
	}
	if path, name, ok := c.pkgCall(ce); ok && (path == "errors" && name == "New" || path == "fmt" && name == "Errorf") {
		return true
	}
	// T(x) for a named non-interface type T that implements error (OutOfRangeError(str)): a new error value
	if tv, ok := c.p.info.Types[ce.Fun]; ok && tv.IsType() {
		if n, isNamed := tv.Type.(*types.Named); isNamed {
			if _, isIface := n.Underlying().(*types.Interface); !isIface {
				errT := types.Universe.Lookup("error").Type().Underlying().(*types.Interface)
				return types.Implements(n, errT) || types.Implements(types.NewPointer(n), errT)
			}
		}
	}
	return false
}

// sentinelOf: the constant standing for a package-level error variable (of this or an imported package)
func (c *m3) sentinelOf(e ast.Expr) (string, bool) {
	var id *ast.Ident
	switch e := e.(type) {
	case *ast.Ident:
		id = e
	case *ast.SelectorExpr:
		if x, ok := e.X.(*ast.Ident); ok {
			if _, isPkg := c.obj(x).(*types.PkgName); isPkg {
				id = e.Sel
			}
		}
	case *ast.ParenExpr:
		return c.sentinelOf(e.X)
	}
	if id == nil {
		return "", false
	}
	v, ok := c.obj(id).(*types.Var)
	if !ok || v.Pkg() == nil || v.Parent() != v.Pkg().Scope() || !isErrorType(v.Type()) {
		return "", false
	}
	return c.g.needSentinel(v.Pkg().Name() + "_" + v.Name()), true
}

// evalErrArgs evaluates (for panics only) the arguments of errors.New / fmt.Errorf
func (c *m3) evalErrArgs(e ast.Expr) {
	c.fmtArgs(e.(*ast.CallExpr))
}

// fmtArgs: the operands of fmt.Sprintf / fmt.Errorf / errors.New / T(x) for an error type T.  Their text is not
// modelled, but (phase 5) nothing is dropped: each operand must be of a type on which fmt calls no user
// method (fmtOperandProblem) and is translated like any other expression, so a call inside it is translated
// for its effect / panic or makes the function leave the subset.
func (c *m3) fmtArgs(ce *ast.CallExpr) {
	if ce.Ellipsis.IsValid() {
		c.fail(ce, "fmt / errors call with a spread argument list")
	}
	for _, a := range ce.Args {
		if why := fmtOperandProblem(c.typeOf(a), c.p.tpkg); why != "" {
			c.fail(a, "`%s` is given %s: not translated (fmt would run code the translation does not see)", c.srcText(ce.Fun.Pos(), ce.Fun.End()), why)
		}
		c.ex(a)
	}
}

// ---------------------------------------------------------------------------
// expressions

func (c *m3) ex(e ast.Expr) string {
	if id, ok := e.(*ast.Ident); ok {
		if k, isConst := c.obj(id).(*types.Const); isConst && k.Pkg() != nil && k.Parent() == k.Pkg().Scope() && k.Val().Kind() == constant.String && k.Pkg() == c.p.tpkg {
			return c.strConst(id, k)
		}
	}
	if s, ok := c.const3(e); ok {
		return s
	}
	if t := c.mtL(c.typeOf(e), e, true); t.k == mErr {
		if s, ok := c.sentinelOf(e); ok {
			return s
		}
		if c.isCreation(e) {
			k, ok := c.siteOf[e]
			if !ok {
				c.fail(e, "internal: error creation site not numbered")
			}
			c.evalErrArgs(e)
			return fmt.Sprint(k)
		}
	}
	switch e := e.(type) {
	case *ast.ParenExpr:
		return c.ex(e.X)
	case *ast.Ident:
		if e.Name == "nil" {
			t := c.mtL(c.typeOf(e), e, true)
			if t.k == mList && t.elem.k == mN && t.elem.w == 8 && !t.str {
				if b, ok := c.typeOf(e).(*types.Basic); ok && b.Kind() == types.UntypedNil {
					c.fail(e, "nil whose type is not determined by its context")
				}
			}
			return c.zeroT(t, e)
		}
		o := c.obj(e)
		if o == nil {
			c.fail(e, "unresolved identifier `%s`", e.Name)
		}
		if c.erased[o] {
			return "tt"
		}
		if !c.isLocal(o) {
			if v, ok := o.(*types.Var); ok && v.Pkg() != nil && v.Parent() == v.Pkg().Scope() {
				return c.pkgVar(e, v)
			}
			c.fail(e, "use of non-local `%s`", e.Name)
		}
		if c.direct[o] {
			return "(Some " + c.vn(o) + ")"
		}
		c.mt(o.Type(), e)
		return c.vn(o)
	case *ast.BinaryExpr:
		return c.bin3(e, e.Op, e.X, e.Y, c.typeOf(e))
	case *ast.UnaryExpr:
		return c.un3(e)
	case *ast.StarExpr:
		return c.derefVal(e.X)
	case *ast.CallExpr:
		rs, _ := c.call3(e)
		if len(rs) != 1 {
			c.fail(e, "call `%s` with %d results used as a value", c.srcText(e.Pos(), e.End()), len(rs))
		}
		return rs[0]
	case *ast.IndexExpr:
		xt := c.tyOf(e.X)
		if xt.k == mMap {
			m := c.ex(e.X)
			k := c.ex(e.Index)
			return fmt.Sprintf("(match Go3.mget %s %s %s with Some v_ => v_ | None => %s end)", c.eqbOf(*xt.key, e), m, k, c.zeroT(*xt.elem, e))
		}
		l := c.listBase(e.X)
		it := c.tyOf(e.Index)
		if it.k != mN && it.k != mZ {
			c.fail(e, "non-integer index")
		}
		i := c.ex(e.Index)
		return c.bind(fmt.Sprintf("Go.idx %s %s", l, asZ(i, it)))
	case *ast.SliceExpr:
		if e.Slice3 {
			c.fail(e, "3-index slice expression")
		}
		l := c.listBase(e.X)
		lo, hi := "0%Z", c.lenOf(l)
		if e.Low != nil {
			lo = asZ(c.ex(e.Low), c.tyOf(e.Low))
		}
		if e.High != nil {
			hi = asZ(c.ex(e.High), c.tyOf(e.High))
		}
		if e.Low == nil && e.High == nil {
			return l
		}
		return c.bind(fmt.Sprintf("Go.slice %s %s %s", l, lo, hi))
	case *ast.CompositeLit:
		return c.compLit(e)
	case *ast.SelectorExpr:
		return c.selector(e)
	case *ast.TypeAssertExpr:
		if e.Type != nil {
			from := c.mtL(c.typeOf(e.X), e.X, true)
			to := c.tyOf(e)
			if from.k == mAbs || (from.k == mUnit && to.k == mAbs) {
				src := "Any"
				arg := ""
				if from.k == mAbs {
					src = from.abs
					arg = c.ex(e.X)
				} else if sel, ok := e.X.(*ast.SelectorExpr); ok {
					// x.Value.(T) with Value of type interface{}: a projection of the holder
					ht := c.tyOf(sel.X)
					if ht.k == mAbs {
						src = ht.abs + "_" + sel.Sel.Name
						arg = c.ex(sel.X)
						from = ht
					}
				}
				if arg == "" {
					c.fail(e, "unsupported type assertion `%s`", c.srcText(e.Pos(), e.End()))
				}
				name := fmt.Sprintf("%s_as_%s", src, strings.TrimSuffix(c.coqT(to), "_t"))
				c.needVar(name, c.coqT(from)+" -> res "+paren(c.coqT(to)), e)
				return c.bind(name + " " + arg)
			}
		}
		c.fail(e, "unsupported type assertion `%s`", c.srcText(e.Pos(), e.End()))
	}
	c.fail(e, "unsupported expression %s `%s`", nodeName(e), c.srcText(e.Pos(), e.End()))
	return ""
}

// listBase: the list denoted by e (a slice, array, string, or pointer to an array)
func (c *m3) listBase(x ast.Expr) string {
	t := c.tyOf(x)
	if t.k == mList {
		return c.ex(x)
	}
	if t.k == mOpt && t.elem.k == mList {
		return c.derefVal(x)
	}
	c.fail(x, "indexing / slicing of `%s`, which is not a list", c.srcText(x.Pos(), x.End()))
	return ""
}

// derefVal: *p for a pointer expression p
func (c *m3) derefVal(p ast.Expr) string {
	for {
		pe, ok := p.(*ast.ParenExpr)
		if !ok {
			break
		}
		p = pe.X
	}
	if id, ok := p.(*ast.Ident); ok && c.direct[c.obj(id)] {
		return c.vn(c.obj(id))
	}
	if u, ok := p.(*ast.UnaryExpr); ok && u.Op == token.AND {
		return c.ex(u.X)
	}
	t := c.tyOf(p)
	if t.k == mAbs {
		return c.ex(p)
	}
	if t.k == mHPtr {
		return c.bind("Go4.hget " + c.vn(c.heapVar()) + " " + c.ex(p))
	}
	if t.k != mOpt {
		c.fail(p, "dereference of `%s`, which is not a pointer", c.srcText(p.Pos(), p.End()))
	}
	pt := c.ex(p)
	c.nnMark(pt)
	return c.bind("Go3.deref " + pt)
}

// structBase: the record denoted by x in x.f (x a struct value or a pointer to one)
func (c *m3) structBase(x ast.Expr) (string, mtype) {
	t := c.tyOf(x)
	if t.k == mHPtr {
		return c.bind("Go4.hget " + c.vn(c.heapVar()) + " " + c.ex(x)), *t.elem
	}
	if t.k == mOpt {
		return c.derefVal(x), *t.elem
	}
	return c.ex(x), t
}

func (c *m3) selector(e *ast.SelectorExpr) string {
	// package-qualified name
	if id, ok := e.X.(*ast.Ident); ok {
		if _, isPkg := c.obj(id).(*types.PkgName); isPkg {
			v, isVar := c.obj(e.Sel).(*types.Var)
			if !isVar {
				c.fail(e, "unsupported use of `%s`", c.srcText(e.Pos(), e.End()))
			}
			return c.pkgVar(e, v)
		}
	}
	sel := c.p.info.Selections[e]
	if sel == nil || sel.Kind() != types.FieldVal {
		c.fail(e, "unsupported selector `%s` (method value?)", c.srcText(e.Pos(), e.End()))
	}
	xt := c.tyOf(e.X)
	if xt.k == mAbs {
		// field of an abstract object: a projection (embedded fields included)
		rt := c.tyOf(e)
		name := xt.abs + "_" + e.Sel.Name
		c.needVar(name, c.coqT(xt)+" -> "+paren(c.coqT(rt)), e)
		xterm := c.ex(e.X)
		c.nilCheckAbsField5(e, xt, xterm)
		return fmt.Sprintf("(%s %s)", name, xterm)
	}
	if len(sel.Index()) != 1 {
		c.fail(e, "promoted field `%s`", c.srcText(e.Pos(), e.End()))
	}
	base, st := c.structBase(e.X)
	if st.k != mStruct {
		c.fail(e, "selector on `%s`, which is not a struct", c.srcText(e.X.Pos(), e.X.End()))
	}
	ft := c.tyOf(e)
	if ft.k == mUnit {
		c.fail(e, "use of the field `%s`, whose type is not supported", e.Sel.Name)
	}
	return fmt.Sprintf("(%s_%s %s)", st.name, e.Sel.Name, base)
}

// pkgVar: a package-level variable: a table of this package, or an abstract constant
func (c *m3) pkgVar(use ast.Expr, v *types.Var) string {
	if curMode4 && isBigInt4(v.Type()) && v.Pkg() == c.p.tpkg {
		return c.bigGlobal(use, v)
	}
	if v.Pkg() == c.p.tpkg {
		if id, ok := use.(*ast.Ident); ok {
			t := c.mtL(v.Type(), use, true)
			if t.k == mList && (t.elem.k == mN || t.elem.k == mZ) {
				name, _ := c.table3(id, v)
				return name
			}
		}
	}
	t := c.mt(v.Type(), use)
	name := v.Pkg().Name() + "_" + v.Name()
	c.needVar(name, c.coqT(t), use)
	c.note(use, "the package-level variable `%s` is a Section variable (assumed not to change)", v.Name())
	return name
}

func (c *m3) compLit(e *ast.CompositeLit) string { return c.compLitT(e, c.typeOf(e)) }

func (c *m3) compLitT(e *ast.CompositeLit, gt types.Type) string {
	t := c.mt(gt, e)
	if p, isPtr := gt.Underlying().(*types.Pointer); isPtr && t.k == mOpt && e.Type == nil {
		// an element {..} of a []*T literal: &T{..}
		return "(Some " + c.compLitT(e, p.Elem()) + ")"
	}
	switch t.k {
	case mList:
		var el []string
		et := gt.Underlying()
		var elemT types.Type
		switch u := et.(type) {
		case *types.Slice:
			elemT = u.Elem()
		case *types.Array:
			elemT = u.Elem()
		}
		for _, x := range e.Elts {
			if _, kv := x.(*ast.KeyValueExpr); kv {
				c.fail(x, "keyed element in a composite literal")
			}
			el = append(el, c.convTo(x, elemT))
		}
		if a, ok := gt.Underlying().(*types.Array); ok && int(a.Len()) != len(el) {
			if len(el) == 0 {
				return c.zeroT(t, e)
			}
			c.fail(e, "array literal that is not fully initialised")
		}
		return "[" + strings.Join(el, "; ") + "]"
	case mMap:
		if len(e.Elts) != 0 {
			c.fail(e, "non-empty map literal")
		}
		return fmt.Sprintf("(Some (@nil (%s * %s)))", c.coqT(*t.key), c.coqT(*t.elem))
	case mUnit:
		return "tt"
	case mAbs:
		// a literal of an imported struct the translation does not look into: an abstract constructor named
		// after the fields given
		st, ok := gt.Underlying().(*types.Struct)
		if !ok {
			break
		}
		name := t.abs + "_of"
		var args, tys []string
		for _, x := range e.Elts {
			kv, ok := x.(*ast.KeyValueExpr)
			if !ok {
				c.fail(e, "positional literal of the abstract struct %s", t.abs)
			}
			key := kv.Key.(*ast.Ident).Name
			for j := 0; j < st.NumFields(); j++ {
				if st.Field(j).Name() != key {
					continue
				}
				ft := c.mtL(st.Field(j).Type(), kv, true)
				if ft.k == mUnit {
					// a field of interface type (e.g. Curve): not passed; it must be an expression without effect or panic
					c.mtL(c.typeOf(kv.Value), kv.Value, true)
					if why := c.notDiscardable5(kv.Value); why != "" {
						c.fail(kv.Value, "the value of the field `%s` is dropped by the translation but %s", key, why)
					}
					continue
				}
				name += "_" + key
				args = append(args, c.convTo(kv.Value, st.Field(j).Type()))
				tys = append(tys, paren(c.coqT(ft)))
			}
		}
		ty := c.coqT(t)
		if len(tys) > 0 {
			ty = strings.Join(tys, " -> ") + " -> " + ty
		}
		c.needVar(name, ty, e)
		if len(args) == 0 {
			return name
		}
		return "(" + name + " " + strings.Join(args, " ") + ")"
	case mStruct:
		st := gt.Underlying().(*types.Struct)
		vals := make([]string, st.NumFields())
		for i, x := range e.Elts {
			if kv, ok := x.(*ast.KeyValueExpr); ok {
				key := kv.Key.(*ast.Ident).Name
				found := false
				for j := 0; j < st.NumFields(); j++ {
					if st.Field(j).Name() == key {
						vals[j] = c.convTo(kv.Value, st.Field(j).Type())
						found = true
					}
				}
				if !found {
					c.fail(kv, "unknown field %s", key)
				}
			} else {
				vals[i] = c.convTo(x, st.Field(i).Type())
			}
		}
		parts := []string{"mk_" + t.name}
		for j := range vals {
			if vals[j] == "" {
				vals[j] = c.zeroT(t.flds[j].t, e)
			}
			parts = append(parts, vals[j])
		}
		return "(" + strings.Join(parts, " ") + ")"
	}
	c.fail(e, "unsupported composite literal `%s`", c.srcText(e.Pos(), e.End()))
	return ""
}

// convTo: the value of e as a value of the Go type target (implicit conversions to interfaces, nil)
func (c *m3) convTo(e ast.Expr, target types.Type) string {
	if target == nil {
		return c.ex(e)
	}
	tt := c.mtL(target, e, true)
	if isNil(e) {
		return c.zeroT(tt, e)
	}
	src := c.typeOf(e)
	return c.convTerm(c.ex(e), src, target, e)
}

func (c *m3) convTerm(term string, src, target types.Type, at ast.Node) string {
	tt := c.mtL(target, at, true)
	if types.Identical(src, target) {
		return term
	}
	switch tt.k {
	case mSum:
		for _, a := range c.g.sumAlts[tt.name] {
			if types.Identical(a.gt, src) {
				return fmt.Sprintf("(%s %s)", a.ctor, term)
			}
		}
		c.fail(at, "value of type %s used as %s: not one of its declared dynamic types", src, tt.name)
	case mAbs:
		st := c.mtL(src, at, true)
		if st.k == mAbs && st.abs == tt.abs {
			return term
		}
		name := ""
		if st.k == mAbs {
			name = st.abs + "_as_" + tt.abs
		} else if n, ok := derefNamed(src); ok {
			name = n.Obj().Name() + "_as_" + tt.abs
		} else {
			c.fail(at, "value of type %s used as the abstract %s", src, tt.abs)
		}
		c.needVar(name, paren(c.coqT(st))+" -> "+c.coqT(tt), at)
		return fmt.Sprintf("(%s %s)", name, term)
	}
	return term
}

func derefNamed(t types.Type) (*types.Named, bool) {
	if p, ok := t.(*types.Pointer); ok {
		t = p.Elem()
	}
	n, ok := t.(*types.Named)
	return n, ok
}

func (c *m3) boolEx(e ast.Expr) string {
	if t := c.tyOf(e); t.k != mBool {
		c.fail(e, "expected a boolean expression, got %s", c.coqT(t))
	}
	return c.ex(e)
}

func (c *m3) shortCircuit(op token.Token, xe, ye ast.Expr) string {
	x := c.boolEx(xe)
	save := c.pend
	c.pend = nil
	y := c.boolEx(ye)
	yb := c.pend
	c.pend = save
	if len(yb) == 0 {
		if op == token.LAND {
			return fmt.Sprintf("(andb %s %s)", x, y)
		}
		return fmt.Sprintf("(orb %s %s)", x, y)
	}
	for _, l := range yb {
		if !bindsOnlyTemps(l) {
			c.fail(ye, "right operand of %s changes a variable", op)
		}
	}
	inner := fmt.Sprintf("(%s Ok %s)", strings.Join(yb, " "), y)
	if op == token.LAND {
		return c.bind(fmt.Sprintf("(if %s then %s else Ok false)", x, inner))
	}
	return c.bind(fmt.Sprintf("(if %s then Ok true else %s)", x, inner))
}

// eqbOf: a boolean equality on the values of type t
func (c *m3) eqbOf(t mtype, at ast.Node) string {
	switch t.k {
	case mN, mErr:
		return "N.eqb"
	case mZ:
		return "Z.eqb"
	case mBool:
		return "Bool.eqb"
	case mList:
		if t.elem.k == mN {
			return "list_eqb"
		}
	}
	c.fail(at, "equality on values of type %s", c.coqT(t))
	return ""
}

func (c *m3) bin3(at ast.Node, op token.Token, xe, ye ast.Expr, rt types.Type) string {
	if curMode4 && op != token.LAND && op != token.LOR && !isNil(xe) && !isNil(ye) {
		if s, ok := c.floatBin4(at, op, xe, ye, rt); ok {
			return s
		}
	}
	switch op {
	case token.LAND, token.LOR:
		return c.shortCircuit(op, xe, ye)
	case token.EQL, token.NEQ, token.LSS, token.LEQ, token.GTR, token.GEQ:
		neg := func(s string) string {
			if op == token.NEQ {
				return "(negb " + s + ")"
			}
			return s
		}
		if isNil(ye) || isNil(xe) {
			if op != token.EQL && op != token.NEQ {
				c.fail(at, "ordering comparison with nil")
			}
			z := xe
			if isNil(xe) {
				z = ye
			}
			t := c.tyOf(z)
			switch t.k {
			case mErr:
				return neg(fmt.Sprintf("(%s =? 0)", c.ex(z)))
			case mOpt:
				if id, ok := z.(*ast.Ident); ok && c.direct[c.obj(id)] {
					return neg("false")
				}
				return neg(fmt.Sprintf("(Go3.isnil %s)", c.ex(z)))
			case mMap, mHPtr:
				return neg(fmt.Sprintf("(Go3.isnil %s)", c.ex(z)))
			case mAbs:
				c.needVar(t.abs+"_isnil", c.coqT(t)+" -> bool", at)
				return neg(fmt.Sprintf("(%s_isnil %s)", t.abs, c.ex(z)))
			case mSum:
				return neg(fmt.Sprintf("(match %s with %s_nil => true | _ => false end)", c.ex(z), t.name))
			}
			c.fail(at, "comparison of `%s` with nil (nil and empty slices / maps are not distinguished)", c.srcText(z.Pos(), z.End()))
		}
		xt := c.tyOf(xe)
		x, y := c.ex(xe), c.ex(ye)
		sc := ""
		switch xt.k {
		case mBool:
			if op == token.EQL {
				return fmt.Sprintf("(Bool.eqb %s %s)", x, y)
			}
			if op == token.NEQ {
				return fmt.Sprintf("(xorb %s %s)", x, y)
			}
			c.fail(at, "ordering comparison of booleans")
		case mList:
			if xt.elem.k != mN {
				c.fail(at, "comparison of lists whose elements are not unsigned integers")
			}
			if op == token.EQL || op == token.NEQ {
				return neg(fmt.Sprintf("(list_eqb %s %s)", x, y))
			}
			c.fail(at, "ordering comparison of strings")
		case mZ:
			sc = "%Z"
		case mN, mErr:
		default:
			c.fail(at, "comparison of %s values", c.coqT(xt))
		}
		switch op {
		case token.EQL:
			return fmt.Sprintf("(%s =? %s)%s", x, y, sc)
		case token.NEQ:
			return fmt.Sprintf("(negb (%s =? %s)%s)", x, y, sc)
		case token.LSS:
			return fmt.Sprintf("(%s <? %s)%s", x, y, sc)
		case token.LEQ:
			return fmt.Sprintf("(%s <=? %s)%s", x, y, sc)
		case token.GTR:
			return fmt.Sprintf("(%s <? %s)%s", y, x, sc)
		default:
			return fmt.Sprintf("(%s <=? %s)%s", y, x, sc)
		}
	}
	k := c.mt(rt, at)
	txt := c.srcText(at.Pos(), at.End())
	if k.k == mList {
		if op != token.ADD || !k.str {
			c.fail(at, "unsupported operator %s on %s", op, c.coqT(k))
		}
		return fmt.Sprintf("(%s ++ %s)", c.ex(xe), c.ex(ye))
	}
	if k.k != mN && k.k != mZ {
		c.fail(at, "unsupported operator %s on %s", op, c.coqT(k))
	}
	x := c.ex(xe)
	if op == token.SHL || op == token.SHR {
		var y string
		if v, isConst := c.constInt(ye); isConst {
			if v < 0 {
				c.fail(ye, "negative shift count")
			}
			y = fmt.Sprint(v)
			if k.k == mZ {
				if op == token.SHR {
					return fmt.Sprintf("(Z.shiftr %s %d%%Z)", x, v)
				}
				if k.sized {
					return fmt.Sprintf("(Go.wrapZ %d (Z.shiftl %s %d%%Z))", k.w, x, v)
				}
				c.note(at, "`%s`: int left shift assumed not to overflow", txt)
				return fmt.Sprintf("(Z.shiftl %s %d%%Z)", x, v)
			}
		} else {
			yt := c.tyOf(ye)
			y = c.ex(ye)
			if yt.k == mZ {
				c.fail(ye, "shift by a count of a signed type that is not a constant (Go panics when it is negative; convert the count to an unsigned type)")
				y = fmt.Sprintf("(Z.to_N %s)", y)
			} else if yt.k != mN {
				c.fail(ye, "non-integer shift count")
			}
		}
		if k.k == mZ {
			y = fmt.Sprintf("(Z.of_N %s)", y)
			if op == token.SHR {
				return fmt.Sprintf("(Z.shiftr %s %s)", x, y)
			}
			if k.sized {
				return fmt.Sprintf("(Go.wrapZ %d (Z.shiftl %s %s))", k.w, x, y)
			}
			c.note(at, "`%s`: int left shift assumed not to overflow", txt)
			return fmt.Sprintf("(Z.shiftl %s %s)", x, y)
		}
		if op == token.SHR {
			return fmt.Sprintf("(N.shiftr %s %s)", x, y)
		}
		return fmt.Sprintf("((N.shiftl %s %s) %s)", x, y, mod2(k.w))
	}
	y := c.ex(ye)
	if k.k == mZ {
		if k.sized && (op == token.ADD || op == token.SUB || op == token.MUL) {
			o := map[token.Token]string{token.ADD: "+", token.SUB: "-", token.MUL: "*"}[op]
			return fmt.Sprintf("(Go.wrapZ %d (%s %s %s)%%Z)", k.w, x, o, y)
		}
		switch op {
		case token.ADD:
			c.note(at, "`%s`: int addition assumed not to overflow", txt)
			return fmt.Sprintf("(%s + %s)%%Z", x, y)
		case token.SUB:
			c.note(at, "`%s`: int subtraction assumed not to overflow", txt)
			return fmt.Sprintf("(%s - %s)%%Z", x, y)
		case token.MUL:
			c.note(at, "`%s`: int multiplication assumed not to overflow", txt)
			return fmt.Sprintf("(%s * %s)%%Z", x, y)
		case token.QUO, token.REM:
			f := map[token.Token]string{token.QUO: "quot", token.REM: "rem"}[op]
			if v, isConst := c.constInt(ye); isConst {
				if v == 0 {
					c.fail(at, "division by the constant 0")
				}
				if k.sized && op == token.QUO {
					return fmt.Sprintf("(Go.wrapZ %d (Z.quot %s %s))", k.w, x, y)
				}
				return fmt.Sprintf("(Z.%s %s %s)", f, x, y)
			}
			if k.sized && op == token.QUO {
				return fmt.Sprintf("(Go.wrapZ %d %s)", k.w, c.bind(fmt.Sprintf("Go.quotZ %s %s", x, y)))
			}
			return c.bind(fmt.Sprintf("Go.%sZ %s %s", f, x, y))
		case token.AND:
			return fmt.Sprintf("(Z.land %s %s)", x, y)
		case token.OR:
			return fmt.Sprintf("(Z.lor %s %s)", x, y)
		case token.XOR:
			return fmt.Sprintf("(Z.lxor %s %s)", x, y)
		case token.AND_NOT:
			return fmt.Sprintf("(Z.ldiff %s %s)", x, y)
		}
		c.fail(at, "unsupported binary operator %s", op)
	}
	switch op {
	case token.ADD:
		return fmt.Sprintf("((%s + %s) %s)", x, y, mod2(k.w))
	case token.SUB:
		return fmt.Sprintf("((%s + 2^%d - %s) %s)", x, k.w, y, mod2(k.w))
	case token.MUL:
		return fmt.Sprintf("((%s * %s) %s)", x, y, mod2(k.w))
	case token.QUO, token.REM:
		if v, isConst := c.constInt(ye); isConst {
			if v == 0 {
				c.fail(at, "division by the constant 0")
			}
			if op == token.QUO {
				return fmt.Sprintf("(%s / %s)", x, y)
			}
			return fmt.Sprintf("(%s mod %s)", x, y)
		}
		if op == token.QUO {
			return c.bind(fmt.Sprintf("Go.divN %s %s", x, y))
		}
		return c.bind(fmt.Sprintf("Go.modN %s %s", x, y))
	case token.AND:
		return fmt.Sprintf("(N.land %s %s)", x, y)
	case token.OR:
		return fmt.Sprintf("(N.lor %s %s)", x, y)
	case token.XOR:
		return fmt.Sprintf("(N.lxor %s %s)", x, y)
	case token.AND_NOT:
		return fmt.Sprintf("(N.ldiff %s %s)", x, y)
	}
	c.fail(at, "unsupported binary operator %s", op)
	return ""
}

func (c *m3) un3(e *ast.UnaryExpr) string {
	switch e.Op {
	case token.NOT:
		return fmt.Sprintf("(negb %s)", c.boolEx(e.X))
	case token.ADD:
		return c.ex(e.X)
	case token.AND:
		// &T{..}, &x, &x.f: a pointer to a copy of the value (sharing is not modelled; see aliasCheck)
		t := c.tyOf(e)
		if t.k == mAbs {
			if xt := c.tyOf(e.X); xt.k == mAbs {
				return c.ex(e.X)
			}
		}
		if t.k == mHPtr {
			return c.heapAlloc(c.ex(e.X))
		}
		if t.k != mOpt {
			c.fail(e, "unsupported address-of `%s`", c.srcText(e.Pos(), e.End()))
		}
		return "(Some " + c.ex(e.X) + ")"
	case token.XOR, token.SUB:
		k := c.tyOf(e)
		x := c.ex(e.X)
		if k.k == mFloat && e.Op == token.SUB {
			return fmt.Sprintf("(Go4.f64_neg %s)", x)
		}
		if k.k == mZ {
			if e.Op == token.SUB {
				if k.sized {
					return fmt.Sprintf("(Go.wrapZ %d (- %s)%%Z)", k.w, x)
				}
				c.note(e, "`%s`: int negation assumed not to overflow", c.srcText(e.Pos(), e.End()))
				return fmt.Sprintf("(- %s)%%Z", x)
			}
			return fmt.Sprintf("(Z.lnot %s)", x)
		}
		if k.k != mN {
			c.fail(e, "unary %s on %s", e.Op, c.coqT(k))
		}
		if e.Op == token.XOR {
			return fmt.Sprintf("(N.lxor %s (N.ones %d))", x, k.w)
		}
		return fmt.Sprintf("((2^%d - %s) %s)", k.w, x, mod2(k.w))
	}
	c.fail(e, "unsupported unary operator %s", e.Op)
	return ""
}

func (c *m3) nonNeg(e ast.Expr) bool {
	if v, ok := c.constInt(e); ok {
		return v >= 0
	}
	switch e := e.(type) {
	case *ast.ParenExpr:
		return c.nonNeg(e.X)
	case *ast.BinaryExpr:
		if e.Op == token.ADD || e.Op == token.MUL {
			return c.nonNeg(e.X) && c.nonNeg(e.Y)
		}
		if e.Op == token.QUO {
			if v, ok := c.constInt(e.Y); ok && v > 0 {
				return c.nonNeg(e.X)
			}
		}
	case *ast.CallExpr:
		if id, ok := e.Fun.(*ast.Ident); ok {
			if b, isB := c.obj(id).(*types.Builtin); isB && b.Name() == "len" {
				return true
			}
		}
		if tv, ok := c.p.info.Types[e.Fun]; ok && tv.IsType() && len(e.Args) == 1 {
			from := c.tyOf(e.Args[0])
			to := c.mt(tv.Type, e)
			if from.k == mN && to.k == mZ && from.w < to.w {
				return true
			}
		}
	}
	if t := c.tyOf(e); t.k == mN {
		return true
	}
	return false
}

func (c *m3) pkgCall(e *ast.CallExpr) (string, string, bool) {
	sel, ok := e.Fun.(*ast.SelectorExpr)
	if !ok {
		return "", "", false
	}
	id, ok := sel.X.(*ast.Ident)
	if !ok {
		return "", "", false
	}
	pn, ok := c.obj(id).(*types.PkgName)
	if !ok {
		return "", "", false
	}
	return pn.Imported().Path(), sel.Sel.Name, true
}

// ---------------------------------------------------------------------------
// calls.  call3 returns the terms of the Go results (temporaries when there are several) and their types

func (c *m3) call3(e *ast.CallExpr) ([]string, []mtype) {
	one := func(s string, t mtype) ([]string, []mtype) { return []string{s}, []mtype{t} }
	// conversion
	if tv, ok := c.p.info.Types[e.Fun]; ok && tv.IsType() {
		if len(e.Args) != 1 {
			c.fail(e, "conversion with %d arguments", len(e.Args))
		}
		to := c.mt(tv.Type, e)
		if isNil(e.Args[0]) {
			return one(c.zeroT(to, e), to)
		}
		from := c.tyOf(e.Args[0])
		x := c.ex(e.Args[0])
		return one(c.convert(e, x, from, to), to)
	}
	if en, meth, ok := c.binaryCall(e); ok && meth == "Uint32" && len(e.Args) == 1 {
		x := c.ex(e.Args[0])
		if en == "BigEndian" {
			return one(c.bind("Go3.be_uint32 "+x), mtype{k: mN, w: 32})
		}
		c.fail(e, "binary.LittleEndian.Uint32 (only in the first mode)")
	}
	if id, ok := e.Fun.(*ast.Ident); ok {
		if fl, isClosure := c.closures[c.obj(id)]; isClosure {
			return c.inlineClosure(e, fl)
		}
		if b, isB := c.obj(id).(*types.Builtin); isB {
			s := c.builtin(e, b.Name())
			return one(s, c.tyOf(e))
		}
		if f, isF := c.obj(id).(*types.Func); isF && f.Pkg() == c.p.tpkg {
			return c.pkgFuncCall(e, c.spec.pkg, f, nil)
		}
	}
	if path, name, ok := c.pkgCall(e); ok {
		if s, t, ok := c.intrinsic(e, path, name); ok {
			return one(s, t)
		}
		if si := c.sortCall(e); si != nil && si.kind == "IsSorted" {
			xt := c.tyOf(si.target)
			et := c.coqT(*xt.elem)
			c.needVar(si.name, fmt.Sprintf("list %s -> bool", paren(et)), e)
			return one(fmt.Sprintf("(%s %s)", si.name, c.ex(si.target)), mtype{k: mBool})
		}
		f, _ := c.obj(e.Fun.(*ast.SelectorExpr).Sel).(*types.Func)
		if f == nil {
			c.fail(e, "unsupported call `%s`", c.srcText(e.Pos(), e.End()))
		}
		// a function of another package of the repository that is translated
		if dir, ok := repoDir(path); ok {
			if c.g.funcs[dir+":."+name] != nil || c.g.legacy[dir+":."+name] != nil {
				return c.pkgFuncCall(e, dir, f, nil)
			}
		}
		return c.absFuncCall(e, f.Pkg().Name()+"_"+name, f.Type().(*types.Signature), nil, "", false)
	}
	if sel, ok := e.Fun.(*ast.SelectorExpr); ok {
		if s := c.p.info.Selections[sel]; s != nil && s.Kind() == types.MethodVal {
			return c.methodCall(e, sel, s)
		}
	}
	c.fail(e, "unsupported call `%s`", c.srcText(e.Pos(), e.End()))
	return nil, nil
}

// binaryCall recognises binary.BigEndian.M(..) / binary.LittleEndian.M(..)
func (c *m3) binaryCall(e *ast.CallExpr) (string, string, bool) {
	s1, ok := e.Fun.(*ast.SelectorExpr)
	if !ok {
		return "", "", false
	}
	s2, ok := s1.X.(*ast.SelectorExpr)
	if !ok {
		return "", "", false
	}
	pk, ok := s2.X.(*ast.Ident)
	if !ok {
		return "", "", false
	}
	pn, isPkg := c.obj(pk).(*types.PkgName)
	if !isPkg || pn.Imported().Path() != "encoding/binary" {
		return "", "", false
	}
	return s2.Sel.Name, s1.Sel.Name, true
}

// inlineClosure: f(args) for a local f := func(params) T { return e }: the parameters are bound, e is the value
func (c *m3) inlineClosure(e *ast.CallExpr, fl *ast.FuncLit) ([]string, []mtype) {
	var ps []*ast.Ident
	for _, f := range fl.Type.Params.List {
		ps = append(ps, f.Names...)
	}
	if len(ps) != len(e.Args) {
		c.fail(e, "call of a function literal with %d arguments", len(e.Args))
	}
	// every inlined call binds its arguments to FRESH names (several calls may occur in one statement: their
	// bindings are all emitted in front of it) and the body is translated with the parameters renamed to them
	var temps []string
	for i, p := range ps {
		o := c.p.info.Defs[p]
		v := c.convTo(e.Args[i], o.Type())
		t := c.fresh()
		c.pend = append(c.pend, fmt.Sprintf("let %s := %s in", t, v))
		temps = append(temps, t)
	}
	saved := map[types.Object]string{}
	for i, p := range ps {
		o := c.p.info.Defs[p]
		saved[o] = c.names[o]
		c.names[o] = temps[i]
	}
	ret := fl.Body.List[0].(*ast.ReturnStmt)
	body := c.ex(ret.Results[0])
	for _, p := range ps {
		o := c.p.info.Defs[p]
		c.names[o] = saved[o]
	}
	// the result gets a name of its own as well
	t := c.fresh()
	c.pend = append(c.pend, fmt.Sprintf("let %s := %s in", t, body))
	return []string{t}, []mtype{c.tyOf(ret.Results[0])}
}

func repoDir(path string) (string, bool) {
	const root = "github.com/gcash/bchutil"
	if path == root {
		return ".", true
	}
	if strings.HasPrefix(path, root+"/") {
		return strings.TrimPrefix(path, root+"/"), true
	}
	return "", false
}

func (c *m3) convert(e ast.Node, x string, from, to mtype) string {
	if curMode4 {
		if s, ok := c.floatConv4(e, x, from, to); ok {
			return s
		}
	}
	switch {
	case to.k == mList && from.k == mList:
		if to.elem.k != from.elem.k || to.elem.w != from.elem.w {
			c.fail(e, "conversion between lists of different element types")
		}
		return x
	case to.k == mList && to.str && from.k == mN && from.w == 8:
		return fmt.Sprintf("(Go.string_of_byte %s)", x)
	case to.k == mN && from.k == mN:
		return fmt.Sprintf("(%s %s)", x, mod2(to.w))
	case to.k == mN && from.k == mZ:
		return fmt.Sprintf("(Z.to_N (%s mod 2^%d))", x, to.w)
	case to.k == mZ && from.k == mN:
		if from.w < to.w {
			return fmt.Sprintf("(Z.of_N %s)", x)
		}
		return fmt.Sprintf("(Go.wrapZ %d (Z.of_N %s))", to.w, x)
	case to.k == mZ && from.k == mZ:
		if from.w <= to.w {
			return x
		}
		return fmt.Sprintf("(Go.wrapZ %d %s)", to.w, x)
	case to.k == mAbs && from.k == mAbs && to.abs == from.abs:
		return x
	case to.k == mStruct && from.k == mStruct:
		// conversion between struct types with identical fields
		if len(to.flds) == len(from.flds) {
			parts := []string{"mk_" + to.name}
			for i, f := range from.flds {
				if f.name != to.flds[i].name || c.coqT(f.t) != c.coqT(to.flds[i].t) {
					c.fail(e, "conversion between different struct types")
				}
				parts = append(parts, fmt.Sprintf("(%s_%s %s)", from.name, f.name, x))
			}
			return "(" + strings.Join(parts, " ") + ")"
		}
	case to.k == mOpt && from.k == mOpt:
		if c.coqT(to) == c.coqT(from) {
			return x
		}
	}
	c.fail(e, "unsupported conversion from %s to %s", c.coqT(from), c.coqT(to))
	return ""
}

func (c *m3) builtin(e *ast.CallExpr, name string) string {
	switch name {
	case "len":
		if len(e.Args) != 1 {
			c.fail(e, "len")
		}
		t := c.tyOf(e.Args[0])
		if t.k == mMap {
			return fmt.Sprintf("(Go3.mlen %s)", c.ex(e.Args[0]))
		}
		return c.lenOf(c.listBase(e.Args[0]))
	case "append":
		if len(e.Args) < 1 {
			c.fail(e, "append without arguments")
		}
		base := c.ex(e.Args[0])
		if e.Ellipsis.IsValid() {
			if len(e.Args) != 2 {
				c.fail(e, "append(x, ys...) with extra arguments")
			}
			return fmt.Sprintf("(%s ++ %s)", base, c.ex(e.Args[1]))
		}
		var elemT types.Type
		if sl, ok := c.typeOf(e).Underlying().(*types.Slice); ok {
			elemT = sl.Elem()
		}
		var el []string
		for _, a := range e.Args[1:] {
			el = append(el, c.convTo(a, elemT))
		}
		if len(el) == 0 {
			return base
		}
		return fmt.Sprintf("(%s ++ [%s])", base, strings.Join(el, "; "))
	case "new":
		t := c.tyOf(e)
		if t.big {
			return "0%Z"
		}
		if t.k == mHPtr {
			return c.heapAlloc(c.zeroT(*t.elem, e))
		}
		if t.k == mAbs {
			c.needVar(t.abs+"_new", c.coqT(t), e)
			return t.abs + "_new"
		}
		return "(Some " + c.zeroT(*t.elem, e) + ")"
	case "make":
		t := c.tyOf(e)
		if t.k == mMap {
			if len(e.Args) == 2 {
				// the size hint is evaluated (it may panic); a negative hint is allowed for maps
				if h := c.ex(e.Args[1]); strings.HasSuffix(h, "_") && len(c.pend) > 0 {
					_ = h
				}
			}
			return fmt.Sprintf("(Some (@nil (%s * %s)))", c.coqT(*t.key), c.coqT(*t.elem))
		}
		if t.k != mList || len(e.Args) < 2 || len(e.Args) > 3 {
			c.fail(e, "unsupported make")
		}
		n := e.Args[1]
		if len(e.Args) == 3 {
			if !trivialCap5(e.Args[2]) || !c.nonNeg(e.Args[2]) {
				ct := c.tyOf(e.Args[2])
				cx := c.ex(e.Args[2]) // always evaluated: its value is not observable, a panic inside it is
				if !c.nonNeg(e.Args[2]) {
					c.pend = append(c.pend, fmt.Sprintf("do _ <- Go3.check_cap %s ;;", asZ(cx, ct)))
					c.effect = true
				}
			}
		}
		nt := c.tyOf(n)
		if v, ok := c.constInt(n); ok && v == 0 {
			return c.zeroT(mtype{k: mList, elem: t.elem}, e)
		}
		z := c.zeroT(*t.elem, e)
		if v, ok := c.constInt(n); ok && v >= 0 && v <= 4096 {
			return fmt.Sprintf("(List.repeat %s %d%%nat)", z, v)
		}
		nx := c.ex(n)
		if c.nonNeg(n) {
			if nt.k == mN {
				return fmt.Sprintf("(List.repeat %s (N.to_nat %s))", z, nx)
			}
			return fmt.Sprintf("(List.repeat %s (Z.to_nat %s))", z, nx)
		}
		return c.bind(fmt.Sprintf("Go.make %s %s", z, asZ(nx, nt)))
	}
	c.fail(e, "unsupported builtin %s", name)
	return ""
}

func (c *m3) intrinsic(e *ast.CallExpr, path, name string) (string, mtype, bool) {
	args := func(n int) []string {
		if len(e.Args) != n || e.Ellipsis.IsValid() {
			c.fail(e, "%s.%s with %d arguments", path, name, len(e.Args))
		}
		var out []string
		for _, a := range e.Args {
			out = append(out, c.ex(a))
		}
		return out
	}
	rt := func() mtype { return c.tyOf(e) }
	if curMode4 {
		if s, t, ok := c.intrinsic4(e, path, name, args); ok {
			return s, t, true
		}
	}
	switch path + "." + name {
	case "strings.ToLower":
		a := args(1)
		c.note(e, "`%s`: strings.ToLower taken on ASCII (exact when every byte < 128)", c.srcText(e.Pos(), e.End()))
		return fmt.Sprintf("(Go.to_lower %s)", a[0]), rt(), true
	case "strings.ToUpper":
		a := args(1)
		c.note(e, "`%s`: strings.ToUpper taken on ASCII (exact when every byte < 128)", c.srcText(e.Pos(), e.End()))
		return fmt.Sprintf("(Go.to_upper %s)", a[0]), rt(), true
	case "strings.EqualFold":
		a := args(2)
		c.note(e, "`%s`: strings.EqualFold taken on ASCII (exact when every byte of both strings < 128)", c.srcText(e.Pos(), e.End()))
		return fmt.Sprintf("(Go3.equal_fold %s %s)", a[0], a[1]), rt(), true
	case "strings.IndexByte":
		a := args(2)
		return fmt.Sprintf("(Go.index_byte %s %s)", a[0], a[1]), rt(), true
	case "strings.LastIndexByte":
		a := args(2)
		return fmt.Sprintf("(Go.last_index_byte %s %s)", a[0], a[1]), rt(), true
	case "bytes.Compare":
		a := args(2)
		return fmt.Sprintf("(Go.bytes_compare %s %s)", a[0], a[1]), rt(), true
	case "bytes.Equal":
		a := args(2)
		return fmt.Sprintf("(Go3.bytes_equal %s %s)", a[0], a[1]), rt(), true
	case "fmt.Sprintf":
		c.fmtArgs(e)
		return "tt", mtype{k: mUnit}, true
	}
	return "", mtype{}, false
}

// sigTypes: Coq types of the parameters and results of a Go signature
func (c *m3) absFuncCall(e *ast.CallExpr, name string, sig *types.Signature, recv ast.Expr, recvAbs string, mutates bool) ([]string, []mtype) {
	if e.Ellipsis.IsValid() || sig.Variadic() {
		c.fail(e, "variadic call of the abstract `%s`", name)
	}
	var tys, parts []string
	parts = append(parts, name)
	var recvT mtype
	if recv != nil {
		recvT = c.tyOf(recv)
		rterm := c.ex(recv)
		c.nilCheckRecv(e, name, recv, recvT, rterm)
		parts = append(parts, rterm)
		tys = append(tys, paren(c.coqT(recvT)))
	}
	if sig.Params().Len() != len(e.Args) {
		c.fail(e, "call of `%s` with %d arguments", name, len(e.Args))
	}
	for i, a := range e.Args {
		pt := sig.Params().At(i).Type()
		mtp := c.mtL(pt, a, true)
		if mtp.k == mFunc {
			// a named function passed to a dependency (hmac.New(sha512.New, ..)): part of the dependency's name
			fn := ""
			switch x := stripParens(a).(type) {
			case *ast.SelectorExpr:
				if f, ok := c.obj(x.Sel).(*types.Func); ok && f.Pkg() != nil {
					fn = f.Pkg().Name() + "_" + f.Name()
				}
			case *ast.Ident:
				if f, ok := c.obj(x).(*types.Func); ok {
					fn = f.Name()
				}
			}
			if fn == "" {
				c.fail(a, "function value passed to the abstract `%s`", name)
			}
			name += "__" + fn
			parts[0] = name
			continue
		}
		if mtp.k == mUnit {
			// an `interface{}` parameter: the argument's own type
			mtp = c.tyOf(a)
			parts = append(parts, c.ex(a))
		} else {
			parts = append(parts, c.convTo(a, pt))
		}
		c.precondArg5(e, name, i, a, mtp, parts[len(parts)-1])
		tys = append(tys, paren(c.coqT(mtp)))
	}
	var rts []string
	var rtypes []mtype
	for i := 0; i < sig.Results().Len(); i++ {
		rt := sig.Results().At(i).Type()
		m := c.mtL(rt, e, true)
		rtypes = append(rtypes, m)
		rts = append(rts, paren(c.coqT(m)))
	}
	if mutates {
		rts = append(rts, paren(c.coqT(recvT)))
	}
	margs := mutArgs3[name]
	for _, j := range margs {
		if j >= len(e.Args) {
			c.fail(e, "internal: mutArgs3 of %s", name)
		}
		rts = append(rts, paren(c.coqT(c.mt(sig.Params().At(j).Type(), e))))
	}
	if len(rts) == 0 {
		c.fail(e, "call of the abstract `%s`, which has no result and no modelled effect", name)
	}
	ty := strings.Join(rts, " * ")
	if len(tys) > 0 {
		ty = strings.Join(tys, " -> ") + " -> " + ty
	}
	c.needVar(name, ty, e)
	call := strings.Join(parts, " ")
	n := len(rtypes)
	if !mutates && len(margs) == 0 && n == 1 {
		return []string{"(" + call + ")"}, rtypes
	}
	var names []string
	for i := 0; i < n; i++ {
		names = append(names, c.fresh())
	}
	all := append([]string{}, names...)
	nw := ""
	if mutates {
		nw = c.fresh()
		all = append(all, nw)
	}
	var anew []string
	for range margs {
		t := c.fresh()
		anew = append(anew, t)
		all = append(all, t)
	}
	if len(all) == 1 {
		c.pend = append(c.pend, fmt.Sprintf("let %s := %s in", all[0], call))
	} else {
		c.pend = append(c.pend, fmt.Sprintf("let '(%s) := %s in", strings.Join(all, ", "), call))
	}
	if mutates {
		c.storePath(recv, nw)
	}
	for i, j := range margs {
		c.storeBack(e.Args[j], anew[i], false)
	}
	return names, rtypes
}

// pkgFuncCall: a function (recvExpr == nil) or method of the repository that is translated (this mode or
// Gen/Kernels2.v) or listed as abstract
func (c *m3) pkgFuncCall(e *ast.CallExpr, dir string, f *types.Func, recvExpr ast.Expr) ([]string, []mtype) {
	if e.Ellipsis.IsValid() {
		c.fail(e, "variadic call")
	}
	recvName := ""
	gsig := f.Type().(*types.Signature)
	if gsig.Recv() != nil {
		if n, ok := derefNamed(gsig.Recv().Type()); ok {
			recvName = n.Obj().Name()
		}
	}
	key := dir + ":" + recvName + "." + f.Name()
	if abstractFuncs3[key] || (curMode4 && abstractFrom4[c.spec.pkg+">"+key]) {
		nm := f.Pkg().Name() + "_" + f.Name()
		if recvName != "" {
			nm = f.Pkg().Name() + "_" + recvName + "_" + f.Name()
		}
		return c.absFuncCall(e, nm, gsig, recvExpr, "", false)
	}
	if s := c.g.funcs[key]; s != nil {
		return c.userCall3(e, s, recvExpr)
	}
	if s := c.g.legacy[key]; s != nil && recvExpr == nil {
		return c.legacyCall(e, key, s)
	}
	if recvExpr == nil {
		// a kernel of the first mode (Gen/Kernels.v): unsigned arguments and result
		for _, k := range kernels {
			if k.pkg == dir && k.fn == f.Name() {
				parts := []string{"Kernels." + coqName(f.Name())}
				for _, a := range e.Args {
					t := c.tyOf(a)
					if !(t.k == mN || (t.k == mList && t.elem.k == mN)) {
						c.fail(e, "call of the first-mode kernel `%s` with a signed argument", f.Name())
					}
					parts = append(parts, c.ex(a))
				}
				rt := c.tyOf(e)
				if rt.k != mN {
					c.fail(e, "call of the first-mode kernel `%s` with a signed result", f.Name())
				}
				return []string{"(" + strings.Join(parts, " ") + ")"}, []mtype{rt}
			}
		}
	}
	c.fail(e, "call of `%s`, which is not (or could not be) translated (list it before its callers; see its own message if any)", f.Name())
	return nil, nil
}

func (c *m3) userCall3(e *ast.CallExpr, s *fsig3, recvExpr ast.Expr) ([]string, []mtype) {
	parts := []string{s.name}
	if s.fuel {
		c.usesFuel = true
		parts = append(parts, "fuel")
	}
	if s.heap {
		if !c.sig.heap {
			c.fail(e, "call of `%s`, which is translated in the heap variant, from a function that is not", s.name)
		}
		parts = append(parts, c.vn(c.heapVar()))
	}
	if s.recv != nil {
		if recvExpr == nil {
			c.fail(e, "internal: method without receiver expression")
		}
		rt := c.tyOf(recvExpr)
		switch {
		case rt.k == mHPtr && s.recv.k == mHPtr:
			parts = append(parts, c.ex(recvExpr))
		case rt.k == mStruct:
			parts = append(parts, c.ex(recvExpr))
		case rt.k == mOpt:
			parts = append(parts, c.derefVal(recvExpr))
		default:
			if s.recvPtr || rt.k == mAbs || rt.k == mSum {
				c.fail(recvExpr, "unsupported receiver expression `%s`", c.srcText(recvExpr.Pos(), recvExpr.End()))
			}
			parts = append(parts, c.ex(recvExpr)) // a value receiver of a named basic / slice type
		}
	}
	if len(e.Args) != len(s.params) {
		c.fail(e, "call with %d arguments of a function with %d parameters", len(e.Args), len(s.params))
	}
	for i, a := range e.Args {
		parts = append(parts, c.convTo(a, s.gsig.Params().At(i).Type()))
	}
	call := strings.Join(parts, " ")
	n := s.nOut()
	var names []string
	if n == 0 {
		if s.fallible {
			c.pend = append(c.pend, fmt.Sprintf("do _ <- %s ;;", call))
			c.effect = true
		}
		return nil, nil
	}
	if n == 1 && !s.mutRecv && !anyTrue(s.mutPar) && !s.heap {
		if s.fallible {
			return []string{c.bind(call)}, s.results
		}
		return []string{"(" + call + ")"}, s.results
	}
	for i := 0; i < n; i++ {
		names = append(names, c.fresh())
	}
	pat := names[0]
	if n > 1 {
		pat = "(" + strings.Join(names, ", ") + ")"
	}
	if s.fallible {
		c.effect = true
		c.pend = append(c.pend, fmt.Sprintf("do %s <- %s ;;", pat, call))
	} else if n > 1 {
		c.pend = append(c.pend, fmt.Sprintf("let '%s := %s in", pat, call))
	} else {
		c.pend = append(c.pend, fmt.Sprintf("let %s := %s in", pat, call))
	}
	j := len(s.results)
	if s.mutRecv {
		if _, isCall := stripParens(recvExpr).(*ast.CallExpr); isCall {
			// x.M1(..).M2(..): the receiver of M2 is the pointer M1 returned; its new value has no name here.
			// Sound only if the object is not used through another name afterwards: checked.
			c.chainCheck(recvExpr, e)
		} else {
			c.storeBack(recvExpr, names[j], true)
		}
		j++
	}
	for i, m := range s.mutPar {
		if m {
			term := names[j]
			if s.params[i].k == mSum {
				if at := c.tyOf(e.Args[i]); at.k != mSum {
					// the argument was converted to the interface: the new contents are taken out again (the callee
					// cannot change the dynamic type of what it was given)
					ctor := ""
					for _, a := range c.g.sumAlts[s.params[i].name] {
						if types.Identical(a.gt, c.typeOf(e.Args[i])) {
							ctor = a.ctor
						}
					}
					if ctor == "" {
						c.fail(e.Args[i], "internal: no constructor for the argument type")
					}
					term = fmt.Sprintf("(match %s with %s v_ => v_ | _ => %s end)", names[j], ctor, c.ex(e.Args[i]))
				}
			}
			c.storeBack(e.Args[i], term, false)
			j++
		}
	}
	if s.heap {
		c.pend = append(c.pend, fmt.Sprintf("let %s := %s in", c.vn(c.heapVar()), names[j]))
		j++
	}
	return names[:len(s.results)], s.results
}

// chainCheck: in x.M1(..).M2(..) with M2 writing through its receiver, the variable x at the root of the
// chain must not be used after the call (the object M1 returned may be x itself)
func (c *m3) chainCheck(recv ast.Expr, whole *ast.CallExpr) {
	root := recv
	for {
		root = stripParens(root)
		call, ok := root.(*ast.CallExpr)
		if !ok {
			break
		}
		sel, ok := call.Fun.(*ast.SelectorExpr)
		if !ok {
			c.fail(recv, "method call on the result of a function call that changes the object")
		}
		root = sel.X
	}
	o := c.rootVar(root)
	if o == nil {
		c.fail(recv, "method call chain whose root is not a variable")
	}
	ast.Inspect(c.fn.Body, func(n ast.Node) bool {
		if id, ok := n.(*ast.Ident); ok && c.obj(id) == o && id.Pos() > whole.End() {
			c.fail(id, "`%s` is used after a method-call chain that changed the object it may point to (sharing is not modelled)", id.Name)
		}
		switch l := n.(type) {
		case *ast.ForStmt:
			if l.Pos() < whole.Pos() && whole.End() < l.End() {
				c.fail(whole, "method-call chain that changes the object inside a loop")
			}
		case *ast.RangeStmt:
			if l.Pos() < whole.Pos() && whole.End() < l.End() {
				c.fail(whole, "method-call chain that changes the object inside a loop")
			}
		}
		return true
	})
}

func anyTrue(b []bool) bool {
	for _, x := range b {
		if x {
			return true
		}
	}
	return false
}

// storeBack: after a call that changed the object x points to (or the addressable struct x), rebind it.
// isRecv: x is a receiver expression (a struct value or a pointer); otherwise x is a pointer argument.
func (c *m3) storeBack(x ast.Expr, term string, isRecv bool) {
	for {
		p, ok := x.(*ast.ParenExpr)
		if !ok {
			break
		}
		x = p.X
	}
	if u, ok := x.(*ast.UnaryExpr); ok && u.Op == token.AND {
		c.storePath(u.X, term)
		return
	}
	t := c.tyOf(x)
	if t.k == mOpt {
		if id, ok := x.(*ast.Ident); ok && c.direct[c.obj(id)] {
			c.storePath(x, term)
			return
		}
		c.storePath(x, "(Some "+term+")")
		return
	}
	c.storePath(x, term)
}

// legacyCall: a function of Gen/Kernels2.v (no receiver fields, no abstract objects)
func (c *m3) legacyCall(e *ast.CallExpr, key string, s *fsig) ([]string, []mtype) {
	if len(s.fields) > 0 || len(s.absTypes) > 0 || len(s.wfields) > 0 || s.structParams {
		c.fail(e, "call of `%s` of Gen/Kernels2.v, which has receiver-field or abstract parameters (translate it in this mode)", s.name)
	}
	parts := []string{"Kernels2." + s.name}
	if s.fuel {
		c.usesFuel = true
		parts = append(parts, "fuel")
	}
	if len(e.Args) != len(s.params) {
		c.fail(e, "call with %d arguments of a function with %d parameters", len(e.Args), len(s.params))
	}
	for _, a := range e.Args {
		parts = append(parts, c.ex(a))
	}
	call := strings.Join(parts, " ")
	var rts []mtype
	for _, r := range s.results {
		rts = append(rts, r)
	}
	if !s.hasErr {
		if len(rts) == 1 {
			if s.fallible {
				return []string{c.bind(call)}, rts
			}
			return []string{"(" + call + ")"}, rts
		}
		c.fail(e, "call of `%s` of Gen/Kernels2.v with %d results", s.name, len(rts))
	}
	li := c.g.legDecl[key]
	if li == nil || !li.errZero {
		c.fail(e, "call of `%s` of Gen/Kernels2.v: some error return of it returns non-zero values (they are dropped there)", s.name)
	}
	var zs []string
	for _, r := range rts {
		zs = append(zs, r.zero())
	}
	zero := "tt"
	if len(zs) == 1 {
		zero = zs[0]
	} else if len(zs) > 1 {
		zero = "(" + strings.Join(zs, ", ") + ")"
	}
	code := "(fun k_ => k_)"
	if len(li.sentOf) > 0 {
		var ks []int
		for k := range li.sentOf {
			ks = append(ks, k)
		}
		sort.Ints(ks)
		body := "k_"
		for i := len(ks) - 1; i >= 0; i-- {
			body = fmt.Sprintf("if k_ =? %d then %s else %s", ks[i], c.g.needSentinel(li.sentOf[ks[i]]), body)
		}
		code = "(fun k_ => " + body + ")"
	}
	var names []string
	for range rts {
		names = append(names, c.fresh())
	}
	en := c.fresh()
	var pat string
	switch len(names) {
	case 0:
		pat = "(_, " + en + ")"
	case 1:
		pat = "(" + names[0] + ", " + en + ")"
	default:
		pat = "((" + strings.Join(names, ", ") + "), " + en + ")"
	}
	c.effect = true
	c.pend = append(c.pend, fmt.Sprintf("do %s <- Go3.of_res %s %s (%s) ;;", pat, zero, code, call))
	return append(names, en), append(rts, mtype{k: mErr})
}

// methodCall: x.M(args)
func (c *m3) methodCall(e *ast.CallExpr, sel *ast.SelectorExpr, s *types.Selection) ([]string, []mtype) {
	f := s.Obj().(*types.Func)
	gsig := f.Type().(*types.Signature)
	if len(s.Index()) != 1 {
		c.fail(e, "call of the promoted method `%s` (through an embedded field)", c.srcText(e.Fun.Pos(), e.Fun.End()))
	}
	xt := c.typeOf(sel.X)
	if curMode4 && isBigInt4(xt) {
		return c.bigMethod(e, sel)
	}
	if an := abstractName3(xt); an != "" {
		return c.absFuncCall(e, an+"_"+f.Name(), gsig, sel.X, an, mutating3[an+"."+f.Name()])
	}
	n, isNamed := derefNamed(xt)
	if isNamed && n.Obj().Pkg() == c.p.tpkg {
		if _, isIface := n.Underlying().(*types.Interface); !isIface {
			return c.pkgFuncCall(e, c.spec.pkg, f, sel.X)
		}
	}
	if isNamed {
		if mt := c.mtL(xt, sel.X, true); mt.k == mSum {
			return c.dispatch(e, sel, mt, f)
		}
		if n.Obj().Pkg() != nil && n.Obj().Pkg() != c.p.tpkg {
			if dir, ok := repoDir(n.Obj().Pkg().Path()); ok {
				key := dir + ":" + n.Obj().Name() + "." + f.Name()
				if c.g.funcs[key] != nil {
					return c.pkgFuncCall(e, dir, f, sel.X)
				}
			}
			// a method of an imported struct the translation looks into (wire.MsgTx.Copy, ..): abstract
			return c.absFuncCall(e, n.Obj().Pkg().Name()+"_"+n.Obj().Name()+"_"+f.Name(), gsig, sel.X, "", mutating3[n.Obj().Name()+"."+f.Name()])
		}
	}
	c.fail(e, "unsupported method call `%s`", c.srcText(e.Pos(), e.End()))
	return nil, nil
}

// dispatch: a method call on a value of a sum interface: a match over the dynamic types
func (c *m3) dispatch(e *ast.CallExpr, sel *ast.SelectorExpr, it mtype, f *types.Func) ([]string, []mtype) {
	x := c.ex(sel.X)
	var args []string
	for _, a := range e.Args {
		args = append(args, c.ex(a))
	}
	var arms []string
	var rts []mtype
	for _, a := range c.g.sumAlts[it.name] {
		n, _ := derefNamed(a.gt)
		dir, _ := repoDir(n.Obj().Pkg().Path())
		s := c.g.funcs[dir+":"+n.Obj().Name()+"."+f.Name()]
		if s == nil {
			c.fail(e, "dynamic dispatch of `%s`: the method of %s is not translated", f.Name(), n.Obj().Name())
		}
		if s.mutRecv || anyTrue(s.mutPar) {
			c.fail(e, "dynamic dispatch of a method that changes its receiver")
		}
		rts = s.results
		parts := []string{s.name}
		if s.fuel {
			c.usesFuel = true
			parts = append(parts, "fuel")
		}
		parts = append(parts, "r_")
		parts = append(parts, args...)
		call := strings.Join(parts, " ")
		if !s.fallible {
			call = "Ok (" + call + ")"
		}
		if a.t.k == mOpt {
			arms = append(arms, fmt.Sprintf("| %s (Some r_) => %s | %s None => Panic 5", a.ctor, call, a.ctor))
		} else {
			arms = append(arms, fmt.Sprintf("| %s r_ => %s", a.ctor, call))
		}
	}
	arms = append(arms, fmt.Sprintf("| %s_nil => Panic 5", it.name))
	t := c.bind(fmt.Sprintf("(match %s with %s end)", x, strings.Join(arms, " ")))
	if len(rts) == 1 {
		return []string{t}, rts
	}
	var names []string
	for range rts {
		names = append(names, c.fresh())
	}
	c.pend = append(c.pend, fmt.Sprintf("let '(%s) := %s in", strings.Join(names, ", "), t))
	return names, rts
}

// ---------------------------------------------------------------------------
// package-level tables and string constants

// checkReadOnly3: as checkReadOnly of the first mode, but passing the table to a function of an imported
// package counts as a read (noted: the callee is assumed not to modify or retain it)
func (c *m3) checkReadOnly3(f *ast.File, v *types.Var, name string) {
	allowed := map[*ast.Ident]bool{}
	ast.Inspect(f, func(n ast.Node) bool {
		ce, ok := n.(*ast.CallExpr)
		if !ok {
			return true
		}
		sel, ok := ce.Fun.(*ast.SelectorExpr)
		if !ok {
			return true
		}
		if x, ok := sel.X.(*ast.Ident); ok {
			if _, isPkg := c.p.info.Uses[x].(*types.PkgName); isPkg {
				for _, a := range ce.Args {
					if id, ok := a.(*ast.Ident); ok && c.p.info.Uses[id] == v {
						allowed[id] = true
						c.note(ce, "the package-level `%s` is passed to `%s`, assumed not to modify it", name, c.srcText(ce.Fun.Pos(), ce.Fun.End()))
					}
				}
			}
		}
		return true
	})
	if len(allowed) == 0 {
		c.checkReadOnly(f, v, name)
		return
	}
	// temporarily hide the allowed uses from the strict check
	saved := map[*ast.Ident]types.Object{}
	for id := range allowed {
		saved[id] = c.p.info.Uses[id]
		delete(c.p.info.Uses, id)
	}
	defer func() {
		for id, o := range saved {
			c.p.info.Uses[id] = o
		}
	}()
	c.checkReadOnly(f, v, name)
}

func (c *m3) strConst(use *ast.Ident, k *types.Const) string {
	name := c.p.name + "_" + use.Name
	if _, ok := c.g.consts.lens[name]; ok {
		return name
	}
	b := []byte(constant.StringVal(k.Val()))
	sp := c.p.fset.Position(k.Pos())
	c.g.consts.defs[name] = fmt.Sprintf("(* %s:%d   const %s (the bytes of the string) *)\nDefinition %s : list N := %s.\n",
		filepath.Base(sp.Filename), sp.Line, use.Name, name, bytesLit(b))
	c.g.consts.order = append(c.g.consts.order, name)
	c.g.consts.lens[name] = len(b)
	return name
}

func (c *m3) table3(use *ast.Ident, v *types.Var) (string, int) {
	name := c.p.name + "_" + use.Name
	if n, ok := c.g.consts.lens[name]; ok {
		return name, n
	}
	var spec *ast.ValueSpec
	var idx int
	for _, f := range c.p.files {
		for _, d := range f.Decls {
			gd, ok := d.(*ast.GenDecl)
			if !ok || gd.Tok != token.VAR {
				continue
			}
			for _, sp := range gd.Specs {
				vs := sp.(*ast.ValueSpec)
				for i, n := range vs.Names {
					if c.p.info.Defs[n] == v {
						spec, idx = vs, i
					}
				}
			}
		}
	}
	if spec == nil || idx >= len(spec.Values) || len(spec.Names) != len(spec.Values) {
		c.fail(use, "package-level `%s` has no initialiser the translator can read", use.Name)
	}
	t := c.mt(v.Type(), use)
	var elems []string
	cl, ok := spec.Values[idx].(*ast.CompositeLit)
	if !ok {
		// var x = []byte("constant")
		conv, isConv := spec.Values[idx].(*ast.CallExpr)
		if isConv && len(conv.Args) == 1 {
			if tv, has := c.p.info.Types[conv.Args[0]]; has && tv.Value != nil && tv.Value.Kind() == constant.String && t.k == mList && t.elem.k == mN {
				for _, b := range []byte(constant.StringVal(tv.Value)) {
					elems = append(elems, fmt.Sprint(b))
				}
				cl = &ast.CompositeLit{}
				ok = true
			}
		}
	}
	if !ok {
		c.fail(use, "package-level `%s` is not initialised by a composite literal", use.Name)
	}
	for _, el := range cl.Elts {
		if _, isKV := el.(*ast.KeyValueExpr); isKV {
			c.fail(el, "keyed element in the initialiser of `%s`", use.Name)
		}
		s, ok := c.const3(el)
		if !ok {
			c.fail(el, "non-constant element in the initialiser of `%s`", use.Name)
		}
		elems = append(elems, s)
	}
	if a, isArr := v.Type().Underlying().(*types.Array); isArr && int(a.Len()) != len(elems) {
		c.fail(use, "array `%s` is not fully initialised", use.Name)
	}
	for _, f := range c.p.files {
		c.checkReadOnly3(f, v, use.Name)
	}
	sp := c.p.fset.Position(spec.Pos())
	c.g.consts.defs[name] = fmt.Sprintf("(* %s:%d   var %s *)\nDefinition %s : %s := [%s].\n",
		filepath.Base(sp.Filename), sp.Line, c.firstLine(spec), name, c.coqT(t), strings.Join(elems, "; "))
	c.g.consts.order = append(c.g.consts.order, name)
	c.g.consts.lens[name] = len(elems)
	return name, len(elems)
}

package main

// Phase 5 (soundness audit): regression tests for the holes H1..H8 of design/notes_translator.md.

import (
	"fmt"
	"math/rand"
	"os"
	"os/exec"
	"path/filepath"
	"regexp"
	"strings"
	"testing"

	"verif/harness/cmd/gotrans/selftest"
)

// H1: Go identifiers that look like generated names (differential, third mode)
func TestDifferential9(t *testing.T) {
	coqc, err := exec.LookPath("coqc")
	if err != nil {
		t.Skip("coqc not on PATH")
	}
	theories := "/verif/coq/theories"
	if _, err := os.Stat(filepath.Join(theories, "Gen", "Kernels2.vo")); err != nil {
		t.Skip("compiled theories not found")
	}
	specs := []k3spec{{pkg: "selftest", fn: "Capture", name: "Capture"}, {pkg: "selftest", fn: "Temps", name: "Temps"}, {pkg: "selftest", fn: "Shadow3", name: "Shadow3"}, {pkg: "selftest", fn: "ByteSum", name: "ByteSum"}}
	src, errs := buildKernels3(".", specs)
	if len(errs) > 0 {
		t.Fatalf("selftest functions rejected: %v", errs)
	}
	for _, want := range []string{"done_2'", "t1_'", "k1_'", "fuel_", "x_2'", "x_3'"} {
		if !strings.Contains(src, want) {
			t.Errorf("generated text does not contain the escaped name %s", want)
		}
	}
	rng := rand.New(rand.NewSource(5))
	var calls []string
	add := func(lhs, rhs string) { calls = append(calls, fmt.Sprintf("eqz (%s) %s", lhs, rhs)) }
	nl := func(v []uint32) string {
		var s []string
		for _, x := range v {
			s = append(s, fmt.Sprint(x))
		}
		return "[" + strings.Join(s, ";") + "]"
	}
	bl := func(v []byte) string {
		var s []string
		for _, x := range v {
			s = append(s, fmt.Sprint(x))
		}
		return "[" + strings.Join(s, ";") + "]"
	}
	for i := 0; i < 150; i++ {
		xs := make([]uint32, rng.Intn(5))
		for j := range xs {
			xs[j] = uint32(rng.Intn(40))
		}
		target := uint32(rng.Intn(90))
		if i%3 == 0 {
			target = 77
		}
		add(fmt.Sprintf("lift (fun r => [Z.of_N r]) (Kernels3.Capture %d %s)", target, nl(xs)), guarded3(func() string {
			return fmt.Sprintf("(Ok [(%d)%%Z])", selftest.Capture(target, xs))
		}))
		v := make([]byte, rng.Intn(5))
		for j := range v {
			v[j] = byte(rng.Intn(256))
		}
		a, b, f := uint32(rng.Intn(9)), uint32(rng.Intn(9)), uint32(rng.Intn(9))
		add(fmt.Sprintf("lift (fun '(r, e) => [Z.of_N r; Z.of_N e]) (Kernels3.Temps %s %d %d %d)", bl(v), a, b, f), guarded3(func() string {
			r, err := selftest.Temps(v, a, b, f)
			e := "0"
			if err != nil {
				e = "Kernels3.selftest_ErrOdd"
			}
			return fmt.Sprintf("(Ok [(%d)%%Z; Z.of_N %s])", r, e)
		}))
		// H9: multi-byte strings, byte-indexed
		str := []string{"", "abc", "h\u00e9llo", "\u65e5\u672c\u8a9e", "a\xffb", "\xf0\x9f\x98\x80x", "\xc3"}[i%7]
		add(fmt.Sprintf("lift (fun r => [Z.of_N r]) (Kernels3.ByteSum %s)", bl([]byte(str))), guarded3(func() string {
			return fmt.Sprintf("(Ok [(%d)%%Z])", selftest.ByteSum(str))
		}))
		x, y := uint32(rng.Intn(8)), uint32(rng.Intn(4))
		add(fmt.Sprintf("lift (fun r => [Z.of_N r]) (Ok (Kernels3.Shadow3 %d %d))", x, y), guarded3(func() string {
			return fmt.Sprintf("(Ok [(%d)%%Z])", selftest.Shadow3(x, y))
		}))
	}
	dir := t.TempDir()
	os.MkdirAll(filepath.Join(dir, "Gen"), 0o755)
	if err := os.WriteFile(filepath.Join(dir, "Gen", "Kernels3.v"), []byte(src), 0o644); err != nil {
		t.Fatal(err)
	}
	run := func(file string) []byte {
		cmd := exec.Command(coqc, "-q", "-Q", theories, "BU", "-Q", dir, "T9", file)
		cmd.Dir = dir
		out, err := cmd.CombinedOutput()
		if err != nil {
			t.Fatalf("coqc %s failed: %v\n%.4000s", file, err, out)
		}
		return out
	}
	run(filepath.Join(dir, "Gen", "Kernels3.v"))
	var sb strings.Builder
	sb.WriteString(`From BU Require Import Lib.Bytes.
From T9 Require Gen.Kernels3.
Fixpoint zl_eqb (a b : list Z) : bool :=
  match a, b with [], [] => true | x :: a', y :: b' => (x =? y)%Z && zl_eqb a' b' | _, _ => false end.
Definition eqz (a b : res (list Z)) : bool :=
  match a, b with Ok x, Ok y => zl_eqb x y | Err e, Err f => e =? f | Panic k, Panic j => k =? j | _, _ => false end.
Definition lift {A} (f : A -> list Z) (r : res A) : res (list Z) := match r with Ok x => Ok (f x) | Err e => Err e | Panic k => Panic k end.
`)
	sb.WriteString("Definition results : list bool := [\n  " + strings.Join(calls, ";\n  ") + "].\n")
	sb.WriteString("Definition R := Eval vm_compute in results.\nSet Printing Width 1000000.\nSet Printing Depth 100000000.\nPrint R.\n")
	file := filepath.Join(dir, "Diff9.v")
	os.WriteFile(file, []byte(sb.String()), 0o644)
	out := run(file)
	m := regexp.MustCompile(`(?s)R\s*=\s*\[(.*?)\]`).FindSubmatch(out)
	if m == nil {
		t.Fatalf("cannot parse coqc output:\n%.2000s", out)
	}
	got := regexp.MustCompile(`true|false`).FindAllString(string(m[1]), -1)
	if len(got) != len(calls) {
		t.Fatalf("coq returned %d values for %d calls", len(got), len(calls))
	}
	bad := 0
	for i := range got {
		if got[i] != "true" {
			bad++
			if bad <= 15 {
				t.Errorf("Go and Gallina differ: %s", calls[i])
			}
		}
	}
	t.Logf("%d calls compared, %d differ", len(calls), bad)
}

type rej5 struct {
	files map[string]string // file name -> source (package x in directory x)
	specs []k3spec
	want  string // "" = must be accepted
}

func one5(body string) map[string]string {
	return map[string]string{"x.go": "package x\n\n" + body + "\n"}
}

// H2..H8 + H5 + H6: must-reject snippets (third / fourth mode) with the message, and accepted controls
func TestRejected5(t *testing.T) {
	stubSrc3["github.com/gcash/bchutil/x/dep"] = "package dep\ntype Obj struct{ opaque int }\nfunc New() *Obj { panic(0) }\nfunc (o *Obj) Get() int { panic(0) }"
	defer delete(stubSrc3, "github.com/gcash/bchutil/x/dep")
	fG := []k3spec{{pkg: "x", fn: "G", name: "G"}, {pkg: "x", fn: "F", name: "F"}}
	sortSpecs := []k3spec{{pkg: "x", fn: "F", name: "F"}}
	cases := []rej5{
		// H2: nothing with a call is dropped; fmt operands on which fmt would call user code are refused
		{one5("import \"fmt\"\ntype T struct{ n int }\nfunc F(p *T) error { return fmt.Errorf(\"x %v\", p) }"), nil, "fmt would run code"},
		{one5("import \"fmt\"\ntype A int\nfunc (a A) String() string { return \"a\" }\nfunc F(a A) error { return fmt.Errorf(\"x %v\", a) }"), nil, "has a method String"},
		{one5("import \"fmt\"\nfunc F(e error) error { return fmt.Errorf(\"x %s\", e.Error()) }"), nil, "unsupported method call"},
		{one5("import \"fmt\"\ntype T struct{ n int }\nfunc F(p *T) string { _ = fmt.Sprintf(\"%v\", p); return \"\" }"), nil, "fmt would run code"},
		{one5("import \"fmt\"\ntype T struct{ n int }\nfunc G(p *T) int { p.n++; return p.n }\nfunc F(p *T) error { return fmt.Errorf(\"x %d\", G(p)) }"), fG, ""},
		{one5("import \"fmt\"\ntype E struct{ n *int }\nfunc (e E) Error() string { *e.n = 1; return \"e\" }\nfunc F(e error) error { return fmt.Errorf(\"x %v\", e) }"), nil, "Error method"},
		{one5("func F(v []byte, n int) []byte { return make([]byte, 0, len(v[n:])) }"), nil, ""},
		// H3: sort sites
		{one5("import \"sort\"\ntype W []int\nfunc (w W) Len() int { return len(w) }\nfunc (w W) Less(i, j int) bool { return w[i] > w[j] }\nfunc (w W) Swap(i, j int) { w[i], w[j] = w[j], w[i] }\nfunc F(v []int) { sort.Sort(W(v)) }"), sortSpecs, "not in the list of translated functions"},
		// H4 / H8: see TestPhase5Text
		// H7: internal storage of abstract objects
		{one5("import \"bytes\"\nfunc F(v []byte) []byte { var b bytes.Buffer; b.Write(v); x := b.Bytes(); b.WriteByte(1); return x }"), nil, "handed out its internal storage"},
		{one5("import \"bytes\"\nfunc F(b *bytes.Buffer) []byte { return b.Bytes() }"), nil, "not a local object"},
		{one5("import \"bytes\"\nfunc F(v []byte) []byte { var b bytes.Buffer; b.Write(v); return b.Bytes() }"), nil, ""},
		// H6
		{one5("func F(a uint32) uint32 { nil := a; return nil }"), nil, "predeclared identifier"},
		{one5("func F(a int, s int) int { return a << s }"), nil, "count of a signed type"},
		{one5("type E struct{ n int }\ntype T struct{ E }\nfunc (e *E) Get() int { return e.n }\nfunc F(t *T) int { return t.Get() }"), []k3spec{{pkg: "x", recv: "E", fn: "Get", name: "E_Get"}, {pkg: "x", fn: "F", name: "F"}}, "promoted method"},
		{one5("type T struct{ n int }\nfunc F(p, q *T) bool { return p == q }"), nil, "comparison of option"},
		{one5("func F(a uint32) (r uint32) { defer func() { r = 2 }(); return a }"), nil, "defer"},
		{one5("func G(xs ...int) int { return len(xs) }\nfunc F(a int) int { return G(a, a) }"), fG, "arguments"},
		{one5("func F(v []byte) bool { var w []byte; return w == nil }"), nil, "nil"},
		{one5("import \"strconv\"\nfunc F(a int64, b int) string { return strconv.FormatInt(a, b) }"), nil, "must be a constant in its domain"},
		// H9: range over a string walks runes
		{one5("func F(s string) int { n := 0; for i := range s { n += i }; return n }"), nil, "range over a string"},
		{one5("func F(s string) int { n := 0; for range s { n++ }; return n }"), nil, "range over a string"},
		{one5("type S string\nfunc F(s S) int { n := 0; for i, c := range s { n += i + int(c) }; return n }"), nil, "range over a string"},
		{one5("func F(s []byte) int { n := 0; for i := range s { n += i }; return n }"), nil, ""},
		// H5: duplicate declarations, decoys, several packages, shadowed builtins
		{map[string]string{"x.go": "package x\n\nfunc F(a uint32) uint32 { return a + 1 }\n", "a_decoy.go": "package x\n\nfunc F(a uint32) uint32 { return a }\n"}, nil, "declared more than once"},
		{map[string]string{"x.go": "package x\n\nfunc F(a uint32) uint32 { return a + 1 }\n", "a_decoy.go": "//go:build ignore\n\npackage x\n\nfunc F(a uint32) uint32 { return a }\n"}, nil, ""},
		{map[string]string{"x.go": "package x\n\ntype T struct{ n int }\nfunc (t *T) M() int { return t.n }\nfunc F(a uint32) uint32 { return a }\n", "y.go": "package x\n\nfunc (t *T) M() int { return 0 }\n"}, nil, "declared more than once"},
		{map[string]string{"x.go": "package x\n\nfunc F(a uint32) uint32 { return a + 1 }\n", "y.go": "package y\n\nfunc G() {}\n"}, nil, "several packages"},
		{map[string]string{"x.go": "package x\n\nfunc F(v []int) []int { return append(v, 1) }\n", "y.go": "package x\n\nfunc append(v []int, x int) []int { return v }\n"}, nil, "predeclared identifier"},
		{map[string]string{"x.go": "package x\n\nfunc F(a uint32) uint32 { return a + 1 }\n", "y_plan9.go": "package x\n\nfunc F(a uint32) uint32 { return a }\n"}, nil, ""},
	}
	for i, cse := range cases {
		dir := t.TempDir()
		os.MkdirAll(filepath.Join(dir, "x"), 0o755)
		for n, s := range cse.files {
			if err := os.WriteFile(filepath.Join(dir, "x", n), []byte(s), 0o644); err != nil {
				t.Fatal(err)
			}
		}
		specs := cse.specs
		if specs == nil {
			specs = []k3spec{{pkg: "x", fn: "F", name: "F"}}
		}
		_, errs := buildKernels3(dir, specs)
		all := strings.Join(errs, "\n")
		switch {
		case cse.want == "" && len(errs) != 0:
			t.Errorf("case %d rejected (%v): %v", i, errs, cse.files)
		case cse.want != "" && len(errs) == 0:
			t.Errorf("case %d accepted, want %q: %v", i, cse.want, cse.files)
		case cse.want != "" && !strings.Contains(all, cse.want):
			t.Errorf("case %d: message %q does not mention %q", i, errs, cse.want)
		}
	}
}

// H1 in the first two modes: identifiers with underscores are escaped / collisions rejected; H5 for their loader
func TestRejected5Modes12(t *testing.T) {
	dir := t.TempDir()
	os.MkdirAll(filepath.Join(dir, "x"), 0o755)
	os.WriteFile(filepath.Join(dir, "x", "x.go"), []byte("package x\n\nfunc F(a uint32) uint32 { return a + 1 }\n"), 0o644)
	os.WriteFile(filepath.Join(dir, "x", "a.go"), []byte("package x\n\nfunc F(a uint32) uint32 { return a }\n"), 0o644)
	if _, err := loadPkg(filepath.Join(dir, "x")); err == nil || !strings.Contains(err.Error(), "declared more than once") {
		t.Errorf("duplicate declaration accepted by the loader of the first two modes: %v", err)
	}
	for _, n := range []string{"done_2", "t1_", "k_", "i_nat", "bf_msgFilterLoad_Filter"} {
		if c := coqName(n); c != n+"'" {
			t.Errorf("coqName(%q) = %q", n, c)
		}
	}
	for _, n := range []string{"fuel", "in", "Ok", "sw_tag"} {
		if c := coqName(n); c == n {
			t.Errorf("coqName(%q) = %q", n, c)
		}
	}
	if coqName(synthMark+"sw1_") != "sw1_" {
		t.Errorf("synthetic name not passed through")
	}
}

// H4 / H8: the generated text contains the checks
func TestPhase5Text(t *testing.T) {
	cases := []struct{ body, want string }{
		{"import \"github.com/gcash/bchd/wire\"\nfunc F(tx *wire.MsgTx) int { h := tx.TxHash(); return len(h) }", "do _ <- Go3.deref tx ;;"},
		{"import \"github.com/gcash/bchd/wire\"\nfunc F(tx *wire.MsgTx) int { if tx == nil { return 0 }; v := tx.Version; h := tx.TxHash(); return len(h) + int(v) }", "do t1_ <- Go3.deref tx ;;"},
		{"import \"github.com/gcash/bchd/bchec\"\nfunc F(pk *bchec.PublicKey) []byte { return pk.SerializeCompressed() }", "Go3.nonnil (PublicKey_isnil pk)"},
		{"import \"bytes\"\nfunc F(n int) []byte { var b bytes.Buffer; b.Grow(n); return b.Bytes() }", "Go3.require (0 <=? n)%Z"},
		{"import \"bytes\"\nfunc F(v []byte) []byte { var b bytes.Buffer; b.Grow(len(v)); return b.Bytes() }", "Buffer_Grow"},
	}
	for i, cse := range cases {
		dir := t.TempDir()
		os.MkdirAll(filepath.Join(dir, "x"), 0o755)
		os.WriteFile(filepath.Join(dir, "x", "x.go"), []byte("package x\n\n"+cse.body+"\n"), 0o644)
		src, errs := buildKernels3(dir, []k3spec{{pkg: "x", fn: "F", name: "F"}})
		if len(errs) > 0 {
			t.Errorf("case %d rejected: %v", i, errs)
			continue
		}
		j := strings.Index(src, "Definition F")
		if j < 0 || !strings.Contains(src[j:], cse.want) {
			t.Errorf("case %d: generated text lacks %q:\n%s", i, cse.want, src[j:])
		}
		if i == 1 && strings.Contains(src[j:], "do _ <- Go3.deref tx") {
			t.Errorf("case 1: redundant nil check after a dominating dereference:\n%s", src[j:])
		}
		if i == 4 && strings.Contains(src[j:], "Go3.require") {
			t.Errorf("case 4: precondition emitted for a syntactically non-negative argument")
		}
	}
}

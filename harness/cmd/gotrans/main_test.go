package main

// Differential self-test of the translator: the functions of ./selftest (every construct of the
// supported subset) are translated, the Gallina terms are evaluated by coqc (vm_compute) on fixed and
// pseudo-random inputs, and the values are compared with what the Go functions return.
// Also checks that constructs outside the subset are rejected with a message naming them.
//
//   cd /verif/harness && go test ./cmd/gotrans        (needs coqc on PATH; skipped otherwise)

import (
	"fmt"
	"go/types"
	"math/rand"
	"os"
	"os/exec"
	"path/filepath"
	"regexp"
	"strings"
	"testing"

	"verif/harness/cmd/gotrans/selftest"
)

func translateDir(t *testing.T, dir string, fns ...string) (string, []error) {
	t.Helper()
	p, err := loadPkg(dir)
	if err != nil {
		t.Fatal(err)
	}
	tables := &tableSet{defs: map[string]string{}, lens: map[string]int{}}
	var sb strings.Builder
	var errs []error
	var defs []string
	for _, fn := range fns {
		fd := p.findFunc(fn)
		if fd == nil {
			t.Fatalf("no function %s", fn)
		}
		c := &ctx{p: p, fn: fd, tables: tables, safeIdx: map[types.Object]int64{}, intrins: map[string]bool{}}
		s, err := c.translate()
		if err != nil {
			errs = append(errs, err)
			continue
		}
		defs = append(defs, s)
	}
	sb.WriteString(strings.ReplaceAll(header, "%%", "%"))
	sb.WriteString(le32Def)
	for _, n := range tables.order {
		sb.WriteString(tables.defs[n] + "\n")
	}
	sb.WriteString(strings.Join(defs, "\n"))
	return sb.String(), errs
}

func nlist[T ~uint8 | ~uint32 | ~int](v []T) string {
	var s []string
	for _, x := range v {
		s = append(s, fmt.Sprint(x))
	}
	return "[" + strings.Join(s, ";") + "]"
}

func TestDifferential(t *testing.T) {
	coqc, err := exec.LookPath("coqc")
	if err != nil {
		t.Skip("coqc not on PATH")
	}
	src, errs := translateDir(t, "selftest", "Arith32", "Arith8", "Arith16", "Shifts", "Conv", "Branches", "Loops", "Switch", "Ints")
	if len(errs) > 0 {
		t.Fatalf("selftest functions rejected: %v", errs)
	}
	rng := rand.New(rand.NewSource(20260930))
	edge32 := []uint32{0, 1, 2, 7, 9, 10, 77, 99, 100, 200, 201, 255, 256, 65535, 65536, 0x7fffffff, 0x80000000, 0xfffffffe, 0xffffffff}
	edge64 := []uint64{0, 1, 255, 256, 65535, 1 << 31, 1<<32 - 1, 1 << 32, 1<<63 - 1, 1 << 63, 1<<64 - 1, 0xdeadbeefcafebabe}
	var calls []string
	var want []uint64
	add := func(call string, v uint64) { calls = append(calls, call); want = append(want, v) }
	r32 := func() uint32 {
		if rng.Intn(3) == 0 {
			return edge32[rng.Intn(len(edge32))]
		}
		return rng.Uint32()
	}
	r64 := func() uint64 {
		if rng.Intn(3) == 0 {
			return edge64[rng.Intn(len(edge64))]
		}
		return rng.Uint64()
	}
	for _, a := range edge32 {
		for _, b := range edge32 {
			add(fmt.Sprintf("Arith32 %d %d", a, b), uint64(selftest.Arith32(a, b)))
			add(fmt.Sprintf("Branches %d %d", a, b), uint64(selftest.Branches(a, b)))
		}
	}
	for a := 0; a < 256; a += 5 {
		for b := 0; b < 256; b += 7 {
			add(fmt.Sprintf("Arith8 %d %d", a, b), uint64(selftest.Arith8(uint8(a), uint8(b))))
		}
	}
	for i := 0; i < 300; i++ {
		a, b := r32(), r32()
		add(fmt.Sprintf("Arith32 %d %d", a, b), uint64(selftest.Arith32(a, b)))
		add(fmt.Sprintf("Branches %d %d", a, b), uint64(selftest.Branches(a, b)))
		x, y := uint16(r32()), r64()
		add(fmt.Sprintf("Arith16 %d %d", x, y), uint64(selftest.Arith16(x, y)))
		c := r64()
		add(fmt.Sprintf("Conv %d", c), selftest.Conv(c))
	}
	for _, a := range edge64 {
		for s := uint32(0); s < 140; s += 3 {
			add(fmt.Sprintf("Shifts %d %d", a, s), selftest.Shifts(a, s))
		}
		// (a count like 0xffffffff is also fine semantically, but N.shiftl would build a 4-gigabit number first)
		add(fmt.Sprintf("Conv %d", a), selftest.Conv(a))
	}
	for i := 0; i < 60; i++ {
		v := make([]byte, 2+rng.Intn(9))
		rng.Read(v)
		w := make([]uint32, 5+rng.Intn(3))
		for j := range w {
			w[j] = r32()
		}
		n := uint32(rng.Intn(6))
		add(fmt.Sprintf("Loops %s %s %d", nlist(v), nlist(w), n), uint64(selftest.Loops(v, w, n)))
		a := r32()
		if i < 14 {
			a = uint32(i)
		}
		add(fmt.Sprintf("Switch %d %s", a, nlist(v)), uint64(selftest.Switch(a, v)))
		iv := make([]int, rng.Intn(8))
		for j := range iv {
			iv[j] = rng.Intn(1 << 20)
		}
		m := rng.Intn(1 << 30)
		add(fmt.Sprintf("Ints %s %d", nlist(iv), m), uint64(selftest.Ints(iv, m)))
	}
	dir := t.TempDir()
	var sb strings.Builder
	sb.WriteString(src)
	sb.WriteString("\nDefinition results : list N := [\n  " + strings.Join(calls, ";\n  ") + "].\n")
	sb.WriteString("Definition R := Eval vm_compute in results.\nSet Printing Width 1000000.\nSet Printing Depth 100000000.\nPrint R.\n")
	file := filepath.Join(dir, "SelfTest.v")
	if err := os.WriteFile(file, []byte(sb.String()), 0o644); err != nil {
		t.Fatal(err)
	}
	cmd := exec.Command(coqc, "-q", file)
	cmd.Dir = dir
	out, err := cmd.CombinedOutput()
	if err != nil {
		t.Fatalf("coqc failed: %v\n%s", err, out)
	}
	m := regexp.MustCompile(`(?s)R\s*=\s*\[(.*?)\]`).FindSubmatch(out)
	if m == nil {
		t.Fatalf("cannot parse coqc output:\n%.2000s", out)
	}
	got := regexp.MustCompile(`[0-9]+`).FindAllString(string(m[1]), -1)
	if len(got) != len(want) {
		t.Fatalf("coq returned %d values for %d calls", len(got), len(want))
	}
	bad := 0
	for i := range want {
		if got[i] != fmt.Sprint(want[i]) {
			bad++
			if bad <= 10 {
				t.Errorf("%s: Go %d, Gallina %s", calls[i], want[i], got[i])
			}
		}
	}
	t.Logf("%d calls compared, %d differ", len(want), bad)
}

// every snippet must be rejected, and the message must name the construct
func TestRejected(t *testing.T) {
	cases := []struct{ body, want string }{
		{"func F(v []byte) uint32 { x := uint32(0); for _, d := range v { if d == 3 { break }; x++ }; return x }", "break"},
		{"func F(v []byte) uint32 { x := uint32(0); for _, d := range v { if d == 3 { return x }; x++ }; return x }", "return inside"},
		{"func F(a uint32) uint32 { x := a; for x > 3 { x-- }; return x }", "unsupported for loop"},
		{"func F(a uint32) uint32 { return G(a) }\nfunc G(a uint32) uint32 { return a }", "unsupported call"},
		{"func F(a int32) int32 { return a + 1 }", "unsupported type int32"},
		{"func F(a float64) uint32 { return uint32(a) }", "unsupported type float64"},
		{"func F(a uint32) uint32 { x, y := a, a; return x + y }", "left-hand sides"},
		{"func F(a uint32) uint32 { x := a; { x++ }; return x }", "nested block"},
		{"func F(a uint32) uint32 { x := a; if a > 1 { x := a + 1; x++ }; return x }", "shadows"},
		{"func F(a uint32) uint32 { p := &a; return *p }", "unsupported"},
		{"func F(v []byte) uint32 { x := uint32(0); for i, d := range v { x += uint32(d) + uint32(i) }; return x }", "index variable"},
		{"func F(v []byte) uint32 { x := uint32(0); for i := 0; i < 4; i++ { i++; x++ }; return x }", "assigns the loop variable"},
		{"func F(a uint32) uint32 { x := a; for i := uint32(0); i < x; i++ { x-- }; return x }", "depends on a variable assigned in the loop"},
		{"func F(a uint32) (r uint32) { r = a; return r }", "named result"},
		{"func F(a uint32) (uint32, bool) { return a, true }", "exactly one result"},
		{"var T = []uint32{1, 2}\nfunc F(a uint32) uint32 { return T[a&1] }\nfunc G() { T[0] = 5 }", "may be modified"},
		{"var T = []int{1, -2}\nfunc F(a uint32) int { return T[a&1] }", "negative constant"},
		{"func F(a uint32) uint32 { x := a; defer func() {}(); return x }", "unsupported statement"},
		{"func F(a uint32) uint32 { x := a; switch { case a > 1: x++ }; return x }", "switch without a tag"},
		{"func F(a uint32, v []byte) uint32 { x := a; v[0] = 1; return x }", "assignment to"},
		{"func F(a uint32) uint32 { goto L; L: return a }", "goto"},
	}
	for i, cse := range cases {
		dir := t.TempDir()
		if err := os.WriteFile(filepath.Join(dir, "x.go"), []byte("package x\n"+cse.body+"\n"), 0o644); err != nil {
			t.Fatal(err)
		}
		_, errs := translateDir(t, dir, "F")
		if len(errs) == 0 {
			t.Errorf("case %d accepted: %s", i, cse.body)
			continue
		}
		if !strings.Contains(errs[0].Error(), cse.want) {
			t.Errorf("case %d: message %q does not mention %q", i, errs[0], cse.want)
		}
	}
}

package main

// Differential self-test of the monadic mode on ./selftest/kernels2.go: constructs that the translated
// bchutil functions do not exercise (break, value returns from nested loops, for-cond loops, every run-time
// panic, fixed-width signed arithmetic, short-circuit over panicking operands, strings, multi-value calls).
// Go panics are caught and classified like the Panic kinds of the translation.

import (
	"fmt"
	"math/rand"
	"os"
	"os/exec"
	"path/filepath"
	"regexp"
	"strings"
	"testing"

	"verif/harness/cmd/gotrans/selftest"
)

func panicKind(r interface{}) int {
	s := fmt.Sprint(r)
	switch {
	case strings.Contains(s, "index out of range"):
		return 1
	case strings.Contains(s, "slice bounds out of range"):
		return 2
	case strings.Contains(s, "divide by zero"):
		return 3
	case strings.Contains(s, "makeslice"):
		return 6
	}
	return 99
}

// run f; returns "Panic k" when it panics
func guarded(f func() string) (out string) {
	defer func() {
		if r := recover(); r != nil {
			out = fmt.Sprintf("(Panic %d)", panicKind(r))
		}
	}()
	return f()
}

func zs(v int64) string { return fmt.Sprintf("(%d)%%Z", v) }

func TestDifferential3(t *testing.T) {
	coqc, err := exec.LookPath("coqc")
	if err != nil {
		t.Skip("coqc not on PATH")
	}
	theories := "/verif/coq/theories"
	if _, err := os.Stat(filepath.Join(theories, "Lib", "Bytes.vo")); err != nil {
		t.Skip("compiled theories not found")
	}
	var specs []k2spec
	for _, f := range []string{"FindFirst", "Nested", "Collatz", "Panics", "Signed", "ShortCircuit", "Strings", "divmod", "Multi", "Swap", "Sw"} {
		specs = append(specs, k2spec{pkg: "selftest", fn: f, name: f})
	}
	src, errs := buildKernels2(".", specs)
	if len(errs) > 0 {
		t.Fatalf("selftest functions rejected: %v", errs)
	}
	rng := rand.New(rand.NewSource(7))
	var calls []string
	add := func(lhs, rhs string) { calls = append(calls, fmt.Sprintf("eqr (%s) %s", lhs, rhs)) }
	rb := func(n, max int) []byte {
		b := make([]byte, n)
		for i := range b {
			b[i] = byte(rng.Intn(max))
		}
		return b
	}
	bl := func(b []byte) string {
		var s []string
		for _, x := range b {
			s = append(s, fmt.Sprint(x))
		}
		return "[" + strings.Join(s, ";") + "]"
	}
	for i := 0; i < 150; i++ {
		v, w := rb(rng.Intn(8), 6), rb(rng.Intn(6), 6)
		if rng.Intn(4) == 0 && len(w) > 0 {
			w[rng.Intn(len(w))] = 255
		}
		x, stop := byte(rng.Intn(6)), byte(rng.Intn(6))
		add(fmt.Sprintf("rz (FindFirst %s %d %d)", bl(v), x, stop), guarded(func() string { return "(Ok (vz " + zs(int64(selftest.FindFirst(v, x, stop))) + "))" }))
		add(fmt.Sprintf("rz (Nested %s %s)", bl(v), bl(w)), guarded(func() string {
			r, err := selftest.Nested(v, w)
			if err != nil {
				if err == selftest.ErrNeg {
					return "(Err 2)"
				}
				return "(Err 1)"
			}
			return "(Ok (vz " + zs(int64(r)) + "))"
		}))
		ii := rng.Intn(10) - 2
		add(fmt.Sprintf("rb (ShortCircuit %s %s)", bl(v), zs(int64(ii))), guarded(func() string {
			if selftest.ShortCircuit(v, ii) {
				return "(Ok (vb true))"
			}
			return "(Ok (vb false))"
		}))
		a, b := rng.Intn(9)-1, rng.Intn(9)-1
		d := uint32(rng.Intn(4))
		add(fmt.Sprintf("rn (Panics %s %s %s %s %d)", bl(v), zs(int64(ii)), zs(int64(a)), zs(int64(b)), d), guarded(func() string {
			return fmt.Sprintf("(Ok (vn %d))", selftest.Panics(v, ii, a, b, d))
		}))
		x32, lim := uint32(rng.Intn(40)), uint32(rng.Intn(30))
		add(fmt.Sprintf("rnn (Collatz 200 %d %d)", x32, lim), guarded(func() string {
			p, q := selftest.Collatz(x32, lim)
			return fmt.Sprintf("(Ok (vl [%d;%d]))", p, q)
		}))
		a32 := int32(rng.Uint32())
		if rng.Intn(3) == 0 {
			a32 = []int32{0, 1, -1, 2147483647, -2147483648, 46341}[rng.Intn(6)]
		}
		b8 := int8(rng.Intn(256))
		c64 := int64(rng.Uint64())
		if rng.Intn(3) == 0 {
			c64 = []int64{0, -1, 9223372036854775807, -9223372036854775808, 1 << 62}[rng.Intn(5)]
		}
		u := rng.Uint32()
		add(fmt.Sprintf("rz (Ok (Signed %s %s %s %d))", zs(int64(a32)), zs(int64(b8)), zs(c64), u), "(Ok (vz "+zs(selftest.Signed(a32, b8, c64, u))+"))")
		s1, s2 := string(rb(rng.Intn(6), 3)), string(rb(rng.Intn(4), 3))
		if rng.Intn(3) == 0 {
			s2 = s1
		}
		cb := byte(rng.Intn(3))
		if rng.Intn(5) == 0 {
			cb = byte(128 + rng.Intn(128))
		}
		add(fmt.Sprintf("rl (Strings %s %s %d)", bl([]byte(s1)), bl([]byte(s2)), cb), guarded(func() string {
			r, err := selftest.Strings(s1, s2, cb)
			if err != nil {
				return "(Err 1)"
			}
			return "(Ok (vl " + bl([]byte(r)) + "))"
		}))
		ma, mb := rng.Uint32(), uint32(rng.Intn(5))
		if rng.Intn(2) == 0 {
			mb = rng.Uint32()
		}
		add(fmt.Sprintf("rn (Multi %d %d)", ma, mb), guarded(func() string { return fmt.Sprintf("(Ok (vn %d))", selftest.Multi(ma, mb)) }))
		sv := rb(rng.Intn(10), 256)
		if rng.Intn(2) == 0 {
			for q := range sv {
				sv[q] = []byte{0, 1, 2, 3, 5, 6, 7, 200, 100, 8, 9, 13}[rng.Intn(12)]
			}
		}
		sa := uint32(rng.Intn(10))
		if rng.Intn(2) == 0 {
			sa = rng.Uint32()
		}
		add(fmt.Sprintf("rn (Sw %d %s)", sa, bl(sv)), guarded(func() string {
			r, err := selftest.Sw(sa, sv)
			if err != nil {
				return "(Err 1)"
			}
			return fmt.Sprintf("(Ok (vn %d))", r)
		}))
		si, sj := rng.Intn(9)-1, rng.Intn(9)-1
		add(fmt.Sprintf("rl (Swap %s %s %s)", bl(v), zs(int64(si)), zs(int64(sj))), guarded(func() string { return "(Ok (vl " + bl(selftest.Swap(v, si, sj)) + "))" }))
	}
	dir := t.TempDir()
	os.MkdirAll(filepath.Join(dir, "Gen"), 0o755)
	if err := os.WriteFile(filepath.Join(dir, "Gen", "Kernels2.v"), []byte(src), 0o644); err != nil {
		t.Fatal(err)
	}
	run := func(file string) []byte {
		cmd := exec.Command(coqc, "-q", "-Q", theories, "BU", "-Q", dir, "T3", file)
		cmd.Dir = dir
		out, err := cmd.CombinedOutput()
		if err != nil {
			t.Fatalf("coqc %s failed: %v\n%.3000s", file, err, out)
		}
		return out
	}
	run(filepath.Join(dir, "Gen", "Kernels2.v"))
	var sb strings.Builder
	sb.WriteString(`From BU Require Import Lib.Bytes.
From T3 Require Import Gen.Kernels2.
Inductive val := vz (z : Z) | vn (n : N) | vb (b : bool) | vl (l : list N).
Definition veq (a b : val) : bool :=
  match a, b with vz x, vz y => (x =? y)%Z | vn x, vn y => x =? y | vb x, vb y => Bool.eqb x y | vl x, vl y => list_eqb x y | _, _ => false end.
Definition eqr (a b : res val) : bool :=
  match a, b with Ok x, Ok y => veq x y | Err e, Err f => e =? f | Panic k, Panic j => k =? j | _, _ => false end.
Definition lift {A} (f : A -> val) (r : res A) : res val := match r with Ok x => Ok (f x) | Err e => Err e | Panic k => Panic k end.
Definition rz := lift vz. Definition rn := lift vn. Definition rb := lift vb. Definition rl := lift vl.
Definition rnn := lift (fun p : N * N => vl [fst p; snd p]).
`)
	sb.WriteString("Definition results : list bool := [\n  " + strings.Join(calls, ";\n  ") + "].\n")
	sb.WriteString("Definition R := Eval vm_compute in results.\nSet Printing Width 1000000.\nSet Printing Depth 100000000.\nPrint R.\n")
	file := filepath.Join(dir, "Diff3.v")
	os.WriteFile(file, []byte(sb.String()), 0o644)
	out := run(file)
	m := regexp.MustCompile(`(?s)R\s*=\s*\[(.*?)\]`).FindSubmatch(out)
	if m == nil {
		t.Fatalf("cannot parse coqc output:\n%.2000s", out)
	}
	got := regexp.MustCompile(`true|false`).FindAllString(string(m[1]), -1)
	if len(got) != len(calls) {
		t.Fatalf("coq returned %d values for %d calls", len(got), len(calls))
	}
	bad := 0
	for i := range got {
		if got[i] != "true" {
			bad++
			if bad <= 15 {
				t.Errorf("Go and Gallina differ: %s", calls[i])
			}
		}
	}
	np, ne := 0, 0
	for _, c := range calls {
		if strings.Contains(c, "(Panic ") {
			np++
		}
		if strings.Contains(c, "(Err ") {
			ne++
		}
	}
	t.Logf("%d calls compared (%d expect a panic, %d an error), %d differ", len(calls), np, ne, bad)
}

// every snippet must be rejected by the monadic mode, and the message must name the construct
func TestRejected2(t *testing.T) {
	cases := []struct{ body, want string }{
		{"func F(v []byte) int { x := 0; L: for _, d := range v { if d == 3 { break L }; x++ }; return x }", "unsupported statement"},
		{"func F(a uint32) uint32 { goto L; L: return a }", "goto"},
		{"func F(a uint32) uint32 { x := a; defer func() {}(); return x }", "function literal"},
		{"func F(a uint32) uint32 { f := func() uint32 { return a }; return f() }", "function literal"},
		{"func F(a uint32) uint32 { if x := a + 1; x > 2 { return x }; return a }", "if with an init"},
		{"func F(v []byte) byte { v[0] = 1; return v[0] }", "element of the parameter"},
		{"func F(v []byte) byte { w := make([]byte, 4); y := w[1:]; y[0] = 1; return w[1] + v[0] }", "shares its array"},
		{"func F(v []byte) int { a := append(v, 1); b := append(v, 2); return len(a) + len(b) }", "appended to after"},
		{"func F(v []byte) []byte { w := make([]byte, 2); u := append(v, w...); w[0] = 1; return u }", ""}, // fine: append copies w
		{"func F(v []byte) []byte { w := make([]byte, 2); u := G(w); w[0] = 1; return u }\nfunc G(x []byte) []byte { return x }", "after the slice was passed on"},
		{"func F(a float64) uint32 { return uint32(a) }", "unsupported type float64"},
		{"func F(m map[string]int) int { return m[\"a\"] }", "unsupported type"},
		{"func F(a uint32) uint32 { return G(a) }\nfunc G(a uint32) uint32 { return a }", "not (yet) a translated function"},
		{"import \"errors\"\nfunc G(a int) (int, error) { if a < 0 { return 0, errors.New(\"n\") }; return a, nil }\nfunc F(a int) (int, error) { x, err := G(a); return x, err }", "must be followed by"},
		{"import \"errors\"\nfunc G(a int) (int, error) { if a < 0 { return 0, errors.New(\"n\") }; return a, nil }\nfunc F(a int) (int, error) { x, err := G(a); if err == nil { x++ }; return x, nil }", "used after"},
		{"func F(v []byte) int { x := 0; for i := 0; i < len(v); i += 2 { x++ }; return x }", "unsupported for loop"},
		{"func F(v []byte) int { x := 0; for i := 0; i < x+3; i++ { x++ }; return x }", "depends on a variable assigned in the loop"},
		{"func F(s string) int { x := 0; for _, r := range s { x += int(r) }; return x }", "range over a string"},
		{"func F(v []byte) bool { return v == nil }", "nil"},
		{"func F(a uint32) uint32 { switch { case a > 1: return 1 }; return a }", "switch without a tag"},
		{"func F(a uint32, v []byte) uint32 { x := a; for _, b := range v { switch b { case 1: break }; x++ }; return x }", "break inside a switch"},
		{"func F(a uint32) (r uint32) { r = a; return r }", "named result"},
		{"func F(a uint32) uint32 { x := a; { x++ }; return x }", "nested block"},
		{"func F(a uint32) uint32 { x := a; if a > 1 { x := a + 1; x++ }; return x }", "shadows"},
		{"type T struct{ n int }\nfunc F(p *T) int { q := p; return q.n }", "unsupported"},
		{"func F(a int) int { x := 0; for x < a { x++ }; for { x-- }; return x }", "for loop without a condition"},
	}
	for i, cse := range cases {
		dir := t.TempDir()
		src := "package x\n" + cse.body + "\n"
		if strings.HasPrefix(cse.body, "import") {
			src = "package x\n\n" + cse.body + "\n"
		}
		if err := os.WriteFile(filepath.Join(dir, "x.go"), []byte(src), 0o644); err != nil {
			t.Fatal(err)
		}
		specs := []k2spec{{pkg: ".", fn: "F", name: "F"}}
		if strings.Contains(cse.body, "func G(a int) (int, error)") {
			specs = []k2spec{{pkg: ".", fn: "G", name: "G"}, {pkg: ".", fn: "F", name: "F"}}
		}
		_, errs := buildKernels2(dir, specs)
		if cse.want == "" {
			if len(errs) != 0 {
				t.Errorf("case %d rejected (%v): %s", i, errs, cse.body)
			}
			continue
		}
		if len(errs) == 0 {
			t.Errorf("case %d accepted: %s", i, cse.body)
			continue
		}
		if !strings.Contains(strings.Join(errs, "\n"), cse.want) {
			t.Errorf("case %d: message %q does not mention %q", i, errs, cse.want)
		}
	}
}

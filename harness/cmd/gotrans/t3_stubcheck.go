package main

// Third mode: the constants declared in the stubs (t3_base.go) are checked against the sources of the
// packages they stand for, on every run: the module cache for the dependencies named in the repository's
// go.mod, GOROOT/src for the standard library.  A constant whose value differs is an error (exit 1): the
// generated text would silently compare with the wrong number.  A package whose source cannot be found is
// reported (the check is skipped for it).

import (
	"fmt"
	"go/ast"
	"go/constant"
	"go/parser"
	"go/token"
	"go/types"
	"os"
	"path/filepath"
	"regexp"
	"runtime"
	"sort"
	"strings"
)

func modCacheDirs() []string {
	var out []string
	if d := os.Getenv("GOMODCACHE"); d != "" {
		out = append(out, d)
	}
	if gp := os.Getenv("GOPATH"); gp != "" {
		for _, p := range filepath.SplitList(gp) {
			out = append(out, filepath.Join(p, "pkg", "mod"))
		}
	}
	if h, err := os.UserHomeDir(); err == nil {
		out = append(out, filepath.Join(h, "go", "pkg", "mod"))
	}
	return out
}

func escapeModPath(p string) string {
	var sb strings.Builder
	for _, r := range p {
		if r >= 'A' && r <= 'Z' {
			sb.WriteByte('!')
			sb.WriteRune(r + 32)
		} else {
			sb.WriteRune(r)
		}
	}
	return sb.String()
}

// sourceDir: the directory holding the source of the imported package, or ""
func sourceDir(repo, importPath string) string {
	if dir, ok := repoDir(importPath); ok {
		return filepath.Join(repo, dir)
	}
	if !strings.Contains(strings.SplitN(importPath, "/", 2)[0], ".") {
		for _, root := range []string{os.Getenv("GOROOT"), runtime.GOROOT(), "/usr/local/go", "/usr/lib/go"} {
			if root == "" {
				continue
			}
			d := filepath.Join(root, "src", importPath)
			if st, err := os.Stat(d); err == nil && st.IsDir() {
				return d
			}
		}
		return ""
	}
	gomod, err := os.ReadFile(filepath.Join(repo, "go.mod"))
	if err != nil {
		return ""
	}
	re := regexp.MustCompile(`(?m)^\s*(?:require\s+)?([^\s()]+)\s+(v[^\s/]+)`)
	best, bestVer := "", ""
	for _, m := range re.FindAllStringSubmatch(string(gomod), -1) {
		mod, ver := m[1], m[2]
		if (importPath == mod || strings.HasPrefix(importPath, mod+"/")) && len(mod) > len(best) {
			best, bestVer = mod, ver
		}
	}
	if best == "" {
		return ""
	}
	for _, cache := range modCacheDirs() {
		d := filepath.Join(cache, escapeModPath(best)+"@"+bestVer, strings.TrimPrefix(importPath, best))
		if st, err := os.Stat(d); err == nil && st.IsDir() {
			return d
		}
	}
	return ""
}

// realConstants type-checks the package in dir as far as its constants go
func realConstants(dir string) map[string]constant.Value {
	fset := token.NewFileSet()
	filter := func(fi os.FileInfo) bool { return !strings.HasSuffix(fi.Name(), "_test.go") }
	parsed, err := parser.ParseDir(fset, dir, filter, parser.SkipObjectResolution)
	if err != nil && len(parsed) == 0 {
		return nil
	}
	out := map[string]constant.Value{}
	for name, pk := range parsed {
		if strings.HasSuffix(name, "_test") || name == "main" {
			continue
		}
		var files []*ast.File
		var names []string
		for f := range pk.Files {
			names = append(names, f)
		}
		sort.Strings(names)
		for _, f := range names {
			files = append(files, pk.Files[f])
		}
		conf := types.Config{Importer: failImporter{}, FakeImportC: true, Error: func(error) {}}
		p, _ := conf.Check(dir, fset, files, nil)
		if p == nil {
			continue
		}
		for _, n := range p.Scope().Names() {
			if k, ok := p.Scope().Lookup(n).(*types.Const); ok && k.Val().Kind() != constant.Unknown {
				out[n] = k.Val()
			}
		}
	}
	return out
}

// checkStubConstants returns the list of mismatches (errors) and of notes
func checkStubConstants(repo string, imp *srcImporter) (errs, notes []string) {
	var paths []string
	for p := range imp.pkgs {
		paths = append(paths, p)
	}
	sort.Strings(paths)
	for _, path := range paths {
		stub := imp.pkgs[path]
		if stub == nil {
			continue
		}
		var consts []*types.Const
		for _, n := range stub.Scope().Names() {
			if k, ok := stub.Scope().Lookup(n).(*types.Const); ok {
				consts = append(consts, k)
			}
		}
		if len(consts) == 0 {
			continue
		}
		dir := sourceDir(repo, path)
		if dir == "" {
			notes = append(notes, fmt.Sprintf("constants of the stub of %s NOT checked (source of the package not found)", path))
			continue
		}
		real := realConstants(dir)
		for _, k := range consts {
			rv, ok := real[k.Name()]
			if !ok {
				errs = append(errs, fmt.Sprintf("stub of %s declares the constant %s, which %s does not (or its value could not be computed)", path, k.Name(), dir))
				continue
			}
			if k.Val().Kind() == constant.Float || rv.Kind() == constant.Float {
				continue // math.Ln2: only ever used in float code, which is not translated
			}
			if !constant.Compare(k.Val(), token.EQL, rv) {
				errs = append(errs, fmt.Sprintf("stub of %s: constant %s = %s, but %s has %s", path, k.Name(), k.Val().ExactString(), dir, rv.ExactString()))
			}
		}
	}
	return errs, notes
}

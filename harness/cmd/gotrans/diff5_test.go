//go:build verif

package main

// Differential test of the third mode on the REAL functions of /repo (public API): the Gallina text of
// Gen/Kernels3.v is regenerated from /repo, its dependencies are instantiated by the in-Coq SHA-256 and the
// base58 model, and the results are compared with what the Go functions return.
//
//   cd /verif/harness && go test -tags verif ./cmd/gotrans -run TestDifferential5

import (
	"fmt"
	"math/rand"
	"os"
	"os/exec"
	"path/filepath"
	"regexp"
	"strings"
	"testing"

	"github.com/gcash/bchd/chaincfg"
	"github.com/gcash/bchd/chaincfg/chainhash"
	"github.com/gcash/bchd/wire"
	"github.com/gcash/bchutil"
	"github.com/gcash/bchutil/base58"
	"github.com/gcash/bchutil/merkleblock"
)

func TestDifferential5(t *testing.T) {
	coqc, err := exec.LookPath("coqc")
	if err != nil {
		t.Skip("coqc not on PATH")
	}
	theories := "/verif/coq/theories"
	if _, err := os.Stat(filepath.Join(theories, "Base58", "Base58.vo")); err != nil {
		t.Skip("compiled theories not found")
	}
	src, errs := buildKernels3("/repo", kernels3)
	if len(errs) > 0 {
		t.Fatalf("rejected: %v", errs)
	}
	rng := rand.New(rand.NewSource(5))
	var calls []string
	add := func(lhs, rhs string) { calls = append(calls, fmt.Sprintf("eqz (%s) %s", lhs, rhs)) }
	zl := func(parts ...string) string { return "(Ok [" + strings.Join(parts, ";") + "])" }
	zb := func(b []byte) []string {
		var o []string
		for _, x := range b {
			o = append(o, fmt.Sprintf("%d%%Z", x))
		}
		return o
	}
	rb := func(n int) []byte {
		b := make([]byte, n)
		rng.Read(b)
		return b
	}
	mutate := func(s string) string {
		if len(s) == 0 {
			return s
		}
		b := []byte(s)
		i := rng.Intn(len(b))
		const alpha = "qpzry9x8gf2tvdw0s3jn54khce6mua7l123456789ABCDEFGHJKLMNPQRSTUVWXYZabcdefghijkmnopqrstuvwxyz:"
		b[i] = alpha[rng.Intn(len(alpha))]
		return string(b)
	}

	// ---- base58check
	for i := 0; i < 40; i++ {
		in := rb(rng.Intn(30))
		if rng.Intn(4) == 0 {
			in = append(make([]byte, rng.Intn(3)), in...)
		}
		ver := byte(rng.Intn(256))
		enc := base58.CheckEncode(in, ver)
		add(fmt.Sprintf("lift (List.map Z.of_N) (Kernels3.CheckEncode sha256 Base58.encode %s %d)", blist(in), ver), zl(zb([]byte(enc))...))
		s := enc
		if rng.Intn(2) == 0 {
			s = mutate(s)
		}
		if rng.Intn(8) == 0 {
			s = s[:rng.Intn(len(s)+1)]
		}
		dec, v, derr := base58.CheckDecode(s)
		code := "0"
		switch derr {
		case base58.ErrChecksum:
			code = "Kernels3.base58_ErrChecksum"
		case base58.ErrInvalidFormat:
			code = "Kernels3.base58_ErrInvalidFormat"
		}
		add(fmt.Sprintf("lift (fun '(p, v, e) => Z.of_N e :: Z.of_N v :: List.map Z.of_N p) (Kernels3.CheckDecode sha256 Base58.decode %s)", blist([]byte(s))),
			zl(append([]string{"Z.of_N " + code, fmt.Sprintf("%d%%Z", v)}, zb(dec)...)...))
	}

	// ---- DecodeAddress (main net): cash / slp / legacy addresses, mutated and malformed strings
	net := &chaincfg.MainNetParams
	var addrs []string
	for i := 0; i < 12; i++ {
		h20, h32 := rb(20), rb(32)
		a1, _ := bchutil.NewAddressPubKeyHash(h20, net)
		a2, _ := bchutil.NewAddressScriptHashFromHash(h20, net)
		a3, _ := bchutil.NewAddressScriptHash32FromHash(h32, net)
		a4, _ := bchutil.NewLegacyAddressPubKeyHash(h20, net)
		a5, _ := bchutil.NewLegacyAddressScriptHashFromHash(h20, net)
		a6, _ := bchutil.NewSlpAddressPubKeyHash(h20, net)
		a7, _ := bchutil.NewSlpAddressScriptHashFromHash(h20, net)
		for _, a := range []bchutil.Address{a1, a2, a3, a4, a5, a6, a7} {
			s := a.EncodeAddress()
			addrs = append(addrs, s)
			if i%3 == 0 {
				addrs = append(addrs, mutate(s))
			}
			if i%4 == 1 && strings.Contains(s, ":") {
				addrs = append(addrs, s[strings.Index(s, ":")+1:], strings.ToUpper(s))
			}
		}
	}
	addrs = append(addrs, "", "x", "bitcoincash:", "bitcoincash:q", "1", "simpleledger:qq", strings.Repeat("1", 34))
	kindOf := func(a bchutil.Address) int {
		switch a.(type) {
		case *bchutil.AddressPubKeyHash:
			return 1
		case *bchutil.AddressScriptHash:
			return 2
		case *bchutil.AddressScriptHash32:
			return 3
		case *bchutil.LegacyAddressPubKeyHash:
			return 4
		case *bchutil.LegacyAddressScriptHash:
			return 5
		case *bchutil.AddressPubKey:
			return 6
		}
		return 0
	}
	for _, s := range addrs {
		if len(s) == 66 || len(s) == 130 {
			continue // the raw public key path needs secp256k1
		}
		a, derr := bchutil.DecodeAddress(s, net)
		var want string
		if derr != nil {
			code := "1%Z" // some fresh error: only its being non-nil is compared
			switch derr {
			case bchutil.ErrChecksumMismatch:
				code = "Z.of_N Kernels3.bchutil_ErrChecksumMismatch"
			case bchutil.ErrUnknownFormat:
				code = "Z.of_N Kernels3.bchutil_ErrUnknownFormat"
			case bchutil.ErrAddressCollision:
				code = "Z.of_N Kernels3.bchutil_ErrAddressCollision"
			case bchutil.ErrUnknownAddressType:
				code = "Z.of_N Kernels3.bchutil_ErrUnknownAddressType"
			}
			want = zl(code)
		} else {
			isSlp := 0
			if !a.IsForNet(net) && kindOf(a) <= 3 {
				isSlp = 1
			}
			want = zl(append([]string{"0%Z", fmt.Sprintf("%d%%Z", kindOf(a)), fmt.Sprintf("%d%%Z", isSlp)}, zb(a.ScriptAddress())...)...)
		}
		add(fmt.Sprintf("lift view_addr (decode_addr %s)", blist([]byte(s))), want)
	}

	// ---- merkle blocks: messages built by the Go builder, extracted by the translated decoder
	for i := 0; i < 10; i++ {
		n := 1 + rng.Intn(7)
		blk := wire.NewMsgBlock(&wire.BlockHeader{})
		var hashes []*chainhash.Hash
		for j := 0; j < n; j++ {
			tx := wire.NewMsgTx(1)
			tx.LockTime = uint32(rng.Intn(1 << 30))
			blk.AddTransaction(tx)
			h := tx.TxHash()
			hashes = append(hashes, &h)
		}
		var set []*chainhash.Hash
		for j := 0; j < n; j++ {
			if rng.Intn(2) == 0 {
				set = append(set, hashes[j])
			}
		}
		msg, _ := merkleblock.NewMerkleBlockWithTxnSet(bchutil.NewBlock(blk), set)
		if rng.Intn(4) == 0 && len(msg.Flags) > 0 {
			msg.Flags[0] ^= byte(1 << uint(rng.Intn(8)))
		}
		if rng.Intn(6) == 0 && len(msg.Hashes) > 1 {
			msg.Hashes = msg.Hashes[:len(msg.Hashes)-1]
		}
		pb := merkleblock.NewMerkleBlockFromMsg(*msg)
		root := pb.ExtractMatches()
		var hl []string
		for _, h := range msg.Hashes {
			hl = append(hl, "Some "+blist(h[:]))
		}
		coqMsg := fmt.Sprintf("(Kernels3.mk_wire_MsgMerkleBlock unit tt %d [%s] %s)", msg.Transactions, strings.Join(hl, ";"), blist(msg.Flags))
		want := zl("0%Z")
		if root != nil {
			parts := []string{"1%Z"}
			parts = append(parts, zb(root[:])...)
			for _, it := range pb.GetItems() {
				parts = append(parts, fmt.Sprintf("%d%%Z", it))
			}
			want = zl(parts...)
		}
		add(fmt.Sprintf("lift view_root (extract_msg %s)", coqMsg), want)
	}

	dir := t.TempDir()
	os.MkdirAll(filepath.Join(dir, "Gen"), 0o755)
	if err := os.WriteFile(filepath.Join(dir, "Gen", "Kernels3.v"), []byte(src), 0o644); err != nil {
		t.Fatal(err)
	}
	run := func(file string) []byte {
		cmd := exec.Command(coqc, "-q", "-Q", theories, "BU", "-Q", dir, "T5", file)
		cmd.Dir = dir
		out, err := cmd.CombinedOutput()
		if err != nil {
			t.Fatalf("coqc %s failed: %v\n%.4000s", file, err, out)
		}
		return out
	}
	run(filepath.Join(dir, "Gen", "Kernels3.v"))
	var sb strings.Builder
	sb.WriteString(`From BU Require Import Lib.Bytes Lib.Sha256 Base58.Base58 Address.Address Gen.Nets.
From T5 Require Gen.Kernels3.
Fixpoint zl_eqb (a b : list Z) : bool :=
  match a, b with [], [] => true | x :: a', y :: b' => (x =? y)%Z && zl_eqb a' b' | _, _ => false end.
(* an error is compared by identity when the Go side names a package-level error, by being non-nil otherwise *)
Definition eqz (a b : res (list Z)) : bool :=
  match a, b with
  | Ok (e :: x), Ok (f :: y) => if (f =? 1)%Z then (0 <? e)%Z && (e <? 1000)%Z else (e =? f)%Z && zl_eqb x y
  | Ok x, Ok y => zl_eqb x y
  | Err e, Err f => e =? f | Panic k, Panic j => k =? j | _, _ => false end.
Definition lift {A} (f : A -> list Z) (r : res A) : res (list Z) := match r with Ok x => Ok (f x) | Err e => Err e | Panic k => Panic k end.
Definition mainp := Kernels3.mk_chaincfg_Params (net_name mainnet) (cash_prefix mainnet) (slp_prefix mainnet) (pkh_id mainnet) (sh_id mainnet) (wif_id mainnet) (hd_priv_id mainnet) (hd_pub_id mainnet) 0.
Definition hexdec (s : list N) : list N * N := match hex_decode s with Some b => (b, 0) | None => ([], 1) end.
Definition decode_addr (s : list N) :=
  Kernels3.DecodeAddress unit unit sha256 Base58.decode tt (fun _ _ => (tt, 1)) hexdec
    (fun id => mem id registered_pkh_ids) (fun id => mem id registered_sh_ids) 63 s (Some mainp).
Definition slpflag (p : list N) : Z := if list_eqb p (slp_prefix mainnet) then 1%Z else 0%Z.
Definition view_addr (r : Kernels3.bchutil_Address unit * N) : list Z :=
  let '(a, e) := r in
  if negb (e =? 0) then [Z.of_N e] else
  match a with
  | Kernels3.bchutil_Address_AddressPubKeyHash _ (Some x) => 0%Z :: 1%Z :: slpflag (Kernels3.bchutil_AddressPubKeyHash_prefix x) :: List.map Z.of_N (Kernels3.bchutil_AddressPubKeyHash_hash x)
  | Kernels3.bchutil_Address_AddressScriptHash _ (Some x) => 0%Z :: 2%Z :: slpflag (Kernels3.bchutil_AddressScriptHash_prefix x) :: List.map Z.of_N (Kernels3.bchutil_AddressScriptHash_hash x)
  | Kernels3.bchutil_Address_AddressScriptHash32 _ (Some x) => 0%Z :: 3%Z :: slpflag (Kernels3.bchutil_AddressScriptHash32_prefix x) :: List.map Z.of_N (Kernels3.bchutil_AddressScriptHash32_hash x)
  | Kernels3.bchutil_Address_LegacyAddressPubKeyHash _ (Some x) => 0%Z :: 4%Z :: 0%Z :: List.map Z.of_N (Kernels3.bchutil_LegacyAddressPubKeyHash_hash x)
  | Kernels3.bchutil_Address_LegacyAddressScriptHash _ (Some x) => 0%Z :: 5%Z :: 0%Z :: List.map Z.of_N (Kernels3.bchutil_LegacyAddressScriptHash_hash x)
  | _ => [0%Z; 99%Z]
  end.
Definition hmb (l r : option (list N)) : option (list N) :=
  match l, r with Some a, Some b => Some (sha256d (a ++ b)) | _, _ => None end.
Definition iseq (a b : option (list N)) : bool :=
  match a, b with Some x, Some y => list_eqb x y | None, None => true | _, _ => false end.
Definition extract_msg (m : Kernels3.wire_MsgMerkleBlock unit) :=
  match Kernels3.NewMerkleBlockFromMsg unit m with
  | Ok (Some pb) => Kernels3.PartialBlock_ExtractMatches iseq hmb 1000000 40 pb
  | Ok None => Panic 5 | Err e => Err e | Panic k => Panic k
  end.
Definition view_root (r : option (list N) * Kernels3.merkleblock_PartialBlock) : list Z :=
  match fst r with
  | None => [0%Z]
  | Some h => 1%Z :: List.map Z.of_N h ++ List.map Z.of_N (Kernels3.merkleblock_PartialBlock_matchedItems (snd r))
  end.
`)
	sb.WriteString("Definition results : list bool := [\n  " + strings.Join(calls, ";\n  ") + "].\n")
	sb.WriteString("Definition R := Eval vm_compute in results.\nSet Printing Width 1000000.\nSet Printing Depth 100000000.\nPrint R.\n")
	file := filepath.Join(dir, "Diff5.v")
	os.WriteFile(file, []byte(sb.String()), 0o644)
	out := run(file)
	m := regexp.MustCompile(`(?s)R\s*=\s*\[(.*?)\]`).FindSubmatch(out)
	if m == nil {
		t.Fatalf("cannot parse coqc output:\n%.2000s", out)
	}
	got := regexp.MustCompile(`true|false`).FindAllString(string(m[1]), -1)
	if len(got) != len(calls) {
		t.Fatalf("coq returned %d values for %d calls", len(got), len(calls))
	}
	bad := 0
	for i := range got {
		if got[i] != "true" {
			bad++
			if bad <= 10 {
				t.Errorf("Go and Gallina differ: %.600s", calls[i])
			}
		}
	}
	t.Logf("%d calls of the real functions compared, %d differ", len(calls), bad)
}

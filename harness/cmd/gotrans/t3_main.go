package main

// Third mode: global state of one generation (declared types, Section variables, error constants),
// type mapping, per-function driver and the writer of Gen/Kernels3.v.

import (
	"fmt"
	"go/ast"
	"go/token"
	"go/types"
	"os"
	"path/filepath"
	"sort"
	"strings"
)

type k3spec struct {
	pkg  string // directory relative to the repository root
	recv string
	fn   string
	name string // Coq name
	from string // fragment (see k2spec)
	to   string
	m4   bool // a function of the fourth list (Gen/Kernels4.v)
	heap bool // (fourth mode) translated in the heap variant (t4_heap.go)
}

// interfaces translated as sum types: qualified interface name -> the dynamic types (in constructor order)
var sums3 = map[string][]string{
	"github.com/gcash/bchutil.Address": {
		"*github.com/gcash/bchutil.AddressPubKeyHash", "*github.com/gcash/bchutil.AddressScriptHash",
		"*github.com/gcash/bchutil.AddressScriptHash32", "*github.com/gcash/bchutil.LegacyAddressPubKeyHash",
		"*github.com/gcash/bchutil.LegacyAddressScriptHash", "*github.com/gcash/bchutil.AddressPubKey"},
	"github.com/gcash/bchutil/coinset.Coins": {"*github.com/gcash/bchutil/coinset.CoinSet"},
	// the self-test (cmd/gotrans/selftest/kernels3.go)
	"github.com/gcash/bchutil/selftest.Shape": {"*github.com/gcash/bchutil/selftest.Circle", "*github.com/gcash/bchutil/selftest.Rect"},
}

// functions of the translated packages that stay abstract (Section variables), keyed pkgdir:Recv.Func
var abstractFuncs3 = map[string]bool{
	"base58:.Encode": true, "base58:.Decode": true,
	".:.Hash160": true, ".:.Hash256": true,
}

type fsig3 struct {
	name     string
	key      string
	recv     *mtype // receiver (record type; pointer receivers are assumed non-nil)
	recvPtr  bool
	params   []mtype
	pnames   []string
	results  []mtype // Go results, the error included (N)
	mutRecv  bool    // the new receiver is returned after the results
	mutPar   []bool  // the new value of pointer parameter i is returned (after the receiver)
	fallible bool
	fuel     bool
	rec      bool // self-recursive (a Fixpoint on fuel)
	consumes []bool
	gsig     *types.Signature
	heap     bool  // heap variant: takes the table after fuel and returns it last
	resClass []int // per Go result of pointer type: 0 a fresh object (or a value), 1 the receiver or a fresh object, 2 unknown
}

func (s *fsig3) nOut() int {
	n := len(s.results)
	if s.mutRecv {
		n++
	}
	for _, m := range s.mutPar {
		if m {
			n++
		}
	}
	if s.heap {
		n++
	}
	return n
}

type g3 struct {
	repo      string
	imp       *srcImporter
	pkgs      map[string]*pkgInfo
	funcs     map[string]*fsig3
	legacy    map[string]*fsig // sigs of Gen/Kernels2.v
	legDecl   map[string]*legacyInfo
	decls     []string    // Records / Inductives / setters, in order
	declInfo  []declInfo4 // parallel to decls (used by the fourth mode)
	declSeen  map[string]bool
	absTypes  []string
	absVars   []absMeth
	sentinel  []string
	sentSeen  map[string]bool
	consts    *tableSet
	mut       map[string]*mutInfo
	inProg    map[string]bool
	sumAlts   map[string][]alt3
	sortSites []sortSite5 // (phase 5) every sort.Sort / IsSorted / Reverse site: function, kind, static type
}

type legacyInfo struct {
	errZero bool
	sentOf  map[int]string // site -> sentinel constant name
	nsites  int
}

type mutInfo struct {
	recv bool
	par  []bool
}

func (g *g3) needAbsType(n string) {
	for _, x := range g.absTypes {
		if x == n {
			return
		}
	}
	g.absTypes = append(g.absTypes, n)
}

func (g *g3) needVar(name, coq string, at func(string)) {
	for _, x := range g.absVars {
		if x.name == name {
			if x.coq != coq {
				at(fmt.Sprintf("Section variable %s used at two different types (%s / %s)", name, x.coq, coq))
			}
			return
		}
	}
	g.absVars = append(g.absVars, absMeth{name, coq})
}

func (g *g3) needSentinel(name string) string {
	if !g.sentSeen[name] {
		g.sentSeen[name] = true
		g.sentinel = append(g.sentinel, name)
	}
	return name
}

// ---------------------------------------------------------------------------
// types

func qualName(n *types.Named) string {
	if n.Obj().Pkg() == nil {
		return n.Obj().Name()
	}
	return n.Obj().Pkg().Path() + "." + n.Obj().Name()
}

func typeKey(t types.Type) string {
	if p, ok := t.(*types.Pointer); ok {
		return "*" + typeKey(p.Elem())
	}
	if n, ok := t.(*types.Named); ok {
		return qualName(n)
	}
	return t.String()
}

func (c *m3) coqT(t mtype) string {
	switch t.k {
	case mN, mErr:
		return "N"
	case mZ:
		return "Z"
	case mBool:
		return "bool"
	case mList:
		return "list " + paren(c.coqT(*t.elem))
	case mUnit:
		return "unit"
	case mAbs:
		return t.abs + "_t"
	case mStruct, mSum:
		return t.name
	case mOpt:
		return "option " + paren(c.coqT(*t.elem))
	case mMap:
		return fmt.Sprintf("option (list (%s * %s))", c.coqT(*t.key), c.coqT(*t.elem))
	case mFloat:
		return "Go4.float"
	case mHPtr:
		return "option N"
	}
	return "?"
}

func (c *m3) zeroT(t mtype, at ast.Node) string {
	switch t.k {
	case mN, mErr:
		return "0"
	case mZ:
		return "0%Z"
	case mBool:
		return "false"
	case mList:
		if t.alen > 0 {
			return fmt.Sprintf("(List.repeat %s %d%%nat)", c.zeroT(*t.elem, at), t.alen)
		}
		return fmt.Sprintf("(@nil %s)", paren(c.coqT(*t.elem)))
	case mMap:
		return fmt.Sprintf("(@None (list (%s * %s)))", c.coqT(*t.key), c.coqT(*t.elem))
	case mOpt:
		return fmt.Sprintf("(@None %s)", paren(c.coqT(*t.elem)))
	case mUnit:
		return "tt"
	case mFloat:
		return "Go4.f64_zero"
	case mHPtr:
		return "(@None N)"
	case mAbs:
		c.g.needAbsType(t.abs)
		c.needVar(t.abs+"_nil", t.abs+"_t", at)
		return t.abs + "_nil"
	case mSum:
		return t.name + "_nil"
	case mStruct:
		parts := []string{"mk_" + t.name}
		for _, f := range t.flds {
			parts = append(parts, c.zeroT(f.t, at))
		}
		return "(" + strings.Join(parts, " ") + ")"
	}
	c.fail(at, "no zero value for %s", c.coqT(t))
	return ""
}

func (c *m3) needVar(name, coq string, at ast.Node) {
	c.g.needVar(name, coq, func(msg string) { c.fail(at, "%s", msg) })
	c.usedVars[name] = true
}

// the package being translated: its own types are never abstract (another package's stub may declare them so)
var curPkg3 *types.Package

func abstractName3(t types.Type) string {
	if p, ok := t.(*types.Pointer); ok {
		t = p.Elem()
	}
	if n, ok := t.(*types.Named); ok && n.Obj().Pkg() != nil {
		if curMode4 && notAbstract4[qualName(n)] {
			return ""
		}
		if abstract3[qualName(n)] && n.Obj().Pkg() != curPkg3 {
			return n.Obj().Name()
		}
		if i, isI := n.Underlying().(*types.Interface); isI && i.NumMethods() > 0 && sums3[qualName(n)] == nil {
			return n.Obj().Name()
		}
	}
	return ""
}

func pkgShort(n *types.Named) string {
	if n.Obj().Pkg() == nil {
		return ""
	}
	return n.Obj().Pkg().Name() + "_"
}

// mt maps a Go type to a value type; lenient: unsupported types become unit (struct fields never used)
func (c *m3) mt(t types.Type, at ast.Node) mtype { return c.mtL(t, at, false) }

func (c *m3) mtL(t types.Type, at ast.Node, lenient bool) mtype {
	if t == nil {
		c.fail(at, "expression `%s` has no type (unresolved)", c.srcText(at.Pos(), at.End()))
	}
	if isErrorType(t) {
		return mtype{k: mErr}
	}
	if curMode4 {
		if m, ok := c.mt4(t, at); ok {
			return m
		}
	}
	if n := abstractName3(t); n != "" {
		c.g.needAbsType(n)
		return mtype{k: mAbs, abs: n}
	}
	if tup, ok := t.(*types.Tuple); ok && tup.Len() == 0 {
		return mtype{k: mUnit}
	}
	if n, ok := t.(*types.Named); ok {
		if alts, isSum := sums3[qualName(n)]; isSum {
			return c.declSum(n, alts, at)
		}
		if st, isStruct := n.Underlying().(*types.Struct); isStruct {
			return c.declStruct(n, st, at)
		}
	}
	switch u := t.Underlying().(type) {
	case *types.Basic:
		switch u.Kind() {
		case types.Uint8:
			return mtype{k: mN, w: 8}
		case types.Uint16:
			return mtype{k: mN, w: 16}
		case types.Uint32:
			return mtype{k: mN, w: 32}
		case types.Uint64, types.Uint, types.Uintptr:
			return mtype{k: mN, w: 64}
		case types.Int8:
			return mtype{k: mZ, w: 8, sized: true}
		case types.Int16:
			return mtype{k: mZ, w: 16, sized: true}
		case types.Int32:
			return mtype{k: mZ, w: 32, sized: true}
		case types.UntypedRune:
			return mtype{k: mZ, w: 32}
		case types.Int64:
			return mtype{k: mZ, w: 64, sized: true}
		case types.Int, types.UntypedInt:
			return mtype{k: mZ, w: 64}
		case types.Bool, types.UntypedBool:
			return mtype{k: mBool}
		case types.String, types.UntypedString:
			return mtype{k: mList, elem: &mtype{k: mN, w: 8}, str: true}
		case types.UntypedNil:
			return mtype{k: mList, elem: &mtype{k: mN, w: 8}}
		}
	case *types.Slice:
		e := c.mtL(u.Elem(), at, lenient)
		return mtype{k: mList, elem: &e}
	case *types.Array:
		e := c.mtL(u.Elem(), at, lenient)
		if u.Len() > 4096 {
			c.fail(at, "array type %s too large", t)
		}
		return mtype{k: mList, elem: &e, alen: u.Len()}
	case *types.Pointer:
		e := c.mtL(u.Elem(), at, lenient)
		return mtype{k: mOpt, elem: &e}
	case *types.Map:
		k := c.mtL(u.Key(), at, lenient)
		v := c.mtL(u.Elem(), at, lenient)
		return mtype{k: mMap, key: &k, elem: &v}
	case *types.Struct:
		if u.NumFields() == 0 {
			return mtype{k: mUnit}
		}
	case *types.Signature:
		return mtype{k: mFunc}
	}
	if lenient {
		return mtype{k: mUnit}
	}
	c.fail(at, "unsupported type %s of `%s`", t, c.srcText(at.Pos(), at.End()))
	return mtype{}
}

func (c *m3) declStruct(n *types.Named, st *types.Struct, at ast.Node) mtype {
	name := pkgShort(n) + n.Obj().Name()
	if curHeap4 && hasHeapPtr4(st, 0) {
		name += "_h" // a Record of the heap variant: its pointers to heap objects are indices
	}
	if c.g.inProg[name] {
		c.fail(at, "recursive struct type %s", name)
	}
	c.g.inProg[name] = true
	defer delete(c.g.inProg, name)
	t := mtype{k: mStruct, name: name}
	for i := 0; i < st.NumFields(); i++ {
		f := st.Field(i)
		t.flds = append(t.flds, fld3{f.Name(), c.mtL(f.Type(), at, true)})
	}
	if !c.g.declSeen[name] {
		c.g.declSeen[name] = true
		var fs []string
		for _, f := range t.flds {
			fs = append(fs, fmt.Sprintf("%s_%s : %s", name, f.name, c.coqT(f.t)))
		}
		c.g.decls = append(c.g.decls, fmt.Sprintf("(* %s *)\nRecord %s := mk_%s { %s }.\n", qualName(n), name, name, strings.Join(fs, "; ")))
		di := declInfo4{kind: "record", typ: name, ctors: []string{"mk_" + name}}
		for _, f := range t.flds {
			di.funcs = append(di.funcs, name+"_"+f.name)
		}
		c.g.declInfo = append(c.g.declInfo, di)
	}
	return t
}

func (c *m3) setter(t mtype, field string) string {
	sname := fmt.Sprintf("set_%s_%s", t.name, field)
	if !c.g.declSeen[sname] {
		c.g.declSeen[sname] = true
		parts := []string{"mk_" + t.name}
		var ft mtype
		for _, f := range t.flds {
			if f.name == field {
				parts = append(parts, "v_")
				ft = f.t
			} else {
				parts = append(parts, fmt.Sprintf("(%s_%s r_)", t.name, f.name))
			}
		}
		c.g.decls = append(c.g.decls, fmt.Sprintf("Definition %s (r_ : %s) (v_ : %s) : %s := %s.\n", sname, t.name, c.coqT(ft), t.name, strings.Join(parts, " ")))
		c.g.declInfo = append(c.g.declInfo, declInfo4{kind: "setter", funcs: []string{sname}})
	}
	return sname
}

func (c *m3) declSum(n *types.Named, alts []string, at ast.Node) mtype {
	name := pkgShort(n) + n.Obj().Name()
	t := mtype{k: mSum, name: name}
	if c.g.declSeen[name] {
		return t
	}
	c.g.declSeen[name] = true
	var al []alt3
	var cs []string
	for _, a := range alts {
		gt := c.lookupType(a, at)
		if gt == nil {
			c.fail(at, "dynamic type %s of the interface %s not found", a, name)
		}
		if !types.AssignableTo(gt, n) {
			c.fail(at, "type %s does not implement %s", a, name)
		}
		mt := c.mt(gt, at)
		base := a[strings.LastIndex(a, ".")+1:]
		ctor := name + "_" + base
		al = append(al, alt3{ctor, mt, gt})
		cs = append(cs, fmt.Sprintf("| %s (v : %s)", ctor, c.coqT(mt)))
	}
	c.g.sumAlts[name] = al
	c.g.decls = append(c.g.decls, fmt.Sprintf("(* interface %s: its dynamic types *)\nInductive %s :=\n%s\n| %s_nil.\n", qualName(n), name, strings.Join(cs, "\n"), name))
	{
		di := declInfo4{kind: "sum", typ: name}
		for _, a := range al {
			di.ctors = append(di.ctors, a.ctor)
		}
		di.ctors = append(di.ctors, name+"_nil")
		c.g.declInfo = append(c.g.declInfo, di)
	}
	return t
}

// lookupType: "*path.Name" or "path.Name"
func (c *m3) lookupType(s string, at ast.Node) types.Type {
	ptr := strings.HasPrefix(s, "*")
	s = strings.TrimPrefix(s, "*")
	i := strings.LastIndex(s, ".")
	path, name := s[:i], s[i+1:]
	var scope *types.Scope
	for _, p := range c.g.pkgs {
		if p.tpkg != nil && p.tpkg.Path() == path {
			scope = p.tpkg.Scope()
		}
	}
	if scope == nil {
		if p, err := c.g.imp.Import(path); err == nil {
			scope = p.Scope()
		}
	}
	if scope == nil {
		return nil
	}
	o := scope.Lookup(name)
	if o == nil {
		return nil
	}
	if ptr {
		return types.NewPointer(o.Type())
	}
	return o.Type()
}

// ---------------------------------------------------------------------------
// which pointer parameters / receivers a function writes through (syntactic, to a fixpoint over the
// listed functions; needed before translating recursive functions and loop states)

func (g *g3) computeMut(specs []k3spec, decls map[string]*ast.FuncDecl, pk map[string]*pkgInfo) {
	g.mut = map[string]*mutInfo{}
	for _, k := range specs {
		fd := decls[k3key(k)]
		if fd == nil || k.from != "" {
			continue
		}
		n := 0
		for _, f := range fd.Type.Params.List {
			n += len(f.Names)
		}
		g.mut[k3key(k)] = &mutInfo{par: make([]bool, n)}
	}
	for changed := true; changed; {
		changed = false
		for _, k := range specs {
			key := k3key(k)
			fd, mi := decls[key], g.mut[key]
			if fd == nil || mi == nil {
				continue
			}
			p := pk[k.pkg]
			curPkg3 = p.tpkg
			curMode4 = k.m4
			curHeap4 = k.heap
			var recvObj types.Object
			if fd.Recv != nil && len(fd.Recv.List[0].Names) == 1 {
				recvObj = p.info.Defs[fd.Recv.List[0].Names[0]]
			}
			parIdx := map[types.Object]int{}
			i := 0
			for _, f := range fd.Type.Params.List {
				for _, nm := range f.Names {
					parIdx[p.info.Defs[nm]] = i
					i++
				}
			}
			origs := originsOf4(p.info, fd.Body)
			mark := func(e ast.Expr) {
				through := false
				viaIndex := false
				for {
					switch x := e.(type) {
					case *ast.ParenExpr:
						e = x.X
						continue
					case *ast.SelectorExpr:
						e = x.X
						through = true
						continue
					case *ast.IndexExpr:
						// writing an element of a slice field is a write through the struct; of a slice parameter it is
						// an effect on the caller's array: the new slice is returned
						e = x.X
						viaIndex = true
						continue
					case *ast.StarExpr:
						e = x.X
						through = true
						continue
					}
					break
				}
				id, ok := e.(*ast.Ident)
				if !ok {
					return
				}
				o := p.info.Uses[id]
				if o == nil {
					return
				}
				if len(origs) > 0 && origs[o] != nil {
					// (fourth mode, JSON) a write to an alias of a part of a JSON parameter: the parameter's new value is returned
					if r := originRoot4(p.info, origs, o); r != nil {
						if j, ok := parIdx[r]; ok && !mi.par[j] && isEmptyIface4(r.Type()) {
							mi.par[j] = true
							changed = true
						}
					}
					return
				}
				if _, isSlice := o.Type().Underlying().(*types.Slice); isSlice && viaIndex && !through {
					if j, ok := parIdx[o]; ok && !mi.par[j] {
						mi.par[j] = true
						changed = true
					}
					if o == recvObj && !mi.recv {
						// a method of a slice type that writes elements of its receiver: the new slice is returned
						mi.recv = true
						changed = true
					}
					return
				}
				if !through {
					return
				}
				if _, isPtr := o.Type().Underlying().(*types.Pointer); !isPtr {
					return
				}
				if isHeapPtr4(o.Type()) {
					return // the object lives in the table
				}
				if o == recvObj && !mi.recv {
					mi.recv = true
					changed = true
				}
				if j, ok := parIdx[o]; ok && !mi.par[j] {
					mi.par[j] = true
					changed = true
				}
			}
			ast.Inspect(fd.Body, func(n ast.Node) bool {
				switch n := n.(type) {
				case *ast.AssignStmt:
					for _, l := range n.Lhs {
						mark(l)
					}
				case *ast.IncDecStmt:
					mark(n.X)
				case *ast.CallExpr:
					// copy(p.f[a:], ..), binary.X.PutUint32(p.f[a:], ..) write p.f
					isWrite := false
					if id, ok := n.Fun.(*ast.Ident); ok && (id.Name == "copy" || (id.Name == "delete" && curMode4)) {
						isWrite = true
					}
					if sel, ok := n.Fun.(*ast.SelectorExpr); ok && sel.Sel.Name == "PutUint32" {
						isWrite = true
					}
					if isWrite && len(n.Args) > 0 {
						d := n.Args[0]
						if se, ok := d.(*ast.SliceExpr); ok {
							d = se.X
						}
						mark(d)
					}
					// sort.Sort(T(p.f)) writes p.f
					if sel, ok := n.Fun.(*ast.SelectorExpr); ok && sel.Sel.Name == "Sort" && len(n.Args) == 1 {
						if pid, ok := sel.X.(*ast.Ident); ok && pid.Name == "sort" {
							a := n.Args[0]
							for {
								if pe, ok := a.(*ast.ParenExpr); ok {
									a = pe.X
									continue
								}
								if ce, ok := a.(*ast.CallExpr); ok && len(ce.Args) == 1 {
									a = ce.Args[0]
									continue
								}
								break
							}
							mark(a)
						}
					}
					// a mutating method of an abstract object held in a field; a listed method that writes its receiver
					if sel, ok := n.Fun.(*ast.SelectorExpr); ok {
						if tv, ok := p.info.Types[sel.X]; ok && tv.Type != nil && !tv.IsType() {
							if an := abstractName3(tv.Type); an != "" && mutating3[an+"."+sel.Sel.Name] {
								mark(&ast.SelectorExpr{X: sel.X, Sel: sel.Sel}) // the holder of the object
								mark(sel.X)
							}
							if ck := methodKey(k.pkg, tv.Type, sel.Sel.Name); ck != "" {
								if cm := g.mut[ck]; cm != nil && cm.recv {
									mark(&ast.SelectorExpr{X: sel.X, Sel: sel.Sel})
								}
							}
						}
					}
					// (fourth mode) an abstract call that changes the abstract object passed as argument j: when that is
					// a parameter of this function, its new value is returned to the caller
					if curMode4 {
						for _, j := range mutArgs3[absCallName4(p.info, n)] {
							if j < len(n.Args) {
								if id, ok := stripParens(n.Args[j]).(*ast.Ident); ok {
									if pj, isPar := parIdx[p.info.Uses[id]]; isPar && !mi.par[pj] && abstractName3(p.info.Uses[id].Type()) != "" {
										mi.par[pj] = true
										changed = true
									}
								}
							}
						}
					}
					// listed functions that write through a pointer parameter
					ck := ""
					if id, ok := n.Fun.(*ast.Ident); ok {
						ck = k.pkg + ":." + id.Name
					} else if sel, ok := n.Fun.(*ast.SelectorExpr); ok {
						if tv, ok := p.info.Types[sel.X]; ok && tv.Type != nil && !tv.IsType() {
							ck = methodKey(k.pkg, tv.Type, sel.Sel.Name)
						}
					}
					if cm := g.mut[ck]; cm != nil {
						for j, a := range n.Args {
							if j < len(cm.par) && cm.par[j] {
								mark(&ast.StarExpr{X: a})
							}
						}
					}
				}
				return true
			})
		}
	}
}

func k3key(k k3spec) string { return k.pkg + ":" + k.recv + "." + k.fn }

func methodKey(pkgdir string, recv types.Type, name string) string {
	if p, ok := recv.(*types.Pointer); ok {
		recv = p.Elem()
	}
	n, ok := recv.(*types.Named)
	if !ok {
		return ""
	}
	return pkgdir + ":" + n.Obj().Name() + "." + name
}

// ---------------------------------------------------------------------------
// a whole function

func (c *m3) translate3() (out string, err error) {
	defer func() {
		if r := recover(); r != nil {
			if te, ok := r.(transErr); ok {
				err = te
				return
			}
			panic(r)
		}
	}()
	fn := c.fn
	c.checkLocalNames5()
	if fn.Type.TypeParams != nil {
		c.fail(fn, "generic function")
	}
	curPkg3 = c.p.tpkg
	curMode4 = c.spec.m4
	curHeap4 = c.spec.heap
	c.sig = &fsig3{name: c.spec.name, key: k3key(c.spec), heap: c.spec.heap}
	c.usedVars = map[string]bool{}
	c.desugar(fn.Body)
	c.giveRangeKeys4(fn.Body)
	c.origins = originsOf4(c.p.info, fn.Body)
	if len(c.origins) > 0 {
		c.note(fn, "the JSON document is assumed to be a TREE (no map or slice reachable along two paths, as encoding/json builds it): a write through an alias obtained by a type switch / range is written back to the container")
	}
	c.assignNames()
	c.computeDirect()
	type par struct {
		name string
		t    mtype
	}
	var params []par
	c.body = fn.Body.List
	c.bodyNode = fn.Body
	mi := c.g.mut[c.sig.key]
	if fn.Recv != nil {
		if len(fn.Recv.List[0].Names) != 1 {
			c.fail(fn, "unnamed receiver")
		}
		rid := fn.Recv.List[0].Names[0]
		c.recvObj = c.p.info.Defs[rid]
		rt := c.recvObj.Type()
		heapRecv := isHeapPtr4(rt)
		if pt, ok := rt.Underlying().(*types.Pointer); ok && !heapRecv {
			c.sig.recvPtr = true
			rt = pt.Elem()
			c.direct[c.recvObj] = true
			c.note(fn, "the receiver `%s` is assumed non-nil", rid.Name)
		}
		t := c.mt(rt, rid)
		c.sig.recv = &t
		params = append(params, par{c.vn(c.recvObj), t})
		if mi != nil && mi.recv && !heapRecv {
			c.sig.mutRecv = true
		}
	}
	if c.spec.from != "" {
		lo, hi := -1, -1
		for i, s := range fn.Body.List {
			fl := c.firstLine(s)
			if lo < 0 && strings.HasPrefix(fl, commentSafe(c.spec.from)) {
				lo = i
			}
			if lo >= 0 && hi < 0 && strings.HasPrefix(fl, commentSafe(c.spec.to)) {
				hi = i
			}
		}
		if lo < 0 || hi < lo {
			c.fail(fn, "fragment `%s` .. `%s` not found among the statements of %s", c.spec.from, c.spec.to, fn.Name.Name)
		}
		c.body = fn.Body.List[lo : hi+1]
		c.bodyNode = &ast.BlockStmt{Lbrace: c.body[0].Pos(), List: c.body, Rbrace: c.body[len(c.body)-1].End()}
		seen := map[types.Object]bool{}
		start := c.body[0].Pos()
		if c.recvObj != nil {
			seen[c.recvObj] = true
		}
		ast.Inspect(c.bodyNode, func(n ast.Node) bool {
			id, ok := n.(*ast.Ident)
			if !ok {
				return true
			}
			o := c.obj(id)
			v, isVar := o.(*types.Var)
			if !isVar || !c.isLocal(o) || o.Pos() >= start || seen[o] || v.IsField() {
				return true
			}
			seen[o] = true
			t := c.varType(o, id)
			params = append(params, par{c.vn(o), t})
			c.sig.params = append(c.sig.params, t)
			c.sig.pnames = append(c.sig.pnames, c.vn(o))
			return true
		})
	}
	for _, f := range fn.Type.Params.List {
		if c.spec.from != "" {
			break
		}
		if len(f.Names) == 0 {
			c.fail(f, "unnamed parameter")
		}
		for _, n := range f.Names {
			if n.Name == "_" {
				c.fail(n, "blank parameter")
			}
			o := c.p.info.Defs[n]
			t := c.mt(o.Type(), n)
			params = append(params, par{c.vn(o), t})
			c.sig.params = append(c.sig.params, t)
			c.sig.pnames = append(c.sig.pnames, c.vn(o))
			c.paramObjs = append(c.paramObjs, o)
		}
	}
	c.sig.consumes = make([]bool, len(c.sig.params))
	c.sig.mutPar = make([]bool, len(c.sig.params))
	if mi != nil {
		copy(c.sig.mutPar, mi.par)
	}
	if fn.Type.Results != nil && c.spec.from == "" {
		for _, rf := range fn.Type.Results.List {
			t := c.mt(c.p.info.Types[rf.Type].Type, rf.Type)
			if len(rf.Names) == 0 {
				c.sig.results = append(c.sig.results, t)
			}
			for _, rn := range rf.Names {
				c.sig.results = append(c.sig.results, t)
				c.named = append(c.named, c.p.info.Defs[rn])
			}
		}
	}
	if sg, ok := c.p.info.Defs[fn.Name].(*types.Func); ok {
		c.sig.gsig = sg.Type().(*types.Signature)
	}
	c.sig.rec = c.isRecursive()
	// register the signature before the body (recursive calls)
	c.sig.fallible = true
	c.sig.fuel = c.sig.rec
	c.g.funcs[c.sig.key] = c.sig
	c.numberSites()
	c.computeErased()
	c.aliasCheck()
	c.absAliasCheck5()
	if c.spec.m4 {
		c.checkBig()
		c.checkOrigins4()
	}
	run := func(fallible bool) string {
		c.sb.Reset()
		c.pend = nil
		c.ntmp = 0
		c.nn, c.nnKill, c.nnEpoch = nil, nil, 0
		c.effect = false
		c.usesFuel = c.sig.rec
		c.fallible = fallible
		c.fragOut = nil
		ind := "  "
		if c.spec.from != "" {
			for _, o := range c.assigned3(c.body, c.body[0].Pos()) {
				c.fragOut = append(c.fragOut, o)
			}
		}
		for _, o := range c.named {
			c.emitf(ind, "let %s := %s in", c.vn(o), c.zeroT(c.varType(o, fn), fn))
		}
		c.blk(c.body, ind, func(ind string) {
			if len(c.sig.results) > 0 && len(c.named) == 0 {
				c.fail(fn, "function body does not end with a return")
			}
			var vals []string
			for _, o := range c.named {
				vals = append(vals, c.vn(o))
			}
			for _, o := range c.fragOut {
				vals = append(vals, c.vn(o))
			}
			c.emitf(ind, "%s", c.retText(c.retTuple(vals)))
		})
		return c.sb.String()
	}
	body := run(true)
	if !c.effect && !c.sig.rec {
		body = run(false)
	}
	c.sig.fallible = c.fallible
	c.sig.fuel = c.usesFuel
	c.computeResClass()
	for _, te := range c.p.typeErr {
		if te.Pos >= c.bodyNode.Pos() && te.Pos < c.bodyNode.End() {
			c.fail(fn, "type error inside the function: %s", te.Error())
		}
	}
	var sb strings.Builder
	pos := c.p.fset.Position(fn.Pos())
	fmt.Fprintf(&sb, "(* ---- %s/%s:%d   %s ----\n", c.p.name, filepath.Base(pos.Filename), pos.Line, c.srcText(fn.Pos(), fn.Body.Lbrace))
	if c.spec.from != "" {
		fmt.Fprintf(&sb, "   FRAGMENT: the statements from L%d `%s` to L%d `%s`; the variables declared before it are parameters,\n   the variables it assigns are the result.\n",
			c.line(c.body[0]), c.firstLine(c.body[0]), c.line(c.body[len(c.body)-1]), c.firstLine(c.body[len(c.body)-1]))
	}
	var outs []string
	for _, r := range c.sig.results {
		outs = append(outs, c.coqT(r))
	}
	for _, o := range c.fragOut {
		outs = append(outs, c.vn(o)+" : "+c.coqT(c.varType(o, fn)))
	}
	if c.sig.mutRecv {
		outs = append(outs, "the new "+params[0].name)
	}
	for i, m := range c.sig.mutPar {
		if m {
			outs = append(outs, "the new "+c.sig.pnames[i])
		}
	}
	if c.sig.heap {
		outs = append(outs, "the new "+heapName4())
	}
	fmt.Fprintf(&sb, "   Result: %s\n", strings.Join(outs, ", "))
	if len(c.usedVars) > 0 {
		var uv []string
		for v := range c.usedVars {
			uv = append(uv, v)
		}
		sort.Strings(uv)
		fmt.Fprintf(&sb, "   Section variables used: %s\n", strings.Join(uv, ", "))
	}
	if c.sig.rec {
		fmt.Fprintf(&sb, "   Self-recursive: a Fixpoint on fuel (Panic 9 when exhausted).\n")
	} else if c.sig.fuel {
		fmt.Fprintf(&sb, "   fuel bounds the iterations of each `for cond` loop and the depth of recursive callees (Panic 9 when exhausted).\n")
	}
	if len(c.sites) > 0 {
		fmt.Fprintf(&sb, "   Error sites (the error value made / passed on there):\n")
		for i, s := range c.sites {
			fmt.Fprintf(&sb, "     %d = %s\n", i+1, s)
		}
	}
	if len(c.notes) > 0 {
		fmt.Fprintf(&sb, "   Assumed by the translation, NOT modelled:\n")
		for _, n := range c.notes {
			fmt.Fprintf(&sb, "     - %s\n", n)
		}
	}
	fmt.Fprintf(&sb, "*)\n")
	var ps []string
	if c.sig.fuel && !c.sig.rec {
		ps = append(ps, "(fuel : nat)")
	}
	if c.sig.heap {
		ps = append(ps, fmt.Sprintf("(%s : %s)", heapName4(), c.coqT(c.varType(c.heapVar(), fn))))
	}
	for _, p := range params {
		ps = append(ps, fmt.Sprintf("(%s : %s)", p.name, c.coqT(p.t)))
	}
	sep := " "
	if len(ps) == 0 {
		sep = ""
	}
	rt := c.resType3()
	if c.sig.rec {
		fmt.Fprintf(&sb, "Fixpoint %s (fuel : nat)%s%s {struct fuel} : %s :=\n  match fuel with O => Panic 9 | S fuel =>\n", c.spec.name, sep, strings.Join(ps, " "), rt)
		sb.WriteString(strings.TrimRight(body, "\n"))
		sb.WriteString("\n  end.\n")
	} else {
		fmt.Fprintf(&sb, "Definition %s%s%s : %s :=\n", c.spec.name, sep, strings.Join(ps, " "), rt)
		sb.WriteString(strings.TrimRight(body, "\n"))
		sb.WriteString(".\n")
	}
	return sb.String(), nil
}

func (c *m3) resType3() string {
	var parts []string
	for _, r := range c.sig.results {
		parts = append(parts, paren(c.coqT(r)))
	}
	for _, o := range c.fragOut {
		parts = append(parts, paren(c.coqT(c.varType(o, c.fn))))
	}
	if c.sig.mutRecv {
		parts = append(parts, paren(c.coqT(*c.sig.recv)))
	}
	for i, m := range c.sig.mutPar {
		if m {
			parts = append(parts, paren(c.coqT(c.sig.params[i])))
		}
	}
	if c.sig.heap {
		parts = append(parts, paren(c.coqT(c.varType(c.heapVar(), c.fn))))
	}
	t := "unit"
	if len(parts) == 1 {
		t = parts[0]
	} else if len(parts) > 1 {
		t = strings.Join(parts, " * ")
	}
	if c.sig.fallible {
		if len(parts) == 1 {
			return "res " + parts[0]
		}
		return "res " + paren(t)
	}
	return t
}

func (c *m3) isRecursive() bool {
	rec := false
	ast.Inspect(c.fn.Body, func(n ast.Node) bool {
		ce, ok := n.(*ast.CallExpr)
		if !ok {
			return true
		}
		switch f := ce.Fun.(type) {
		case *ast.Ident:
			if c.fn.Recv == nil && c.obj(f) == c.p.info.Defs[c.fn.Name] {
				rec = true
			}
		case *ast.SelectorExpr:
			if c.fn.Recv != nil {
				if sel := c.p.info.Selections[f]; sel != nil && sel.Obj() == c.p.info.Defs[c.fn.Name] {
					rec = true
				}
			}
		}
		return true
	})
	return rec
}

// ---------------------------------------------------------------------------
// the file

func buildKernels3(repo string, specs []k3spec) (string, []string) {
	repoRoot5 = repo
	g := &g3{repo: repo, imp: newSrcImporter(), pkgs: map[string]*pkgInfo{}, funcs: map[string]*fsig3{},
		declSeen: map[string]bool{}, sentSeen: map[string]bool{}, inProg: map[string]bool{}, sumAlts: map[string][]alt3{},
		consts: &tableSet{defs: map[string]string{}, lens: map[string]int{}}}
	var errs []string
	// the signatures of Gen/Kernels2.v (for calls into it)
	g.legacy, g.legDecl = legacySigs(repo)
	decls := map[string]*ast.FuncDecl{}
	for _, k := range specs {
		p := g.pkgs[k.pkg]
		if p == nil {
			var err error
			p, err = loadPkg3(filepath.Join(repo, k.pkg), importPathOf(k.pkg), g.imp)
			if err != nil {
				errs = append(errs, fmt.Sprintf("%s.%s: %v", k.pkg, k.fn, err))
				continue
			}
			g.pkgs[k.pkg] = p
		}
		fn := p.findMethod(k.recv, k.fn)
		if fn == nil {
			errs = append(errs, fmt.Sprintf("%s: function %s%s not found in package %s", filepath.Join(repo, k.pkg), k.recv, "."+k.fn, p.name))
			continue
		}
		decls[k3key(k)] = fn
	}
	if len(errs) > 0 {
		return "", errs
	}
	g.computeMut(specs, decls, g.pkgs)
	var defs, locals []string
	for _, k := range specs {
		p := g.pkgs[k.pkg]
		c := &m3{ctx: &ctx{errShadowOK: true, p: p, fn: decls[k3key(k)], safeIdx: map[types.Object]int64{}, intrins: map[string]bool{}}, spec: k, g: g}
		s, err := c.translate3()
		if err != nil {
			delete(g.funcs, k3key(k))
			errs = append(errs, fmt.Sprintf("%s: outside the supported subset (third mode): %v", k.name, err))
			continue
		}
		defs = append(defs, s)
		locals = append(locals, c.allNames()...)
	}
	globals := map[string]bool{"fuel": true, "Ok": true, "Err": true, "Panic": true, "tt": true, "r_": true, "v_": true}
	for _, k := range specs {
		globals[k.name] = true
	}
	for _, n := range g.consts.order {
		globals[n] = true
	}
	for _, v := range g.absVars {
		globals[v.name] = true
	}
	for _, s := range g.sentinel {
		globals[s] = true
	}
	for d := range g.declSeen {
		globals[d] = true
	}
	for _, l := range locals {
		if globals[l] {
			errs = append(errs, fmt.Sprintf("local variable `%s` has the name of a definition of the generated file", l))
		}
	}
	if len(errs) > 0 {
		return "", errs
	}
	// the constants of the stubs against the real packages
	cerrs, cnotes := checkStubConstants(repo, g.imp)
	for _, n := range cnotes {
		fmt.Fprintln(os.Stderr, "gotrans: note:", n)
	}
	if len(cerrs) > 0 {
		return "", cerrs
	}
	var sb strings.Builder
	sb.WriteString(header3)
	if len(g.sentinel) > 0 {
		sb.WriteString("(* package-level error values *)\n")
		for i, s := range g.sentinel {
			fmt.Fprintf(&sb, "Definition %s : N := %d.\n", s, 1001+i)
		}
		sb.WriteString("\n")
	}
	for _, n := range g.consts.order {
		sb.WriteString(g.consts.defs[n])
		sb.WriteString("\n")
	}
	sb.WriteString("Section K3.\n\n")
	if len(g.absTypes) > 0 {
		sb.WriteString("(* abstract objects *)\n")
		for _, t := range g.absTypes {
			fmt.Fprintf(&sb, "Variable %s_t : Type.\n", t)
		}
		sb.WriteString("\n")
	}
	for _, d := range g.decls {
		sb.WriteString(d)
		sb.WriteString("\n")
	}
	if len(g.absVars) > 0 {
		sb.WriteString("(* dependencies: imported functions, methods and fields of abstract objects *)\n")
		for _, v := range g.absVars {
			fmt.Fprintf(&sb, "Variable %s : %s.\n", v.name, v.coq)
		}
		sb.WriteString("\n")
	}
	sb.WriteString(strings.Join(defs, "\n"))
	sb.WriteString("\nEnd K3.\n")
	sb.WriteString(sortSitesText5(g.sortSites, false))
	return sb.String(), nil
}

func pkgOf(p *pkgInfo) *types.Package {
	for _, o := range p.info.Defs {
		if o != nil && o.Pkg() != nil {
			return o.Pkg()
		}
	}
	return nil
}

// legacySigs re-runs the monadic mode to obtain the signatures of the functions of Gen/Kernels2.v
func legacySigs(repo string) (map[string]*fsig, map[string]*legacyInfo) {
	sigs := map[string]*fsig{}
	infos := map[string]*legacyInfo{}
	consts := &tableSet{defs: map[string]string{}, lens: map[string]int{}}
	pkgs := map[string]*pkgInfo{}
	k1calls := map[string]bool{}
	for _, k := range kernels2 {
		p := pkgs[k.pkg]
		if p == nil {
			var err error
			p, err = loadPkg2(filepath.Join(repo, k.pkg))
			if err != nil {
				continue
			}
			pkgs[k.pkg] = p
		}
		fn := p.findMethod(k.recv, k.fn)
		if fn == nil {
			continue
		}
		c := &m2{ctx: &ctx{errShadowOK: true, p: p, fn: fn, safeIdx: map[types.Object]int64{}, intrins: map[string]bool{}}, spec: k, funcs: sigs, consts: consts, k1calls: k1calls}
		if _, err := c.translate2(); err != nil {
			continue
		}
		key := k.pkg + ":" + k.recv + "." + k.fn
		if k.from != "" {
			continue // a fragment is not callable
		}
		sigs[key] = c.sig
		li := &legacyInfo{errZero: true, sentOf: map[int]string{}, nsites: len(c.sites)}
		if k.from != "" {
			li.errZero = false
		}
		for r, site := range c.siteOf {
			for _, e := range r.Results[:len(r.Results)-1] {
				if !isZeroLit(c.ctx, e) {
					li.errZero = false
				}
			}
			if id, ok := r.Results[len(r.Results)-1].(*ast.Ident); ok {
				if v, isVar := c.obj(id).(*types.Var); isVar && v.Pkg() != nil && v.Parent() == v.Pkg().Scope() {
					li.sentOf[site] = p.name + "_" + id.Name
				}
			}
		}
		infos[key] = li
	}
	return sigs, infos
}

func isZeroLit(c *ctx, e ast.Expr) bool {
	if isNil(e) {
		return true
	}
	if cl, ok := e.(*ast.CompositeLit); ok && len(cl.Elts) == 0 {
		if _, isArr := cl.Type.(*ast.ArrayType); isArr {
			return true // an empty slice: nil and empty slices are not distinguished
		}
	}
	if tv, ok := c.p.info.Types[e]; ok && tv.Value != nil {
		s := tv.Value.ExactString()
		return s == "0" || s == `""` || s == "false"
	}
	return false
}

var _ = token.NoPos

// ---------------------------------------------------------------------------
// ownership of returned pointers.  A pointer is a copy of its object in the translation; that is sound
// for a caller that writes through a pointer it received only if nobody else holds the object.

// escaped: the local pointer variable o is stored somewhere (assigned to another variable, field or
// element, put in a literal, appended)
func (c *m3) escaped(o types.Object) bool {
	esc := false
	var stack []ast.Node
	ast.Inspect(c.fn.Body, func(n ast.Node) bool {
		if n == nil {
			stack = stack[:len(stack)-1]
			return true
		}
		stack = append(stack, n)
		id, ok := n.(*ast.Ident)
		if !ok || c.p.info.Uses[id] != o || len(stack) < 2 {
			return true
		}
		switch p := stack[len(stack)-2].(type) {
		case *ast.AssignStmt:
			for _, r := range p.Rhs {
				if r == ast.Expr(id) {
					esc = true
				}
			}
		case *ast.CompositeLit, *ast.KeyValueExpr:
			esc = true
		case *ast.CallExpr:
			if f, ok := p.Fun.(*ast.Ident); ok && f.Name == "append" {
				esc = true
			}
		case *ast.UnaryExpr:
			if p.Op == token.AND {
				esc = true
			}
		}
		return true
	})
	return esc
}

// exprClass: 0 the pointer expression denotes a fresh object nobody else holds, 1 the receiver of this
// function (or a fresh object), 2 unknown
func (c *m3) exprClass(e ast.Expr) int {
	e = stripParens(e)
	if isNil(e) {
		return 0
	}
	switch x := e.(type) {
	case *ast.UnaryExpr:
		if x.Op == token.AND {
			if _, isLit := stripParens(x.X).(*ast.CompositeLit); isLit {
				return 0
			}
			// &v of a local struct value that is returned: the local dies with the function
			if id, ok := stripParens(x.X).(*ast.Ident); ok {
				if o := c.obj(id); o != nil && c.isLocal(o) && c.isParam(o) < 0 && o != c.recvObj {
					return 0
				}
			}
		}
	case *ast.Ident:
		o := c.obj(x)
		if o == c.recvObj && c.recvObj != nil {
			return 1
		}
		if c.direct[o] && !c.escaped(o) {
			return 0
		}
		if o != nil && c.isLocal(o) && c.isParam(o) < 0 {
			return c.varClass(o)
		}
	case *ast.CallExpr:
		if id, ok := x.Fun.(*ast.Ident); ok {
			if b, isB := c.obj(id).(*types.Builtin); isB && b.Name() == "new" {
				return 0
			}
		}
		if path, name, ok := c.pkgCall(x); ok && freshFuncs3[path+"."+name] {
			return 0
		}
		s, recv := c.calleeSig3(x)
		if s == nil || len(s.resClass) == 0 {
			return 2
		}
		cl := s.resClass[0]
		if cl == 1 {
			// the callee may return its receiver: fresh if the receiver expression is
			if recv == nil {
				return 2
			}
			r := stripParens(recv)
			if id, ok := r.(*ast.Ident); ok {
				o := c.obj(id)
				if o == c.recvObj && c.recvObj != nil {
					return 1
				}
				if o != nil && c.isLocal(o) && c.isParam(o) < 0 {
					if _, isPtr := o.Type().Underlying().(*types.Pointer); !isPtr || c.direct[o] {
						return 0 // a local struct value (or owned pointer): it dies with this function
					}
					return c.varClass(o)
				}
				return 2
			}
			return c.exprClass(r)
		}
		return cl
	}
	return 2
}

// varClass: the class of a local pointer variable = the worst class of its definitions
func (c *m3) varClass(o types.Object) int {
	if c.classBusy == nil {
		c.classBusy = map[types.Object]bool{}
	}
	if c.classBusy[o] {
		return 2
	}
	c.classBusy[o] = true
	defer delete(c.classBusy, o)
	worst, defs := 0, 0
	ast.Inspect(c.fn.Body, func(n ast.Node) bool {
		as, ok := n.(*ast.AssignStmt)
		if !ok {
			return true
		}
		for i, l := range as.Lhs {
			id, isId := l.(*ast.Ident)
			if !isId || c.obj(id) != o {
				continue
			}
			defs++
			cl := 2
			if len(as.Lhs) == len(as.Rhs) {
				cl = c.exprClass(as.Rhs[i])
			} else if len(as.Rhs) == 1 {
				// x, err := f(..): the class of f's i-th result
				if call, isCall := as.Rhs[0].(*ast.CallExpr); isCall {
					if s, recv := c.calleeSig3(call); s != nil && i < len(s.resClass) {
						cl = s.resClass[i]
						if cl == 1 {
							cl = 2
							if recv != nil {
								if rid, ok := stripParens(recv).(*ast.Ident); ok {
									if ro := c.obj(rid); ro != nil && c.isLocal(ro) && c.isParam(ro) < 0 && ro != c.recvObj {
										cl = 0
									}
								}
							}
						}
					}
				}
			}
			if cl > worst {
				worst = cl
			}
		}
		return true
	})
	if defs == 0 {
		return 2
	}
	return worst
}

// calleeSig3: the signature of a translated callee, and its receiver expression
func (c *m3) calleeSig3(e *ast.CallExpr) (*fsig3, ast.Expr) {
	switch f := e.Fun.(type) {
	case *ast.Ident:
		if fo, ok := c.obj(f).(*types.Func); ok && fo.Pkg() == c.p.tpkg {
			return c.g.funcs[c.spec.pkg+":."+f.Name], nil
		}
	case *ast.SelectorExpr:
		if path, name, ok := c.pkgCall(e); ok {
			if dir, isRepo := repoDir(path); isRepo {
				return c.g.funcs[dir+":."+name], nil
			}
			return nil, nil
		}
		if tv, ok := c.p.info.Types[f.X]; ok && tv.Type != nil && !tv.IsType() {
			if n, isNamed := derefNamed(tv.Type); isNamed && n.Obj().Pkg() != nil {
				if dir, isRepo := repoDir(n.Obj().Pkg().Path()); isRepo {
					return c.g.funcs[dir+":"+n.Obj().Name()+"."+f.Sel.Name], f.X
				}
			}
		}
	}
	return nil, nil
}

func (c *m3) computeResClass() {
	n := len(c.sig.results)
	c.sig.resClass = make([]int, n)
	for i, r := range c.sig.results {
		if r.k != mOpt && r.k != mSum {
			continue
		}
		worst := 0
		ast.Inspect(c.bodyNode, func(nd ast.Node) bool {
			if _, isLit := nd.(*ast.FuncLit); isLit {
				return false
			}
			rs, ok := nd.(*ast.ReturnStmt)
			if !ok {
				return true
			}
			cl := 2
			switch {
			case len(rs.Results) == n:
				cl = c.exprClass(rs.Results[i])
			case len(rs.Results) == 1 && n > 1:
				if call, isCall := rs.Results[0].(*ast.CallExpr); isCall {
					if s, recv := c.calleeSig3(call); s != nil && i < len(s.resClass) {
						cl = s.resClass[i]
						if cl == 1 && recv != nil {
							cl = c.exprClass(recv)
						} else if cl == 1 {
							cl = 2
						}
					}
				}
			case len(rs.Results) == 0 && i < len(c.named):
				cl = c.varClass(c.named[i])
			}
			if cl > worst {
				worst = cl
			}
			return true
		})
		c.sig.resClass[i] = worst
	}
}

package main

// Monadic mode: statements, in continuation-passing style.  blk(stmts, ind, tail) emits the term for the
// statement list; tail(ind) emits what follows when the list completes normally.

import (
	"fmt"
	"go/ast"
	"go/token"
	"go/types"
	"strings"
)

type tailFn func(ind string)

func (c *m2) emitf(ind, format string, a ...interface{}) {
	c.sb.WriteString(ind)
	fmt.Fprintf(&c.sb, format, a...)
	c.sb.WriteString("\n")
}

func (c *m2) flush(ind string) {
	for _, p := range c.pend {
		c.emitf(ind, "%s", p)
	}
	c.pend = nil
}

func (c *m2) cmt(ind string, n ast.Node) { c.emitf(ind, "(* L%d: %s *)", c.line(n), c.firstLine(n)) }

// trial runs f with a scratch output buffer and returns the text and whether it produced an effect
func (c *m2) trial(f func()) (string, bool) {
	saved := c.sb.String()
	savedEff := c.effect
	c.sb.Reset()
	c.effect = false
	f()
	out := c.sb.String()
	eff := c.effect
	c.sb.Reset()
	c.sb.WriteString(saved)
	c.effect = savedEff || eff
	return out, eff
}

func tuple2(objs []types.Object) string {
	if len(objs) == 0 {
		return "tt"
	}
	return tuple(objs)
}

// binder pattern after `do`, `let` (with the quote for tuples)
func pat2(objs []types.Object) string {
	if len(objs) == 0 {
		return "_"
	}
	return pat(objs)
}

// binder pattern after `do` (the notation takes a pattern: no quote)
func doPat(objs []types.Object) string {
	if len(objs) == 0 {
		return "_"
	}
	return tuple(objs)
}

func funPat(objs []types.Object) string {
	if len(objs) == 0 {
		return "(_ : unit)"
	}
	return pat(objs)
}

func (c *m2) wrapSt(tier int, st []types.Object) string {
	switch tier {
	case 0:
		return tuple2(st)
	case 1:
		return "Ok " + tuple2(st)
	}
	return "Ok (Go.Next " + tuple2(st) + ")"
}

// ---------------------------------------------------------------------------
// syntactic analyses

// isNilIdent
func isNil(e ast.Expr) bool {
	id, ok := e.(*ast.Ident)
	return ok && id.Name == "nil"
}

// okReturn: a return that yields a value (not an error)
func (c *m2) isErrReturn(r *ast.ReturnStmt) bool {
	_, ok := c.siteOf[r]
	return ok
}

// hasCtl: the statements contain an ok-return (at any depth) or a break/continue of the enclosing loop
func (c *m2) hasCtl(stmts []ast.Stmt, wantRet, wantBrk, wantCont bool) bool {
	found := false
	var walk func(n ast.Node, depth int)
	walk = func(n ast.Node, depth int) {
		if n == nil || found {
			return
		}
		switch s := n.(type) {
		case *ast.ReturnStmt:
			if wantRet && !c.isErrReturn(s) {
				found = true
			}
		case *ast.BranchStmt:
			if depth == 0 && ((wantBrk && s.Tok == token.BREAK) || (wantCont && s.Tok == token.CONTINUE)) {
				found = true
			}
		case *ast.BlockStmt:
			for _, x := range s.List {
				walk(x, depth)
			}
		case *ast.IfStmt:
			walk(s.Body, depth)
			walk(s.Else, depth)
		case *ast.ForStmt:
			walk(s.Body, depth+1)
		case *ast.RangeStmt:
			walk(s.Body, depth+1)
		case *ast.SwitchStmt:
			for _, cl := range s.Body.List {
				for _, x := range cl.(*ast.CaseClause).Body {
					walk(x, depth+1)
				}
			}
		}
	}
	for _, s := range stmts {
		walk(s, 0)
	}
	return found
}

// terminates: every path through the statements ends in return / continue / break
func (c *m2) terminates(stmts []ast.Stmt) bool {
	if len(stmts) == 0 {
		return false
	}
	switch s := stmts[len(stmts)-1].(type) {
	case *ast.ReturnStmt:
		return true
	case *ast.BranchStmt:
		return s.Tok == token.BREAK || s.Tok == token.CONTINUE
	case *ast.IfStmt:
		return s.Else != nil && c.terminates(s.Body.List) && c.terminates(elseStmts(s.Else))
	case *ast.BlockStmt:
		return c.terminates(s.List)
	}
	return false
}

// assigned2: variables declared before `from` that the statements assign (x = .., x[i] = .., x op= .., x++)
func (c *m2) assigned2(stmts []ast.Stmt, from token.Pos) []types.Object {
	var out []types.Object
	seen := map[types.Object]bool{}
	var add func(e ast.Expr)
	add = func(e ast.Expr) {
		switch e := e.(type) {
		case *ast.SelectorExpr:
			if p, ok := c.fieldPath(e); ok {
				o := c.fieldObj(p, c.typeOf(e))
				if !seen[o] {
					seen[o] = true
					out = append(out, o)
				}
			}
			return
		case *ast.IndexExpr:
			add(e.X)
			return
		case *ast.ParenExpr:
			add(e.X)
			return
		case *ast.Ident:
			o := c.obj(e)
			if o == nil || !c.isLocal(o) || o.Pos() >= from || seen[o] || c.erased[o] || o == c.recvObj || isErrorType(o.Type()) {
				return
			}
			seen[o] = true
			out = append(out, o)
		}
	}
	for _, s := range stmts {
		ast.Inspect(s, func(n ast.Node) bool {
			switch n := n.(type) {
			case *ast.AssignStmt:
				if n.Tok != token.DEFINE {
					for _, l := range n.Lhs {
						add(l)
					}
				} else {
					// x, err := f() may re-assign an existing variable
					for _, l := range n.Lhs {
						if id, ok := l.(*ast.Ident); ok && c.p.info.Defs[id] == nil {
							add(l)
						}
					}
				}
			case *ast.IncDecStmt:
				add(n.X)
			case *ast.CallExpr:
				if _, sel, _, mutates, ok := c.absPeek(n); ok && mutates {
					add(sel.X)
				}
				isCopy := false
				if id, ok := n.Fun.(*ast.Ident); ok && id.Name == "copy" {
					isCopy = true
				}
				if s1, ok := n.Fun.(*ast.SelectorExpr); ok && s1.Sel.Name == "PutUint32" {
					isCopy = true
				}
				if isCopy && len(n.Args) > 0 {
					d := n.Args[0]
					if se, ok := d.(*ast.SliceExpr); ok {
						d = se.X
					}
					add(d)
				}
				if sig := c.calleeSig(n); sig != nil {
					for _, w := range sig.wfields {
						if o, ok := c.fieldObjs[w]; ok && !seen[o] {
							seen[o] = true
							out = append(out, o)
						} else if !ok {
							o := c.fieldObj(w, nil)
							seen[o] = true
							out = append(out, o)
						}
					}
				}
			case *ast.RangeStmt:
				if n.Tok == token.ASSIGN {
					if n.Key != nil {
						add(n.Key)
					}
					if n.Value != nil {
						add(n.Value)
					}
				}
			}
			return true
		})
	}
	return out
}

// ---------------------------------------------------------------------------
// blocks

func (c *m2) retText(v string) string {
	if len(c.loops) > 0 {
		return "Ok (Go.Ret " + v + ")"
	}
	if c.fallible {
		return "Ok " + v
	}
	return v
}

func (c *m2) blk(stmts []ast.Stmt, ind string, tail tailFn) {
	for i, s := range stmts {
		rest := stmts[i+1:]
		switch s := s.(type) {
		case *ast.ReturnStmt:
			if len(rest) > 0 {
				c.fail(s, "return followed by further statements")
			}
			c.ret(s, ind)
			return
		case *ast.BranchStmt:
			if len(rest) > 0 {
				c.fail(s, "%s followed by further statements", s.Tok)
			}
			if len(c.loops) == 0 || s.Label != nil || (s.Tok != token.BREAK && s.Tok != token.CONTINUE) {
				c.fail(s, "%s statement (only break/continue of the innermost loop)", s.Tok)
			}
			l := c.loops[len(c.loops)-1]
			c.cmt(ind, s)
			if s.Tok == token.CONTINUE {
				c.emitf(ind, "%s", c.wrapSt(l.tier, l.st))
			} else {
				if l.tier != 2 {
					c.fail(s, "internal: break in a loop not translated in control mode")
				}
				c.effect = true
				c.emitf(ind, "Ok (Go.Brk %s)", tuple2(l.st))
			}
			return
		case *ast.IfStmt:
			if c.ifStmt2(s, rest, ind, tail) {
				return
			}
			continue
		case *ast.SwitchStmt:
			c.cmt(ind, s)
			if is := c.desugarSwitch(s); is != nil {
				if c.ifStmt2(is, rest, ind, tail) {
					return
				}
			}
			continue
		case *ast.AssignStmt:
			if c.errCall(s, rest, ind, tail) {
				return
			}
			c.assign(s, ind)
			continue
		case *ast.RangeStmt:
			if c.loop(s, s.Body, rest, ind, tail) {
				return
			}
			continue
		case *ast.ForStmt:
			if c.loop(s, s.Body, rest, ind, tail) {
				return
			}
			continue
		}
		c.simple(s, ind)
	}
	tail(ind)
}

// ret translates a return statement
func (c *m2) ret(s *ast.ReturnStmt, ind string) {
	c.cmt(ind, s)
	nres := len(c.sig.results)
	if site, isErr := c.siteOf[s]; isErr {
		for _, r := range s.Results[:nres] {
			if !isNil(r) {
				c.ex(r) // evaluated by Go as well; the value is dropped
			}
		}
		c.errExpr(s.Results[nres])
		c.flush(ind)
		c.effect = true
		c.emitf(ind, "Err %d", site)
		return
	}
	if len(s.Results) != nres+btoi(c.sig.hasErr) {
		c.fail(s, "return with %d results", len(s.Results))
	}
	var vals []string
	for i, r := range s.Results[:nres] {
		if isNil(r) {
			if rt := c.sig.results[i]; rt.k == mAbs {
				c.needAbsType(rt.abs)
				c.needAbsMeth(rt.abs+"_nil", rt.coq())
				vals = append(vals, rt.abs+"_nil")
				continue
			}
			vals = append(vals, c.sig.results[i].zero())
			continue
		}
		vals = append(vals, c.ex(r))
	}
	for _, w := range c.sig.wfields {
		vals = append(vals, w)
	}
	c.flush(ind)
	v := "tt"
	if len(vals) == 1 {
		v = vals[0]
	} else if len(vals) > 1 {
		v = "(" + strings.Join(vals, ", ") + ")"
	}
	c.emitf(ind, "%s", c.retText(v))
}

func btoi(b bool) int {
	if b {
		return 1
	}
	return 0
}

// errExpr evaluates (for panics only) the expression that builds a returned error
func (c *m2) errExpr(e ast.Expr) {
	switch e := e.(type) {
	case *ast.CallExpr:
		if path, name, ok := c.pkgCall(e); ok && (path == "errors" && name == "New" || path == "fmt" && name == "Errorf") {
			c.fmtArgs(e)
			return
		}
	case *ast.Ident:
		o := c.obj(e)
		if v, ok := o.(*types.Var); ok && isErrorType(v.Type()) {
			if !c.isLocal(o) && v.Parent() == v.Pkg().Scope() {
				return // package-level error value
			}
			if c.nonNil[o] {
				return
			}
			c.fail(e, "return of the error variable `%s`, which is not known to be non-nil here", e.Name)
		}
	}
	c.fail(e, "unsupported error expression `%s`", c.srcText(e.Pos(), e.End()))
}

// simple statements (no control flow)
func (c *m2) simple(s ast.Stmt, ind string) {
	switch s := s.(type) {
	case *ast.IncDecStmt:
		c.cmt(ind, s)
		op := token.ADD
		if s.Tok == token.DEC {
			op = token.SUB
		}
		one := &ast.BasicLit{Kind: token.INT, Value: "1", ValuePos: s.TokPos}
		c.p.info.Types[one] = c.p.info.Types[s.X]
		t := c.typeOf(s.X)
		k := c.mt(t, s.X)
		x := c.ex(s.X)
		var v string
		switch {
		case k.k == mZ && k.sized && op == token.ADD:
			v = fmt.Sprintf("(Go.wrapZ %d (%s + 1)%%Z)", k.w, x)
		case k.k == mZ && k.sized:
			v = fmt.Sprintf("(Go.wrapZ %d (%s - 1)%%Z)", k.w, x)
		case k.k == mZ && op == token.ADD:
			c.note(s, "`%s`: int increment assumed not to overflow", c.srcText(s.Pos(), s.End()))
			v = fmt.Sprintf("(%s + 1)%%Z", x)
		case k.k == mZ:
			c.note(s, "`%s`: int decrement assumed not to overflow", c.srcText(s.Pos(), s.End()))
			v = fmt.Sprintf("(%s - 1)%%Z", x)
		case k.k == mN && op == token.ADD:
			v = fmt.Sprintf("((%s + 1) %s)", x, mod2(k.w))
		case k.k == mN:
			v = fmt.Sprintf("((%s + 2^%d - 1) %s)", x, k.w, mod2(k.w))
		default:
			c.fail(s, "++/-- on %s", k)
		}
		c.store(s.X, v, ind)
	case *ast.DeclStmt:
		gd, ok := s.Decl.(*ast.GenDecl)
		if !ok || gd.Tok != token.VAR {
			if ok && gd.Tok == token.CONST {
				return // constants are folded where they are used
			}
			c.fail(s, "unsupported declaration")
		}
		for _, sp := range gd.Specs {
			vs := sp.(*ast.ValueSpec)
			if len(vs.Values) > 1 || (len(vs.Values) == 1 && len(vs.Names) != 1) {
				c.fail(vs, "var declaration of several variables with initialisers")
			}
			c.cmt(ind, vs)
			for _, vn := range vs.Names {
				o := c.p.info.Defs[vn]
				t := c.mt(o.Type(), vs)
				if len(vs.Values) == 1 {
					c.letVar(vn, c.ex(vs.Values[0]), ind)
				} else {
					c.letVar(vn, t.zero(), ind)
				}
			}
		}
	case *ast.EmptyStmt:
	case *ast.BlockStmt:
		c.fail(s, "nested block statement")
	case *ast.ExprStmt:
		if call, ok := s.X.(*ast.CallExpr); ok {
			if c.writeIntrinsic(call, ind) {
				return
			}
			if sig := c.calleeSig(call); sig != nil && !sig.hasErr && sig.nGo == 0 && len(sig.wfields) > 0 {
				// a procedure: rebind the fields it wrote
				c.cmt(ind, s)
				text := c.callText(call, sig)
				c.flush(ind)
				for _, w := range sig.wfields {
					c.addWFieldT(w, sig.wfieldTy[w])
				}
				names := strings.Join(sig.wfields, ", ")
				if sig.fallible {
					c.effect = true
					if len(sig.wfields) > 1 {
						names = "(" + names + ")"
					}
					c.emitf(ind, "do %s <- %s ;;", names, text)
				} else if len(sig.wfields) > 1 {
					c.emitf(ind, "let '(%s) := %s in", names, text)
				} else {
					c.emitf(ind, "let %s := %s in", names, text)
				}
				return
			}
			if ac, ok := c.absCall(call); ok && ac.mutates && !ac.hasErr {
				c.cmt(ind, s)
				c.flush(ind)
				if len(ac.results) == 0 {
					c.emitf(ind, "let %s := %s in", ac.obj, ac.text)
				} else {
					us := strings.Repeat("_, ", len(ac.results))
					c.emitf(ind, "let '(%s%s) := %s in", us, ac.obj, ac.text)
				}
				return
			}
		}
		c.fail(s, "expression statement `%s`", c.srcText(s.Pos(), s.End()))
	default:
		c.fail(s, "unsupported statement %s `%s`", nodeName(s), c.firstLine(s))
	}
}

// writeIntrinsic: copy(dst[off:], src) and binary.LittleEndian.PutUint32(dst[off:], v) with dst a local array
func (c *m2) writeIntrinsic(call *ast.CallExpr, ind string) bool {
	kind := ""
	if id, ok := call.Fun.(*ast.Ident); ok {
		if b, isB := c.obj(id).(*types.Builtin); isB && b.Name() == "copy" {
			kind = "copy"
		}
	}
	if s1, ok := call.Fun.(*ast.SelectorExpr); ok && s1.Sel.Name == "PutUint32" {
		if s2, ok := s1.X.(*ast.SelectorExpr); ok && s2.Sel.Name == "LittleEndian" {
			if pk, ok := s2.X.(*ast.Ident); ok {
				if pn, isPkg := c.obj(pk).(*types.PkgName); isPkg && pn.Imported().Path() == "encoding/binary" {
					kind = "put32"
				}
			}
		}
	}
	if kind == "" {
		return false
	}
	if len(call.Args) != 2 || call.Ellipsis.IsValid() {
		c.fail(call, "unsupported call `%s`", c.srcText(call.Pos(), call.End()))
	}
	c.cmt(ind, call)
	// destination: x, x[:], x[off:] with x a local array
	var base *ast.Ident
	off := "0%Z"
	switch d := call.Args[0].(type) {
	case *ast.Ident:
		base = d
	case *ast.SliceExpr:
		id, ok := d.X.(*ast.Ident)
		if !ok || d.High != nil || d.Slice3 {
			c.fail(d, "unsupported destination `%s` (only x[off:] of a local array)", c.srcText(d.Pos(), d.End()))
		}
		base = id
		if d.Low != nil {
			off = asZ(c.ex(d.Low), c.tyOf(d.Low))
		}
	default:
		c.fail(call.Args[0], "unsupported destination `%s` (only x[off:] of a local array)", c.srcText(call.Args[0].Pos(), call.Args[0].End()))
	}
	o := c.obj(base)
	if o == nil || !c.isLocal(o) || c.isParam(o) >= 0 {
		c.fail(base, "destination `%s` is not a local array", base.Name)
	}
	if _, isArr := o.Type().Underlying().(*types.Array); !isArr {
		c.fail(base, "destination `%s` is not a local array (writes through a slice could be shared)", base.Name)
	}
	src := c.ex(call.Args[1])
	c.effect = true
	c.flush(ind)
	name := coqName(base.Name)
	if kind == "copy" {
		c.emitf(ind, "do %s <- Go.copy_at %s %s %s ;;", name, name, off, src)
	} else {
		c.emitf(ind, "do %s <- Go.put_le32 %s %s %s ;;", name, name, off, src)
	}
	return true
}

// letVar binds a local variable to a term (renaming the last temporary when the term is one)
func (c *m2) letVar(id *ast.Ident, term string, ind string) {
	if id.Name == "_" {
		c.flush(ind)
		return
	}
	o := c.obj(id)
	if o == nil || !c.isLocal(o) {
		c.fail(id, "assignment to non-local `%s`", id.Name)
	}
	if c.erased[o] {
		c.flush(ind)
		return
	}
	name := coqName(id.Name)
	if n := len(c.pend); n > 0 {
		pre := "do " + term + " <- "
		if strings.HasPrefix(c.pend[n-1], pre) && isTempName(term) {
			c.pend[n-1] = "do " + name + " <- " + strings.TrimPrefix(c.pend[n-1], pre)
			c.flush(ind)
			return
		}
	}
	c.flush(ind)
	c.emitf(ind, "let %s := %s in", name, term)
}

// store assigns the term to an lvalue: a local variable, x[i], or a receiver field path
func (c *m2) store(lhs ast.Expr, term string, ind string) {
	switch l := lhs.(type) {
	case *ast.ParenExpr:
		c.store(l.X, term, ind)
	case *ast.Ident:
		c.letVar(l, term, ind)
	case *ast.IndexExpr:
		it := c.tyOf(l.Index)
		i := asZ(c.ex(l.Index), it)
		base, ok := l.X.(*ast.Ident)
		if ok && c.isLocal(c.obj(base)) && c.obj(base) != c.recvObj {
			c.effect = true
			c.flush(ind)
			c.emitf(ind, "do %s <- Go.upd %s %s %s ;;", coqName(base.Name), coqName(base.Name), i, term)
			return
		}
		if p, ok := c.fieldPath(l.X); ok {
			name := c.useField(p, c.tyOf(l.X), l)
			c.addWField(name)
			c.effect = true
			c.flush(ind)
			c.emitf(ind, "do %s <- Go.upd %s %s %s ;;", name, name, i, term)
			return
		}
		c.fail(lhs, "assignment to an element of `%s`", c.srcText(l.X.Pos(), l.X.End()))
	case *ast.SelectorExpr:
		p, ok := c.fieldPath(l)
		if !ok {
			c.fail(lhs, "assignment to `%s`", c.srcText(lhs.Pos(), lhs.End()))
		}
		name := c.useField(p, c.tyOf(l), l)
		c.addWField(name)
		c.flush(ind)
		c.emitf(ind, "let %s := %s in", name, term)
	default:
		c.fail(lhs, "assignment to `%s`", c.srcText(lhs.Pos(), lhs.End()))
	}
}

// fieldObj: a pseudo-variable standing for a receiver field path that the function writes
func (c *m2) fieldObj(path string, t types.Type) types.Object {
	if c.fieldObjs == nil {
		c.fieldObjs = map[string]types.Object{}
	}
	if o, ok := c.fieldObjs[path]; ok {
		return o
	}
	o := types.NewVar(c.fn.Pos(), nil, synthMark+path, t)
	c.fieldObjs[path] = o
	return o
}

func (c *m2) addWField(name string) {
	for i, f := range c.sig.fields {
		if f == name {
			c.addWFieldT(name, c.sig.fieldTy[i])
			return
		}
	}
	c.addWFieldT(name, mtype{k: mUnit})
}

func (c *m2) addWFieldT(name string, t mtype) {
	for _, w := range c.sig.wfields {
		if w == name {
			return
		}
	}
	if c.sig.wfieldTy == nil {
		c.sig.wfieldTy = map[string]mtype{}
	}
	c.sig.wfieldTy[name] = t
	c.sig.wfields = append(c.sig.wfields, name)
}

func (c *m2) assign(s *ast.AssignStmt, ind string) {
	c.cmt(ind, s)
	isMutAbs := false
	if len(s.Rhs) == 1 {
		if call, ok := s.Rhs[0].(*ast.CallExpr); ok {
			_, _, _, mutates, isAbs := c.absPeek(call)
			isMutAbs = isAbs && mutates
		}
	}
	if len(s.Lhs) == 1 && len(s.Rhs) == 1 && !isMutAbs {
		switch s.Tok {
		case token.DEFINE, token.ASSIGN:
			c.store(s.Lhs[0], c.ex(s.Rhs[0]), ind)
		default:
			op, ok := assignOps[s.Tok]
			if !ok {
				c.fail(s, "unsupported assignment operator %s", s.Tok)
			}
			c.store(s.Lhs[0], c.bin2(s, op, s.Lhs[0], s.Rhs[0], c.typeOf(s.Lhs[0])), ind)
		}
		return
	}
	if len(s.Lhs) == len(s.Rhs) && (s.Tok == token.DEFINE || s.Tok == token.ASSIGN) && !isMutAbs {
		// parallel assignment: all right-hand sides first
		var vals []string
		for _, r := range s.Rhs {
			v := c.ex(r)
			if _, isId := r.(*ast.Ident); !isId && strings.ContainsAny(v, " (") {
				if _, isC := c.const2(r); !isC {
					t := c.fresh()
					c.pend = append(c.pend, fmt.Sprintf("let %s := %s in", t, v))
					v = t
				}
			}
			vals = append(vals, v)
		}
		c.flush(ind)
		for i, l := range s.Lhs {
			c.store(l, vals[i], ind)
		}
		return
	}
	// several results of a call without an error result
	if len(s.Rhs) == 1 {
		if call, ok := s.Rhs[0].(*ast.CallExpr); ok {
			if _, _, _, mutates, isAbs := c.absPeek(call); isAbs && mutates {
				ac, _ := c.absCall(call)
				if ac.hasErr || len(ac.results) != len(s.Lhs) {
					c.fail(s, "unsupported call of a method of an abstract object")
				}
				c.flush(ind)
				var names []string
				for _, l := range s.Lhs {
					id, ok := l.(*ast.Ident)
					if !ok {
						c.fail(l, "unsupported left-hand side")
					}
					names = append(names, coqName(id.Name))
				}
				c.emitf(ind, "let '(%s, %s) := %s in", strings.Join(names, ", "), ac.obj, ac.text)
				return
			}
			if sig := c.calleeSig(call); sig != nil && !sig.hasErr && len(sig.results) == len(s.Lhs) {
				text := c.callText(call, sig)
				c.flush(ind)
				var names []string
				for _, l := range s.Lhs {
					id, ok := l.(*ast.Ident)
					if !ok {
						c.fail(l, "unsupported left-hand side of a multi-value call")
					}
					names = append(names, coqName(id.Name))
				}
				if sig.fallible {
					c.effect = true
					c.emitf(ind, "do (%s) <- %s ;;", strings.Join(names, ", "), text)
				} else {
					c.emitf(ind, "let '(%s) := %s in", strings.Join(names, ", "), text)
				}
				return
			}
		}
	}
	if len(s.Rhs) == 1 {
		if call, ok := s.Rhs[0].(*ast.CallExpr); ok {
			if id, ok := call.Fun.(*ast.Ident); ok {
				if f, isF := c.obj(id).(*types.Func); isF && f.Pkg() != nil && f.Pkg().Path() == c.p.pkgPath() && c.calleeSig(call) == nil {
					c.fail(s, "call of `%s`, which is not (or could not be) translated (list it before its callers; see its own message if any)", id.Name)
				}
			}
		}
	}
	c.fail(s, "unsupported assignment `%s`", c.firstLine(s))
}

func (c *m2) calleeSig(e *ast.CallExpr) *fsig {
	if id, ok := e.Fun.(*ast.Ident); ok {
		if f, isF := c.obj(id).(*types.Func); isF && f.Pkg() != nil && f.Pkg().Path() == c.p.pkgPath() {
			return c.funcs[c.spec.pkg+":."+id.Name]
		}
	}
	if sel, ok := e.Fun.(*ast.SelectorExpr); ok {
		if id, ok := sel.X.(*ast.Ident); ok && c.recvObj != nil && c.obj(id) == c.recvObj {
			return c.funcs[c.spec.pkg+":"+c.spec.recv+"."+sel.Sel.Name]
		}
	}
	return nil
}

// ---------------------------------------------------------------------------
// x, err := f(..) followed by `if err != nil { .. }` / `if err == nil { .. }`

func (c *m2) errCall(s *ast.AssignStmt, rest []ast.Stmt, ind string, tail tailFn) bool {
	if len(s.Rhs) != 1 {
		return false
	}
	call, ok := s.Rhs[0].(*ast.CallExpr)
	if !ok {
		return false
	}
	sig := c.calleeSig(call)
	var ac *absCallInfo
	if sig == nil {
		if _, _, asig, _, isAbs := c.absPeek(call); isAbs {
			n := asig.Results().Len()
			if n > 0 && isErrorType(asig.Results().At(n-1).Type()) {
				c.cmt(ind, s)
				ac, _ = c.absCall(call)
				sig = &fsig{hasErr: true, results: ac.results}
			}
		}
	}
	if sig == nil || !sig.hasErr {
		return false
	}
	if len(s.Lhs) != len(sig.results)+1 {
		c.fail(s, "call of a function with an error result: %d left-hand sides for %d results", len(s.Lhs), len(sig.results)+1)
	}
	errId, ok := s.Lhs[len(s.Lhs)-1].(*ast.Ident)
	if !ok || errId.Name == "_" {
		c.fail(s, "the error result must be assigned to a variable")
	}
	errObj := c.obj(errId)
	var names []string
	var xobjs []types.Object
	for _, l := range s.Lhs[:len(s.Lhs)-1] {
		id, ok := l.(*ast.Ident)
		if !ok {
			c.fail(l, "unsupported left-hand side of a call with an error result")
		}
		if id.Name == "_" {
			names = append(names, "_")
			continue
		}
		names = append(names, coqName(id.Name))
		xobjs = append(xobjs, c.obj(id))
	}
	if ac != nil && ac.mutates {
		names = append(names, ac.obj)
	}
	okPat := "_"
	if len(names) == 1 {
		okPat = names[0]
	} else if len(names) > 1 {
		okPat = "(" + strings.Join(names, ", ") + ")"
	}
	if len(rest) == 0 {
		c.fail(s, "call with an error result must be followed by `if err != nil {..}` or `if err == nil {..}`")
	}
	ifs, ok := rest[0].(*ast.IfStmt)
	var cond *ast.BinaryExpr
	if ok && ifs.Init == nil {
		cond, _ = ifs.Cond.(*ast.BinaryExpr)
	}
	if cond == nil || !isNil(cond.Y) || (cond.Op != token.NEQ && cond.Op != token.EQL) {
		c.fail(s, "call with an error result must be followed by `if err != nil {..}` or `if err == nil {..}`")
	}
	if id, ok := cond.X.(*ast.Ident); !ok || c.obj(id) != errObj {
		c.fail(s, "call with an error result must be followed by a test of its error variable")
	}
	if ifs.Else != nil {
		c.fail(ifs, "else branch after an error test")
	}
	var text string
	if ac != nil {
		text = ac.text
	} else {
		c.cmt(ind, s)
		text = c.callText(call, sig)
	}
	c.flush(ind)
	c.effect = true
	after := rest[1:]
	if cond.Op == token.NEQ {
		if !c.terminates(ifs.Body.List) {
			c.fail(ifs, "`if err != nil` branch that does not end in a return")
		}
		c.emitf(ind, "match %s with", text)
		c.emitf(ind, "| Panic k_ => Panic k_")
		c.emitf(ind, "| Err e_ =>")
		c.cmt(ind+"    ", ifs)
		c.nonNil[errObj] = true
		c.blk(ifs.Body.List, ind+"    ", func(string) { c.fail(ifs, "internal: fallthrough") })
		delete(c.nonNil, errObj)
		c.emitf(ind, "| Ok %s =>", okPat)
		c.blk(after, ind+"    ", tail)
		c.emitf(ind, "end")
		return true
	}
	// err == nil: the results are used in the branch only
	if c.hasCtl(ifs.Body.List, true, true, true) {
		c.fail(ifs, "return/break/continue inside `if err == nil`")
	}
	for _, a := range after {
		if c.mentions(a, xobjs) {
			c.fail(a, "result of a call used after `if err == nil {..}` (its value when the call failed is not modelled)")
		}
	}
	st := c.assigned2(ifs.Body.List, ifs.Pos())
	c.emitf(ind, "do %s <-", doPat(st))
	c.emitf(ind, "  match %s with", text)
	c.emitf(ind, "  | Panic k_ => Panic k_")
	c.emitf(ind, "  | Err e_ => Ok %s", tuple2(st))
	c.emitf(ind, "  | Ok %s =>", okPat)
	c.cmt(ind+"      ", ifs)
	c.blk(ifs.Body.List, ind+"      ", func(i string) { c.emitf(i, "Ok %s", tuple2(st)) })
	c.emitf(ind, "  end ;;")
	c.blk(after, ind, tail)
	return true
}

// ---------------------------------------------------------------------------
// switch on a value: rewritten into the if / else-if chain it abbreviates (the tag must be a pure
// expression, it is repeated in every comparison; fallthrough chains are expanded as in the first mode)

func (c *m2) desugarSwitch(s *ast.SwitchStmt) *ast.IfStmt {
	if s.Init != nil {
		c.fail(s, "switch with an init statement")
	}
	if s.Tag == nil {
		c.fail(s, "switch without a tag")
	}
	tt := c.tyOf(s.Tag)
	if tt.k != mN && tt.k != mZ {
		c.fail(s, "switch on a %s value", tt)
	}
	save := c.pend
	c.pureEx(s.Tag, "switch tag")
	c.pend = save
	var clauses []*ast.CaseClause
	def := -1
	for i, cl := range s.Body.List {
		cc := cl.(*ast.CaseClause)
		clauses = append(clauses, cc)
		if cc.List == nil {
			def = i
		}
		for _, e := range cc.List {
			if _, ok := c.constInt(e); !ok {
				c.fail(e, "non-constant case expression")
			}
		}
		for _, b := range cc.Body {
			ast.Inspect(b, func(n ast.Node) bool {
				switch n := n.(type) {
				case *ast.ForStmt, *ast.RangeStmt, *ast.SwitchStmt:
					return false
				case *ast.BranchStmt:
					if n.Tok == token.BREAK {
						c.fail(n, "break inside a switch clause")
					}
				}
				return true
			})
		}
	}
	var body func(i, depth int) []ast.Stmt
	body = func(i, depth int) []ast.Stmt {
		if depth > len(clauses) {
			c.fail(s, "fallthrough cycle")
		}
		b := clauses[i].Body
		if n := len(b); n > 0 {
			if br, ok := b[n-1].(*ast.BranchStmt); ok && br.Tok == token.FALLTHROUGH {
				if i+1 >= len(clauses) {
					c.fail(br, "fallthrough in the last clause")
				}
				return append(append([]ast.Stmt{}, b[:n-1]...), body(i+1, depth+1)...)
			}
		}
		return b
	}
	boolTV := types.TypeAndValue{Type: types.Typ[types.Bool]}
	var first, last *ast.IfStmt
	for i, cc := range clauses {
		if cc.List == nil {
			continue
		}
		var cond ast.Expr
		for _, e := range cc.List {
			eq := &ast.BinaryExpr{X: s.Tag, OpPos: e.Pos(), Op: token.EQL, Y: e}
			c.p.info.Types[eq] = boolTV
			if cond == nil {
				cond = eq
			} else {
				or := &ast.BinaryExpr{X: cond, OpPos: e.Pos(), Op: token.LOR, Y: eq}
				c.p.info.Types[or] = boolTV
				cond = or
			}
		}
		is := &ast.IfStmt{If: cc.Pos(), Cond: cond, Body: &ast.BlockStmt{Lbrace: cc.Colon, List: body(i, 0), Rbrace: cc.End()}}
		if first == nil {
			first = is
		} else {
			last.Else = is
		}
		last = is
	}
	if first == nil {
		if def >= 0 {
			c.fail(s, "switch with only a default clause")
		}
		return nil
	}
	if def >= 0 {
		last.Else = &ast.BlockStmt{Lbrace: clauses[def].Colon, List: body(def, 0), Rbrace: clauses[def].End()}
	}
	return first
}

// ---------------------------------------------------------------------------
// if

// ifStmt2 returns true when it consumed the rest of the block
func (c *m2) ifStmt2(s *ast.IfStmt, rest []ast.Stmt, ind string, tail tailFn) bool {
	if s.Init != nil {
		c.fail(s, "if with an init statement")
	}
	thenT := c.terminates(s.Body.List)
	elseT := s.Else != nil && c.terminates(elseStmts(s.Else))
	c.cmt(ind, s)
	cond := c.boolEx(s.Cond)
	c.flush(ind)
	switch {
	case thenT || elseT:
		c.emitf(ind, "if %s then", cond)
		if thenT {
			c.blk(s.Body.List, ind+"  ", func(string) { c.fail(s, "internal: fallthrough") })
			c.emitf(ind, "else")
			if elseT {
				c.blk(elseStmts(s.Else), ind+"  ", func(string) { c.fail(s, "internal: fallthrough") })
				if len(rest) > 0 {
					c.fail(rest[0], "unreachable statement")
				}
				return true
			}
			c.blk(append(append([]ast.Stmt{}, elseStmts(s.Else)...), rest...), ind, tail)
		} else {
			c.blk(append(append([]ast.Stmt{}, s.Body.List...), rest...), ind+"  ", tail)
			c.emitf(ind, "else")
			c.blk(elseStmts(s.Else), ind+"  ", func(string) { c.fail(s, "internal: fallthrough") })
		}
		return true
	}
	all := append(append([]ast.Stmt{}, s.Body.List...), elseStmts(s.Else)...)
	st := c.assigned2(all, s.Pos())
	if c.hasCtl(all, true, true, true) {
		// a branch may transfer control (return / break / continue) or complete normally: what follows the
		// if becomes a local continuation, called by every branch that completes normally
		k := fmt.Sprintf("k%d_", c.ntmp+1)
		c.ntmp++
		c.emitf(ind, "let %s := fun %s =>", k, funPat(st))
		c.blk(rest, ind+"    ", tail)
		c.emitf(ind, "in")
		join := func(i string) { c.emitf(i, "%s %s", k, tuple2(st)) }
		c.emitf(ind, "if %s then", cond)
		c.blk(s.Body.List, ind+"  ", join)
		c.emitf(ind, "else")
		c.blk(elseStmts(s.Else), ind+"  ", join)
		return true
	}
	run := func(tier int) func() {
		return func() {
			c.emitf(ind, "  if %s then", cond)
			c.blk(s.Body.List, ind+"    ", func(i string) { c.emitf(i, "%s", c.wrapSt(tier, st)) })
			c.emitf(ind, "  else")
			c.blk(elseStmts(s.Else), ind+"    ", func(i string) { c.emitf(i, "%s", c.wrapSt(tier, st)) })
		}
	}
	nt := c.ntmp
	text, eff := c.trial(run(1))
	if !eff {
		c.ntmp = nt
		text, _ = c.trial(run(0))
		if len(st) == 0 {
			c.fail(s, "if statement that assigns no variable declared outside it and cannot fail (it has no effect)")
		}
		c.emitf(ind, "let %s :=", pat2(st))
		c.sb.WriteString(text)
		c.emitf(ind, "in")
		return false
	}
	c.emitf(ind, "do %s <- (", doPat(st))
	c.sb.WriteString(text)
	c.emitf(ind, ") ;;")
	return false
}

// ---------------------------------------------------------------------------
// loops

type loopShape struct {
	list  string // Gallina list folded over (range and counted loops)
	elem  string // binder of the element
	while bool
	cond  ast.Expr
	ivar  types.Object
}

func (c *m2) pureEx(e ast.Expr, what string) string {
	n := len(c.pend)
	s := c.ex(e)
	if len(c.pend) != n {
		c.fail(e, "%s `%s` can panic (it must be a pure expression)", what, c.srcText(e.Pos(), e.End()))
	}
	return s
}

func (c *m2) loopShape(s ast.Stmt, st []types.Object) loopShape {
	switch s := s.(type) {
	case *ast.RangeStmt:
		if s.Tok != token.DEFINE && !(s.Key == nil && s.Value == nil) {
			c.fail(s, "range loop that does not declare its variables with :=")
		}
		xt := c.tyOf(s.X)
		if xt.k != mList {
			c.fail(s, "range over `%s`, which is not a slice, array or string", c.srcText(s.X.Pos(), s.X.End()))
		}
		if c.mentions(s.X, st) {
			c.fail(s, "loop body assigns the value being ranged over")
		}
		x := c.pureEx(s.X, "range expression")
		name := func(e ast.Expr) string {
			if e == nil {
				return "_"
			}
			id, ok := e.(*ast.Ident)
			if !ok {
				c.fail(e, "unsupported range variable")
			}
			return coqName(id.Name)
		}
		k, v := name(s.Key), name(s.Value)
		if xt.str {
			// (phase 5, H9) Go iterates over the RUNES of a string: the index jumps over multi-byte sequences and
			// the number of iterations is the number of runes, also without an element variable
			c.fail(s, "range over a string (Go iterates over runes, which are not modelled; index the string byte by byte instead)")
		}
		switch {
		case k == "_" && v == "_":
			return loopShape{list: fmt.Sprintf("(Go.zseq 0%%Z (List.length %s))", x), elem: "_"}
		case k == "_":
			return loopShape{list: x, elem: v}
		case v == "_":
			return loopShape{list: fmt.Sprintf("(Go.zseq 0%%Z (List.length %s))", x), elem: k}
		}
		return loopShape{list: fmt.Sprintf("(Go.enum %s)", x), elem: fmt.Sprintf("'(%s, %s)", k, v)}
	case *ast.ForStmt:
		if s.Init == nil && s.Post == nil {
			if s.Cond == nil {
				c.fail(s, "for loop without a condition")
			}
			return loopShape{while: true, cond: s.Cond}
		}
		bad := func() {
			c.fail(s, "unsupported for loop `%s` (only `for i := a; i < b; i++` with a loop-invariant bound and a body that does not assign i, `for cond`, and range loops)", c.firstLine(s))
		}
		init, ok := s.Init.(*ast.AssignStmt)
		if !ok || init.Tok != token.DEFINE || len(init.Lhs) != 1 || len(init.Rhs) != 1 {
			bad()
		}
		iv, ok := init.Lhs[0].(*ast.Ident)
		if !ok || iv.Name == "_" {
			bad()
		}
		io := c.p.info.Defs[iv]
		it := c.mt(io.Type(), iv)
		if it.k != mN && it.k != mZ {
			bad()
		}
		cond, ok := s.Cond.(*ast.BinaryExpr)
		if !ok || cond.Op != token.LSS {
			bad()
		}
		if ci, ok := cond.X.(*ast.Ident); !ok || c.obj(ci) != io {
			bad()
		}
		post, ok := s.Post.(*ast.IncDecStmt)
		if !ok || post.Tok != token.INC {
			bad()
		}
		if pi, ok := post.X.(*ast.Ident); !ok || c.obj(pi) != io {
			bad()
		}
		for _, o := range c.assigned2(s.Body.List, s.Body.Pos()) {
			if o == io {
				c.fail(s, "loop body assigns the loop variable `%s`", iv.Name)
			}
		}
		if c.mentions(cond.Y, append(append([]types.Object{}, st...), io)) {
			c.fail(s, "loop bound `%s` depends on a variable assigned in the loop", c.srcText(cond.Y.Pos(), cond.Y.End()))
		}
		a := c.pureEx(init.Rhs[0], "loop start")
		b := c.pureEx(cond.Y, "loop bound")
		if v, isC := c.constInt(init.Rhs[0]); isC && v == 0 {
			if it.k == mZ {
				return loopShape{list: fmt.Sprintf("(Go.zseq 0%%Z (Z.to_nat %s))", b), elem: coqName(iv.Name), ivar: io}
			}
			return loopShape{list: fmt.Sprintf("(Go.nseq 0 (N.to_nat %s))", b), elem: coqName(iv.Name), ivar: io}
		}
		if it.k == mZ {
			return loopShape{list: fmt.Sprintf("(Go.zseq %s (Z.to_nat (%s - %s)%%Z))", a, b, a), elem: coqName(iv.Name), ivar: io}
		}
		return loopShape{list: fmt.Sprintf("(Go.nseq %s (N.to_nat (%s - %s)))", a, b, a), elem: coqName(iv.Name), ivar: io}
	}
	c.fail(s, "unsupported loop")
	return loopShape{}
}

// loop returns true when it consumed the rest of the block (control loops)
func (c *m2) loop(s ast.Stmt, body *ast.BlockStmt, rest []ast.Stmt, ind string, tail tailFn) bool {
	st := c.assigned2(body.List, s.Pos())
	c.cmt(ind, s)
	sh := c.loopShape(s, st)
	c.flush(ind)
	isCtl := c.hasCtl(body.List, true, true, false)
	var cond string
	if sh.while {
		for _, o := range st {
			_ = o
		}
		cond = c.pureEx(sh.cond, "loop condition")
		c.usesFuel = true
	}
	run := func(tier int) func() {
		return func() {
			c.loops = append(c.loops, &loopCtx{tier: tier, st: st})
			c.blk(body.List, ind+"    ", func(i string) { c.emitf(i, "%s", c.wrapSt(tier, st)) })
			c.loops = c.loops[:len(c.loops)-1]
		}
	}
	tier := 2
	var text string
	if !isCtl {
		nt := c.ntmp
		var eff bool
		text, eff = c.trial(run(1))
		tier = 1
		if !eff && !sh.while {
			c.ntmp = nt
			text, _ = c.trial(run(0))
			tier = 0
		}
	} else {
		text, _ = c.trial(run(2))
	}
	if tier == 0 && len(st) == 0 {
		c.fail(s, "loop that assigns no variable declared outside it and cannot fail (it has no effect)")
	}
	head := func(comb string) {
		if sh.while {
			c.emitf(ind, "  %s fuel (fun %s => %s) (fun %s =>", comb, funPat(st), cond, funPat(st))
		} else {
			c.emitf(ind, "  %s (fun %s %s =>", comb, funPat(st), sh.elem)
		}
	}
	foot := func(term string) {
		if sh.while {
			c.emitf(ind, "  ) %s %s", tuple2(st), term)
		} else {
			c.emitf(ind, "  ) %s %s %s", sh.list, tuple2(st), term)
		}
	}
	switch tier {
	case 0:
		c.emitf(ind, "let %s :=", pat2(st))
		head("List.fold_left")
		c.sb.WriteString(text)
		foot("in")
		return false
	case 1:
		c.effect = true
		c.emitf(ind, "do %s <-", doPat(st))
		if sh.while {
			head("Go.whileM")
		} else {
			head("Go.foldM")
		}
		c.sb.WriteString(text)
		foot(";;")
		return false
	}
	c.effect = true
	t := c.fresh()
	rty := strings.TrimPrefix(c.sig.resType(), "res ")
	c.emitf(ind, "do %s <-", t)
	if sh.while {
		head(fmt.Sprintf("Go.whileC (R := %s)", rty))
	} else {
		head(fmt.Sprintf("Go.foldC (R := %s)", rty))
	}
	c.sb.WriteString(text)
	foot(";;")
	c.emitf(ind, "match %s with", t)
	c.emitf(ind, "| Go.Ret r_ => %s", c.retText("r_"))
	if len(st) == 0 {
		c.emitf(ind, "| Go.Next _ | Go.Brk _ =>")
	} else {
		c.emitf(ind, "| Go.Next %s | Go.Brk %s =>", tuple2(st), tuple2(st))
	}
	c.blk(rest, ind+"    ", tail)
	c.emitf(ind, "end")
	return true
}

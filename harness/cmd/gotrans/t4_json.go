package main

// Fourth mode: decoded JSON documents.  In the packages listed in jsonPkgs4 the type interface{} is an
// Inductive with one constructor per dynamic type encoding/json produces (map[string]interface{},
// []interface{}, string, float64, bool) plus nil: a TREE.  Go's maps and slices are references: a write to
// a map / slice obtained from an interface value by a type switch, or to an element obtained by `range`,
// is visible through the container.  The translation has values only; it restores the effect by writing a
// changed alias back to where it came from ("origins", below).  This is exact when the document is a tree
// (no map or slice reachable along two paths), which is what encoding/json builds: noted in the header of
// each function.

import (
	"fmt"
	"go/ast"
	"go/token"
	"go/types"
)

var jsonPkgs4 = map[string]bool{"github.com/gcash/bchutil/jsonpb": true, "github.com/gcash/bchutil/selftest": true}

const jsonName4 = "json_any"

func isEmptyIface4(t types.Type) bool {
	if t == nil {
		return false
	}
	if n, ok := t.(*types.Named); ok && n.Obj().Pkg() != nil {
		return false
	}
	i, ok := t.Underlying().(*types.Interface)
	return ok && i.NumMethods() == 0
}

func jsonMode4() bool { return curMode4 && curPkg3 != nil && jsonPkgs4[curPkg3.Path()] }

// declJson4: the Inductive standing for interface{}
func (c *m3) declJson4(at ast.Node) mtype {
	t := mtype{k: mSum, name: jsonName4}
	if c.g.declSeen[jsonName4] {
		return t
	}
	c.g.declSeen[jsonName4] = true
	empty := types.NewInterfaceType(nil, nil)
	str := mtype{k: mList, elem: &mtype{k: mN, w: 8}, str: true}
	al := []alt3{
		{jsonName4 + "_map", mtype{k: mMap, key: &str, elem: &t}, types.NewMap(types.Typ[types.String], empty)},
		{jsonName4 + "_slice", mtype{k: mList, elem: &t}, types.NewSlice(empty)},
		{jsonName4 + "_string", str, types.Typ[types.String]},
		{jsonName4 + "_float64", mtype{k: mFloat}, types.Typ[types.Float64]},
		{jsonName4 + "_bool", mtype{k: mBool}, types.Typ[types.Bool]},
	}
	c.g.sumAlts[jsonName4] = al
	text := fmt.Sprintf(`(* interface{} holding a decoded JSON document (encoding/json): its dynamic types *)
Inductive %[1]s :=
| %[1]s_map (v : option (list (list N * %[1]s)))
| %[1]s_slice (v : list %[1]s)
| %[1]s_string (v : list N)
| %[1]s_float64 (v : Go4.float)
| %[1]s_bool (v : bool)
| %[1]s_nil.
`, jsonName4)
	c.g.decls = append(c.g.decls, text)
	di := declInfo4{kind: "sum", typ: jsonName4}
	for _, a := range al {
		di.ctors = append(di.ctors, a.ctor)
	}
	di.ctors = append(di.ctors, jsonName4+"_nil")
	c.g.declInfo = append(c.g.declInfo, di)
	return t
}

// ---------------------------------------------------------------------------
// origins: where an alias came from

type origin4 struct {
	kind int      // 1: bound by a type switch over base; 2: the value variable of `range base`
	base ast.Expr // the scrutinee / the container
	typ  types.Type
	key  *ast.Ident // kind 2: the key / index variable of the range statement
}

func hasJson4(t types.Type, depth int) bool {
	if t == nil || depth > 4 {
		return false
	}
	if isEmptyIface4(t) {
		return true
	}
	switch u := t.Underlying().(type) {
	case *types.Map:
		return hasJson4(u.Elem(), depth+1)
	case *types.Slice:
		return hasJson4(u.Elem(), depth+1)
	}
	return false
}

// originsOf: the aliases of a function body (only over JSON documents)
func originsOf4(info *types.Info, body *ast.BlockStmt) map[types.Object]*origin4 {
	out := map[types.Object]*origin4{}
	if !jsonMode4() || body == nil {
		return out
	}
	ast.Inspect(body, func(n ast.Node) bool {
		switch s := n.(type) {
		case *ast.TypeSwitchStmt:
			as, ok := s.Assign.(*ast.AssignStmt)
			if !ok {
				return true
			}
			scrut := as.Rhs[0].(*ast.TypeAssertExpr).X
			if tv, ok := info.Types[scrut]; !ok || !isEmptyIface4(tv.Type) {
				return true
			}
			for _, cl := range typeSwitchClauses(s) {
				o := info.Implicits[cl]
				if o == nil || len(cl.List) != 1 {
					continue
				}
				switch o.Type().Underlying().(type) {
				case *types.Map, *types.Slice:
					out[o] = &origin4{kind: 1, base: scrut, typ: o.Type()}
				}
			}
		case *ast.RangeStmt:
			tv, ok := info.Types[s.X]
			if !ok || !hasJson4(tv.Type, 0) || s.Tok != token.DEFINE {
				return true
			}
			vid, ok := s.Value.(*ast.Ident)
			if !ok || vid.Name == "_" {
				return true
			}
			kid, _ := s.Key.(*ast.Ident)
			if o := info.Defs[vid]; o != nil && kid != nil && kid.Name != "_" {
				out[o] = &origin4{kind: 2, base: s.X, typ: tv.Type, key: kid}
			}
		}
		return true
	})
	return out
}

// giveRangeKeys4: `for _, t := range d` over a JSON slice gets an index variable (needed to write t back)
func (c *m3) giveRangeKeys4(body *ast.BlockStmt) {
	if !jsonMode4() {
		return
	}
	ast.Inspect(body, func(n ast.Node) bool {
		s, ok := n.(*ast.RangeStmt)
		if !ok || s.Tok != token.DEFINE {
			return true
		}
		tv, has := c.p.info.Types[s.X]
		if !has || !hasJson4(tv.Type, 0) {
			return true
		}
		if _, isSlice := tv.Type.Underlying().(*types.Slice); !isSlice {
			return true
		}
		if vid, ok := s.Value.(*ast.Ident); !ok || vid.Name == "_" {
			return true
		}
		if kid, ok := s.Key.(*ast.Ident); ok && kid.Name != "_" {
			return true
		}
		s.Key = c.synthVar(s.For, "ri", types.Typ[types.Int])
		return true
	})
}

// originRoot: the variable at the root of the origin chain of o (o itself when it has none)
func originRoot4(info *types.Info, origins map[types.Object]*origin4, o types.Object) types.Object {
	for i := 0; i < 16 && o != nil; i++ {
		og := origins[o]
		if og == nil {
			return o
		}
		e := og.base
		for {
			switch x := e.(type) {
			case *ast.ParenExpr:
				e = x.X
				continue
			case *ast.IndexExpr:
				e = x.X
				continue
			case *ast.SelectorExpr:
				e = x.X
				continue
			}
			break
		}
		id, ok := e.(*ast.Ident)
		if !ok {
			return nil
		}
		if u := info.Uses[id]; u != nil {
			o = u
		} else {
			o = info.Defs[id]
		}
	}
	return o
}

// propagate4: the variable o was rebound (an element written, or a call changed it): write it back
func (c *m3) propagate4(o types.Object) {
	og := c.origins[o]
	if og == nil {
		return
	}
	name := c.vn(o)
	switch og.kind {
	case 1:
		it := c.tyOf(og.base)
		for _, a := range c.g.sumAlts[it.name] {
			if types.Identical(a.gt, og.typ) {
				c.storePath(og.base, fmt.Sprintf("(%s %s)", a.ctor, name))
				return
			}
		}
		c.fail(og.base, "internal: origin of `%s`", o.Name())
	case 2:
		use := c.useOf(og.key)
		ix := &ast.IndexExpr{X: og.base, Lbrack: og.base.End(), Index: use, Rbrack: og.base.End()}
		if m, isMap := og.typ.Underlying().(*types.Map); isMap {
			c.p.info.Types[ix] = types.TypeAndValue{Type: m.Elem()}
		} else if sl, isSl := og.typ.Underlying().(*types.Slice); isSl {
			c.p.info.Types[ix] = types.TypeAndValue{Type: sl.Elem()}
		}
		c.storePath(ix, name)
	}
}

// checkOrigins4: an alias must never be assigned directly (that would end the aliasing), and a map that is
// ranged over may only be written at the current key
func (c *m3) checkOrigins4() {
	if len(c.origins) == 0 {
		return
	}
	ast.Inspect(c.bodyNode, func(n ast.Node) bool {
		switch s := n.(type) {
		case *ast.AssignStmt:
			for _, l := range s.Lhs {
				if id, ok := l.(*ast.Ident); ok && c.p.info.Defs[id] == nil {
					if o := c.obj(id); o != nil && c.origins[o] != nil {
						c.fail(s, "assignment to `%s`, which stands for a part of a JSON document (the aliasing would end here: not modelled)", id.Name)
					}
				}
			}
		case *ast.RangeStmt:
			tv, ok := c.p.info.Types[s.X]
			if !ok {
				return true
			}
			if _, isMap := tv.Type.Underlying().(*types.Map); !isMap {
				return true
			}
			root := c.rootVar(s.X)
			kid, _ := s.Key.(*ast.Ident)
			var kobj types.Object
			if kid != nil {
				kobj = c.p.info.Defs[kid]
			}
			xtext := c.srcText(s.X.Pos(), s.X.End())
			isKey := func(e ast.Expr) bool {
				id, ok := stripParens(e).(*ast.Ident)
				return ok && kobj != nil && c.obj(id) == kobj
			}
			ast.Inspect(s.Body, func(m ast.Node) bool {
				switch w := m.(type) {
				case *ast.AssignStmt:
					for _, l := range w.Lhs {
						if ix, ok := l.(*ast.IndexExpr); ok && c.rootVar(ix.X) == root && root != nil {
							if c.srcText(ix.X.Pos(), ix.X.End()) != xtext || !isKey(ix.Index) {
								c.fail(w, "write to the map being ranged over at a key other than the current one")
							}
						}
					}
				case *ast.CallExpr:
					if id, ok := w.Fun.(*ast.Ident); ok && id.Name == "delete" && len(w.Args) == 2 && c.rootVar(w.Args[0]) == root && root != nil {
						if c.srcText(w.Args[0].Pos(), w.Args[0].End()) != xtext || !isKey(w.Args[1]) {
							c.fail(w, "delete from the map being ranged over at a key other than the current one")
						}
					}
				}
				return true
			})
		}
		return true
	})
	// a JSON parameter whose new value is returned must not be assigned as a whole
	for i, po := range c.paramObjs {
		if i < len(c.sig.mutPar) && c.sig.mutPar[i] && isEmptyIface4(po.Type()) {
			ast.Inspect(c.bodyNode, func(n ast.Node) bool {
				if as, ok := n.(*ast.AssignStmt); ok {
					for _, l := range as.Lhs {
						if id, ok := l.(*ast.Ident); ok && c.obj(id) == po && c.p.info.Defs[id] == nil {
							c.fail(as, "assignment to the JSON parameter `%s`, whose new value is returned to the caller", id.Name)
						}
					}
				}
				return true
			})
		}
	}
}

const jsonPrelude4 = `(* ---- maps written in place (fourth mode): an existing binding keeps its position, a new one goes last ---- *)
Fixpoint map_put {K V} (eqb : K -> K -> bool) (m : list (K * V)) (k : K) (v : V) : list (K * V) :=
  match m with
  | [] => [(k, v)]
  | (k', v') :: t => if eqb k' k then (k, v) :: t else (k', v') :: map_put eqb t k v
  end.
Definition mset {K V} (eqb : K -> K -> bool) (m : option (list (K * V))) (k : K) (v : V) : res (option (list (K * V))) :=
  match m with Some l => Ok (Some (map_put eqb l k v)) | None => Panic 5 end.

`

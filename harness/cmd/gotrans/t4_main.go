package main

// Fourth mode of the translator (Gen/Kernels4.v): the engine of the third mode (t3_*.go) run on a further
// list of functions, with
//   - math/big as a TRUSTED intrinsic family (a *big.Int is its value, a Z),
//   - float64 as IEEE-754 binary64 through Flocq (t4_float.go),
//   - the definitions of Gen/Kernels3.v (Records, Inductives, functions) referred to, not repeated: inside
//     `Section K4` the Section variables of K3 that are needed are declared again under the same names and
//     every definition of Kernels3.v that is used is a Local Notation applying it to its Section variables.
// Semantics: design/notes_translator.md, section "Phase 4".

import (
	"fmt"
	"go/ast"
	"go/types"
	"os"
	"path/filepath"
	"regexp"
	"sort"
	"strings"
)

// set while a function of the fourth list is analysed / translated
var curMode4 bool

type declInfo4 struct {
	kind  string   // record, setter, sum
	typ   string   // name of the type (record, sum)
	ctors []string // constructors
	funcs []string // projections, setters
}

// ---------------------------------------------------------------------------
// dependency closure of the definitions of a Section (what Coq abstracts at End)

var identRe4 = regexp.MustCompile(`[A-Za-z_][A-Za-z0-9_']*(\.[A-Za-z_][A-Za-z0-9_']*)*`)

// stripComments4 removes (possibly nested) Coq comments
func stripComments4(s string) string {
	var sb strings.Builder
	depth := 0
	for i := 0; i < len(s); i++ {
		if i+1 < len(s) && s[i] == '(' && s[i+1] == '*' {
			depth++
			i++
			continue
		}
		if depth > 0 && i+1 < len(s) && s[i] == '*' && s[i+1] == ')' {
			depth--
			i++
			sb.WriteByte(' ')
			continue
		}
		if depth == 0 {
			sb.WriteByte(s[i])
		}
	}
	return sb.String()
}

func idents4(text string) []string {
	seen := map[string]bool{}
	var out []string
	for _, m := range identRe4.FindAllString(stripComments4(text), -1) {
		if strings.Contains(m, ".") {
			continue // qualified: a name of another module
		}
		if !seen[m] {
			seen[m] = true
			out = append(out, m)
		}
	}
	return out
}

type item4 struct {
	name  string
	text  string // the text whose identifiers are its direct dependencies
	isVar bool   // a Section variable (abstract type or dependency)
	old   bool   // defined in Gen/Kernels3.v
	kind  string // "type", "ctor", "func", "var", "tvar"
	owner *item4 // the declaration a constructor / projection belongs to
	deps  map[string]bool
}

type closure4 struct {
	items map[string]*item4
	order []string // Section variables in declaration order
}

func (cl *closure4) add(it *item4) {
	cl.items[it.name] = it
	if it.isVar {
		cl.order = append(cl.order, it.name)
	}
}

// vars: the Section variables an item depends on (transitively)
func (cl *closure4) vars(name string, busy map[string]bool) map[string]bool {
	it := cl.items[name]
	if it == nil {
		return nil
	}
	if it.owner != nil {
		return cl.vars(it.owner.name, busy)
	}
	if it.deps != nil {
		return it.deps
	}
	if busy[name] {
		return nil
	}
	busy[name] = true
	deps := map[string]bool{}
	if it.isVar {
		deps[name] = true
	}
	for _, id := range idents4(it.text) {
		if id == name {
			continue
		}
		for v := range cl.vars(id, busy) {
			deps[v] = true
		}
	}
	delete(busy, name)
	it.deps = deps
	return deps
}

func (cl *closure4) orderedVars(name string) []string {
	d := cl.vars(name, map[string]bool{})
	var out []string
	for _, v := range cl.order {
		if d[v] {
			out = append(out, v)
		}
	}
	return out
}

// ---------------------------------------------------------------------------
// the file

func buildKernels4(repo string, specs3, specs4 []k3spec) (string, []string) {
	repoRoot5 = repo
	g := &g3{repo: repo, imp: newSrcImporter(), pkgs: map[string]*pkgInfo{}, funcs: map[string]*fsig3{},
		declSeen: map[string]bool{}, sentSeen: map[string]bool{}, inProg: map[string]bool{}, sumAlts: map[string][]alt3{},
		consts: &tableSet{defs: map[string]string{}, lens: map[string]int{}}}
	defer func() { curMode4, curHeap4 = false, false }()
	var errs []string
	g.legacy, g.legDecl = legacySigs(repo)
	var specs []k3spec
	specs = append(specs, specs3...)
	for _, k := range specs4 {
		k.m4 = true
		specs = append(specs, k)
	}
	decls := map[string]*ast.FuncDecl{}
	for _, k := range specs {
		p := g.pkgs[k.pkg]
		if p == nil {
			var err error
			p, err = loadPkg3(filepath.Join(repo, k.pkg), importPathOf(k.pkg), g.imp)
			if err != nil {
				errs = append(errs, fmt.Sprintf("%s.%s: %v", k.pkg, k.fn, err))
				continue
			}
			g.pkgs[k.pkg] = p
		}
		fn := p.findMethod(k.recv, k.fn)
		if fn == nil {
			errs = append(errs, fmt.Sprintf("%s: function %s%s not found in package %s", filepath.Join(repo, k.pkg), k.recv, "."+k.fn, p.name))
			continue
		}
		if decls[k3key(k)] != nil && !k.heap {
			errs = append(errs, fmt.Sprintf("%s: listed twice", k.name))
		}
		decls[k3key(k)] = fn
	}
	if len(errs) > 0 {
		return "", errs
	}
	g.computeMut(specs, decls, g.pkgs)
	type fdef struct {
		name, text string
		m4         bool
	}
	var defs []fdef
	var locals []string
	n3decl, n3types, n3vars, n3sent, n3const := 0, 0, 0, 0, 0
	for i, k := range specs {
		if i == len(specs3) {
			n3decl, n3types, n3vars, n3sent, n3const = len(g.decls), len(g.absTypes), len(g.absVars), len(g.sentinel), len(g.consts.order)
		}
		p := g.pkgs[k.pkg]
		c := &m3{ctx: &ctx{errShadowOK: true, p: p, fn: decls[k3key(k)], safeIdx: map[types.Object]int64{}, intrins: map[string]bool{}}, spec: k, g: g}
		s, err := c.translate3()
		curMode4, curHeap4 = false, false
		if err != nil {
			delete(g.funcs, k3key(k))
			mode := "fourth mode"
			if !k.m4 {
				mode = "third mode, rerun for the fourth"
			}
			errs = append(errs, fmt.Sprintf("%s: outside the supported subset (%s): %v", k.name, mode, err))
			continue
		}
		defs = append(defs, fdef{k.name, s, k.m4})
		locals = append(locals, c.allNames()...)
	}
	if len(specs4) == 0 {
		n3decl, n3types, n3vars, n3sent, n3const = len(g.decls), len(g.absTypes), len(g.absVars), len(g.sentinel), len(g.consts.order)
	}
	globals := map[string]bool{"fuel": true, "Ok": true, "Err": true, "Panic": true, "tt": true, "r_": true, "v_": true}
	for _, k := range specs {
		if globals[k.name] {
			errs = append(errs, fmt.Sprintf("the Coq name %s is used twice", k.name))
		}
		globals[k.name] = true
	}
	for _, n := range g.consts.order {
		globals[n] = true
	}
	for _, v := range g.absVars {
		globals[v.name] = true
	}
	for _, s := range g.sentinel {
		globals[s] = true
	}
	for d := range g.declSeen {
		globals[d] = true
	}
	for _, l := range locals {
		if globals[l] {
			errs = append(errs, fmt.Sprintf("local variable `%s` has the name of a definition of the generated file", l))
		}
	}
	if len(errs) > 0 {
		return "", errs
	}
	cerrs, _ := checkStubConstants(repo, g.imp)
	if len(cerrs) > 0 {
		return "", cerrs
	}

	// ---- the dependency structure of both Sections
	cl := &closure4{items: map[string]*item4{}}
	for i, t := range g.absTypes {
		cl.add(&item4{name: t + "_t", isVar: true, old: i < n3types, kind: "tvar"})
	}
	for i, d := range g.declInfo {
		old := i < n3decl
		switch d.kind {
		case "record", "sum":
			ti := &item4{name: d.typ, text: g.decls[i], old: old, kind: "type"}
			cl.add(ti)
			for _, c := range d.ctors {
				cl.add(&item4{name: c, old: old, kind: "ctor", owner: ti})
			}
			for _, f := range d.funcs {
				cl.add(&item4{name: f, old: old, kind: "func", owner: ti})
			}
		case "setter":
			cl.add(&item4{name: d.funcs[0], text: g.decls[i], old: old, kind: "func"})
		}
	}
	for i, v := range g.absVars {
		cl.add(&item4{name: v.name, text: v.coq, isVar: true, old: i < n3vars, kind: "var"})
	}
	for _, d := range defs {
		cl.add(&item4{name: d.name, text: d.text, old: !d.m4, kind: "func"})
	}

	// ---- what the new definitions mention
	used := map[string]bool{}
	var mark func(name string)
	mark = func(name string) {
		it := cl.items[name]
		if it == nil || used[name] {
			return
		}
		used[name] = true
		if it.owner != nil {
			mark(it.owner.name)
		}
		if it.isVar || !it.old {
			// the text of a Variable / new definition is written into the file: what it mentions must be in scope
			for _, id := range idents4(it.text) {
				mark(id)
			}
		}
		for v := range cl.vars(name, map[string]bool{}) {
			mark(v)
		}
	}
	for _, d := range defs {
		if d.m4 {
			mark(d.name)
		}
	}
	for i := n3decl; i < len(g.decls); i++ {
		d := g.declInfo[i]
		if d.typ != "" {
			mark(d.typ)
		} else {
			mark(d.funcs[0])
		}
	}

	var sb strings.Builder
	sb.WriteString(header4)
	if len(g.sentinel) > n3sent {
		sb.WriteString("(* package-level error values (those of Gen/Kernels3.v keep their numbers) *)\n")
		for i := n3sent; i < len(g.sentinel); i++ {
			fmt.Fprintf(&sb, "Definition %s : N := %d.\n", g.sentinel[i], 1001+i)
		}
		sb.WriteString("\n")
	}
	for _, n := range g.consts.order[n3const:] {
		sb.WriteString(g.consts.defs[n])
		sb.WriteString("\n")
	}
	sb.WriteString("Section K4.\n\n")
	wrote := false
	for _, t := range g.absTypes {
		if used[t+"_t"] {
			if !wrote {
				sb.WriteString("(* abstract objects (the same names as in Gen/Kernels3.v) *)\n")
				wrote = true
			}
			fmt.Fprintf(&sb, "Variable %s_t : Type.\n", t)
		}
	}
	if wrote {
		sb.WriteString("\n")
	}
	// notations for the types of Kernels3.v
	note := func(name string) {
		it := cl.items[name]
		vs := cl.orderedVars(name)
		if len(vs) == 0 {
			return // a closed definition of Kernels3.v: visible as it is
		}
		if it.kind == "ctor" {
			fmt.Fprintf(&sb, "Local Notation %s := (@Kernels3.%s%s).\n", name, name, strings.Repeat(" _", len(vs)))
			return
		}
		fmt.Fprintf(&sb, "Local Notation %s := (Kernels3.%s %s).\n", name, name, strings.Join(vs, " "))
	}
	wrote = false
	for i := 0; i < n3decl; i++ {
		d := g.declInfo[i]
		var names []string
		if d.typ != "" {
			names = append(names, d.typ)
		}
		names = append(names, d.ctors...)
		names = append(names, d.funcs...)
		for _, n := range names {
			if used[n] && len(cl.orderedVars(n)) > 0 {
				if !wrote {
					sb.WriteString("(* the types of Gen/Kernels3.v, applied to the Section variables they were abstracted over *)\n")
					wrote = true
				}
				note(n)
			}
		}
	}
	if wrote {
		sb.WriteString("\n")
	}
	for i := n3decl; i < len(g.decls); i++ {
		sb.WriteString(g.decls[i])
		sb.WriteString("\n")
	}
	wrote = false
	for _, v := range g.absVars {
		if used[v.name] {
			if !wrote {
				sb.WriteString("(* dependencies: imported functions, methods and fields of abstract objects *)\n")
				wrote = true
			}
			fmt.Fprintf(&sb, "Variable %s : %s.\n", v.name, v.coq)
		}
	}
	if wrote {
		sb.WriteString("\n")
	}
	wrote = false
	for _, d := range defs {
		if !d.m4 && used[d.name] && len(cl.orderedVars(d.name)) > 0 {
			if !wrote {
				sb.WriteString("(* the functions of Gen/Kernels3.v that are called, applied to their Section variables *)\n")
				wrote = true
			}
			note(d.name)
		}
	}
	if wrote {
		sb.WriteString("\n")
	}
	first := true
	for _, d := range defs {
		if d.m4 {
			if !first {
				sb.WriteString("\n")
			}
			first = false
			sb.WriteString(d.text)
		}
	}
	sb.WriteString("\nEnd K4.\n")
	sb.WriteString(sortSitesText5(g.sortSites, true))
	return sb.String(), nil
}

var _ = sort.Strings
var _ = os.Stderr

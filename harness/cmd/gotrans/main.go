// Command gotrans regenerates coq/theories/Gen/Kernels.v: a Gallina
// transliteration, produced from the Go ASTs of the repository under test, of the
// integer kernels the checksum / GCS / bloom theorems are about (polyMod,
// bech32Polymod, fastReduction, MurmurHash3).  coq/theories/Tie/KernelsTie*.v
// prove that the transliterations coincide with the hand-written models, so a
// change of one of these functions either changes nothing observable, or breaks
// a tie theorem at `make` time, or (when the function leaves the supported
// subset) makes this tool exit non-zero.
//
// Only go/parser, go/ast, go/token, go/constant and go/types are used.  Imports
// are not resolved (a failing importer); the kernels only use built-in types.
//
// Supported subset and its semantics: see design/notes_translator.md and the
// header written into the generated file.
package main

import (
	"bytes"
	"flag"
	"fmt"
	"go/ast"
	"go/constant"
	"go/parser"
	"go/token"
	"go/types"
	"os"
	"path/filepath"
	"sort"
	"strings"
	"verif/harness/internal/srcsel"
)

type kernelSpec struct {
	pkg string // directory relative to the repository root
	fn  string
}

// the kernels, in output order
var kernels = []kernelSpec{
	{".", "polyMod"},
	{"bech32", "bech32Polymod"},
	{"gcs", "fastReduction"},
	{"bloom", "MurmurHash3"},
}

type failImporter struct{}

func (failImporter) Import(path string) (*types.Package, error) {
	return nil, fmt.Errorf("imports are not resolved")
}

// ---------------------------------------------------------------------------
// errors

type transErr struct {
	pos token.Position
	msg string
}

func (e transErr) Error() string { return fmt.Sprintf("%s: %s", e.pos, e.msg) }

// ---------------------------------------------------------------------------
// package loading

type pkgInfo struct {
	dir     string
	name    string
	fset    *token.FileSet
	files   []*ast.File
	fnames  []string
	info    *types.Info
	src     map[string][]byte
	typeErr []types.Error
	tpkg    *types.Package // third mode only
}

func loadPkg(dir string) (*pkgInfo, error) { return loadPkgWith(dir, failImporter{}) }

func loadPkgWith(dir string, imp types.Importer) (*pkgInfo, error) {
	p := &pkgInfo{dir: dir, fset: token.NewFileSet(), src: map[string][]byte{}}
	filter := srcsel.Filter(dir)
	parsed, err := parser.ParseDir(p.fset, dir, filter, parser.SkipObjectResolution)
	if err != nil {
		return nil, err
	}
	var pkgNames []string
	for _, pk := range parsed {
		if strings.HasSuffix(pk.Name, "_test") {
			continue
		}
		pkgNames = append(pkgNames, pk.Name)
		if pk.Name == "main" && len(parsed) > 1 {
			continue
		}
		p.name = pk.Name
		var fn []string
		for f := range pk.Files {
			fn = append(fn, f)
		}
		sort.Strings(fn)
		for _, f := range fn {
			p.files = append(p.files, pk.Files[f])
			p.fnames = append(p.fnames, f)
			b, err := os.ReadFile(f)
			if err != nil {
				return nil, err
			}
			p.src[f] = b
		}
	}
	if len(p.files) == 0 {
		return nil, fmt.Errorf("no Go package in %s", dir)
	}
	p.info = &types.Info{
		Types:  map[ast.Expr]types.TypeAndValue{},
		Defs:   map[*ast.Ident]types.Object{},
		Uses:   map[*ast.Ident]types.Object{},
		Scopes: map[ast.Node]*types.Scope{},
	}
	conf := types.Config{Importer: imp, FakeImportC: true, Error: func(e error) {
		if te, ok := e.(types.Error); ok {
			p.typeErr = append(p.typeErr, te)
		}
	}}
	conf.Check(dir, p.fset, p.files, p.info) // import errors are expected; errors inside a kernel are checked later
	if err := checkPkgDecls(p, pkgNames); err != nil {
		return nil, err
	}
	return p, nil
}

func (p *pkgInfo) findFunc(name string) *ast.FuncDecl {
	for _, f := range p.files {
		for _, d := range f.Decls {
			if fd, ok := d.(*ast.FuncDecl); ok && fd.Recv == nil && fd.Name.Name == name && fd.Body != nil {
				return fd
			}
		}
	}
	return nil
}

// ---------------------------------------------------------------------------
// kinds of values

type kclass int

const (
	kUnsigned kclass = iota
	kInt
	kBool
)

type kind struct {
	class kclass
	w     int // width for kUnsigned
}

func (k kind) String() string {
	switch k.class {
	case kUnsigned:
		return fmt.Sprintf("uint%d", k.w)
	case kInt:
		return "int"
	}
	return "bool"
}

// ---------------------------------------------------------------------------
// per-function translation context

type ctx struct {
	p           *pkgInfo
	fn          *ast.FuncDecl
	sb          strings.Builder
	notes       []string
	tables      *tableSet
	safeIdx     map[types.Object]int64 // counted-loop variable -> exclusive constant upper bound
	intrins     map[string]bool
	okErr       []ast.Node // nodes inside which type errors are expected (intrinsic calls)
	binders     map[string]bool
	errShadowOK bool // monadic mode: error variables never appear by name in the output
}

type tableSet struct {
	defs  map[string]string
	order []string
	lens  map[string]int
}

func (c *ctx) fail(n ast.Node, format string, a ...interface{}) {
	panic(transErr{c.p.fset.Position(n.Pos()), fmt.Sprintf(format, a...)})
}

func (c *ctx) line(n ast.Node) int { return c.p.fset.Position(n.Pos()).Line }

func (c *ctx) note(n ast.Node, format string, a ...interface{}) {
	s := fmt.Sprintf("L%d: ", c.line(n)) + fmt.Sprintf(format, a...)
	for _, o := range c.notes {
		if o == s {
			return
		}
	}
	c.notes = append(c.notes, s)
}

// text of the source between two positions, on one line, safe inside a Coq comment
func (c *ctx) srcText(from, to token.Pos) string {
	a, b := c.p.fset.Position(from), c.p.fset.Position(to)
	src := c.p.src[a.Filename]
	if src == nil || a.Offset < 0 || b.Offset > len(src) || a.Offset > b.Offset {
		return "?"
	}
	return commentSafe(string(src[a.Offset:b.Offset]))
}

// first source line of a statement
func (c *ctx) firstLine(n ast.Node) string {
	a := c.p.fset.Position(n.Pos())
	src := c.p.src[a.Filename]
	if src == nil {
		return "?"
	}
	end := a.Offset
	for end < len(src) && src[end] != '\n' {
		end++
	}
	return commentSafe(string(src[a.Offset:end]))
}

func commentSafe(s string) string {
	s = strings.Join(strings.Fields(s), " ")
	s = strings.ReplaceAll(s, "(*", "( *")
	s = strings.ReplaceAll(s, "*)", "* )")
	s = strings.ReplaceAll(s, "\"", "'")
	return s
}

var coqReserved = map[string]bool{
	"as": true, "at": true, "cofix": true, "else": true, "end": true, "exists": true, "exists2": true,
	"fix": true, "for": true, "forall": true, "fun": true, "if": true, "IF": true, "in": true, "let": true,
	"match": true, "mod": true, "Prop": true, "return": true, "Set": true, "then": true, "Type": true,
	"using": true, "where": true, "with": true, "SProp": true, "by": true, "true": true, "false": true,
	"nil": true, "cons": true, "pair": true, "fst": true, "snd": true, "negb": true, "andb": true, "orb": true,
	"sw_tag": true, "res": true, "Ok": true, "Err": true, "Panic": true, "fuel": true, "tt": true, "unit": true, "list": true, "Go": true,
}

// coqName: the Coq name of a Go identifier.  INJECTIVE, and disjoint from every name the translator makes up:
// every generated name (temporaries t<k>_ / k<k>_, shadowing renames x_<k>, loop / switch helpers sw<k>_, a_, b_,
// r_, v_, k_, st_, i_nat, sw_tag, the escapes of reserved words x_, names derived from paths such as
// bf_msgFilterLoad_Filter, cs_isnil, T_nil, heap_Tx, pkg_Var) contains an underscore and no prime; a Go
// identifier that contains an underscore is therefore written with a prime appended (done_2 -> done_2'),
// which no Go identifier and no generated name can be.  Go identifiers without underscore are used as they
// are, except the words reserved below (fuel, Ok, in, ...), which get an underscore.
// synthMark prefixes the Go-side name of every pseudo-variable the translator itself creates (switch tags,
// range keys, receiver-field paths, the heap table): a prime cannot occur in a Go identifier, so such an
// object can never be confused with a variable of the source; coqName strips the mark.
const synthMark = "'"

func coqName(s string) string {
	if s == "_" {
		return s
	}
	if strings.HasPrefix(s, synthMark) {
		return s[len(synthMark):] // a name made up by the translator (see synthMark)
	}
	if coqReserved[s] {
		return s + "_"
	}
	if strings.Contains(s, "_") {
		return s + "'"
	}
	return s
}

func (c *ctx) kindOf(t types.Type, at ast.Node) kind {
	if t == nil {
		c.fail(at, "expression `%s` has no type (unresolved)", c.srcText(at.Pos(), at.End()))
	}
	b, ok := t.Underlying().(*types.Basic)
	if !ok {
		c.fail(at, "unsupported type %s of `%s`", t, c.srcText(at.Pos(), at.End()))
	}
	switch b.Kind() {
	case types.Uint8:
		return kind{kUnsigned, 8}
	case types.Uint16:
		return kind{kUnsigned, 16}
	case types.Uint32:
		return kind{kUnsigned, 32}
	case types.Uint64, types.Uint:
		return kind{kUnsigned, 64}
	case types.Int:
		return kind{kInt, 64}
	case types.Bool, types.UntypedBool:
		return kind{kBool, 0}
	}
	c.fail(at, "unsupported type %s of `%s` (supported: uint64 uint32 uint16 uint8/byte uint int bool)", t, c.srcText(at.Pos(), at.End()))
	return kind{}
}

func (c *ctx) typeOf(e ast.Expr) types.Type {
	tv, ok := c.p.info.Types[e]
	if !ok || tv.Type == nil {
		if id, ok := e.(*ast.Ident); ok {
			if o := c.obj(id); o != nil {
				return o.Type()
			}
		}
		c.fail(e, "expression `%s` has no type (unresolved)", c.srcText(e.Pos(), e.End()))
	}
	if b, ok := tv.Type.(*types.Basic); ok && b.Kind() == types.Invalid {
		c.fail(e, "expression `%s` has an invalid type (unresolved)", c.srcText(e.Pos(), e.End()))
	}
	return tv.Type
}

func (c *ctx) obj(id *ast.Ident) types.Object {
	if o := c.p.info.Uses[id]; o != nil {
		return o
	}
	return c.p.info.Defs[id]
}

func (c *ctx) isLocal(o types.Object) bool {
	if o == nil {
		return false
	}
	_, isVar := o.(*types.Var)
	return isVar && o.Pos() >= c.fn.Pos() && o.Pos() < c.fn.End()
}

func mod2(w int) string { return fmt.Sprintf("mod 2^%d", w) }

// ---------------------------------------------------------------------------
// expressions

func (c *ctx) constOf(e ast.Expr) (string, bool) {
	tv, ok := c.p.info.Types[e]
	if !ok || tv.Value == nil {
		return "", false
	}
	switch tv.Value.Kind() {
	case constant.Bool:
		if constant.BoolVal(tv.Value) {
			return "true", true
		}
		return "false", true
	case constant.Int:
		if constant.Sign(tv.Value) < 0 {
			c.fail(e, "negative constant `%s` = %s (values are modelled as N)", c.srcText(e.Pos(), e.End()), tv.Value.ExactString())
		}
		return tv.Value.ExactString(), true
	case constant.Float:
		v := constant.ToInt(tv.Value)
		if v.Kind() == constant.Int && constant.Sign(v) >= 0 {
			if b, ok := tv.Type.Underlying().(*types.Basic); ok && b.Info()&types.IsInteger != 0 {
				return v.ExactString(), true
			}
		}
	}
	c.fail(e, "unsupported constant `%s` of kind %v", c.srcText(e.Pos(), e.End()), tv.Value.Kind())
	return "", false
}

func (c *ctx) constInt(e ast.Expr) (int64, bool) {
	tv, ok := c.p.info.Types[e]
	if !ok || tv.Value == nil || tv.Value.Kind() != constant.Int {
		return 0, false
	}
	return constant.Int64Val(tv.Value)
}

// expr returns a Gallina term (atomic or parenthesised) for an integer/boolean Go expression
func (c *ctx) expr(e ast.Expr) string {
	if s, ok := c.constOf(e); ok {
		return s
	}
	switch e := e.(type) {
	case *ast.ParenExpr:
		return c.expr(e.X)
	case *ast.Ident:
		o := c.obj(e)
		if o == nil {
			c.fail(e, "unresolved identifier `%s`", e.Name)
		}
		if !c.isLocal(o) {
			c.fail(e, "use of non-local `%s` other than indexing a package-level integer table", e.Name)
		}
		c.kindOf(o.Type(), e)
		return coqName(e.Name)
	case *ast.BinaryExpr:
		return c.binary(e, e.Op, e.X, e.Y, c.typeOf(e))
	case *ast.UnaryExpr:
		return c.unary(e)
	case *ast.CallExpr:
		return c.call(e)
	case *ast.IndexExpr:
		return c.index(e)
	case *ast.BasicLit:
		c.fail(e, "unsupported literal `%s`", e.Value)
	}
	c.fail(e, "unsupported expression %s `%s`", nodeName(e), c.srcText(e.Pos(), e.End()))
	return ""
}

func nodeName(n ast.Node) string {
	s := fmt.Sprintf("%T", n)
	return strings.TrimPrefix(s, "*ast.")
}

// binary translates `x op y` whose result has type rt (for `x op= y`, rt is the type of x)
func (c *ctx) binary(at ast.Node, op token.Token, xe, ye ast.Expr, rt types.Type) string {
	switch op {
	case token.LAND, token.LOR:
		f := "andb"
		if op == token.LOR {
			f = "orb"
		}
		return fmt.Sprintf("(%s %s %s)", f, c.boolExpr(xe), c.boolExpr(ye))
	case token.EQL, token.NEQ, token.LSS, token.LEQ, token.GTR, token.GEQ:
		xk := c.kindOf(c.typeOf(xe), xe)
		if xk.class == kBool {
			if op == token.EQL {
				return fmt.Sprintf("(Bool.eqb %s %s)", c.expr(xe), c.expr(ye))
			}
			if op == token.NEQ {
				return fmt.Sprintf("(xorb %s %s)", c.expr(xe), c.expr(ye))
			}
			c.fail(at, "ordering comparison of booleans")
		}
		x, y := c.expr(xe), c.expr(ye)
		switch op {
		case token.EQL:
			return fmt.Sprintf("(%s =? %s)", x, y)
		case token.NEQ:
			return fmt.Sprintf("(negb (%s =? %s))", x, y)
		case token.LSS:
			return fmt.Sprintf("(%s <? %s)", x, y)
		case token.LEQ:
			return fmt.Sprintf("(%s <=? %s)", x, y)
		case token.GTR:
			return fmt.Sprintf("(%s <? %s)", y, x)
		default:
			return fmt.Sprintf("(%s <=? %s)", y, x)
		}
	}
	k := c.kindOf(rt, at)
	if k.class == kBool {
		c.fail(at, "unsupported boolean operator %s", op)
	}
	x, y := c.expr(xe), c.expr(ye)
	txt := c.srcText(at.Pos(), at.End())
	isInt := k.class == kInt
	switch op {
	case token.ADD:
		if isInt {
			c.note(at, "`%s`: int addition assumed not to exceed 2^63-1", txt)
			return fmt.Sprintf("(%s + %s)", x, y)
		}
		return fmt.Sprintf("((%s + %s) %s)", x, y, mod2(k.w))
	case token.SUB:
		if isInt {
			c.note(at, "`%s`: int subtraction assumed to have a non-negative result", txt)
			return fmt.Sprintf("(%s - %s)", x, y)
		}
		return fmt.Sprintf("((%s + 2^%d - %s) %s)", x, k.w, y, mod2(k.w))
	case token.MUL:
		if isInt {
			c.note(at, "`%s`: int multiplication assumed not to exceed 2^63-1", txt)
			return fmt.Sprintf("(%s * %s)", x, y)
		}
		return fmt.Sprintf("((%s * %s) %s)", x, y, mod2(k.w))
	case token.QUO, token.REM:
		if _, isConst := c.constInt(ye); !isConst {
			c.note(at, "`%s`: divisor assumed non-zero (Go panics, N gives 0 resp. the dividend)", txt)
		} else if y == "0" {
			c.fail(at, "division by the constant 0")
		}
		if op == token.QUO {
			return fmt.Sprintf("(%s / %s)", x, y)
		}
		return fmt.Sprintf("(%s mod %s)", x, y)
	case token.AND:
		return fmt.Sprintf("(N.land %s %s)", x, y)
	case token.OR:
		return fmt.Sprintf("(N.lor %s %s)", x, y)
	case token.XOR:
		return fmt.Sprintf("(N.lxor %s %s)", x, y)
	case token.AND_NOT:
		return fmt.Sprintf("(N.ldiff %s %s)", x, y)
	case token.SHL, token.SHR:
		if _, isConst := c.constInt(ye); !isConst { // a constant count may stay an untyped int; constOf rejected a negative one
			if yk := c.kindOf(c.typeOf(ye), ye); yk.class == kBool {
				c.fail(ye, "boolean shift count")
			}
		}
		if op == token.SHR {
			return fmt.Sprintf("(N.shiftr %s %s)", x, y)
		}
		if isInt {
			c.note(at, "`%s`: int left shift assumed not to exceed 2^63-1", txt)
			return fmt.Sprintf("(N.shiftl %s %s)", x, y)
		}
		return fmt.Sprintf("((N.shiftl %s %s) %s)", x, y, mod2(k.w))
	}
	c.fail(at, "unsupported binary operator %s", op)
	return ""
}

func (c *ctx) boolExpr(e ast.Expr) string {
	if k := c.kindOf(c.typeOf(e), e); k.class != kBool {
		c.fail(e, "expected a boolean expression, got %s", k)
	}
	return c.expr(e)
}

func (c *ctx) unary(e *ast.UnaryExpr) string {
	switch e.Op {
	case token.NOT:
		return fmt.Sprintf("(negb %s)", c.boolExpr(e.X))
	case token.ADD:
		return c.expr(e.X)
	case token.XOR, token.SUB:
		k := c.kindOf(c.typeOf(e), e)
		if k.class != kUnsigned {
			c.fail(e, "unary %s on %s (only on unsigned types)", e.Op, k)
		}
		x := c.expr(e.X)
		if e.Op == token.XOR {
			return fmt.Sprintf("(N.lxor %s (N.ones %d))", x, k.w)
		}
		return fmt.Sprintf("((2^%d - %s) %s)", k.w, x, mod2(k.w))
	}
	c.fail(e, "unsupported unary operator %s", e.Op)
	return ""
}

func (c *ctx) call(e *ast.CallExpr) string {
	if e.Ellipsis.IsValid() {
		c.fail(e, "variadic call")
	}
	// conversion T(x)
	if tv, ok := c.p.info.Types[e.Fun]; ok && tv.IsType() {
		if len(e.Args) != 1 {
			c.fail(e, "conversion with %d arguments", len(e.Args))
		}
		to := c.kindOf(tv.Type, e)
		from := c.kindOf(c.typeOf(e.Args[0]), e.Args[0])
		if to.class == kBool || from.class == kBool {
			c.fail(e, "conversion involving bool")
		}
		x := c.expr(e.Args[0])
		if to.class == kInt {
			if from.class == kUnsigned && from.w >= 64 {
				c.note(e, "`%s`: converted value assumed below 2^63", c.srcText(e.Pos(), e.End()))
			}
			return x
		}
		return fmt.Sprintf("(%s %s)", x, mod2(to.w))
	}
	// builtin len
	if id, ok := e.Fun.(*ast.Ident); ok {
		if b, isB := c.obj(id).(*types.Builtin); isB && b.Name() == "len" && len(e.Args) == 1 {
			if a, ok := e.Args[0].(*ast.Ident); ok && c.isSliceParam(a) {
				return fmt.Sprintf("(N.of_nat (List.length %s))", coqName(a.Name))
			}
			c.fail(e, "len of something that is not a slice parameter")
		}
	}
	// intrinsic: encoding/binary LittleEndian.Uint32(s[off:])
	if s, ok := c.intrinsicLE32(e); ok {
		return s
	}
	c.fail(e, "unsupported call `%s` (only conversions, len(sliceParam) and binary.LittleEndian.Uint32(sliceParam[off:]))", c.srcText(e.Pos(), e.End()))
	return ""
}

func (c *ctx) importedAs(file *ast.File, name, path string) bool {
	for _, im := range file.Imports {
		if strings.Trim(im.Path.Value, "\"`") != path {
			continue
		}
		local := path[strings.LastIndex(path, "/")+1:]
		if im.Name != nil {
			local = im.Name.Name
		}
		if local == name {
			return true
		}
	}
	return false
}

func (c *ctx) fileOf(n ast.Node) *ast.File {
	for _, f := range c.p.files {
		if f.Pos() <= n.Pos() && n.Pos() < f.End() {
			return f
		}
	}
	return nil
}

func (c *ctx) intrinsicLE32(e *ast.CallExpr) (string, bool) {
	s1, ok := e.Fun.(*ast.SelectorExpr)
	if !ok || s1.Sel.Name != "Uint32" || len(e.Args) != 1 {
		return "", false
	}
	s2, ok := s1.X.(*ast.SelectorExpr)
	if !ok || s2.Sel.Name != "LittleEndian" {
		return "", false
	}
	pk, ok := s2.X.(*ast.Ident)
	if !ok || !c.importedAs(c.fileOf(e), pk.Name, "encoding/binary") {
		return "", false
	}
	if o := c.obj(pk); o != nil {
		if _, isPkg := o.(*types.PkgName); !isPkg {
			return "", false // `binary` is shadowed by something else
		}
	}
	var base *ast.Ident
	off := "0"
	switch a := e.Args[0].(type) {
	case *ast.Ident:
		base = a
	case *ast.SliceExpr:
		id, ok := a.X.(*ast.Ident)
		if !ok || a.High != nil || a.Max != nil || a.Slice3 {
			c.fail(a, "unsupported slice expression `%s` (only s[off:])", c.srcText(a.Pos(), a.End()))
		}
		base = id
		if a.Low != nil {
			off = c.expr(a.Low)
		}
	default:
		return "", false
	}
	if !c.isSliceParam(base) || c.elemKind(base).w != 8 {
		c.fail(e, "binary.LittleEndian.Uint32 of something that is not a []byte parameter")
	}
	c.intrins["le_uint32"] = true
	c.okErr = append(c.okErr, e)
	c.note(e, "`%s`: at least 4 bytes assumed available from the offset (Go panics otherwise; missing bytes read as 0 here)", c.srcText(e.Pos(), e.End()))
	return fmt.Sprintf("(le_uint32 %s %s)", coqName(base.Name), off), true
}

func (c *ctx) isSliceParam(id *ast.Ident) bool {
	o := c.obj(id)
	if o == nil || !c.isLocal(o) {
		return false
	}
	if _, ok := o.Type().Underlying().(*types.Slice); !ok {
		return false
	}
	for _, f := range c.fn.Type.Params.List {
		for _, n := range f.Names {
			if c.p.info.Defs[n] == o {
				return true
			}
		}
	}
	return false
}

func (c *ctx) elemKind(id *ast.Ident) kind {
	sl := c.obj(id).Type().Underlying().(*types.Slice)
	return c.kindOf(sl.Elem(), id)
}

func (c *ctx) index(e *ast.IndexExpr) string {
	id, ok := e.X.(*ast.Ident)
	if !ok {
		c.fail(e, "indexing of something that is not an identifier: `%s`", c.srcText(e.Pos(), e.End()))
	}
	ik := c.kindOf(c.typeOf(e.Index), e.Index)
	if ik.class == kBool {
		c.fail(e, "boolean index")
	}
	idx := c.expr(e.Index)
	if c.isSliceParam(id) {
		c.elemKind(id)
		c.note(e, "`%s`: index assumed in range (Go panics, the translation reads 0)", c.srcText(e.Pos(), e.End()))
		return fmt.Sprintf("(List.nth (N.to_nat %s) %s 0)", idx, coqName(id.Name))
	}
	o := c.obj(id)
	if v, isVar := o.(*types.Var); isVar && !c.isLocal(o) && v.Parent() == v.Pkg().Scope() {
		name, n := c.table(id, v)
		if !c.indexInRange(e.Index, n) {
			c.note(e, "`%s`: index assumed in range (Go panics, the translation reads 0)", c.srcText(e.Pos(), e.End()))
		}
		return fmt.Sprintf("(List.nth (N.to_nat %s) %s 0)", idx, name)
	}
	c.fail(e, "indexing of `%s`, which is neither a slice parameter nor a package-level integer table", id.Name)
	return ""
}

// indexInRange: the index is a constant below n, or a counted-loop variable whose bound is at most n
func (c *ctx) indexInRange(ix ast.Expr, n int) bool {
	if v, ok := c.constInt(ix); ok {
		return v >= 0 && v < int64(n)
	}
	for {
		p, ok := ix.(*ast.ParenExpr)
		if !ok {
			break
		}
		ix = p.X
	}
	if id, ok := ix.(*ast.Ident); ok {
		if b, ok := c.safeIdx[c.obj(id)]; ok {
			return b <= int64(n)
		}
	}
	return false
}

// table emits (once) the definition of a package-level integer table and checks that nothing in the
// package can modify it
func (c *ctx) table(use *ast.Ident, v *types.Var) (string, int) {
	name := c.p.name + "_" + use.Name
	if n, ok := c.tables.lens[name]; ok {
		return name, n
	}
	var spec *ast.ValueSpec
	var idx int
	for _, f := range c.p.files {
		for _, d := range f.Decls {
			gd, ok := d.(*ast.GenDecl)
			if !ok || gd.Tok != token.VAR {
				continue
			}
			for _, sp := range gd.Specs {
				vs := sp.(*ast.ValueSpec)
				for i, n := range vs.Names {
					if c.p.info.Defs[n] == v {
						spec, idx = vs, i
					}
				}
			}
		}
	}
	if spec == nil || idx >= len(spec.Values) || len(spec.Names) != len(spec.Values) {
		c.fail(use, "package-level `%s` has no initialiser the translator can read", use.Name)
	}
	cl, ok := spec.Values[idx].(*ast.CompositeLit)
	if !ok {
		c.fail(use, "package-level `%s` is not initialised by a composite literal", use.Name)
	}
	var elemT types.Type
	switch t := v.Type().Underlying().(type) {
	case *types.Slice:
		elemT = t.Elem()
	case *types.Array:
		elemT = t.Elem()
	default:
		c.fail(use, "package-level `%s` is not a slice or array", use.Name)
	}
	c.kindOf(elemT, use)
	var elems []string
	for _, el := range cl.Elts {
		if _, isKV := el.(*ast.KeyValueExpr); isKV {
			c.fail(el, "keyed element in the initialiser of `%s`", use.Name)
		}
		s, ok := c.constOf(el)
		if !ok {
			c.fail(el, "non-constant element in the initialiser of `%s`", use.Name)
		}
		elems = append(elems, s)
	}
	if a, isArr := v.Type().Underlying().(*types.Array); isArr && int(a.Len()) != len(elems) {
		c.fail(use, "array `%s` is not fully initialised", use.Name)
	}
	// every other use of the table in the package must be a read: t[i] as an rvalue, len(t), range t
	for _, f := range c.p.files {
		c.checkReadOnly(f, v, use.Name)
	}
	sp := c.p.fset.Position(spec.Pos())
	c.tables.defs[name] = fmt.Sprintf("(* %s:%d   var %s *)\nDefinition %s : list N := [%s].\n",
		filepath.Base(sp.Filename), sp.Line, c.firstLine(spec), name, strings.Join(elems, "; "))
	c.tables.order = append(c.tables.order, name)
	c.tables.lens[name] = len(elems)
	return name, len(elems)
}

func (c *ctx) checkReadOnly(f *ast.File, v *types.Var, name string) {
	allowed := map[*ast.Ident]bool{}
	written := map[ast.Expr]bool{}
	ast.Inspect(f, func(n ast.Node) bool {
		switch n := n.(type) {
		case *ast.AssignStmt:
			if n.Tok != token.DEFINE {
				for _, l := range n.Lhs {
					written[l] = true
				}
			}
		case *ast.IncDecStmt:
			written[n.X] = true
		case *ast.UnaryExpr:
			if n.Op == token.AND {
				written[n.X] = true
			}
		case *ast.RangeStmt:
			if n.Tok == token.ASSIGN {
				if n.Key != nil {
					written[n.Key] = true
				}
				if n.Value != nil {
					written[n.Value] = true
				}
			}
		}
		return true
	})
	ast.Inspect(f, func(n ast.Node) bool {
		switch n := n.(type) {
		case *ast.IndexExpr:
			if id, ok := n.X.(*ast.Ident); ok && !written[n] {
				allowed[id] = true
			}
		case *ast.CallExpr:
			if fid, ok := n.Fun.(*ast.Ident); ok && fid.Name == "len" && len(n.Args) == 1 {
				if id, ok := n.Args[0].(*ast.Ident); ok {
					allowed[id] = true
				}
			}
		case *ast.RangeStmt:
			if id, ok := n.X.(*ast.Ident); ok {
				allowed[id] = true
			}
		}
		return true
	})
	ast.Inspect(f, func(n ast.Node) bool {
		if id, ok := n.(*ast.Ident); ok && c.p.info.Uses[id] == v && !allowed[id] {
			panic(transErr{c.p.fset.Position(id.Pos()), fmt.Sprintf("package-level table `%s` is used here other than by reading an element; it may be modified at run time, so its initialiser cannot be taken as its value", name)})
		}
		return true
	})
}

// ---------------------------------------------------------------------------
// statements

// assigned returns the variables declared before `from` (parameters included) that the statements assign
func (c *ctx) assigned(stmts []ast.Stmt, from token.Pos) []types.Object {
	var out []types.Object
	seen := map[types.Object]bool{}
	add := func(e ast.Expr) {
		id, ok := e.(*ast.Ident)
		if !ok {
			return // rejected when the statement is translated
		}
		o := c.obj(id)
		if o == nil || !c.isLocal(o) || o.Pos() >= from || seen[o] {
			return
		}
		seen[o] = true
		out = append(out, o)
	}
	for _, s := range stmts {
		ast.Inspect(s, func(n ast.Node) bool {
			switch n := n.(type) {
			case *ast.AssignStmt:
				if n.Tok != token.DEFINE {
					for _, l := range n.Lhs {
						add(l)
					}
				}
			case *ast.IncDecStmt:
				add(n.X)
			case *ast.RangeStmt:
				if n.Tok == token.ASSIGN {
					if n.Key != nil {
						add(n.Key)
					}
					if n.Value != nil {
						add(n.Value)
					}
				}
			}
			return true
		})
	}
	return out
}

func tuple(objs []types.Object) string {
	if len(objs) == 1 {
		return coqName(objs[0].Name())
	}
	var n []string
	for _, o := range objs {
		n = append(n, coqName(o.Name()))
	}
	return "(" + strings.Join(n, ", ") + ")"
}

func pat(objs []types.Object) string {
	if len(objs) == 1 {
		return coqName(objs[0].Name())
	}
	return "'" + tuple(objs)
}

func (c *ctx) emit(ind, format string, a ...interface{}) {
	c.sb.WriteString(ind)
	fmt.Fprintf(&c.sb, format, a...)
	c.sb.WriteString("\n")
}

func (c *ctx) comment(ind string, n ast.Node) {
	c.emit(ind, "(* L%d: %s *)", c.line(n), c.firstLine(n))
}

// mentions reports whether expression e mentions one of the objects
func (c *ctx) mentions(e ast.Node, objs []types.Object) bool {
	found := false
	ast.Inspect(e, func(n ast.Node) bool {
		if id, ok := n.(*ast.Ident); ok {
			o := c.obj(id)
			for _, x := range objs {
				if o == x {
					found = true
				}
			}
		}
		return true
	})
	return found
}

// block translates a statement list.  When tail != "" the statements must not return and the emitted
// term ends with tail (the tuple of state variables); when tail == "" the last statement must be the
// function's single `return e`.
func (c *ctx) block(stmts []ast.Stmt, ind string, tail string) {
	for i, s := range stmts {
		if r, ok := s.(*ast.ReturnStmt); ok {
			if tail != "" {
				c.fail(r, "return inside if/for/switch (only a final `return e` of the function is supported)")
			}
			if i != len(stmts)-1 {
				c.fail(r, "return followed by further statements")
			}
			if len(r.Results) != 1 {
				c.fail(r, "return with %d results (exactly one is supported)", len(r.Results))
			}
			c.comment(ind, r)
			c.emit(ind, "%s", c.expr(r.Results[0]))
			return
		}
		c.stmt(s, ind)
	}
	if tail == "" {
		if len(stmts) == 0 {
			c.fail(c.fn, "function body without a final return")
		}
		c.fail(stmts[len(stmts)-1], "function body does not end with `return e`")
	}
	c.emit(ind, "%s", tail)
}

func (c *ctx) lhsVar(e ast.Expr) (string, types.Type) {
	id, ok := e.(*ast.Ident)
	if !ok {
		c.fail(e, "assignment to `%s` (only assignment to a local integer variable is supported)", c.srcText(e.Pos(), e.End()))
	}
	if id.Name == "_" {
		c.fail(e, "assignment to the blank identifier")
	}
	o := c.obj(id)
	if o == nil || !c.isLocal(o) {
		c.fail(e, "assignment to non-local `%s`", id.Name)
	}
	if k := c.kindOf(o.Type(), id); k.class == kBool {
		// booleans are fine as locals too
		_ = k
	}
	return coqName(id.Name), o.Type()
}

func (c *ctx) stmt(s ast.Stmt, ind string) {
	switch s := s.(type) {
	case *ast.AssignStmt:
		if len(s.Lhs) != 1 || len(s.Rhs) != 1 {
			c.fail(s, "assignment with %d left-hand sides (exactly one is supported)", len(s.Lhs))
		}
		c.comment(ind, s)
		name, t := c.lhsVar(s.Lhs[0])
		switch s.Tok {
		case token.DEFINE, token.ASSIGN:
			c.emit(ind, "let %s := %s in", name, c.expr(s.Rhs[0]))
		default:
			op, ok := assignOps[s.Tok]
			if !ok {
				c.fail(s, "unsupported assignment operator %s", s.Tok)
			}
			c.emit(ind, "let %s := %s in", name, c.binary(s, op, s.Lhs[0], s.Rhs[0], t))
		}
	case *ast.IncDecStmt:
		c.comment(ind, s)
		name, t := c.lhsVar(s.X)
		k := c.kindOf(t, s.X)
		switch {
		case k.class == kBool:
			c.fail(s, "++/-- on a boolean")
		case s.Tok == token.INC && k.class == kInt:
			c.note(s, "`%s`: int increment assumed not to exceed 2^63-1", c.srcText(s.Pos(), s.End()))
			c.emit(ind, "let %s := (%s + 1) in", name, name)
		case s.Tok == token.INC:
			c.emit(ind, "let %s := ((%s + 1) %s) in", name, name, mod2(k.w))
		case k.class == kInt:
			c.note(s, "`%s`: int decrement assumed to have a non-negative result", c.srcText(s.Pos(), s.End()))
			c.emit(ind, "let %s := (%s - 1) in", name, name)
		default:
			c.emit(ind, "let %s := ((%s + 2^%d - 1) %s) in", name, name, k.w, mod2(k.w))
		}
	case *ast.DeclStmt:
		gd, ok := s.Decl.(*ast.GenDecl)
		if !ok || gd.Tok != token.VAR {
			c.fail(s, "unsupported declaration (only `var x T` / `var x T = e`)")
		}
		for _, sp := range gd.Specs {
			vs := sp.(*ast.ValueSpec)
			if len(vs.Names) != 1 || len(vs.Values) > 1 {
				c.fail(vs, "var declaration of several variables")
			}
			c.comment(ind, vs)
			name, t := c.lhsVar(vs.Names[0])
			if len(vs.Values) == 1 {
				c.emit(ind, "let %s := %s in", name, c.expr(vs.Values[0]))
			} else if c.kindOf(t, vs).class == kBool {
				c.emit(ind, "let %s := false in", name)
			} else {
				c.emit(ind, "let %s := 0 in", name)
			}
		}
	case *ast.IfStmt:
		c.ifStmt(s, ind)
	case *ast.RangeStmt:
		c.rangeStmt(s, ind)
	case *ast.ForStmt:
		c.forStmt(s, ind)
	case *ast.SwitchStmt:
		c.switchStmt(s, ind)
	case *ast.BranchStmt:
		c.fail(s, "%s statement (loops are translated to folds: no break/continue/goto; fallthrough only as the last statement of a switch clause)", s.Tok)
	case *ast.BlockStmt:
		c.fail(s, "nested block statement")
	case *ast.EmptyStmt:
	case *ast.ExprStmt:
		c.fail(s, "expression statement `%s` (calls with effects are outside the subset)", c.srcText(s.Pos(), s.End()))
	default:
		c.fail(s, "unsupported statement %s `%s`", nodeName(s), c.firstLine(s))
	}
}

var assignOps = map[token.Token]token.Token{
	token.ADD_ASSIGN: token.ADD, token.SUB_ASSIGN: token.SUB, token.MUL_ASSIGN: token.MUL,
	token.QUO_ASSIGN: token.QUO, token.REM_ASSIGN: token.REM, token.AND_ASSIGN: token.AND,
	token.OR_ASSIGN: token.OR, token.XOR_ASSIGN: token.XOR, token.SHL_ASSIGN: token.SHL,
	token.SHR_ASSIGN: token.SHR, token.AND_NOT_ASSIGN: token.AND_NOT,
}

func elseStmts(e ast.Stmt) []ast.Stmt {
	switch e := e.(type) {
	case nil:
		return nil
	case *ast.BlockStmt:
		return e.List
	default:
		return []ast.Stmt{e}
	}
}

// noEffect reports a statement whose body assigns nothing visible outside it.  The bodies are translated
// first (output discarded) so that a more specific rejection (break, return, call ...) is reported if any.
func (c *ctx) noEffect(s ast.Stmt, what string, bodies ...[]ast.Stmt) {
	saved := c.sb.String()
	for _, b := range bodies {
		c.block(b, "", "tt")
	}
	c.sb.Reset()
	c.sb.WriteString(saved)
	c.fail(s, "%s that assigns no variable declared outside it (it has no effect in the supported subset)", what)
}

func (c *ctx) ifStmt(s *ast.IfStmt, ind string) {
	if s.Init != nil {
		c.fail(s, "if with an init statement")
	}
	all := append(append([]ast.Stmt{}, s.Body.List...), elseStmts(s.Else)...)
	st := c.assigned(all, s.Pos())
	c.comment(ind, s)
	if len(st) == 0 {
		c.noEffect(s, "if statement", s.Body.List, elseStmts(s.Else))
	}
	c.emit(ind, "let %s :=", pat(st))
	c.emit(ind, "  if %s then", c.boolExpr(s.Cond))
	c.block(s.Body.List, ind+"    ", tuple(st))
	c.emit(ind, "  else")
	if s.Else != nil {
		c.emit(ind+"    ", "(* L%d: else *)", c.line(s.Else))
	}
	c.block(elseStmts(s.Else), ind+"    ", tuple(st))
	c.emit(ind, "in")
}

func (c *ctx) switchStmt(s *ast.SwitchStmt, ind string) {
	if s.Init != nil {
		c.fail(s, "switch with an init statement")
	}
	if s.Tag == nil {
		c.fail(s, "switch without a tag")
	}
	if k := c.kindOf(c.typeOf(s.Tag), s.Tag); k.class == kBool {
		c.fail(s, "switch on a boolean")
	}
	var clauses []*ast.CaseClause
	var all []ast.Stmt
	def := -1
	for i, cl := range s.Body.List {
		cc := cl.(*ast.CaseClause)
		clauses = append(clauses, cc)
		all = append(all, cc.Body...)
		if cc.List == nil {
			def = i
		}
		for _, e := range cc.List {
			if _, ok := c.constInt(e); !ok {
				c.fail(e, "non-constant case expression")
			}
		}
	}
	st := c.assigned(all, s.Pos())
	c.comment(ind, s)
	if len(st) == 0 {
		c.noEffect(s, "switch statement", all)
	}
	// body of clause i with fallthrough chains expanded
	var body func(i int, depth int) []ast.Stmt
	body = func(i int, depth int) []ast.Stmt {
		if depth > len(clauses) {
			c.fail(s, "fallthrough cycle")
		}
		b := clauses[i].Body
		if n := len(b); n > 0 {
			if br, ok := b[n-1].(*ast.BranchStmt); ok && br.Tok == token.FALLTHROUGH {
				if i+1 >= len(clauses) {
					c.fail(br, "fallthrough in the last clause")
				}
				return append(append([]ast.Stmt{}, b[:n-1]...), body(i+1, depth+1)...)
			}
		}
		return b
	}
	c.emit(ind, "let %s :=", pat(st))
	c.emit(ind, "  let sw_tag := %s in", c.expr(s.Tag))
	in2 := ind + "  "
	for i, cc := range clauses {
		if cc.List == nil {
			continue
		}
		var conds []string
		for _, e := range cc.List {
			v, _ := c.constOf(e)
			conds = append(conds, fmt.Sprintf("(sw_tag =? %s)", v))
		}
		cond := conds[0]
		for _, x := range conds[1:] {
			cond = fmt.Sprintf("(orb %s %s)", cond, x)
		}
		c.emit(in2, "(* L%d: %s   [fallthrough chains are expanded] *)", c.line(cc), c.firstLine(cc))
		c.emit(in2, "if %s then", cond)
		c.block(body(i, 0), in2+"  ", tuple(st))
		c.emit(in2, "else")
	}
	if def >= 0 {
		c.emit(in2, "(* L%d: default *)", c.line(clauses[def]))
		c.block(body(def, 0), in2+"  ", tuple(st))
	} else {
		c.emit(in2+"  ", "%s", tuple(st))
	}
	c.emit(ind, "in")
}

func (c *ctx) rangeStmt(s *ast.RangeStmt, ind string) {
	if s.Tok != token.DEFINE {
		c.fail(s, "range loop that does not declare its variables with :=")
	}
	if k, ok := s.Key.(*ast.Ident); !ok || k.Name != "_" {
		c.fail(s, "range loop with an index variable (only `for _, d := range v`)")
	}
	val, ok := s.Value.(*ast.Ident)
	if !ok || val.Name == "_" {
		c.fail(s, "range loop without an element variable (only `for _, d := range v`)")
	}
	x, ok := s.X.(*ast.Ident)
	if !ok || !c.isSliceParam(x) {
		c.fail(s, "range over `%s`, which is not a slice parameter", c.srcText(s.X.Pos(), s.X.End()))
	}
	c.elemKind(x)
	st := c.assigned(s.Body.List, s.Pos())
	c.comment(ind, s)
	if len(st) == 0 {
		c.noEffect(s, "loop", s.Body.List)
	}
	if c.mentions(s.X, st) {
		c.fail(s, "loop body assigns the slice being ranged over")
	}
	c.emit(ind, "let %s :=", pat(st))
	c.emit(ind, "  List.fold_left (fun %s %s =>", pat(st), coqName(val.Name))
	c.block(s.Body.List, ind+"    ", tuple(st))
	c.emit(ind, "  ) %s %s in", coqName(x.Name), tuple(st))
}

func (c *ctx) forStmt(s *ast.ForStmt, ind string) {
	bad := func() {
		c.fail(s, "unsupported for loop `%s` (only `for i := c; i < e; i++` with a constant start, a loop-invariant bound and a body that does not assign i, and `for _, d := range v`)", c.firstLine(s))
	}
	init, ok := s.Init.(*ast.AssignStmt)
	if !ok || init.Tok != token.DEFINE || len(init.Lhs) != 1 || len(init.Rhs) != 1 {
		bad()
	}
	iv, ok := init.Lhs[0].(*ast.Ident)
	if !ok || iv.Name == "_" {
		bad()
	}
	start, ok := c.constInt(init.Rhs[0])
	if !ok || start < 0 || start > 4096 {
		bad()
	}
	io := c.p.info.Defs[iv]
	ik := c.kindOf(io.Type(), iv)
	if ik.class == kBool {
		bad()
	}
	cond, ok := s.Cond.(*ast.BinaryExpr)
	if !ok || cond.Op != token.LSS {
		bad()
	}
	if ci, ok := cond.X.(*ast.Ident); !ok || c.obj(ci) != io {
		bad()
	}
	post, ok := s.Post.(*ast.IncDecStmt)
	if !ok || post.Tok != token.INC {
		bad()
	}
	if pi, ok := post.X.(*ast.Ident); !ok || c.obj(pi) != io {
		bad()
	}
	// the body must not assign i; the bound must not depend on what the body assigns
	st := c.assigned(s.Body.List, s.Pos())
	inner := c.assigned(s.Body.List, s.Body.Pos())
	for _, o := range inner {
		if o == io {
			c.fail(s, "loop body assigns the loop variable `%s`", iv.Name)
		}
	}
	if c.mentions(cond.Y, append(append([]types.Object{}, st...), io)) {
		c.fail(s, "loop bound `%s` depends on a variable assigned in the loop", c.srcText(cond.Y.Pos(), cond.Y.End()))
	}
	c.comment(ind, s)
	if len(st) == 0 {
		c.noEffect(s, "loop", s.Body.List)
	}
	var count string
	if k, isConst := c.constInt(cond.Y); isConst {
		n := k - start
		if n < 0 {
			n = 0
		}
		if n > 4096 {
			count = fmt.Sprintf("(N.to_nat %d)", n)
		} else {
			count = fmt.Sprintf("%d%%nat", n)
		}
		c.safeIdx[io] = k
	} else {
		bk := c.kindOf(c.typeOf(cond.Y), cond.Y)
		if bk.class == kBool {
			bad()
		}
		if start == 0 {
			count = fmt.Sprintf("(N.to_nat %s)", c.expr(cond.Y))
		} else {
			count = fmt.Sprintf("(N.to_nat (%s - %d))", c.expr(cond.Y), start)
		}
	}
	nat := iv.Name + "_nat"
	c.emit(ind, "let %s :=", pat(st))
	c.emit(ind, "  List.fold_left (fun %s %s =>", pat(st), nat)
	c.emit(ind+"    ", "let %s := N.of_nat %s in", coqName(iv.Name), nat)
	c.block(s.Body.List, ind+"    ", tuple(st))
	c.emit(ind, "  ) (List.seq %d%%nat %s) %s in", start, count, tuple(st))
	delete(c.safeIdx, io)
}

// ---------------------------------------------------------------------------
// a whole function

func (c *ctx) checkNames() {
	// reject a declaration that shadows another variable of the function or a package-level object:
	// the translation identifies variables by name
	seen := map[string]bool{}
	ast.Inspect(c.fn, func(n ast.Node) bool {
		id, ok := n.(*ast.Ident)
		if !ok {
			return true
		}
		o := c.p.info.Defs[id]
		v, isVar := o.(*types.Var)
		if !isVar || id.Name == "_" {
			return true
		}
		if c.errShadowOK && isErrorType(v.Type()) {
			return true
		}
		if v.Parent() != nil && v.Parent().Parent() != nil {
			if _, other := v.Parent().Parent().LookupParent(id.Name, id.Pos()); other != nil && other.Pkg() != nil {
				c.fail(id, "declaration of `%s` shadows another declaration at %s (unsupported: variables are identified by name)", id.Name, c.p.fset.Position(other.Pos()))
			}
		}
		seen[id.Name] = true
		return true
	})
	for n := range seen {
		if seen[coqName(n)] && coqName(n) != n {
			c.fail(c.fn, "variable names `%s` and `%s` collide after renaming", n, coqName(n))
		}
	}
}

func (c *ctx) localNames() []string {
	var out []string
	ast.Inspect(c.fn, func(n ast.Node) bool {
		if id, ok := n.(*ast.Ident); ok {
			if _, isVar := c.p.info.Defs[id].(*types.Var); isVar {
				out = append(out, coqName(id.Name))
			}
		}
		return true
	})
	return out
}

func (c *ctx) translate() (out string, err error) {
	defer func() {
		if r := recover(); r != nil {
			if te, ok := r.(transErr); ok {
				err = te
				return
			}
			panic(r)
		}
	}()
	fn := c.fn
	c.checkLocalNames5()
	if fn.Type.TypeParams != nil {
		c.fail(fn, "generic function")
	}
	c.checkNames()
	var params, pre []string
	for _, f := range fn.Type.Params.List {
		if len(f.Names) == 0 {
			c.fail(f, "unnamed parameter")
		}
		for _, n := range f.Names {
			if n.Name == "_" {
				c.fail(n, "blank parameter")
			}
			t := c.p.info.Defs[n].Type()
			if sl, ok := t.Underlying().(*types.Slice); ok {
				k := c.kindOf(sl.Elem(), n)
				if k.class == kBool {
					c.fail(n, "slice of booleans")
				}
				params = append(params, fmt.Sprintf("(%s : list N)", coqName(n.Name)))
				if k.class == kInt {
					pre = append(pre, fmt.Sprintf("every element of %s is a non-negative int (< 2^63)", n.Name))
				} else {
					pre = append(pre, fmt.Sprintf("every element of %s < 2^%d, length of %s < 2^63", n.Name, k.w, n.Name))
				}
				continue
			}
			k := c.kindOf(t, n)
			switch k.class {
			case kBool:
				params = append(params, fmt.Sprintf("(%s : bool)", coqName(n.Name)))
			case kInt:
				params = append(params, fmt.Sprintf("(%s : N)", coqName(n.Name)))
				pre = append(pre, fmt.Sprintf("%s is a non-negative int (< 2^63)", n.Name))
			default:
				params = append(params, fmt.Sprintf("(%s : N)", coqName(n.Name)))
				pre = append(pre, fmt.Sprintf("%s < 2^%d", n.Name, k.w))
			}
		}
	}
	if fn.Type.Results == nil || len(fn.Type.Results.List) != 1 || len(fn.Type.Results.List[0].Names) > 1 {
		c.fail(fn, "function must have exactly one result")
	}
	rf := fn.Type.Results.List[0]
	if len(rf.Names) == 1 {
		c.fail(rf, "named result")
	}
	rk := c.kindOf(c.p.info.Types[rf.Type].Type, rf.Type)
	rt := "N"
	if rk.class == kBool {
		rt = "bool"
	}
	c.block(fn.Body.List, "  ", "")
	// a type error inside the function (outside an intrinsic call) means go/types could not vouch for the types used
	for _, te := range c.p.typeErr {
		if te.Pos < fn.Pos() || te.Pos >= fn.End() {
			continue
		}
		ok := false
		for _, n := range c.okErr {
			if te.Pos >= n.Pos() && te.Pos < n.End() {
				ok = true
			}
		}
		if !ok {
			c.fail(fn, "type error inside the function: %s", te.Error())
		}
	}
	var sb strings.Builder
	pos := c.p.fset.Position(fn.Pos())
	rel := pos.Filename
	fmt.Fprintf(&sb, "(* ---- %s:%d   %s ----\n", filepath.Base(rel), pos.Line, c.srcText(fn.Pos(), fn.Body.Lbrace))
	if len(pre) > 0 {
		fmt.Fprintf(&sb, "   Range of the parameters (Go type invariants; the tie theorems assume what they need of them):\n")
		for _, p := range pre {
			fmt.Fprintf(&sb, "     - %s\n", p)
		}
	}
	if len(c.notes) > 0 {
		fmt.Fprintf(&sb, "   Assumed by the translation, NOT modelled (a Go run-time panic, or int leaving [0, 2^63)):\n")
		for _, n := range c.notes {
			fmt.Fprintf(&sb, "     - %s\n", n)
		}
		hasInt := false
		for _, n := range c.notes {
			if strings.Contains(n, " int ") {
				hasInt = true
			}
		}
		if hasInt {
			fmt.Fprintf(&sb, "     - every int-typed value is assumed non-negative (int is 64-bit; it is not wrapped)\n")
		}
	} else {
		fmt.Fprintf(&sb, "   No unmodelled assumption: every operation of this function is on an unsigned type and is wrapped.\n")
	}
	fmt.Fprintf(&sb, "*)\n")
	fmt.Fprintf(&sb, "Definition %s %s : %s :=\n", coqName(fn.Name.Name), strings.Join(params, " "), rt)
	body := strings.TrimRight(c.sb.String(), "\n")
	sb.WriteString(body)
	sb.WriteString(".\n")
	return sb.String(), nil
}

// ---------------------------------------------------------------------------

const header = `(* GENERATED by harness/cmd/gotrans from the Go sources; do not edit.

   Gallina transliteration of the integer kernels, statement by statement.
   Values are N.  After every +, -, *, << on an unsigned type of width w the wrap
   "mod 2^w" is written out (a - b is (a + 2^w - b) mod 2^w); a conversion T(e)
   to an unsigned type is "e mod 2^w"; >>, &, |, ^, &^, /, %% need no wrap.
   int is NOT wrapped: the places where it must stay inside [0, 2^63) are listed
   in the comment in front of each function.  A loop is a fold_left over the
   slice (range) or over List.seq (counted loop) whose state is the tuple of the
   variables the body assigns; an if / switch yields the tuple of the variables its
   branches assign.  "L<n>:" comments quote the Go source line translated.
   Tie/KernelsTie*.v prove these functions equal to the hand-written models. *)
From Coq Require Import List NArith Bool.
Import ListNotations.
Local Open Scope N_scope.

`

const le32Def = `(* encoding/binary: LittleEndian.Uint32(s[off:]) =
   uint32(b[0]) | uint32(b[1])<<8 | uint32(b[2])<<16 | uint32(b[3])<<24   (intrinsic, trusted) *)
Definition le_uint32 (s : list N) (off : N) : N :=
  let b (i : nat) := (List.nth (N.to_nat off + i) s 0) mod 2^32 in
  N.lor (N.lor (N.lor (b 0%nat) ((N.shiftl (b 1%nat) 8) mod 2^32)) ((N.shiftl (b 2%nat) 16) mod 2^32))
        ((N.shiftl (b 3%nat) 24) mod 2^32).

`

func main() {
	repo := flag.String("repo", "/repo", "repository root")
	out := flag.String("out", "/verif/coq/theories/Gen/Kernels.v", "output file")
	funcs := flag.String("funcs", "", "for the self-test only: comma-separated dir:func list replacing the built-in kernel list")
	no2 := flag.Bool("no2", false, "do not write Kernels2.v (monadic mode)")
	no3 := flag.Bool("no3", false, "do not write Kernels3.v (third mode)")
	no4 := flag.Bool("no4", false, "do not write Kernels4.v (fourth mode)")
	flag.Parse()
	if *funcs != "" {
		kernels = nil
		for _, f := range strings.Split(*funcs, ",") {
			i := strings.LastIndex(f, ":")
			if i < 0 {
				fmt.Fprintln(os.Stderr, "gotrans: -funcs wants dir:func[,dir:func...]")
				os.Exit(2)
			}
			kernels = append(kernels, kernelSpec{f[:i], f[i+1:]})
		}
	}

	tables := &tableSet{defs: map[string]string{}, lens: map[string]int{}}
	intrins := map[string]bool{}
	pkgs := map[string]*pkgInfo{}
	var defs []string
	var errs []string
	var locals []string
	for _, k := range kernels {
		p := pkgs[k.pkg]
		if p == nil {
			var err error
			p, err = loadPkg(filepath.Join(*repo, k.pkg))
			if err != nil {
				errs = append(errs, fmt.Sprintf("%s.%s: %v", k.pkg, k.fn, err))
				continue
			}
			pkgs[k.pkg] = p
		}
		fn := p.findFunc(k.fn)
		if fn == nil {
			errs = append(errs, fmt.Sprintf("%s: function %s not found in package %s", filepath.Join(*repo, k.pkg), k.fn, p.name))
			continue
		}
		c := &ctx{p: p, fn: fn, tables: tables, safeIdx: map[types.Object]int64{}, intrins: intrins}
		s, err := c.translate()
		if err != nil {
			errs = append(errs, fmt.Sprintf("%s: outside the supported subset: %v", k.fn, err))
			continue
		}
		defs = append(defs, s)
		locals = append(locals, c.localNames()...)
	}
	// a local variable must not capture one of the global names the generated file defines
	globals := map[string]bool{"le_uint32": true}
	for _, k := range kernels {
		globals[coqName(k.fn)] = true
	}
	for _, n := range tables.order {
		globals[n] = true
	}
	for _, l := range locals {
		if globals[l] {
			errs = append(errs, fmt.Sprintf("local variable `%s` has the name of a definition of the generated file", l))
		}
	}
	if len(errs) > 0 {
		for _, e := range errs {
			fmt.Fprintln(os.Stderr, "gotrans:", e)
		}
		fmt.Fprintf(os.Stderr, "gotrans: %d kernel(s) could not be translated; %s left untouched (the tie to the source is BROKEN)\n", len(errs), *out)
		os.Exit(1)
	}
	out2 := filepath.Join(filepath.Dir(*out), "Kernels2.v")
	text2, errs2 := "", []string(nil)
	if *funcs == "" && !*no2 {
		text2, errs2 = buildKernels2(*repo, kernels2)
	}
	if len(errs2) > 0 {
		for _, e := range errs2 {
			fmt.Fprintln(os.Stderr, "gotrans:", e)
		}
		fmt.Fprintf(os.Stderr, "gotrans: %d function(s) could not be translated; %s and %s left untouched (the tie to the source is BROKEN)\n", len(errs2), *out, out2)
		os.Exit(1)
	}
	out3 := filepath.Join(filepath.Dir(*out), "Kernels3.v")
	text3, errs3 := "", []string(nil)
	if *funcs == "" && !*no2 && !*no3 {
		text3, errs3 = buildKernels3(*repo, kernels3)
	}
	if len(errs3) > 0 {
		for _, e := range errs3 {
			fmt.Fprintln(os.Stderr, "gotrans:", e)
		}
		fmt.Fprintf(os.Stderr, "gotrans: %d function(s) could not be translated; %s, %s and %s left untouched (the tie to the source is BROKEN)\n", len(errs3), *out, out2, out3)
		os.Exit(1)
	}
	out4 := filepath.Join(filepath.Dir(*out), "Kernels4.v")
	text4, errs4 := "", []string(nil)
	if text3 != "" && !*no4 {
		text4, errs4 = buildKernels4(*repo, kernels3, kernels4)
	}
	if len(errs4) > 0 {
		for _, e := range errs4 {
			fmt.Fprintln(os.Stderr, "gotrans:", e)
		}
		fmt.Fprintf(os.Stderr, "gotrans: %d function(s) could not be translated; %s, %s, %s and %s left untouched (the tie to the source is BROKEN)\n", len(errs4), *out, out2, out3, out4)
		os.Exit(1)
	}
	changed := 0
	if text4 != "" {
		old4, _ := os.ReadFile(out4)
		if !bytes.Equal(old4, []byte(text4)) {
			if err := os.WriteFile(out4, []byte(text4), 0o644); err != nil {
				fmt.Fprintln(os.Stderr, "gotrans:", err)
				os.Exit(2)
			}
			fmt.Println("updated", out4)
			changed++
		}
	}
	if text3 != "" {
		old3, _ := os.ReadFile(out3)
		if !bytes.Equal(old3, []byte(text3)) {
			if err := os.WriteFile(out3, []byte(text3), 0o644); err != nil {
				fmt.Fprintln(os.Stderr, "gotrans:", err)
				os.Exit(2)
			}
			fmt.Println("updated", out3)
			changed++
		}
	}
	if text2 != "" {
		old2, _ := os.ReadFile(out2)
		if !bytes.Equal(old2, []byte(text2)) {
			if err := os.WriteFile(out2, []byte(text2), 0o644); err != nil {
				fmt.Fprintln(os.Stderr, "gotrans:", err)
				os.Exit(2)
			}
			fmt.Println("updated", out2)
			changed++
		}
	}
	var sb strings.Builder
	sb.WriteString(strings.ReplaceAll(header, "%%", "%"))
	if intrins["le_uint32"] {
		sb.WriteString(le32Def)
	}
	for _, n := range tables.order {
		sb.WriteString(tables.defs[n])
		sb.WriteString("\n")
	}
	sb.WriteString(strings.Join(defs, "\n"))
	old, _ := os.ReadFile(*out)
	if bytes.Equal(old, []byte(sb.String())) {
		fmt.Printf("gotrans: %d file(s) changed\n", changed)
		return
	}
	if err := os.WriteFile(*out, []byte(sb.String()), 0o644); err != nil {
		fmt.Fprintln(os.Stderr, "gotrans:", err)
		os.Exit(2)
	}
	fmt.Println("updated", *out)
	fmt.Printf("gotrans: %d file(s) changed\n", changed+1)
}

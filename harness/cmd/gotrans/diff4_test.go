package main

// Differential self-test of the third mode on ./selftest/kernels3.go: records, pointer receivers that write,
// option pointers and nil dereference, named results, errors as values (package-level errors, fresh errors,
// errors passed on, values returned next to an error), maps (nil map, comma-ok, delete, len, range),
// recursion with fuel, general for loops with continue, labelled continue, switch without tag / with init /
// fallthrough, inlined function literals, shadowing, a range loop writing its slice, a function writing its
// slice parameter, sort.Slice, an interface as a sum type with dynamic dispatch, struct conversions.
// Every Go result (panics included) is compared with the Gallina translation evaluated by coqc.

import (
	"fmt"
	"math/rand"
	"os"
	"os/exec"
	"path/filepath"
	"regexp"
	"strings"
	"testing"

	"verif/harness/cmd/gotrans/selftest"
)

func panicKind3(r interface{}) int {
	s := fmt.Sprint(r)
	switch {
	case strings.Contains(s, "nil map"), strings.Contains(s, "nil pointer"):
		return 5
	}
	return panicKind(r)
}

func guarded3(f func() string) (out string) {
	defer func() {
		if r := recover(); r != nil {
			out = fmt.Sprintf("(Panic %d)", panicKind3(r))
		}
	}()
	return f()
}

var selftest3 = []string{"Acc.Push", "Acc.Total", "NewAcc", "Classify", "Sum3", "MakeAcc", "MakeAcc2", "Deref", "Acc.Walk", "RunWalk",
	"Loops3", "Sw3", "Twice", "Upper", "Fill", "UseFill", "SortSum", "Circle.Area", "Rect.Area", "Pick", "AreaOf", "Cfg.Span", "Span2"}

func specs3() []k3spec {
	var specs []k3spec
	for _, f := range selftest3 {
		recv, fn := "", f
		if i := strings.Index(f, "."); i >= 0 {
			recv, fn = f[:i], f[i+1:]
		}
		specs = append(specs, k3spec{pkg: "selftest", recv: recv, fn: fn, name: strings.ReplaceAll(f, ".", "_")})
	}
	return specs
}

func TestDifferential4(t *testing.T) {
	coqc, err := exec.LookPath("coqc")
	if err != nil {
		t.Skip("coqc not on PATH")
	}
	theories := "/verif/coq/theories"
	if _, err := os.Stat(filepath.Join(theories, "Gen", "Kernels2.vo")); err != nil {
		t.Skip("compiled theories not found")
	}
	src, errs := buildKernels3(".", specs3())
	if len(errs) > 0 {
		t.Fatalf("selftest functions rejected: %v", errs)
	}
	rng := rand.New(rand.NewSource(11))
	var calls []string
	add := func(lhs, rhs string) { calls = append(calls, fmt.Sprintf("eqz (%s) %s", lhs, rhs)) }
	nl := func(v []uint32) string {
		var s []string
		for _, x := range v {
			s = append(s, fmt.Sprint(x))
		}
		return "[" + strings.Join(s, ";") + "]"
	}
	zl := func(v ...int64) string {
		var s []string
		for _, x := range v {
			s = append(s, fmt.Sprintf("(%d)%%Z", x))
		}
		return "(Ok [" + strings.Join(s, ";") + "])"
	}
	bz := func(b []byte) []int64 {
		var o []int64
		for _, x := range b {
			o = append(o, int64(x))
		}
		return o
	}
	// error values: package-level errors are the constants of the generated file, fresh errors their site
	code := func(err error, fresh int64) string {
		switch err {
		case nil:
			return "0"
		case selftest.ErrOdd:
			return "Kernels3.selftest_ErrOdd"
		case selftest.ErrBig:
			return "Kernels3.selftest_ErrBig"
		}
		return fmt.Sprint(fresh)
	}
	okl := func(parts ...string) string { return "(Ok [" + strings.Join(parts, ";") + "])" }
	zn := func(v uint64) string { return fmt.Sprintf("(%d)%%Z", v) }
	zi := func(v int64) string { return fmt.Sprintf("(%d)%%Z", v) }
	ze := func(c string) string { return "(Z.of_N " + c + ")" }
	for i := 0; i < 120; i++ {
		x := uint32(rng.Intn(60))
		if rng.Intn(4) == 0 {
			x = []uint32{42, 1001, 2000, 1000, 0}[rng.Intn(5)]
		}
		add(fmt.Sprintf("lift (fun '(q, r, e) => [Z.of_N q; Z.of_N r; Z.of_N e]) (Ok (Kernels3.Classify %d))", x), guarded3(func() string {
			q, r, err := selftest.Classify(x)
			return okl(zn(uint64(q)), zn(uint64(r)), ze(code(err, 3)))
		}))
		xs := make([]uint32, rng.Intn(6))
		for j := range xs {
			xs[j] = uint32(rng.Intn(50))
			if rng.Intn(9) == 0 {
				xs[j] = []uint32{42, 1002}[rng.Intn(2)]
			}
		}
		add(fmt.Sprintf("lift (fun '(s, n, e) => [Z.of_N s; n; Z.of_N e]) (Kernels3.Sum3 %s)", nl(xs)), guarded3(func() string {
			s, n, err := selftest.Sum3(xs)
			return okl(zn(uint64(s)), zi(int64(n)), ze(code(err, 1)))
		}))
		add(fmt.Sprintf("lift (fun '(s, e) => [Z.of_N s; Z.of_N e]) (Kernels3.MakeAcc2 %s %d)", nl(xs), x), guarded3(func() string {
			s, err := selftest.MakeAcc2(xs, x)
			return okl(zn(uint64(s)), ze(code(err, 1)))
		}))
		// Deref: a box in five shapes
		k := uint32(rng.Intn(4))
		shape := rng.Intn(6)
		var b *selftest.Box
		coqBox := "None"
		mk := func(acc, m, e string) string {
			return fmt.Sprintf("(Some (Kernels3.mk_selftest_Box %s %s %s))", acc, m, e)
		}
		accOf := func(s uint32) string { return fmt.Sprintf("(Some (Kernels3.mk_selftest_Acc %d [] 0%%Z))", s) }
		switch shape {
		case 1:
			b, coqBox = selftest.NewBox(nil, true, nil, 0), mk("None", "None", "0")
		case 2:
			b, coqBox = selftest.NewBox(map[uint32]uint32{1: 10, 2: 20}, false, nil, 5), mk(accOf(5), "(Some [(1, 10); (2, 20)])", "0")
		case 3:
			b, coqBox = selftest.NewBox(map[uint32]uint32{}, true, nil, 0), mk("None", "(Some [])", "0")
		case 4:
			b, coqBox = selftest.NewBox(map[uint32]uint32{3: 9}, false, selftest.ErrBig, 1), mk(accOf(1), "(Some [(3, 9)])", "Kernels3.selftest_ErrBig")
		case 5:
			b, coqBox = selftest.NewBox(nil, false, nil, 2), mk(accOf(2), "None", "0")
		}
		add(fmt.Sprintf("lift (fun '(v, n, e, _) => [Z.of_N v; n; Z.of_N e]) (Kernels3.Deref %s %d)", coqBox, k), guarded3(func() string {
			v, n, err := selftest.Deref(b, k)
			return okl(zn(uint64(v)), zi(int64(n)), ze(code(err, 1)))
		}))
		d := uint32(rng.Intn(5))
		add(fmt.Sprintf("lift (fun '(v, s, n) => [Z.of_N v; Z.of_N s; n]) (Kernels3.RunWalk 40 %d)", d), guarded3(func() string {
			v, s, n := selftest.RunWalk(d)
			return okl(zn(uint64(v)), zn(uint64(s)), zi(int64(n)))
		}))
		if i%20 == 0 {
			// not enough fuel: Panic 9
			add(fmt.Sprintf("lift (fun '(v, s, n) => [Z.of_N v; Z.of_N s; n]) (Kernels3.RunWalk %d %d)", d, d), "(Panic 9)")
		}
		ys := make([]uint32, rng.Intn(7))
		for j := range ys {
			ys[j] = uint32(rng.Intn(5))
		}
		lim := uint32(rng.Intn(12))
		add(fmt.Sprintf("lift (fun '(a, b) => [Z.of_N a; Z.of_N b]) (Kernels3.Loops3 50 %s %d)", nl(ys), lim), guarded3(func() string {
			a, b := selftest.Loops3(ys, lim)
			return okl(zn(uint64(a)), zn(uint64(b)))
		}))
		v := make([]byte, rng.Intn(7))
		for j := range v {
			v[j] = byte(rng.Intn(5))
		}
		a := uint32(rng.Intn(30))
		bl := func(b []byte) string {
			var s []string
			for _, x := range b {
				s = append(s, fmt.Sprint(x))
			}
			return "[" + strings.Join(s, ";") + "]"
		}
		add(fmt.Sprintf("lift (fun '(a, w) => Z.of_N a :: List.map Z.of_N w) (Kernels3.Sw3 %d %s)", a, bl(v)), guarded3(func() string {
			r, w := selftest.Sw3(a, v)
			return zl(append([]int64{int64(r)}, bz(w)...)...)
		}))
		v2 := make([]byte, rng.Intn(4))
		for j := range v2 {
			v2[j] = byte(10 + rng.Intn(5))
		}
		add(fmt.Sprintf("lift (List.map Z.of_N) (Ok (Kernels3.Twice %s %s))", bl(v), bl(v2)), guarded3(func() string { return zl(bz(selftest.Twice(v, v2))...) }))
		s := make([]byte, rng.Intn(8))
		for j := range s {
			s[j] = byte(90 + rng.Intn(40))
		}
		add(fmt.Sprintf("lift (List.map Z.of_N) (Kernels3.Upper %s)", bl(s)), guarded3(func() string { return zl(bz([]byte(selftest.Upper(string(s))))...) }))
		n := rng.Intn(6) - 1
		fv := byte(rng.Intn(256))
		add(fmt.Sprintf("lift (List.map Z.of_N) (Kernels3.UseFill (%d)%%Z %d)", n, fv), guarded3(func() string { return zl(bz(selftest.UseFill(n, fv))...) }))
		ws := make([]uint64, rng.Intn(7))
		var wl []string
		for j := range ws {
			ws[j] = uint64(rng.Intn(9))
			if rng.Intn(6) == 0 {
				ws[j] = rng.Uint64()
			}
			wl = append(wl, fmt.Sprint(ws[j]))
		}
		add(fmt.Sprintf("lift (fun '(w, s) => Z.of_N s :: List.map Z.of_N w) (Kernels3.SortSum isort (fun _ _ l => l) [%s])", strings.Join(wl, ";")), guarded3(func() string {
			w, sum := selftest.SortSum(ws)
			parts := []string{zn(sum)}
			for _, y := range w {
				parts = append(parts, zn(y))
			}
			return okl(parts...)
		}))
		pk, px := uint32(rng.Intn(5)), uint32(rng.Intn(100))
		add(fmt.Sprintf("lift (fun '(v, e) => [Z.of_N v; Z.of_N e]) (Kernels3.AreaOf %d %d)", pk, px), guarded3(func() string {
			v, err := selftest.AreaOf(pk, px)
			return okl(zn(uint64(v)), ze(code(err, 1)))
		}))
		cm, cn := rng.Intn(100)-50, int64(rng.Intn(100)-50)
		if rng.Intn(5) == 0 {
			cn = -9223372036854775808
		}
		add(fmt.Sprintf("lift (fun z => [z]) (Ok (Kernels3.Span2 (Kernels3.mk_selftest_Cfg2 (%d)%%Z (%d)%%Z)))", cm, cn), guarded3(func() string {
			return zl(selftest.Span2(selftest.Cfg2{Max: cm, Min: cn}))
		}))
	}
	dir := t.TempDir()
	os.MkdirAll(filepath.Join(dir, "Gen"), 0o755)
	if err := os.WriteFile(filepath.Join(dir, "Gen", "Kernels3.v"), []byte(src), 0o644); err != nil {
		t.Fatal(err)
	}
	run := func(file string) []byte {
		cmd := exec.Command(coqc, "-q", "-Q", theories, "BU", "-Q", dir, "T4", file)
		cmd.Dir = dir
		out, err := cmd.CombinedOutput()
		if err != nil {
			t.Fatalf("coqc %s failed: %v\n%.4000s", file, err, out)
		}
		return out
	}
	run(filepath.Join(dir, "Gen", "Kernels3.v"))
	var sb strings.Builder
	sb.WriteString(`From BU Require Import Lib.Bytes.
From T4 Require Gen.Kernels3.
Fixpoint zl_eqb (a b : list Z) : bool :=
  match a, b with [], [] => true | x :: a', y :: b' => (x =? y)%Z && zl_eqb a' b' | _, _ => false end.
Definition eqz (a b : res (list Z)) : bool :=
  match a, b with Ok x, Ok y => zl_eqb x y | Err e, Err f => e =? f | Panic k, Panic j => k =? j | _, _ => false end.
Definition lift {A} (f : A -> list Z) (r : res A) : res (list Z) := match r with Ok x => Ok (f x) | Err e => Err e | Panic k => Panic k end.
(* sort.Slice: an insertion sort (stable, like any sort on a total order of distinct keys gives the same list) *)
Fixpoint ins {A} (less : A -> A -> bool) (x : A) (l : list A) : list A :=
  match l with [] => [x] | y :: t => if less y x then y :: ins less x t else x :: l end.
Definition isort (A : Type) (less : A -> A -> bool) (l : list A) : list A := List.fold_left (fun acc x => ins less x acc) l [].
`)
	sb.WriteString("Definition results : list bool := [\n  " + strings.Join(calls, ";\n  ") + "].\n")
	sb.WriteString("Definition R := Eval vm_compute in results.\nSet Printing Width 1000000.\nSet Printing Depth 100000000.\nPrint R.\n")
	file := filepath.Join(dir, "Diff4.v")
	os.WriteFile(file, []byte(sb.String()), 0o644)
	out := run(file)
	m := regexp.MustCompile(`(?s)R\s*=\s*\[(.*?)\]`).FindSubmatch(out)
	if m == nil {
		t.Fatalf("cannot parse coqc output:\n%.2000s", out)
	}
	got := regexp.MustCompile(`true|false`).FindAllString(string(m[1]), -1)
	if len(got) != len(calls) {
		t.Fatalf("coq returned %d values for %d calls", len(got), len(calls))
	}
	bad := 0
	for i := range got {
		if got[i] != "true" {
			bad++
			if bad <= 15 {
				t.Errorf("Go and Gallina differ: %s", calls[i])
			}
		}
	}
	np := 0
	for _, c := range calls {
		if strings.Contains(c, "(Panic ") {
			np++
		}
	}
	t.Logf("%d calls compared (%d expect a panic), %d differ", len(calls), np, bad)
}

// every snippet must be rejected by the third mode, and the message must name the construct
func TestRejected3(t *testing.T) {
	cases := []struct{ body, want string }{
		{"type T struct{ n int }\nfunc F(p *T) int { q := p; q.n = 1; return p.n }", "may also be reachable"},
		{"func F(v []byte) int { x := 0; L: for _, d := range v { if d == 3 { break L }; x++ }; return x }", ""},
		{"func F(a uint32) uint32 { goto L; L: return a }", "label"},
		{"func F(a uint32) uint32 { x := a; defer func() {}(); return x }", "defer"},
		{"func F(a uint32) uint32 { f := func() uint32 { a++; return a }; return f() }", "function literal"},
		{"func F(a float64) uint32 { return uint32(a) }", "unsupported type float64"},
		{"func F(c chan int) int { return <-c }", "unsupported"},
		{"func F(a uint32) uint32 { return G(a) }\nfunc G(a uint32) uint32 { return a }", "not (or could not be) translated"},
		{"func F(v []byte) []byte { w := make([]byte, 2); u := G(w); w[0] = 1; return u }\nfunc G(x []byte) []byte { return x }", "after the slice was passed on"},
		{"func F(v []byte) byte { w := make([]byte, 4); y := w[1:]; y[0] = 1; return w[1] + v[0] }", "shares its array"},
		{"func F(v []byte) int { a := append(v, 1); b := append(v, 2); return len(a) + len(b) }", "appended to after"},
		{"type T struct{ b []byte }\nfunc F(t *T, v []byte) []byte { u := append(t.b, 1); return u }", "not assigned back"},
		{"func F(s string) int { x := 0; for _, r := range s { x += int(r) }; return x }", "range over a string"},
		{"func F(v []byte) bool { return v == nil }", "nil"},
		{"func F(a uint32, v []byte) uint32 { x := a; for _, b := range v { switch b { case 1: if x > 2 { break }; x++ }; x++ }; return x }", "break inside a switch"},
		{"func F(a uint32) uint32 { x := a; { x++ }; return x }", ""},
		{"func F(v []int) int { x := 0; for i := 0; i < len(v); i++ { for { if x > 3 { continue }; x++ } }; return x }", "fuel"},
		{"type T struct{ next *T }\nfunc F(p *T) bool { return p.next == nil }", "recursive struct"},
		{"func F(a interface{}) int { switch a.(type) { case int: return 1 }; return 0 }", "unsupported"},
		{"func F(a uint32) uint32 { go G(a); return a }\nfunc G(a uint32) {}", "unsupported statement"},
		{"func F(a uint32) uint32 { x := &a; *x = 3; return a }", "address of"},
		{"type T struct{ n int }\ntype H struct{ ts []*T }\nfunc (h *H) Get(i int) *T { return h.ts[i] }\nfunc (t *T) Set(v int) { t.n = v }\nfunc F(h *H) int { t := h.Get(0); t.Set(3); return h.ts[0].n }", "may also be reachable"},
		{"type T struct{ n int }\nfunc F(t T) int { p := &t; t.n = 2; return p.n }", "address of"},
		{"import \"sort\"\nfunc F(v []int) { sort.Slice(v, func(i, j int) bool { return v[i]+i < v[j] }) }", "comparison of sort.Slice"},
	}
	for i, cse := range cases {
		dir := t.TempDir()
		src := "package x\n" + cse.body + "\n"
		if strings.HasPrefix(cse.body, "import") {
			src = "package x\n\n" + cse.body + "\n"
		}
		os.MkdirAll(filepath.Join(dir, "x"), 0o755)
		if err := os.WriteFile(filepath.Join(dir, "x", "x.go"), []byte(src), 0o644); err != nil {
			t.Fatal(err)
		}
		specs := []k3spec{{pkg: "x", fn: "F", name: "F"}}
		if strings.Contains(cse.body, "func (h *H) Get") {
			specs = []k3spec{{pkg: "x", recv: "H", fn: "Get", name: "H_Get"}, {pkg: "x", recv: "T", fn: "Set", name: "T_Set"}, {pkg: "x", fn: "F", name: "F"}}
		}
		_, errs := buildKernels3(dir, specs)
		if cse.want == "" {
			if len(errs) != 0 {
				t.Errorf("case %d rejected (%v): %s", i, errs, cse.body)
			}
			continue
		}
		if cse.want == "fuel" {
			// accepted: a loop that may not terminate is bounded by fuel
			if len(errs) != 0 {
				t.Errorf("case %d rejected (%v): %s", i, errs, cse.body)
			}
			continue
		}
		if len(errs) == 0 {
			t.Errorf("case %d accepted: %s", i, cse.body)
			continue
		}
		if !strings.Contains(strings.Join(errs, "\n"), cse.want) {
			t.Errorf("case %d: message %q does not mention %q", i, errs, cse.want)
		}
	}
}

//go:build verif

package main

// Differential test of the monadic mode: the functions of /repo listed in kernels2 are translated, the
// Gallina terms are evaluated by coqc (vm_compute) on generated inputs and compared with what the Go
// functions return (value, or the error return site recognised by its message).
//
//   cd /verif/harness && go test -tags verif ./cmd/gotrans -run TestDifferential2
//   (needs coqc and the compiled Lib/Bytes.vo, Gen/Kernels.vo under /verif/coq/theories)

import (
	"fmt"
	"math/rand"
	"os"
	"os/exec"
	"path/filepath"
	"regexp"
	"strings"
	"testing"

	"github.com/gcash/bchd/wire"
	"github.com/gcash/bchutil"
	"github.com/gcash/bchutil/bech32"
	"github.com/gcash/bchutil/bloom"
	"github.com/gcash/bchutil/hdkeychain"
)

func blist(b []byte) string {
	var s []string
	for _, x := range b {
		s = append(s, fmt.Sprint(x))
	}
	return "[" + strings.Join(s, ";") + "]"
}

func zlist(b []int) string {
	var s []string
	for _, x := range b {
		s = append(s, fmt.Sprintf("(%d)%%Z", x))
	}
	return "[" + strings.Join(s, ";") + "]"
}

// class of a Go error: index (from 1) of the first message prefix it starts with
func errClass(err error, msgs ...string) int {
	for i, m := range msgs {
		if strings.HasPrefix(err.Error(), m) {
			return i + 1
		}
	}
	return 0
}

func resBytes(v []byte, err error, msgs ...string) string {
	if err != nil {
		return fmt.Sprintf("(Err %d)", errClass(err, msgs...))
	}
	return "(Ok " + blist(v) + ")"
}

func resPair(a string, b []byte, err error, msgs ...string) string {
	if err != nil {
		return fmt.Sprintf("(Err %d)", errClass(err, msgs...))
	}
	return "(Ok (" + blist([]byte(a)) + ", " + blist(b) + "))"
}

const eqDefs = `
Definition eq_rl (a b : res (list N)) : bool :=
  match a, b with Ok x, Ok y => list_eqb x y | Err e, Err f => e =? f | _, _ => false end.
Definition eq_rp (a b : res (list N * list N)) : bool :=
  match a, b with Ok (x, u), Ok (y, v) => list_eqb x y && list_eqb u v | Err e, Err f => e =? f | _, _ => false end.
Definition eq_rb (a : res bool) (b : bool) : bool := match a with Ok x => Bool.eqb x b | _ => false end.
Definition eq_rn (a : res N) (b : N) : bool := match a with Ok x => x =? b | _ => false end.
Definition eq_rz (a : res Z) (b : Z) : bool := match a with Ok x => (x =? b)%Z | _ => false end.
Definition eq_rlz (a : res (list Z)) (b : list Z) : bool :=
  match a with Ok x => (List.length x =? List.length b)%nat && forallb (fun p => (fst p =? snd p)%Z) (List.combine x b) | _ => false end.
`

func TestDifferential2(t *testing.T) {
	coqc, err := exec.LookPath("coqc")
	if err != nil {
		t.Skip("coqc not on PATH")
	}
	theories, _ := filepath.Abs("../../../coq/theories")
	if _, err := os.Stat(filepath.Join(theories, "Gen", "Kernels.vo")); err != nil {
		t.Skip("compiled theories not found")
	}
	src, errs := buildKernels2("/repo", kernels2)
	if len(errs) > 0 {
		t.Fatalf("translation failed: %v", errs)
	}
	rng := rand.New(rand.NewSource(20261001))
	var calls []string
	add := func(format string, a ...interface{}) { calls = append(calls, fmt.Sprintf(format, a...)) }
	rbytes := func(n, max int) []byte {
		b := make([]byte, n)
		for i := range b {
			b[i] = byte(rng.Intn(max))
		}
		return b
	}
	bool2 := func(b bool) string {
		if b {
			return "true"
		}
		return "false"
	}
	// ---- address.go ----
	cashMsgs := []string{"addresses cannot have numbers", "the separator must not", "unexpected character", "address must have a prefix",
		"addresses cannot use both", "invalid character", "address data is too short", "checksum mismatch"}
	prefixes := []string{"bitcoincash", "bchtest", "a", "simpleledger", "Bch", ""}
	var addrs []string
	for i := 0; i < 60; i++ {
		p := prefixes[rng.Intn(len(prefixes))]
		payload := rbytes(rng.Intn(50), 32)
		add("eq_rl (expandPrefix %s) (Ok %s)", blist([]byte(p)), blist(bchutil.VerifExpandPrefix(p)))
		add("eq_rl (createChecksum %s %s) (Ok %s)", blist([]byte(p)), blist(payload), blist(bchutil.VerifCreateChecksum(p, payload)))
		full := append(append([]byte{}, payload...), bchutil.VerifCreateChecksum(p, payload)...)
		if rng.Intn(3) == 0 && len(full) > 0 {
			full[rng.Intn(len(full))] ^= byte(1 + rng.Intn(31))
		}
		add("eq_rb (verifyChecksum %s %s) %s", blist([]byte(p)), blist(full), bool2(bchutil.VerifVerifyChecksum(p, full)))
		if p != "" {
			addrs = append(addrs, p+":"+bchutil.VerifEncode(p, payload))
		}
		add("eq_rl (encode %s %s) (Ok %s)", blist([]byte(p)), blist(payload), blist([]byte(bchutil.VerifEncode(p, payload))))
		hl := []int{20, 24, 28, 32, 40, 48, 56, 64, 19, 21, 0, 33}[rng.Intn(12)]
		hsh := rbytes(hl, 256)
		ty := rng.Intn(3)
		add("eq_rl (checkEncodeCashAddress 100 %s %s (%d)%%Z) (Ok %s)", blist(hsh), blist([]byte(p)), ty, blist([]byte(bchutil.VerifCheckEncodeCashAddress(hsh, p, bchutil.AddressType(ty)))))
	}
	mut := func(s string) string {
		b := []byte(s)
		switch rng.Intn(9) {
		case 0:
			return strings.ToUpper(s)
		case 1:
			if len(b) > 0 {
				i := rng.Intn(len(b))
				b[i] = byte(rng.Intn(256))
			}
		case 2:
			if len(b) > 0 {
				i := rng.Intn(len(b))
				b[i] = "qpzry9x8gf2tvdw0s3jn54khce6mua7l:QP1bio"[rng.Intn(39)]
			}
		case 3:
			return s[:rng.Intn(len(s)+1)]
		case 4:
			return strings.Replace(s, ":", "", 1)
		case 5:
			i := rng.Intn(len(b) + 1)
			return s[:i] + ":" + s[i:]
		case 6:
			if len(b) > 0 {
				i := rng.Intn(len(b))
				if b[i] >= 'a' && b[i] <= 'z' {
					b[i] -= 32
				}
			}
		case 7:
			return "9" + s
		}
		return string(b)
	}
	addrs = append(addrs, "", ":", "a:", ":a", "1:qqqqqqqq", "a:qqqqqqqq", "A:QQQQQQQQ", "a:qqqqqqq", "ab:cd:ef", "bitcoincash:qpm2qsznhks23z7629mms6s4cwef74vcwvy22gdx6a")
	n0 := len(addrs)
	for i := 0; i < 3*n0; i++ {
		addrs = append(addrs, mut(addrs[rng.Intn(n0)]))
	}
	for _, a := range addrs {
		p, d, err := bchutil.DecodeCashAddress(a)
		add("eq_rp (DecodeCashAddress %s) %s", blist([]byte(a)), resPair(p, d, err, cashMsgs...))
	}
	for i := 0; i < 150; i++ {
		from, to := uint(1+rng.Intn(8)), uint(1+rng.Intn(8))
		if i%3 == 0 {
			from, to = 8, 5
		} else if i%3 == 1 {
			from, to = 5, 8
		}
		data := rbytes(rng.Intn(40), 1<<from)
		if rng.Intn(5) == 0 {
			data = rbytes(rng.Intn(40), 256)
		}
		pad := rng.Intn(2) == 0
		v, err := bchutil.VerifConvertBits(data, from, to, pad)
		add("eq_rl (convertBits 200 %s %d %d %s) %s", blist(data), from, to, bool2(pad), resBytes(v, err, "encoding padding error"))
	}
	for n := 0; n <= 70; n++ {
		for _, ty := range []int{0, 1, 2, -1} {
			if ty != 0 && n%7 != 6 && n != 20 && n != 32 {
				continue
			}
			h := rbytes(n, 256)
			v, err := bchutil.VerifPackAddressData(bchutil.AddressType(ty), h)
			add("eq_rl (packAddressData 200 (%d)%%Z %s) %s", ty, blist(h), resBytes(v, err, "invalid AddressType", "invalid address hash size", "encoded size out of valid range", "encoding padding error"))
		}
	}
	// ---- bech32 ----
	bechMsgs := []string{"invalid bech32 string length", "invalid character in string", "string not all lowercase", "invalid index of 1",
		"failed converting data to bytes", "checksum failed"}
	var bechs []string
	hrps := []string{"bc", "tb", "a", "split", "1", "an83characterlonghumanreadablepartthatcontainsthenumber1andtheexcludedcharactersbio", "?", "A1"}
	for i := 0; i < 60; i++ {
		hrp := hrps[rng.Intn(len(hrps))]
		data := rbytes(rng.Intn(45), 32)
		if rng.Intn(6) == 0 && len(data) > 0 {
			data[rng.Intn(len(data))] = byte(rng.Intn(256))
		}
		s, err := bech32.Encode(hrp, data)
		if err != nil {
			add("eq_rl (Encode %s %s) (Err 1)", blist([]byte(hrp)), blist(data))
		} else {
			add("eq_rl (Encode %s %s) (Ok %s)", blist([]byte(hrp)), blist(data), blist([]byte(s)))
			bechs = append(bechs, s)
		}
		add("eq_rlz (bech32HrpExpand %s) %s", blist([]byte(hrp)), zlist(bech32.VerifHrpExpand(hrp)))
		add("eq_rl (bech32Checksum %s %s) (Ok %s)", blist([]byte(hrp)), blist(data), blist(bech32.VerifChecksum(hrp, data)))
		add("eq_rb (bech32VerifyChecksum %s %s) %s", blist([]byte(hrp)), blist(data), bool2(bech32.VerifVerifyChecksum(hrp, data)))
		iv := make([]int, rng.Intn(20))
		for j := range iv {
			iv[j] = rng.Intn(32)
			if rng.Intn(10) == 0 {
				iv[j] = rng.Intn(1 << 30)
			}
		}
		add("eq_rz (bech32Polymod %s) (%d)%%Z", zlist(iv), bech32.VerifPolymod(iv))
	}
	bechs = append(bechs, "", "1", "a1", "a12uel5l", "A12UEL5L", "a12UEL5L", "abcdef1qpzry9x8gf2tvdw0s3jn54khce6mua7lmqqqxw", "11qqqqqqqqqqqqqqqqqqqqqqqqqqqqqqqqqqqqqqqqqqqqqqqqqqqqqqqqqqqqqqqqqqqqqqqqqqqqqqqqqqc8247j",
		"split1checkupstagehandshakeupstreamerranterredcaperred2y9e3w", "pzry9x0s0muk", "1pzry9x0s0muk", "x1b4n0q5v", "li1dgmt3", "10a06t8", "1qzzfhee")
	n0 = len(bechs)
	for i := 0; i < 3*n0; i++ {
		bechs = append(bechs, mut(bechs[rng.Intn(n0)]))
	}
	for _, s := range bechs {
		h, d, err := bech32.Decode(s)
		add("eq_rp (Decode %s) %s", blist([]byte(s)), resPair(h, d, err, bechMsgs...))
	}
	for i := 0; i < 250; i++ {
		from, to := uint8(rng.Intn(10)), uint8(rng.Intn(10))
		if i%2 == 0 {
			from, to = uint8(1+rng.Intn(8)), uint8(1+rng.Intn(8))
		}
		data := rbytes(rng.Intn(30), 256)
		if rng.Intn(2) == 0 && from <= 8 {
			data = rbytes(rng.Intn(30), 1<<from)
		}
		pad := rng.Intn(2) == 0
		v, err := bech32.ConvertBits(data, from, to, pad)
		add("eq_rl (ConvertBits 20 %s %d %d %s) %s", blist(data), from, to, bool2(pad), resBytes(v, err, "only bit groups", "invalid incomplete group"))
	}
	// ---- bloom ----
	for i := 0; i < 120; i++ {
		n := rng.Intn(40)
		if i%10 == 0 {
			n = 0
		}
		filt := rbytes(n, 256)
		if rng.Intn(3) == 0 {
			filt = make([]byte, n)
		}
		nh, tweak := uint32(rng.Intn(12)), rng.Uint32()
		data := rbytes(rng.Intn(40), 256)
		mk := func() *bloom.Filter {
			return bloom.LoadFilter(&wire.MsgFilterLoad{Filter: append([]byte{}, filt...), HashFuncs: nh, Tweak: tweak})
		}
		f := mk()
		if n > 0 {
			h := uint32(rng.Intn(60))
			add("eq_rn (Filter_hash %d %s %d %s) %d", tweak, blist(filt), h, blist(data), f.VerifBitIndex(h, data))
		}
		add("eq_rb (Filter_matches false %s %d %d %s) %s", blist(filt), nh, tweak, blist(data), bool2(f.Matches(data)))
		g := mk()
		g.Add(data)
		after := g.MsgFilterLoad().Filter
		add("eq_rl (Filter_add false %s %d %d %s) (Ok %s)", blist(filt), nh, tweak, blist(data), blist(after))
		add("eq_rb (Filter_matches false %s %d %d %s) true", blist(after), nh, tweak, blist(data))
	}
	add("eq_rb (Filter_matches true [] 3 4 [1;2]) %s", bool2(bloom.LoadFilter(nil).Matches([]byte{1, 2})))
	for i := 0; i < 60; i++ {
		filt := rbytes(1+rng.Intn(30), 256)
		nh, tweak := uint32(rng.Intn(8)), rng.Uint32()
		var op wire.OutPoint
		copy(op.Hash[:], rbytes(32, 256))
		op.Index = rng.Uint32()
		f := bloom.LoadFilter(&wire.MsgFilterLoad{Filter: append([]byte{}, filt...), HashFuncs: nh, Tweak: tweak})
		add("eq_rb (Filter_matchesOutPoint %s %d false %s %d %d) %s", blist(op.Hash[:]), op.Index, blist(filt), nh, tweak, bool2(f.MatchesOutPoint(&op)))
		f.AddOutPoint(&op)
		after := f.MsgFilterLoad().Filter
		add("eq_rl (Filter_addOutPoint %s %d false %s %d %d) (Ok %s)", blist(op.Hash[:]), op.Index, blist(filt), nh, tweak, blist(after))
		add("eq_rb (Filter_matchesOutPoint %s %d false %s %d %d) true", blist(op.Hash[:]), op.Index, blist(after), nh, tweak)
	}
	// ---- paddedAppend ----
	for i := 0; i < 60; i++ {
		size := uint(rng.Intn(40))
		if i%9 == 0 {
			size = ^uint(0) - uint(rng.Intn(3))
		}
		dst, src := rbytes(rng.Intn(5), 256), rbytes(rng.Intn(40), 256)
		want := hdkeychain.VerifPaddedAppend(size, append([]byte{}, dst...), src)
		add("list_eqb (hdkeychain_paddedAppend %d %s %s) %s", size, blist(dst), blist(src), blist(want))
		add("list_eqb (wif_paddedAppend %d %s %s) %s", size, blist(dst), blist(src), blist(want))
	}

	dir := t.TempDir()
	if err := os.MkdirAll(filepath.Join(dir, "Gen"), 0o755); err != nil {
		t.Fatal(err)
	}
	if err := os.WriteFile(filepath.Join(dir, "Gen", "Kernels2.v"), []byte(src), 0o644); err != nil {
		t.Fatal(err)
	}
	run := func(file string) []byte {
		cmd := exec.Command(coqc, "-q", "-Q", theories, "BU", "-Q", dir, "T2", file)
		cmd.Dir = dir
		out, err := cmd.CombinedOutput()
		if err != nil {
			t.Fatalf("coqc %s failed: %v\n%.3000s", file, err, out)
		}
		return out
	}
	run(filepath.Join(dir, "Gen", "Kernels2.v"))
	var sb strings.Builder
	sb.WriteString("From BU Require Import Lib.Bytes.\nFrom T2 Require Import Gen.Kernels2.\n" + eqDefs)
	sb.WriteString("Definition results : list bool := [\n  " + strings.Join(calls, ";\n  ") + "].\n")
	sb.WriteString("Definition R := Eval vm_compute in results.\nSet Printing Width 1000000.\nSet Printing Depth 100000000.\nPrint R.\n")
	file := filepath.Join(dir, "Diff2.v")
	if err := os.WriteFile(file, []byte(sb.String()), 0o644); err != nil {
		t.Fatal(err)
	}
	out := run(file)
	m := regexp.MustCompile(`(?s)R\s*=\s*\[(.*?)\]`).FindSubmatch(out)
	if m == nil {
		t.Fatalf("cannot parse coqc output:\n%.2000s", out)
	}
	got := regexp.MustCompile(`true|false`).FindAllString(string(m[1]), -1)
	if len(got) != len(calls) {
		t.Fatalf("coq returned %d values for %d calls", len(got), len(calls))
	}
	bad := 0
	for i := range got {
		if got[i] != "true" {
			bad++
			if bad <= 15 {
				t.Errorf("Go and Gallina differ: %s", calls[i])
			}
		}
	}
	t.Logf("%d calls compared, %d differ", len(calls), bad)
}

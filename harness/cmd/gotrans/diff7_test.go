//go:build verif

package main

// Differential tests of the fourth mode on the REAL functions of /repo: Gen/Kernels4.v is regenerated from
// /repo, compiled against the installed theories, and evaluated by vm_compute on the inputs the Go functions
// are run on.
//
//   cd /verif/harness && go test -tags verif ./cmd/gotrans -run TestDifferential7

import (
	"fmt"
	"math/rand"
	"os"
	"os/exec"
	"path/filepath"
	"regexp"
	"strings"
	"testing"

	"math"

	"encoding/base64"
	"encoding/hex"
	"github.com/gcash/bchd/wire"
	"github.com/gcash/bchutil"
	"github.com/gcash/bchutil/base58"
	"github.com/gcash/bchutil/bloom"
	"github.com/gcash/bchutil/jsonpb"
	"sort"
)

// runDiff4 compiles a fresh Kernels4.v (logical name T7.Gen.Kernels4) and a file that evaluates `calls`
// (Coq terms of type bool); it reports the calls that are not true
func runDiff4(t *testing.T, prelude string, calls []string) {
	coqc, err := exec.LookPath("coqc")
	if err != nil {
		t.Skip("coqc not on PATH")
	}
	theories := "/verif/coq/theories"
	if _, err := os.Stat(filepath.Join(theories, "Gen", "Kernels3.vo")); err != nil {
		t.Skip("compiled theories not found")
	}
	src, errs := buildKernels4("/repo", kernels3, kernels4)
	if len(errs) > 0 {
		t.Fatalf("rejected: %v", errs)
	}
	dir := t.TempDir()
	os.MkdirAll(filepath.Join(dir, "Gen"), 0o755)
	if err := os.WriteFile(filepath.Join(dir, "Gen", "Kernels4.v"), []byte(src), 0o644); err != nil {
		t.Fatal(err)
	}
	run := func(file string) []byte {
		cmd := exec.Command(coqc, "-q", "-Q", theories, "BU", "-Q", dir, "T7", file)
		cmd.Dir = dir
		out, err := cmd.CombinedOutput()
		if err != nil {
			t.Fatalf("coqc %s failed: %v\n%.4000s", file, err, out)
		}
		return out
	}
	run(filepath.Join(dir, "Gen", "Kernels4.v"))
	var sb strings.Builder
	sb.WriteString(prelude)
	sb.WriteString("Definition results : list bool := [\n  " + strings.Join(calls, ";\n  ") + "].\n")
	sb.WriteString("Definition R := Eval vm_compute in results.\nSet Printing Width 1000000.\nSet Printing Depth 100000000.\nPrint R.\n")
	file := filepath.Join(dir, "Diff7.v")
	os.WriteFile(file, []byte(sb.String()), 0o644)
	out := run(file)
	m := regexp.MustCompile(`(?s)R\s*=\s*\[(.*?)\]`).FindSubmatch(out)
	if m == nil {
		t.Fatalf("cannot parse coqc output:\n%.2000s", out)
	}
	got := regexp.MustCompile(`true|false`).FindAllString(string(m[1]), -1)
	if len(got) != len(calls) {
		t.Fatalf("coq returned %d values for %d calls", len(got), len(calls))
	}
	bad := 0
	for i := range got {
		if got[i] != "true" {
			bad++
			if bad <= 10 {
				t.Errorf("Go and Gallina differ: %.600s", calls[i])
			}
		}
	}
	t.Logf("%d calls of the real functions compared, %d differ", len(calls), bad)
}

const prelude7 = `From BU Require Import Lib.Bytes.
From BU Require Gen.Kernels3.
From T7 Require Gen.Kernels4.
Definition eqr (a b : res (list N)) : bool :=
  match a, b with Ok x, Ok y => list_eqb x y | Err e, Err f => e =? f | Panic k, Panic j => k =? j | _, _ => false end.
`

// base58.Encode / Decode (math/big) against Kernels4.base58_Encode_ / base58_Decode_
func TestDifferential7Base58(t *testing.T) {
	rng := rand.New(rand.NewSource(7))
	var calls []string
	const alpha = "123456789ABCDEFGHJKLMNPQRSTUVWXYZabcdefghijkmnopqrstuvwxyz"
	var inputs [][]byte
	inputs = append(inputs, nil, []byte{0}, []byte{0, 0, 0}, []byte{255}, []byte{0, 255, 0}, []byte{57}, []byte{58}, []byte{1, 0, 0, 0, 0, 0, 0, 0, 0})
	for i := 0; i < 60; i++ {
		b := make([]byte, rng.Intn(40))
		rng.Read(b)
		if rng.Intn(3) == 0 {
			b = append(make([]byte, rng.Intn(4)), b...)
		}
		inputs = append(inputs, b)
	}
	for _, b := range inputs {
		enc := base58.Encode(b)
		calls = append(calls, fmt.Sprintf("eqr (Kernels4.base58_Encode_ %d %s) (Ok %s)", 2*len(b)+1, blist(b), blist([]byte(enc))))
		// one iteration too few must run out of fuel exactly when the loop needs them all
		strs := []string{enc}
		if len(enc) > 0 {
			m := []byte(enc)
			m[rng.Intn(len(m))] = alpha[rng.Intn(len(alpha))]
			strs = append(strs, string(m))
			m2 := []byte(enc)
			m2[rng.Intn(len(m2))] = byte(rng.Intn(256)) // mostly outside the alphabet
			strs = append(strs, string(m2))
		}
		for _, s := range strs {
			dec := base58.Decode(s)
			calls = append(calls, fmt.Sprintf("eqr (Kernels4.base58_Decode_ %d %s) (Ok %s)", len(s)+1, blist([]byte(s)), blist(dec)))
		}
	}
	for _, s := range []string{"", "1", "11", "0", "O", "I", "l", "1111111111", "z", "zzzzzzzzzzzzzzzzzzzzzz", "1z1", "\xff", "a\x00b"} {
		dec := base58.Decode(s)
		calls = append(calls, fmt.Sprintf("eqr (Kernels4.base58_Decode_ %d %s) (Ok %s)", len(s)+1, blist([]byte(s)), blist(dec)))
	}
	// fuel: exactly the number of iterations suffices, one less is Panic 9
	calls = append(calls, "eqr (Kernels4.base58_Decode_ 2 [49; 49; 50]) (Panic 9)")
	calls = append(calls, "eqr (Kernels4.base58_Encode_ 1 [255; 255]) (Panic 9)")
	runDiff4(t, prelude7, calls)
}

const prelude7f = `From Coq Require Import ZArith NArith List Bool.
From BU Require Import Lib.Bytes Amount.Amount.
From T7 Require Gen.Kernels4.
Import ListNotations.
Definition fbits (f : Kernels4.Go4.float) : N := bits_of f.
Definition eqf (f : Kernels4.Go4.float) (bits : N) (isnan : bool) : bool :=
  if isnan then Kernels4.Go4.math_IsNaN f else (fbits f =? bits)%N.
Definition fmtint (z b : Z) : list N := fmt_int b z.
`

// amount.go against Kernels4 (floats are passed as their bit patterns)
func TestDifferential7Amount(t *testing.T) {
	rng := rand.New(rand.NewSource(77))
	var calls []string
	fl := func(f float64) string { return fmt.Sprintf("(of_bits %d%%N)", math.Float64bits(f)) }
	eqf := func(term string, want float64) string {
		return fmt.Sprintf("eqf %s %d%%N %v", term, math.Float64bits(want), math.IsNaN(want))
	}
	floats := []float64{0, math.Copysign(0, -1), 1, -1, 0.5, -0.5, 1.5, 2.5, -2.5, 1e-8, 0.00000001, 21e6, 20999999.97690000, 1e308, -1e308,
		math.Inf(1), math.Inf(-1), math.NaN(), math.MaxFloat64, math.SmallestNonzeroFloat64, 92233720368.54775807, 92233720368.54775808, 1e11, -1e11,
		0.1, 0.2, 0.3, 4.35, 1.005, 123456.789, 0.123456785, 0.123456775, 9.2233720368547758e10}
	for i := 0; i < 60; i++ {
		floats = append(floats, math.Float64frombits(rng.Uint64()))
		floats = append(floats, float64(rng.Int63n(2100000000000000))/1e8)
	}
	for _, f := range floats {
		a, err := bchutil.NewAmount(f)
		calls = append(calls, fmt.Sprintf("(let '(z, e) := Kernels4.NewAmount %s in (z =? %d)%%Z && Bool.eqb (negb (e =? 0)%%N) %v)", fl(f), int64(a), err != nil))
	}
	amounts := []int64{0, 1, -1, 100000000, 123456789, -123456789, 2100000000000000, math.MaxInt64, math.MinInt64, 44433322211100, 9007199254740993, 1e8 + 1}
	for i := 0; i < 20; i++ {
		amounts = append(amounts, rng.Int63n(2100000000000000))
	}
	units := []int{6, 3, 0, -3, -6, -8, 1, -1, 8, -9, 20, -20, 300, 301, -315, -316, -331, -332, 309, 400, -400}
	for _, a := range amounts {
		for _, u := range units {
			got := bchutil.Amount(a).ToUnit(bchutil.AmountUnit(u))
			calls = append(calls, eqf(fmt.Sprintf("(Kernels4.Amount_ToUnit (%d)%%Z (%d)%%Z)", a, u), got))
		}
		calls = append(calls, eqf(fmt.Sprintf("(Kernels4.Amount_ToBCH (%d)%%Z)", a), bchutil.Amount(a).ToBCH()))
		for _, f := range floats[:24] {
			got := bchutil.Amount(a).MulF64(f)
			calls = append(calls, fmt.Sprintf("(Kernels4.Amount_MulF64 (%d)%%Z %s =? %d)%%Z", a, fl(f), int64(got)))
		}
	}
	for _, u := range append(units, 10, 12345, -12345, math.MaxInt64, math.MinInt64) {
		s := bchutil.AmountUnit(u).String()
		calls = append(calls, fmt.Sprintf("list_eqb (Kernels4.AmountUnit_String fmtint (%d)%%Z) (%s%%N)", u, blist([]byte(s))))
	}
	runDiff4(t, prelude7f, calls)
}

const prelude7b = `From Coq Require Import ZArith NArith List Bool.
From BU Require Import Lib.Bytes.
From BU Require Gen.Kernels3.
From T7 Require Gen.Kernels4.
Import ListNotations.
Notation MsgTx := (Kernels3.wire_MsgTx unit).
Notation Tx := (Kernels3.bchutil_Tx unit).
Notation Blk := (Kernels4.bchutil_Block_h unit unit).
Inductive op := OTx (k : Z) | OTxHash (k : Z) | OTransactions.
(* MsgTx.TxHash: looked up by LockTime in the table the Go side computed *)
Definition txhash (tab : list (N * list N)) (m : option MsgTx) : list N :=
  match m with
  | Some x => match List.find (fun e => (fst e =? Kernels3.wire_MsgTx_LockTime unit x)%N) tab with Some e => snd e | None => [] end
  | None => []
  end.
Definition locktime (h : list Tx) (p : option N) : Z :=
  match Kernels4.Go4.hget h p with
  | Ok t => match Kernels3.bchutil_Tx_msgTx unit t with Some m => Z.of_N (Kernels3.wire_MsgTx_LockTime unit m) | None => (-1)%Z end
  | _ => (-2)%Z
  end.
Definition index (h : list Tx) (p : option N) : Z :=
  match Kernels4.Go4.hget h p with Ok t => Kernels3.bchutil_Tx_txIndex unit t | _ => (-2)%Z end.
Definition pz (p : option N) : Z := match p with Some i => Z.of_N i | None => (-1)%Z end.
(* observations: per operation a list of integers; pointers are reported as heap indices (renamed at the end) *)
Fixpoint runops (tab : list (N * list N)) (ops : list op) (h : list Tx) (b : Blk) : list (list Z) * list (option N) :=
  match ops with
  | [] => ([], Kernels4.bchutil_Block_h_transactions unit unit b)
  | o :: rest =>
      match o with
      | OTx k =>
          match Kernels4.hBlock_Tx unit unit h b k with
          | Ok (p, e, b', h') =>
              let (obs, fin) := runops tab rest h' b' in
              ((if (e =? 0)%N then [0%Z; index h' p; locktime h' p; (1000000 + pz p)%Z] else [1%Z]) :: obs, fin)
          | _ => ([[(-99)%Z]], [])
          end
      | OTxHash k =>
          match Kernels4.hBlock_TxHash unit unit (txhash tab) h b k with
          | Ok (hs, e, b', h') =>
              let (obs, fin) := runops tab rest h' b' in
              ((if (e =? 0)%N then 0%Z :: List.map Z.of_N (match hs with Some x => x | None => [] end) else [1%Z]) :: obs, fin)
          | _ => ([[(-99)%Z]], [])
          end
      | OTransactions =>
          match Kernels4.hBlock_Transactions unit unit h b with
          | Ok (l, b', h') =>
              let (obs, fin) := runops tab rest h' b' in
              (List.map (fun p => (1000000 + pz p)%Z) l :: obs, fin)
          | _ => ([[(-99)%Z]], [])
          end
      end
  end.
(* a pointer (1000000 + heap index) is renamed to 1000000 + the slot of the final transactions slice holding it *)
Fixpoint slot_of (fin : list (option N)) (p : Z) (k : Z) : Z :=
  match fin with
  | [] => (-5)%Z
  | Some i :: t => if (Z.of_N i =? p)%Z then k else slot_of t p (k + 1)%Z
  | None :: t => slot_of t p (k + 1)%Z
  end.
Definition rename (fin : list (option N)) (z : Z) : Z := if (1000000 <=? z)%Z then (1000000 + slot_of fin (z - 1000000) 0)%Z else z.
Fixpoint zl_eqb (a b : list Z) : bool :=
  match a, b with [], [] => true | x :: a', y :: b' => (x =? y)%Z && zl_eqb a' b' | _, _ => false end.
Fixpoint zll_eqb (a b : list (list Z)) : bool :=
  match a, b with [], [] => true | x :: a', y :: b' => zl_eqb x y && zll_eqb a' b' | _, _ => false end.
Definition check (tab : list (N * list N)) (ops : list op) (b : Blk) (want : list (list Z)) : bool :=
  let (obs, fin) := runops tab ops [] b in
  zll_eqb (List.map (List.map (rename fin)) obs) want.
`

// (*Block).Tx / TxHash / Transactions of the heap variant against the real Block: values and the IDENTITY
// of the *Tx objects handed out (same pointer <-> same heap index)
func TestDifferential7Block(t *testing.T) {
	rng := rand.New(rand.NewSource(707))
	var calls []string
	for i := 0; i < 25; i++ {
		n := rng.Intn(5)
		blk := wire.NewMsgBlock(&wire.BlockHeader{})
		var txs, tab []string
		for j := 0; j < n; j++ {
			tx := wire.NewMsgTx(int32(1 + rng.Intn(2)))
			tx.LockTime = uint32(1000*i + j)
			blk.AddTransaction(tx)
			txs = append(txs, "Some "+coqMsgTx(tx))
			h := tx.TxHash()
			tab = append(tab, fmt.Sprintf("(%d%%N, %s%%N)", tx.LockTime, blist(h[:])))
		}
		coqBlk := fmt.Sprintf("(Kernels4.mk_bchutil_Block_h unit unit (Some (Kernels3.mk_wire_MsgBlock unit unit tt [%s])) [] None (-1)%%Z [] false)", strings.Join(txs, ";"))
		b := bchutil.NewBlock(blk)
		type obs struct {
			vals []int64
			ptrs map[int]*bchutil.Tx // position in vals -> pointer
		}
		var all []obs
		var ops []string
		nops := 1 + rng.Intn(6)
		for k := 0; k < nops; k++ {
			o := obs{ptrs: map[int]*bchutil.Tx{}}
			switch rng.Intn(5) {
			case 0, 1:
				idx := rng.Intn(n+2) - 1
				ops = append(ops, fmt.Sprintf("OTx (%d)%%Z", idx))
				tx, err := b.Tx(idx)
				if err != nil {
					o.vals = []int64{1}
				} else {
					o.vals = []int64{0, int64(tx.Index()), int64(tx.MsgTx().LockTime), 0}
					o.ptrs[3] = tx
				}
			case 2, 3:
				idx := rng.Intn(n+2) - 1
				ops = append(ops, fmt.Sprintf("OTxHash (%d)%%Z", idx))
				h, err := b.TxHash(idx)
				if err != nil {
					o.vals = []int64{1}
				} else {
					o.vals = []int64{0}
					for _, x := range h[:] {
						o.vals = append(o.vals, int64(x))
					}
				}
			default:
				ops = append(ops, "OTransactions")
				for j, tx := range b.Transactions() {
					o.vals = append(o.vals, 0)
					o.ptrs[j] = tx
				}
			}
			all = append(all, o)
		}
		// the final slice (what the block holds now, without generating the missing wrappers): read through Tx(k)
		// only for the slots that exist -- Transactions() would allocate; instead compare with the pointers seen
		final := map[*bchutil.Tx]int{}
		// a pointer's slot is its Index() (SetIndex(k) at creation, never changed by these operations)
		for _, o := range all {
			for _, p := range o.ptrs {
				final[p] = p.Index()
			}
		}
		var want []string
		for _, o := range all {
			var zs []string
			for j, v := range o.vals {
				if p, ok := o.ptrs[j]; ok {
					v = int64(1000000 + final[p])
				}
				zs = append(zs, fmt.Sprintf("(%d)%%Z", v))
			}
			want = append(want, "["+strings.Join(zs, ";")+"]")
		}
		calls = append(calls, fmt.Sprintf("check [%s] [%s] %s [%s]", strings.Join(tab, ";"), strings.Join(ops, ";"), coqBlk, strings.Join(want, ";")))
	}
	runDiff4(t, prelude7b, calls)
}

// bloom.NewFilter against Kernels4.NewFilter; math.Log is a Section variable, instantiated per call by the
// value the Go library returns for the (clamped) rate
func TestDifferential7NewFilter(t *testing.T) {
	rng := rand.New(rand.NewSource(76))
	var calls []string
	rates := []float64{0.5, 0.01, 0.0001, 1e-9, 1e-12, 0, -1, 1, 1.5, 2, 0.999999, 1e-8, 0.05, math.NaN(), math.Inf(1), math.Inf(-1)}
	elems := []uint32{0, 1, 2, 3, 10, 100, 1000, 20000, 1 << 20, 1 << 31, math.MaxUint32}
	type cse struct {
		n  uint32
		fp float64
	}
	var cases []cse
	for _, n := range elems {
		for _, fp := range rates {
			cases = append(cases, cse{n, fp})
		}
	}
	for i := 0; i < 60; i++ {
		cases = append(cases, cse{uint32(rng.Intn(50000)), rng.Float64() * rng.Float64()})
	}
	for _, c := range cases {
		f := bloom.NewFilter(c.n, rng.Uint32(), c.fp, wire.BloomUpdateNone)
		m := f.MsgFilterLoad()
		cl := c.fp
		if cl > 1.0 {
			cl = 1.0
		}
		if cl < 1e-9 {
			cl = 1e-9
		}
		lg := math.Log(cl)
		calls = append(calls, fmt.Sprintf("chk (Kernels4.NewFilter (fun _ => of_bits %d%%N) mkmsg %d 7 (of_bits %d%%N) 0) %d %d",
			math.Float64bits(lg), c.n, math.Float64bits(c.fp), len(m.Filter), m.HashFuncs))
	}
	runDiff4(t, `From Coq Require Import ZArith NArith List Bool.
From BU Require Import Lib.Bytes Amount.Amount.
From BU Require Gen.Kernels3.
From T7 Require Gen.Kernels4.
Import ListNotations.
Definition mkmsg (d : list N) (h t f : N) := Some (Kernels3.mk_wire_MsgFilterLoad d h t f).
Definition chk (r : option Kernels3.bloom_Filter) (len hf : N) : bool :=
  match r with
  | Some f => match Kernels3.bloom_Filter_msgFilterLoad f with
              | Some m => (N.of_nat (List.length (Kernels3.wire_MsgFilterLoad_Filter m)) =? len)%N && (Kernels3.wire_MsgFilterLoad_HashFuncs m =? hf)%N
              | None => false end
  | None => false
  end.
`, calls)
}

const prelude7j = `From Coq Require Import ZArith NArith List Bool.
From BU Require Import Lib.Bytes Amount.Amount JsonPb.JsonPb JsonPb.Codecs.
From T7 Require Gen.Kernels4.
Import ListNotations.
Notation J := Kernels4.json_any.
Definition opt_err {A} (z : A) (o : option A) : A * N := match o with Some x => (x, 0%N) | None => (z, 1%N) end.
Definition optp_err (o : option (list N)) : option (list N) * N := match o with Some x => (Some x, 0%N) | None => (None, 1%N) end.
Definition hstr (h : option (list N)) : list N := match h with Some x => hash_string x | None => [] end.
Definition hbytes (h : option (list N)) : list N := match h with Some x => x | None => [] end.
Definition cb64 := Kernels4.convertBase64 unit hex_encode (fun _ _ l => l) tt (fun _ s => opt_err [] (b64_decode s))
  (fun b => optp_err (new_hash b)) hstr.
Definition chex := Kernels4.convertHex unit (fun s => opt_err [] (hex_decode s)) hbytes (fun _ _ l => l) tt
  (fun s => optp_err (hash_from_str s)) (fun _ b => b64_encode b).
Fixpoint jeqb (a b : J) {struct a} : bool :=
  match a, b with
  | Kernels4.json_any_nil, Kernels4.json_any_nil => true
  | Kernels4.json_any_bool x, Kernels4.json_any_bool y => Bool.eqb x y
  | Kernels4.json_any_float64 x, Kernels4.json_any_float64 y => (bits_of x =? bits_of y)%N
  | Kernels4.json_any_string x, Kernels4.json_any_string y => list_eqb x y
  | Kernels4.json_any_slice x, Kernels4.json_any_slice y =>
      (fix go (l1 l2 : list J) : bool := match l1, l2 with [], [] => true | p :: t1, q :: t2 => jeqb p q && go t1 t2 | _, _ => false end) x y
  | Kernels4.json_any_map (Some x), Kernels4.json_any_map (Some y) =>
      (fix go (l1 l2 : list (list N * J)) : bool :=
         match l1, l2 with [], [] => true | (k1, p) :: t1, (k2, q) :: t2 => list_eqb k1 k2 && jeqb p q && go t1 t2 | _, _ => false end) x y
  | _, _ => false
  end.
Definition chk (r : res J) (want : J) : bool := match r with Ok j => jeqb j want | _ => false end.
`

// convertBase64 / convertHex (jsonpb) on random JSON trees: the real functions rewrite in place, the
// translation returns the new tree; maps are compared with their keys sorted (map_order := identity)
func TestDifferential7Json(t *testing.T) {
	rng := rand.New(rand.NewSource(75))
	var coq func(v interface{}) string
	coq = func(v interface{}) string {
		switch x := v.(type) {
		case nil:
			return "Kernels4.json_any_nil"
		case bool:
			return fmt.Sprintf("(Kernels4.json_any_bool %v)", x)
		case float64:
			return fmt.Sprintf("(Kernels4.json_any_float64 (of_bits %d%%N))", math.Float64bits(x))
		case string:
			return fmt.Sprintf("(Kernels4.json_any_string %s%%N)", blist([]byte(x)))
		case []interface{}:
			var el []string
			for _, e := range x {
				el = append(el, coq(e))
			}
			return "(Kernels4.json_any_slice [" + strings.Join(el, ";") + "])"
		case map[string]interface{}:
			var ks []string
			for k := range x {
				ks = append(ks, k)
			}
			sort.Strings(ks)
			var el []string
			for _, k := range ks {
				el = append(el, fmt.Sprintf("(%s%%N, %s)", blist([]byte(k)), coq(x[k])))
			}
			return "(Kernels4.json_any_map (Some [" + strings.Join(el, ";") + "]))"
		}
		t.Fatalf("unexpected %T", v)
		return ""
	}
	rstr := func() string {
		b := make([]byte, []int{0, 1, 5, 20, 32, 32, 33, 48}[rng.Intn(8)])
		rng.Read(b)
		switch rng.Intn(6) {
		case 0:
			return base64.StdEncoding.EncodeToString(b)
		case 1:
			return hex.EncodeToString(b)
		case 2:
			return strings.ToUpper(hex.EncodeToString(b))
		case 3:
			return "not base64!"
		case 4:
			return string(b)
		}
		return base64.StdEncoding.EncodeToString(b)[:rng.Intn(5)]
	}
	var gen func(depth int) interface{}
	gen = func(depth int) interface{} {
		k := rng.Intn(7)
		if depth <= 0 && k >= 4 {
			k = rng.Intn(4)
		}
		switch k {
		case 0:
			return nil
		case 1:
			return rng.Intn(2) == 0
		case 2:
			return float64(rng.Intn(1000)) / 8
		case 3:
			return rstr()
		case 4, 5:
			m := map[string]interface{}{}
			for i, n := 0, rng.Intn(4); i < n; i++ {
				m[fmt.Sprintf("k%d", rng.Intn(6))] = gen(depth - 1)
			}
			return m
		}
		var l []interface{}
		n := rng.Intn(4)
		homog := rng.Intn(3) // mostly homogeneous arrays, as JSON from protobuf is
		for i := 0; i < n; i++ {
			switch {
			case homog == 0:
				l = append(l, rstr())
			case homog == 1:
				l = append(l, gen(depth-1))
			default:
				if i == 0 {
					l = append(l, rstr())
				} else {
					l = append(l, gen(depth-1))
				}
			}
		}
		if l == nil {
			l = []interface{}{}
		}
		return l
	}
	var calls []string
	for i := 0; i < 120; i++ {
		v := gen(3)
		before := coq(v)
		fn := "cb64"
		if i%2 == 0 {
			jsonpb.VerifConvertBase64(v)
		} else {
			fn = "chex"
			jsonpb.VerifConvertHex(v)
		}
		calls = append(calls, fmt.Sprintf("chk (%s 50 %s) %s", fn, before, coq(v)))
	}
	// out of fuel: a document deeper than the fuel
	calls = append(calls, "match cb64 1 (Kernels4.json_any_slice [Kernels4.json_any_slice []]) with Panic 9 => true | _ => false end")
	runDiff4(t, prelude7j, calls)
}

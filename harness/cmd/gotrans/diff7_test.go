//go:build verif

package main

// Differential tests of the fourth mode on the REAL functions of /repo: Gen/Kernels4.v is regenerated from
// /repo, compiled against the installed theories, and evaluated by vm_compute on the inputs the Go functions
// are run on.
//
//   cd /verif/harness && go test -tags verif ./cmd/gotrans -run TestDifferential7

import (
	"fmt"
	"math/rand"
	"os"
	"os/exec"
	"path/filepath"
	"regexp"
	"strings"
	"testing"

	"github.com/gcash/bchutil/base58"
)

// runDiff4 compiles a fresh Kernels4.v (logical name T7.Gen.Kernels4) and a file that evaluates `calls`
// (Coq terms of type bool); it reports the calls that are not true
func runDiff4(t *testing.T, prelude string, calls []string) {
	coqc, err := exec.LookPath("coqc")
	if err != nil {
		t.Skip("coqc not on PATH")
	}
	theories := "/verif/coq/theories"
	if _, err := os.Stat(filepath.Join(theories, "Gen", "Kernels3.vo")); err != nil {
		t.Skip("compiled theories not found")
	}
	src, errs := buildKernels4("/repo", kernels3, kernels4)
	if len(errs) > 0 {
		t.Fatalf("rejected: %v", errs)
	}
	dir := t.TempDir()
	os.MkdirAll(filepath.Join(dir, "Gen"), 0o755)
	if err := os.WriteFile(filepath.Join(dir, "Gen", "Kernels4.v"), []byte(src), 0o644); err != nil {
		t.Fatal(err)
	}
	run := func(file string) []byte {
		cmd := exec.Command(coqc, "-q", "-Q", theories, "BU", "-Q", dir, "T7", file)
		cmd.Dir = dir
		out, err := cmd.CombinedOutput()
		if err != nil {
			t.Fatalf("coqc %s failed: %v\n%.4000s", file, err, out)
		}
		return out
	}
	run(filepath.Join(dir, "Gen", "Kernels4.v"))
	var sb strings.Builder
	sb.WriteString(prelude)
	sb.WriteString("Definition results : list bool := [\n  " + strings.Join(calls, ";\n  ") + "].\n")
	sb.WriteString("Definition R := Eval vm_compute in results.\nSet Printing Width 1000000.\nSet Printing Depth 100000000.\nPrint R.\n")
	file := filepath.Join(dir, "Diff7.v")
	os.WriteFile(file, []byte(sb.String()), 0o644)
	out := run(file)
	m := regexp.MustCompile(`(?s)R\s*=\s*\[(.*?)\]`).FindSubmatch(out)
	if m == nil {
		t.Fatalf("cannot parse coqc output:\n%.2000s", out)
	}
	got := regexp.MustCompile(`true|false`).FindAllString(string(m[1]), -1)
	if len(got) != len(calls) {
		t.Fatalf("coq returned %d values for %d calls", len(got), len(calls))
	}
	bad := 0
	for i := range got {
		if got[i] != "true" {
			bad++
			if bad <= 10 {
				t.Errorf("Go and Gallina differ: %.600s", calls[i])
			}
		}
	}
	t.Logf("%d calls of the real functions compared, %d differ", len(calls), bad)
}

const prelude7 = `From BU Require Import Lib.Bytes.
From BU Require Gen.Kernels3.
From T7 Require Gen.Kernels4.
Definition eqr (a b : res (list N)) : bool :=
  match a, b with Ok x, Ok y => list_eqb x y | Err e, Err f => e =? f | Panic k, Panic j => k =? j | _, _ => false end.
`

// base58.Encode / Decode (math/big) against Kernels4.base58_Encode_ / base58_Decode_
func TestDifferential7Base58(t *testing.T) {
	rng := rand.New(rand.NewSource(7))
	var calls []string
	const alpha = "123456789ABCDEFGHJKLMNPQRSTUVWXYZabcdefghijkmnopqrstuvwxyz"
	var inputs [][]byte
	inputs = append(inputs, nil, []byte{0}, []byte{0, 0, 0}, []byte{255}, []byte{0, 255, 0}, []byte{57}, []byte{58}, []byte{1, 0, 0, 0, 0, 0, 0, 0, 0})
	for i := 0; i < 60; i++ {
		b := make([]byte, rng.Intn(40))
		rng.Read(b)
		if rng.Intn(3) == 0 {
			b = append(make([]byte, rng.Intn(4)), b...)
		}
		inputs = append(inputs, b)
	}
	for _, b := range inputs {
		enc := base58.Encode(b)
		calls = append(calls, fmt.Sprintf("eqr (Kernels4.base58_Encode_ %d %s) (Ok %s)", 2*len(b)+1, blist(b), blist([]byte(enc))))
		// one iteration too few must run out of fuel exactly when the loop needs them all
		strs := []string{enc}
		if len(enc) > 0 {
			m := []byte(enc)
			m[rng.Intn(len(m))] = alpha[rng.Intn(len(alpha))]
			strs = append(strs, string(m))
			m2 := []byte(enc)
			m2[rng.Intn(len(m2))] = byte(rng.Intn(256)) // mostly outside the alphabet
			strs = append(strs, string(m2))
		}
		for _, s := range strs {
			dec := base58.Decode(s)
			calls = append(calls, fmt.Sprintf("eqr (Kernels4.base58_Decode_ %d %s) (Ok %s)", len(s)+1, blist([]byte(s)), blist(dec)))
		}
	}
	for _, s := range []string{"", "1", "11", "0", "O", "I", "l", "1111111111", "z", "zzzzzzzzzzzzzzzzzzzzzz", "1z1", "\xff", "a\x00b"} {
		dec := base58.Decode(s)
		calls = append(calls, fmt.Sprintf("eqr (Kernels4.base58_Decode_ %d %s) (Ok %s)", len(s)+1, blist([]byte(s)), blist(dec)))
	}
	// fuel: exactly the number of iterations suffices, one less is Panic 9
	calls = append(calls, "eqr (Kernels4.base58_Decode_ 2 [49; 49; 50]) (Panic 9)")
	calls = append(calls, "eqr (Kernels4.base58_Encode_ 1 [255; 255]) (Panic 9)")
	runDiff4(t, prelude7, calls)
}

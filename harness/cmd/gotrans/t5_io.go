package main

import (
	"go/ast"
	"go/parser"
	"go/token"
	"os"

	"verif/harness/internal/srcsel"
)

type fs5 = os.FileInfo

func srcselAnalysed(path string) bool { return srcsel.Analysed(path) }

func parseFile5(fset *token.FileSet, path string) (*ast.File, error) {
	return parser.ParseFile(fset, path, nil, parser.SkipObjectResolution)
}

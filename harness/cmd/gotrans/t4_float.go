package main

// Fourth mode: float64 as IEEE-754 binary64 (Flocq, BinarySingleNaN: one NaN, which is all Go code can
// observe without math.Float64bits).  Every operation is a definition of module Go4 in the prelude.

import (
	"fmt"
	"go/ast"
	"go/constant"
	"go/token"
	"go/types"
)

const mFloat mkind = 200 // float64

func isFloatType4(t types.Type) bool {
	if t == nil {
		return false
	}
	b, ok := t.Underlying().(*types.Basic)
	return ok && (b.Kind() == types.Float64 || b.Kind() == types.UntypedFloat)
}

// constFloat4: a constant used at type float64: the nearest binary64 (round to nearest even), as the Go
// compiler converts it
func (c *m3) constFloat4(e ast.Expr) (string, bool) {
	tv, ok := c.p.info.Types[e]
	if !ok || tv.Value == nil || !isFloatType4(tv.Type) {
		return "", false
	}
	v := tv.Value
	if v.Kind() != constant.Int && v.Kind() != constant.Float {
		return "", false
	}
	if iv := constant.ToInt(v); iv.Kind() == constant.Int {
		return fmt.Sprintf("(Go4.f64_of_Z %s)", zlit(iv.ExactString())), true
	}
	num, den := constant.Num(v), constant.Denom(v)
	if num.Kind() != constant.Int || den.Kind() != constant.Int {
		c.fail(e, "float constant `%s` is not a rational the translator can write", c.srcText(e.Pos(), e.End()))
	}
	return fmt.Sprintf("(Go4.f64_of_ratio %s %s)", zlit(num.ExactString()), zlit(den.ExactString())), true
}

// floatBin4: arithmetic and comparisons on float64
func (c *m3) floatBin4(at ast.Node, op token.Token, xe, ye ast.Expr, rt types.Type) (string, bool) {
	if !isFloatType4(c.typeOf(xe)) && !isFloatType4(c.typeOf(ye)) {
		return "", false
	}
	if isFloatType4(c.typeOf(xe)) != isFloatType4(c.typeOf(ye)) {
		c.fail(at, "operator %s with one float operand", op)
	}
	x, y := c.ex(xe), c.ex(ye)
	f := map[token.Token]string{token.ADD: "f64_add", token.SUB: "f64_sub", token.MUL: "f64_mul", token.QUO: "f64_div",
		token.EQL: "f64_eqb", token.LSS: "f64_ltb", token.LEQ: "f64_leb"}
	switch op {
	case token.ADD, token.SUB, token.MUL, token.QUO, token.EQL, token.LSS, token.LEQ:
		return fmt.Sprintf("(Go4.%s %s %s)", f[op], x, y), true
	case token.NEQ:
		return fmt.Sprintf("(negb (Go4.f64_eqb %s %s))", x, y), true
	case token.GTR:
		return fmt.Sprintf("(Go4.f64_ltb %s %s)", y, x), true
	case token.GEQ:
		return fmt.Sprintf("(Go4.f64_leb %s %s)", y, x), true
	}
	c.fail(at, "unsupported operator %s on float64", op)
	return "", false
}

// floatConv4: conversions from / to float64
func (c *m3) floatConv4(e ast.Node, x string, from, to mtype) (string, bool) {
	switch {
	case to.k == mFloat && from.k == mFloat:
		return x, true
	case to.k == mFloat && from.k == mZ:
		return fmt.Sprintf("(Go4.f64_of_Z %s)", x), true
	case to.k == mFloat && from.k == mN:
		return fmt.Sprintf("(Go4.f64_of_Z (Z.of_N %s))", x), true
	case from.k == mFloat && to.k == mZ && to.w == 64:
		c.note(e, "`%s`: float64 -> int64 as compiled for amd64 (CVTTSD2SQ: NaN, +-Inf and values outside the range give -2^63; Go leaves these cases implementation-defined)", c.srcText(e.Pos(), e.End()))
		return fmt.Sprintf("(Go4.f64_to_int64 %s)", x), true
	case from.k == mFloat && to.k == mN && to.w == 32:
		c.note(e, "`%s`: float64 -> uint32 as compiled for amd64 (the low 32 bits of the int64 conversion; implementation-defined in Go when out of range)", c.srcText(e.Pos(), e.End()))
		return fmt.Sprintf("(Go4.f64_to_uint32 %s)", x), true
	case from.k == mFloat || to.k == mFloat:
		c.fail(e, "unsupported conversion between float64 and %s", c.coqT(map[bool]mtype{true: to, false: from}[from.k == mFloat]))
	}
	return "", false
}

// floatIntrinsic4: package math
func (c *m3) floatIntrinsic4(e *ast.CallExpr, path, name string, args func(int) []string) (string, mtype, bool) {
	ft := mtype{k: mFloat}
	switch path + "." + name {
	case "math.Round":
		a := args(1)
		return fmt.Sprintf("(Go4.math_Round %s)", a[0]), ft, true
	case "math.IsNaN":
		a := args(1)
		return fmt.Sprintf("(Go4.math_IsNaN %s)", a[0]), mtype{k: mBool}, true
	case "math.IsInf":
		a := args(2)
		return fmt.Sprintf("(Go4.math_IsInf %s %s)", a[0], a[1]), mtype{k: mBool}, true
	case "math.Pow10":
		a := args(1)
		return fmt.Sprintf("(Go4.math_Pow10 %s)", a[0]), ft, true
	}
	return "", mtype{}, false
}

const floatPrelude4 = `(* ---- float64: IEEE-754 binary64 through Flocq (TRUSTED: that the compiled Go code computes these) ---- *)
Definition prec53_gt_0 : Flocq.Core.FLX.Prec_gt_0 53 := eq_refl.
Definition prec53_lt_emax : BinarySingleNaN.Prec_lt_emax 53 1024 := eq_refl.
#[global] Existing Instance prec53_gt_0.
#[global] Existing Instance prec53_lt_emax.
Definition float := BinarySingleNaN.binary_float 53 1024.
Definition f64_zero : float := BinarySingleNaN.B754_zero false.
(* float64(z) for an integer z, and integer constants: round to nearest even *)
Definition f64_of_Z (z : Z) : float :=
  BinarySingleNaN.binary_normalize 53 1024 _ _ BinarySingleNaN.mode_NE z 0 false.
(* the binary64 nearest to p/q (p, q > 0): the quotient with 64 significant bits and a sticky bit, rounded *)
Definition f64_of_pos_ratio (p q : Z) : float :=
  let k := Z.max (64 + Z.log2_up q - Z.log2 p) 0 in
  let m := ((p * 2 ^ k) / q)%Z in
  let exact := ((p * 2 ^ k) mod q =? 0)%Z in
  BinarySingleNaN.binary_normalize 53 1024 _ _ BinarySingleNaN.mode_NE
    (if exact then 2 * m else 2 * m + 1)%Z (- k - 1)%Z false.
(* a non-integer constant p/q (q > 0) used at type float64 *)
Definition f64_of_ratio (p q : Z) : float :=
  if (p =? 0)%Z then f64_zero
  else if (p <? 0)%Z then BinarySingleNaN.Bopp (f64_of_pos_ratio (- p) q) else f64_of_pos_ratio p q.
(* x + y, x - y, x * y, x / y, -x: round to nearest even *)
Definition f64_add : float -> float -> float := BinarySingleNaN.Bplus BinarySingleNaN.mode_NE.
Definition f64_sub : float -> float -> float := BinarySingleNaN.Bminus BinarySingleNaN.mode_NE.
Definition f64_mul : float -> float -> float := BinarySingleNaN.Bmult BinarySingleNaN.mode_NE.
Definition f64_div : float -> float -> float := BinarySingleNaN.Bdiv BinarySingleNaN.mode_NE.
Definition f64_neg : float -> float := BinarySingleNaN.Bopp.
(* x == y, x < y, x <= y (false when an operand is NaN) *)
Definition f64_eqb : float -> float -> bool := BinarySingleNaN.Beqb.
Definition f64_ltb : float -> float -> bool := BinarySingleNaN.Bltb.
Definition f64_leb : float -> float -> bool := BinarySingleNaN.Bleb.
(* int64(f) as compiled for amd64 (CVTTSD2SQ): truncation; NaN, +-Inf and values outside [-2^63, 2^63) give -2^63 *)
Definition f64_to_int64 (f : float) : Z :=
  match f with
  | BinarySingleNaN.B754_nan | BinarySingleNaN.B754_infinity _ => (- 2 ^ 63)%Z
  | _ => let z := BinarySingleNaN.Btrunc f in
         if ((- 2 ^ 63 <=? z) && (z <=? 2 ^ 63 - 1))%Z then z else (- 2 ^ 63)%Z
  end.
(* uint32(f) as compiled for amd64: the low 32 bits of int64(f) *)
Definition f64_to_uint32 (f : float) : N := Z.to_N (f64_to_int64 f mod 2 ^ 32)%Z.
(* math.Round: to the nearest integer, halves away from zero *)
Definition math_Round : float -> float := BinarySingleNaN.Bnearbyint BinarySingleNaN.mode_NA.
Definition math_IsNaN (f : float) : bool := match f with BinarySingleNaN.B754_nan => true | _ => false end.
(* math.IsInf(f, sign): sign > 0: +Inf, sign < 0: -Inf, sign = 0: either *)
Definition math_IsInf (f : float) (sign : Z) : bool :=
  match f with
  | BinarySingleNaN.B754_infinity s => if s then (sign <=? 0)%Z else (0 <=? sign)%Z
  | _ => false
  end.
(* math.Pow10: the table lookups of math/pow10.go (pow10tab[i] is the literal 1e<i>, pow10postab32[i] the
   literal 1e<32i>, pow10negtab32[i] the literal 1e-<32i>, each the nearest binary64) *)
Definition pow10tab (i : Z) : float := f64_of_Z (10 ^ i).
Definition pow10postab32 (i : Z) : float := f64_of_Z (10 ^ (32 * i)).
Definition pow10negtab32 (i : Z) : float := f64_of_pos_ratio 1 (10 ^ (32 * i)).
Definition math_Pow10 (n : Z) : float :=
  if ((0 <=? n) && (n <=? 308))%Z then f64_mul (pow10postab32 (n / 32)) (pow10tab (n mod 32))
  else if ((-323 <=? n) && (n <=? 0))%Z then f64_div (pow10negtab32 ((- n) / 32)) (pow10tab ((- n) mod 32))
  else if (0 <? n)%Z then BinarySingleNaN.B754_infinity false
  else f64_zero.

`

package main

// Fourth mode: type switches over interfaces translated as sum types.

import (
	"go/ast"
	"go/token"
	"go/types"
)

func typeSwitchClauses(s *ast.TypeSwitchStmt) []*ast.CaseClause {
	var out []*ast.CaseClause
	for _, cl := range s.Body.List {
		out = append(out, cl.(*ast.CaseClause))
	}
	return out
}

// typeSwitch: switch a := x.(type) { case *T1: .. case *T2: .. default: .. } with x of a sum interface:
// a match over the constructors.  A clause that does not end in a return is followed by the rest of the block.
func (c *m3) typeSwitch(s *ast.TypeSwitchStmt, rest []ast.Stmt, ind string, tail tailFn) {
	if s.Init != nil {
		c.fail(s, "type switch with an init statement")
	}
	var scrut ast.Expr
	switch a := s.Assign.(type) {
	case *ast.AssignStmt:
		scrut = a.Rhs[0].(*ast.TypeAssertExpr).X
	case *ast.ExprStmt:
		scrut = a.X.(*ast.TypeAssertExpr).X
	}
	it := c.tyOf(scrut)
	if it.k != mSum {
		c.fail(s, "type switch on `%s`, which is not an interface with a declared list of dynamic types", c.srcText(scrut.Pos(), scrut.End()))
	}
	c.cmt(ind, s)
	x := c.ex(scrut)
	c.flush(ind)
	if len(rest) > 0 {
		n := 0
		for _, cl := range typeSwitchClauses(s) {
			if !c.terminates(cl.Body) {
				n++
			}
		}
		if n > 1 {
			c.note(s, "type switch: the statements after it are repeated in each clause that does not return")
		}
	}
	c.emitf(ind, "match %s with", x)
	alts := c.g.sumAlts[it.name]
	covered := map[string]bool{}
	var def *ast.CaseClause
	body := func(cl *ast.CaseClause, bind string) {
		stmts := append([]ast.Stmt{}, cl.Body...)
		if !c.terminates(cl.Body) {
			stmts = append(stmts, rest...)
		}
		bi := ind + "    "
		if bind != "" {
			c.emitf(bi, "%s", bind)
		}
		c.blk(stmts, bi, tail)
	}
	for _, cl := range typeSwitchClauses(s) {
		if cl.List == nil {
			def = cl
			continue
		}
		if len(cl.List) != 1 {
			c.fail(cl, "type switch clause with several types")
		}
		c.emitf(ind, "(* L%d: %s *)", c.line(cl), c.firstLine(cl))
		if isNil(cl.List[0]) {
			covered[it.name+"_nil"] = true
			c.emitf(ind, "| %s_nil =>", it.name)
			bind := ""
			if o := c.p.info.Implicits[cl]; o != nil {
				bind = "let " + c.vn(o) + " := " + x + " in"
			}
			body(cl, bind)
			continue
		}
		ct := c.typeOf(cl.List[0])
		found := false
		for _, a := range alts {
			if types.Identical(a.gt, ct) {
				found = true
				if covered[a.ctor] {
					c.fail(cl, "duplicate case in type switch")
				}
				covered[a.ctor] = true
				v := "_"
				if o := c.p.info.Implicits[cl]; o != nil {
					v = c.vn(o)
				}
				c.emitf(ind, "| %s %s =>", a.ctor, v)
				body(cl, "")
			}
		}
		if !found {
			c.fail(cl, "type %s is not one of the declared dynamic types of %s", ct, it.name)
		}
	}
	if len(covered) < len(alts)+1 {
		c.emitf(ind, "| _ =>")
		if def != nil {
			c.emitf(ind+"    ", "(* L%d: %s *)", c.line(def), c.firstLine(def))
			bind := ""
			if o := c.p.info.Implicits[def]; o != nil {
				bind = "let " + c.vn(o) + " := " + x + " in"
			}
			body(def, bind)
		} else {
			c.blk(rest, ind+"    ", tail)
		}
	} else if def != nil {
		c.note(def, "type switch: the default clause is unreachable (every declared dynamic type and nil has a case)")
	}
	c.emitf(ind, "end")
}

// noBreakInTypeSwitch: an unlabelled break would leave the switch, which the match cannot express
func (c *m3) noBreakInTypeSwitch(s *ast.TypeSwitchStmt) {
	for _, cl := range typeSwitchClauses(s) {
		for _, b := range cl.Body {
			var walk func(n ast.Node)
			walk = func(n ast.Node) {
				switch n := n.(type) {
				case *ast.BranchStmt:
					if n.Tok == token.BREAK && n.Label == nil {
						c.fail(n, "break inside a type switch clause")
					}
				case *ast.BlockStmt:
					for _, x := range n.List {
						walk(x)
					}
				case *ast.IfStmt:
					walk(n.Body)
					if n.Else != nil {
						walk(n.Else)
					}
				}
			}
			walk(b)
		}
	}
}

// absCallName4: the name of the Section variable standing for an abstract call (as call3 builds it), for
// looking up mutArgs3; "" when the call is not of that form
func absCallName4(info *types.Info, e *ast.CallExpr) string {
	sel, ok := e.Fun.(*ast.SelectorExpr)
	if !ok {
		return ""
	}
	if id, ok := sel.X.(*ast.Ident); ok {
		if pn, isPkg := info.Uses[id].(*types.PkgName); isPkg {
			return pn.Imported().Name() + "_" + sel.Sel.Name
		}
	}
	tv, ok := info.Types[sel.X]
	if !ok || tv.Type == nil || tv.IsType() {
		return ""
	}
	if an := abstractName3(tv.Type); an != "" {
		return an + "_" + sel.Sel.Name
	}
	if n, ok := derefNamed(tv.Type); ok && n.Obj().Pkg() != nil {
		return n.Obj().Pkg().Name() + "_" + n.Obj().Name() + "_" + sel.Sel.Name
	}
	return ""
}

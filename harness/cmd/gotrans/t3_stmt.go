package main

// Third mode: statements (continuation-passing, as in the monadic mode), the desugaring pre-pass
// (switch, if/for with init, general for loops) and the syntactic analyses.

import (
	"fmt"
	"go/ast"
	"go/constant"
	"go/token"
	"go/types"
	"strings"
)

func (c *m3) emitf(ind, format string, a ...interface{}) {
	c.sb.WriteString(ind)
	fmt.Fprintf(&c.sb, format, a...)
	c.sb.WriteString("\n")
}

func (c *m3) flush(ind string) {
	for _, p := range c.pend {
		c.emitf(ind, "%s", p)
	}
	c.pend = nil
}

func (c *m3) cmt(ind string, n ast.Node) { c.emitf(ind, "(* L%d: %s *)", c.line(n), c.firstLine(n)) }

func (c *m3) trial(f func()) (string, bool) {
	saved := c.sb.String()
	savedEff := c.effect
	c.sb.Reset()
	c.effect = false
	savedNN := c.nnSave()
	f()
	c.nn = savedNN
	out := c.sb.String()
	eff := c.effect
	c.sb.Reset()
	c.sb.WriteString(saved)
	c.effect = savedEff || eff
	return out, eff
}

func (c *m3) tup(objs []types.Object) string {
	if len(objs) == 0 {
		return "tt"
	}
	if len(objs) == 1 {
		return c.vn(objs[0])
	}
	var n []string
	for _, o := range objs {
		n = append(n, c.vn(o))
	}
	return "(" + strings.Join(n, ", ") + ")"
}

func (c *m3) letPat(objs []types.Object) string {
	if len(objs) == 0 {
		return "_"
	}
	if len(objs) == 1 {
		return c.vn(objs[0])
	}
	return "'" + c.tup(objs)
}

func (c *m3) doPat(objs []types.Object) string {
	if len(objs) == 0 {
		return "_"
	}
	return c.tup(objs)
}

func (c *m3) funPat(objs []types.Object) string {
	if len(objs) == 0 {
		return "(_ : unit)"
	}
	if len(objs) == 1 {
		return c.vn(objs[0])
	}
	return "'" + c.tup(objs)
}

// funPatTyped: a binder with its type (the continuation of an if is typed before it is applied)
func (c *m3) funPatTyped(objs []types.Object, at ast.Node) string {
	if len(objs) == 0 {
		return "(_ : unit)"
	}
	var ts []string
	for _, o := range objs {
		ts = append(ts, paren(c.coqT(c.varType(o, at))))
	}
	if len(objs) == 1 {
		return fmt.Sprintf("(%s : %s)", c.vn(objs[0]), ts[0])
	}
	return fmt.Sprintf("(st_ : %s)", strings.Join(ts, " * "))
}

func (c *m3) wrapSt(tier int, st []types.Object) string {
	switch tier {
	case 0:
		return c.tup(st)
	case 1:
		return "Ok " + c.tup(st)
	}
	return "Ok (Go.Next " + c.tup(st) + ")"
}

// ---------------------------------------------------------------------------
// desugaring (in place, before every analysis)

func (c *m3) desugar(b *ast.BlockStmt) {
	if b != nil {
		b.List = c.desugarList(b.List)
	}
}

func (c *m3) desugarList(l []ast.Stmt) []ast.Stmt {
	var out []ast.Stmt
	for _, s := range l {
		switch s := s.(type) {
		case *ast.BlockStmt:
			c.desugar(s)
			out = append(out, s)
		case *ast.IfStmt:
			out = append(out, c.desugarIf(s)...)
		case *ast.ForStmt:
			c.desugar(s.Body)
			out = append(out, c.desugarFor(s, "")...)
		case *ast.RangeStmt:
			c.desugar(s.Body)
			out = append(out, s)
		case *ast.SwitchStmt:
			out = append(out, c.desugarSwitch(s)...)
		case *ast.TypeSwitchStmt:
			for _, cl := range typeSwitchClauses(s) {
				cl.Body = c.desugarList(cl.Body)
			}
			c.noBreakInTypeSwitch(s)
			out = append(out, s)
		case *ast.LabeledStmt:
			switch in := s.Stmt.(type) {
			case *ast.ForStmt:
				c.desugar(in.Body)
				r := c.desugarFor(in, s.Label.Name)
				out = append(out, r[:len(r)-1]...)
				s.Stmt = r[len(r)-1]
				out = append(out, s)
			case *ast.RangeStmt:
				c.desugar(in.Body)
				out = append(out, s)
			default:
				c.fail(s, "label on a statement that is not a loop")
			}
		default:
			out = append(out, s)
		}
	}
	return out
}

func (c *m3) desugarIf(s *ast.IfStmt) []ast.Stmt {
	c.desugar(s.Body)
	switch e := s.Else.(type) {
	case *ast.BlockStmt:
		c.desugar(e)
	case *ast.IfStmt:
		r := c.desugarIf(e)
		if len(r) == 1 {
			s.Else = r[0]
		} else {
			s.Else = &ast.BlockStmt{Lbrace: e.Pos(), List: r, Rbrace: e.End()}
		}
	}
	if s.Init != nil {
		init := s.Init
		s.Init = nil
		return []ast.Stmt{init, s}
	}
	return []ast.Stmt{s}
}

func (c *m3) mkBool(at token.Pos, v bool) ast.Expr {
	id := &ast.Ident{NamePos: at, Name: fmt.Sprint(v)}
	c.p.info.Types[id] = types.TypeAndValue{Type: types.Typ[types.Bool], Value: constant.MakeBool(v)}
	return id
}

// hasOwnContinue: a continue that targets this loop (unlabelled at depth 0, or with its label)
func hasOwnContinue(body *ast.BlockStmt, label string) bool {
	found := false
	var walk func(n ast.Node, depth int)
	walk = func(n ast.Node, depth int) {
		if n == nil || found {
			return
		}
		switch s := n.(type) {
		case *ast.BranchStmt:
			if s.Tok == token.CONTINUE && ((s.Label == nil && depth == 0) || (s.Label != nil && s.Label.Name == label)) {
				found = true
			}
		case *ast.BlockStmt:
			for _, x := range s.List {
				walk(x, depth)
			}
		case *ast.IfStmt:
			walk(s.Body, depth)
			walk(s.Else, depth)
		case *ast.ForStmt:
			walk(s.Body, depth+1)
		case *ast.RangeStmt:
			walk(s.Body, depth+1)
		case *ast.LabeledStmt:
			walk(s.Stmt, depth)
		}
	}
	walk(body, 0)
	return found
}

// injectPost rewrites every `continue` of this loop (not inside a nested loop) into `post; continue`
func (c *m3) injectPost(body *ast.BlockStmt, post ast.Stmt, label string) bool {
	ok := true
	var doList func(l []ast.Stmt) []ast.Stmt
	var doStmt func(s ast.Stmt)
	doList = func(l []ast.Stmt) []ast.Stmt {
		var out []ast.Stmt
		for _, s := range l {
			if br, isBr := s.(*ast.BranchStmt); isBr && br.Tok == token.CONTINUE && (br.Label == nil || br.Label.Name == label) {
				out = append(out, post, &ast.BranchStmt{TokPos: br.TokPos, Tok: token.CONTINUE})
				continue
			}
			doStmt(s)
			out = append(out, s)
		}
		return out
	}
	doStmt = func(s ast.Stmt) {
		switch s := s.(type) {
		case *ast.BlockStmt:
			s.List = doList(s.List)
		case *ast.IfStmt:
			s.Body.List = doList(s.Body.List)
			if s.Else != nil {
				doStmt(s.Else)
			}
		case *ast.ForStmt:
			if hasOwnContinue(s.Body, "\x00") || (label != "" && hasLabelled(s.Body, label)) {
				ok = ok && !hasLabelled(s.Body, label)
			}
		case *ast.RangeStmt:
			ok = ok && !(label != "" && hasLabelled(s.Body, label))
		case *ast.LabeledStmt:
			doStmt(s.Stmt)
		}
	}
	body.List = doList(body.List)
	return ok
}

func hasLabelled(body *ast.BlockStmt, label string) bool {
	found := false
	ast.Inspect(body, func(n ast.Node) bool {
		if br, ok := n.(*ast.BranchStmt); ok && br.Label != nil && br.Label.Name == label {
			found = true
		}
		return true
	})
	return found
}

// desugarFor: `for {}` gets the condition true; a three-clause loop that is not the counted form
// `for i := a; i < b; i++` becomes `init; for cond { body; post }` (rejected when the body continues)
func (c *m3) desugarFor(s *ast.ForStmt, label string) []ast.Stmt {
	if s.Init == nil && s.Post == nil {
		if s.Cond == nil {
			s.Cond = c.mkBool(s.For, true)
		}
		return []ast.Stmt{s}
	}
	if c.isCounted(s) {
		return []ast.Stmt{s}
	}
	if s.Post != nil && hasOwnContinue(s.Body, label) {
		// `continue` runs the post statement first
		if !c.injectPost(s.Body, s.Post, label) {
			c.fail(s, "`continue` from a nested loop in a general three-clause for loop")
		}
	}
	var out []ast.Stmt
	if s.Init != nil {
		out = append(out, s.Init)
	}
	if s.Post != nil && !c.terminates(s.Body.List) {
		s.Body.List = append(s.Body.List, s.Post)
	}
	if s.Cond == nil {
		s.Cond = c.mkBool(s.For, true)
	}
	s.Init, s.Post = nil, nil
	return append(out, s)
}

func (c *m3) isCounted(s *ast.ForStmt) bool {
	init, ok := s.Init.(*ast.AssignStmt)
	if !ok || init.Tok != token.DEFINE || len(init.Lhs) != 1 || len(init.Rhs) != 1 {
		return false
	}
	iv, ok := init.Lhs[0].(*ast.Ident)
	if !ok || iv.Name == "_" {
		return false
	}
	io := c.p.info.Defs[iv]
	if io == nil {
		return false
	}
	if b, ok := io.Type().Underlying().(*types.Basic); !ok || b.Info()&types.IsInteger == 0 {
		return false
	}
	cond, ok := s.Cond.(*ast.BinaryExpr)
	if !ok || cond.Op != token.LSS {
		return false
	}
	if ci, ok := cond.X.(*ast.Ident); !ok || c.obj(ci) != io {
		return false
	}
	post, ok := s.Post.(*ast.IncDecStmt)
	if !ok || post.Tok != token.INC {
		return false
	}
	if pi, ok := post.X.(*ast.Ident); !ok || c.obj(pi) != io {
		return false
	}
	st := c.assigned3(s.Body.List, s.Body.Pos())
	for _, o := range st {
		if o == io {
			return false
		}
	}
	if c.mentionsExceptLen(cond.Y, append(append([]types.Object{}, st...), io), s.Body) {
		return false
	}
	// the bounds must be without effect; they may panic (they are evaluated once, before the loop: the Go loop
	// evaluates its condition at least once, and the bound is loop-invariant)
	if !c.isPure(init.Rhs[0]) || !c.isPureP(cond.Y, true) {
		return false
	}
	return true
}

// mentionsExceptLen: e mentions one of the objects other than as len(v) of a slice v whose elements only
// (never the slice itself) are assigned in the body: such a length is loop-invariant
func (c *m3) mentionsExceptLen(e ast.Expr, objs []types.Object, body *ast.BlockStmt) bool {
	found := false
	var walk func(n ast.Node) bool
	walk = func(n ast.Node) bool {
		switch n := n.(type) {
		case *ast.CallExpr:
			if fid, ok := n.Fun.(*ast.Ident); ok && fid.Name == "len" && len(n.Args) == 1 {
				if _, isB := c.obj(fid).(*types.Builtin); isB {
					if id, ok := n.Args[0].(*ast.Ident); ok {
						o := c.obj(id)
						if _, isSl := o.Type().Underlying().(*types.Slice); isSl && c.onlyElementWrites(body, o) {
							return false
						}
					}
				}
			}
		case *ast.Ident:
			o := c.obj(n)
			for _, x := range objs {
				if o == x {
					found = true
				}
			}
		}
		return true
	}
	ast.Inspect(e, walk)
	return found
}

// isPure: syntactically cannot panic or have an effect (conservative)
func (c *m3) isPure(e ast.Expr) bool { return c.isPureP(e, false) }

func (c *m3) isPureP(e ast.Expr, allowPanic bool) bool {
	pure := true
	ast.Inspect(e, func(n ast.Node) bool {
		switch n := n.(type) {
		case *ast.TypeAssertExpr:
			pure = false
		case *ast.IndexExpr, *ast.SliceExpr, *ast.StarExpr:
			if !allowPanic {
				pure = false
			}
		case *ast.BinaryExpr:
			if n.Op == token.QUO || n.Op == token.REM {
				if _, ok := c.constInt(n.Y); !ok && !allowPanic {
					pure = false
				}
			}
		case *ast.SelectorExpr:
			if sel := c.p.info.Selections[n]; sel != nil && sel.Kind() == types.FieldVal && !allowPanic {
				if tv, ok := c.p.info.Types[n.X]; ok {
					if _, isPtr := tv.Type.Underlying().(*types.Pointer); isPtr {
						if id, ok := n.X.(*ast.Ident); !ok || c.obj(id) != c.recvOf() {
							pure = false
						}
					}
				}
			}
		case *ast.CallExpr:
			if tv, ok := c.p.info.Types[n.Fun]; ok && tv.IsType() {
				return true
			}
			if id, ok := n.Fun.(*ast.Ident); ok {
				if b, isB := c.obj(id).(*types.Builtin); isB && b.Name() == "len" {
					return true
				}
				if s := c.g.funcs[c.spec.pkg+":."+id.Name]; s != nil && !s.fallible && !s.mutRecv && !anyTrue(s.mutPar) {
					return true
				}
			}
			if sel, ok := n.Fun.(*ast.SelectorExpr); ok {
				if tv, ok := c.p.info.Types[sel.X]; ok && tv.Type != nil && !tv.IsType() {
					if s := c.g.funcs[methodKey(c.spec.pkg, tv.Type, sel.Sel.Name)]; s != nil && !s.fallible && !s.mutRecv && !anyTrue(s.mutPar) {
						if id, isId := sel.X.(*ast.Ident); isId && c.obj(id) == c.recvOf() {
							return true
						}
					}
				}
			}
			pure = false
		}
		return true
	})
	return pure
}

func (c *m3) recvOf() types.Object {
	if c.fn.Recv != nil && len(c.fn.Recv.List[0].Names) == 1 {
		return c.p.info.Defs[c.fn.Recv.List[0].Names[0]]
	}
	return nil
}

// desugarSwitch: init; tag := e; if tag == c1 || .. { } else if .. else { default }
func (c *m3) desugarSwitch(s *ast.SwitchStmt) []ast.Stmt {
	var out []ast.Stmt
	if s.Init != nil {
		out = append(out, s.Init)
	}
	boolTV := types.TypeAndValue{Type: types.Typ[types.Bool]}
	var tag ast.Expr
	if s.Tag != nil {
		tag = s.Tag
		for {
			p, ok := tag.(*ast.ParenExpr)
			if !ok {
				break
			}
			tag = p.X
		}
		_, isId := tag.(*ast.Ident)
		_, isConst := c.constInt(tag)
		if !isId && !isConst {
			tt := c.typeOf(tag)
			if b, ok := tt.(*types.Basic); ok && b.Info()&types.IsUntyped != 0 {
				tt = types.Default(tt)
			}
			def := c.synthVar(tag.Pos(), "sw", tt)
			as := &ast.AssignStmt{Lhs: []ast.Expr{def}, TokPos: tag.Pos(), Tok: token.DEFINE, Rhs: []ast.Expr{tag}}
			out = append(out, as)
			tag = c.useOf(def)
		}
	}
	var clauses []*ast.CaseClause
	def := -1
	for i, cl := range s.Body.List {
		cc := cl.(*ast.CaseClause)
		cc.Body = c.desugarList(cc.Body)
		// a trailing break is the normal end of the clause
		if n := len(cc.Body); n > 0 {
			if br, ok := cc.Body[n-1].(*ast.BranchStmt); ok && br.Tok == token.BREAK && br.Label == nil {
				cc.Body = cc.Body[:n-1]
			}
		}
		clauses = append(clauses, cc)
		if cc.List == nil {
			def = i
		}
		for _, b := range cc.Body {
			var walk func(n ast.Node)
			walk = func(n ast.Node) {
				switch n := n.(type) {
				case *ast.BranchStmt:
					if n.Tok == token.BREAK && n.Label == nil {
						c.fail(n, "break inside a switch clause (other than as its last statement)")
					}
				case *ast.BlockStmt:
					for _, x := range n.List {
						walk(x)
					}
				case *ast.IfStmt:
					walk(n.Body)
					if n.Else != nil {
						walk(n.Else)
					}
				}
			}
			walk(b)
		}
	}
	var body func(i, depth int) []ast.Stmt
	body = func(i, depth int) []ast.Stmt {
		if depth > len(clauses) {
			c.fail(s, "fallthrough cycle")
		}
		b := clauses[i].Body
		if n := len(b); n > 0 {
			if br, ok := b[n-1].(*ast.BranchStmt); ok && br.Tok == token.FALLTHROUGH {
				if i+1 >= len(clauses) {
					c.fail(br, "fallthrough in the last clause")
				}
				return append(append([]ast.Stmt{}, b[:n-1]...), body(i+1, depth+1)...)
			}
		}
		return b
	}
	var first, last *ast.IfStmt
	for i, cc := range clauses {
		if cc.List == nil {
			continue
		}
		var cond ast.Expr
		for _, e := range cc.List {
			var one ast.Expr = e
			if tag != nil {
				eq := &ast.BinaryExpr{X: tag, OpPos: e.Pos(), Op: token.EQL, Y: e}
				c.p.info.Types[eq] = boolTV
				one = eq
			}
			if cond == nil {
				cond = one
			} else {
				or := &ast.BinaryExpr{X: cond, OpPos: e.Pos(), Op: token.LOR, Y: one}
				c.p.info.Types[or] = boolTV
				cond = or
			}
		}
		is := &ast.IfStmt{If: cc.Pos(), Cond: cond, Body: &ast.BlockStmt{Lbrace: cc.Colon, List: body(i, 0), Rbrace: cc.End()}}
		if first == nil {
			first = is
		} else {
			last.Else = is
		}
		last = is
	}
	if first == nil {
		if def >= 0 {
			return append(out, body(def, 0)...)
		}
		return out
	}
	if def >= 0 {
		last.Else = &ast.BlockStmt{Lbrace: clauses[def].Colon, List: body(def, 0), Rbrace: clauses[def].End()}
	}
	return append(out, first)
}

// ---------------------------------------------------------------------------
// pre-passes

func (c *m3) errPositions() []int {
	var out []int
	for i, r := range c.sig.results {
		if r.k == mErr {
			out = append(out, i)
		}
	}
	return out
}

func (c *m3) numberSites() {
	c.siteOf = map[ast.Node]int{}
	errPos := c.errPositions()
	add := func(n ast.Node, text string) {
		c.sites = append(c.sites, fmt.Sprintf("L%d: %s", c.line(n), text))
		c.siteOf[n] = len(c.sites)
	}
	operand := map[ast.Node]bool{}
	ast.Inspect(c.bodyNode, func(n ast.Node) bool {
		switch n := n.(type) {
		case *ast.FuncLit:
			return false
		case *ast.ReturnStmt:
			if c.spec.from != "" {
				c.fail(n, "return inside a translated fragment")
			}
			if len(errPos) == 0 {
				return true
			}
			if len(n.Results) == 0 {
				add(n, "return (the named error result)")
				return true
			}
			if len(n.Results) == 1 && len(c.sig.results) > 1 {
				add(n, c.srcText(n.Results[0].Pos(), n.Results[0].End()))
				return true
			}
			for _, i := range errPos {
				if i < len(n.Results) && !isNil(n.Results[i]) {
					e := n.Results[i]
					add(n, c.srcText(e.Pos(), e.End()))
					operand[e] = true
					c.siteOf[e] = len(c.sites)
					break
				}
			}
		case *ast.CallExpr:
			if c.isCreation(n) && !operand[n] {
				add(n, c.srcText(n.Pos(), n.End()))
			}
		}
		return true
	})
}

// computeErased: string variables that only ever flow into fmt.* calls (error texts)
func (c *m3) computeErased() {
	c.erased = map[types.Object]bool{}
	cand := map[types.Object]bool{}
	bad := map[types.Object]bool{}
	var stack []ast.Node
	isFmtCall := func(n ast.Node) bool {
		ce, ok := n.(*ast.CallExpr)
		if !ok {
			return false
		}
		path, _, ok := c.pkgCall(ce)
		return ok && (path == "fmt" || path == "errors")
	}
	okRhs := func(e ast.Expr) bool {
		if tv, ok := c.p.info.Types[e]; ok && tv.Value != nil {
			return true
		}
		return isFmtCall(e)
	}
	ast.Inspect(c.bodyNode, func(n ast.Node) bool {
		if n == nil {
			stack = stack[:len(stack)-1]
			return true
		}
		stack = append(stack, n)
		id, ok := n.(*ast.Ident)
		if !ok {
			return true
		}
		o := c.obj(id)
		v, isVar := o.(*types.Var)
		if !isVar || !c.isLocal(o) || v.IsField() {
			return true
		}
		if b, ok := v.Type().Underlying().(*types.Basic); !ok || b.Kind() != types.String {
			return true
		}
		for _, po := range c.paramObjs {
			if po == o {
				return true
			}
		}
		for _, po := range c.named {
			if po == o {
				return true
			}
		}
		cand[o] = true
		parent := stack[len(stack)-2]
		switch p := parent.(type) {
		case *ast.AssignStmt:
			for i, l := range p.Lhs {
				if l == ast.Expr(id) {
					if len(p.Lhs) != len(p.Rhs) || (p.Tok != token.DEFINE && p.Tok != token.ASSIGN) || !okRhs(p.Rhs[i]) {
						bad[o] = true
					}
					return true
				}
			}
			bad[o] = true
		case *ast.ValueSpec:
			for i, l := range p.Names {
				if l == id && i < len(p.Values) && !okRhs(p.Values[i]) {
					bad[o] = true
				}
			}
		case *ast.CallExpr:
			if !isFmtCall(p) {
				bad[o] = true
			}
		default:
			bad[o] = true
		}
		return true
	})
	for o := range cand {
		if !bad[o] {
			c.erased[o] = true
		}
	}
}

func (c *m3) isParam(o types.Object) int {
	for i, p := range c.paramObjs {
		if p == o {
			return i
		}
	}
	return -1
}

func (c *m3) isMutableSlice(o types.Object) bool {
	if o == nil {
		return false
	}
	_, ok := o.Type().Underlying().(*types.Slice)
	return ok
}

// aliasCheck: the discipline of the monadic mode for slice variables (see "Sharing" in the notes), plus:
// a pointer variable that the function writes through must not have a second name.
func (c *m3) aliasCheck() {
	type use struct {
		id    *ast.Ident
		loops []ast.Node
	}
	writes := map[types.Object][]use{}
	escapes := map[types.Object][]use{}
	resliced := map[types.Object]bool{}
	var stack []ast.Node
	curLoops := func() []ast.Node {
		var l []ast.Node
		for _, n := range stack {
			switch n.(type) {
			case *ast.ForStmt, *ast.RangeStmt:
				l = append(l, n)
			}
		}
		return l
	}
	var appendBases []use
	appendBack := map[*ast.Ident]bool{}
	ptrWritten := map[types.Object]ast.Node{}
	ptrCopied := map[types.Object]ast.Node{}
	rootPtr := func(e ast.Expr) types.Object {
		through := false
		for {
			switch x := e.(type) {
			case *ast.ParenExpr:
				e = x.X
				continue
			case *ast.SelectorExpr:
				e = x.X
				through = true
				continue
			case *ast.IndexExpr:
				e = x.X
				continue
			case *ast.StarExpr:
				e = x.X
				through = true
				continue
			}
			break
		}
		if id, ok := e.(*ast.Ident); ok && through {
			if o := c.obj(id); o != nil && c.isLocal(o) {
				if _, isPtr := o.Type().Underlying().(*types.Pointer); isPtr && abstractName3(o.Type()) == "" && !isHeapPtr4(o.Type()) {
					return o
				}
			}
		}
		return nil
	}
	ast.Inspect(c.bodyNode, func(n ast.Node) bool {
		if n == nil {
			stack = stack[:len(stack)-1]
			return true
		}
		stack = append(stack, n)
		switch s := n.(type) {
		case *ast.FuncLit:
			// only as an argument of the recognised patterns (checked where it is translated)
		case *ast.IncDecStmt:
			if o := rootPtr(s.X); o != nil {
				ptrWritten[o] = s
			}
		case *ast.AssignStmt:
			for _, l := range s.Lhs {
				if o := rootPtr(l); o != nil {
					ptrWritten[o] = s
				}
			}
			for i, r := range s.Rhs {
				if id, ok := r.(*ast.Ident); ok && len(s.Lhs) == len(s.Rhs) {
					if o := c.obj(id); o != nil && c.isLocal(o) {
						if _, isPtr := o.Type().Underlying().(*types.Pointer); isPtr && abstractName3(o.Type()) == "" && !isHeapPtr4(o.Type()) {
							if l, isId := s.Lhs[i].(*ast.Ident); isId && l.Name != "_" {
								ptrCopied[o] = s
								if lo := c.obj(l); lo != nil {
									ptrCopied[lo] = s
								}
							}
						}
					}
				}
			}
			for i, l := range s.Lhs {
				lid, isId := l.(*ast.Ident)
				if !isId || !c.isMutableSlice(c.obj(lid)) || i >= len(s.Rhs) || len(s.Lhs) != len(s.Rhs) {
					continue
				}
				r := s.Rhs[i]
				for {
					p, ok := r.(*ast.ParenExpr)
					if !ok {
						break
					}
					r = p.X
				}
				switch r := r.(type) {
				case *ast.SliceExpr:
					resliced[c.obj(lid)] = true
				case *ast.Ident:
					if r.Name != "nil" {
						resliced[c.obj(lid)] = true
						if o := c.obj(r); o != nil {
							resliced[o] = true
						}
					}
				case *ast.CallExpr:
					if base := c.appendBase(r); base != nil && c.obj(base) == c.obj(lid) {
						appendBack[base] = true
					}
				}
			}
		case *ast.CallExpr:
			if base := c.appendBase(s); base != nil {
				appendBases = append(appendBases, use{base, curLoops()})
			}
			// a call that changes its receiver / a pointer argument writes through that pointer
			if sel, ok := s.Fun.(*ast.SelectorExpr); ok {
				if tv, has := c.p.info.Types[sel.X]; has && tv.Type != nil && !tv.IsType() {
					if cm := c.g.mut[methodKey(c.spec.pkg, tv.Type, sel.Sel.Name)]; cm != nil && cm.recv {
						if id, isId := stripParens(sel.X).(*ast.Ident); isId {
							if o := c.obj(id); o != nil && c.isLocal(o) {
								if _, isPtr := o.Type().Underlying().(*types.Pointer); isPtr && !isHeapPtr4(o.Type()) {
									ptrWritten[o] = s
								}
							}
						}
					}
				}
			}
			// append(x.f, ..) must be assigned back to x.f
			if id, ok := s.Fun.(*ast.Ident); ok && id.Name == "append" && len(s.Args) > 0 {
				if _, isB := c.obj(id).(*types.Builtin); isB {
					if _, isId := s.Args[0].(*ast.Ident); !isId {
						okBack := false
						if len(stack) >= 2 {
							if as, isAs := stack[len(stack)-2].(*ast.AssignStmt); isAs && len(as.Lhs) == 1 && len(as.Rhs) == 1 {
								if c.srcText(as.Lhs[0].Pos(), as.Lhs[0].End()) == c.srcText(s.Args[0].Pos(), s.Args[0].End()) {
									okBack = true
								}
							}
						}
						if _, isCall := s.Args[0].(*ast.CallExpr); isCall {
							okBack = true // a fresh value
						}
						if _, isLit := s.Args[0].(*ast.CompositeLit); isLit {
							okBack = true
						}
						if !okBack {
							c.fail(s, "append to `%s` whose result is not assigned back to it (the two slices may share one array)", c.srcText(s.Args[0].Pos(), s.Args[0].End()))
						}
					}
				}
			}
		case *ast.Ident:
			o := c.obj(s)
			if !c.isLocal(o) || !c.isMutableSlice(o) || len(stack) < 2 {
				return true
			}
			parent := stack[len(stack)-2]
			switch p := parent.(type) {
			case *ast.IndexExpr:
				if p.X == ast.Expr(s) {
					if len(stack) >= 3 {
						switch g := stack[len(stack)-3].(type) {
						case *ast.AssignStmt:
							for _, l := range g.Lhs {
								if l == ast.Expr(p) {
									writes[o] = append(writes[o], use{s, curLoops()})
								}
							}
						case *ast.IncDecStmt:
							writes[o] = append(writes[o], use{s, curLoops()})
						}
					}
					return true
				}
			case *ast.CallExpr:
				if fid, ok := p.Fun.(*ast.Ident); ok {
					if _, isB := c.obj(fid).(*types.Builtin); isB {
						switch fid.Name {
						case "len":
							return true
						case "append":
							if p.Ellipsis.IsValid() && len(p.Args) == 2 && p.Args[1] == ast.Expr(s) {
								return true
							}
							if len(p.Args) > 0 && p.Args[0] == ast.Expr(s) && appendBack[s] {
								return true // x = append(x, ..): the old value of x has no name afterwards
							}
						case "copy":
							if len(p.Args) == 2 && p.Args[1] == ast.Expr(s) {
								return true // the elements are copied
							}
							if len(p.Args) == 2 && p.Args[0] == ast.Expr(s) {
								writes[o] = append(writes[o], use{s, curLoops()})
								return true
							}
						}
					}
				}
			case *ast.SliceExpr:
				// copy(x[a:], ..): a write
				if len(stack) >= 3 {
					if g, ok := stack[len(stack)-3].(*ast.CallExpr); ok && len(g.Args) == 2 && g.Args[0] == ast.Expr(p) {
						if fid, ok := g.Fun.(*ast.Ident); ok && fid.Name == "copy" {
							writes[o] = append(writes[o], use{s, curLoops()})
							return true
						}
						if s1, ok := g.Fun.(*ast.SelectorExpr); ok && s1.Sel.Name == "PutUint32" {
							writes[o] = append(writes[o], use{s, curLoops()})
							return true
						}
					}
				}
			case *ast.RangeStmt:
				if p.X == ast.Expr(s) {
					return true
				}
			case *ast.AssignStmt:
				for _, l := range p.Lhs {
					if l == ast.Expr(s) {
						return true
					}
				}
			case *ast.ValueSpec:
				return true
			}
			escapes[o] = append(escapes[o], use{s, curLoops()})
		}
		return true
	})
	// &v for a variable (or a path rooted in one): the pointer is a COPY in the translation.  That is sound when
	// the address is only passed to a call (a translated callee that writes through it returns the new value,
	// which is stored back), returned, or used as a method receiver; when it is kept (assigned, put in a literal)
	// neither v may be written afterwards nor the pointer written through in this function.
	{
		var stk []ast.Node
		ast.Inspect(c.bodyNode, func(n ast.Node) bool {
			if n == nil {
				stk = stk[:len(stk)-1]
				return true
			}
			stk = append(stk, n)
			u, ok := n.(*ast.UnaryExpr)
			if !ok || u.Op != token.AND {
				return true
			}
			if _, isLit := stripParens(u.X).(*ast.CompositeLit); isLit {
				return true
			}
			v := c.rootVar(u.X)
			if v == nil || !c.isLocal(v) {
				return true
			}
			if tv, has := c.p.info.Types[u.X]; has && abstractName3(tv.Type) != "" {
				return true // an abstract object: the pointer is the object
			}
			// the context
			k := len(stk) - 2
			for k >= 0 {
				if _, isP := stk[k].(*ast.ParenExpr); !isP {
					break
				}
				k--
			}
			if k >= 0 {
				switch p := stk[k].(type) {
				case *ast.CallExpr:
					for _, a := range p.Args {
						if stripParens(a) == ast.Expr(u) {
							return true
						}
					}
				case *ast.ReturnStmt:
					return true
				case *ast.SelectorExpr:
					return true
				}
			}
			// kept: v must not change afterwards, the pointer must not be written through
			inLoop := false
			for _, a := range stk {
				switch a.(type) {
				case *ast.ForStmt, *ast.RangeStmt:
					inLoop = true
				}
			}
			bad := ""
			ast.Inspect(c.bodyNode, func(m ast.Node) bool {
				switch m := m.(type) {
				case *ast.AssignStmt:
					for _, l := range m.Lhs {
						if c.rootVar(l) == v && (m.Pos() > u.Pos() || inLoop) {
							if id, isId := l.(*ast.Ident); !isId || c.p.info.Defs[id] == nil {
								bad = "is assigned"
							}
						}
					}
				case *ast.IncDecStmt:
					if c.rootVar(m.X) == v && (m.Pos() > u.Pos() || inLoop) {
						bad = "is assigned"
					}
				}
				return true
			})
			if k >= 0 {
				if as, isAs := stk[k].(*ast.AssignStmt); isAs {
					for i, r := range as.Rhs {
						if stripParens(r) == ast.Expr(u) && i < len(as.Lhs) {
							if lid, isId := as.Lhs[i].(*ast.Ident); isId && c.obj(lid) != nil {
								po := c.obj(lid)
								if _, w := ptrWritten[po]; w {
									bad = "is written through the pointer `" + po.Name() + "`"
								}
							}
						}
					}
				}
			}
			if bad != "" {
				c.fail(u, "address of `%s` kept while the variable %s (a pointer is a copy in the translation: sharing is not modelled)", c.srcText(u.X.Pos(), u.X.End()), bad)
			}
			return true
		})
	}
	// a local pointer that is written through must own its object: every definition of it is a fresh object
	// (&T{..}, new, nil, or a translated call whose result is fresh)
	for o, w := range ptrWritten {
		if o == c.recvObj || c.isParam(o) >= 0 || c.direct[o] {
			continue
		}
		if c.varClass(o) != 0 {
			c.fail(w, "write through the pointer `%s`, whose object may also be reachable from another value (it was not created here: sharing is not modelled)", o.Name())
		}
	}
	for o, w := range ptrWritten {
		if cp, ok := ptrCopied[o]; ok {
			c.fail(w, "write through the pointer `%s`, which has a second name (assignment at %s): sharing is not modelled", o.Name(), c.p.fset.Position(cp.Pos()))
		}
	}
	for o, ws := range writes {
		if i := c.isParam(o); i >= 0 {
			if i < len(c.sig.mutPar) && c.sig.mutPar[i] {
				continue // the new slice is returned to the caller
			}
			c.fail(ws[0].id, "assignment to an element of the parameter `%s` (an effect on the caller's memory)", o.Name())
		}
		if resliced[o] {
			c.fail(ws[0].id, "assignment to an element of `%s`, which shares its array with another variable", o.Name())
		}
		for _, e := range escapes[o] {
			for _, w := range ws {
				if e.id.Pos() < w.id.Pos() {
					c.fail(w.id, "assignment to an element of `%s` after the slice was passed on at %s (sharing is not modelled)", o.Name(), c.p.fset.Position(e.id.Pos()))
				}
				for _, l1 := range e.loops {
					for _, l2 := range w.loops {
						if l1 == l2 {
							c.fail(w.id, "assignment to an element of `%s` in a loop that also passes the slice on (sharing is not modelled)", o.Name())
						}
					}
				}
			}
		}
	}
	count := map[types.Object]int{}
	for _, b := range appendBases {
		o := c.obj(b.id)
		if !c.isLocal(o) {
			c.fail(b.id, "append to the non-local `%s`", b.id.Name)
		}
		if resliced[o] {
			c.fail(b.id, "append to `%s`, which shares its array with another variable (the append could overwrite the other's elements)", b.id.Name)
		}
		if i := c.isParam(o); i >= 0 {
			c.sig.consumes[i] = true
		}
		if appendBack[b.id] {
			continue
		}
		count[o]++
		if count[o] > 1 || len(b.loops) > 0 {
			c.fail(b.id, "`%s` is the base of several appends whose results are not assigned back to it (they may share one array)", b.id.Name)
		}
		for _, other := range appendBases {
			if c.obj(other.id) == o && other.id.Pos() > b.id.Pos() {
				c.fail(other.id, "`%s` is appended to after an append whose result went elsewhere (the two results may share one array)", b.id.Name)
			}
		}
	}
}

func (c *m3) appendBase(e *ast.CallExpr) *ast.Ident {
	strip := func(a ast.Expr) *ast.Ident {
		for {
			p, ok := a.(*ast.ParenExpr)
			if !ok {
				break
			}
			a = p.X
		}
		id, _ := a.(*ast.Ident)
		if id != nil && !c.isMutableSlice(c.obj(id)) {
			return nil
		}
		return id
	}
	if id, ok := e.Fun.(*ast.Ident); ok {
		if b, isB := c.obj(id).(*types.Builtin); isB && b.Name() == "append" && len(e.Args) > 0 {
			return strip(e.Args[0])
		}
		if f, isF := c.obj(id).(*types.Func); isF && f.Pkg() == c.p.tpkg {
			key := c.spec.pkg + ":." + id.Name
			var consumes []bool
			if s := c.g.funcs[key]; s != nil {
				consumes = s.consumes
			} else if s := c.g.legacy[key]; s != nil {
				consumes = s.consumes
			}
			for i, a := range e.Args {
				if i < len(consumes) && consumes[i] {
					if id := strip(a); id != nil {
						return id
					}
				}
			}
		}
	}
	return nil
}

// ---------------------------------------------------------------------------
// syntactic analyses

func (c *m3) isErrReturn(r *ast.ReturnStmt) bool { return false }

// hasCtl: the statements contain a return, or a break / continue that leaves them
func (c *m3) hasCtl(stmts []ast.Stmt, wantRet, wantBrk, wantCont bool) bool {
	found := false
	var walk func(n ast.Node, depth int)
	walk = func(n ast.Node, depth int) {
		if n == nil || found {
			return
		}
		switch s := n.(type) {
		case *ast.ReturnStmt:
			if wantRet {
				found = true
			}
		case *ast.BranchStmt:
			if (depth == 0 || s.Label != nil) && ((wantBrk && s.Tok == token.BREAK) || (wantCont && s.Tok == token.CONTINUE)) {
				found = true
			}
		case *ast.BlockStmt:
			for _, x := range s.List {
				walk(x, depth)
			}
		case *ast.IfStmt:
			walk(s.Body, depth)
			walk(s.Else, depth)
		case *ast.TypeSwitchStmt:
			for _, cl := range typeSwitchClauses(s) {
				for _, x := range cl.Body {
					walk(x, depth)
				}
			}
		case *ast.ForStmt:
			walk(s.Body, depth+1)
		case *ast.RangeStmt:
			walk(s.Body, depth+1)
		case *ast.LabeledStmt:
			walk(s.Stmt, depth)
		}
	}
	for _, s := range stmts {
		walk(s, 0)
	}
	return found
}

func (c *m3) terminates(stmts []ast.Stmt) bool {
	if len(stmts) == 0 {
		return false
	}
	switch s := stmts[len(stmts)-1].(type) {
	case *ast.ReturnStmt:
		return true
	case *ast.BranchStmt:
		return s.Tok == token.BREAK || s.Tok == token.CONTINUE
	case *ast.IfStmt:
		return s.Else != nil && c.terminates(s.Body.List) && c.terminates(elseStmts(s.Else))
	case *ast.BlockStmt:
		return c.terminates(s.List)
	case *ast.TypeSwitchStmt:
		hasDef := false
		for _, cl := range typeSwitchClauses(s) {
			if cl.List == nil {
				hasDef = true
			}
			if !c.terminates(cl.Body) {
				return false
			}
		}
		return hasDef
	case *ast.ForStmt:
		// for {} without break: only left by return
		if id, ok := s.Cond.(*ast.Ident); ok && id.Name == "true" && s.Init == nil && s.Post == nil {
			return !c.hasCtl(s.Body.List, false, true, false)
		}
	}
	return false
}

// rootVar: the variable an lvalue (or a receiver / pointer argument expression) is rooted in
func (c *m3) rootVar(e ast.Expr) types.Object {
	for {
		switch x := e.(type) {
		case *ast.ParenExpr:
			e = x.X
			continue
		case *ast.SelectorExpr:
			e = x.X
			continue
		case *ast.IndexExpr:
			e = x.X
			continue
		case *ast.StarExpr:
			e = x.X
			continue
		case *ast.SliceExpr:
			e = x.X
			continue
		case *ast.UnaryExpr:
			if x.Op == token.AND {
				e = x.X
				continue
			}
		}
		break
	}
	if id, ok := e.(*ast.Ident); ok {
		return c.obj(id)
	}
	return nil
}

// assigned3: variables declared before `from` that the statements assign (directly, through a path, or by
// a call that changes its receiver / a pointer argument)
func (c *m3) assigned3(stmts []ast.Stmt, from token.Pos) []types.Object {
	var out []types.Object
	seen := map[types.Object]bool{}
	addOne := func(o types.Object) {
		if o == nil || !c.isLocal(o) || o.Pos() >= from || seen[o] || (c.erased != nil && c.erased[o]) {
			return
		}
		if v, ok := o.(*types.Var); !ok || v.IsField() {
			return
		}
		seen[o] = true
		out = append(out, o)
	}
	add := func(e ast.Expr) {
		o := c.rootVar(e)
		addOne(o)
		// (fourth mode, JSON) a changed alias is written back to where it came from
		for i := 0; i < 16 && o != nil && c.origins[o] != nil; i++ {
			o = c.rootVar(c.origins[o].base)
			addOne(o)
		}
	}
	for _, s := range stmts {
		ast.Inspect(s, func(n ast.Node) bool {
			switch n := n.(type) {
			case *ast.AssignStmt:
				for _, l := range n.Lhs {
					if id, ok := l.(*ast.Ident); ok && n.Tok == token.DEFINE && c.p.info.Defs[id] != nil {
						continue
					}
					add(l)
				}
			case *ast.IncDecStmt:
				add(n.X)
			case *ast.CallExpr:
				if id, ok := n.Fun.(*ast.Ident); ok {
					if _, isB := c.obj(id).(*types.Builtin); isB && (id.Name == "copy" || id.Name == "delete") && len(n.Args) > 0 {
						add(n.Args[0])
					}
				}
				if si := c.sortCall(n); si != nil && si.kind != "IsSorted" {
					add(si.target)
				}
				if sel, ok := n.Fun.(*ast.SelectorExpr); ok {
					if sel.Sel.Name == "PutUint32" && len(n.Args) == 2 {
						add(n.Args[0])
					}
					if tv, ok := c.p.info.Types[sel.X]; ok && tv.Type != nil && !tv.IsType() {
						if curMode4 && isBigInt4(tv.Type) && bigMutating4[sel.Sel.Name] {
							add(sel.X)
							if sel.Sel.Name == "DivMod" && len(n.Args) == 3 {
								add(n.Args[2])
							}
						}
						if an := abstractName3(tv.Type); an != "" && mutating3[an+"."+sel.Sel.Name] {
							add(sel.X)
						}
						if nn, ok := derefNamed(tv.Type); ok && mutating3[nn.Obj().Name()+"."+sel.Sel.Name] {
							add(sel.X)
						}
						if ck := methodKey(c.spec.pkg, tv.Type, sel.Sel.Name); ck != "" {
							if cm := c.g.mut[ck]; cm != nil && cm.recv {
								add(sel.X)
							}
						}
					}
				}
				ck := ""
				if id, ok := n.Fun.(*ast.Ident); ok {
					ck = c.spec.pkg + ":." + id.Name
				} else if sel, ok := n.Fun.(*ast.SelectorExpr); ok {
					if tv, ok := c.p.info.Types[sel.X]; ok && tv.Type != nil && !tv.IsType() {
						ck = methodKey(c.spec.pkg, tv.Type, sel.Sel.Name)
					}
				}
				if cm := c.g.mut[ck]; cm != nil {
					for j, a := range n.Args {
						if j < len(cm.par) && cm.par[j] {
							add(a)
						}
					}
				}
				if curMode4 {
					for _, j := range mutArgs3[absCallName4(c.p.info, n)] {
						if j < len(n.Args) {
							add(n.Args[j])
						}
					}
				}
			case *ast.RangeStmt:
				if n.Tok == token.ASSIGN {
					if n.Key != nil {
						add(n.Key)
					}
					if n.Value != nil {
						add(n.Value)
					}
				}
			}
			return true
		})
	}
	if curHeap4 && c.sig != nil && c.sig.heap && c.touchesHeap(stmts) {
		out = append(out, c.heapVar())
	}
	return out
}

// ---------------------------------------------------------------------------
// blocks

func (c *m3) retText(v string) string {
	if len(c.loops) > 0 {
		return "Ok (Go.Ret " + v + ")"
	}
	if c.fallible {
		return "Ok " + v
	}
	return v
}

func (c *m3) retTuple(vals []string) string {
	if c.sig.mutRecv {
		vals = append(vals, c.vn(c.recvObj))
	}
	for i, m := range c.sig.mutPar {
		if m {
			o := c.paramObjs[i]
			if c.direct[o] {
				vals = append(vals, "(Some "+c.vn(o)+")")
			} else {
				vals = append(vals, c.vn(o))
			}
		}
	}
	if c.sig.heap {
		vals = append(vals, c.vn(c.heapVar()))
	}
	if len(vals) == 0 {
		return "tt"
	}
	if len(vals) == 1 {
		return vals[0]
	}
	return "(" + strings.Join(vals, ", ") + ")"
}

func (c *m3) isMutexCall(e ast.Expr) bool {
	call, ok := e.(*ast.CallExpr)
	if !ok {
		return false
	}
	sel, ok := call.Fun.(*ast.SelectorExpr)
	if !ok {
		return false
	}
	switch sel.Sel.Name {
	case "Lock", "Unlock", "RLock", "RUnlock":
	default:
		return false
	}
	tv, ok := c.p.info.Types[sel.X]
	if !ok || tv.Type == nil {
		return false
	}
	n, ok := derefNamed(tv.Type)
	if !(ok && n.Obj().Pkg() != nil && n.Obj().Pkg().Path() == "sync") {
		return false
	}
	if len(call.Args) != 0 {
		return false
	}
	if why := c.notDiscardable5(sel.X); why != "" {
		c.fail(call, "the lock operation `%s` is dropped by the translation but %s", c.srcText(call.Pos(), call.End()), why)
	}
	return true
}

func (c *m3) blk(stmts []ast.Stmt, ind string, tail tailFn) {
	savedNN := c.nnSave()
	defer func() { c.nn = savedNN }()
	for i, s := range stmts {
		rest := stmts[i+1:]
		label := ""
		if ls, ok := s.(*ast.LabeledStmt); ok {
			label = ls.Label.Name
			s = ls.Stmt
		}
		switch s := s.(type) {
		case *ast.ReturnStmt:
			if len(rest) > 0 {
				c.fail(s, "return followed by further statements")
			}
			c.ret(s, ind)
			return
		case *ast.BranchStmt:
			if len(rest) > 0 {
				c.fail(s, "%s followed by further statements", s.Tok)
			}
			if len(c.loops) == 0 || (s.Tok != token.BREAK && s.Tok != token.CONTINUE) {
				c.fail(s, "%s statement outside a loop", s.Tok)
			}
			l := c.loops[len(c.loops)-1]
			c.cmt(ind, s)
			if s.Label != nil && s.Label.Name != l.label {
				// continue of an outer loop from the inner one: the inner loop must be a `for {}` that is the
				// last statement of the outer body; it then ends like a break of the inner loop
				if s.Tok == token.CONTINUE && len(c.loops) >= 2 && c.loops[len(c.loops)-2].label == s.Label.Name && l.lastOfOuter {
					if l.tier != 2 {
						c.fail(s, "internal: labelled continue in a loop not translated in control mode")
					}
					c.effect = true
					c.emitf(ind, "Ok (Go.Brk %s)", c.tup(l.st))
					return
				}
				c.fail(s, "%s with the label %s (only `continue <outer>` from a loop that ends the outer body)", s.Tok, s.Label.Name)
			}
			if s.Tok == token.CONTINUE {
				c.emitf(ind, "%s", c.wrapSt(l.tier, l.st))
			} else {
				if l.tier != 2 {
					c.fail(s, "internal: break in a loop not translated in control mode")
				}
				c.effect = true
				c.emitf(ind, "Ok (Go.Brk %s)", c.tup(l.st))
			}
			return
		case *ast.IfStmt:
			if c.ifStmt3(s, rest, ind, tail) {
				return
			}
			continue
		case *ast.RangeStmt:
			if c.loop(s, s.Body, rest, ind, tail, label) {
				return
			}
			continue
		case *ast.ForStmt:
			if c.loop(s, s.Body, rest, ind, tail, label) {
				return
			}
			continue
		case *ast.BlockStmt:
			// a block from the desugaring of `else if init; cond`
			c.blk(append(append([]ast.Stmt{}, s.List...), rest...), ind, tail)
			return
		case *ast.TypeSwitchStmt:
			c.typeSwitch(s, rest, ind, tail)
			return
		}
		c.simple(s, ind)
	}
	tail(ind)
}

func (c *m3) resGoType(i int) types.Type {
	if c.sig.gsig == nil || i >= c.sig.gsig.Results().Len() {
		return nil
	}
	return c.sig.gsig.Results().At(i).Type()
}

// errVal: the error value returned at site k
func (c *m3) errVal(e ast.Expr, k int) string {
	if isNil(e) {
		return "0"
	}
	if s, ok := c.sentinelOf(e); ok {
		return s
	}
	if c.isCreation(e) {
		c.evalErrArgs(e)
		return fmt.Sprint(k)
	}
	return fmt.Sprintf("(Go3.prop %d %s)", k, c.ex(e))
}

func (c *m3) ret(s *ast.ReturnStmt, ind string) {
	c.cmt(ind, s)
	nres := len(c.sig.results)
	site := c.siteOf[s]
	var vals []string
	switch {
	case len(s.Results) == 0:
		if nres > 0 && len(c.named) == 0 {
			c.fail(s, "return without results")
		}
		for i, o := range c.named {
			if c.sig.results[i].k == mErr && site > 0 {
				vals = append(vals, fmt.Sprintf("(Go3.prop %d %s)", site, c.vn(o)))
			} else {
				vals = append(vals, c.vn(o))
			}
		}
	case len(s.Results) == 1 && nres > 1:
		call, ok := s.Results[0].(*ast.CallExpr)
		if !ok {
			c.fail(s, "return with one value in a function with %d results", nres)
		}
		rs, _ := c.call3(call)
		if len(rs) != nres {
			c.fail(s, "return of a call with %d results in a function with %d", len(rs), nres)
		}
		ct, _ := c.typeOf(call).(*types.Tuple)
		for i, r := range rs {
			if c.sig.results[i].k == mErr {
				vals = append(vals, fmt.Sprintf("(Go3.prop %d %s)", site, r))
			} else if ct != nil {
				vals = append(vals, c.convTerm(r, ct.At(i).Type(), c.resGoType(i), s))
			} else {
				vals = append(vals, r)
			}
		}
	default:
		if len(s.Results) != nres {
			c.fail(s, "return with %d results in a function with %d", len(s.Results), nres)
		}
		for i, r := range s.Results {
			if c.sig.results[i].k == mErr {
				vals = append(vals, c.errVal(r, site))
			} else {
				vals = append(vals, c.convTo(r, c.resGoType(i)))
			}
		}
	}
	c.flush(ind)
	c.emitf(ind, "%s", c.retText(c.retTuple(vals)))
}

// simple statements (no control flow)
func (c *m3) simple(s ast.Stmt, ind string) {
	switch s := s.(type) {
	case *ast.AssignStmt:
		c.cmt(ind, s)
		c.assign(s)
		c.flush(ind)
	case *ast.IncDecStmt:
		c.cmt(ind, s)
		k := c.tyOf(s.X)
		x := c.ex(s.X)
		var v string
		inc := s.Tok == token.INC
		switch {
		case k.k == mZ && k.sized && inc:
			v = fmt.Sprintf("(Go.wrapZ %d (%s + 1)%%Z)", k.w, x)
		case k.k == mZ && k.sized:
			v = fmt.Sprintf("(Go.wrapZ %d (%s - 1)%%Z)", k.w, x)
		case k.k == mZ && inc:
			c.note(s, "`%s`: int increment assumed not to overflow", c.srcText(s.Pos(), s.End()))
			v = fmt.Sprintf("(%s + 1)%%Z", x)
		case k.k == mZ:
			c.note(s, "`%s`: int decrement assumed not to overflow", c.srcText(s.Pos(), s.End()))
			v = fmt.Sprintf("(%s - 1)%%Z", x)
		case k.k == mN && inc:
			v = fmt.Sprintf("((%s + 1) %s)", x, mod2(k.w))
		case k.k == mN:
			v = fmt.Sprintf("((%s + 2^%d - 1) %s)", x, k.w, mod2(k.w))
		default:
			c.fail(s, "++/-- on %s", c.coqT(k))
		}
		c.storePath(s.X, v)
		c.flush(ind)
	case *ast.DeclStmt:
		gd, ok := s.Decl.(*ast.GenDecl)
		if !ok || gd.Tok != token.VAR {
			if ok && (gd.Tok == token.CONST || gd.Tok == token.TYPE) {
				return
			}
			c.fail(s, "unsupported declaration")
		}
		for _, sp := range gd.Specs {
			vs := sp.(*ast.ValueSpec)
			if len(vs.Values) > 0 && len(vs.Names) != len(vs.Values) {
				c.fail(vs, "var declaration initialised by a multi-value call")
			}
			c.cmt(ind, vs)
			for i, vn := range vs.Names {
				if vn.Name == "_" {
					continue
				}
				o := c.p.info.Defs[vn]
				if c.erased[o] {
					if len(vs.Values) > 0 {
						c.ex(vs.Values[i]) // the text is erased, its operands are still evaluated
					}
					continue
				}
				if len(vs.Values) > 0 {
					c.storePath(vn, c.convTo(vs.Values[i], o.Type()))
				} else {
					c.storePath(vn, c.zeroT(c.mt(o.Type(), vs), vs))
				}
			}
		}
		c.flush(ind)
	case *ast.EmptyStmt:
	case *ast.DeferStmt:
		if c.isMutexCall(s.Call) {
			c.emitf(ind, "(* L%d: %s   -- locks are not modelled (sequential semantics) *)", c.line(s), c.firstLine(s))
			return
		}
		c.fail(s, "defer statement (only `defer mu.Unlock()`)")
	case *ast.ExprStmt:
		call, ok := s.X.(*ast.CallExpr)
		if !ok {
			c.fail(s, "expression statement `%s`", c.srcText(s.Pos(), s.End()))
		}
		if c.isMutexCall(call) {
			c.emitf(ind, "(* L%d: %s   -- locks are not modelled (sequential semantics) *)", c.line(s), c.firstLine(s))
			return
		}
		c.cmt(ind, s)
		if c.writeIntrinsic(call) || c.sortStmt(call) {
			c.flush(ind)
			return
		}
		n := len(c.pend)
		c.call3(call)
		if len(c.pend) == n {
			c.fail(s, "call `%s` used as a statement has no modelled effect", c.srcText(s.Pos(), s.End()))
		}
		c.flush(ind)
	default:
		c.fail(s, "unsupported statement %s `%s`", nodeName(s), c.firstLine(s))
	}
}

// writeIntrinsic: copy(dst[off:], src), binary.LittleEndian/BigEndian.PutUint32(dst[off:], v), delete(m, k)
func (c *m3) writeIntrinsic(call *ast.CallExpr) bool {
	kind := ""
	if id, ok := call.Fun.(*ast.Ident); ok {
		if b, isB := c.obj(id).(*types.Builtin); isB {
			switch b.Name() {
			case "copy":
				kind = "copy"
			case "delete":
				if len(call.Args) != 2 {
					c.fail(call, "delete")
				}
				mt := c.tyOf(call.Args[0])
				m := c.ex(call.Args[0])
				k := c.ex(call.Args[1])
				c.storePath(call.Args[0], fmt.Sprintf("(Go3.mdel %s %s %s)", c.eqbOf(*mt.key, call), m, k))
				return true
			}
		}
	}
	if s1, ok := call.Fun.(*ast.SelectorExpr); ok && s1.Sel.Name == "PutUint32" {
		if s2, ok := s1.X.(*ast.SelectorExpr); ok {
			if pk, ok := s2.X.(*ast.Ident); ok {
				if pn, isPkg := c.obj(pk).(*types.PkgName); isPkg && pn.Imported().Path() == "encoding/binary" {
					switch s2.Sel.Name {
					case "LittleEndian":
						kind = "put32"
					case "BigEndian":
						kind = "putbe32"
					}
				}
			}
		}
	}
	if kind == "" {
		return false
	}
	if len(call.Args) != 2 || call.Ellipsis.IsValid() {
		c.fail(call, "unsupported call `%s`", c.srcText(call.Pos(), call.End()))
	}
	var base ast.Expr = call.Args[0]
	off := "0%Z"
	if d, ok := base.(*ast.SliceExpr); ok {
		if d.High != nil || d.Slice3 {
			c.fail(d, "unsupported destination `%s` (only x[off:])", c.srcText(d.Pos(), d.End()))
		}
		base = d.X
		if d.Low != nil {
			off = asZ(c.ex(d.Low), c.tyOf(d.Low))
		}
	}
	cur := c.listBase(base)
	src := c.ex(call.Args[1])
	var t string
	switch kind {
	case "copy":
		t = c.bind(fmt.Sprintf("Go.copy_at %s %s %s", cur, off, src))
	case "put32":
		t = c.bind(fmt.Sprintf("Go.put_le32 %s %s %s", cur, off, src))
	default:
		t = c.bind(fmt.Sprintf("Go3.put_be32 %s %s %s", cur, off, src))
	}
	bt := c.tyOf(base)
	if bt.k == mOpt {
		c.storeBack(base, t, false)
	} else {
		c.storePath(base, t)
	}
	return true
}

// storePath assigns the term to an lvalue: a variable, x[i], m[k], x.f, *p (through any path)
func (c *m3) storePath(lhs ast.Expr, term string) {
	switch l := lhs.(type) {
	case *ast.ParenExpr:
		c.storePath(l.X, term)
	case *ast.Ident:
		if l.Name == "_" {
			return
		}
		o := c.obj(l)
		if o == nil || !c.isLocal(o) {
			c.fail(lhs, "assignment to non-local `%s`", l.Name)
		}
		if c.erased[o] {
			return
		}
		name := c.vn(o)
		c.nnRebind(name)
		if n := len(c.pend); n > 0 && isTempName(term) {
			pre := "do " + term + " <- "
			if strings.HasPrefix(c.pend[n-1], pre) {
				c.pend[n-1] = "do " + name + " <- " + strings.TrimPrefix(c.pend[n-1], pre)
				if c.origins[o] != nil && c.p.info.Defs[l] == nil {
					c.propagate4(o)
				}
				return
			}
		}
		c.pend = append(c.pend, fmt.Sprintf("let %s := %s in", name, term))
		if c.origins[o] != nil && c.p.info.Defs[l] == nil {
			c.propagate4(o) // an alias of a part of a JSON document changed: write it back
		}
	case *ast.IndexExpr:
		xt := c.tyOf(l.X)
		if xt.k == mMap {
			m := c.ex(l.X)
			k := c.ex(l.Index)
			mod := "Go3"
			if curMode4 {
				mod = "Go4" // written in place
			}
			c.storePath(l.X, c.bind(fmt.Sprintf("%s.mset %s %s %s %s", mod, c.eqbOf(*xt.key, l), m, k, term)))
			return
		}
		cur := c.listBase(l.X)
		i := asZ(c.ex(l.Index), c.tyOf(l.Index))
		t := c.bind(fmt.Sprintf("Go.upd %s %s %s", cur, i, term))
		if xt.k == mOpt {
			c.storeBack(l.X, t, false)
		} else {
			c.storePath(l.X, t)
		}
	case *ast.SelectorExpr:
		sel := c.p.info.Selections[l]
		if sel == nil || sel.Kind() != types.FieldVal || len(sel.Index()) != 1 {
			c.fail(lhs, "assignment to `%s`", c.srcText(lhs.Pos(), lhs.End()))
		}
		xt := c.tyOf(l.X)
		if xt.k == mAbs {
			c.fail(lhs, "assignment to a field of the abstract object `%s`", c.srcText(l.X.Pos(), l.X.End()))
		}
		base, st := c.structBase(l.X)
		if st.k != mStruct {
			c.fail(lhs, "assignment to `%s`", c.srcText(lhs.Pos(), lhs.End()))
		}
		nw := fmt.Sprintf("(%s %s %s)", c.setter(st, l.Sel.Name), base, term)
		if xt.k == mHPtr {
			h := c.vn(c.heapVar())
			c.pend = append(c.pend, fmt.Sprintf("do %s <- Go4.hset %s %s %s ;;", h, h, c.ex(l.X), nw))
			c.effect = true
			return
		}
		if xt.k == mOpt {
			c.storeBack(l.X, nw, false)
		} else {
			c.storePath(l.X, nw)
		}
	case *ast.StarExpr:
		c.storeBack(l.X, term, false)
	default:
		c.fail(lhs, "assignment to `%s`", c.srcText(lhs.Pos(), lhs.End()))
	}
}

func (c *m3) assign(s *ast.AssignStmt) {
	defType := func(l ast.Expr) types.Type {
		if id, ok := l.(*ast.Ident); ok {
			if id.Name == "_" {
				return nil
			}
			if o := c.obj(id); o != nil {
				return o.Type()
			}
		}
		return c.typeOf(l)
	}
	rhsFor := func(l, r ast.Expr) string {
		if id, ok := l.(*ast.Ident); ok && c.direct[c.obj(id)] {
			// x := &T{..} / new(T) with x held directly
			for {
				p, ok := r.(*ast.ParenExpr)
				if !ok {
					break
				}
				r = p.X
			}
			if u, ok := r.(*ast.UnaryExpr); ok && u.Op == token.AND {
				return c.ex(u.X)
			}
			if call, ok := r.(*ast.CallExpr); ok {
				t := c.tyOf(call)
				return c.zeroT(*t.elem, call)
			}
		}
		return c.convTo(r, defType(l))
	}
	if len(s.Lhs) == 1 && len(s.Rhs) == 1 {
		if fl, ok := s.Rhs[0].(*ast.FuncLit); ok && s.Tok == token.DEFINE {
			// f := func(params) T { return e }: inlined at its calls
			id, isId := s.Lhs[0].(*ast.Ident)
			if !isId || len(fl.Body.List) != 1 {
				c.fail(fl, "function literal (only `f := func(..) T { return e }`, inlined at its calls)")
			}
			ret, isRet := fl.Body.List[0].(*ast.ReturnStmt)
			if !isRet || len(ret.Results) != 1 {
				c.fail(fl, "function literal (only `f := func(..) T { return e }`, inlined at its calls)")
			}
			o := c.obj(id)
			uses := 0
			ast.Inspect(c.fn.Body, func(n ast.Node) bool {
				if u, ok := n.(*ast.Ident); ok && c.p.info.Uses[u] == o {
					uses++
				}
				if ce, ok := n.(*ast.CallExpr); ok {
					if f, ok := ce.Fun.(*ast.Ident); ok && c.p.info.Uses[f] == o {
						uses--
					}
				}
				return true
			})
			if uses != 0 {
				c.fail(fl, "function literal that is used other than by calling it")
			}
			if c.closures == nil {
				c.closures = map[types.Object]*ast.FuncLit{}
			}
			c.closures[o] = fl
			return
		}
		switch s.Tok {
		case token.DEFINE, token.ASSIGN:
			c.storePath(s.Lhs[0], rhsFor(s.Lhs[0], s.Rhs[0]))
		default:
			op, ok := assignOps[s.Tok]
			if !ok {
				c.fail(s, "unsupported assignment operator %s", s.Tok)
			}
			c.storePath(s.Lhs[0], c.bin3(s, op, s.Lhs[0], s.Rhs[0], c.typeOf(s.Lhs[0])))
		}
		return
	}
	if s.Tok != token.DEFINE && s.Tok != token.ASSIGN {
		c.fail(s, "unsupported assignment `%s`", c.firstLine(s))
	}
	if len(s.Lhs) == len(s.Rhs) {
		var vals []string
		for i, r := range s.Rhs {
			v := rhsFor(s.Lhs[i], r)
			if _, isId := r.(*ast.Ident); !isId && strings.ContainsAny(v, " (") {
				if _, isC := c.const3(r); !isC {
					t := c.fresh()
					c.pend = append(c.pend, fmt.Sprintf("let %s := %s in", t, v))
					v = t
				}
			}
			vals = append(vals, v)
		}
		for i, l := range s.Lhs {
			c.storePath(l, vals[i])
		}
		return
	}
	if len(s.Rhs) != 1 {
		c.fail(s, "unsupported assignment `%s`", c.firstLine(s))
	}
	switch r := s.Rhs[0].(type) {
	case *ast.CallExpr:
		rs, _ := c.call3(r)
		if len(rs) != len(s.Lhs) {
			c.fail(s, "assignment of a call with %d results to %d variables", len(rs), len(s.Lhs))
		}
		ct, _ := c.typeOf(r).(*types.Tuple)
		for i, l := range s.Lhs {
			v := rs[i]
			if ct != nil && defType(l) != nil {
				v = c.convTerm(v, ct.At(i).Type(), defType(l), s)
			}
			c.storePath(l, v)
		}
		return
	case *ast.TypeAssertExpr:
		// v, ok := x.(T) on an interface translated as a sum: never panics
		if from := c.mtL(c.typeOf(r.X), r.X, true); from.k == mSum && len(s.Lhs) == 2 && r.Type != nil {
			tt := c.typeOf(r.Type)
			for _, a := range c.g.sumAlts[from.name] {
				if types.Identical(a.gt, tt) {
					x := c.ex(r.X)
					t := c.fresh()
					c.pend = append(c.pend, fmt.Sprintf("let %s := match %s with %s v_ => Some v_ | _ => None end in", t, x, a.ctor))
					c.storePath(s.Lhs[0], fmt.Sprintf("(match %s with Some v_ => v_ | None => %s end)", t, c.zeroT(a.t, r)))
					c.storePath(s.Lhs[1], fmt.Sprintf("(match %s with Some _ => true | None => false end)", t))
					return
				}
			}
			c.fail(r, "type assertion to a type that is not one of the declared dynamic types")
		}
	case *ast.IndexExpr:
		// v, ok := m[k]
		xt := c.tyOf(r.X)
		if xt.k == mMap && len(s.Lhs) == 2 {
			m := c.ex(r.X)
			k := c.ex(r.Index)
			t := c.fresh()
			c.pend = append(c.pend, fmt.Sprintf("let %s := Go3.mget %s %s %s in", t, c.eqbOf(*xt.key, r), m, k))
			c.storePath(s.Lhs[0], fmt.Sprintf("(match %s with Some v_ => v_ | None => %s end)", t, c.zeroT(*xt.elem, r)))
			c.storePath(s.Lhs[1], fmt.Sprintf("(match %s with Some _ => true | None => false end)", t))
			return
		}
	}
	c.fail(s, "unsupported assignment `%s`", c.firstLine(s))
}

// ---------------------------------------------------------------------------
// if

func (c *m3) ifStmt3(s *ast.IfStmt, rest []ast.Stmt, ind string, tail tailFn) bool {
	if s.Init != nil {
		c.fail(s, "internal: if with an init statement after desugaring")
	}
	thenT := c.terminates(s.Body.List)
	elseT := s.Else != nil && c.terminates(elseStmts(s.Else))
	c.cmt(ind, s)
	cond := c.boolEx(s.Cond)
	c.flush(ind)
	switch {
	case thenT || elseT:
		c.emitf(ind, "if %s then", cond)
		if thenT {
			c.blk(s.Body.List, ind+"  ", func(string) { c.fail(s, "internal: fallthrough") })
			c.emitf(ind, "else")
			if elseT {
				c.blk(elseStmts(s.Else), ind+"  ", func(string) { c.fail(s, "internal: fallthrough") })
				if len(rest) > 0 {
					c.fail(rest[0], "unreachable statement")
				}
				return true
			}
			c.blk(append(append([]ast.Stmt{}, elseStmts(s.Else)...), rest...), ind, tail)
		} else {
			c.blk(append(append([]ast.Stmt{}, s.Body.List...), rest...), ind+"  ", tail)
			c.emitf(ind, "else")
			c.blk(elseStmts(s.Else), ind+"  ", func(string) { c.fail(s, "internal: fallthrough") })
		}
		return true
	}
	all := append(append([]ast.Stmt{}, s.Body.List...), elseStmts(s.Else)...)
	st := c.assigned3(all, s.Pos())
	if c.hasCtl(all, true, true, true) {
		c.ntmp++
		k := fmt.Sprintf("k%d_", c.ntmp)
		c.emitf(ind, "let %s := fun %s =>", k, c.funPatTyped(st, s))
		if len(st) > 1 {
			c.emitf(ind+"    ", "let '%s := st_ in", c.tup(st))
		}
		c.blk(rest, ind+"    ", tail)
		c.emitf(ind, "in")
		join := func(i string) { c.emitf(i, "%s %s", k, c.tup(st)) }
		c.emitf(ind, "if %s then", cond)
		c.blk(s.Body.List, ind+"  ", join)
		c.emitf(ind, "else")
		c.blk(elseStmts(s.Else), ind+"  ", join)
		return true
	}
	run := func(tier int) func() {
		return func() {
			c.emitf(ind, "  if %s then", cond)
			c.blk(s.Body.List, ind+"    ", func(i string) { c.emitf(i, "%s", c.wrapSt(tier, st)) })
			c.emitf(ind, "  else")
			c.blk(elseStmts(s.Else), ind+"    ", func(i string) { c.emitf(i, "%s", c.wrapSt(tier, st)) })
		}
	}
	nt := c.ntmp
	text, eff := c.trial(run(1))
	if !eff {
		c.ntmp = nt
		text, _ = c.trial(run(0))
		if len(st) == 0 {
			c.emitf(ind, "(* (an if statement without modelled effect) *)")
			return false
		}
		c.emitf(ind, "let %s :=", c.letPat(st))
		c.sb.WriteString(text)
		c.emitf(ind, "in")
		return false
	}
	c.emitf(ind, "do %s <- (", c.doPat(st))
	c.sb.WriteString(text)
	c.emitf(ind, ") ;;")
	return false
}

// ---------------------------------------------------------------------------
// loops

func (c *m3) pureEx(e ast.Expr, what string) string {
	n := len(c.pend)
	s := c.ex(e)
	if len(c.pend) != n {
		c.fail(e, "%s `%s` can panic or has an effect (it must be a pure expression)", what, c.srcText(e.Pos(), e.End()))
	}
	return s
}

// onlyElementWrites: the statements assign elements of the slice variable o but never o itself
func (c *m3) onlyElementWrites(body *ast.BlockStmt, o types.Object) bool {
	ok := true
	ast.Inspect(body, func(n ast.Node) bool {
		switch n := n.(type) {
		case *ast.AssignStmt:
			for _, l := range n.Lhs {
				if id, isId := l.(*ast.Ident); isId && c.obj(id) == o {
					ok = false
				}
			}
		case *ast.CallExpr:
			for _, a := range n.Args {
				if id, isId := a.(*ast.Ident); isId && c.obj(id) == o {
					if fid, isF := n.Fun.(*ast.Ident); !isF || fid.Name != "len" {
						ok = false
					}
				}
			}
		case *ast.UnaryExpr:
			if id, isId := n.X.(*ast.Ident); isId && n.Op == token.AND && c.obj(id) == o {
				ok = false
			}
		}
		return true
	})
	return ok
}

// onlyElementWritesPath: every write in the body that is rooted in the root variable of path is an
// assignment to an element of exactly that path (and no call changes the root)
func (c *m3) onlyElementWritesPath(body *ast.BlockStmt, path ast.Expr) bool {
	root := c.rootVar(path)
	ptext := c.srcText(path.Pos(), path.End())
	if root == nil {
		return false
	}
	ok := true
	ast.Inspect(body, func(n ast.Node) bool {
		switch n := n.(type) {
		case *ast.AssignStmt:
			for _, l := range n.Lhs {
				if c.rootVar(l) != root {
					continue
				}
				ix, isIx := l.(*ast.IndexExpr)
				if !isIx || c.srcText(ix.X.Pos(), ix.X.End()) != ptext {
					ok = false
				}
			}
		case *ast.IncDecStmt:
			if c.rootVar(n.X) == root {
				ok = false
			}
		}
		return true
	})
	for _, o := range c.assigned3(body.List, body.Pos()) {
		_ = o
	}
	// calls that change the root: assigned3 reports the root for them as well as for the element writes; accept
	// only if no call in the body has the root as (the root of) its receiver or a pointer argument
	ast.Inspect(body, func(n ast.Node) bool {
		ce, isCall := n.(*ast.CallExpr)
		if !isCall {
			return true
		}
		if sel, isSel := ce.Fun.(*ast.SelectorExpr); isSel && c.rootVar(sel.X) == root {
			if tv, has := c.p.info.Types[sel.X]; has && tv.Type != nil && !tv.IsType() {
				if cm := c.g.mut[methodKey(c.spec.pkg, tv.Type, sel.Sel.Name)]; cm != nil && cm.recv {
					ok = false
				}
			}
		}
		return true
	})
	return ok
}

type shape3 struct {
	loopShape
	pre func(ind string) // emitted at the start of the body
}

func (c *m3) loopShape(s ast.Stmt, st []types.Object) shape3 {
	r, pre := c.loopShape0(s, st)
	return shape3{r, pre}
}

func (c *m3) loopShape0(s ast.Stmt, st []types.Object) (loopShape, func(string)) {
	switch s := s.(type) {
	case *ast.RangeStmt:
		if s.Tok != token.DEFINE && !(s.Key == nil && s.Value == nil) {
			c.fail(s, "range loop that does not declare its variables with :=")
		}
		xt := c.tyOf(s.X)
		if xt.k == mMap && curMode4 && c.mentions(s.X, st) {
			// range over a map whose body writes / deletes the CURRENT key only (checked by checkOrigins4): the
			// iterations do not see each other's effects, so the entries present at the start are visited
			nm := func(e ast.Expr) string {
				if id, ok := e.(*ast.Ident); ok && id.Name != "_" {
					return c.vn(c.obj(id))
				}
				return "_"
			}
			x0 := c.ex(s.X)
			c.needVar("map_order", "forall K V : Type, list (K * V) -> list (K * V)", s)
			c.note(s, "range over a map: the order is the Section variable map_order (any permutation); the body writes the map at the current key only")
			return loopShape{list: fmt.Sprintf("(map_order _ _ (Go3.mentries %s))", x0), elem: fmt.Sprintf("'(%s, %s)", nm(s.Key), nm(s.Value))}, nil
		}
		if c.mentions(s.X, st) {
			// for i, x := range b { .. b[i] = .. }: the slice header is evaluated once, the elements are read from
			// the (shared) array at each iteration: exact as long as the body only writes elements of b
			id, isId := s.X.(*ast.Ident)
			if !isId && xt.k == mList && xt.alen == 0 && !xt.str && c.onlyElementWritesPath(s.Body, s.X) {
				// range over x.f while the body writes x.f[i]: as above, with the path re-read at each iteration
				kn := "i_"
				if kid, ok := s.Key.(*ast.Ident); ok && kid.Name != "_" {
					kn = c.vn(c.obj(kid))
				}
				var pre func(string)
				if vid, ok := s.Value.(*ast.Ident); ok && vid.Name != "_" {
					vn := c.vn(c.obj(vid))
					pre = func(ind string) {
						cur := c.ex(s.X)
						c.flush(ind)
						c.effect = true
						c.emitf(ind, "do %s <- Go.idx %s %s ;;", vn, cur, kn)
					}
				}
				x0 := c.ex(s.X)
				return loopShape{list: fmt.Sprintf("(Go.zseq 0%%Z (List.length %s))", x0), elem: kn}, pre
			}
			if !isId || xt.k != mList || xt.alen > 0 || xt.str || !c.onlyElementWrites(s.Body, c.obj(id)) {
				c.fail(s, "loop body assigns the value being ranged over")
			}
			b := c.vn(c.obj(id))
			kn := "i_"
			if kid, ok := s.Key.(*ast.Ident); ok && kid.Name != "_" {
				kn = c.vn(c.obj(kid))
			}
			var pre func(string)
			if vid, ok := s.Value.(*ast.Ident); ok && vid.Name != "_" {
				vn := c.vn(c.obj(vid))
				pre = func(ind string) {
					c.effect = true
					c.emitf(ind, "do %s <- Go.idx %s %s ;;", vn, b, kn)
				}
			}
			return loopShape{list: fmt.Sprintf("(Go.zseq 0%%Z (List.length %s))", b), elem: kn}, pre
		}
		name := func(e ast.Expr) string {
			if e == nil {
				return "_"
			}
			id, ok := e.(*ast.Ident)
			if !ok {
				c.fail(e, "unsupported range variable")
			}
			if id.Name == "_" {
				return "_"
			}
			return c.vn(c.obj(id))
		}
		k, v := name(s.Key), name(s.Value)
		if xt.k == mMap {
			x := c.ex(s.X)
			c.needVar("map_order", "forall K V : Type, list (K * V) -> list (K * V)", s)
			c.note(s, "range over a map: the order is the Section variable map_order (any permutation)")
			return loopShape{list: fmt.Sprintf("(map_order _ _ (Go3.mentries %s))", x), elem: fmt.Sprintf("'(%s, %s)", k, v)}, nil
		}
		if xt.k != mList && !(xt.k == mOpt && xt.elem.k == mList) {
			c.fail(s, "range over `%s`, which is not a slice, array, string or map", c.srcText(s.X.Pos(), s.X.End()))
		}
		x := c.listBase(s.X)
		if xt.str {
			// (phase 5, H9) Go iterates over the RUNES of a string: the index jumps over multi-byte sequences and
			// the number of iterations is the number of runes, also without an element variable
			c.fail(s, "range over a string (Go iterates over runes, which are not modelled; index the string byte by byte instead)")
		}
		switch {
		case k == "_" && v == "_":
			return loopShape{list: fmt.Sprintf("(Go.zseq 0%%Z (List.length %s))", x), elem: "_"}, nil
		case k == "_":
			return loopShape{list: x, elem: v}, nil
		case v == "_":
			return loopShape{list: fmt.Sprintf("(Go.zseq 0%%Z (List.length %s))", x), elem: k}, nil
		}
		return loopShape{list: fmt.Sprintf("(Go.enum %s)", x), elem: fmt.Sprintf("'(%s, %s)", k, v)}, nil
	case *ast.ForStmt:
		if s.Init == nil && s.Post == nil {
			return loopShape{while: true, cond: s.Cond}, nil
		}
		init := s.Init.(*ast.AssignStmt)
		iv := init.Lhs[0].(*ast.Ident)
		io := c.p.info.Defs[iv]
		it := c.mt(io.Type(), iv)
		cond := s.Cond.(*ast.BinaryExpr)
		a := c.pureEx(init.Rhs[0], "loop start")
		b := c.ex(cond.Y) // may bind (a nil dereference panics before the first iteration, as in Go)
		nm := c.vn(io)
		if v, isC := c.constInt(init.Rhs[0]); isC && v == 0 {
			if it.k == mZ {
				return loopShape{list: fmt.Sprintf("(Go.zseq 0%%Z (Z.to_nat %s))", b), elem: nm, ivar: io}, nil
			}
			return loopShape{list: fmt.Sprintf("(Go.nseq 0 (N.to_nat %s))", b), elem: nm, ivar: io}, nil
		}
		if it.k == mZ {
			return loopShape{list: fmt.Sprintf("(Go.zseq %s (Z.to_nat (%s - %s)%%Z))", a, b, a), elem: nm, ivar: io}, nil
		}
		return loopShape{list: fmt.Sprintf("(Go.nseq %s (N.to_nat (%s - %s)))", a, b, a), elem: nm, ivar: io}, nil
	}
	c.fail(s, "unsupported loop")
	return loopShape{}, nil
}

func (c *m3) loop(s ast.Stmt, body *ast.BlockStmt, rest []ast.Stmt, ind string, tail tailFn, label string) bool {
	from := s.Pos()
	if fs, ok := s.(*ast.ForStmt); ok && fs.Init == nil {
		// a condition-controlled loop (possibly the desugaring of a three-clause loop, whose init statement now
		// precedes it): everything declared before the body is state
		from = body.Pos()
	}
	st := c.assigned3(body.List, from)
	c.cmt(ind, s)
	sh := c.loopShape(s, st)
	c.flush(ind)
	isCtl := c.hasCtl(body.List, true, true, false)
	var cond string
	if sh.while {
		n := len(c.pend)
		cond = c.ex(sh.cond)
		if len(c.pend) != n {
			// a condition that can panic or calls a fallible function: evaluated inside the body
			c.pend = c.pend[:n]
			cond = ""
			isCtl = true
		}
		c.usesFuel = true
	}
	lastOfOuter := len(rest) == 0
	run := func(tier int) func() {
		return func() {
			c.loops = append(c.loops, &loop3{tier: tier, st: st, label: label, lastOfOuter: lastOfOuter})
			for _, o := range st {
				c.nnRebind(c.vn(o)) // rebound by earlier iterations
			}
			bi := ind + "    "
			if sh.pre != nil {
				sh.pre(bi)
			}
			if sh.while && cond == "" {
				cv := c.boolEx(sh.cond)
				c.flush(bi)
				c.emitf(bi, "if negb %s then Ok (Go.Brk %s) else", cv, c.tup(st))
			}
			c.blk(body.List, bi, func(i string) { c.emitf(i, "%s", c.wrapSt(tier, st)) })
			c.loops = c.loops[:len(c.loops)-1]
		}
	}
	tier := 2
	var text string
	if !isCtl {
		nt := c.ntmp
		var eff bool
		text, eff = c.trial(run(1))
		tier = 1
		if !eff && !sh.while {
			c.ntmp = nt
			text, _ = c.trial(run(0))
			tier = 0
		}
	} else {
		text, _ = c.trial(run(2))
	}
	if tier == 0 && len(st) == 0 {
		c.emitf(ind, "(* (a loop without modelled effect) *)")
		return false
	}
	if cond == "" {
		cond = "true"
	}
	head := func(comb string) {
		if sh.while {
			c.emitf(ind, "  %s fuel (fun %s => %s) (fun %s =>", comb, c.funPat(st), cond, c.funPat(st))
		} else {
			c.emitf(ind, "  %s (fun %s %s =>", comb, c.funPat(st), sh.elem)
		}
	}
	foot := func(term string) {
		if sh.while {
			c.emitf(ind, "  ) %s %s", c.tup(st), term)
		} else {
			c.emitf(ind, "  ) %s %s %s", sh.list, c.tup(st), term)
		}
	}
	switch tier {
	case 0:
		c.emitf(ind, "let %s :=", c.letPat(st))
		head("List.fold_left")
		c.sb.WriteString(text)
		foot("in")
		return false
	case 1:
		c.effect = true
		c.emitf(ind, "do %s <-", c.doPat(st))
		if sh.while {
			head("Go.whileM")
		} else {
			head("Go.foldM")
		}
		c.sb.WriteString(text)
		foot(";;")
		return false
	}
	c.effect = true
	t := c.fresh()
	rty := c.retCoqType()
	hasRet := c.hasCtl(body.List, true, false, false)
	if n := len(c.loops); hasRet || n == 0 || c.loops[n-1].tier == 2 {
		hasRet = true // the usual arm is well typed (and dead when the loop only breaks)
	} else {
		rty = "Empty_set" // a loop that only breaks, inside a loop that cannot return
	}
	c.emitf(ind, "do %s <-", t)
	if sh.while {
		head(fmt.Sprintf("Go.whileC (R := %s)", rty))
	} else {
		head(fmt.Sprintf("Go.foldC (R := %s)", rty))
	}
	c.sb.WriteString(text)
	foot(";;")
	c.emitf(ind, "match %s with", t)
	if hasRet {
		c.emitf(ind, "| Go.Ret r_ => %s", c.retText("r_"))
	} else {
		c.emitf(ind, "| Go.Ret r_ => match r_ with end")
	}
	if len(st) == 0 {
		c.emitf(ind, "| Go.Next _ | Go.Brk _ =>")
	} else {
		c.emitf(ind, "| Go.Next %s | Go.Brk %s =>", c.tup(st), c.tup(st))
	}
	c.blk(rest, ind+"    ", tail)
	c.emitf(ind, "end")
	return true
}

// retCoqType: the type of what `return` yields (without res)
func (c *m3) retCoqType() string {
	save := c.sig.fallible
	c.sig.fallible = false
	t := c.resType3()
	c.sig.fallible = save
	return paren(t)
}

package main

// Monadic mode of the translator (Gen/Kernels2.v): types, stub importer, prelude text.
// Semantics: design/notes_translator.md, section "Monadic mode".

import (
	"fmt"
	"go/ast"
	"go/constant"
	"go/token"
	"go/types"
	"strings"
)

// ---------------------------------------------------------------------------
// stub importer: hand-written signatures of the few imported names the translated functions use.
// Only the *types* are given here (trusted declarations); the meaning of the intrinsics is in the prelude.

type stubImporter struct{ pkgs map[string]*types.Package }

func newStubImporter() *stubImporter {
	s := &stubImporter{pkgs: map[string]*types.Package{}}
	str := types.Typ[types.String]
	byt := types.Typ[types.Uint8]
	in := types.Typ[types.Int]
	bs := types.NewSlice(byt)
	errT := types.Universe.Lookup("error").Type()
	anyT := types.NewInterfaceType(nil, nil)
	mk := func(path, name string) *types.Package {
		p := types.NewPackage(path, name)
		s.pkgs[path] = p
		return p
	}
	fn := func(p *types.Package, name string, variadic bool, res types.Type, params ...types.Type) {
		var ps []*types.Var
		for i, t := range params {
			ps = append(ps, types.NewParam(token.NoPos, p, fmt.Sprintf("a%d", i), t))
		}
		var rs []*types.Var
		if res != nil {
			rs = append(rs, types.NewParam(token.NoPos, p, "", res))
		}
		sig := types.NewSignatureType(nil, nil, nil, types.NewTuple(ps...), types.NewTuple(rs...), variadic)
		p.Scope().Insert(types.NewFunc(token.NoPos, p, name, sig))
	}
	p := mk("errors", "errors")
	fn(p, "New", false, errT, str)
	p = mk("fmt", "fmt")
	fn(p, "Errorf", true, errT, str, types.NewSlice(anyT))
	fn(p, "Sprintf", true, str, str, types.NewSlice(anyT))
	p = mk("strings", "strings")
	fn(p, "ToLower", false, str, str)
	fn(p, "ToUpper", false, str, str)
	fn(p, "IndexByte", false, in, str, byt)
	fn(p, "LastIndexByte", false, in, str, byt)
	p = mk("bytes", "bytes")
	fn(p, "Compare", false, in, bs, bs)
	u32 := types.Typ[types.Uint32]
	named := func(p *types.Package, name string, under types.Type) *types.Named {
		tn := types.NewTypeName(token.NoPos, p, name, nil)
		n := types.NewNamed(tn, under, nil)
		p.Scope().Insert(tn)
		return n
	}
	strct := func(p *types.Package, fields ...interface{}) *types.Struct {
		var fs []*types.Var
		for i := 0; i < len(fields); i += 2 {
			fs = append(fs, types.NewField(token.NoPos, p, fields[i].(string), fields[i+1].(types.Type), false))
		}
		return types.NewStruct(fs, nil)
	}
	// github.com/gcash/bchd/chaincfg/chainhash: type Hash [HashSize]byte
	p = mk("github.com/gcash/bchd/chaincfg/chainhash", "chainhash")
	p.Scope().Insert(types.NewConst(token.NoPos, p, "HashSize", types.Typ[types.UntypedInt], constant.MakeInt64(32)))
	hashT := named(p, "Hash", types.NewArray(byt, 32))
	// github.com/gcash/bchd/wire: the fields the translated functions read
	p = mk("github.com/gcash/bchd/wire", "wire")
	named(p, "MsgFilterLoad", strct(p, "Filter", bs, "HashFuncs", u32, "Tweak", u32, "Flags", byt))
	outp := named(p, "OutPoint", strct(p, "Hash", hashT, "Index", u32))
	named(p, "TxIn", strct(p, "PreviousOutPoint", outp, "SignatureScript", bs, "Sequence", u32))
	named(p, "TxOut", strct(p, "Value", types.Typ[types.Int64], "PkScript", bs))
	method := func(p *types.Package, recv *types.Named, name string, results []types.Type, params ...types.Type) {
		var ps, rs []*types.Var
		for i, t := range params {
			ps = append(ps, types.NewParam(token.NoPos, p, fmt.Sprintf("a%d", i), t))
		}
		for _, t := range results {
			rs = append(rs, types.NewParam(token.NoPos, p, "", t))
		}
		rv := types.NewParam(token.NoPos, p, "r", types.NewPointer(recv))
		sig := types.NewSignatureType(rv, nil, nil, types.NewTuple(ps...), types.NewTuple(rs...), false)
		recv.AddMethod(types.NewFunc(token.NoPos, p, name, sig))
	}
	bl := types.Typ[types.Bool]
	u64 := types.Typ[types.Uint64]
	// github.com/kkdai/bstream: an abstract bit stream
	p = mk("github.com/kkdai/bstream", "bstream")
	bst := named(p, "BStream", types.NewStruct(nil, nil))
	method(p, bst, "ReadBit", []types.Type{bl, errT})
	method(p, bst, "ReadBits", []types.Type{u64, errT}, in)
	method(p, bst, "WriteBit", nil, bl)
	method(p, bst, "WriteBits", nil, u64, in)
	fn(p, "NewBStreamWriter", false, types.NewPointer(bst), byt)
	fn(p, "NewBStreamReader", false, types.NewPointer(bst), bs)
	// container/list: abstract
	p = mk("container/list", "list")
	elT := named(p, "Element", strct(p, "Value", anyT))
	lst := named(p, "List", types.NewStruct(nil, nil))
	method(p, lst, "PushBack", []types.Type{types.NewPointer(elT)}, anyT)
	method(p, lst, "Remove", []types.Type{anyT}, types.NewPointer(elT))
	method(p, lst, "Len", []types.Type{in})
	method(p, lst, "Back", []types.Type{types.NewPointer(elT)})
	method(p, lst, "Front", []types.Type{types.NewPointer(elT)})
	// encoding/binary: LittleEndian.PutUint32 / Uint32
	p = mk("encoding/binary", "binary")
	leT := named(p, "littleEndian", types.NewStruct(nil, nil))
	{
		rv := types.NewParam(token.NoPos, p, "r", leT)
		sig := types.NewSignatureType(rv, nil, nil, types.NewTuple(types.NewParam(token.NoPos, p, "b", bs), types.NewParam(token.NoPos, p, "v", u32)), nil, false)
		leT.AddMethod(types.NewFunc(token.NoPos, p, "PutUint32", sig))
		sig2 := types.NewSignatureType(rv, nil, nil, types.NewTuple(types.NewParam(token.NoPos, p, "b", bs)), types.NewTuple(types.NewParam(token.NoPos, p, "", u32)), false)
		leT.AddMethod(types.NewFunc(token.NoPos, p, "Uint32", sig2))
	}
	p.Scope().Insert(types.NewVar(token.NoPos, p, "LittleEndian", leT))
	// github.com/gcash/bchutil: type Amount int64
	p = mk("github.com/gcash/bchutil", "bchutil")
	named(p, "Amount", types.Typ[types.Int64])
	for _, pk := range s.pkgs {
		pk.MarkComplete()
	}
	return s
}

func (s *stubImporter) Import(path string) (*types.Package, error) {
	if p, ok := s.pkgs[path]; ok {
		return p, nil
	}
	return nil, fmt.Errorf("imports are not resolved")
}

// ---------------------------------------------------------------------------
// value types of the monadic mode

type mkind int

const (
	mN    mkind = iota // unsigned integer of width w: Coq N, wrapped
	mZ                 // signed integer of width w: Coq Z, NOT wrapped (notes)
	mBool              // bool
	mList              // slice, array or string: Coq list of elem
	mErr               // the error type (only in result position / err variables of the recognised patterns)
	mUnit              // erased message string
	mAbs               // abstract object (an imported struct behind a pointer, or an interface): a type parameter
)

type mtype struct {
	k     mkind
	w     int
	elem  *mtype
	str   bool   // string (immutable)
	sized bool   // int8/int16/int32/int64: arithmetic wraps (int does not)
	abs   string // name of the abstract type
	alen  int64  // length of an array type (0 for slices and strings)
	// third mode only
	name string  // Coq name of a struct / sum type
	flds []fld3  // fields of a struct
	key  *mtype  // key type of a map
	// fourth mode only
	big bool // a *big.Int seen as its value
}

func (t mtype) coq() string {
	switch t.k {
	case mN:
		return "N"
	case mZ:
		return "Z"
	case mBool:
		return "bool"
	case mList:
		return "list " + t.elem.coq()
	case mUnit:
		return "unit"
	case mAbs:
		return t.abs + "_t"
	}
	return "?"
}

func (t mtype) zero() string {
	switch t.k {
	case mN:
		return "0"
	case mZ:
		return "0%Z"
	case mBool:
		return "false"
	case mList:
		if t.alen > 0 {
			return fmt.Sprintf("(List.repeat %s %d%%nat)", t.elem.zero(), t.alen)
		}
		return "[]"
	}
	return "tt"
}

func (t mtype) String() string {
	switch t.k {
	case mN:
		return fmt.Sprintf("uint%d", t.w)
	case mZ:
		return fmt.Sprintf("int%d", t.w)
	case mBool:
		return "bool"
	case mList:
		if t.str {
			return "string"
		}
		return "[]" + t.elem.String()
	case mErr:
		return "error"
	case mAbs:
		return t.abs
	}
	return "unit"
}

func isErrorType(t types.Type) bool {
	n, ok := t.(*types.Named)
	return ok && n.Obj().Pkg() == nil && n.Obj().Name() == "error"
}

// abstract types: objects the translation does not look into.  Their methods become function parameters of
// the generated definition (state-passing for the mutating ones).
var abstractStructs = map[string]bool{
	"github.com/kkdai/bstream.BStream": true,
	"container/list.List":              true,
	"container/list.Element":           true,
}

// methods of abstract struct types that do not change the object (all others are taken to mutate it);
// methods of interfaces are taken to be pure
var abstractPure = map[string]bool{
	"List.Len": true, "List.Front": true, "List.Back": true,
}

func abstractName(t types.Type) string {
	if p, ok := t.(*types.Pointer); ok {
		if n, ok := p.Elem().(*types.Named); ok && n.Obj().Pkg() != nil && abstractStructs[n.Obj().Pkg().Path()+"."+n.Obj().Name()] {
			return n.Obj().Name()
		}
	}
	if n, ok := t.(*types.Named); ok && n.Obj().Pkg() != nil {
		if i, isI := n.Underlying().(*types.Interface); isI && i.NumMethods() > 0 {
			return n.Obj().Name()
		}
	}
	return ""
}

// mt maps a Go type to a value type of the monadic mode
func (c *m2) mt(t types.Type, at ast.Node) mtype {
	if t == nil {
		c.fail(at, "expression `%s` has no type (unresolved)", c.srcText(at.Pos(), at.End()))
	}
	if isErrorType(t) {
		return mtype{k: mErr}
	}
	if n := abstractName(t); n != "" {
		return mtype{k: mAbs, abs: n}
	}
	switch u := t.Underlying().(type) {
	case *types.Basic:
		switch u.Kind() {
		case types.Uint8:
			return mtype{k: mN, w: 8}
		case types.Uint16:
			return mtype{k: mN, w: 16}
		case types.Uint32:
			return mtype{k: mN, w: 32}
		case types.Uint64, types.Uint:
			return mtype{k: mN, w: 64}
		case types.Int8:
			return mtype{k: mZ, w: 8, sized: true}
		case types.Int16:
			return mtype{k: mZ, w: 16, sized: true}
		case types.Int32:
			return mtype{k: mZ, w: 32, sized: true}
		case types.UntypedRune:
			return mtype{k: mZ, w: 32}
		case types.Int64:
			return mtype{k: mZ, w: 64, sized: true}
		case types.Int, types.UntypedInt:
			return mtype{k: mZ, w: 64}
		case types.Bool, types.UntypedBool:
			return mtype{k: mBool}
		case types.String, types.UntypedString:
			return mtype{k: mList, elem: &mtype{k: mN, w: 8}, str: true}
		case types.UntypedNil:
			return mtype{k: mList, elem: &mtype{k: mN, w: 8}}
		}
	case *types.Slice:
		e := c.mt(u.Elem(), at)
		if e.k != mN && e.k != mZ {
			c.fail(at, "unsupported element type in %s", t)
		}
		return mtype{k: mList, elem: &e}
	case *types.Array:
		e := c.mt(u.Elem(), at)
		if e.k != mN && e.k != mZ {
			c.fail(at, "unsupported element type in %s", t)
		}
		if u.Len() > 4096 {
			c.fail(at, "array type %s too large", t)
		}
		return mtype{k: mList, elem: &e, alen: u.Len()}
	}
	c.fail(at, "unsupported type %s of `%s` (monadic mode: integers, bool, string, slices/arrays of integers, error)", t, c.srcText(at.Pos(), at.End()))
	return mtype{}
}

// ---------------------------------------------------------------------------
// signatures of the translated functions (for calls)

type fsig struct {
	name         string   // Coq name
	fields       []string // receiver field paths read (Coq parameter names), in order of first use
	fieldTy      []mtype
	wfields      []string // receiver field paths written (returned)
	params       []mtype
	results      []mtype // without the error
	hasErr       bool
	fallible     bool // Coq result type is res
	fuel         bool
	consumes     []bool // parameter i is used as the base of an append (result may share its array)
	structParams bool   // has struct parameters (their fields are field parameters): not callable from translated code
	nGo          int    // number of results of the Go function (the written fields follow them)
	wfieldTy     map[string]mtype
	absTypes     []string  // abstract types (implicit type parameters)
	absMeths     []absMeth // their methods used (function parameters), in order of first use
}

type absMeth struct {
	name string // T_M
	coq  string // its Coq type
}

func (s *fsig) resType() string {
	var parts []string
	for _, r := range s.results {
		parts = append(parts, r.coq())
	}
	t := "unit"
	if len(parts) == 1 {
		t = parts[0]
	} else if len(parts) > 1 {
		t = strings.Join(parts, " * ")
	}
	if s.fallible {
		if strings.Contains(t, " ") {
			return "res (" + t + ")"
		}
		return "res " + t
	}
	return t
}

// ---------------------------------------------------------------------------
// prelude of Gen/Kernels2.v

const header2 = `(* GENERATED by harness/cmd/gotrans (monadic mode) from the Go sources; do not edit.

   Gallina transliteration, statement by statement, of functions that use slices,
   strings, early returns, errors and condition-controlled loops.
   Unsigned integers are N with the wrap "mod 2^w" written after + - * << and
   conversions; signed integers (int, int8, ...) are Z and are NOT wrapped (the
   places where they must stay in range are listed in front of each function).
   Slices, arrays and strings are lists (capacity and sharing are not modelled;
   the translator rejects the aliasing patterns where they would be observable).
   A function that can fail has type res: Ok v | Err k (k = number of the error
   return site, in source order, table in front of the function) | Panic kind
   (1 index out of range, 2 slice bounds out of range, 3 division by zero,
   4 failed type assertion, 6 makeslice: len out of range, 9 out of fuel in a
   for-cond loop).
   "L<n>:" comments quote the Go source line translated.
   Tie/Kernels2_*.v prove these functions equal to the hand-written models. *)
From Coq Require Import List NArith ZArith Bool.
From BU Require Import Lib.Bytes.
Import ListNotations.
Local Open Scope N_scope.

Module Go.

(* x[i] *)
Definition idx {A} (l : list A) (i : Z) : res A :=
  if (i <? 0)%Z then Panic 1 else nth_res l (Z.to_nat i).

Fixpoint set_at {A} (l : list A) (i : nat) (x : A) : list A :=
  match l, i with
  | [], _ => []
  | _ :: t, O => x :: t
  | y :: t, S j => y :: set_at t j x
  end.

(* x[i] = e *)
Definition upd {A} (l : list A) (i : Z) (x : A) : res (list A) :=
  if ((i <? 0) || (Z.of_nat (List.length l) <=? i))%Z then Panic 1
  else Ok (set_at l (Z.to_nat i) x).

(* x[a:b]  (for a slice Go checks b against the capacity, which is not modelled: b > len is
   reported as Panic 2, stricter than Go; exact for strings) *)
Definition slice {A} (l : list A) (a b : Z) : res (list A) :=
  if ((a <? 0) || (b <? a) || (Z.of_nat (List.length l) <? b))%Z then Panic 2
  else Ok (List.firstn (Z.to_nat (b - a)) (List.skipn (Z.to_nat a) l)).

(* make([]T, n) *)
Definition make {A} (d : A) (n : Z) : res (list A) :=
  if (n <? 0)%Z then Panic 6 else Ok (List.repeat d (Z.to_nat n)).

(* a / b, a % b with the run-time check *)
Definition divN (a b : N) : res N := if b =? 0 then Panic 3 else Ok (a / b).
Definition modN (a b : N) : res N := if b =? 0 then Panic 3 else Ok (a mod b).
Definition quotZ (a b : Z) : res Z := if (b =? 0)%Z then Panic 3 else Ok (Z.quot a b).
Definition remZ (a b : Z) : res Z := if (b =? 0)%Z then Panic 3 else Ok (Z.rem a b).

(* T(e) for a signed T of width w: two's complement wrap *)
Definition wrapZ (w : Z) (z : Z) : Z := ((z + 2 ^ (w - 1)) mod 2 ^ w - 2 ^ (w - 1))%Z.

(* index lists of the counted loops *)
Fixpoint zseq (a : Z) (n : nat) : list Z :=
  match n with O => [] | S k => a :: zseq (a + 1)%Z k end.
Fixpoint nseq (a : N) (n : nat) : list N :=
  match n with O => [] | S k => a :: nseq (a + 1) k end.
(* for i, x := range l *)
Definition enum {A} (l : list A) : list (Z * A) := List.combine (zseq 0%Z (List.length l)) l.

(* a loop whose body can panic / return an error *)
Fixpoint foldM {S A} (f : S -> A -> res S) (l : list A) (s : S) : res S :=
  match l with
  | [] => Ok s
  | x :: t => match f s x with Ok s' => foldM f t s' | Err e => Err e | Panic k => Panic k end
  end.

(* a loop whose body can also break or return a value *)
Inductive ctl (S R : Type) : Type := Next (s : S) | Brk (s : S) | Ret (r : R).
Arguments Next {S R} s.
Arguments Brk {S R} s.
Arguments Ret {S R} r.

Fixpoint foldC {S R A} (f : S -> A -> res (ctl S R)) (l : list A) (s : S) : res (ctl S R) :=
  match l with
  | [] => Ok (Next s)
  | x :: t =>
      match f s x with
      | Ok (Next s') => foldC f t s'
      | Ok (Brk s') => Ok (Next s')
      | Ok (Ret r) => Ok (Ret r)
      | Err e => Err e
      | Panic k => Panic k
      end
  end.

(* for cond { body }: fuel bounds the number of iterations, out of fuel = Panic 9 *)
Fixpoint whileM {S} (fuel : nat) (cond : S -> bool) (body : S -> res S) (s : S) : res S :=
  if cond s then
    match fuel with
    | O => Panic 9
    | Datatypes.S f => match body s with Ok s' => whileM f cond body s' | Err e => Err e | Panic k => Panic k end
    end
  else Ok s.

Fixpoint whileC {S R} (fuel : nat) (cond : S -> bool) (body : S -> res (ctl S R)) (s : S) : res (ctl S R) :=
  if cond s then
    match fuel with
    | O => Panic 9
    | Datatypes.S f =>
        match body s with
        | Ok (Next s') => whileC f cond body s'
        | Ok (Brk s') => Ok (Next s')
        | Ok (Ret r) => Ok (Ret r)
        | Err e => Err e
        | Panic k => Panic k
        end
    end
  else Ok (Next s).

(* ---- intrinsics: library functions whose meaning is given by hand (TRUSTED) ---- *)

(* string(b) for a byte b: the UTF-8 encoding of the code point b *)
Definition string_of_byte (b : N) : list N :=
  if b <? 128 then [b] else [192 + b / 64; 128 + b mod 64].

(* strings.ToLower / strings.ToUpper: exact when every byte is ASCII (< 128) *)
Definition to_lower (s : list N) : list N :=
  List.map (fun c => if (65 <=? c) && (c <=? 90) then c + 32 else c) s.
Definition to_upper (s : list N) : list N :=
  List.map (fun c => if (97 <=? c) && (c <=? 122) then c - 32 else c) s.

(* strings.IndexByte(s, c): first index of c in s, -1 when absent *)
Fixpoint index_byte_from (s : list N) (c : N) (i : Z) : Z :=
  match s with [] => (-1)%Z | x :: t => if x =? c then i else index_byte_from t c (i + 1)%Z end.
Definition index_byte (s : list N) (c : N) : Z := index_byte_from s c 0%Z.

(* strings.LastIndexByte(s, c): last index of c in s, -1 when absent *)
Fixpoint last_index_byte_from (s : list N) (c : N) (i best : Z) : Z :=
  match s with [] => best | x :: t => last_index_byte_from t c (i + 1)%Z (if x =? c then i else best) end.
Definition last_index_byte (s : list N) (c : N) : Z := last_index_byte_from s c 0%Z (-1)%Z.

(* copy(dst[off:], src), dst a local array: overwrites min(len dst - off, len src) elements; the new dst *)
Definition copy_at {A} (dst : list A) (off : Z) (src : list A) : res (list A) :=
  if ((off <? 0) || (Z.of_nat (List.length dst) <? off))%Z then Panic 2 else
  let o := Z.to_nat off in
  let n := Nat.min (List.length dst - o) (List.length src) in
  Ok (List.firstn o dst ++ List.firstn n src ++ List.skipn (o + n) dst).

(* binary.LittleEndian.PutUint32(dst[off:], v), dst a local array: the new dst (Panic 1 when fewer than 4
   bytes remain, as the bounds check of the library) *)
Definition put_le32 (dst : list N) (off : Z) (v : N) : res (list N) :=
  if ((off <? 0) || (Z.of_nat (List.length dst) <? off))%Z then Panic 2 else
  if (Z.of_nat (List.length dst) - off <? 4)%Z then Panic 1 else
  let o := Z.to_nat off in
  Ok (List.firstn o dst ++ [v mod 256; (v / 256) mod 256; (v / 65536) mod 256; (v / 16777216) mod 256]
      ++ List.skipn (o + 4) dst).

(* bytes.Compare(a, b): -1, 0, +1 lexicographically *)
Fixpoint bytes_compare (a b : list N) : Z :=
  match a, b with
  | [], [] => 0%Z
  | [], _ :: _ => (-1)%Z
  | _ :: _, [] => 1%Z
  | x :: a', y :: b' => if x <? y then (-1)%Z else if y <? x then 1%Z else bytes_compare a' b'
  end.

End Go.

`

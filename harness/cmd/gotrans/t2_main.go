package main

// Monadic mode: per-function driver, pre-passes (error sites, erased message strings, aliasing
// discipline) and the writer of Gen/Kernels2.v.

import (
	"fmt"
	"go/ast"
	"go/token"
	"go/types"
	"path/filepath"
	"strings"
)

// functions translated into Gen/Kernels2.v, callees before callers
var kernels2 = []k2spec{
	{pkg: ".", recv: "", fn: "cat", name: "cat"},
	{pkg: ".", recv: "", fn: "lowerCase", name: "lowerCase"},
	{pkg: ".", recv: "", fn: "expandPrefix", name: "expandPrefix"},
	{pkg: ".", recv: "", fn: "verifyChecksum", name: "verifyChecksum"},
	{pkg: ".", recv: "", fn: "createChecksum", name: "createChecksum"},
	{pkg: ".", recv: "", fn: "convertBits", name: "convertBits"},
	{pkg: ".", recv: "", fn: "packAddressData", name: "packAddressData"},
	{pkg: ".", recv: "", fn: "DecodeCashAddress", name: "DecodeCashAddress"},
	{pkg: ".", recv: "", fn: "encode", name: "encode"},
	{pkg: ".", recv: "", fn: "checkEncodeCashAddress", name: "checkEncodeCashAddress"},
	{pkg: "bech32", recv: "", fn: "bech32Polymod", name: "bech32Polymod"},
	{pkg: "bech32", recv: "", fn: "bech32HrpExpand", name: "bech32HrpExpand"},
	{pkg: "bech32", recv: "", fn: "bech32Checksum", name: "bech32Checksum"},
	{pkg: "bech32", recv: "", fn: "bech32VerifyChecksum", name: "bech32VerifyChecksum"},
	{pkg: "bech32", recv: "", fn: "toBytes", name: "toBytes"},
	{pkg: "bech32", recv: "", fn: "toChars", name: "toChars"},
	{pkg: "bech32", recv: "", fn: "ConvertBits", name: "ConvertBits"},
	{pkg: "bech32", recv: "", fn: "Decode", name: "Decode"},
	{pkg: "bech32", recv: "", fn: "Encode", name: "Encode"},
	{pkg: "bloom", recv: "Filter", fn: "hash", name: "Filter_hash"},
	{pkg: "bloom", recv: "Filter", fn: "matches", name: "Filter_matches"},
	{pkg: "bloom", recv: "Filter", fn: "add", name: "Filter_add"},
	{pkg: "bloom", recv: "Filter", fn: "matchesOutPoint", name: "Filter_matchesOutPoint"},
	{pkg: "bloom", recv: "Filter", fn: "addOutPoint", name: "Filter_addOutPoint"},
	{pkg: "bloom", recv: "merkleBlock", fn: "calcTreeWidth", name: "bloom_merkleBlock_calcTreeWidth"},
	{pkg: "merkleblock", recv: "MerkleBlock", fn: "calcTreeWidth", name: "MerkleBlock_calcTreeWidth"},
	{pkg: "merkleblock", recv: "PartialBlock", fn: "calcTreeWidth", name: "PartialBlock_calcTreeWidth"},
	{pkg: "coinset", recv: "", fn: "satisfiesTargetValue", name: "satisfiesTargetValue"},
	{pkg: "txsort", recv: "sortableInputSlice", fn: "Less", name: "sortableInputSlice_Less"},
	{pkg: "txsort", recv: "sortableOutputSlice", fn: "Less", name: "sortableOutputSlice_Less"},
	{pkg: ".", recv: "", fn: "paddedAppend", name: "wif_paddedAppend"},
	{pkg: "hdkeychain", recv: "", fn: "paddedAppend", name: "hdkeychain_paddedAppend"},
	{pkg: "gcs", recv: "Filter", fn: "readFullUint64", name: "Filter_readFullUint64"},
	{pkg: "gcs", fn: "BuildGCSFilter", name: "BuildGCSFilter_golomb", from: "var value, lastValue, remainder uint64", to: "for _, v := range values {"},
	{pkg: "coinset", recv: "CoinSet", fn: "PushCoin", name: "CoinSet_PushCoin"},
	{pkg: "coinset", recv: "CoinSet", fn: "removeElement", name: "CoinSet_removeElement"},
	{pkg: "coinset", recv: "CoinSet", fn: "PopCoin", name: "CoinSet_PopCoin"},
	{pkg: "coinset", recv: "CoinSet", fn: "ShiftCoin", name: "CoinSet_ShiftCoin"},
}

func (p *pkgInfo) findMethod(recv, name string) *ast.FuncDecl {
	if recv == "" {
		return p.findFunc(name)
	}
	for _, f := range p.files {
		for _, d := range f.Decls {
			fd, ok := d.(*ast.FuncDecl)
			if !ok || fd.Recv == nil || fd.Name.Name != name || fd.Body == nil || len(fd.Recv.List) != 1 {
				continue
			}
			t := fd.Recv.List[0].Type
			if st, ok := t.(*ast.StarExpr); ok {
				t = st.X
			}
			if id, ok := t.(*ast.Ident); ok && id.Name == recv {
				return fd
			}
		}
	}
	return nil
}

func loadPkg2(dir string) (*pkgInfo, error) { return loadPkgWith(dir, newStubImporter()) }

// ---------------------------------------------------------------------------
// pre-passes

func (c *m2) numberSites() {
	c.siteOf = map[*ast.ReturnStmt]int{}
	if !c.sig.hasErr {
		ast.Inspect(c.bodyNode, func(n ast.Node) bool {
			if _, isLit := n.(*ast.FuncLit); isLit {
				c.fail(n, "function literal")
			}
			if r, ok := n.(*ast.ReturnStmt); ok && c.spec.from != "" {
				c.fail(r, "return inside a translated fragment")
			}
			return true
		})
		return
	}
	ast.Inspect(c.bodyNode, func(n ast.Node) bool {
		if _, isLit := n.(*ast.FuncLit); isLit {
			c.fail(n, "function literal")
		}
		r, ok := n.(*ast.ReturnStmt)
		if !ok {
			return true
		}
		if c.spec.from != "" {
			c.fail(r, "return inside a translated fragment")
		}
		if len(r.Results) != len(c.sig.results)+1 {
			c.fail(r, "return with %d results in a function with %d", len(r.Results), len(c.sig.results)+1)
		}
		e := r.Results[len(r.Results)-1]
		if isNil(e) {
			return true
		}
		c.sites = append(c.sites, fmt.Sprintf("L%d: %s", c.line(r), c.srcText(e.Pos(), e.End())))
		c.siteOf[r] = len(c.sites)
		return true
	})
}

// computeErased: string variables that only ever flow into fmt.* calls and are only assigned constants or
// fmt.Sprintf results carry no observable information (error texts are not modelled): they are erased.
func (c *m2) computeErased() {
	c.erased = map[types.Object]bool{}
	cand := map[types.Object]bool{}
	bad := map[types.Object]bool{}
	var stack []ast.Node
	isFmtCall := func(n ast.Node) bool {
		ce, ok := n.(*ast.CallExpr)
		if !ok {
			return false
		}
		path, _, ok := c.pkgCall(ce)
		return ok && path == "fmt"
	}
	okRhs := func(e ast.Expr) bool {
		if tv, ok := c.p.info.Types[e]; ok && tv.Value != nil {
			return true
		}
		return isFmtCall(e)
	}
	ast.Inspect(c.bodyNode, func(n ast.Node) bool {
		if n == nil {
			stack = stack[:len(stack)-1]
			return true
		}
		stack = append(stack, n)
		id, ok := n.(*ast.Ident)
		if !ok {
			return true
		}
		o := c.obj(id)
		v, isVar := o.(*types.Var)
		if !isVar || !c.isLocal(o) {
			return true
		}
		if b, ok := v.Type().Underlying().(*types.Basic); !ok || b.Kind() != types.String {
			return true
		}
		for _, f := range c.fn.Type.Params.List {
			for _, pn := range f.Names {
				if c.p.info.Defs[pn] == o {
					return true
				}
			}
		}
		cand[o] = true
		parent := stack[len(stack)-2]
		switch p := parent.(type) {
		case *ast.AssignStmt:
			for i, l := range p.Lhs {
				if l == ast.Expr(id) {
					if len(p.Lhs) != len(p.Rhs) || (p.Tok != token.DEFINE && p.Tok != token.ASSIGN) || !okRhs(p.Rhs[i]) {
						bad[o] = true
					}
					return true
				}
			}
			bad[o] = true
		case *ast.ValueSpec:
			for i, l := range p.Names {
				if l == id && i < len(p.Values) && !okRhs(p.Values[i]) {
					bad[o] = true
				}
			}
		case *ast.CallExpr:
			if !isFmtCall(p) {
				bad[o] = true
			}
		default:
			bad[o] = true
		}
		return true
	})
	for o := range cand {
		if !bad[o] {
			c.erased[o] = true
		}
	}
}

func (c *m2) isParam(o types.Object) int {
	i := 0
	for _, f := range c.fn.Type.Params.List {
		for _, n := range f.Names {
			if c.p.info.Defs[n] == o {
				return i
			}
			i++
		}
	}
	return -1
}

func (c *m2) isMutableSlice(o types.Object) bool {
	if o == nil {
		return false
	}
	_, ok := o.Type().Underlying().(*types.Slice)
	return ok
}

// aliasCheck enforces the discipline under which "a slice is the list of its elements" is sound:
// see design/notes_translator.md ("Sharing").
func (c *m2) aliasCheck() {
	type use struct {
		id    *ast.Ident
		loops []ast.Node
	}
	writes := map[types.Object][]use{}
	escapes := map[types.Object][]use{}
	resliced := map[types.Object]bool{}
	var stack []ast.Node
	curLoops := func() []ast.Node {
		var l []ast.Node
		for _, n := range stack {
			switch n.(type) {
			case *ast.ForStmt, *ast.RangeStmt:
				l = append(l, n)
			}
		}
		return l
	}
	var appendBases []use
	appendBack := map[*ast.Ident]bool{}
	ast.Inspect(c.bodyNode, func(n ast.Node) bool {
		if n == nil {
			stack = stack[:len(stack)-1]
			return true
		}
		stack = append(stack, n)
		switch s := n.(type) {
		case *ast.AssignStmt:
			for i, l := range s.Lhs {
				lid, isId := l.(*ast.Ident)
				if !isId || !c.isMutableSlice(c.obj(lid)) || i >= len(s.Rhs) || len(s.Lhs) != len(s.Rhs) {
					continue
				}
				r := s.Rhs[i]
				for {
					p, ok := r.(*ast.ParenExpr)
					if !ok {
						break
					}
					r = p.X
				}
				switch r := r.(type) {
				case *ast.SliceExpr:
					resliced[c.obj(lid)] = true
				case *ast.Ident:
					if r.Name != "nil" {
						resliced[c.obj(lid)] = true
						if o := c.obj(r); o != nil {
							resliced[o] = true
						}
					}
				case *ast.CallExpr:
					if base := c.appendBase(r); base != nil && c.obj(base) == c.obj(lid) {
						appendBack[base] = true
					}
				}
			}
		case *ast.CallExpr:
			if base := c.appendBase(s); base != nil {
				appendBases = append(appendBases, use{base, curLoops()})
			}
		case *ast.Ident:
			o := c.obj(s)
			if !c.isLocal(o) || !c.isMutableSlice(o) || len(stack) < 2 {
				return true
			}
			parent := stack[len(stack)-2]
			switch p := parent.(type) {
			case *ast.IndexExpr:
				if p.X == ast.Expr(s) {
					// write or read of an element
					if len(stack) >= 3 {
						switch g := stack[len(stack)-3].(type) {
						case *ast.AssignStmt:
							for _, l := range g.Lhs {
								if l == ast.Expr(p) {
									writes[o] = append(writes[o], use{s, curLoops()})
								}
							}
						case *ast.IncDecStmt:
							writes[o] = append(writes[o], use{s, curLoops()})
						}
					}
					return true
				}
			case *ast.CallExpr:
				if fid, ok := p.Fun.(*ast.Ident); ok && fid.Name == "len" {
					return true
				}
				// append(x, ys...) copies the elements of ys
				if fid, ok := p.Fun.(*ast.Ident); ok && fid.Name == "append" && p.Ellipsis.IsValid() && len(p.Args) == 2 && p.Args[1] == ast.Expr(s) {
					if _, isB := c.obj(fid).(*types.Builtin); isB {
						return true
					}
				}
			case *ast.RangeStmt:
				if p.X == ast.Expr(s) {
					return true
				}
			case *ast.AssignStmt:
				for _, l := range p.Lhs {
					if l == ast.Expr(s) {
						return true
					}
				}
			case *ast.ValueSpec:
				return true
			}
			escapes[o] = append(escapes[o], use{s, curLoops()})
		}
		return true
	})
	for o, ws := range writes {
		if c.isParam(o) >= 0 {
			c.fail(ws[0].id, "assignment to an element of the parameter `%s` (an effect on the caller's memory)", o.Name())
		}
		if resliced[o] {
			c.fail(ws[0].id, "assignment to an element of `%s`, which shares its array with another variable", o.Name())
		}
		for _, e := range escapes[o] {
			for _, w := range ws {
				if e.id.Pos() < w.id.Pos() {
					c.fail(w.id, "assignment to an element of `%s` after the slice was passed on at %s (sharing is not modelled)", o.Name(), c.p.fset.Position(e.id.Pos()))
				}
				for _, l1 := range e.loops {
					for _, l2 := range w.loops {
						if l1 == l2 {
							c.fail(w.id, "assignment to an element of `%s` in a loop that also passes the slice on (sharing is not modelled)", o.Name())
						}
					}
				}
			}
		}
	}
	count := map[types.Object]int{}
	for _, b := range appendBases {
		o := c.obj(b.id)
		if !c.isLocal(o) {
			c.fail(b.id, "append to the non-local `%s`", b.id.Name)
		}
		if resliced[o] {
			c.fail(b.id, "append to `%s`, which shares its array with another variable (the append could overwrite the other's elements)", b.id.Name)
		}
		if i := c.isParam(o); i >= 0 {
			c.sig.consumes[i] = true
		}
		if appendBack[b.id] {
			continue
		}
		count[o]++
		if count[o] > 1 || len(b.loops) > 0 {
			c.fail(b.id, "`%s` is the base of several appends whose results are not assigned back to it (they may share one array)", b.id.Name)
		}
		// the base must not be written or appended to later
		for _, other := range appendBases {
			if c.obj(other.id) == o && other.id.Pos() > b.id.Pos() {
				c.fail(other.id, "`%s` is appended to after an append whose result went elsewhere (the two results may share one array)", b.id.Name)
			}
		}
	}
}

// appendBase: the identifier x in append(x, ..) or in a call f(.., x, ..) of a translated function that
// appends to that parameter
func (c *m2) appendBase(e *ast.CallExpr) *ast.Ident {
	strip := func(a ast.Expr) *ast.Ident {
		for {
			p, ok := a.(*ast.ParenExpr)
			if !ok {
				break
			}
			a = p.X
		}
		id, _ := a.(*ast.Ident)
		if id != nil && !c.isMutableSlice(c.obj(id)) {
			return nil
		}
		return id
	}
	if id, ok := e.Fun.(*ast.Ident); ok {
		if b, isB := c.obj(id).(*types.Builtin); isB && b.Name() == "append" && len(e.Args) > 0 {
			return strip(e.Args[0])
		}
	}
	if s := c.calleeSig(e); s != nil {
		for i, a := range e.Args {
			if i < len(s.consumes) && s.consumes[i] {
				if id := strip(a); id != nil {
					return id // (one consuming parameter per call is enough for the functions at hand)
				}
			}
		}
	}
	return nil
}

// ---------------------------------------------------------------------------
// a whole function

func (c *m2) translate2() (out string, err error) {
	defer func() {
		if r := recover(); r != nil {
			if te, ok := r.(transErr); ok {
				err = te
				return
			}
			panic(r)
		}
	}()
	fn := c.fn
	c.checkLocalNames5()
	if fn.Type.TypeParams != nil {
		c.fail(fn, "generic function")
	}
	c.checkNames()
	c.sig = &fsig{name: c.spec.name}
	c.nonNil = map[types.Object]bool{}
	if fn.Recv != nil {
		if len(fn.Recv.List[0].Names) == 1 {
			c.recvObj = c.p.info.Defs[fn.Recv.List[0].Names[0]]
		}
	}
	type par struct {
		name string
		t    mtype
	}
	var params []par
	c.body = fn.Body.List
	c.bodyNode = fn.Body
	if c.spec.from != "" {
		lo, hi := -1, -1
		for i, s := range fn.Body.List {
			fl := c.firstLine(s)
			if lo < 0 && strings.HasPrefix(fl, commentSafe(c.spec.from)) {
				lo = i
			}
			if lo >= 0 && hi < 0 && strings.HasPrefix(fl, commentSafe(c.spec.to)) {
				hi = i
			}
		}
		if lo < 0 || hi < lo {
			c.fail(fn, "fragment `%s` .. `%s` not found among the statements of %s", c.spec.from, c.spec.to, fn.Name.Name)
		}
		c.body = fn.Body.List[lo : hi+1]
		c.bodyNode = &ast.BlockStmt{Lbrace: c.body[0].Pos(), List: c.body, Rbrace: c.body[len(c.body)-1].End()}
		// parameters: the variables declared before the fragment that it mentions (fields of local structs
		// become field parameters as usual)
		seen := map[types.Object]bool{}
		start := c.body[0].Pos()
		ast.Inspect(c.bodyNode, func(n ast.Node) bool {
			id, ok := n.(*ast.Ident)
			if !ok {
				return true
			}
			o := c.obj(id)
			v, isVar := o.(*types.Var)
			if !isVar || !c.isLocal(o) || o.Pos() >= start || seen[o] || v.IsField() {
				return true
			}
			seen[o] = true
			if _, isRoot := c.fieldPath(id); isRoot {
				return true
			}
			t := c.mt(o.Type(), id)
			params = append(params, par{coqName(id.Name), t})
			c.sig.params = append(c.sig.params, t)
			if t.k == mAbs {
				c.needAbsType(t.abs)
			}
			return true
		})
	}
	for _, f := range fn.Type.Params.List {
		if c.spec.from != "" {
			break
		}
		if len(f.Names) == 0 {
			c.fail(f, "unnamed parameter")
		}
		for _, n := range f.Names {
			if n.Name == "_" {
				c.fail(n, "blank parameter")
			}
			if _, isRoot := c.fieldPath(n); isRoot {
				// a struct (or pointer to struct) parameter: the fields read become parameters
				c.sig.structParams = true
				continue
			}
			t := c.mt(c.p.info.Defs[n].Type(), n)
			if t.k == mErr {
				c.fail(n, "parameter of type error")
			}
			params = append(params, par{coqName(n.Name), t})
			c.sig.params = append(c.sig.params, t)
		}
	}
	c.sig.consumes = make([]bool, len(params))
	if fn.Type.Results != nil && c.spec.from == "" {
		for i, rf := range fn.Type.Results.List {
			if len(rf.Names) > 0 {
				c.fail(rf, "named result")
			}
			t := c.mt(c.p.info.Types[rf.Type].Type, rf.Type)
			if t.k == mErr {
				if i != len(fn.Type.Results.List)-1 {
					c.fail(rf, "error result that is not the last result")
				}
				c.sig.hasErr = true
				continue
			}
			c.sig.results = append(c.sig.results, t)
		}
	}
	c.numberSites()
	c.computeErased()
	c.aliasCheck()
	run := func(fallible bool) string {
		c.sb.Reset()
		c.pend = nil
		c.ntmp = 0
		c.effect = false
		c.usesFuel = false
		c.fallible = fallible
		if c.spec.from != "" {
			// a fragment yields the variables declared before it that it assigns
			for _, o := range c.assigned2(c.body, c.body[0].Pos()) {
				if c.fieldObjs != nil && c.fieldObjs[strings.TrimPrefix(o.Name(), synthMark)] == o {
					continue
				}
				c.addWFieldT(coqName(o.Name()), c.mt(o.Type(), c.body[0]))
			}
		}
		c.blk(c.body, "  ", func(ind string) {
			if len(c.sig.results) > 0 || c.sig.hasErr {
				c.fail(fn, "function body does not end with a return")
			}
			// a procedure: yields the receiver fields it wrote
			var vals []string
			for _, w := range c.sig.wfields {
				vals = append(vals, w)
			}
			v := "tt"
			if len(vals) == 1 {
				v = vals[0]
			} else if len(vals) > 1 {
				v = "(" + strings.Join(vals, ", ") + ")"
			}
			c.emitf(ind, "%s", c.retText(v))
		})
		return c.sb.String()
	}
	body := run(true)
	if !c.effect && !c.sig.hasErr {
		body = run(false)
	} else if len(c.sig.wfields) > 0 {
		body = run(true) // the set of written fields is known only after the first pass
	}
	c.sig.fallible = c.fallible
	c.sig.fuel = c.usesFuel
	// written fields are extra results
	c.sig.nGo = len(c.sig.results)
	for _, w := range c.sig.wfields {
		c.sig.results = append(c.sig.results, c.sig.wfieldTy[w])
	}
	for _, te := range c.p.typeErr {
		if te.Pos >= c.bodyNode.Pos() && te.Pos < c.bodyNode.End() {
			c.fail(fn, "type error inside the function: %s", te.Error())
		}
	}
	var sb strings.Builder
	pos := c.p.fset.Position(fn.Pos())
	fmt.Fprintf(&sb, "(* ---- %s/%s:%d   %s ----\n", c.p.name, filepath.Base(pos.Filename), pos.Line, c.srcText(fn.Pos(), fn.Body.Lbrace))
	if c.spec.from != "" {
		fmt.Fprintf(&sb, "   FRAGMENT: the statements from L%d `%s` to L%d `%s`; the variables declared before it are parameters.\n",
			c.line(c.body[0]), c.firstLine(c.body[0]), c.line(c.body[len(c.body)-1]), c.firstLine(c.body[len(c.body)-1]))
	}
	if len(c.sig.absTypes) > 0 {
		fmt.Fprintf(&sb, "   Abstract objects (type parameters %s); their methods are parameters, state-passing when they change the object.\n", strings.Join(c.sig.absTypes, ", "))
	}
	if len(c.sig.fields) > 0 {
		fmt.Fprintf(&sb, "   Receiver fields read, passed as parameters: %s\n", strings.Join(c.sig.fields, ", "))
	}
	if len(c.sig.wfields) > 0 {
		fmt.Fprintf(&sb, "   Fields / objects / variables written, returned (after the Go results): %s\n", strings.Join(c.sig.wfields, ", "))
	}
	if c.sig.fuel {
		fmt.Fprintf(&sb, "   fuel bounds the iterations of each `for cond` loop (Panic 9 when exhausted).\n")
	}
	if len(c.sites) > 0 {
		fmt.Fprintf(&sb, "   Error return sites (Err k):\n")
		for i, s := range c.sites {
			fmt.Fprintf(&sb, "     %d = %s\n", i+1, s)
		}
	}
	if len(c.notes) > 0 {
		fmt.Fprintf(&sb, "   Assumed by the translation, NOT modelled:\n")
		for _, n := range c.notes {
			fmt.Fprintf(&sb, "     - %s\n", n)
		}
	}
	fmt.Fprintf(&sb, "*)\n")
	var ps []string
	for _, t := range c.sig.absTypes {
		ps = append(ps, fmt.Sprintf("{%s_t : Type}", t))
	}
	if c.sig.fuel {
		ps = append(ps, "(fuel : nat)")
	}
	for _, am := range c.sig.absMeths {
		ps = append(ps, fmt.Sprintf("(%s : %s)", am.name, am.coq))
	}
	for i, f := range c.sig.fields {
		ps = append(ps, fmt.Sprintf("(%s : %s)", f, c.sig.fieldTy[i].coq()))
	}
	for _, p := range params {
		ps = append(ps, fmt.Sprintf("(%s : %s)", p.name, p.t.coq()))
	}
	sep := " "
	if len(ps) == 0 {
		sep = ""
	}
	fmt.Fprintf(&sb, "Definition %s%s%s : %s :=\n", c.spec.name, sep, strings.Join(ps, " "), c.sig.resType())
	sb.WriteString(strings.TrimRight(body, "\n"))
	sb.WriteString(".\n")
	return sb.String(), nil
}

// ---------------------------------------------------------------------------
// the file

// buildKernels2 returns the text of Gen/Kernels2.v, or the list of errors
func buildKernels2(repo string, specs []k2spec) (string, []string) {
	repoRoot5 = repo
	consts := &tableSet{defs: map[string]string{}, lens: map[string]int{}}
	pkgs := map[string]*pkgInfo{}
	funcs := map[string]*fsig{}
	k1calls := map[string]bool{}
	var defs, errs, locals []string
	for _, k := range specs {
		p := pkgs[k.pkg]
		if p == nil {
			var err error
			p, err = loadPkg2(filepath.Join(repo, k.pkg))
			if err != nil {
				errs = append(errs, fmt.Sprintf("%s.%s: %v", k.pkg, k.fn, err))
				continue
			}
			pkgs[k.pkg] = p
		}
		fn := p.findMethod(k.recv, k.fn)
		if fn == nil {
			errs = append(errs, fmt.Sprintf("%s: function %s%s not found in package %s", filepath.Join(repo, k.pkg), k.recv, "."+k.fn, p.name))
			continue
		}
		c := &m2{ctx: &ctx{errShadowOK: true, p: p, fn: fn, safeIdx: map[types.Object]int64{}, intrins: map[string]bool{}}, spec: k, funcs: funcs, consts: consts, k1calls: k1calls}
		s, err := c.translate2()
		if err != nil {
			errs = append(errs, fmt.Sprintf("%s: outside the supported subset (monadic mode): %v", k.name, err))
			continue
		}
		funcs[k.pkg+":"+k.recv+"."+k.fn] = c.sig
		defs = append(defs, s)
		locals = append(locals, c.localNames()...)
	}
	globals := map[string]bool{"fuel": true, "Ok": true, "Err": true, "Panic": true, "tt": true, "k_": true, "e_": true, "r_": true}
	for _, k := range specs {
		globals[k.name] = true
	}
	for _, n := range consts.order {
		globals[n] = true
	}
	for _, l := range locals {
		if globals[l] {
			errs = append(errs, fmt.Sprintf("local variable `%s` has the name of a definition of the generated file", l))
		}
	}
	if len(errs) > 0 {
		return "", errs
	}
	var sb strings.Builder
	sb.WriteString(header2)
	if len(k1calls) > 0 {
		sb.WriteString("(* calls of the kernels of the first mode *)\nFrom BU Require Gen.Kernels.\n\n")
	}
	for _, n := range consts.order {
		sb.WriteString(consts.defs[n])
		sb.WriteString("\n")
	}
	sb.WriteString(strings.Join(defs, "\n"))
	return sb.String(), nil
}

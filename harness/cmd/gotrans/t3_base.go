package main

// Third mode of the translator (Gen/Kernels3.v): records, pointers, interfaces, errors as values,
// abstract dependencies as Section variables, recursion with fuel, maps.
// Semantics: design/notes_translator.md, section "Phase 3".
//
// This file: the stub importer (Go source text of the declarations of imported packages that the
// translated functions mention: only TYPES are taken from it), the configuration of what is abstract, and
// the prelude of the generated file.

import (
	"verif/harness/internal/srcsel"
	"fmt"
	"go/ast"
	"go/parser"
	"go/token"
	"go/types"
	"os"
	"path/filepath"
	"sort"
	"strings"
)

// ---------------------------------------------------------------------------
// stub packages: signatures only (bodies are `panic(0)`); TRUSTED declarations.  A wrong declaration would
// make the real build fail or change a width; the differential tests exercise them.

var stubSrc3 = map[string]string{
	"errors": `package errors
func New(text string) error { panic(0) }`,
	"fmt": `package fmt
func Errorf(format string, a ...interface{}) error { panic(0) }
func Sprintf(format string, a ...interface{}) string { panic(0) }`,
	"io": `package io
import "errors"
var EOF = errors.New("EOF")
var ErrUnexpectedEOF = errors.New("unexpected EOF")
type Reader interface { Read(p []byte) (n int, err error) }
type Writer interface { Write(p []byte) (n int, err error) }`,
	"strings": `package strings
func ToLower(s string) string { panic(0) }
func ToUpper(s string) string { panic(0) }
func IndexByte(s string, c byte) int { panic(0) }
func LastIndexByte(s string, c byte) int { panic(0) }
func EqualFold(s, t string) bool { panic(0) }`,
	"bytes": `package bytes
func Compare(a, b []byte) int { panic(0) }
func Equal(a, b []byte) bool { panic(0) }
type Buffer struct{ opaque int }
func NewBuffer(buf []byte) *Buffer { panic(0) }
func (b *Buffer) Bytes() []byte { panic(0) }
func (b *Buffer) Grow(n int) { panic(0) }
func (b *Buffer) Write(p []byte) (n int, err error) { panic(0) }
func (b *Buffer) WriteByte(c byte) error { panic(0) }
func (b *Buffer) Read(p []byte) (n int, err error) { panic(0) }
type Reader struct{ opaque int }
func NewReader(b []byte) *Reader { panic(0) }
func (r *Reader) Len() int { panic(0) }
func (r *Reader) Read(p []byte) (n int, err error) { panic(0) }`,
	"encoding/hex": `package hex
func DecodeString(s string) ([]byte, error) { panic(0) }
func EncodeToString(src []byte) string { panic(0) }`,
	"encoding/base64": `package base64
type Encoding struct{ opaque int }
var StdEncoding = &Encoding{}
func (enc *Encoding) DecodeString(s string) ([]byte, error) { panic(0) }
func (enc *Encoding) EncodeToString(src []byte) string { panic(0) }`,
	"encoding/binary": `package binary
type littleEndian struct{}
type bigEndian struct{}
var LittleEndian littleEndian
var BigEndian bigEndian
func (littleEndian) PutUint32(b []byte, v uint32) { panic(0) }
func (littleEndian) Uint32(b []byte) uint32 { panic(0) }
func (bigEndian) PutUint32(b []byte, v uint32) { panic(0) }
func (bigEndian) Uint32(b []byte) uint32 { panic(0) }`,
	"crypto/sha256": `package sha256
import "hash"
const Size = 32
func Sum256(data []byte) [Size]byte { panic(0) }
func New() hash.Hash { panic(0) }`,
	"crypto/sha512": `package sha512
import "hash"
func New() hash.Hash { panic(0) }`,
	"hash": `package hash
type Hash interface {
	Write(p []byte) (n int, err error)
	Sum(b []byte) []byte
}`,
	"crypto/hmac": `package hmac
import "hash"
func New(h func() hash.Hash, key []byte) hash.Hash { panic(0) }`,
	"crypto/rand": `package rand
func Read(b []byte) (n int, err error) { panic(0) }`,
	"crypto/ecdsa": `package ecdsa
import "math/big"
type PublicKey struct { Curve interface{}; X, Y *big.Int }
type PrivateKey struct { PublicKey; D *big.Int }`,
	"math/big": `package big
type Int struct{ opaque int }
func NewInt(x int64) *Int { panic(0) }
func (z *Int) Bytes() []byte { panic(0) }
func (z *Int) SetBytes(buf []byte) *Int { panic(0) }
func (z *Int) Cmp(y *Int) int { panic(0) }
func (z *Int) Sign() int { panic(0) }
func (z *Int) Add(x, y *Int) *Int { panic(0) }
func (z *Int) Mod(x, y *Int) *Int { panic(0) }
func (z *Int) Mul(x, y *Int) *Int { panic(0) }
func (z *Int) DivMod(x, y, m *Int) (*Int, *Int) { panic(0) }
func (z *Int) SetInt64(x int64) *Int { panic(0) }
func (x *Int) Int64() int64 { panic(0) }`,
	"sort": `package sort
type Interface interface { Len() int; Less(i, j int) bool; Swap(i, j int) }
func Sort(data Interface) { panic(0) }
func IsSorted(data Interface) bool { panic(0) }
func Reverse(data Interface) Interface { panic(0) }
func Slice(x interface{}, less func(i, j int) bool) { panic(0) }`,
	"sync": `package sync
type Mutex struct{ opaque int }
func (m *Mutex) Lock() { panic(0) }
func (m *Mutex) Unlock() { panic(0) }
type RWMutex struct{ opaque int }
func (m *RWMutex) Lock() { panic(0) }
func (m *RWMutex) Unlock() { panic(0) }
func (m *RWMutex) RLock() { panic(0) }
func (m *RWMutex) RUnlock() { panic(0) }`,
	"math": `package math
const Ln2 = 0.693147180559945309417232121458176568
const MaxUint32 = 1<<32 - 1
func Log(x float64) float64 { panic(0) }
func Round(x float64) float64 { panic(0) }
func IsNaN(f float64) bool { panic(0) }
func IsInf(f float64, sign int) bool { panic(0) }
func Pow10(n int) float64 { panic(0) }`,
	"strconv": `package strconv
func FormatInt(i int64, base int) string { panic(0) }
func FormatFloat(f float64, fmt byte, prec, bitSize int) string { panic(0) }
func Itoa(i int) string { panic(0) }`,
	"container/list": `package list
type Element struct { Value interface{} }
func (e *Element) Next() *Element { panic(0) }
type List struct{ opaque int }
func New() *List { panic(0) }
func (l *List) PushBack(v interface{}) *Element { panic(0) }
func (l *List) Remove(e *Element) interface{} { panic(0) }
func (l *List) Len() int { panic(0) }
func (l *List) Back() *Element { panic(0) }
func (l *List) Front() *Element { panic(0) }`,
	"golang.org/x/crypto/ripemd160": `package ripemd160
import "hash"
const Size = 20
func New() hash.Hash { panic(0) }`,
	"github.com/kkdai/bstream": `package bstream
type BStream struct{ opaque int }
func (b *BStream) ReadBit() (bool, error) { panic(0) }
func (b *BStream) ReadBits(n int) (uint64, error) { panic(0) }
func (b *BStream) WriteBit(x bool) { panic(0) }
func (b *BStream) WriteBits(v uint64, n int) { panic(0) }
func (b *BStream) Bytes() []byte { panic(0) }
func NewBStreamWriter(n uint8) *BStream { panic(0) }
func NewBStreamReader(d []byte) *BStream { panic(0) }`,
	"github.com/aead/siphash": `package siphash
func Sum64(msg []byte, key *[16]byte) uint64 { panic(0) }`,
	"github.com/gcash/bchd/chaincfg/chainhash": `package chainhash
const HashSize = 32
type Hash [HashSize]byte
func (h *Hash) IsEqual(target *Hash) bool { panic(0) }
func (h *Hash) SetBytes(newHash []byte) error { panic(0) }
func (h *Hash) CloneBytes() []byte { panic(0) }
func NewHash(newHash []byte) (*Hash, error) { panic(0) }
func NewHashFromStr(hash string) (*Hash, error) { panic(0) }
func (h Hash) String() string { panic(0) }
func DoubleHashB(b []byte) []byte { panic(0) }
func DoubleHashH(b []byte) Hash { panic(0) }
func HashB(b []byte) []byte { panic(0) }`,
	"github.com/gcash/bchd/chaincfg": `package chaincfg
type Params struct {
	Name string
	CashAddressPrefix string
	SlpAddressPrefix string
	LegacyPubKeyHashAddrID byte
	LegacyScriptHashAddrID byte
	PrivateKeyID byte
	HDPrivateKeyID [4]byte
	HDPublicKeyID [4]byte
	HDCoinType uint32
}
var MainNetParams Params
var TestNet3Params Params
var RegressionNetParams Params
var SimNetParams Params
func IsPubKeyHashAddrID(id byte) bool { panic(0) }
func IsScriptHashAddrID(id byte) bool { panic(0) }
func HDPrivateKeyToPublicKeyID(id []byte) ([]byte, error) { panic(0) }`,
	"github.com/gcash/bchd/bchec": `package bchec
import ("crypto/ecdsa"; "math/big")
const PrivKeyBytesLen = 32
const PubKeyBytesLenCompressed = 33
type KoblitzCurve struct{ N *big.Int }
func S256() *KoblitzCurve { panic(0) }
func (c *KoblitzCurve) ScalarBaseMult(k []byte) (*big.Int, *big.Int) { panic(0) }
func (c *KoblitzCurve) Add(x1, y1, x2, y2 *big.Int) (*big.Int, *big.Int) { panic(0) }
type PublicKey ecdsa.PublicKey
type PrivateKey ecdsa.PrivateKey
func ParsePubKey(pubKeyStr []byte, curve *KoblitzCurve) (*PublicKey, error) { panic(0) }
func PrivKeyFromBytes(curve *KoblitzCurve, pk []byte) (*PrivateKey, *PublicKey) { panic(0) }
func (p *PublicKey) SerializeCompressed() []byte { panic(0) }
func (p *PublicKey) SerializeUncompressed() []byte { panic(0) }
func (p *PublicKey) SerializeHybrid() []byte { panic(0) }`,
	"github.com/gcash/bchd/wire": `package wire
import ("bytes"; "io"; "github.com/gcash/bchd/chaincfg/chainhash")
type BloomUpdateType uint8
const (
	BloomUpdateNone BloomUpdateType = 0
	BloomUpdateAll BloomUpdateType = 1
	BloomUpdateP2PubkeyOnly BloomUpdateType = 2
)
const MaxTxInSequenceNum uint32 = 0xffffffff
const MaxFilterLoadHashFuncs = 50
const MaxFilterLoadFilterSize = 36000
type MsgFilterLoad struct { Filter []byte; HashFuncs uint32; Tweak uint32; Flags BloomUpdateType }
type OutPoint struct { Hash chainhash.Hash; Index uint32 }
func NewOutPoint(hash *chainhash.Hash, index uint32) *OutPoint { panic(0) }
type TxIn struct { PreviousOutPoint OutPoint; SignatureScript []byte; Sequence uint32 }
type TokenData struct{ opaque int }
type TxOut struct { Value int64; PkScript []byte; TokenData TokenData }
type MsgTx struct { Version int32; TxIn []*TxIn; TxOut []*TxOut; LockTime uint32 }
func NewMsgTx(version int32) *MsgTx { panic(0) }
func (msg *MsgTx) Copy() *MsgTx { panic(0) }
func (msg *MsgTx) TxHash() chainhash.Hash { panic(0) }
type BlockHeader struct{ opaque int }
type MsgBlock struct { Header BlockHeader; Transactions []*MsgTx }
type MsgMerkleBlock struct { Header BlockHeader; Transactions uint32; Hashes []*chainhash.Hash; Flags []byte }
func (msg *MsgMerkleBlock) AddTxHash(hash *chainhash.Hash) error { panic(0) }
func MaxBlockPayload() uint32 { panic(0) }
func ReadVarInt(r *bytes.Buffer, pver uint32) (uint64, error) { panic(0) }
func WriteVarInt(w *bytes.Buffer, pver uint32, val uint64) error { panic(0) }
func (o *OutPoint) Serialize(w *bytes.Buffer) error { panic(0) }
func (msg *MsgBlock) BlockHash() chainhash.Hash { panic(0) }
func NewMsgBlock(blockHeader *BlockHeader) *MsgBlock { panic(0) }
func VarIntSerializeSize(val uint64) int { panic(0) }
type TxLoc struct { TxStart int; TxLen int }
func (msg *MsgBlock) Serialize(w *bytes.Buffer) error { panic(0) }
func (msg *MsgBlock) SerializeSize() int { panic(0) }
func (msg *MsgBlock) Deserialize(r io.Reader) error { panic(0) }
func (msg *MsgBlock) DeserializeTxLoc(r *bytes.Buffer) ([]TxLoc, error) { panic(0) }
func (msg *MsgTx) Deserialize(r io.Reader) error { panic(0) }
func NewMsgFilterLoad(filter []byte, hashFuncs uint32, tweak uint32, flags BloomUpdateType) *MsgFilterLoad { panic(0) }`,
	"github.com/gcash/bchd/txscript": `package txscript
type ScriptClass byte
const (
	NonStandardTy ScriptClass = iota
	PubKeyTy
	PubKeyHashTy
	ScriptHashTy
	ScriptHash32Ty
	MultiSigTy
	NullDataTy
)
func GetScriptClass(script []byte) ScriptClass { panic(0) }
func PushedData(script []byte) ([][]byte, error) { panic(0) }`,
	"github.com/gcash/bchd/blockchain": `package blockchain
import "github.com/gcash/bchd/chaincfg/chainhash"
func HashMerkleBranches(left *chainhash.Hash, right *chainhash.Hash) *chainhash.Hash { panic(0) }`,
	"github.com/gcash/bchutil/base58": `package base58
import "errors"
var ErrChecksum = errors.New("checksum error")
var ErrInvalidFormat = errors.New("invalid format: version and/or checksum bytes missing")
func Encode(b []byte) string { panic(0) }
func Decode(b string) []byte { panic(0) }
func CheckEncode(input []byte, version byte) string { panic(0) }
func CheckDecode(input string) (result []byte, version byte, err error) { panic(0) }`,
	"github.com/gcash/bchutil": `package bchutil
import ("github.com/gcash/bchd/chaincfg"; "github.com/gcash/bchd/chaincfg/chainhash"; "github.com/gcash/bchd/wire")
type Amount int64
type Tx struct{ opaque int }
func (t *Tx) Hash() *chainhash.Hash { panic(0) }
func (t *Tx) MsgTx() *wire.MsgTx { panic(0) }
type Block struct{ opaque int }
func (b *Block) Transactions() []*Tx { panic(0) }
func (b *Block) MsgBlock() *wire.MsgBlock { panic(0) }
func Hash160(buf []byte) []byte { panic(0) }
type AddressPubKeyHash struct { hash [20]byte; prefix string }
func NewAddressPubKeyHash(pkHash []byte, net *chaincfg.Params) (*AddressPubKeyHash, error) { panic(0) }`,
	"github.com/gcash/bchutil/bloom": `package bloom
import ("github.com/gcash/bchutil")
type Filter struct{ opaque int }
func GetMatchedIndices(block *bchutil.Block, filter *Filter) map[int]bool { panic(0) }`,
	"github.com/gcash/bchutil/gcs": `package gcs
import "fmt"
const KeySize = 16
var ErrNTooBig = fmt.Errorf("N is too big to fit in uint32")
var ErrPTooBig = fmt.Errorf("P is too big to fit in uint32")
type Filter struct { n uint32; p uint8; modulusNP uint64; filterData []byte }
func BuildGCSFilter(P uint8, M uint64, key [KeySize]byte, data [][]byte) (*Filter, error) { panic(0) }
func (f *Filter) NBytes() ([]byte, error) { panic(0) }`,
}

// imported struct types the translation does not look into (objects behind a type parameter X_t; their
// fields and methods are Section variables).  Keyed by import path + "." + type name; the Coq name of the
// type parameter is the bare type name (so bchec.PublicKey and ecdsa.PublicKey are the same X_t).
var abstract3 = map[string]bool{
	"github.com/kkdai/bstream.BStream":  true,
	"container/list.List":               true,
	"container/list.Element":            true,
	"bytes.Buffer":                      true,
	"bytes.Reader":                      true,
	"math/big.Int":                      true,
	"crypto/ecdsa.PublicKey":            true,
	"crypto/ecdsa.PrivateKey":           true,
	"github.com/gcash/bchd/bchec.PublicKey":    true,
	"github.com/gcash/bchd/bchec.PrivateKey":   true,
	"github.com/gcash/bchd/bchec.KoblitzCurve": true,
	"github.com/gcash/bchd/wire.BlockHeader":   true,
	"github.com/gcash/bchd/wire.TokenData":     true,
	"github.com/gcash/bchutil.Tx":              true,
	"github.com/gcash/bchutil.Block":           true,
	"github.com/gcash/bchutil/bloom.Filter":    true,
	"encoding/base64.Encoding":                 true,
	"hash.Hash":                                true,
	"sort.Interface":                           true,
}

// methods of abstract objects that change the object: they return the new object after their results
var mutating3 = map[string]bool{
	"BStream.ReadBit": true, "BStream.ReadBits": true, "BStream.WriteBit": true, "BStream.WriteBits": true,
	"List.PushBack": true, "List.Remove": true,
	"Buffer.Grow": true, "Buffer.Write": true, "Buffer.WriteByte": true, "Buffer.Read": true,
	"Hash.Write": true,
	"MsgMerkleBlock.AddTxHash": true,
	"Int.Add": true, "Int.Mod": true,
	"MsgBlock.Deserialize": true, "MsgTx.Deserialize": true,
}

// constructors of imported packages: their pointer result is a fresh object nobody else holds
var freshFuncs3 = map[string]bool{
	"github.com/gcash/bchd/wire.NewMsgTx": true, "github.com/gcash/bchd/wire.NewOutPoint": true,
	"github.com/gcash/bchd/wire.NewMsgBlock": true, "github.com/gcash/bchd/wire.NewMsgFilterLoad": true,
}

// abstract functions / methods that change the object behind one of their pointer arguments: the new
// object is returned after the results (and after the receiver)
var mutArgs3 = map[string][]int{
	"wire_ReadVarInt": {0}, "wire_WriteVarInt": {0}, "wire_OutPoint_Serialize": {0},
	"rand_Read": {0},
	"wire_MsgBlock_Serialize": {0}, "wire_MsgBlock_Deserialize": {0}, "wire_MsgTx_Deserialize": {0},
}

// ---------------------------------------------------------------------------

type srcImporter struct {
	fset *token.FileSet
	pkgs map[string]*types.Package
	errs []string
}

func newSrcImporter() *srcImporter {
	return &srcImporter{fset: token.NewFileSet(), pkgs: map[string]*types.Package{}}
}

func (s *srcImporter) Import(path string) (*types.Package, error) {
	if p, ok := s.pkgs[path]; ok {
		return p, nil
	}
	src, ok := stubSrc3[path]
	if !ok {
		return nil, fmt.Errorf("imports are not resolved (no stub for %s)", path)
	}
	f, err := parser.ParseFile(s.fset, path+"/stub.go", src, parser.SkipObjectResolution)
	if err != nil {
		return nil, fmt.Errorf("stub of %s: %v", path, err)
	}
	conf := types.Config{Importer: s, Error: func(e error) { s.errs = append(s.errs, e.Error()) }}
	p, _ := conf.Check(path, s.fset, []*ast.File{f}, nil)
	s.pkgs[path] = p
	return p, nil
}

// loadPkg3 parses and type-checks one package of the repository against the stubs
func loadPkg3(dir, importPath string, imp types.Importer) (*pkgInfo, error) {
	p := &pkgInfo{dir: dir, fset: token.NewFileSet(), src: map[string][]byte{}}
	filter := srcsel.Filter(dir)
	parsed, err := parser.ParseDir(p.fset, dir, filter, parser.SkipObjectResolution)
	if err != nil {
		return nil, err
	}
	var pkgNames []string
	for _, pk := range parsed {
		if strings.HasSuffix(pk.Name, "_test") {
			continue
		}
		pkgNames = append(pkgNames, pk.Name)
		if pk.Name == "main" && len(parsed) > 1 {
			continue
		}
		p.name = pk.Name
		var fn []string
		for f := range pk.Files {
			fn = append(fn, f)
		}
		sort.Strings(fn)
		for _, f := range fn {
			p.files = append(p.files, pk.Files[f])
			p.fnames = append(p.fnames, f)
			b, err := os.ReadFile(f)
			if err != nil {
				return nil, err
			}
			p.src[f] = b
		}
	}
	if len(p.files) == 0 {
		return nil, fmt.Errorf("no Go package in %s", dir)
	}
	p.info = &types.Info{
		Types:      map[ast.Expr]types.TypeAndValue{},
		Defs:       map[*ast.Ident]types.Object{},
		Uses:       map[*ast.Ident]types.Object{},
		Scopes:     map[ast.Node]*types.Scope{},
		Selections: map[*ast.SelectorExpr]*types.Selection{},
		Implicits:  map[ast.Node]types.Object{},
	}
	conf := types.Config{Importer: imp, FakeImportC: true, Error: func(e error) {
		if te, ok := e.(types.Error); ok {
			p.typeErr = append(p.typeErr, te)
		}
	}}
	p.tpkg, _ = conf.Check(importPath, p.fset, p.files, p.info)
	if err := checkPkgDecls(p, pkgNames); err != nil {
		return nil, err
	}
	return p, nil
}

func importPathOf(pkgdir string) string {
	if pkgdir == "." {
		return "github.com/gcash/bchutil"
	}
	return "github.com/gcash/bchutil/" + filepath.ToSlash(pkgdir)
}

// ---------------------------------------------------------------------------
// value types of the third mode (extends mtype)

const (
	mStruct mkind = iota + 100 // a struct of the translated package or of a stub: a generated Record
	mOpt                       // a pointer to a non-abstract type: option
	mSum                       // an interface with a declared list of dynamic types: a generated Inductive
	mMap                       // map[K]V: association list, most recent binding first
	mFunc                      // a function value (only as an argument of the recognised patterns)
)

type fld3 struct {
	name string
	t    mtype
}

type alt3 struct {
	ctor string
	t    mtype
	gt   types.Type
}

// ---------------------------------------------------------------------------
// prelude of Gen/Kernels3.v

const header3 = `(* GENERATED by harness/cmd/gotrans (third mode) from the Go sources; do not edit.

   Gallina transliteration, statement by statement, of functions that use structs,
   pointers, interfaces, maps, recursion and calls of dependencies.  The
   conventions of Gen/Kernels2.v apply (N with explicit wraps, Z for signed
   integers, lists for slices / arrays / strings, res with Panic kinds, "L<n>:"
   comments quoting the Go line), and in addition:
   - a struct type is a Record (constructor mk_<T>, projections <T>_<field>,
     setters set_<T>_<field>); a pointer *T is "option T" (None = nil; using a nil
     pointer is Panic 5); a pointer RECEIVER is the record itself (assumed non-nil);
     a local pointer initialised by &T{..} and never reassigned is the record
     itself.  Sharing through pointers is not modelled: the translator rejects the
     functions in which two names for one object could be observed;
   - a method that writes through its receiver (or a pointer parameter) returns
     the new receiver (parameter) after its Go results;
   - the error type is N: 0 is nil, a package-level error variable is a constant
     >= 1000 (Definitions below), an error made by errors.New / fmt.Errorf at the
     k-th error site of a function (table in front of it) is k.  An error
     variable passed on at site k is "Go3.prop k err": a nil or package-level error
     is kept, any other error becomes k (Go code can only observe "== nil" and
     "== <package-level error>", both are preserved).  An error is an ordinary
     result: a function (T, error) has type (T * N), wrapped in res only if
     it can panic;
   - an interface with a known list of dynamic types is an Inductive with one
     constructor per type plus <I>_nil; other interfaces and the imported types
     listed as abstract are Section variables X_t, their methods / fields and the
     imported functions are Section variables (state-passing for the methods
     that change the object).  They are ASSUMED not to panic;
   - a self-recursive function is a Fixpoint on an extra first parameter fuel:
     Panic 9 when it is exhausted (each call passes fuel - 1);
   - map[K]V is option (association list) (Go3.mget etc.; None = nil map); the iteration order of
     a range over a map is given by the Section variable map_order (any permutation);
     sort.Slice / sort.Sort are Section variables (any function; the tie theorems assume what they
     need of them: a sorted permutation).
   Tie/Kernels3_*.v prove these functions equal to the hand-written models. *)
From Coq Require Import List NArith ZArith Bool.
From BU Require Import Lib.Bytes Gen.Kernels Gen.Kernels2.
Import ListNotations.
Local Open Scope N_scope.

Module Go3.

(* *p, p.f, p.M(..) for a pointer p *)
Definition deref {A} (p : option A) : res A := match p with Some a => Ok a | None => Panic 5 end.
Definition isnil {A} (p : option A) : bool := match p with Some _ => false | None => true end.
(* p.M(..) for an abstract object p: nil (X_isnil p) is Panic 5 *)
Definition nonnil (isnil : bool) : res unit := if isnil then Panic 5 else Ok tt.
(* a dependency called outside its domain panics (kind 7); the condition is the documented precondition *)
Definition require (ok : bool) : res unit := if ok then Ok tt else Panic 7.

(* errors: see the header *)
Definition sentinel_base : N := 1000.
Definition prop (k e : N) : N := if e =? 0 then 0 else if e <? sentinel_base then k else e.

(* a function of Gen/Kernels2.v (result res T, error = Err k, values dropped on error) seen with the error
   as a value: [zero] is what the Go function returns next to a non-nil error (checked by the translator:
   every error return of that function returns zero values), [code] maps its site number to the error value *)
Definition of_res {A} (zero : A) (code : N -> N) (r : res A) : res (A * N) :=
  match r with Ok a => Ok (a, 0) | Err k => Ok (zero, code k) | Panic p => Panic p end.

(* make([]T, n, c): the capacity is not observable, but a negative one panics *)
Definition check_cap (c : Z) : res unit := if (c <? 0)%Z then Panic 6 else Ok tt.

(* maps *)
Fixpoint map_get {K V} (eqb : K -> K -> bool) (m : list (K * V)) (k : K) : option V :=
  match m with [] => None | (k', v) :: t => if eqb k' k then Some v else map_get eqb t k end.
Fixpoint map_del {K V} (eqb : K -> K -> bool) (m : list (K * V)) (k : K) : list (K * V) :=
  match m with [] => [] | (k', v) :: t => if eqb k' k then map_del eqb t k else (k', v) :: map_del eqb t k end.
Definition map_set {K V} (eqb : K -> K -> bool) (m : list (K * V)) (k : K) (v : V) : list (K * V) :=
  (k, v) :: map_del eqb m k.
(* a map value is option (list (K * V)): None is the nil map (reads as empty, writing to it is Panic 5) *)
Definition mget {K V} (eqb : K -> K -> bool) (m : option (list (K * V))) (k : K) : option V :=
  match m with Some l => map_get eqb l k | None => None end.
Definition mset {K V} (eqb : K -> K -> bool) (m : option (list (K * V))) (k : K) (v : V) : res (option (list (K * V))) :=
  match m with Some l => Ok (Some (map_set eqb l k v)) | None => Panic 5 end.
Definition mdel {K V} (eqb : K -> K -> bool) (m : option (list (K * V))) (k : K) : option (list (K * V)) :=
  match m with Some l => Some (map_del eqb l k) | None => None end.
Definition mlen {K V} (m : option (list (K * V))) : Z :=
  match m with Some l => Z.of_nat (List.length l) | None => 0%Z end.
Definition mentries {K V} (m : option (list (K * V))) : list (K * V) :=
  match m with Some l => l | None => [] end.

(* for init; cond; post { body } with a general condition: a while loop *)
Definition while_ {S} := @Go.whileM S.

(* ---- further intrinsics (TRUSTED) ---- *)
(* bytes.Equal *)
Definition bytes_equal (a b : list N) : bool := list_eqb a b.
(* strings.EqualFold on ASCII (exact when every byte of both strings is < 128) *)
Definition fold_byte (c : N) : N := if (65 <=? c) && (c <=? 90) then c + 32 else c.
Fixpoint equal_fold (s t : list N) : bool :=
  match s, t with
  | [], [] => true
  | a :: s', b :: t' => (fold_byte a =? fold_byte b) && equal_fold s' t'
  | _, _ => false
  end.
(* copy(dst, src) on slices seen as values: the new dst *)
Definition copy_ {A} (dst src : list A) : list A :=
  List.firstn (Nat.min (List.length dst) (List.length src)) src ++ List.skipn (List.length src) dst.
(* binary.BigEndian.Uint32 / PutUint32 on slices seen as values *)
Definition be_uint32 (b : list N) : res N :=
  match b with b0 :: b1 :: b2 :: b3 :: _ => Ok (((b0 * 256 + b1) * 256 + b2) * 256 + b3) | _ => Panic 1 end.
Definition put_be32 (dst : list N) (off : Z) (v : N) : res (list N) :=
  if ((off <? 0) || (Z.of_nat (List.length dst) <? off))%Z then Panic 2 else
  if (Z.of_nat (List.length dst) - off <? 4)%Z then Panic 1 else
  let o := Z.to_nat off in
  Ok (List.firstn o dst ++ [(v / 16777216) mod 256; (v / 65536) mod 256; (v / 256) mod 256; v mod 256]
      ++ List.skipn (o + 4) dst).

End Go3.

`

package main

// Third mode: the sort package.  sort.Slice(x, func(i, j int) bool { return <e over x[i], x[j]> }),
// sort.Sort(T(x)), sort.Sort(sort.Reverse(T(x))), sort.IsSorted(T(x)) are calls of Section variables:
// the sorting algorithm is not translated; the tie theorems assume of these variables what they need
// (a permutation sorted for the comparison).

import (
	"fmt"
	"go/ast"
	"go/token"
	"go/types"
	"strings"
)

// cloneExpr copies an expression tree, replacing the nodes for which f returns non-nil
func (c *m3) cloneExpr(e ast.Expr, f func(ast.Expr) ast.Expr) ast.Expr {
	if r := f(e); r != nil {
		return r
	}
	keep := func(n, o ast.Expr) ast.Expr {
		if tv, ok := c.p.info.Types[o]; ok {
			c.p.info.Types[n] = tv
		}
		return n
	}
	switch x := e.(type) {
	case *ast.BinaryExpr:
		return keep(&ast.BinaryExpr{X: c.cloneExpr(x.X, f), OpPos: x.OpPos, Op: x.Op, Y: c.cloneExpr(x.Y, f)}, e)
	case *ast.ParenExpr:
		return keep(&ast.ParenExpr{Lparen: x.Lparen, X: c.cloneExpr(x.X, f), Rparen: x.Rparen}, e)
	case *ast.UnaryExpr:
		return keep(&ast.UnaryExpr{OpPos: x.OpPos, Op: x.Op, X: c.cloneExpr(x.X, f)}, e)
	case *ast.StarExpr:
		return keep(&ast.StarExpr{Star: x.Star, X: c.cloneExpr(x.X, f)}, e)
	case *ast.SelectorExpr:
		n := &ast.SelectorExpr{X: c.cloneExpr(x.X, f), Sel: x.Sel}
		if s, ok := c.p.info.Selections[x]; ok {
			c.p.info.Selections[n] = s
		}
		return keep(n, e)
	case *ast.IndexExpr:
		return keep(&ast.IndexExpr{X: c.cloneExpr(x.X, f), Lbrack: x.Lbrack, Index: c.cloneExpr(x.Index, f), Rbrack: x.Rbrack}, e)
	case *ast.CallExpr:
		n := &ast.CallExpr{Fun: c.cloneExpr(x.Fun, f), Lparen: x.Lparen, Ellipsis: x.Ellipsis, Rparen: x.Rparen}
		for _, a := range x.Args {
			n.Args = append(n.Args, c.cloneExpr(a, f))
		}
		return keep(n, e)
	}
	return e
}

func stripParens(e ast.Expr) ast.Expr {
	for {
		p, ok := e.(*ast.ParenExpr)
		if !ok {
			return e
		}
		e = p.X
	}
}

// sortCallInfo recognises the calls of package sort
type sortCallInfo struct {
	kind   string   // "Slice", "Sort", "IsSorted"
	target ast.Expr // the slice sorted
	name   string   // Section variable
	lit    *ast.FuncLit
}

func (c *m3) sortCall(call *ast.CallExpr) *sortCallInfo {
	path, name, ok := c.pkgCall(call)
	if !ok || path != "sort" {
		return nil
	}
	switch name {
	case "Slice":
		if len(call.Args) != 2 {
			return nil
		}
		fl, ok := call.Args[1].(*ast.FuncLit)
		if !ok {
			return nil
		}
		return &sortCallInfo{kind: "Slice", target: call.Args[0], name: "sort_Slice", lit: fl}
	case "Sort", "IsSorted":
		if len(call.Args) != 1 {
			return nil
		}
		a := stripParens(call.Args[0])
		prefix := "sort_" + name + "_"
		if inner, ok := a.(*ast.CallExpr); ok {
			if p2, n2, ok := c.pkgCall(inner); ok && p2 == "sort" && n2 == "Reverse" && len(inner.Args) == 1 {
				prefix += "Reverse_"
				a = stripParens(inner.Args[0])
			}
		}
		conv, ok := a.(*ast.CallExpr)
		if !ok || len(conv.Args) != 1 {
			return nil
		}
		tv, ok := c.p.info.Types[conv.Fun]
		if !ok || !tv.IsType() {
			return nil
		}
		n, ok := tv.Type.(*types.Named)
		if !ok {
			return nil
		}
		c.sortSite(call, strings.TrimSuffix(strings.TrimPrefix(prefix, "sort_"), "_"), n)
		return &sortCallInfo{kind: name, target: conv.Args[0], name: prefix + n.Obj().Name()}
	}
	return nil
}

// sortStmt translates sort.Slice / sort.Sort used as a statement
func (c *m3) sortStmt(call *ast.CallExpr) bool {
	si := c.sortCall(call)
	if si == nil || si.kind == "IsSorted" {
		return false
	}
	xt := c.tyOf(si.target)
	if xt.k != mList {
		c.fail(call, "sort of `%s`, which is not a slice", c.srcText(si.target.Pos(), si.target.End()))
	}
	et := c.coqT(*xt.elem)
	if si.kind == "Sort" {
		c.needVar(si.name, fmt.Sprintf("list %s -> list %s", paren(et), paren(et)), call)
		c.storePath(si.target, fmt.Sprintf("(%s %s)", si.name, c.ex(si.target)))
		return true
	}
	// sort.Slice(x, func(i, j int) bool { return e }): e may mention x[i] and x[j] only
	fl := si.lit
	if len(fl.Type.Params.List) == 0 || len(fl.Body.List) != 1 {
		c.fail(fl, "function literal (only `func(i, j int) bool { return e }` as the comparison of sort.Slice)")
	}
	var ps []*ast.Ident
	for _, f := range fl.Type.Params.List {
		ps = append(ps, f.Names...)
	}
	ret, ok := fl.Body.List[0].(*ast.ReturnStmt)
	if !ok || len(ps) != 2 || len(ret.Results) != 1 {
		c.fail(fl, "function literal (only `func(i, j int) bool { return e }` as the comparison of sort.Slice)")
	}
	xtext := c.srcText(si.target.Pos(), si.target.End())
	io, jo := c.p.info.Defs[ps[0]], c.p.info.Defs[ps[1]]
	elemGo := c.typeOf(si.target).Underlying().(*types.Slice).Elem()
	mk := func(name string, at token.Pos) *ast.Ident {
		id := &ast.Ident{NamePos: at, Name: name}
		v := types.NewVar(at, c.p.tpkg, name, elemGo)
		c.p.info.Uses[id] = v
		c.p.info.Types[id] = types.TypeAndValue{Type: elemGo}
		c.names[v] = name
		return id
	}
	body := c.cloneExpr(ret.Results[0], func(e ast.Expr) ast.Expr {
		ix, ok := e.(*ast.IndexExpr)
		if !ok || c.srcText(ix.X.Pos(), ix.X.End()) != xtext {
			return nil
		}
		if id, ok := ix.Index.(*ast.Ident); ok {
			switch c.obj(id) {
			case io:
				return mk("a_", ix.Pos())
			case jo:
				return mk("b_", ix.Pos())
			}
		}
		return nil
	})
	bad := false
	ast.Inspect(body, func(n ast.Node) bool {
		if id, ok := n.(*ast.Ident); ok {
			if o := c.obj(id); o == io || o == jo {
				bad = true
			}
		}
		return true
	})
	if bad || c.mentions(body, []types.Object{c.rootVar(si.target)}) {
		c.fail(fl, "comparison of sort.Slice that uses the indices or the slice other than as x[i], x[j]")
	}
	less := c.pureEx(body, "comparison of sort.Slice")
	c.needVar("sort_Slice", "forall A : Type, (A -> A -> bool) -> list A -> list A", call)
	c.note(call, "sort.Slice is the Section variable sort_Slice applied to the comparison on elements")
	c.storePath(si.target, fmt.Sprintf("(sort_Slice _ (fun a_ b_ => %s) %s)", less, c.ex(si.target)))
	return true
}

package main

// Differential self-test of the fourth mode on ./selftest/kernels4.go: math/big intrinsics (incl. Euclidean
// DivMod on negative operands), float64 arithmetic / comparisons / conversions / math.* intrinsics / constants,
// a type switch over a sum interface, the heap variant (one object in two slots), JSON documents rewritten in
// place.  Every Go result (panics included) is compared with the Gallina translation evaluated by coqc.

import (
	"fmt"
	"math"
	"math/rand"
	"os"
	"os/exec"
	"path/filepath"
	"regexp"
	"sort"
	"strings"
	"testing"

	"verif/harness/cmd/gotrans/selftest"
)

func specs4self() []k3spec {
	var out []k3spec
	for _, f := range []string{"Circle.Area", "Rect.Area", "Pick", "BigMix", "BigDigits", "F64Mix", "Describe", "JWalk"} {
		recv, fn := "", f
		if i := strings.Index(f, "."); i >= 0 {
			recv, fn = f[:i], f[i+1:]
		}
		out = append(out, k3spec{pkg: "selftest", recv: recv, fn: fn, name: strings.ReplaceAll(f, ".", "_")})
	}
	for _, f := range []string{"NewCell", "Cell.Bump", "Ring.Share", "Ring.BumpAt", "RingDemo"} {
		recv, fn := "", f
		if i := strings.Index(f, "."); i >= 0 {
			recv, fn = f[:i], f[i+1:]
		}
		out = append(out, k3spec{pkg: "selftest", recv: recv, fn: fn, name: strings.ReplaceAll(f, ".", "_"), heap: true})
	}
	return out
}

func TestDifferential8(t *testing.T) {
	coqc, err := exec.LookPath("coqc")
	if err != nil {
		t.Skip("coqc not on PATH")
	}
	theories := "/verif/coq/theories"
	if _, err := os.Stat(filepath.Join(theories, "Gen", "Kernels3.vo")); err != nil {
		t.Skip("compiled theories not found")
	}
	if _, err := os.Stat(filepath.Join(theories, "Amount", "Amount.vo")); err != nil {
		t.Skip("compiled theories not found")
	}
	src, errs := buildKernels4(".", nil, specs4self())
	if len(errs) > 0 {
		t.Fatalf("selftest functions rejected: %v", errs)
	}
	rng := rand.New(rand.NewSource(88))
	var calls []string
	add := func(lhs, rhs string) { calls = append(calls, fmt.Sprintf("eqz (%s) %s", lhs, rhs)) }
	zl := func(v ...int64) string {
		var s []string
		for _, x := range v {
			s = append(s, fmt.Sprintf("(%d)%%Z", x))
		}
		return "(Ok [" + strings.Join(s, ";") + "])"
	}
	// ---- big
	for i := 0; i < 60; i++ {
		b := make([]byte, rng.Intn(12))
		rng.Read(b)
		k := rng.Int63n(2000) - 1000
		add(fmt.Sprintf("lift (fun '(bs, s, c) => s :: c :: List.map Z.of_N bs) (Ok (Kernels4.BigMix %s (%d)%%Z))", blist8(b), k), guarded8(func() string {
			bs, s, c := selftest.BigMix(b, k)
			v := []int64{int64(s), int64(c)}
			for _, x := range bs {
				v = append(v, int64(x))
			}
			return zl(v...)
		}))
	}
	for i := 0; i < 80; i++ {
		v := rng.Int63n(1<<40) - 1<<39
		d := []int64{10, 58, -7, 3, -10, 1 << 33, 0, 2}[rng.Intn(8)]
		if i < 4 {
			v = []int64{0, 1, -1, math.MinInt64}[i]
		}
		add(fmt.Sprintf("lift (fun '(l, q) => q :: l) (Kernels4.BigDigits 80 (%d)%%Z (%d)%%Z)", v, d), guarded8(func() string {
			l, q := selftest.BigDigits(v, d)
			return zl(append([]int64{q}, l...)...)
		}))
	}
	// ---- floats
	fl := func(f float64) string { return fmt.Sprintf("(of_bits %d%%N)", math.Float64bits(f)) }
	fs := []float64{0, 1, -1, 0.5, 2.5, -2.5, 1e9, -1e9, 1e300, -1e300, math.NaN(), math.Inf(1), math.Inf(-1), 7.5, 1e-9, 3, 1e19, -1e19, 4294967295.5, 4294967296, -0.75}
	for i := 0; i < 150; i++ {
		a := rng.Int63n(1<<50) - 1<<49
		u := rng.Uint32()
		f := fs[rng.Intn(len(fs))]
		if rng.Intn(3) == 0 {
			f = math.Float64frombits(rng.Uint64())
		}
		n := rng.Intn(700) - 350
		z, y, ok, w := selftest.F64Mix(a, u, f, n)
		okz := int64(0)
		if ok {
			okz = 1
		}
		nan := "false"
		if math.IsNaN(w) {
			nan = "true"
		}
		calls = append(calls, fmt.Sprintf("(let '(z, y, ok, w) := Kernels4.F64Mix (%d)%%Z %d%%N %s (%d)%%Z in (z =? %d)%%Z && (y =? %d)%%N && Bool.eqb ok %v && (if %s then Kernels4.Go4.math_IsNaN w else (bits_of w =? %d)%%N))",
			a, u, fl(f), n, z, y, okz == 1, nan, math.Float64bits(w)))
	}
	// ---- type switch
	for k := uint32(0); k < 5; k++ {
		for _, x := range []uint32{0, 3, 1000, 70000} {
			add(fmt.Sprintf("lift (fun '(v, e) => [Z.of_N v; Z.of_N e]) (Kernels4.Describe %d%%N %d%%N)", k, x), guarded8(func() string {
				v, err := selftest.Describe(k, x)
				e := int64(0)
				if err != nil {
					e = 1
				}
				if err == selftest.ErrBig {
					return fmt.Sprintf("(Ok [(%d)%%Z; Z.of_N Kernels4.selftest_ErrBig])", v)
				}
				if err == selftest.ErrOdd {
					return fmt.Sprintf("(Ok [(%d)%%Z; Z.of_N Kernels4.selftest_ErrOdd])", v)
				}
				return zl(int64(v), e)
			}))
		}
	}
	// ---- heap variant
	for i := 0; i < 120; i++ {
		n := rng.Intn(5)
		ix := func() int { return rng.Intn(n+2) - 1 }
		a, b, k := ix(), ix(), ix()
		v, d := uint32(rng.Intn(100)), uint32(rng.Intn(100))
		add(fmt.Sprintf("lift (fun '(l, h, _) => h :: List.map Z.of_N l) (Kernels4.RingDemo [] (%d)%%Z (%d)%%Z (%d)%%Z (%d)%%Z %d%%N %d%%N)", n, a, b, k, v, d), guarded8(func() string {
			l, h := selftest.RingDemo(n, a, b, k, v, d)
			o := []int64{int64(h)}
			for _, x := range l {
				o = append(o, int64(x))
			}
			return zl(o...)
		}))
	}
	// ---- JSON
	var coq func(v interface{}) string
	coq = func(v interface{}) string {
		switch x := v.(type) {
		case nil:
			return "Kernels4.json_any_nil"
		case bool:
			return fmt.Sprintf("(Kernels4.json_any_bool %v)", x)
		case float64:
			return fmt.Sprintf("(Kernels4.json_any_float64 (of_bits %d%%N))", math.Float64bits(x))
		case string:
			return fmt.Sprintf("(Kernels4.json_any_string %s)", blist8([]byte(x)))
		case []interface{}:
			var el []string
			for _, e := range x {
				el = append(el, coq(e))
			}
			return "(Kernels4.json_any_slice [" + strings.Join(el, ";") + "])"
		case map[string]interface{}:
			var ks []string
			for k := range x {
				ks = append(ks, k)
			}
			sort.Strings(ks)
			var el []string
			for _, k := range ks {
				el = append(el, fmt.Sprintf("(%s, %s)", blist8([]byte(k)), coq(x[k])))
			}
			return "(Kernels4.json_any_map (Some [" + strings.Join(el, ";") + "]))"
		}
		t.Fatalf("unexpected %T", v)
		return ""
	}
	var gen func(depth int) interface{}
	gen = func(depth int) interface{} {
		k := rng.Intn(7)
		if depth <= 0 && k >= 4 {
			k = rng.Intn(4)
		}
		switch k {
		case 0:
			return nil
		case 1:
			return rng.Intn(2) == 0
		case 2:
			return float64(rng.Intn(1000)) / 8
		case 3:
			return fmt.Sprintf("t%d", rng.Intn(50))
		case 4, 5:
			m := map[string]interface{}{}
			for i, n := 0, rng.Intn(4); i < n; i++ {
				m[fmt.Sprintf("k%d", rng.Intn(6))] = gen(depth - 1)
			}
			return m
		}
		l := []interface{}{}
		for i, n := 0, rng.Intn(4); i < n; i++ {
			l = append(l, gen(depth-1))
		}
		return l
	}
	for i := 0; i < 80; i++ {
		v := gen(3)
		before := coq(v)
		selftest.JWalk(v)
		calls = append(calls, fmt.Sprintf("match Kernels4.JWalk (fun _ _ l => l) 30 %s with Ok j => jeqb j %s | _ => false end", before, coq(v)))
	}

	dir := t.TempDir()
	os.MkdirAll(filepath.Join(dir, "Gen"), 0o755)
	if err := os.WriteFile(filepath.Join(dir, "Gen", "Kernels4.v"), []byte(src), 0o644); err != nil {
		t.Fatal(err)
	}
	run := func(file string) []byte {
		cmd := exec.Command(coqc, "-q", "-Q", theories, "BU", "-Q", dir, "T8", file)
		cmd.Dir = dir
		out, err := cmd.CombinedOutput()
		if err != nil {
			t.Fatalf("coqc %s failed: %v\n%.4000s", file, err, out)
		}
		return out
	}
	run(filepath.Join(dir, "Gen", "Kernels4.v"))
	var sb strings.Builder
	sb.WriteString(`From Coq Require Import ZArith NArith List Bool.
From BU Require Import Lib.Bytes Amount.Amount.
From T8 Require Gen.Kernels4.
Import ListNotations.
Fixpoint zl_eqb (a b : list Z) : bool :=
  match a, b with [], [] => true | x :: a', y :: b' => (x =? y)%Z && zl_eqb a' b' | _, _ => false end.
Definition eqz (a b : res (list Z)) : bool :=
  match a, b with Ok x, Ok y => zl_eqb x y | Err e, Err f => (e =? f)%N | Panic k, Panic j => (k =? j)%N | _, _ => false end.
Definition lift {A} (f : A -> list Z) (r : res A) : res (list Z) := match r with Ok x => Ok (f x) | Err e => Err e | Panic k => Panic k end.
Notation J := Kernels4.json_any.
Fixpoint jeqb (a b : J) {struct a} : bool :=
  match a, b with
  | Kernels4.json_any_nil, Kernels4.json_any_nil => true
  | Kernels4.json_any_bool x, Kernels4.json_any_bool y => Bool.eqb x y
  | Kernels4.json_any_float64 x, Kernels4.json_any_float64 y => (bits_of x =? bits_of y)%N
  | Kernels4.json_any_string x, Kernels4.json_any_string y => list_eqb x y
  | Kernels4.json_any_slice x, Kernels4.json_any_slice y =>
      (fix go (l1 l2 : list J) : bool := match l1, l2 with [], [] => true | p :: t1, q :: t2 => jeqb p q && go t1 t2 | _, _ => false end) x y
  | Kernels4.json_any_map (Some x), Kernels4.json_any_map (Some y) =>
      (fix go (l1 l2 : list (list N * J)) : bool :=
         match l1, l2 with [], [] => true | (k1, p) :: t1, (k2, q) :: t2 => list_eqb k1 k2 && jeqb p q && go t1 t2 | _, _ => false end) x y
  | _, _ => false
  end.
`)
	sb.WriteString("Definition results : list bool := [\n  " + strings.Join(calls, ";\n  ") + "].\n")
	sb.WriteString("Definition R := Eval vm_compute in results.\nSet Printing Width 1000000.\nSet Printing Depth 100000000.\nPrint R.\n")
	file := filepath.Join(dir, "Diff8.v")
	os.WriteFile(file, []byte(sb.String()), 0o644)
	out := run(file)
	m := regexp.MustCompile(`(?s)R\s*=\s*\[(.*?)\]`).FindSubmatch(out)
	if m == nil {
		t.Fatalf("cannot parse coqc output:\n%.2000s", out)
	}
	got := regexp.MustCompile(`true|false`).FindAllString(string(m[1]), -1)
	if len(got) != len(calls) {
		t.Fatalf("coq returned %d values for %d calls", len(got), len(calls))
	}
	bad, panics := 0, 0
	for i := range got {
		if strings.Contains(calls[i], "(Panic ") {
			panics++
		}
		if got[i] != "true" {
			bad++
			if bad <= 10 {
				t.Errorf("Go and Gallina differ: %.700s", calls[i])
			}
		}
	}
	t.Logf("%d calls compared (%d panic in Go), %d differ", len(calls), panics, bad)
}

func blist8(b []byte) string {
	var s []string
	for _, x := range b {
		s = append(s, fmt.Sprint(x))
	}
	return "([" + strings.Join(s, ";") + "]%N)"
}

func guarded8(f func() string) (out string) {
	defer func() {
		if r := recover(); r != nil {
			k := panicKind3(r)
			if strings.Contains(fmt.Sprint(r), "division by zero") { // math/big
				k = 3
			}
			out = fmt.Sprintf("(Panic %d)", k)
		}
	}()
	return f()
}

// TestRejected4: what the fourth mode refuses (and two in-subset controls)
func TestRejected4(t *testing.T) {
	cell := "type Cell struct{ val uint32; hit int }\nfunc NewCell(v uint32) *Cell { return &Cell{val: v} }\n"
	cases := []struct {
		pkg, body, want string
		heapF           bool
	}{
		{"x", "import \"math/big\"\nfunc F(b []byte) []byte { x := new(big.Int).SetBytes(b); y := x; y.Add(y, x); return x.Bytes() }", "other than a new big.Int", false},
		{"x", "import \"math/big\"\nfunc F(b []byte) *big.Int { x := new(big.Int); x.SetBytes(b); return x }", "unsupported use of the *big.Int", false},
		{"x", "import \"math/big\"\nfunc F(x *big.Int) int { return x.Sign() }", "*big.Int parameter", false},
		{"x", "import \"math/big\"\nvar g = big.NewInt(3)\nfunc F() int { g.Add(g, g); return g.Sign() }", "is changed", false},
		{"x", "import \"math/big\"\nfunc F(b []byte) int { x := new(big.Int).SetBytes(b); x.Mod(x, x); return x.Sign() }", "not one of the intrinsics", false},
		{"x", "import \"math/big\"\nfunc F(b []byte) int { q := new(big.Int); x := new(big.Int).SetBytes(b); q.DivMod(x, x, q); return q.Sign() }", "same object as quotient and modulus", false},
		{"x", "import \"math/big\"\nvar g = big.NewInt(3)\nfunc F(b []byte) int { x := new(big.Int).SetBytes(b); x.Mul(x, g); return x.Sign() }", "", false},
		{"x", "func F(a float32) float32 { return a }", "float32", false},
		{"x", "func F(a float64) int32 { return int32(a) }", "unsupported conversion between float64", false},
		{"x", "func F(a error) int { switch a.(type) { case nil: return 1 }; return 0 }", "not an interface with a declared list", false},
		{"selftest", "func F(data interface{}) { switch d := data.(type) { case map[string]interface{}: d = nil; _ = d } }", "assignment to `d`", false},
		{"selftest", "func F(data interface{}) { switch d := data.(type) { case map[string]interface{}: for k := range d { d[\"x\"+k] = 1.0 } } }", "other than the current one", false},
		{"selftest", "func F(data interface{}) { switch d := data.(type) { case []interface{}: if len(d) > 0 { d[0] = \"a\" } }; data = nil }", "assignment to the JSON parameter", false},
		{"selftest", "func F(data interface{}) { switch d := data.(type) { case []interface{}: for i := range d { d[i] = true } } }", "", false},
		{"selftest", cell + "func F() uint32 { c := NewCell(1); return c.val }", "heap variant", false},
		{"selftest", cell + "func F() uint32 { c := NewCell(1); d := c; d.val = 5; return c.val }", "", true},
	}
	for i, cse := range cases {
		dir := t.TempDir()
		src := "package " + cse.pkg + "\n\n" + cse.body + "\n"
		os.MkdirAll(filepath.Join(dir, cse.pkg), 0o755)
		if err := os.WriteFile(filepath.Join(dir, cse.pkg, "x.go"), []byte(src), 0o644); err != nil {
			t.Fatal(err)
		}
		specs := []k3spec{{pkg: cse.pkg, fn: "F", name: "F", heap: cse.heapF}}
		if strings.Contains(cse.body, "func NewCell") {
			specs = append([]k3spec{{pkg: cse.pkg, fn: "NewCell", name: "NewCell", heap: true}}, specs...)
		}
		_, errs := buildKernels4(dir, nil, specs)
		if cse.want == "" {
			if len(errs) != 0 {
				t.Errorf("case %d rejected (%v): %s", i, errs, cse.body)
			}
			continue
		}
		if len(errs) == 0 {
			t.Errorf("case %d accepted: %s", i, cse.body)
			continue
		}
		if !strings.Contains(strings.Join(errs, "\n"), cse.want) {
			t.Errorf("case %d: message %q does not mention %q", i, errs, cse.want)
		}
	}
}

//go:build verif

package main

import "github.com/gcash/bchutil/base58"

func base58DecodeImpl(s string) []byte { return base58.Decode(s) }

package main

// Monadic mode: expressions.  ex(e) returns a pure Gallina term; every sub-expression that can panic
// (index, slice, make with a possibly negative length, division by a non-constant, call of a fallible
// function) is bound first to a fresh temporary in c.pend ("do t1 <- ... ;;"), in evaluation order.

import (
	"fmt"
	"go/ast"
	"go/constant"
	"go/token"
	"go/types"
	"path/filepath"
	"strings"
)

type k2spec struct {
	pkg  string // directory relative to the repository root
	recv string // receiver type name ("" for a function)
	fn   string
	name string // Coq name
	from string // fragment: first line (prefix) of the first statement translated ("" = the whole body)
	to   string // fragment: first line (prefix) of the last statement translated
}

type m2 struct {
	body     []ast.Stmt // the statements translated (the whole body, or a fragment of it)
	bodyNode ast.Node
	*ctx
	spec      k2spec
	sig       *fsig
	funcs     map[string]*fsig // key pkgdir:recv.fn
	pend      []string
	ntmp      int
	effect    bool // something of type res was emitted
	sites     []string
	siteOf    map[*ast.ReturnStmt]int
	erased    map[types.Object]bool
	nonNil    map[types.Object]bool // error variables known to be non-nil here
	consts    *tableSet
	recvObj   types.Object
	loops     []*loopCtx
	fallible  bool
	usesFuel  bool
	k1calls   map[string]bool
	fieldObjs map[string]types.Object
}

type loopCtx struct {
	tier int // 0 pure, 1 monadic, 2 control
	st   []types.Object
}

func (c *m2) fresh() string {
	c.ntmp++
	return fmt.Sprintf("t%d_", c.ntmp)
}

func (c *m2) bind(rhs string) string {
	t := c.fresh()
	c.pend = append(c.pend, fmt.Sprintf("do %s <- %s ;;", t, rhs))
	c.effect = true
	return t
}

func (c *m2) tyOf(e ast.Expr) mtype { return c.mt(c.typeOf(e), e) }

func zlit(s string) string {
	if strings.HasPrefix(s, "-") {
		return "(" + s + ")%Z"
	}
	return s + "%Z"
}

// constant of the type go/types recorded for e
func (c *m2) const2(e ast.Expr) (string, bool) {
	tv, ok := c.p.info.Types[e]
	if !ok || tv.Value == nil {
		return "", false
	}
	switch tv.Value.Kind() {
	case constant.Bool:
		if constant.BoolVal(tv.Value) {
			return "true", true
		}
		return "false", true
	case constant.String:
		return bytesLit([]byte(constant.StringVal(tv.Value))), true
	case constant.Int:
		t := c.mt(tv.Type, e)
		s := tv.Value.ExactString()
		if t.k == mZ {
			return zlit(s), true
		}
		if t.k == mN {
			return s, true
		}
	case constant.Float:
		v := constant.ToInt(tv.Value)
		if v.Kind() == constant.Int {
			t := c.mt(tv.Type, e)
			if t.k == mZ {
				return zlit(v.ExactString()), true
			}
			if t.k == mN && constant.Sign(v) >= 0 {
				return v.ExactString(), true
			}
		}
	}
	c.fail(e, "unsupported constant `%s`", c.srcText(e.Pos(), e.End()))
	return "", false
}

func bytesLit(b []byte) string {
	var s []string
	for _, x := range b {
		s = append(s, fmt.Sprint(x))
	}
	return "[" + strings.Join(s, "; ") + "]"
}

// asZ converts a term of integer type t to Z
func asZ(term string, t mtype) string {
	if t.k == mZ {
		return term
	}
	return fmt.Sprintf("(Z.of_N %s)", term)
}

func (c *m2) lenOf(x string) string { return fmt.Sprintf("(Z.of_nat (List.length %s))", x) }

func (c *m2) ex(e ast.Expr) string {
	if id, ok := e.(*ast.Ident); ok {
		if k, isConst := c.obj(id).(*types.Const); isConst && k.Pkg() != nil && k.Parent() == k.Pkg().Scope() && k.Val().Kind() == constant.String {
			return c.strConst(id, k)
		}
	}
	if s, ok := c.const2(e); ok {
		return s
	}
	switch e := e.(type) {
	case *ast.ParenExpr:
		return c.ex(e.X)
	case *ast.Ident:
		if e.Name == "nil" {
			return "[]"
		}
		o := c.obj(e)
		if o == nil {
			c.fail(e, "unresolved identifier `%s`", e.Name)
		}
		if c.erased[o] {
			return "tt"
		}
		if !c.isLocal(o) {
			if v, ok := o.(*types.Var); ok && v.Parent() == v.Pkg().Scope() {
				name, _ := c.table2(e, v)
				return name
			}
			c.fail(e, "use of non-local `%s`", e.Name)
		}
		c.mt(o.Type(), e)
		return coqName(e.Name)
	case *ast.BinaryExpr:
		return c.bin2(e, e.Op, e.X, e.Y, c.typeOf(e))
	case *ast.UnaryExpr:
		return c.un2(e)
	case *ast.CallExpr:
		return c.call2(e)
	case *ast.IndexExpr:
		l := c.ex(e.X)
		lt := c.tyOf(e.X)
		if lt.k != mList {
			c.fail(e, "indexing of a non-list `%s`", c.srcText(e.Pos(), e.End()))
		}
		it := c.tyOf(e.Index)
		if it.k != mN && it.k != mZ {
			c.fail(e, "non-integer index")
		}
		i := c.ex(e.Index)
		return c.bind(fmt.Sprintf("Go.idx %s %s", l, asZ(i, it)))
	case *ast.SliceExpr:
		if e.Slice3 {
			c.fail(e, "3-index slice expression")
		}
		l := c.ex(e.X)
		if c.tyOf(e.X).k != mList {
			c.fail(e, "slicing of a non-list")
		}
		lo, hi := "0%Z", c.lenOf(l)
		if e.Low != nil {
			lo = asZ(c.ex(e.Low), c.tyOf(e.Low))
		}
		if e.High != nil {
			hi = asZ(c.ex(e.High), c.tyOf(e.High))
		}
		if e.Low == nil && e.High == nil {
			return l
		}
		return c.bind(fmt.Sprintf("Go.slice %s %s %s", l, lo, hi))
	case *ast.CompositeLit:
		t := c.tyOf(e)
		if t.k != mList {
			c.fail(e, "unsupported composite literal")
		}
		var el []string
		for _, x := range e.Elts {
			if _, kv := x.(*ast.KeyValueExpr); kv {
				c.fail(x, "keyed element in a composite literal")
			}
			el = append(el, c.ex(x))
		}
		if a, ok := c.typeOf(e).Underlying().(*types.Array); ok && int(a.Len()) != len(el) {
			c.fail(e, "array literal that is not fully initialised")
		}
		return "[" + strings.Join(el, "; ") + "]"
	case *ast.SelectorExpr:
		return c.fieldRead(e)
	case *ast.TypeAssertExpr:
		// x.F.(T), x an abstract object: an abstract projection that may panic (Panic 4)
		if sel, ok := e.X.(*ast.SelectorExpr); ok && e.Type != nil {
			if tv, ok := c.p.info.Types[sel.X]; ok && tv.Type != nil && abstractName(tv.Type) != "" {
				from := mtype{k: mAbs, abs: abstractName(tv.Type)}
				to := c.tyOf(e)
				if to.k == mAbs {
					c.needAbsType(to.abs)
				}
				c.needAbsType(from.abs)
				name := fmt.Sprintf("%s_%s_as_%s", from.abs, sel.Sel.Name, strings.TrimSuffix(to.coq(), "_t"))
				c.needAbsMeth(name, from.coq()+" -> res "+paren(to.coq()))
				return c.bind(name + " " + c.ex(sel.X))
			}
		}
		c.fail(e, "unsupported type assertion `%s`", c.srcText(e.Pos(), e.End()))
	}
	c.fail(e, "unsupported expression %s `%s`", nodeName(e), c.srcText(e.Pos(), e.End()))
	return ""
}

func (c *m2) boolEx(e ast.Expr) string {
	if t := c.tyOf(e); t.k != mBool {
		c.fail(e, "expected a boolean expression, got %s", t)
	}
	return c.ex(e)
}

// short-circuit operator whose right operand may panic
func (c *m2) shortCircuit(op token.Token, xe, ye ast.Expr) string {
	x := c.boolEx(xe)
	save := c.pend
	c.pend = nil
	y := c.boolEx(ye)
	yb := c.pend
	c.pend = save
	if len(yb) == 0 {
		if op == token.LAND {
			return fmt.Sprintf("(andb %s %s)", x, y)
		}
		return fmt.Sprintf("(orb %s %s)", x, y)
	}
	for _, l := range yb {
		if !bindsOnlyTemps(l) {
			c.fail(ye, "right operand of %s changes a variable", op)
		}
	}
	inner := fmt.Sprintf("(%s Ok %s)", strings.Join(yb, " "), y)
	if op == token.LAND {
		return c.bind(fmt.Sprintf("(if %s then %s else Ok false)", x, inner))
	}
	return c.bind(fmt.Sprintf("(if %s then Ok true else %s)", x, inner))
}

func (c *m2) bin2(at ast.Node, op token.Token, xe, ye ast.Expr, rt types.Type) string {
	switch op {
	case token.LAND, token.LOR:
		return c.shortCircuit(op, xe, ye)
	case token.EQL, token.NEQ, token.LSS, token.LEQ, token.GTR, token.GEQ:
		// comparison with nil
		if id, ok := ye.(*ast.Ident); ok && id.Name == "nil" {
			return c.nilCmp(at, op, xe)
		}
		xt := c.tyOf(xe)
		x, y := c.ex(xe), c.ex(ye)
		sc := ""
		switch xt.k {
		case mBool:
			if op == token.EQL {
				return fmt.Sprintf("(Bool.eqb %s %s)", x, y)
			}
			if op == token.NEQ {
				return fmt.Sprintf("(xorb %s %s)", x, y)
			}
			c.fail(at, "ordering comparison of booleans")
		case mList:
			if xt.elem.k != mN {
				c.fail(at, "comparison of lists of signed integers")
			}
			if op == token.EQL {
				return fmt.Sprintf("(list_eqb %s %s)", x, y)
			}
			if op == token.NEQ {
				return fmt.Sprintf("(negb (list_eqb %s %s))", x, y)
			}
			c.fail(at, "ordering comparison of strings")
		case mZ:
			sc = "%Z"
		case mN:
		default:
			c.fail(at, "comparison of %s values", xt)
		}
		switch op {
		case token.EQL:
			return fmt.Sprintf("(%s =? %s)%s", x, y, sc)
		case token.NEQ:
			return fmt.Sprintf("(negb (%s =? %s)%s)", x, y, sc)
		case token.LSS:
			return fmt.Sprintf("(%s <? %s)%s", x, y, sc)
		case token.LEQ:
			return fmt.Sprintf("(%s <=? %s)%s", x, y, sc)
		case token.GTR:
			return fmt.Sprintf("(%s <? %s)%s", y, x, sc)
		default:
			return fmt.Sprintf("(%s <=? %s)%s", y, x, sc)
		}
	}
	k := c.mt(rt, at)
	txt := c.srcText(at.Pos(), at.End())
	if k.k == mList {
		if op != token.ADD || !k.str {
			c.fail(at, "unsupported operator %s on %s", op, k)
		}
		return fmt.Sprintf("(%s ++ %s)", c.ex(xe), c.ex(ye))
	}
	if k.k != mN && k.k != mZ {
		c.fail(at, "unsupported operator %s on %s", op, k)
	}
	x := c.ex(xe)
	// shifts: the count has its own type
	if op == token.SHL || op == token.SHR {
		var y string
		if v, isConst := c.constInt(ye); isConst {
			if v < 0 {
				c.fail(ye, "negative shift count")
			}
			y = fmt.Sprint(v)
			if k.k == mZ {
				if op == token.SHR {
					return fmt.Sprintf("(Z.shiftr %s %d%%Z)", x, v)
				}
				if k.sized {
					return fmt.Sprintf("(Go.wrapZ %d (Z.shiftl %s %d%%Z))", k.w, x, v)
				}
				c.note(at, "`%s`: int left shift assumed not to overflow", txt)
				return fmt.Sprintf("(Z.shiftl %s %d%%Z)", x, v)
			}
		} else {
			yt := c.tyOf(ye)
			y = c.ex(ye)
			if yt.k == mZ {
				c.fail(ye, "shift by a count of a signed type that is not a constant (Go panics when it is negative; convert the count to an unsigned type)")
				y = fmt.Sprintf("(Z.to_N %s)", y)
			} else if yt.k != mN {
				c.fail(ye, "non-integer shift count")
			}
		}
		if k.k == mZ {
			y = fmt.Sprintf("(Z.of_N %s)", y)
			if op == token.SHR {
				return fmt.Sprintf("(Z.shiftr %s %s)", x, y)
			}
			if k.sized {
				return fmt.Sprintf("(Go.wrapZ %d (Z.shiftl %s %s))", k.w, x, y)
			}
			c.note(at, "`%s`: int left shift assumed not to overflow", txt)
			return fmt.Sprintf("(Z.shiftl %s %s)", x, y)
		}
		if op == token.SHR {
			return fmt.Sprintf("(N.shiftr %s %s)", x, y)
		}
		return fmt.Sprintf("((N.shiftl %s %s) %s)", x, y, mod2(k.w))
	}
	y := c.ex(ye)
	if k.k == mZ {
		if k.sized && (op == token.ADD || op == token.SUB || op == token.MUL) {
			o := map[token.Token]string{token.ADD: "+", token.SUB: "-", token.MUL: "*"}[op]
			return fmt.Sprintf("(Go.wrapZ %d (%s %s %s)%%Z)", k.w, x, o, y)
		}
		switch op {
		case token.ADD:
			c.note(at, "`%s`: int addition assumed not to overflow", txt)
			return fmt.Sprintf("(%s + %s)%%Z", x, y)
		case token.SUB:
			c.note(at, "`%s`: int subtraction assumed not to overflow", txt)
			return fmt.Sprintf("(%s - %s)%%Z", x, y)
		case token.MUL:
			c.note(at, "`%s`: int multiplication assumed not to overflow", txt)
			return fmt.Sprintf("(%s * %s)%%Z", x, y)
		case token.QUO, token.REM:
			f := map[token.Token]string{token.QUO: "quot", token.REM: "rem"}[op]
			if v, isConst := c.constInt(ye); isConst {
				if v == 0 {
					c.fail(at, "division by the constant 0")
				}
				if k.sized && op == token.QUO {
					return fmt.Sprintf("(Go.wrapZ %d (Z.quot %s %s))", k.w, x, y) // MinInt / -1 wraps
				}
				return fmt.Sprintf("(Z.%s %s %s)", f, x, y)
			}
			if k.sized && op == token.QUO {
				return fmt.Sprintf("(Go.wrapZ %d %s)", k.w, c.bind(fmt.Sprintf("Go.quotZ %s %s", x, y)))
			}
			return c.bind(fmt.Sprintf("Go.%sZ %s %s", f, x, y))
		case token.AND:
			return fmt.Sprintf("(Z.land %s %s)", x, y)
		case token.OR:
			return fmt.Sprintf("(Z.lor %s %s)", x, y)
		case token.XOR:
			return fmt.Sprintf("(Z.lxor %s %s)", x, y)
		case token.AND_NOT:
			return fmt.Sprintf("(Z.ldiff %s %s)", x, y)
		}
		c.fail(at, "unsupported binary operator %s", op)
	}
	switch op {
	case token.ADD:
		return fmt.Sprintf("((%s + %s) %s)", x, y, mod2(k.w))
	case token.SUB:
		return fmt.Sprintf("((%s + 2^%d - %s) %s)", x, k.w, y, mod2(k.w))
	case token.MUL:
		return fmt.Sprintf("((%s * %s) %s)", x, y, mod2(k.w))
	case token.QUO, token.REM:
		if v, isConst := c.constInt(ye); isConst {
			if v == 0 {
				c.fail(at, "division by the constant 0")
			}
			if op == token.QUO {
				return fmt.Sprintf("(%s / %s)", x, y)
			}
			return fmt.Sprintf("(%s mod %s)", x, y)
		}
		if op == token.QUO {
			return c.bind(fmt.Sprintf("Go.divN %s %s", x, y))
		}
		return c.bind(fmt.Sprintf("Go.modN %s %s", x, y))
	case token.AND:
		return fmt.Sprintf("(N.land %s %s)", x, y)
	case token.OR:
		return fmt.Sprintf("(N.lor %s %s)", x, y)
	case token.XOR:
		return fmt.Sprintf("(N.lxor %s %s)", x, y)
	case token.AND_NOT:
		return fmt.Sprintf("(N.ldiff %s %s)", x, y)
	}
	c.fail(at, "unsupported binary operator %s", op)
	return ""
}

func (c *m2) un2(e *ast.UnaryExpr) string {
	switch e.Op {
	case token.NOT:
		return fmt.Sprintf("(negb %s)", c.boolEx(e.X))
	case token.ADD:
		return c.ex(e.X)
	case token.XOR, token.SUB:
		k := c.tyOf(e)
		x := c.ex(e.X)
		if k.k == mZ {
			if e.Op == token.SUB {
				if k.sized {
					return fmt.Sprintf("(Go.wrapZ %d (- %s)%%Z)", k.w, x)
				}
				c.note(e, "`%s`: int negation assumed not to overflow", c.srcText(e.Pos(), e.End()))
				return fmt.Sprintf("(- %s)%%Z", x)
			}
			return fmt.Sprintf("(Z.lnot %s)", x)
		}
		if k.k != mN {
			c.fail(e, "unary %s on %s", e.Op, k)
		}
		if e.Op == token.XOR {
			return fmt.Sprintf("(N.lxor %s (N.ones %d))", x, k.w)
		}
		return fmt.Sprintf("((2^%d - %s) %s)", k.w, x, mod2(k.w))
	}
	c.fail(e, "unsupported unary operator %s", e.Op)
	return ""
}

// nonNeg: the int expression is syntactically non-negative (overflow aside)
func (c *m2) nonNeg(e ast.Expr) bool {
	if v, ok := c.constInt(e); ok {
		return v >= 0
	}
	switch e := e.(type) {
	case *ast.ParenExpr:
		return c.nonNeg(e.X)
	case *ast.BinaryExpr:
		if e.Op == token.ADD || e.Op == token.MUL {
			return c.nonNeg(e.X) && c.nonNeg(e.Y)
		}
	case *ast.CallExpr:
		if id, ok := e.Fun.(*ast.Ident); ok {
			if b, isB := c.obj(id).(*types.Builtin); isB && b.Name() == "len" {
				return true
			}
		}
		if tv, ok := c.p.info.Types[e.Fun]; ok && tv.IsType() && len(e.Args) == 1 {
			from := c.tyOf(e.Args[0])
			to := c.mt(tv.Type, e)
			if from.k == mN && to.k == mZ && from.w < to.w {
				return true
			}
		}
	}
	if t := c.tyOf(e); t.k == mN {
		return true
	}
	return false
}

func (c *m2) pkgCall(e *ast.CallExpr) (string, string, bool) {
	sel, ok := e.Fun.(*ast.SelectorExpr)
	if !ok {
		return "", "", false
	}
	id, ok := sel.X.(*ast.Ident)
	if !ok {
		return "", "", false
	}
	pn, ok := c.obj(id).(*types.PkgName)
	if !ok {
		return "", "", false
	}
	return pn.Imported().Path(), sel.Sel.Name, true
}

func (c *m2) call2(e *ast.CallExpr) string {
	// conversion
	if tv, ok := c.p.info.Types[e.Fun]; ok && tv.IsType() {
		if len(e.Args) != 1 {
			c.fail(e, "conversion with %d arguments", len(e.Args))
		}
		to := c.mt(tv.Type, e)
		from := c.tyOf(e.Args[0])
		x := c.ex(e.Args[0])
		switch {
		case to.k == mList && from.k == mList:
			if to.elem.k != from.elem.k || to.elem.w != from.elem.w {
				c.fail(e, "conversion between lists of different element types")
			}
			return x // string <-> []byte: same bytes (a copy; sharing is not modelled)
		case to.k == mList && to.str && from.k == mN && from.w == 8:
			return fmt.Sprintf("(Go.string_of_byte %s)", x)
		case to.k == mN && from.k == mN:
			return fmt.Sprintf("(%s %s)", x, mod2(to.w))
		case to.k == mN && from.k == mZ:
			return fmt.Sprintf("(Z.to_N (%s mod 2^%d))", x, to.w)
		case to.k == mZ && from.k == mN:
			if from.w < to.w {
				return fmt.Sprintf("(Z.of_N %s)", x)
			}
			return fmt.Sprintf("(Go.wrapZ %d (Z.of_N %s))", to.w, x)
		case to.k == mZ && from.k == mZ:
			if from.w <= to.w {
				return x
			}
			return fmt.Sprintf("(Go.wrapZ %d %s)", to.w, x)
		}
		c.fail(e, "unsupported conversion from %s to %s", from, to)
	}
	if id, ok := e.Fun.(*ast.Ident); ok {
		if b, isB := c.obj(id).(*types.Builtin); isB {
			return c.builtin(e, b.Name())
		}
		if f, isF := c.obj(id).(*types.Func); isF && f.Pkg() != nil && f.Pkg().Path() == c.p.pkgPath() {
			return c.userCall(e, "", id.Name, nil)
		}
	}
	if path, name, ok := c.pkgCall(e); ok {
		return c.intrinsic(e, path, name)
	}
	// method of an abstract object
	if ac, ok := c.absCall(e); ok {
		if ac.mutates || ac.hasErr || len(ac.results) != 1 {
			c.fail(e, "call of the method `%s` of an abstract object in an expression (it changes the object or has several results: use it as a statement)", c.srcText(e.Pos(), e.End()))
		}
		return "(" + ac.text + ")"
	}
	// method call on the receiver
	if sel, ok := e.Fun.(*ast.SelectorExpr); ok {
		if id, ok := sel.X.(*ast.Ident); ok && c.recvObj != nil && c.obj(id) == c.recvObj {
			return c.userCall(e, c.spec.recv, sel.Sel.Name, id)
		}
	}
	c.fail(e, "unsupported call `%s`", c.srcText(e.Pos(), e.End()))
	return ""
}

func (p *pkgInfo) pkgPath() string { return p.dir }

func (c *m2) builtin(e *ast.CallExpr, name string) string {
	switch name {
	case "len":
		if len(e.Args) != 1 || c.tyOf(e.Args[0]).k != mList {
			c.fail(e, "len of something that is not a slice, array or string")
		}
		return c.lenOf(c.ex(e.Args[0]))
	case "append":
		if len(e.Args) < 1 {
			c.fail(e, "append without arguments")
		}
		base := c.ex(e.Args[0])
		if e.Ellipsis.IsValid() {
			if len(e.Args) != 2 {
				c.fail(e, "append(x, ys...) with extra arguments")
			}
			return fmt.Sprintf("(%s ++ %s)", base, c.ex(e.Args[1]))
		}
		var el []string
		for _, a := range e.Args[1:] {
			el = append(el, c.ex(a))
		}
		if len(el) == 0 {
			return base
		}
		return fmt.Sprintf("(%s ++ [%s])", base, strings.Join(el, "; "))
	case "make":
		t := c.tyOf(e)
		if t.k != mList || len(e.Args) < 2 || len(e.Args) > 3 {
			c.fail(e, "unsupported make")
		}
		n := e.Args[1]
		if len(e.Args) == 3 {
			// capacity is not observable; a negative capacity would panic
			if !c.nonNeg(e.Args[2]) {
				c.fail(e.Args[2], "make with a capacity that is not syntactically non-negative")
			}
			if !trivialCap5(e.Args[2]) {
				c.ex(e.Args[2]) // evaluated: its value is not observable, a panic inside it is
			}
		}
		nt := c.tyOf(n)
		if v, ok := c.constInt(n); ok && v == 0 {
			return "[]"
		}
		if v, ok := c.constInt(n); ok && v >= 0 && v <= 4096 {
			return fmt.Sprintf("(List.repeat %s %d%%nat)", t.elem.zero(), v)
		}
		nx := c.ex(n)
		if c.nonNeg(n) {
			if nt.k == mN {
				return fmt.Sprintf("(List.repeat %s (N.to_nat %s))", t.elem.zero(), nx)
			}
			return fmt.Sprintf("(List.repeat %s (Z.to_nat %s))", t.elem.zero(), nx)
		}
		return c.bind(fmt.Sprintf("Go.make %s %s", t.elem.zero(), asZ(nx, nt)))
	}
	c.fail(e, "unsupported builtin %s", name)
	return ""
}

func (c *m2) intrinsic(e *ast.CallExpr, path, name string) string {
	args := func(n int) []string {
		if len(e.Args) != n || e.Ellipsis.IsValid() {
			c.fail(e, "%s.%s with %d arguments", path, name, len(e.Args))
		}
		var out []string
		for _, a := range e.Args {
			out = append(out, c.ex(a))
		}
		return out
	}
	switch path + "." + name {
	case "strings.ToLower":
		a := args(1)
		c.note(e, "`%s`: strings.ToLower taken on ASCII (exact when every byte < 128)", c.srcText(e.Pos(), e.End()))
		return fmt.Sprintf("(Go.to_lower %s)", a[0])
	case "strings.ToUpper":
		a := args(1)
		c.note(e, "`%s`: strings.ToUpper taken on ASCII (exact when every byte < 128)", c.srcText(e.Pos(), e.End()))
		return fmt.Sprintf("(Go.to_upper %s)", a[0])
	case "strings.IndexByte":
		a := args(2)
		return fmt.Sprintf("(Go.index_byte %s %s)", a[0], a[1])
	case "strings.LastIndexByte":
		a := args(2)
		return fmt.Sprintf("(Go.last_index_byte %s %s)", a[0], a[1])
	case "bytes.Compare":
		a := args(2)
		return fmt.Sprintf("(Go.bytes_compare %s %s)", a[0], a[1])
	case "fmt.Sprintf":
		// the text is not observable (only ever used in error messages): evaluate the arguments, yield tt
		c.fmtArgs(e)
		return "tt"
	}
	c.fail(e, "unsupported call `%s` (not in the list of intrinsics)", c.srcText(e.Pos(), e.End()))
	return ""
}

// userCall: call of another translated function of the same package (recvId != nil: method on the receiver)
func (c *m2) userCall(e *ast.CallExpr, recv, name string, recvId *ast.Ident) string {
	if e.Ellipsis.IsValid() {
		c.fail(e, "variadic call")
	}
	key := c.spec.pkg + ":" + recv + "." + name
	s := c.funcs[key]
	if s == nil {
		// a kernel of the first mode (Gen/Kernels.v): unsigned kernels only
		if recv == "" {
			for _, k := range kernels {
				if k.pkg == c.spec.pkg && k.fn == name {
					return c.k1Call(e, name)
				}
			}
		}
		c.fail(e, "call of `%s`, which is not (yet) a translated function (list it before its callers)", name)
	}
	if s.hasErr {
		c.fail(e, "call of `%s`, which returns an error, outside the pattern `x, err := f(..); if err != nil {..}`", name)
	}
	if s.nGo != 1 {
		c.fail(e, "call of `%s` with %d results used as a value", name, s.nGo)
	}
	call := c.callText(e, s)
	if len(s.wfields) > 0 {
		// the callee returns the fields it wrote after its result: rebind them here
		t := c.fresh()
		names := []string{t}
		for _, w := range s.wfields {
			c.addWFieldT(w, s.wfieldTy[w])
			names = append(names, w)
		}
		if s.fallible {
			c.effect = true
			c.pend = append(c.pend, fmt.Sprintf("do (%s) <- %s ;;", strings.Join(names, ", "), call))
		} else {
			c.pend = append(c.pend, fmt.Sprintf("let '(%s) := %s in", strings.Join(names, ", "), call))
		}
		return t
	}
	if s.fallible {
		return c.bind(call)
	}
	return "(" + call + ")"
}

func (c *m2) callText(e *ast.CallExpr, s *fsig) string {
	if s.structParams {
		c.fail(e, "call of `%s`, which has struct parameters", s.name)
	}
	parts := []string{s.name}
	if s.fuel {
		c.usesFuel = true
		parts = append(parts, "fuel")
	}
	for _, t := range s.absTypes {
		c.needAbsType(t)
	}
	for _, m := range s.absMeths {
		c.needAbsMeth(m.name, m.coq)
		parts = append(parts, m.name)
	}
	for i, f := range s.fields {
		parts = append(parts, c.useField(f, s.fieldTy[i], e))
	}
	if len(e.Args) != len(s.params) {
		c.fail(e, "call with %d arguments of a function with %d parameters", len(e.Args), len(s.params))
	}
	for _, a := range e.Args {
		parts = append(parts, c.ex(a))
	}
	return strings.Join(parts, " ")
}

// k1Call: call of a kernel of Gen/Kernels.v whose parameters and result are unsigned / lists of unsigned
func (c *m2) k1Call(e *ast.CallExpr, name string) string {
	var parts []string
	parts = append(parts, "Kernels."+coqName(name))
	for _, a := range e.Args {
		t := c.tyOf(a)
		if !(t.k == mN || (t.k == mList && t.elem.k == mN)) {
			c.fail(e, "call of the first-mode kernel `%s` with a signed argument (translate it in the monadic mode instead)", name)
		}
		parts = append(parts, c.ex(a))
	}
	if t := c.tyOf(e); t.k != mN {
		c.fail(e, "call of the first-mode kernel `%s` with a signed result", name)
	}
	c.k1calls[name] = true
	return "(" + strings.Join(parts, " ") + ")"
}

// ---------------------------------------------------------------------------
// abstract objects: obj.M(args) becomes T_M obj args, T_M a parameter of the generated definition

type absCallInfo struct {
	text    string // T_M obj args
	obj     string // Coq name of the object
	mutates bool
	hasErr  bool
	results []mtype
}

// absPeek recognises obj.M(..) on an abstract object without translating anything
func (c *m2) absPeek(e *ast.CallExpr) (tname string, sel *ast.SelectorExpr, sig *types.Signature, mutates bool, ok bool) {
	sel, isSel := e.Fun.(*ast.SelectorExpr)
	if !isSel {
		return
	}
	tv, has := c.p.info.Types[sel.X]
	if !has || tv.Type == nil || tv.IsType() {
		return
	}
	tname = abstractName(tv.Type)
	if tname == "" {
		return
	}
	ft, has := c.p.info.Types[e.Fun]
	if !has {
		return
	}
	sig, isSig := ft.Type.(*types.Signature)
	if !isSig {
		return
	}
	_, isIface := tv.Type.Underlying().(*types.Interface)
	mutates = !isIface && !abstractPure[tname+"."+sel.Sel.Name]
	return tname, sel, sig, mutates, true
}

func (c *m2) needAbsType(n string) {
	for _, x := range c.sig.absTypes {
		if x == n {
			return
		}
	}
	c.sig.absTypes = append(c.sig.absTypes, n)
}

func (c *m2) needAbsMeth(name, coq string) {
	for _, x := range c.sig.absMeths {
		if x.name == name {
			if x.coq != coq {
				panic(transErr{c.p.fset.Position(c.fn.Pos()), fmt.Sprintf("abstract method %s used at two different types (%s / %s)", name, x.coq, coq)})
			}
			return
		}
	}
	c.sig.absMeths = append(c.sig.absMeths, absMeth{name, coq})
}

// absObj: Coq name of the abstract object denoted by e (a local variable or a field path)
func (c *m2) absObj(e ast.Expr, t mtype, mutated bool) string {
	c.needAbsType(t.abs)
	if p, ok := c.fieldPath(e); ok {
		if _, isId := e.(*ast.Ident); !isId {
			n := c.useField(p, t, e)
			if mutated {
				c.addWFieldT(n, t)
			}
			return n
		}
	}
	id, ok := e.(*ast.Ident)
	if !ok || !c.isLocal(c.obj(id)) {
		c.fail(e, "unsupported abstract object expression `%s`", c.srcText(e.Pos(), e.End()))
	}
	n := coqName(id.Name)
	if mutated {
		c.addWFieldT(n, t)
	}
	return n
}

func (c *m2) absCall(e *ast.CallExpr) (*absCallInfo, bool) {
	tname, sel, sig, mutates, ok := c.absPeek(e)
	if !ok {
		return nil, false
	}
	if e.Ellipsis.IsValid() {
		c.fail(e, "variadic call")
	}
	if aliasing5[tname+"_"+sel.Sel.Name] {
		c.fail(e, "`%s` returns internal storage of the abstract object (aliasing is not modelled; translate the function in the third mode, which checks that the object is not changed afterwards)", c.srcText(e.Pos(), e.End()))
	}
	ot := mtype{k: mAbs, abs: tname}
	info := &absCallInfo{mutates: mutates}
	info.obj = c.absObj(sel.X, ot, mutates)
	fname := tname + "_" + sel.Sel.Name
	parts := []string{fname, info.obj}
	tys := []string{ot.coq()}
	for _, a := range e.Args {
		at := c.tyOf(a)
		if at.k == mAbs {
			c.needAbsType(at.abs)
		}
		parts = append(parts, c.ex(a))
		tys = append(tys, paren(at.coq()))
	}
	var rts []string
	for i := 0; i < sig.Results().Len(); i++ {
		rt := sig.Results().At(i).Type()
		if isErrorType(rt) {
			if i != sig.Results().Len()-1 {
				c.fail(e, "error result that is not the last")
			}
			info.hasErr = true
			continue
		}
		var m mtype
		if it, isI := rt.Underlying().(*types.Interface); isI && it.NumMethods() == 0 {
			m = mtype{k: mUnit} // an `any` result: its value is dropped
		} else {
			m = c.mt(rt, e)
		}
		if m.k == mAbs {
			c.needAbsType(m.abs)
		}
		info.results = append(info.results, m)
		rts = append(rts, paren(m.coq()))
	}
	if mutates {
		rts = append(rts, ot.coq())
	}
	if len(rts) == 0 {
		c.fail(e, "method `%s` of an abstract object without result and without effect", sel.Sel.Name)
	}
	r := strings.Join(rts, " * ")
	if info.hasErr {
		r = "res (" + r + ")"
	}
	c.needAbsMeth(fname, strings.Join(tys, " -> ")+" -> "+r)
	info.text = strings.Join(parts, " ")
	return info, true
}

func paren(s string) string {
	if strings.Contains(s, " ") {
		return "(" + s + ")"
	}
	return s
}

// ---------------------------------------------------------------------------
// receiver fields: each path read becomes a parameter

func (c *m2) fieldPath(e ast.Expr) (string, bool) {
	switch e := e.(type) {
	case *ast.Ident:
		if c.recvObj != nil && c.obj(e) == c.recvObj {
			return e.Name, true
		}
		// a local struct (or pointer to struct) that is not looked into otherwise: its fields are parameters
		if o := c.obj(e); o != nil && c.isLocal(o) {
			t := o.Type()
			if abstractName(t) != "" {
				return "", false
			}
			if pt, ok := t.Underlying().(*types.Pointer); ok {
				t = pt.Elem()
			}
			if _, ok := t.Underlying().(*types.Struct); ok {
				return e.Name, true
			}
		}
	case *ast.SelectorExpr:
		if p, ok := c.fieldPath(e.X); ok {
			return p + "_" + e.Sel.Name, true
		}
	case *ast.ParenExpr:
		return c.fieldPath(e.X)
	case *ast.IndexExpr:
		// element of a receiver slice of structs, selected by a parameter: s[i].F -> s_i_F
		if p, ok := c.fieldPath(e.X); ok {
			if id, isId := e.Index.(*ast.Ident); isId && c.isParam(c.obj(id)) >= 0 {
				if tv, ok := c.p.info.Types[e]; ok {
					t := tv.Type
					if pt, isPtr := t.Underlying().(*types.Pointer); isPtr {
						t = pt.Elem()
					}
					if _, isStruct := t.Underlying().(*types.Struct); isStruct {
						c.note(e, "`%s`: index assumed in range and the pointer non-nil (the element's fields are parameters)", c.srcText(e.Pos(), e.End()))
						return p + "_" + id.Name, true
					}
				}
			}
		}
	}
	return "", false
}

func (c *m2) useField(name string, t mtype, at ast.Node) string {
	for _, f := range c.sig.fields {
		if f == name {
			return name
		}
	}
	c.sig.fields = append(c.sig.fields, name)
	c.sig.fieldTy = append(c.sig.fieldTy, t)
	return name
}

func (c *m2) fieldRead(e *ast.SelectorExpr) string {
	p, ok := c.fieldPath(e)
	if !ok {
		c.fail(e, "unsupported selector `%s` (only fields of the receiver)", c.srcText(e.Pos(), e.End()))
	}
	t := c.tyOf(e)
	if t.k == mErr {
		c.fail(e, "receiver field of type error")
	}
	return c.useField(p, t, e)
}

// x == nil / x != nil
func (c *m2) nilCmp(at ast.Node, op token.Token, xe ast.Expr) string {
	if op != token.EQL && op != token.NEQ {
		c.fail(at, "ordering comparison with nil")
	}
	var r string
	if tv, ok := c.p.info.Types[xe]; ok && tv.Type != nil && abstractName(tv.Type) != "" {
		t := mtype{k: mAbs, abs: abstractName(tv.Type)}
		c.needAbsType(t.abs)
		c.needAbsMeth(t.abs+"_isnil", t.coq()+" -> bool")
		r = fmt.Sprintf("(%s_isnil %s)", t.abs, c.ex(xe))
	} else if p, ok := c.fieldPath(xe); ok {
		if _, isPtr := c.typeOf(xe).Underlying().(*types.Pointer); isPtr {
			r = c.useField(p+"_isnil", mtype{k: mBool}, at)
		}
	}
	if r == "" {
		t := c.tyOf(xe)
		if t.k != mList {
			c.fail(at, "comparison of `%s` with nil", c.srcText(xe.Pos(), xe.End()))
		}
		c.fail(at, "comparison of a slice with nil (nil and empty slices are not distinguished)")
	}
	if op == token.NEQ {
		return fmt.Sprintf("(negb %s)", r)
	}
	return r
}

// ---------------------------------------------------------------------------
// package-level tables and string constants

func (c *m2) strConst(use *ast.Ident, k *types.Const) string {
	name := c.p.name + "_" + use.Name
	if _, ok := c.consts.lens[name]; ok {
		return name
	}
	b := []byte(constant.StringVal(k.Val()))
	sp := c.p.fset.Position(k.Pos())
	c.consts.defs[name] = fmt.Sprintf("(* %s:%d   const %s (the bytes of the string) *)\nDefinition %s : list N := %s.\n",
		filepath.Base(sp.Filename), sp.Line, use.Name, name, bytesLit(b))
	c.consts.order = append(c.consts.order, name)
	c.consts.lens[name] = len(b)
	return name
}

func (c *m2) table2(use *ast.Ident, v *types.Var) (string, int) {
	name := c.p.name + "_" + use.Name
	if n, ok := c.consts.lens[name]; ok {
		return name, n
	}
	var spec *ast.ValueSpec
	var idx int
	for _, f := range c.p.files {
		for _, d := range f.Decls {
			gd, ok := d.(*ast.GenDecl)
			if !ok || gd.Tok != token.VAR {
				continue
			}
			for _, sp := range gd.Specs {
				vs := sp.(*ast.ValueSpec)
				for i, n := range vs.Names {
					if c.p.info.Defs[n] == v {
						spec, idx = vs, i
					}
				}
			}
		}
	}
	if spec == nil || idx >= len(spec.Values) || len(spec.Names) != len(spec.Values) {
		c.fail(use, "package-level `%s` has no initialiser the translator can read", use.Name)
	}
	cl, ok := spec.Values[idx].(*ast.CompositeLit)
	if !ok {
		c.fail(use, "package-level `%s` is not initialised by a composite literal", use.Name)
	}
	t := c.mt(v.Type(), use)
	if t.k != mList {
		c.fail(use, "package-level `%s` is not a slice or array of integers", use.Name)
	}
	var elems []string
	for _, el := range cl.Elts {
		if _, isKV := el.(*ast.KeyValueExpr); isKV {
			c.fail(el, "keyed element in the initialiser of `%s`", use.Name)
		}
		s, ok := c.const2(el)
		if !ok {
			c.fail(el, "non-constant element in the initialiser of `%s`", use.Name)
		}
		elems = append(elems, s)
	}
	if a, isArr := v.Type().Underlying().(*types.Array); isArr && int(a.Len()) != len(elems) {
		c.fail(use, "array `%s` is not fully initialised", use.Name)
	}
	for _, f := range c.p.files {
		c.checkReadOnly(f, v, use.Name)
	}
	sp := c.p.fset.Position(spec.Pos())
	c.consts.defs[name] = fmt.Sprintf("(* %s:%d   var %s *)\nDefinition %s : %s := [%s].\n",
		filepath.Base(sp.Filename), sp.Line, c.firstLine(spec), name, t.coq(), strings.Join(elems, "; "))
	c.consts.order = append(c.consts.order, name)
	c.consts.lens[name] = len(elems)
	return name, len(elems)
}

// fmtArgs: see (*m3).fmtArgs.  Error values are not values in this mode: an `error` operand must be a variable.
func (c *m2) fmtArgs(ce *ast.CallExpr) {
	if ce.Ellipsis.IsValid() {
		c.fail(ce, "fmt / errors call with a spread argument list")
	}
	for _, a := range ce.Args {
		if why := fmtOperandProblem(c.typeOf(a), nil); why != "" {
			c.fail(a, "`%s` is given %s: not translated (fmt would run code the translation does not see)", c.srcText(ce.Fun.Pos(), ce.Fun.End()), why)
		}
		if c.mt(c.typeOf(a), a).k == mErr {
			if _, isId := stripParens(a).(*ast.Ident); !isId {
				c.fail(a, "an error operand of a fmt / errors call that is not a variable")
			}
			continue
		}
		c.ex(a)
	}
}

package main

// Fourth mode, heap variant: the objects of the struct types listed in heapTypes4 live in a table (a list
// of records) that every function translated in this variant takes as its first parameter and returns as
// its last result; a pointer to such an object is an index into the table (option N, None = nil).  Sharing
// between pointers to these objects is therefore modelled (two pointers are the same object iff they are
// the same index).  Used for (*Block).TxHash, which writes the hash cache of a *Tx that the block's
// transactions slice also holds.

import (
	"go/ast"
	"go/token"
	"go/types"
	"strings"
)

const mHPtr mkind = 201 // a pointer to a heap-allocated struct: an index into the table of that type

// set while a function of the heap variant is analysed / translated
var curHeap4 bool

// one heap type (one table) per package
var heapTypes4 = map[string]bool{"github.com/gcash/bchutil.Tx": true, "github.com/gcash/bchutil/selftest.Cell": true}

// heapTypeOf4: the heap type of the package being translated
func heapTypeOf4() string {
	if curPkg3 == nil {
		return ""
	}
	for q := range heapTypes4 {
		if strings.HasPrefix(q, curPkg3.Path()+".") && !strings.Contains(q[len(curPkg3.Path())+1:], "/") {
			return q
		}
	}
	return ""
}

func heapName4() string {
	q := heapTypeOf4()
	return "heap_" + q[strings.LastIndex(q, ".")+1:]
}

func isHeapPtr4(t types.Type) bool {
	if !curHeap4 || t == nil {
		return false
	}
	p, ok := t.Underlying().(*types.Pointer)
	if !ok {
		return false
	}
	n, ok := p.Elem().(*types.Named)
	return ok && heapTypes4[qualName(n)] && qualName(n) == heapTypeOf4()
}

// hasHeapPtr4: the type mentions a pointer to a heap type (its Record differs from the one of Kernels3.v)
func hasHeapPtr4(t types.Type, depth int) bool {
	if depth > 6 || t == nil {
		return false
	}
	if isHeapPtr4(t) {
		return true
	}
	switch u := t.Underlying().(type) {
	case *types.Pointer:
		return hasHeapPtr4(u.Elem(), depth+1)
	case *types.Slice:
		return hasHeapPtr4(u.Elem(), depth+1)
	case *types.Array:
		return hasHeapPtr4(u.Elem(), depth+1)
	case *types.Map:
		return hasHeapPtr4(u.Key(), depth+1) || hasHeapPtr4(u.Elem(), depth+1)
	case *types.Struct:
		for i := 0; i < u.NumFields(); i++ {
			if hasHeapPtr4(u.Field(i).Type(), depth+1) {
				return true
			}
		}
	}
	return false
}

// heapVar: the synthetic variable standing for the table
func (c *m3) heapVar() types.Object {
	if c.heapObj == nil {
		c.heapObj = types.NewVar(c.fn.Pos(), c.p.tpkg, synthMark+heapName4(), types.Typ[types.Invalid])
		c.names[c.heapObj] = heapName4()
	}
	return c.heapObj
}

func (c *m3) heapElemType(at ast.Node) mtype {
	if q := heapTypeOf4(); q != "" {
		if gt := c.lookupType(q, at); gt != nil {
			return c.mt(gt, at)
		}
	}
	c.fail(at, "no heap type is declared for this package (heapTypes4)")
	return mtype{}
}

// touchesHeap: the statements may change the table (a write through a heap pointer, an allocation, a call
// of a function of the heap variant)
func (c *m3) touchesHeap(stmts []ast.Stmt) bool {
	found := false
	through := func(e ast.Expr) bool {
		for {
			switch x := e.(type) {
			case *ast.ParenExpr:
				e = x.X
				continue
			case *ast.IndexExpr:
				e = x.X
				continue
			case *ast.SelectorExpr:
				if tv, ok := c.p.info.Types[x.X]; ok && isHeapPtr4(tv.Type) {
					return true
				}
				e = x.X
				continue
			case *ast.StarExpr:
				if tv, ok := c.p.info.Types[x.X]; ok && isHeapPtr4(tv.Type) {
					return true
				}
				e = x.X
				continue
			}
			return false
		}
	}
	for _, s := range stmts {
		ast.Inspect(s, func(n ast.Node) bool {
			switch n := n.(type) {
			case *ast.AssignStmt:
				for _, l := range n.Lhs {
					if through(l) {
						found = true
					}
				}
			case *ast.IncDecStmt:
				if through(n.X) {
					found = true
				}
			case *ast.UnaryExpr:
				if n.Op == token.AND {
					if tv, ok := c.p.info.Types[n]; ok && isHeapPtr4(tv.Type) {
						found = true
					}
				}
			case *ast.CallExpr:
				if s, _ := c.calleeSig3(n); s != nil && s.heap {
					found = true
				}
				if id, ok := n.Fun.(*ast.Ident); ok && id.Name == "new" {
					if tv, ok := c.p.info.Types[n]; ok && isHeapPtr4(tv.Type) {
						found = true
					}
				}
			}
			return true
		})
	}
	return found
}

// heapAlloc: &v / new(T) for a heap type: the index of the new object
func (c *m3) heapAlloc(val string) string {
	h := c.vn(c.heapVar())
	p := c.fresh()
	c.pend = append(c.pend, "let "+p+" := Some (N.of_nat (List.length "+h+")) in")
	c.pend = append(c.pend, "let "+h+" := ("+h+" ++ ["+val+"]) in")
	return p
}

const heapPrelude4 = `(* ---- objects in a table (the heap variant): a pointer is an index, None is nil ---- *)
Definition hget {A} (h : list A) (p : option N) : res A :=
  match p with
  | None => Panic 5
  | Some i => match List.nth_error h (N.to_nat i) with Some a => Ok a | None => Panic 5 end
  end.
Definition hset {A} (h : list A) (p : option N) (a : A) : res (list A) :=
  match p with
  | None => Panic 5
  | Some i => if (N.to_nat i <? List.length h)%nat then Ok (Go.set_at h (N.to_nat i) a) else Panic 5
  end.

`

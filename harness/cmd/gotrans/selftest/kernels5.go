package selftest

// Phase 5 (soundness audit): identifiers that look like names the translator makes up.  Every function is
// compared with its translation by TestDifferential9.

// Capture: `done_2` is a Go variable; the shadowing `done` inside the loop used to get the same Coq name.
func Capture(target uint32, xs []uint32) uint32 {
	done := false
	done_2 := done || target == 77
	var n uint32
	for _, x := range xs {
		done := false
		n += x
		if done || done_2 || n > target {
			return n
		}
	}
	return n + 1000
}

// Temps: variables named like temporaries, continuation names, loop states and fuel.
func Temps(v []byte, t1_ uint32, k1_ uint32, fuel uint32) (uint32, error) {
	t2_ := t1_ + uint32(v[0])
	st_ := k1_ + uint32(v[1])
	k_ := fuel
	sw1_ := t2_ % 3
	switch st_ % 3 {
	case 0:
		sw1_ += 10
	case 1:
		if t2_ > 5 {
			return sw1_, ErrOdd
		}
		sw1_ += 20
	}
	for i := 0; i < len(v); i++ {
		t1_ += uint32(v[i]) + k_
	}
	return t1_ + t2_ + st_ + sw1_, nil
}

// Shadow3: three nested shadowings next to variables literally named x_2 and x_3.
func Shadow3(x uint32, x_2 uint32) uint32 {
	x_3 := x_2 + 1
	r := x
	if x > 3 {
		x := x + 10
		r += x
		if x_2 > 1 {
			x := x + 100
			r += x + x_3
		}
	}
	return r + x + x_2
}

// ByteSum walks a string byte by byte (the supported form; `range s` would walk runes and is rejected): the
// index visits every byte of a multi-byte sequence.
func ByteSum(s string) uint32 {
	var n uint32
	for i := 0; i < len(s); i++ {
		n = n*31 + uint32(s[i]) + uint32(i)
	}
	return n
}

package selftest

// Functions exercising the constructs of the monadic mode that the translated bchutil functions do not
// (or hardly) use: break, value returns from nested loops, for-cond loops with returns, run-time panics
// (index, slice bounds, division by zero, makeslice), fixed-width signed arithmetic and conversions,
// short-circuit operators over panicking operands, strings, calls with several results.

import "errors"

var ErrNeg = errors.New("negative")

// FindFirst: range with index and value, value return from inside the loop, break
func FindFirst(v []byte, x byte, stop byte) int {
	last := -1
	for i, b := range v {
		if b == stop {
			break
		}
		if b == x {
			return i
		}
		last = i
	}
	return -2 - last
}

// Nested: return from an inner loop, continue, counted loops with non-constant bounds
func Nested(v []byte, w []byte) (int, error) {
	n := 0
	for i := 1; i < len(v); i++ {
		if v[i] == 0 {
			continue
		}
		for j := 0; j < len(w); j++ {
			if w[j] == v[i] {
				return i*100 + j, nil
			}
			if w[j] == 255 {
				return 0, errors.New("marker")
			}
			n++
		}
	}
	if n > 20 {
		return 0, ErrNeg
	}
	return -n, nil
}

// Collatz: for-cond loop with a return inside and a break
func Collatz(x uint32, limit uint32) (uint32, uint32) {
	steps := uint32(0)
	for x != 1 {
		if steps >= limit {
			return x, steps
		}
		if x == 0 {
			break
		}
		if x%2 == 0 {
			x = x / 2
		} else {
			x = 3*x + 1
		}
		steps++
	}
	return 0, steps
}

// Panics: every run-time check
func Panics(v []byte, i int, a int, b int, d uint32) uint32 {
	x := uint32(v[i])
	s := v[a:b]
	m := make([]byte, a-b+2)
	q := uint32(len(s)+len(m)) / d
	r := (a + 7) / (b - 3)
	t := (a - 7) % (b - 3)
	return x + q + uint32(r) + uint32(t) + uint32(s[0])
}

// Signed: fixed-width signed arithmetic wraps, conversions, shifts and bit operations on negatives
func Signed(a int32, b int8, c int64, u uint32) int64 {
	x := a*a + int32(b)
	y := b * b
	y -= 100
	z := c + c
	z = z*3 - int64(x)
	w := int8(u) + int8(a)
	v := int16(c>>3) ^ int16(y)
	k := uint8(b) + uint8(x>>28)
	n := int64(int32(u)) | (z &^ 0xff)
	return int64(x) + int64(y) + z + int64(w) + int64(v) + int64(k) + n + (c << 1) + int64(^a) + int64(-b)
}

// ShortCircuit: the right operand is evaluated only when needed
func ShortCircuit(v []byte, i int) bool {
	if i < len(v) && v[i] > 10 || i >= len(v) && len(v) > 0 && v[0] == 1 {
		return true
	}
	return i >= 0 && i < len(v) && v[i] == 0
}

// Strings: concatenation, comparison, indexing, slicing, conversion of a byte
func Strings(s string, t string, c byte) (string, error) {
	if s == t {
		return s + "=" + t, nil
	}
	if len(s) > 3 && s[1] == c {
		return s[1:3] + string(c), nil
	}
	if s != "" && len(t) < 2 {
		return "", errors.New("short")
	}
	r := ""
	for i := 0; i < len(t); i++ {
		r += string(t[i] | 1)
	}
	return r + s, nil
}

func divmod(a, b uint32) (uint32, uint32) {
	return a / b, a % b
}

// Multi: call with several results (and a division panic inside the callee)
func Multi(a, b uint32) uint32 {
	q, r := divmod(a, b)
	q2, r2 := divmod(r+1, q+1)
	return q ^ r<<8 ^ q2<<16 ^ r2<<24
}

// Swap: parallel assignment to slice elements of a local copy
func Swap(v []byte, i, j int) []byte {
	w := make([]byte, len(v))
	for k := 0; k < len(v); k++ {
		w[k] = v[k]
	}
	w[i], w[j] = w[j], w[i]
	w[0] += 7
	w[len(w)-1]++
	return w
}

// Sw: switch on a value with multi-value cases, fallthrough, default, an error return and a continue in
// clauses of a switch whose other clauses complete normally (local continuation)
func Sw(a uint32, v []byte) (uint32, error) {
	x := uint32(0)
	for _, b := range v {
		switch b & 7 {
		case 0:
			x += a
		case 1, 2:
			x ^= uint32(b)
			fallthrough
		case 3:
			x++
		case 4:
			return x, errors.New("four")
		case 5:
			continue
		default:
			x = x*3 + 1
		}
		x += 2
		if b == 200 {
			if x > 1000 {
				return 7, nil
			}
			x--
		} else if b == 100 {
			x <<= 1
		}
	}
	switch a {
	case 7:
		return x + 1, nil
	}
	return x, nil
}

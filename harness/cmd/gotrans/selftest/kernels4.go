package selftest

// Functions for the differential self-test of the fourth mode (diff8_test.go): math/big intrinsics,
// float64, type switches over a sum interface, the heap variant, JSON documents.

import (
	"math"
	"math/big"
)

var bigTen = big.NewInt(10)
var bigNought = big.NewInt(0)

// BigMix: SetBytes, Mul, Add, SetInt64, Bytes, Sign, Cmp
func BigMix(b []byte, k int64) ([]byte, int, int) {
	x := new(big.Int).SetBytes(b)
	y := big.NewInt(k)
	acc := big.NewInt(1)
	for i := 0; i < 3; i++ {
		acc.Mul(acc, x)
		acc.Add(acc, y)
	}
	t := new(big.Int)
	t.SetInt64(k)
	acc.Add(acc, t)
	return acc.Bytes(), acc.Sign(), acc.Cmp(x)
}

// BigDigits: DivMod (Euclidean, also for negative operands), Int64, Cmp in a loop condition
func BigDigits(v int64, d int64) ([]int64, int64) {
	x := big.NewInt(v)
	y := big.NewInt(d)
	var out []int64
	n := 0
	for x.Cmp(bigNought) != 0 && n < 70 {
		m := new(big.Int)
		x.DivMod(x, y, m)
		out = append(out, m.Int64())
		n++
	}
	q := new(big.Int)
	r := new(big.Int)
	q.DivMod(big.NewInt(v), bigTen, r)
	return out, q.Int64()*100 + r.Int64()
}

// F64Mix: conversions, + - * /, comparisons, negation, constants, math.Round / IsNaN / IsInf / Pow10
func F64Mix(a int64, u uint32, f float64, n int) (int64, uint32, bool, float64) {
	x := float64(a)*0.1 + f/3
	y := -x - float64(u)
	if y < x || f != f {
		y = y * 1e-9
	}
	z := math.Round(x) + math.Pow10(n)
	ok := math.IsNaN(z) || math.IsInf(y, 0) || x >= 2.5 || z <= -1
	if x == y {
		ok = !ok
	}
	return int64(z), uint32(y), ok, x - y
}

// Describe: a type switch over the sum interface Shape, with a binding, nil and default
func Describe(k uint32, x uint32) (uint32, error) {
	s, err := Pick(k, x)
	if err != nil {
		return 0, err
	}
	var t uint32 = 7
	switch v := s.(type) {
	case *Circle:
		t = v.r + 100
	case nil:
		return 5, nil
	default:
		t = v.Area() + 1
	}
	return t * 2, nil
}

// ---- heap variant: Cell objects are shared between a Ring's slots ----
type Cell struct {
	val uint32
	hit int
}

type Ring struct {
	slots []*Cell
}

func NewCell(v uint32) *Cell { return &Cell{val: v} }

func (c *Cell) Bump(d uint32) uint32 {
	c.val += d
	c.hit++
	return c.val
}

// Share puts ONE new cell into slots i and j
func (r *Ring) Share(i, j int, v uint32) *Cell {
	c := NewCell(v)
	r.slots[i] = c
	r.slots[j] = c
	return c
}

// BumpAt changes the cell of slot i: visible through every slot that holds it
func (r *Ring) BumpAt(i int, d uint32) uint32 {
	c := r.slots[i]
	return c.Bump(d)
}

func RingDemo(n int, i, j, k int, v, d uint32) ([]uint32, int) {
	r := &Ring{slots: make([]*Cell, n)}
	for q := range r.slots {
		r.slots[q] = NewCell(uint32(q))
	}
	c := r.Share(i, j, v)
	r.BumpAt(k, d)
	var out []uint32
	for _, s := range r.slots {
		out = append(out, s.val)
	}
	return out, c.hit
}

// ---- JSON documents ----
// JWalk rewrites a decoded JSON document in place: strings get a prefix, nil entries of maps are
// deleted, numbers in arrays are doubled, nested containers are visited
func JWalk(data interface{}) {
	switch d := data.(type) {
	case map[string]interface{}:
		for k, v := range d {
			switch tv := v.(type) {
			case string:
				d[k] = "s:" + tv
			case nil:
				delete(d, k)
			case map[string]interface{}:
				JWalk(tv)
			case []interface{}:
				JWalk(tv)
			}
		}
	case []interface{}:
		for i, v := range d {
			f, ok := v.(float64)
			if ok {
				d[i] = f * 2
				continue
			}
			JWalk(v)
		}
	}
}

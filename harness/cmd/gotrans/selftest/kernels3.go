package selftest

// Functions for the differential self-test of the third mode (diff4_test.go): every construct the third
// mode adds.  They are compared, call by call, with their Gallina translations evaluated by coqc.

import (
	"errors"
	"sort"
)

var ErrOdd = errors.New("odd")
var ErrBig = errors.New("big")

type Acc struct {
	sum   uint32
	items []uint32
	cnt   int
}

type Box struct {
	a   *Acc
	m   map[uint32]uint32
	err error
}

func (a *Acc) Push(x uint32) {
	a.sum += x
	a.items = append(a.items, x)
	a.cnt++
}

func (a *Acc) Total() uint32 { return a.sum }

func NewAcc(xs []uint32) *Acc {
	a := &Acc{}
	for _, x := range xs {
		a.Push(x)
	}
	return a
}

// named results, bare return, package-level errors, a fresh error
func Classify(x uint32) (q uint32, r uint32, err error) {
	if x%2 == 1 {
		err = ErrOdd
		return
	}
	if x > 1000 {
		return 0, 0, ErrBig
	}
	if x == 42 {
		return 7, 8, errors.New("no")
	}
	q = x / 2
	r = x % 7
	return
}

// errors as values: compared with a package-level error, passed on, values returned next to an error
func Sum3(xs []uint32) (uint32, int, error) {
	var total uint32
	for i, x := range xs {
		q, _, err := Classify(x)
		if err == ErrOdd {
			continue
		}
		if err != nil {
			return total, i, err
		}
		total += q
	}
	return total, len(xs), nil
}

// an error passed through unchecked together with a pointer (NewSlp.. pattern)
func MakeAcc(xs []uint32) (*Acc, error) {
	if len(xs) > 4 {
		return nil, ErrBig
	}
	return NewAcc(xs), nil
}

func MakeAcc2(xs []uint32, extra uint32) (uint32, error) {
	a, err := MakeAcc(xs)
	if a != nil {
		a.Push(extra)
	}
	if err != nil {
		return 0, err
	}
	return a.sum + uint32(a.cnt), err
}

// pointers and maps: nil pointer, nil map (reads are fine, a write panics), comma-ok, delete, len
func Deref(b *Box, k uint32) (uint32, int, error) {
	if b == nil {
		return 0, 0, errors.New("nil box")
	}
	if b.err != nil {
		return 1, len(b.m), b.err
	}
	v, ok := b.m[k]
	if !ok {
		b.m[k] = k * 3
		return b.a.sum, len(b.m), nil
	}
	delete(b.m, k)
	return v + b.m[k], len(b.m), nil
}

// recursion on a method that changes its receiver
func (a *Acc) Walk(depth uint32, pos uint32) uint32 {
	a.cnt++
	if depth == 0 {
		a.Push(pos)
		return pos
	}
	l := a.Walk(depth-1, pos*2)
	r := uint32(0)
	if pos%3 != 0 {
		r = a.Walk(depth-1, pos*2+1)
	}
	return l + r
}

func RunWalk(d uint32) (uint32, uint32, int) {
	a := NewAcc(nil)
	v := a.Walk(d, 1)
	return v, a.Total(), a.cnt
}

// a general three-clause loop with continue; a labelled continue from an inner `for {}`; shadowing
func Loops3(xs []uint32, lim uint32) (uint32, uint32) {
	var out, hits uint32
	for i := 0; i < len(xs) && out < lim; i += 2 {
		if xs[i] == 0 {
			continue
		}
		out += xs[i]
	}
outer:
	for i := 0; i < len(xs); i++ {
		x := xs[i]
		j := 0
		for {
			if j == len(xs) {
				x := x + 1
				hits += x
				break
			}
			if xs[j] > x {
				continue outer
			}
			j++
		}
	}
	return out, hits
}

// switch without a tag, with an init statement, with fallthrough; an inlined function literal
func Sw3(a uint32, v []byte) (uint32, []byte) {
	clone := func(b []byte) []byte { return append([]byte(nil), b...) }
	w := clone(v)
	switch n := len(w); {
	case n == 0:
		return a, w
	case n > 3 && a > 10:
		a -= 10
		fallthrough
	case n > 3:
		a *= 2
	default:
		a++
	}
	switch w[0] {
	case 1, 2:
		a += 100
	case 3:
		a += 200
	}
	return a, clone(w)
}

// two calls of one function literal in a single expression
func Twice(a, b []byte) []byte {
	dup := func(x []byte) []byte { return append([]byte{7}, x...) }
	return append(dup(a), dup(b)...)
}

// a range loop that writes the slice it ranges over; a function that writes its slice parameter
func Upper(s string) string {
	b := []byte(s)
	for i, c := range b {
		if c >= 'a' && c <= 'z' {
			b[i] = c - 32
		}
	}
	return string(b)
}

func Fill(b []byte, v byte) {
	for i := 0; i < len(b); i++ {
		b[i] = v + byte(i)
	}
}

func UseFill(n int, v byte) []byte {
	buf := make([]byte, n)
	Fill(buf, v)
	return buf
}

// sort.Slice with the usual comparison; a map built from a slice and summed by a range (order independent)
func SortSum(v []uint64) ([]uint64, uint64) {
	w := make([]uint64, 0, len(v))
	w = append(w, v...)
	sort.Slice(w, func(i, j int) bool { return w[i] < w[j] })
	m := make(map[uint64]uint64)
	for i, x := range w {
		m[x] = uint64(i)
	}
	var s uint64
	for k, i := range m {
		s += k * (i + 1)
	}
	return w, s
}

// an interface with a known list of dynamic types: conversion, dynamic dispatch, nil
type Shape interface {
	Area() uint32
}

type Circle struct{ r uint32 }
type Rect struct{ w, h uint32 }

func (c *Circle) Area() uint32 { return 3 * c.r * c.r }
func (r *Rect) Area() uint32   { return r.w * r.h }

func Pick(k uint32, x uint32) (Shape, error) {
	switch k {
	case 0:
		return &Circle{x}, nil
	case 1:
		return &Rect{x, x + 1}, nil
	case 2:
		return nil, ErrOdd
	}
	var c *Circle
	return c, nil
}

func AreaOf(k uint32, x uint32) (uint32, error) {
	s, err := Pick(k, x)
	if err != nil {
		return 0, err
	}
	if s == nil {
		return 1, nil
	}
	return s.Area(), nil
}

// struct values: value receiver, conversion between struct types with identical fields
type Cfg struct {
	Max int
	Min int64
}
type Cfg2 struct {
	Max int
	Min int64
}

func (c Cfg) Span() int64 { return int64(c.Max) - c.Min }

func Span2(c Cfg2) int64 { return Cfg(c).Span() + (&Cfg{Max: 1}).Span() }

// NewBox builds a Box for the tests (not translated)
func NewBox(m map[uint32]uint32, nilAcc bool, err error, sum uint32) *Box {
	b := &Box{m: m, err: err}
	if !nilAcc {
		b.a = &Acc{sum: sum}
	}
	return b
}

// Package selftest holds small functions that together use every construct of the Go subset gotrans
// accepts.  main_test.go translates them, evaluates the Gallina terms with coqc (vm_compute) and
// compares with what the Go functions return on the same inputs: a differential test of the semantics
// the translator gives to each construct (wraps, truncating conversions, shifts past the width,
// if/else state tuples, folds, switch/fallthrough expansion).
package selftest

var tab = []uint32{0xdeadbeef, 7, 0xffffffff, 12345, 0x80000000}

const k1 = 0x9e3779b9

func Arith32(a, b uint32) uint32 {
	x := a - b
	y := a*b + k1
	z := -a ^ ^b
	x += y
	x -= z
	x *= 3
	x++
	y--
	return (x &^ y) | (z / 7) ^ (y % 1000003)
}

func Arith8(a, b uint8) uint8 {
	x := a * b
	x -= 200
	x = -x
	var y uint8
	y = ^x
	y++
	y <<= 3
	return x + y - a
}

func Arith16(a uint16, b uint64) uint16 {
	var x uint16 = 0xfff0
	x += a
	c := uint16(b)
	d := uint8(b >> 4)
	return x*c - uint16(d)
}

func Shifts(a uint64, s uint32) uint64 {
	l := a << s
	r := a >> s
	m := uint32(a) << (s & 63)
	w := uint8(a) >> (s % 9)
	return l ^ r ^ uint64(m) ^ uint64(w)<<56
}

func Conv(a uint64) uint64 {
	b := uint8(a)
	c := uint16(a >> 3)
	d := uint32(a >> 7)
	e := uint(a) + uint(b)
	i := int(b) + int(c)
	return uint64(b) + uint64(c)<<8 + uint64(d)<<24 + uint64(e) + uint64(i)
}

func Branches(a, b uint32) uint32 {
	x := uint32(0)
	y := b
	big := a > b
	if a < 10 || (a >= 100 && a <= 200) {
		x = 1
		y++
	} else if a == b {
		x = 2
	} else if !(a != 77) && big {
		x = 3
		y = y * 2
	} else {
		t := a ^ b
		x = t
	}
	if big {
		x += 1000
	}
	if a&1 == 1 {
		y -= 5
	} else {
		x -= 5
	}
	return x ^ y<<1
}

func Loops(v []byte, w []uint32, n uint32) uint32 {
	acc := uint32(len(v))
	cnt := uint8(0)
	for _, d := range v {
		acc = acc*31 + uint32(d)
		if d&1 == 1 {
			cnt++
		}
		for i := 2; i < 5; i++ {
			acc ^= tab[i] >> uint(i)
			cnt += uint8(i)
		}
	}
	for i := uint32(0); i < n; i++ {
		acc += i * i
		for _, x := range w {
			acc ^= x + i
		}
	}
	for j := 0; j < 5; j++ {
		acc += tab[j] ^ w[j]
	}
	return acc + uint32(cnt) + uint32(v[1])
}

func Switch(a uint32, v []byte) uint32 {
	k := uint32(1)
	h := a
	switch a % 7 {
	case 5:
		k += 50
		fallthrough
	default:
		k *= 3
		fallthrough
	case 1, 2:
		k ^= uint32(v[0])
		h++
	case 3:
		h = h << 1
	case 4:
		k = 9
		fallthrough
	case 6:
		h -= k
	}
	return h*65599 + k
}

func Ints(values []int, n int) int {
	s := n
	for _, v := range values {
		s = s*3 + v
		s ^= v >> 2
		if s%2 == 0 {
			s = s / 2
		}
		s &= 0xffffff
	}
	for i := 1; i < 4; i++ {
		s += i << uint(i)
		s -= i
	}
	return s | len(values)
}

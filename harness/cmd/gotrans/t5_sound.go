package main

// Phase 5 (soundness audit): checks shared by all modes.  See design/notes_translator.md, "Phase 5".

import (
	"fmt"
	"go/ast"
	"go/token"
	"go/types"
	"path/filepath"
	"regexp"
	"sort"
	"strings"
)

// ---------------------------------------------------------------------------
// H5: one declaration per name.  The translators look functions up by name; with two declarations of a name
// in the files the ordinary build selects (srcsel) "the first one" would be an arbitrary choice, so the
// package is refused.  Also refused: two package clauses in one directory, a package-level declaration that
// shadows a predeclared identifier (append, len, nil, true, ...: the translators give those their built-in
// meaning), an init function or a package-level `var _ = f()` are NOT refused (they are outside the translated
// functions; package-level variables that are read are checked read-only separately).

func checkPkgDecls(p *pkgInfo, pkgNames []string) error {
	if len(pkgNames) > 1 {
		sort.Strings(pkgNames)
		return fmt.Errorf("%s: the selected files declare several packages (%s)", p.dir, strings.Join(pkgNames, ", "))
	}
	seen := map[string]token.Pos{}
	var errs []string
	add := func(key, what string, pos token.Pos) {
		if old, ok := seen[key]; ok {
			errs = append(errs, fmt.Sprintf("%s: %s is declared more than once in the selected files (also at %s); the translator never picks `the first declaration`",
				p.fset.Position(pos), what, p.fset.Position(old)))
			return
		}
		seen[key] = pos
	}
	predeclared := func(id *ast.Ident, what string) {
		if id.Name == "_" || id.Name == "init" {
			return
		}
		if types.Universe.Lookup(id.Name) != nil {
			errs = append(errs, fmt.Sprintf("%s: package-level %s `%s` shadows a predeclared identifier", p.fset.Position(id.Pos()), what, id.Name))
		}
	}
	for _, f := range p.files {
		for _, d := range f.Decls {
			switch d := d.(type) {
			case *ast.FuncDecl:
				if d.Recv == nil {
					if d.Name.Name == "init" || d.Name.Name == "_" {
						continue
					}
					predeclared(d.Name, "function")
					add("."+d.Name.Name, "`"+d.Name.Name+"`", d.Name.Pos())
					continue
				}
				rn := "?"
				if len(d.Recv.List) == 1 {
					rn = recvTypeName(d.Recv.List[0].Type)
				}
				if d.Name.Name == "_" {
					continue
				}
				add(rn+"."+d.Name.Name, "method `"+rn+"."+d.Name.Name+"`", d.Name.Pos())
			case *ast.GenDecl:
				for _, sp := range d.Specs {
					switch sp := sp.(type) {
					case *ast.TypeSpec:
						predeclared(sp.Name, "type")
						add("."+sp.Name.Name, "`"+sp.Name.Name+"`", sp.Name.Pos())
					case *ast.ValueSpec:
						for _, n := range sp.Names {
							if n.Name == "_" {
								continue
							}
							predeclared(n, "variable / constant")
							add("."+n.Name, "`"+n.Name+"`", n.Pos())
						}
					}
				}
			}
		}
	}
	// a method and a field of the same name, duplicate fields / cases etc. are reported by go/types; so is
	// anything else that is not a consequence of the unresolved imports
	for _, te := range p.typeErr {
		if m := fatalTypeErr(te.Msg); m != "" {
			errs = append(errs, fmt.Sprintf("%s: type-checking the selected files: %s", p.fset.Position(te.Pos), te.Msg))
		}
	}
	if len(errs) > 0 {
		sort.Strings(errs)
		if len(errs) > 6 {
			errs = append(errs[:6], fmt.Sprintf("... and %d more", len(errs)-6))
		}
		return fmt.Errorf("%s", strings.Join(errs, "\n         "))
	}
	return nil
}

func recvTypeName(e ast.Expr) string {
	for {
		switch x := e.(type) {
		case *ast.StarExpr:
			e = x.X
		case *ast.ParenExpr:
			e = x.X
		case *ast.IndexExpr:
			e = x.X
		case *ast.IndexListExpr:
			e = x.X
		case *ast.Ident:
			return x.Name
		default:
			return "?"
		}
	}
}

// fatalTypeErr: a go/types message that cannot be a consequence of an unresolved import (imports are stubs or
// not resolved at all, so "undefined: pkg.X", "could not import", invalid operands on unresolved values etc.
// are expected; errors INSIDE a translated function are fatal anyway, see translate*).
var fatalTypeRe = regexp.MustCompile(`redeclared|already declared|duplicate|missing return|declared and not used|declared but not used|imported and not used|label .* (defined and not used|already defined)|invalid recursive type|initialization cycle|invalid receiver|field and method with the same name|mixture of field|misplaced|multiple defaults|cannot assign to|assignment mismatch|too many arguments|not enough arguments|missing function body`)

func fatalTypeErr(msg string) string {
	if strings.Contains(msg, "could not import") || strings.Contains(msg, "imports are not resolved") {
		return ""
	}
	return fatalTypeRe.FindString(msg)
}

func baseNames(fs []string) string {
	var out []string
	for _, f := range fs {
		out = append(out, filepath.Base(f))
	}
	return strings.Join(out, ", ")
}

// ---------------------------------------------------------------------------
// H1: generated names.  Temporaries are t<k>_ (never the Coq name of a Go identifier, see coqName).

var tempNameRe = regexp.MustCompile(`^t[0-9]+_$`)
var tempLetRe = regexp.MustCompile(`^let (t[0-9]+_|'\((t[0-9]+_|_)(, (t[0-9]+_|_))*\)) :=`)

func isTempName(s string) bool { return tempNameRe.MatchString(s) }

// isTempLet: a pending line that binds temporaries only (no variable of the source is rebound)
func isTempLet(l string) bool { return tempLetRe.MatchString(l) }

var bindHeadRe = regexp.MustCompile(`^(let|do) ('?\(?[^:<]*?\)?) (:=|<-) `)
var identRe = regexp.MustCompile(`[A-Za-z_][A-Za-z_0-9']*`)

// bindsOnlyTemps: a pending line ("let p := .. in" / "do p <- .. ;;") whose pattern binds temporaries only
func bindsOnlyTemps(l string) bool {
	m := bindHeadRe.FindStringSubmatch(l)
	if m == nil {
		return false
	}
	for _, id := range identRe.FindAllString(m[2], -1) {
		if id != "_" && !isTempName(id) {
			return false
		}
	}
	return true
}

// ---------------------------------------------------------------------------
// H2: operands of fmt.Sprintf / fmt.Errorf / errors.New.  fmt calls METHODS of its operands by reflection
// (Error, String, Format, GoString - also of the fields of a struct, the elements of a slice, the values
// behind a pointer or an interface), so an operand is user code unless its type rules that out.  Accepted:
// predeclared basic types, named basic types OF THE CURRENT PACKAGE without any of those methods, slices /
// arrays of such, and `error` (whose dynamic types are closed-world checked: errorMethodsPure).  Everything
// else (pointers, structs, maps, interfaces, named types of other packages of the repository, whose method
// sets the stubs do not show) is refused.  The operand EXPRESSION is translated like any other expression:
// a call inside it is translated for its effect / panic or makes the function leave the subset.

var fmtMethods = []string{"Error", "String", "Format", "GoString"}

var repoRoot5 string // set by the drivers (buildKernels2/3/4): the repository the sources come from

const repoPath5 = "github.com/gcash/bchutil"

func fmtOperandProblem(t types.Type, cur *types.Package) string {
	return fmtOperandProblemD(t, cur, 0)
}

func fmtOperandProblemD(t types.Type, cur *types.Package, depth int) string {
	if t == nil {
		return "an operand without a type"
	}
	if depth > 4 {
		return "a deeply nested operand type"
	}
	if isErrorType(t) {
		if bad := errorMethodsImpure(); len(bad) > 0 {
			return "an `error` operand, and the repository declares an Error method that is not visibly pure (" + strings.Join(bad, "; ") + ")"
		}
		return ""
	}
	if n, ok := t.(*types.Named); ok {
		if n.Obj().Pkg() != nil {
			p := n.Obj().Pkg().Path()
			inRepo := p == repoPath5 || strings.HasPrefix(p, repoPath5+"/")
			if inRepo && n.Obj().Pkg() != cur && !(cur != nil && cur.Path() == p) {
				return fmt.Sprintf("an operand of the type %s of another package of the repository (its methods are not visible here)", n)
			}
		}
		for _, mt := range []types.Type{t, types.NewPointer(t)} {
			ms := types.NewMethodSet(mt)
			for _, m := range fmtMethods {
				for i := 0; i < ms.Len(); i++ {
					if ms.At(i).Obj().Name() == m {
						if pk := ms.At(i).Obj().Pkg(); pk != nil && (cur == nil || pk.Path() == repoPath5 || strings.HasPrefix(pk.Path(), repoPath5+"/") || pk == cur) {
							return fmt.Sprintf("an operand of type %s, which has a method %s that fmt would call", n, m)
						}
					}
				}
			}
		}
	}
	switch u := t.Underlying().(type) {
	case *types.Basic:
		if u.Info()&(types.IsBoolean|types.IsNumeric|types.IsString) != 0 && u.Kind() != types.UnsafePointer {
			return ""
		}
		if u.Kind() == types.UntypedNil {
			return ""
		}
		return fmt.Sprintf("an operand of type %s", t)
	case *types.Slice:
		return fmtOperandProblemD(u.Elem(), cur, depth+1)
	case *types.Array:
		return fmtOperandProblemD(u.Elem(), cur, depth+1)
	}
	return fmt.Sprintf("an operand of type %s (fmt calls the Error / String / Format / GoString methods of what it is given, of its fields and of what it points to)", t)
}

// errorMethodsImpure: every `func (x T) Error() string` declared in the selected files of ANY directory of the
// repository must be a single `return <expression without calls other than conversions to predeclared
// types>`; the others are listed.  (An `error` value printed by fmt may have any of these dynamic types.)
var errImpureCache = map[string][]string{}

func errorMethodsImpure() []string {
	if repoRoot5 == "" {
		return nil
	}
	if r, ok := errImpureCache[repoRoot5]; ok {
		return r
	}
	var bad []string
	fset := token.NewFileSet()
	_ = filepath.Walk(repoRoot5, func(path string, fi fs5, err error) error {
		if err != nil {
			return nil
		}
		if fi.IsDir() {
			b := filepath.Base(path)
			if path != repoRoot5 && (strings.HasPrefix(b, ".") || b == "vendor" || b == "testdata") {
				return filepath.SkipDir
			}
			return nil
		}
		if !strings.HasSuffix(path, ".go") || strings.HasSuffix(path, "_test.go") || !srcselAnalysed(path) {
			return nil
		}
		f, perr := parseFile5(fset, path)
		if perr != nil {
			bad = append(bad, path+": "+perr.Error())
			return nil
		}
		for _, d := range f.Decls {
			fd, ok := d.(*ast.FuncDecl)
			if !ok || fd.Recv == nil || fd.Name.Name != "Error" || fd.Body == nil {
				continue
			}
			if fd.Type.Params.NumFields() != 0 || fd.Type.Results.NumFields() != 1 {
				continue
			}
			if why := impureErrorBody(fd); why != "" {
				bad = append(bad, fmt.Sprintf("%s: %s", fset.Position(fd.Pos()), why))
			}
		}
		return nil
	})
	sort.Strings(bad)
	errImpureCache[repoRoot5] = bad
	return bad
}

var predeclTypes5 = map[string]bool{"string": true, "int": true, "int8": true, "int16": true, "int32": true, "int64": true,
	"uint": true, "uint8": true, "uint16": true, "uint32": true, "uint64": true, "byte": true, "rune": true, "bool": true, "float64": true}

func impureErrorBody(fd *ast.FuncDecl) string {
	if len(fd.Body.List) != 1 {
		return "Error method with more than one statement"
	}
	r, ok := fd.Body.List[0].(*ast.ReturnStmt)
	if !ok || len(r.Results) != 1 {
		return "Error method that is not a single return"
	}
	why := ""
	ast.Inspect(r.Results[0], func(n ast.Node) bool {
		switch n := n.(type) {
		case *ast.CallExpr:
			if id, ok := n.Fun.(*ast.Ident); ok && predeclTypes5[id.Name] && len(n.Args) == 1 {
				return true
			}
			why = "Error method that calls something"
		case *ast.FuncLit, *ast.StarExpr, *ast.IndexExpr, *ast.SliceExpr, *ast.TypeAssertExpr:
			why = "Error method with a dereference / index / assertion / function literal"
		case *ast.UnaryExpr:
			if n.Op == token.ARROW || n.Op == token.AND {
				why = "Error method with a receive / address-of"
			}
		case *ast.BinaryExpr:
			if n.Op == token.QUO || n.Op == token.REM || n.Op == token.SHL || n.Op == token.SHR {
				why = "Error method with a division / shift"
			}
		}
		return why == ""
	})
	return why
}

// ---------------------------------------------------------------------------
// H4: nil receivers of abstract method calls.  p.M(..) on a dependency's method panics in Go when p is nil
// (nil-safe methods are listed in nilSafe5); the call is preceded by "do _ <- Go3.deref p ;;" (Panic 5) unless
// p is visibly non-nil: &x, a record held directly, or a term already dereferenced / checked on this path.

var nilSafe5 = map[string]bool{
	"chainhash_Hash_IsEqual": true, // handles a nil receiver and a nil argument itself
}

func (c *m3) nnSave() map[string]int {
	out := make(map[string]int, len(c.nn))
	for k, v := range c.nn {
		out[k] = v
	}
	return out
}

func (c *m3) nnMark(term string) {
	if c.nn == nil {
		c.nn = map[string]int{}
	}
	c.nnEpoch++
	c.nn[term] = c.nnEpoch
}

func (c *m3) nnRebind(name string) {
	if c.nnKill == nil {
		c.nnKill = map[string]int{}
	}
	c.nnEpoch++
	c.nnKill[name] = c.nnEpoch
}

func (c *m3) nnKnown(term string) bool {
	if strings.HasPrefix(term, "(Some ") {
		return true
	}
	e, ok := c.nn[term]
	if !ok {
		return false
	}
	for _, id := range identRe.FindAllString(term, -1) {
		if k, rebound := c.nnKill[id]; rebound && k > e {
			return false
		}
	}
	return true
}

func (c *m3) nilCheckRecv(call *ast.CallExpr, name string, recv ast.Expr, recvT mtype, rterm string) {
	if nilSafe5[name] {
		return
	}
	switch recvT.k {
	case mOpt:
		if c.nnKnown(rterm) {
			return
		}
		c.pend = append(c.pend, fmt.Sprintf("do _ <- Go3.deref %s ;;", rterm))
		c.effect = true
		c.nnMark(rterm)
	case mAbs:
		gt := c.typeOf(recv)
		_, isPtr := gt.Underlying().(*types.Pointer)
		_, isIface := gt.Underlying().(*types.Interface)
		if !isPtr && !isIface {
			return // a method of an addressable value (var buffer bytes.Buffer): never nil
		}
		if c.nnKnown(rterm) || c.absNonNilByDef(recv) {
			return
		}
		if !nilChecked5[recvT.abs] {
			c.note(call, "`%s`: the receiver (abstract %s) is assumed non-nil", c.srcText(call.Pos(), call.End()), recvT.abs)
			return
		}
		c.needVar(recvT.abs+"_isnil", c.coqT(recvT)+" -> bool", call)
		c.pend = append(c.pend, fmt.Sprintf("do _ <- Go3.nonnil (%s_isnil %s) ;;", recvT.abs, rterm))
		c.effect = true
		c.nnMark(rterm)
	}
}

// abstract object types whose method calls get the run-time nil check; for the others (bit streams, lists and
// their elements, big integers, hashers, interfaces such as Coin) a nil receiver is an ASSUMPTION noted in
// the header of each function that relies on it
var nilChecked5 = map[string]bool{"PublicKey": true, "PrivateKey": true, "KoblitzCurve": true}

// constructors of dependencies whose pointer / interface results are never nil (TRUSTED, listed in the notes)
var nonNilFuncs5 = map[string]bool{
	"github.com/kkdai/bstream.NewBStreamWriter": true, "github.com/kkdai/bstream.NewBStreamReader": true,
	"bytes.NewBuffer": true, "bytes.NewReader": true, "container/list.New": true,
	"github.com/gcash/bchd/bchec.S256": true, "github.com/gcash/bchd/bchec.PrivKeyFromBytes": true,
	"crypto/hmac.New": true, "crypto/sha256.New": true, "crypto/sha512.New": true, "golang.org/x/crypto/ripemd160.New": true,
	"math/big.NewInt": true,
}

// absNonNilByDef: recv is a local variable (not a parameter) every definition of which is new(T), &T{..} or a call
// of a constructor in nonNilFuncs5, or it is such a call itself
func (c *m3) absNonNilByDef(recv ast.Expr) bool {
	recv = stripParens(recv)
	if c.isNonNilCtor(recv) {
		return true
	}
	id, ok := recv.(*ast.Ident)
	if !ok {
		return false
	}
	o := c.obj(id)
	if o == nil || !c.isLocal(o) || c.isParam(o) >= 0 || o == c.recvObj {
		return false
	}
	for _, n := range c.named {
		if n == o {
			return false
		}
	}
	defs, good := 0, 0
	ast.Inspect(c.fn.Body, func(n ast.Node) bool {
		switch n := n.(type) {
		case *ast.AssignStmt:
			for i, l := range n.Lhs {
				lid, ok := l.(*ast.Ident)
				if !ok || c.obj(lid) != o {
					continue
				}
				defs++
				if len(n.Lhs) == len(n.Rhs) && (n.Tok == token.DEFINE || n.Tok == token.ASSIGN) && c.isNonNilCtor(n.Rhs[i]) {
					good++
				} else if len(n.Rhs) == 1 && len(n.Lhs) > 1 && c.isNonNilCtor(n.Rhs[0]) {
					good++
				}
			}
		case *ast.ValueSpec:
			for _, vn := range n.Names {
				if c.p.info.Defs[vn] == o {
					defs += 2 // var x *T (nil)
				}
			}
		case *ast.RangeStmt:
			for _, e := range []ast.Expr{n.Key, n.Value} {
				if lid, ok := e.(*ast.Ident); ok && c.obj(lid) == o {
					defs += 2
				}
			}
		case *ast.UnaryExpr:
			if lid, ok := n.X.(*ast.Ident); ok && n.Op == token.AND && c.obj(lid) == o {
				defs += 2
			}
		}
		return true
	})
	return defs > 0 && defs == good
}

func (c *m3) isNonNilCtor(e ast.Expr) bool {
	e = stripParens(e)
	if c.isFreshPtr(e) {
		return true
	}
	if u, ok := e.(*ast.UnaryExpr); ok && u.Op == token.AND {
		return true // the address of a variable or field (evaluating the operand is checked separately)
	}
	ce, ok := e.(*ast.CallExpr)
	if !ok {
		return false
	}
	if tv, ok := c.p.info.Types[ce.Fun]; ok && tv.IsType() && len(ce.Args) == 1 {
		return c.isNonNilCtor(ce.Args[0]) // a pointer conversion
	}
	if path, name, ok := c.pkgCall(ce); ok {
		return nonNilFuncs5[path+"."+name] || freshFuncs3[path+"."+name]
	}
	return false
}

// aliasSrc5: see H7 below
type aliasSrc5 struct {
	obj  types.Object // the abstract object whose storage the variable shares
	what string
	pos  token.Pos
}

// ---------------------------------------------------------------------------
// H3: sort.Sort(T(x)) / sort.IsSorted(T(x)) / sort.Sort(sort.Reverse(T(x))).  The sorting algorithm stays a
// Section variable named after T, but (1) T must be a type of the translated package whose Len, Less and
// Swap are ALL in the lists of translated functions (so each has a tie theorem): sorting through any other
// type - a new wrapper with its own Less - makes the function leave the subset; (2) every site is recorded in
// the generated constant sort_sites (function, kind, type): Tie/Kernels3_TxSort.v / Kernels3_CoinSet.v prove
// it equal to the list the tie theorems were written for, so changing the type at a site (e.g. byAmount ->
// byValueAge, same element type, same positional parameter) breaks a named lemma.

type sortSite5 struct {
	fn, kind, typ string
	m4            bool
}

func sortMethodListed5(pkgdir, recv, fn string) bool {
	for _, k := range kernels3 {
		if k.pkg == pkgdir && k.recv == recv && k.fn == fn && k.from == "" {
			return true
		}
	}
	for _, k := range kernels4 {
		if k.pkg == pkgdir && k.recv == recv && k.fn == fn && k.from == "" {
			return true
		}
	}
	for _, k := range kernels2 {
		if k.pkg == pkgdir && k.recv == recv && k.fn == fn && k.from == "" {
			return true
		}
	}
	for _, k := range extraSortMethods5 {
		if k.pkg == pkgdir && k.recv == recv && k.fn == fn {
			return true
		}
	}
	return false
}

// (self-tests only) methods accepted as translated
var extraSortMethods5 []k3spec

func (c *m3) sortSite(call *ast.CallExpr, kind string, n *types.Named) {
	if n.Obj().Pkg() != c.p.tpkg {
		c.fail(call, "sort through the type %s of another package", n)
	}
	for _, m := range []string{"Len", "Less", "Swap"} {
		if !sortMethodListed5(c.spec.pkg, n.Obj().Name(), m) {
			c.fail(call, "`%s`: the method %s.%s is not in the list of translated functions, so nothing ties the order used here to a model (sort sites are accepted only for types whose Len, Less and Swap are translated and tied)",
				c.srcText(call.Pos(), call.End()), n.Obj().Name(), m)
		}
	}
	site := sortSite5{fn: c.spec.name, kind: kind, typ: c.p.name + "." + n.Obj().Name(), m4: c.spec.m4}
	for _, s := range c.g.sortSites {
		if s == site {
			return // the function is translated more than once (fallible / infallible pass): one entry per site kind
		}
	}
	c.g.sortSites = append(c.g.sortSites, site)
}

func sortSitesText5(sites []sortSite5, m4 bool) string {
	var rows []string
	var cm []string
	for _, s := range sites {
		if s.m4 != m4 {
			continue
		}
		txt := s.fn + ":" + s.kind + ":" + s.typ
		cm = append(cm, txt)
		rows = append(rows, bytesLit([]byte(txt)))
	}
	if len(rows) == 0 && m4 {
		return ""
	}
	var sb strings.Builder
	sb.WriteString("\n(* sort sites (phase 5): every sort.Sort / sort.IsSorted call of the functions above, as the bytes of\n   \"<Coq function>:<Sort|IsSorted|Sort_Reverse>:<package>.<static type of the argument>\", in order of\n   translation.  The tie files prove this list equal to the one their theorems were written for:\n")
	for _, t := range cm {
		sb.WriteString("     " + t + "\n")
	}
	sb.WriteString("*)\nDefinition sort_sites : list (list N) :=\n  [" + strings.Join(rows, ";\n   ") + "].\n")
	return sb.String()
}

// ---------------------------------------------------------------------------
// H7: methods of abstract objects that return the object's INTERNAL STORAGE.  The translation treats the
// result as a value; that is sound only while the object is not changed afterwards.  So: after x.Bytes() (x a
// bit stream or a bytes.Buffer) no method that changes x (mutating3) may be called and x may not be passed
// to a function that changes it (mutArgs3), neither later in the function nor in a loop that contains the
// call; and x must be a local variable of the function (the caller of a function that returned storage of
// its argument could change the argument later, unseen).

var aliasing5 = map[string]bool{"BStream_Bytes": true, "Buffer_Bytes": true}

func (c *m3) absAliasCheck5() {
	type ev struct {
		pos  token.Pos
		end  token.Pos
		call *ast.CallExpr
		o    types.Object
	}
	var aliases, muts []ev
	var loops []ast.Node
	ast.Inspect(c.bodyNode, func(n ast.Node) bool {
		switch n := n.(type) {
		case *ast.ForStmt, *ast.RangeStmt:
			loops = append(loops, n)
		case *ast.CallExpr:
			name := absCallName4(c.p.info, n)
			if name == "" {
				return true
			}
			sel := n.Fun.(*ast.SelectorExpr)
			if aliasing5[name] {
				o := c.rootVar(sel.X)
				if o == nil {
					c.fail(n, "`%s` returns internal storage of an object that is not a variable", c.srcText(n.Pos(), n.End()))
				}
				aliases = append(aliases, ev{n.Pos(), n.End(), n, o})
				return true
			}
			if i := strings.Index(name, "_"); i > 0 && mutating3[name[:i]+"."+name[i+1:]] {
				if o := c.rootVar(sel.X); o != nil {
					muts = append(muts, ev{n.Pos(), n.End(), n, o})
				}
			}
			for _, j := range mutArgs3[name] {
				if j < len(n.Args) {
					if o := c.rootVar(n.Args[j]); o != nil {
						muts = append(muts, ev{n.Pos(), n.End(), n, o})
					}
				}
			}
		}
		return true
	})
	for _, a := range aliases {
		if !c.isLocal(a.o) || c.isParam(a.o) >= 0 || a.o == c.recvObj {
			c.fail(a.call, "`%s` returns the internal storage of `%s`, which is not a local object of this function (its later changes would be invisible): aliasing is not modelled",
				c.srcText(a.call.Pos(), a.call.End()), a.o.Name())
		}
		if sel, ok := a.call.Fun.(*ast.SelectorExpr); ok {
			if _, isId := stripParens(sel.X).(*ast.Ident); !isId {
				c.fail(a.call, "`%s` returns internal storage of an object reached through a path", c.srcText(a.call.Pos(), a.call.End()))
			}
		}
		for _, m := range muts {
			if m.o != a.o {
				continue
			}
			if m.pos > a.pos {
				c.fail(m.call, "`%s` changes `%s` after `%s` handed out its internal storage (L%d): the slice obtained there aliases the object and aliasing is not modelled",
					c.srcText(m.call.Pos(), m.call.End()), a.o.Name(), c.srcText(a.call.Pos(), a.call.End()), c.line(a.call))
			}
			for _, l := range loops {
				if l.Pos() <= a.o.Pos() && a.o.Pos() < l.End() {
					continue // declared in the loop body: a new object in every iteration
				}
				if l.Pos() <= a.pos && a.end <= l.End() && l.Pos() <= m.pos && m.end <= l.End() {
					c.fail(m.call, "`%s` changes `%s` in a loop in which `%s` hands out its internal storage", c.srcText(m.call.Pos(), m.call.End()), a.o.Name(), c.srcText(a.call.Pos(), a.call.End()))
				}
			}
		}
		// any other way of changing the object after the call: passing it (or its address) to anything
		ast.Inspect(c.bodyNode, func(n ast.Node) bool {
			ce, ok := n.(*ast.CallExpr)
			if !ok || ce.Pos() <= a.pos {
				return true
			}
			for _, arg := range ce.Args {
				x := stripParens(arg)
				if u, ok := x.(*ast.UnaryExpr); ok && u.Op == token.AND {
					x = stripParens(u.X)
				}
				if id, ok := x.(*ast.Ident); ok && c.obj(id) == a.o {
					c.fail(ce, "`%s` is passed on after `%s` handed out its internal storage (aliasing is not modelled)", id.Name, c.srcText(a.call.Pos(), a.call.End()))
				}
			}
			return true
		})
	}
}

// ---------------------------------------------------------------------------
// H8: partial dependencies.  A Section variable is a total function; where the real dependency panics outside a
// domain, the call is preceded by its precondition: "do _ <- Go3.require <cond> ;;" (Panic 7) for conditions
// on values, "do _ <- Go3.deref p ;;" (Panic 5) for pointer arguments the dependency dereferences.  The table
// is the audit of every abstract function / method the translated sources use (notes, "Phase 5").

// argument i must be >= 0
var nonNegArgs5 = map[string][]int{
	"Buffer_Grow": {0}, // bytes.Buffer.Grow: "negative count" panic
}

// pointer argument i is dereferenced by the dependency
var nonNilArgs5 = map[string][]int{
	"siphash_Sum64":                 {1},
	"blockchain_HashMerkleBranches": {0, 1},
	"wire_NewOutPoint":              {0},
}

// argument i must be a constant in [lo, hi] (checked at translation time)
var constRangeArgs5 = map[string][3]int64{
	"strconv_FormatInt":   {1, 2, 36},
	"strconv_FormatFloat": {3, 32, 64},
}

func (c *m3) precondArg5(call *ast.CallExpr, name string, i int, a ast.Expr, t mtype, term string) {
	for _, j := range nonNegArgs5[name] {
		if j == i && !c.nonNeg(a) {
			c.pend = append(c.pend, fmt.Sprintf("do _ <- Go3.require (0 <=? %s)%%Z ;;", asZ(term, t)))
			c.effect = true
		}
	}
	for _, j := range nonNilArgs5[name] {
		if j == i && t.k == mOpt && !c.nnKnown(term) {
			c.pend = append(c.pend, fmt.Sprintf("do _ <- Go3.deref %s ;;", term))
			c.effect = true
			c.nnMark(term)
		}
	}
	if r, ok := constRangeArgs5[name]; ok && int(r[0]) == i {
		v, isConst := c.constInt(a)
		if !isConst || v < r[1] || v > r[2] || (name == "strconv_FormatFloat" && v != 32 && v != 64) {
			c.fail(a, "argument %d of `%s` must be a constant in its domain (the dependency panics outside it)", i+1, name)
		}
	}
}

// ---------------------------------------------------------------------------
// H6: a translated function must not declare an identifier that is predeclared in Go (nil, true, false, iota,
// len, append, string, error, ...): the translators recognise those by name.

func (c *ctx) checkLocalNames5() {
	ast.Inspect(c.fn, func(n ast.Node) bool {
		id, ok := n.(*ast.Ident)
		if !ok || id.Name == "_" {
			return true
		}
		if o := c.p.info.Defs[id]; o != nil && id != c.fn.Name {
			if _, isField := o.(*types.Var); isField && o.(*types.Var).IsField() {
				return true
			}
			if types.Universe.Lookup(id.Name) != nil && id.Name != "max" && id.Name != "min" && id.Name != "clear" {
				c.fail(id, "declaration of `%s`, which is a predeclared identifier of Go (the translator recognises those by name)", id.Name)
			}
		}
		return true
	})
}

// trivialCap5: a capacity / size-hint expression that cannot panic or have an effect: literals, variables,
// len(<variable>), sums and products of such.  Anything else is evaluated by the translation even though its
// value is not observable.
func trivialCap5(e ast.Expr) bool {
	switch e := e.(type) {
	case *ast.BasicLit, *ast.Ident:
		return true
	case *ast.ParenExpr:
		return trivialCap5(e.X)
	case *ast.BinaryExpr:
		return (e.Op == token.ADD || e.Op == token.MUL) && trivialCap5(e.X) && trivialCap5(e.Y)
	case *ast.CallExpr:
		if id, ok := e.Fun.(*ast.Ident); ok && id.Name == "len" && len(e.Args) == 1 {
			_, isId := e.Args[0].(*ast.Ident)
			return isId
		}
	}
	return false
}

// notDiscardable5: why the translation may NOT drop the expression e ("" = it may): a dropped expression
// consists of variables, constants, field selections (through the receiver or a record held directly; any
// other pointer could be nil), conversions between basic types, + - * & | ^ &^ and comparisons, and calls
// of the constructors in nonNilFuncs5 with such arguments.  No other call, no index, no division, no shift,
// no dereference, no function literal.
func (c *m3) notDiscardable5(e ast.Expr) string {
	why := ""
	var walk func(e ast.Expr)
	walk = func(e ast.Expr) {
		if why != "" || e == nil {
			return
		}
		if tv, ok := c.p.info.Types[e]; ok && tv.Value != nil {
			return
		}
		switch x := e.(type) {
		case *ast.Ident, *ast.BasicLit:
		case *ast.ParenExpr:
			walk(x.X)
		case *ast.SelectorExpr:
			if id, ok := x.X.(*ast.Ident); ok {
				if _, isPkg := c.obj(id).(*types.PkgName); isPkg {
					return
				}
			}
			sel := c.p.info.Selections[x]
			if sel == nil || sel.Kind() != types.FieldVal {
				why = "it contains a method value"
				return
			}
			if sel.Indirect() {
				id, ok := stripParens(x.X).(*ast.Ident)
				if !ok || !(c.obj(id) == c.recvObj || c.direct[c.obj(id)]) {
					why = "it selects a field through a pointer that may be nil"
					return
				}
			}
			walk(x.X)
		case *ast.UnaryExpr:
			if x.Op == token.ARROW {
				why = "it contains a channel receive"
				return
			}
			walk(x.X)
		case *ast.BinaryExpr:
			switch x.Op {
			case token.QUO, token.REM, token.SHL, token.SHR:
				why = "it contains a division or a shift, which can panic"
				return
			}
			walk(x.X)
			walk(x.Y)
		case *ast.CallExpr:
			if tv, ok := c.p.info.Types[x.Fun]; ok && tv.IsType() && len(x.Args) == 1 {
				if _, basic := tv.Type.Underlying().(*types.Basic); basic {
					walk(x.Args[0])
					return
				}
			}
			if path, name, ok := c.pkgCall(x); ok && nonNilFuncs5[path+"."+name] {
				for _, a := range x.Args {
					walk(a)
				}
				return
			}
			why = "it contains the call `" + c.srcText(x.Pos(), x.End()) + "`"
		default:
			why = "it contains " + nodeName(e)
		}
	}
	walk(e)
	return why
}

// nilCheckAbsField5: x.f for an abstract object x held by pointer: nil is Panic 5 (types in nilChecked5; noted otherwise)
func (c *m3) nilCheckAbsField5(e *ast.SelectorExpr, xt mtype, xterm string) {
	gt := c.typeOf(e.X)
	if _, isPtr := gt.Underlying().(*types.Pointer); !isPtr {
		return
	}
	if c.nnKnown(xterm) || c.absNonNilByDef(e.X) {
		return
	}
	if !nilChecked5[xt.abs] {
		c.note(e, "`%s`: the abstract %s is assumed non-nil", c.srcText(e.Pos(), e.End()), xt.abs)
		return
	}
	c.needVar(xt.abs+"_isnil", c.coqT(xt)+" -> bool", e)
	c.pend = append(c.pend, fmt.Sprintf("do _ <- Go3.nonnil (%s_isnil %s) ;;", xt.abs, xterm))
	c.effect = true
	c.nnMark(xterm)
}

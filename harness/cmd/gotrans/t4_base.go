package main

// Fourth mode: the list of functions, the prelude of Gen/Kernels4.v and the math/big intrinsics.

import (
	"fmt"
	"go/ast"
	"go/token"
	"go/types"
)

// functions translated into Gen/Kernels4.v, callees before callers
var kernels4 = []k3spec{
	// P1: base58 (math/big as intrinsics)
	{pkg: "base58", fn: "Decode", name: "base58_Decode_"},
	{pkg: "base58", fn: "Encode", name: "base58_Encode_"},
	// P2: amount.go (float64 through Flocq)
	{pkg: ".", recv: "AmountUnit", fn: "String", name: "AmountUnit_String"},
	{pkg: ".", fn: "round", name: "bchutil_round"},
	{pkg: ".", fn: "NewAmount", name: "NewAmount"},
	{pkg: ".", recv: "Amount", fn: "ToUnit", name: "Amount_ToUnit"},
	{pkg: ".", recv: "Amount", fn: "ToBCH", name: "Amount_ToBCH"},
	{pkg: ".", recv: "Amount", fn: "Format", name: "Amount_Format"},
	{pkg: ".", recv: "Amount", fn: "String", name: "Amount_String"},
	{pkg: ".", recv: "Amount", fn: "MulF64", name: "Amount_MulF64"},
	// P3: the remaining small functions
	{pkg: ".", fn: "NewAddressPubKeyHash", name: "NewAddressPubKeyHash"},
	{pkg: ".", fn: "NewAddressScriptHashFromHash", name: "NewAddressScriptHashFromHash"},
	{pkg: ".", fn: "NewAddressScriptHash", name: "NewAddressScriptHash"},
	{pkg: ".", fn: "NewAddressScriptHash32FromHash", name: "NewAddressScriptHash32FromHash"},
	{pkg: ".", fn: "NewAddressScriptHash32", name: "NewAddressScriptHash32"},
	{pkg: ".", fn: "NewLegacyAddressPubKeyHash", name: "NewLegacyAddressPubKeyHash"},
	{pkg: ".", fn: "NewLegacyAddressScriptHashFromHash", name: "NewLegacyAddressScriptHashFromHash"},
	{pkg: ".", fn: "NewLegacyAddressScriptHash", name: "NewLegacyAddressScriptHash"},
	{pkg: ".", recv: "AddressPubKeyHash", fn: "Hash160", name: "AddressPubKeyHash_Hash160"},
	{pkg: ".", recv: "AddressScriptHash", fn: "Hash160", name: "AddressScriptHash_Hash160"},
	{pkg: ".", recv: "AddressScriptHash32", fn: "Hash256", name: "AddressScriptHash32_Hash256"},
	{pkg: ".", recv: "LegacyAddressPubKeyHash", fn: "Hash160", name: "LegacyAddressPubKeyHash_Hash160"},
	{pkg: ".", recv: "LegacyAddressScriptHash", fn: "Hash160", name: "LegacyAddressScriptHash_Hash160"},
	{pkg: ".", recv: "AddressPubKeyHash", fn: "String", name: "AddressPubKeyHash_String"},
	{pkg: ".", recv: "AddressScriptHash", fn: "String", name: "AddressScriptHash_String"},
	{pkg: ".", recv: "AddressScriptHash32", fn: "String", name: "AddressScriptHash32_String"},
	{pkg: ".", recv: "LegacyAddressPubKeyHash", fn: "String", name: "LegacyAddressPubKeyHash_String"},
	{pkg: ".", recv: "LegacyAddressScriptHash", fn: "String", name: "LegacyAddressScriptHash_String"},
	{pkg: ".", fn: "ConvertSlpToCashAddress", name: "ConvertSlpToCashAddress"},
	{pkg: ".", fn: "ConvertCashToSlpAddress", name: "ConvertCashToSlpAddress"},
	{pkg: ".", recv: "AddressPubKey", fn: "Format", name: "AddressPubKey_Format"},
	{pkg: ".", recv: "AddressPubKey", fn: "SetFormat", name: "AddressPubKey_SetFormat"},
	{pkg: ".", fn: "paramsFromNetID", name: "paramsFromNetID"},
	{pkg: ".", recv: "AddressPubKey", fn: "AddressPubKeyHash", name: "AddressPubKey_AddressPubKeyHash"},
	{pkg: ".", recv: "AddressPubKey", fn: "PubKey", name: "AddressPubKey_PubKey"},
	{pkg: ".", fn: "NewWIF", name: "NewWIF"},
	{pkg: ".", fn: "calcHash", name: "bchutil_calcHash"},
	{pkg: ".", fn: "Hash160", name: "Hash160_impl"},
	{pkg: ".", fn: "Hash256", name: "Hash256_impl"},
	{pkg: ".", recv: "OutOfRangeError", fn: "Error", name: "OutOfRangeError_Error"},
	{pkg: "coinset", recv: "byValueAge", fn: "Len", name: "byValueAge_Len"},
	{pkg: "coinset", recv: "byValueAge", fn: "Swap", name: "byValueAge_Swap"},
	{pkg: "coinset", recv: "byValueAge", fn: "Less", name: "byValueAge_Less"},
	{pkg: "coinset", recv: "byAmount", fn: "Len", name: "byAmount_Len"},
	{pkg: "coinset", recv: "byAmount", fn: "Swap", name: "byAmount_Swap"},
	{pkg: "coinset", recv: "byAmount", fn: "Less", name: "byAmount_Less"},
	{pkg: "coinset", recv: "SimpleCoin", fn: "Hash", name: "SimpleCoin_Hash"},
	{pkg: "coinset", recv: "SimpleCoin", fn: "Index", name: "SimpleCoin_Index"},
	{pkg: "coinset", recv: "SimpleCoin", fn: "txOut", name: "SimpleCoin_txOut"},
	{pkg: "coinset", recv: "SimpleCoin", fn: "Value", name: "SimpleCoin_Value"},
	{pkg: "coinset", recv: "SimpleCoin", fn: "PkScript", name: "SimpleCoin_PkScript"},
	{pkg: "coinset", recv: "SimpleCoin", fn: "NumConfs", name: "SimpleCoin_NumConfs"},
	{pkg: "coinset", recv: "SimpleCoin", fn: "ValueAge", name: "SimpleCoin_ValueAge"},
	{pkg: "txsort", recv: "sortableInputSlice", fn: "Len", name: "sortableInputSlice_Len"},
	{pkg: "txsort", recv: "sortableInputSlice", fn: "Swap", name: "sortableInputSlice_Swap"},
	{pkg: "txsort", recv: "sortableOutputSlice", fn: "Len", name: "sortableOutputSlice_Len"},
	{pkg: "txsort", recv: "sortableOutputSlice", fn: "Swap", name: "sortableOutputSlice_Swap"},
	{pkg: "gcs/builder", fn: "RandomKey", name: "RandomKey"},
	{pkg: "gcs/builder", fn: "WithKeyPM", name: "WithKeyPM"},
	{pkg: "gcs/builder", fn: "WithKey", name: "WithKey"},
	{pkg: "gcs/builder", fn: "WithKeyHashPM", name: "WithKeyHashPM"},
	{pkg: "gcs/builder", fn: "WithRandomKeyPNM", name: "WithRandomKeyPNM"},
	{pkg: "gcs/builder", fn: "WithRandomKeyPM", name: "WithRandomKeyPM"},
	{pkg: "gcs/builder", fn: "WithRandomKey", name: "WithRandomKey"},
	{pkg: "gcs/builder", fn: "BuildBasicFilter", name: "BuildBasicFilter"},
	{pkg: "gcs/builder", fn: "BuildMempoolFilter", name: "BuildMempoolFilter"},
	{pkg: "gcs/builder", fn: "GetFilterHash", name: "GetFilterHash"},
	{pkg: "gcs/builder", fn: "MakeHeaderForFilter", name: "MakeHeaderForFilter"},
	{pkg: "hdkeychain", recv: "ExtendedKey", fn: "ECPubKey", name: "ExtendedKey_ECPubKey"},
	{pkg: "hdkeychain", recv: "ExtendedKey", fn: "ECPrivKey", name: "ExtendedKey_ECPrivKey"},
	{pkg: "hdkeychain", recv: "ExtendedKey", fn: "Address", name: "ExtendedKey_Address"},
	{pkg: "hdkeychain", fn: "GenerateSeed", name: "GenerateSeed"},
	{pkg: "merkleblock", recv: "PartialBlock", fn: "GetMatches", name: "PartialBlock_GetMatches"},
	{pkg: "merkleblock", recv: "PartialBlock", fn: "GetItems", name: "PartialBlock_GetItems"},
	{pkg: "merkleblock", recv: "PartialBlock", fn: "BadTree", name: "PartialBlock_BadTree"},
	{pkg: "bloom", fn: "minUint32", name: "minUint32"},
	{pkg: "bloom", fn: "NewMerkleBlock", name: "bloom_NewMerkleBlock"},
	{pkg: "merkleblock", fn: "NewMerkleBlockWithFilter", name: "NewMerkleBlockWithFilter"},
	// P5: the JSON tree rewriters (t4_json.go)
	{pkg: "jsonpb", fn: "convertBase64", name: "convertBase64"},
	{pkg: "jsonpb", fn: "convertHex", name: "convertHex"},
	// P6: bloom.NewFilter (math.Log a Section variable; the float arithmetic and the clamps concrete)
	{pkg: "bloom", fn: "NewFilter", name: "NewFilter"},
	// P4: block.go / tx.go with the wire (de)serialisers and io as Section variables
	{pkg: ".", recv: "Block", fn: "Bytes", name: "Block_Bytes"},
	{pkg: ".", recv: "Block", fn: "TxLoc", name: "Block_TxLoc"},
	{pkg: ".", fn: "NewBlockFromReader", name: "NewBlockFromReader"},
	{pkg: ".", fn: "NewBlockFromBytes", name: "NewBlockFromBytes"},
	{pkg: ".", fn: "NewTxFromReader", name: "NewTxFromReader"},
	{pkg: ".", fn: "NewTxFromBytes", name: "NewTxFromBytes"},
	// P4, heap variant (t4_heap.go): the *Tx objects live in a table; LAST among the functions of the package
	// (they replace the value versions of Gen/Kernels3.v for the callers listed after them)
	{pkg: ".", fn: "NewTx", name: "hNewTx", heap: true},
	{pkg: ".", recv: "Tx", fn: "MsgTx", name: "hTx_MsgTx", heap: true},
	{pkg: ".", recv: "Tx", fn: "Hash", name: "hTx_Hash", heap: true},
	{pkg: ".", recv: "Tx", fn: "Index", name: "hTx_Index", heap: true},
	{pkg: ".", recv: "Tx", fn: "SetIndex", name: "hTx_SetIndex", heap: true},
	{pkg: ".", recv: "Block", fn: "Tx", name: "hBlock_Tx", heap: true},
	{pkg: ".", recv: "Block", fn: "Transactions", name: "hBlock_Transactions", heap: true},
	{pkg: ".", recv: "Block", fn: "TxHash", name: "hBlock_TxHash", heap: true},
}

var header4 = `(* GENERATED by harness/cmd/gotrans (fourth mode) from the Go sources; do not edit.

   Continuation of Gen/Kernels3.v: the same translation (see its header and the
   header of Gen/Kernels2.v), and in addition:
   - the Records / Inductives / functions of Gen/Kernels3.v are not repeated: inside
     Section K4 the Section variables of K3 that are needed are declared again under
     the same names, and every definition of Kernels3.v that is used here is a
     Local Notation applying it to the variables it was abstracted over
     (constructors: with inferred parameters, so that they can be used in patterns);
   - math/big is a TRUSTED intrinsic family: a *big.Int is its value, a Z (module
     Go4 below gives the meaning of each method used: exact integer arithmetic).
     The translator accepts this only where object identity cannot be observed:
     every local *big.Int is created by big.NewInt / new(big.Int) and never copied,
     returned, stored or passed on; package-level *big.Int variables are
     initialised by big.NewInt(<constant>) and only read in the whole package.
   Tie/Kernels4*.v prove these functions equal to the hand-written models. *)
From Coq Require Import List NArith ZArith Bool.
From Flocq Require Core IEEE754.BinarySingleNaN.
From BU Require Import Lib.Bytes Lib.Radix Gen.Kernels Gen.Kernels2 Gen.Kernels3.
Import ListNotations.
Local Open Scope N_scope.

Module Go4.

(* ---- math/big (TRUSTED): exact arithmetic on Z ---- *)
(* big.NewInt(x), z.SetInt64(x): the value x *)
Definition big_of_int64 (x : Z) : Z := x.
(* z.SetBytes(b): b read as a big-endian unsigned integer *)
Definition big_set_bytes (b : list N) : Z := Z.of_N (Radix.value 256 b 0).
(* x.Bytes(): the absolute value, big-endian, without leading zero bytes (empty for 0) *)
Definition big_bytes (x : Z) : list N := Radix.digits 256 (Z.abs_N x).
(* z.Mul(x, y), z.Add(x, y) *)
Definition big_mul (x y : Z) : Z := (x * y)%Z.
Definition big_add (x y : Z) : Z := (x + y)%Z.
(* z.DivMod(x, y, m): Euclidean division, 0 <= m < |y|; panics when y = 0 *)
Definition big_divmod (x y : Z) : res (Z * Z) :=
  if (y =? 0)%Z then Panic 3
  else let m := (x mod (Z.abs y))%Z in Ok (((x - m) / y)%Z, m).
(* x.Cmp(y): -1, 0, +1 *)
Definition big_cmp (x y : Z) : Z := match (x ?= y)%Z with Lt => (-1)%Z | Eq => 0%Z | Gt => 1%Z end.
(* x.Sign() *)
Definition big_sign (x : Z) : Z := Z.sgn x.
(* x.Int64(): the value when it fits; otherwise the low 64 bits in two's complement
   (Go: "undefined"; this is what the implementation returns) *)
Definition big_int64 (x : Z) : Z := Go.wrapZ 64 x.

` + floatPrelude4 + heapPrelude4 + jsonPrelude4 + `End Go4.

`

// ---------------------------------------------------------------------------
// math/big

func isBigInt4(t types.Type) bool {
	if t == nil {
		return false
	}
	if p, ok := t.(*types.Pointer); ok {
		t = p.Elem()
	}
	n, ok := t.(*types.Named)
	return ok && n.Obj().Pkg() != nil && n.Obj().Pkg().Path() == "math/big" && n.Obj().Name() == "Int"
}

var bigMutating4 = map[string]bool{"SetInt64": true, "SetBytes": true, "Mul": true, "Add": true, "DivMod": true}
var bigReading4 = map[string]bool{"Cmp": true, "Sign": true, "Int64": true, "Bytes": true}

// isFreshBig: big.NewInt(..), new(big.Int), or a mutating method on such an expression
func (c *m3) isFreshBig(e ast.Expr) bool {
	e = stripParens(e)
	call, ok := e.(*ast.CallExpr)
	if !ok {
		return false
	}
	if path, name, ok := c.pkgCall(call); ok {
		return path == "math/big" && name == "NewInt"
	}
	if id, ok := call.Fun.(*ast.Ident); ok {
		if b, isB := c.obj(id).(*types.Builtin); isB && b.Name() == "new" {
			return isBigInt4(c.typeOf(call))
		}
	}
	if sel, ok := call.Fun.(*ast.SelectorExpr); ok && bigMutating4[sel.Sel.Name] && isBigInt4(c.typeOf(sel.X)) {
		return c.isFreshBig(sel.X)
	}
	return false
}

// checkBig: object identity of *big.Int values must not be observable (see the header of Kernels4.v)
func (c *m3) checkBig() {
	var stack []ast.Node
	ast.Inspect(c.bodyNode, func(n ast.Node) bool {
		if n == nil {
			stack = stack[:len(stack)-1]
			return true
		}
		stack = append(stack, n)
		id, ok := n.(*ast.Ident)
		if !ok {
			return true
		}
		o := c.obj(id)
		v, isVar := o.(*types.Var)
		if !isVar || v.IsField() || !isBigInt4(v.Type()) {
			return true
		}
		if _, isPtr := v.Type().(*types.Pointer); !isPtr {
			c.fail(id, "`%s`: a big.Int held by value", id.Name)
		}
		local := c.isLocal(o)
		if local && (c.isParam(o) >= 0 || o == c.recvObj) {
			c.fail(id, "`%s`: a *big.Int parameter (object identity is not modelled)", id.Name)
		}
		k := len(stack) - 2
		for k >= 0 {
			if _, isP := stack[k].(*ast.ParenExpr); !isP {
				break
			}
			k--
		}
		if k < 0 {
			c.fail(id, "unsupported use of the *big.Int `%s`", id.Name)
		}
		switch p := stack[k].(type) {
		case *ast.AssignStmt:
			for i, l := range p.Lhs {
				if stripParens(l) == ast.Expr(id) {
					if !local {
						c.fail(id, "assignment to the package-level *big.Int `%s`", id.Name)
					}
					if len(p.Lhs) != len(p.Rhs) || (p.Tok != token.DEFINE && p.Tok != token.ASSIGN) || !c.isFreshBig(p.Rhs[i]) {
						c.fail(p, "`%s` is assigned something other than a new big.Int (big.NewInt / new(big.Int)): object identity is not modelled", id.Name)
					}
					return true
				}
			}
			c.fail(id, "the *big.Int `%s` is copied (object identity is not modelled)", id.Name)
		case *ast.ValueSpec:
			for i, nm := range p.Names {
				if nm == id {
					if i < len(p.Values) && !c.isFreshBig(p.Values[i]) {
						c.fail(p, "`%s` is initialised by something other than a new big.Int", id.Name)
					}
					if len(p.Values) == 0 {
						c.fail(p, "`%s`: a nil *big.Int variable", id.Name)
					}
					return true
				}
			}
			c.fail(id, "the *big.Int `%s` is copied (object identity is not modelled)", id.Name)
		case *ast.SelectorExpr:
			// receiver of a method: checked at the call
			if k >= 1 {
				if call, isCall := stack[k-1].(*ast.CallExpr); isCall && call.Fun == ast.Expr(p) && stripParens(p.X) == ast.Expr(id) {
					m := p.Sel.Name
					if bigMutating4[m] {
						if !local {
							c.fail(call, "the package-level *big.Int `%s` is changed", id.Name)
						}
						return true
					}
					if bigReading4[m] {
						return true
					}
					c.fail(call, "big.Int method %s is not one of the intrinsics", m)
				}
			}
			c.fail(id, "unsupported use of the *big.Int `%s`", id.Name)
		case *ast.CallExpr:
			// argument of a big.Int method
			if sel, isSel := p.Fun.(*ast.SelectorExpr); isSel && isBigInt4(c.typeOf(sel.X)) && (bigMutating4[sel.Sel.Name] || bigReading4[sel.Sel.Name]) {
				if sel.Sel.Name == "DivMod" && len(p.Args) == 3 && stripParens(p.Args[2]) == ast.Expr(id) {
					if !local {
						c.fail(p, "the package-level *big.Int `%s` is changed", id.Name)
					}
					if rid, ok := stripParens(sel.X).(*ast.Ident); ok && c.obj(rid) == o {
						c.fail(p, "DivMod with the same object as quotient and modulus")
					}
				}
				return true
			}
			c.fail(id, "the *big.Int `%s` is passed on (object identity is not modelled)", id.Name)
		}
		c.fail(id, "unsupported use of the *big.Int `%s`", id.Name)
		return true
	})
}

// bigGlobal: a package-level *big.Int variable: initialised by big.NewInt(<constant>), only read in the package
func (c *m3) bigGlobal(use ast.Expr, v *types.Var) string {
	var init ast.Expr
	for _, f := range c.p.files {
		for _, d := range f.Decls {
			gd, ok := d.(*ast.GenDecl)
			if !ok || gd.Tok != token.VAR {
				continue
			}
			for _, sp := range gd.Specs {
				vs := sp.(*ast.ValueSpec)
				for i, n := range vs.Names {
					if c.p.info.Defs[n] == v && len(vs.Values) == len(vs.Names) {
						init = vs.Values[i]
					}
				}
			}
		}
	}
	call, ok := init.(*ast.CallExpr)
	if !ok || len(call.Args) != 1 {
		c.fail(use, "package-level *big.Int `%s` is not initialised by big.NewInt(<constant>)", v.Name())
	}
	sel, ok := call.Fun.(*ast.SelectorExpr)
	if !ok || sel.Sel.Name != "NewInt" {
		c.fail(use, "package-level *big.Int `%s` is not initialised by big.NewInt(<constant>)", v.Name())
	}
	if pid, ok := sel.X.(*ast.Ident); !ok || func() bool {
		pn, isPkg := c.p.info.Uses[pid].(*types.PkgName)
		return !isPkg || pn.Imported().Path() != "math/big"
	}() {
		c.fail(use, "package-level *big.Int `%s` is not initialised by big.NewInt(<constant>)", v.Name())
	}
	val, isConst := c.constInt(call.Args[0])
	if !isConst {
		c.fail(use, "package-level *big.Int `%s` is not initialised by big.NewInt(<constant>)", v.Name())
	}
	// every use in the package: an operand that is only read
	for _, f := range c.p.files {
		var stack []ast.Node
		ast.Inspect(f, func(n ast.Node) bool {
			if n == nil {
				stack = stack[:len(stack)-1]
				return true
			}
			stack = append(stack, n)
			id, ok := n.(*ast.Ident)
			if !ok || c.p.info.Uses[id] != v {
				return true
			}
			k := len(stack) - 2
			for k >= 0 {
				if _, isP := stack[k].(*ast.ParenExpr); !isP {
					break
				}
				k--
			}
			okUse := false
			if k >= 0 {
				switch p := stack[k].(type) {
				case *ast.CallExpr:
					if s, isSel := p.Fun.(*ast.SelectorExpr); isSel && (bigMutating4[s.Sel.Name] || bigReading4[s.Sel.Name]) {
						if tv, has := c.p.info.Types[s.X]; has && isBigInt4(tv.Type) {
							okUse = true
							if s.Sel.Name == "DivMod" && len(p.Args) == 3 && stripParens(p.Args[2]) == ast.Expr(id) {
								okUse = false
							}
						}
					}
				case *ast.SelectorExpr:
					if bigReading4[p.Sel.Name] && k >= 1 {
						if call, isCall := stack[k-1].(*ast.CallExpr); isCall && call.Fun == ast.Expr(p) {
							okUse = true
						}
					}
				}
			}
			if !okUse {
				c.fail(id, "package-level *big.Int `%s` may be modified or shared here (it must only be read, as an operand of the big.Int intrinsics)", v.Name())
			}
			return true
		})
	}
	c.note(use, "the package-level `%s` is big.NewInt(%d), only read in the whole package (checked)", v.Name(), val)
	return zlit(fmt.Sprint(val))
}

// bigMethod: x.M(args) on a *big.Int
func (c *m3) bigMethod(e *ast.CallExpr, sel *ast.SelectorExpr) ([]string, []mtype) {
	m := sel.Sel.Name
	bigT := mtype{k: mZ, w: 0, big: true}
	intT := mtype{k: mZ, w: 64}
	one := func(s string, t mtype) ([]string, []mtype) { return []string{s}, []mtype{t} }
	nargs := map[string]int{"SetInt64": 1, "SetBytes": 1, "Mul": 2, "Add": 2, "DivMod": 3, "Cmp": 1, "Sign": 0, "Int64": 0, "Bytes": 0}
	want, known := nargs[m]
	if !known {
		c.fail(e, "big.Int method %s is not one of the intrinsics", m)
	}
	if len(e.Args) != want || e.Ellipsis.IsValid() {
		c.fail(e, "big.Int.%s with %d arguments", m, len(e.Args))
	}
	if bigReading4[m] {
		x := c.ex(sel.X)
		switch m {
		case "Cmp":
			return one(fmt.Sprintf("(Go4.big_cmp %s %s)", x, c.ex(e.Args[0])), intT)
		case "Sign":
			return one(fmt.Sprintf("(Go4.big_sign %s)", x), intT)
		case "Int64":
			return one(fmt.Sprintf("(Go4.big_int64 %s)", x), mtype{k: mZ, w: 64, sized: true})
		default:
			return one(fmt.Sprintf("(Go4.big_bytes %s)", x), mtype{k: mList, elem: &mtype{k: mN, w: 8}})
		}
	}
	// a method that sets its receiver: the operands are read first
	store := func(lhs ast.Expr, term string) string {
		lhs = stripParens(lhs)
		if id, ok := lhs.(*ast.Ident); ok {
			c.storePath(id, term)
			return c.vn(c.obj(id))
		}
		if !c.isFreshBig(lhs) {
			c.fail(lhs, "receiver of big.Int.%s is neither a variable nor a new big.Int", m)
		}
		c.ex(lhs) // evaluated (no effect)
		t := c.fresh()
		c.pend = append(c.pend, fmt.Sprintf("let %s := %s in", t, term))
		return t
	}
	switch m {
	case "SetInt64":
		return one(store(sel.X, fmt.Sprintf("(Go4.big_of_int64 %s)", c.ex(e.Args[0]))), bigT)
	case "SetBytes":
		return one(store(sel.X, fmt.Sprintf("(Go4.big_set_bytes %s)", c.ex(e.Args[0]))), bigT)
	case "Mul":
		return one(store(sel.X, fmt.Sprintf("(Go4.big_mul %s %s)", c.ex(e.Args[0]), c.ex(e.Args[1]))), bigT)
	case "Add":
		return one(store(sel.X, fmt.Sprintf("(Go4.big_add %s %s)", c.ex(e.Args[0]), c.ex(e.Args[1]))), bigT)
	}
	// DivMod(x, y, m)
	mid, ok := stripParens(e.Args[2]).(*ast.Ident)
	if !ok {
		c.fail(e.Args[2], "the modulus argument of DivMod is not a variable")
	}
	q, r := c.fresh(), c.fresh()
	c.pend = append(c.pend, fmt.Sprintf("do (%s, %s) <- Go4.big_divmod %s %s ;;", q, r, c.ex(e.Args[0]), c.ex(e.Args[1])))
	c.effect = true
	c.storePath(mid, r)
	return one(store(sel.X, q), bigT)
}

// functions of the repository that stay abstract when called from the given package (their arguments are
// abstract objects there): caller package > callee key
var abstractFrom4 = map[string]bool{"merkleblock>bloom:.GetMatchedIndices": true}

// types that Gen/Kernels3.v treats as abstract objects and the fourth mode looks into
var notAbstract4 = map[string]bool{"math/big.Int": true}

// mt4: the value types added by the fourth mode
func (c *m3) mt4(t types.Type, at ast.Node) (mtype, bool) {
	if isBigInt4(t) {
		return mtype{k: mZ, w: 0, big: true}, true
	}
	if isHeapPtr4(t) {
		e := c.mt(t.Underlying().(*types.Pointer).Elem(), at)
		return mtype{k: mHPtr, name: e.name, elem: &e}, true
	}
	if jsonMode4() && isEmptyIface4(t) {
		return c.declJson4(at), true
	}
	if b, ok := t.Underlying().(*types.Basic); ok {
		switch b.Kind() {
		case types.Float64, types.UntypedFloat:
			return mtype{k: mFloat}, true
		case types.Float32:
			c.fail(at, "float32")
		}
	}
	return mtype{}, false
}

// intrinsic4: imported functions given a meaning by the fourth mode
func (c *m3) intrinsic4(e *ast.CallExpr, path, name string, args func(int) []string) (string, mtype, bool) {
	if s, t, ok := c.floatIntrinsic4(e, path, name, args); ok {
		return s, t, true
	}
	switch path + "." + name {
	case "math/big.NewInt":
		a := args(1)
		return fmt.Sprintf("(Go4.big_of_int64 %s)", a[0]), mtype{k: mZ, w: 0, big: true}, true
	}
	return "", mtype{}, false
}

package main

// String-shaped entry points: DecodeAddress (six nets), DecodeCashAddress, DecodeWIF, base58.Decode /
// CheckDecode, bech32.Decode / Encode / ConvertBits, hdkeychain.NewKeyFromString (+ Child/Neuter/String).

import (
	"crypto/sha256"
	"encoding/hex"
	"fmt"
	"strings"

	"github.com/gcash/bchd/chaincfg"
	"github.com/gcash/bchutil"
	"github.com/gcash/bchutil/base58"
	"github.com/gcash/bchutil/bech32"
	"github.com/gcash/bchutil/hdkeychain"

	"verif/harness/internal/vh"
)

const b58Alphabet = "123456789ABCDEFGHJKLMNPQRSTUVWXYZabcdefghijkmnopqrstuvwxyz"
const cashCharset = "qpzry9x8gf2tvdw0s3jn54khce6mua7l"

type netT struct {
	name string
	p    *chaincfg.Params
}

var nets = []netT{
	{"mainnet", &chaincfg.MainNetParams}, {"testnet3", &chaincfg.TestNet3Params}, {"testnet4", &chaincfg.TestNet4Params},
	{"chipnet", &chaincfg.ChipNetParams}, {"regtest", &chaincfg.RegressionNetParams}, {"simnet", &chaincfg.SimNetParams},
}

func sha256d(b []byte) []byte {
	h := sha256.Sum256(b)
	h2 := sha256.Sum256(h[:])
	return h2[:]
}

// b58check returns Base58(body || sha256d(body)[:4]) — valid outer layer over an arbitrary body.
func b58check(body []byte) string {
	return base58.Encode(append(append([]byte(nil), body...), sha256d(body)[:4]...))
}

func symsToString(syms []byte) string {
	sb := make([]byte, len(syms))
	for i, s := range syms {
		sb[i] = cashCharset[s&31]
	}
	return string(sb)
}

// cashString builds prefix:payload||checksum with a valid checksum over arbitrary 5-bit payload symbols.
func cashString(prefix string, syms []byte) string {
	ck := bchutil.VerifCreateChecksum(strings.ToLower(prefix), syms)
	return prefix + ":" + symsToString(syms) + symsToString(ck)
}

// to5 regroups bytes into 5-bit symbols, padding with zero bits (as packAddressData does).
func to5(b []byte) []byte {
	out, _ := bchutil.VerifConvertBits(b, 8, 5, true)
	return out
}

// solveAffine finds k 5-bit symbols d with eval(d) == target, for a map eval that is affine over
// GF(2) in the bits of d (both checksum registers are: shift, xor the symbol in, xor constants selected
// by bits of the register).  The system has width register bits and 5k unknowns.
func solveAffine(eval func(d []byte) uint64, k int, width int, target uint64) ([]byte, bool) {
	base := eval(make([]byte, k))
	nb := 5 * k
	type row struct{ v, m uint64 }
	basis := make([]row, width)
	for j := 0; j < nb; j++ {
		d := make([]byte, k)
		d[j/5] = 1 << uint(4-j%5)
		cur := row{eval(d) ^ base, 1 << uint(j)}
		for bit := width - 1; bit >= 0 && cur.v != 0; bit-- {
			if cur.v>>uint(bit)&1 == 0 {
				continue
			}
			if basis[bit].v == 0 {
				basis[bit] = cur
				cur = row{}
				break
			}
			cur.v ^= basis[bit].v
			cur.m ^= basis[bit].m
		}
	}
	t := row{base ^ target, 0}
	for bit := width - 1; bit >= 0 && t.v != 0; bit-- {
		if t.v>>uint(bit)&1 == 0 {
			continue
		}
		if basis[bit].v == 0 {
			return nil, false
		}
		t.v ^= basis[bit].v
		t.m ^= basis[bit].m
	}
	d := make([]byte, k)
	for j := 0; j < nb; j++ {
		if t.m>>uint(j)&1 == 1 {
			d[j/5] |= 1 << uint(4-j%5)
		}
	}
	if eval(d) != target {
		return nil, false
	}
	return d, true
}

// solveShort looks for k (< 8) symbols d with a VALID CashAddr checksum: polyMod(expand(prefix) ++ d) == 0.
// It is solvable for about one prefix in 2^(40-5k).  This is the family of the historical
// DecodeCashAddress("af:v47zk5g") panic.
func solveShort(prefix string, k int) ([]byte, bool) {
	pre := bchutil.VerifExpandPrefix(prefix)
	return solveAffine(func(d []byte) uint64 { return bchutil.VerifPolyMod(append(append([]byte(nil), pre...), d...)) }, k, 40, 0)
}

// solveShortBech: k (< 6) data symbols with a VALID bech32 checksum for hrp (polymod == 1): such a
// string passes every check of Decode except "the separator leaves room for six checksum symbols".
func solveShortBech(hrp string, k int) ([]byte, bool) {
	pre := bech32.VerifHrpExpand(hrp)
	return solveAffine(func(d []byte) uint64 {
		v := append([]int(nil), pre...)
		for _, x := range d {
			v = append(v, int(x))
		}
		return uint64(bech32.VerifPolymod(v))
	}, k, 30, 1)
}

// letterPrefix enumerates lower-case letter strings a, b, .., z, aa, ab, ...
func letterPrefix(i int) string {
	var sb []byte
	for {
		sb = append([]byte{byte('a' + i%26)}, sb...)
		i = i/26 - 1
		if i < 0 {
			break
		}
	}
	return string(sb)
}

// ---------- entry wrappers ----------
func callDecodeAddress(stream, s string, corr bool) {
	for _, n := range nets {
		n := n
		g("DecodeAddress", stream, n.name+"|"+s, budget{n: len(s)},
			func() interface{} { return map[string]interface{}{"string": s, "hex": vh.Hex([]byte(s)), "net": n.name} },
			func() bool {
				a, err := bchutil.DecodeAddress(s, n.p)
				if err != nil {
					return err == bchutil.ErrUnknownAddressType || strings.Contains(err.Error(), "unknown size")
				}
				_ = a.String()
				_ = a.EncodeAddress()
				_ = a.ScriptAddress()
				_ = a.IsForNet(n.p)
				_ = a.IsForNet(&chaincfg.MainNetParams)
				return true
			})
	}
}

func callDecodeCash(stream, s string, corr bool) {
	var prefix string
	var data []byte
	var err error
	ok := g("DecodeCashAddress", stream, s, budget{n: len(s)}, strIn(s), func() bool {
		prefix, data, err = bchutil.DecodeCashAddress(s)
		return err == nil || strings.Contains(err.Error(), "too short")
	})
	if ok && corr {
		if err != nil {
			prefix, data = "", nil
		}
		cases.Add(fmt.Sprintf("CashDec %s %s %s %s", vh.CoqStr(s), vh.CoqBool(err == nil), vh.CoqStr(prefix), vh.CoqBytes(data)),
			map[string]interface{}{"op": "DecodeCashAddress", "string": s, "impl_ok": err == nil, "impl_prefix": prefix, "impl_payload": vh.Hex(data)})
	}
}

func callWIF(stream, s string) {
	g("DecodeWIF", stream, s, budget{n: len(s)}, strIn(s), func() bool {
		w, err := bchutil.DecodeWIF(s)
		if err != nil {
			return false
		}
		_ = w.String()
		_ = w.SerializePubKey()
		_ = w.IsForNet(&chaincfg.MainNetParams)
		return true
	})
}

func callB58(stream, s string, corr bool) {
	g("base58.Decode", stream, s, budget{n: len(s)}, strIn(s), func() bool {
		d := base58.Decode(s)
		return len(d) > 0
	})
	var res []byte
	var ver byte
	var err error
	ok := g("base58.CheckDecode", stream, s, budget{n: len(s)}, strIn(s), func() bool {
		res, ver, err = base58.CheckDecode(s)
		return err == nil
	})
	if ok && corr && len(s) <= 120 {
		cls := 0
		if err == base58.ErrInvalidFormat {
			cls = 1
		} else if err == base58.ErrChecksum {
			cls = 2
		} else if err != nil {
			cls = 9
		}
		cases.Add(fmt.Sprintf("ChkDec %s %d %s %d", vh.CoqStr(s), cls, vh.CoqBytes(res), ver),
			map[string]interface{}{"op": "base58.CheckDecode", "string": s, "impl_class": cls, "impl_payload": vh.Hex(res), "impl_version": ver})
	}
}

func callBech(stream, s string, corr bool) {
	var hrp string
	var data []byte
	var err error
	ok := g("bech32.Decode", stream, s, budget{n: len(s)}, strIn(s), func() bool {
		hrp, data, err = bech32.Decode(s)
		if err == nil {
			_, _ = bech32.ConvertBits(data, 5, 8, false)
			_, _ = bech32.Encode(hrp, data)
		}
		return err == nil
	})
	if ok && corr {
		if err != nil {
			hrp, data = "", nil
		}
		cases.Add(fmt.Sprintf("BechDec %s %s %s %s", vh.CoqStr(s), vh.CoqBool(err == nil), vh.CoqStr(hrp), vh.CoqBytes(data)),
			map[string]interface{}{"op": "bech32.Decode", "string": s, "impl_ok": err == nil, "impl_hrp": hrp, "impl_data": vh.Hex(data)})
	}
}

func callConvert(stream string, data []byte, from, to uint8, pad bool, corr bool) {
	var out []byte
	var err error
	ok := g("bech32.ConvertBits", stream, fmt.Sprintf("%d.%d.%v.%s", from, to, pad, data), budget{n: len(data)},
		func() interface{} { return map[string]interface{}{"data": vh.Hex(data), "from": from, "to": to, "pad": pad} },
		func() bool {
			out, err = bech32.ConvertBits(data, from, to, pad)
			return err == nil
		})
	if ok && corr {
		if err != nil {
			out = nil
		}
		cases.Add(fmt.Sprintf("Conv %s %d %d %s %s %s", vh.CoqBytes(data), from, to, vh.CoqBool(pad), vh.CoqBool(err == nil), vh.CoqBytes(out)),
			map[string]interface{}{"op": "bech32.ConvertBits", "data": vh.Hex(data), "from": from, "to": to, "pad": pad, "impl_ok": err == nil, "impl": vh.Hex(out)})
	}
}

func callBechEncode(stream, hrp string, data []byte, corr bool) string {
	var s string
	var err error
	ok := g("bech32.Encode", stream, hrp+"|"+string(data), budget{n: len(hrp) + len(data)},
		func() interface{} { return map[string]interface{}{"hrp": hrp, "data": vh.Hex(data)} },
		func() bool {
			s, err = bech32.Encode(hrp, data)
			return err == nil
		})
	if ok && corr {
		if err != nil {
			s = ""
		}
		cases.Add(fmt.Sprintf("BechEnc %s %s %s %s", vh.CoqStr(hrp), vh.CoqBytes(data), vh.CoqBool(err == nil), vh.CoqStr(s)),
			map[string]interface{}{"op": "bech32.Encode", "hrp": hrp, "data": vh.Hex(data), "impl_ok": err == nil, "impl": s})
	}
	return s
}

func callHD(stream, s string) {
	g("hdkeychain.NewKeyFromString", stream, s, budget{n: len(s), timeExtra: 0}, strIn(s), func() bool {
		k, err := hdkeychain.NewKeyFromString(s)
		if err != nil {
			return err != hdkeychain.ErrInvalidKeyLen && err != hdkeychain.ErrBadChecksum
		}
		_ = k.String()
		_ = k.IsPrivate()
		_ = k.Depth()
		_ = k.ParentFingerprint()
		_, _ = k.ECPubKey()
		_, _ = k.ECPrivKey()
		_, _ = k.Address(&chaincfg.MainNetParams)
		_ = k.IsForNet(&chaincfg.MainNetParams)
		if n, err := k.Neuter(); err == nil {
			_ = n.String()
			if c, err := n.Child(0); err == nil {
				_ = c.String()
			}
			_, _ = n.Child(hdkeychain.HardenedKeyStart)
		}
		for _, i := range []uint32{0, 1, hdkeychain.HardenedKeyStart, 0xffffffff} {
			if c, err := k.Child(i); err == nil {
				_ = c.String()
				_, _ = c.Neuter()
			}
		}
		return true
	})
}

// ---------- streams ----------
func runStrings(rng *vh.RNG) {
	// ===== CashAddr / DecodeAddress =====
	r := rng.Fork("cashaddr")
	var validAddrs []string // valid samples for the mutation stream
	prefixes := []string{"bitcoincash", "simpleledger", "bchtest", "slptest", "bchreg", "slpreg", "bchsim", "a", "af", "BITCOINCASH", "x", "abcdefghijklmnopqrstuvwxyz", "bch"}
	versionBytes := []byte{0x00, 0x08, 0x0b, 0x01, 0x03, 0x09, 0x10, 0x0f, 0x78, 0x80, 0xff}
	hashLens := []int{0, 1, 19, 20, 21, 24, 28, 31, 32, 33, 40, 48, 56, 64, 65}
	// (1) structured: valid checksum over every shape of inner content
	for _, pf := range prefixes {
		for _, vb := range versionBytes {
			for _, hl := range hashLens {
				if !cfg.Thorough() && r.Intn(3) != 0 && !(hl == 20 || hl == 32 || hl == 0) {
					continue
				}
				body := append([]byte{vb}, r.Bytes(hl)...)
				syms := to5(body)
				s := cashString(pf, syms)
				corr := r.Intn(12) == 0
				callDecodeCash("structured", s, corr)
				callDecodeAddress("structured", s, false)
				bare := s[strings.IndexByte(s, ':')+1:]
				callDecodeAddress("structured", bare, false)
				if r.Intn(4) == 0 {
					callDecodeAddress("structured", strings.ToUpper(s), false)
					callDecodeAddress("structured", strings.ToUpper(bare), false)
				}
				if (vb == 0 || vb == 8) && hl == 20 || vb == 0x0b && hl == 32 {
					validAddrs = append(validAddrs, s, bare)
				}
				// non-zero padding bits in the last symbol
				if len(syms) > 0 && r.Intn(3) == 0 {
					s2 := append([]byte(nil), syms...)
					s2[len(s2)-1] |= byte(1 + r.Intn(3))
					callDecodeCash("structured", cashString(pf, s2), false)
					callDecodeAddress("structured", cashString(pf, s2), false)
				}
			}
		}
		// raw symbol payloads of every small length (including the empty payload: just the 8 checksum symbols)
		for k := 0; k <= 12; k++ {
			syms := make([]byte, k)
			for j := range syms {
				syms[j] = byte(r.Intn(32))
			}
			s := cashString(pf, syms)
			callDecodeCash("structured", s, true)
			callDecodeAddress("structured", s, false)
			callDecodeAddress("structured", s[strings.IndexByte(s, ':')+1:], false)
		}
		// maximal payloads
		for _, k := range []int{104, 200, 1000} {
			syms := make([]byte, k)
			for j := range syms {
				syms[j] = byte(r.Intn(32))
			}
			s := cashString(pf, syms)
			callDecodeCash("structured", s, k < 150)
			callDecodeAddress("structured", s, false)
		}
	}
	// valid checksum over FEWER than eight data symbols (solved linear system); every net prefix and a sweep of letter prefixes
	short := 0
	shortPrefixes := append([]string{}, prefixes...)
	nsweep := cfg.Scale(3000, 60000)
	for i := 0; i < nsweep; i++ {
		shortPrefixes = append(shortPrefixes, letterPrefix(i))
	}
	var shortSamples []string
	for _, pf := range shortPrefixes {
		pl := strings.ToLower(pf)
		for k := 7; k >= 1; k-- {
			if k < 5 && !cfg.Thorough() {
				break
			}
			d, ok := solveShort(pl, k)
			if !ok {
				continue
			}
			s := pf + ":" + symsToString(d)
			short++
			if len(shortSamples) < 6 {
				shortSamples = append(shortSamples, s)
			}
			callDecodeCash("structured", s, short <= 40)
			callDecodeCash("structured", strings.ToUpper(s), false)
			callDecodeAddress("structured", s, false)
			callDecodeAddress("structured", symsToString(d), false)
		}
	}
	rep.Extra["cashaddr_valid_checksum_under_8_symbols"] = map[string]interface{}{"count": short, "prefixes_tried": len(shortPrefixes), "samples": shortSamples}
	// fixed edge cases
	for _, s := range []string{"af:v47zk5g", "AF:V47ZK5G", "", ":", "a:", ":a", "a:b", "bitcoincash:", "bitcoincash::", "bitcoincash:q", "1", "a1:qqqqqqqq", "a:qqqqqqqq",
		"bitcoincash:qpm2qsznhks23z7629mms6s4cwef74vcwvy22gdx6a", "simpleledger:qrkjty23a5yl7vcvcnyh4dpnxxz9y7fd9ghzszsr2l", "\x80:qqqqqqqq", "a:\x80qqqqqqq", "a:qqqqqqq\xff", "a:bbbbbbbb", "a:QQQQQQQq"} {
		callDecodeCash("edge", s, true)
		callDecodeAddress("edge", s, false)
	}
	validAddrs = append(validAddrs, "bitcoincash:qpm2qsznhks23z7629mms6s4cwef74vcwvy22gdx6a", "1BpEi6DfDAUFd7GtittLSdBeYJvcoaVggu", "3CMNFxN1oHBc4R1EpboAL5yzHGgE611Xou")

	// legacy base58check: valid checksum over every body length 0..90, with registered and unregistered ids
	r = rng.Fork("b58check")
	var validB58 []string
	for n := 0; n <= 90; n++ {
		for _, id := range []byte{0, 5, 111, 196, 63, 123, 128, 239, 100, 0x04, r.Byte()} {
			if !cfg.Thorough() && n != 21 && n != 33 && n != 34 && n != 0 && n != 1 && n != 78 && r.Intn(4) != 0 {
				continue
			}
			var body []byte
			if n > 0 {
				body = append([]byte{id}, r.Bytes(n-1)...)
			}
			if n > 1 && r.Intn(5) == 0 {
				body[1] = 0
			}
			s := b58check(body)
			callB58("structured", s, r.Intn(4) == 0)
			callDecodeAddress("structured", s, false)
			callWIF("structured", s)
			callHD("structured", s)
			if n == 21 || n == 33 || n == 34 {
				validB58 = append(validB58, s)
			}
		}
	}
	// leading zero bytes / leading '1's, long strings
	for _, n := range []int{0, 1, 2, 10, 50} {
		callB58("structured", strings.Repeat("1", n), true)
		callB58("structured", b58check(make([]byte, n)), true)
		callDecodeAddress("structured", strings.Repeat("1", n), false)
		callWIF("structured", strings.Repeat("1", n))
		callHD("structured", strings.Repeat("1", n))
	}
	for _, n := range []int{200, 700, 2000} {
		s := base58.Encode(r.Bytes(n * 733 / 1000))
		callB58("structured", s, false)
		callWIF("structured", s)
		callHD("structured", s)
		callDecodeAddress("structured", s, false)
	}
	// hex public keys (DecodeAddress only): every format byte, both lengths, valid and invalid content
	r = rng.Fork("pubkey")
	gx := "79be667ef9dcbbac55a06295ce870b07029bfcdb2dce28d959f2815b16f81798"
	gy := "483ada7726a3c4655da4fbfc0e1108a8fd17b448a68554199c47d08ffb10d4b8"
	for fb := 0; fb < 256; fb++ {
		if !cfg.Thorough() && fb > 8 && fb%37 != 0 {
			continue
		}
		for _, body := range []string{gx, gx + gy, strings.Repeat("00", 32), strings.Repeat("ff", 32), strings.Repeat("00", 64), strings.Repeat("ff", 64), hex.EncodeToString(r.Bytes(32)), hex.EncodeToString(r.Bytes(64))} {
			s := fmt.Sprintf("%02x%s", fb, body)
			callDecodeAddress("structured", s, false)
			if fb < 8 {
				callDecodeAddress("structured", strings.ToUpper(s), false)
				callDecodeAddress("structured", s[:len(s)-1]+"g", false) // invalid hex digit at full length
			}
		}
	}
	validAddrs = append(validAddrs, "02"+gx, "04"+gx+gy)

	// WIF: valid checksum, every inner shape
	r = rng.Fork("wif")
	var validWIF []string
	nMinus1, _ := hex.DecodeString("fffffffffffffffffffffffffffffffebaaedce6af48a03bbfd25e8cd0364140")
	nOrder, _ := hex.DecodeString("fffffffffffffffffffffffffffffffebaaedce6af48a03bbfd25e8cd0364141")
	keys := [][]byte{make([]byte, 32), append(make([]byte, 31), 1), nMinus1, nOrder, bytesOf(0xff, 32), r.Bytes(32), r.Bytes(32)}
	for _, id := range []byte{128, 239, 100, 0, 255} {
		for _, k := range keys {
			for _, tail := range [][]byte{nil, {1}, {0}, {2}, {0xff}, {1, 1}} {
				body := append(append([]byte{id}, k...), tail...)
				s := b58check(body)
				callWIF("structured", s)
				if len(tail) <= 1 {
					validWIF = append(validWIF, s)
				}
				// right length, wrong checksum
				bad := append(append([]byte(nil), body...), r.Bytes(4)...)
				callWIF("structured", base58.Encode(bad))
			}
		}
	}
	// extended keys: valid checksum over 78 bytes with every inner shape
	r = rng.Fork("hd")
	var validHD []string
	versions := [][]byte{}
	for _, n := range nets {
		versions = append(versions, n.p.HDPrivateKeyID[:], n.p.HDPublicKeyID[:])
	}
	versions = append(versions, []byte{0, 0, 0, 0}, []byte{0xff, 0xff, 0xff, 0xff})
	gxb, _ := hex.DecodeString(gx)
	keyDatas := [][]byte{}
	for _, k := range keys {
		keyDatas = append(keyDatas, append([]byte{0}, k...))
	}
	for _, pb := range []byte{2, 3, 4, 5, 6, 7, 1, 0xff} {
		keyDatas = append(keyDatas, append([]byte{pb}, gxb...), append([]byte{pb}, r.Bytes(32)...), append([]byte{pb}, make([]byte, 32)...), append([]byte{pb}, bytesOf(0xff, 32)...))
	}
	for vi, v := range versions {
		for ki, kd := range keyDatas {
			if !cfg.Thorough() && vi > 3 && (ki+vi)%5 != 0 {
				continue
			}
			depth := vh.Pick(r, []byte{0, 1, 254, 255})
			child := vh.Pick(r, [][]byte{{0, 0, 0, 0}, {0x80, 0, 0, 0}, {0xff, 0xff, 0xff, 0xff}, {0x7f, 0xff, 0xff, 0xff}})
			body := append([]byte(nil), v...)
			body = append(body, depth)
			body = append(body, r.Bytes(4)...)
			body = append(body, child...)
			body = append(body, r.Bytes(32)...)
			body = append(body, kd...)
			s := b58check(body)
			callHD("structured", s)
			validHD = append(validHD, s)
			bad := append(append([]byte(nil), body...), r.Bytes(4)...)
			callHD("structured", base58.Encode(bad))
		}
	}
	for _, s := range []string{
		"xprv9s21ZrQH143K3QTDL4LXw2F7HEK3wJUD2nW2nRk4stbPy6cq3jPPqjiChkVvvNKmPGJxWUtg6LnF5kejMRNNU3TGtRBeJgk33yuGBxrMPHi",
		"xpub661MyMwAqRbcFtXgS5sYJABqqG9YLmC4Q1Rdap9gSE8NqtwybGhePY2gZ29ESFjqJoCu1Rupje8YtGqsefD265TMg7usUDFdp6W1EGMcet8"} {
		callHD("edge", s)
		validHD = append(validHD, s)
	}

	// bech32
	r = rng.Fork("bech32")
	var validBech []string
	for _, hl := range []int{0, 1, 2, 10, 40, 82, 83, 84, 90} {
		for _, dl := range []int{0, 1, 5, 6, 7, 20, 50, 76, 77, 82, 83, 84, 100} {
			hrp := make([]byte, hl)
			for j := range hrp {
				c := byte(33 + r.Intn(94))
				if c >= 'A' && c <= 'Z' {
					c += 32
				}
				hrp[j] = c
			}
			data := make([]byte, dl)
			for j := range data {
				data[j] = byte(r.Intn(32))
			}
			corr := hl+dl <= 100 && r.Intn(3) == 0
			s := callBechEncode("structured", string(hrp), data, corr)
			if s != "" {
				callBech("structured", s, corr)
				callBech("structured", strings.ToUpper(s), false)
				if len(s) <= 90 && hl >= 1 {
					validBech = append(validBech, s)
				}
			}
			// data values outside 0..31, hrp with bytes outside the printable range
			if dl > 0 {
				d2 := append([]byte(nil), data...)
				d2[r.Intn(dl)] = byte(32 + r.Intn(224))
				callBechEncode("structured", string(hrp), d2, dl < 30)
			}
			if hl > 0 {
				h2 := append([]byte(nil), hrp...)
				h2[r.Intn(hl)] = vh.Pick(r, []byte{0, 0x1f, 0x20, 0x7f, 0x80, 0xff, 'A'})
				s2 := callBechEncode("structured", string(h2), data, false)
				if s2 != "" {
					callBech("structured", s2, hl+dl < 80)
				}
			}
		}
	}
	for _, s := range []string{"A12UEL5L", "a12uel5l", "abcdef1qpzry9x8gf2tvdw0s3jn54khce6mua7lmqqqxw", "1qzzfhee", "10a06t8", "1", "11", "1111111", "11111111", "a1", "a1qqqqqq", "?1ezyfcl", "x1b4n0q5v", "li1dgmt3", "de1lg7wt\xff", "\x801eym55h"} {
		callBech("edge", s, true)
	}
	// valid bech32 checksum over FEWER than six data symbols (solved linear system)
	shortBech := 0
	var shortBechSamples []string
	for i := 0; i < cfg.Scale(4000, 60000); i++ {
		hrp := letterPrefix(26*26 + i) // three letters and more: the string has to reach 8 characters
		for k := 5; k >= 1; k-- {
			if len(hrp)+1+k < 8 {
				break
			}
			d, ok := solveShortBech(hrp, k)
			if !ok {
				continue
			}
			sb := []byte(hrp + "1")
			for _, x := range d {
				sb = append(sb, cashCharset[x])
			}
			shortBech++
			if len(shortBechSamples) < 6 {
				shortBechSamples = append(shortBechSamples, string(sb))
			}
			callBech("structured", string(sb), shortBech <= 40)
			callBech("structured", strings.ToUpper(string(sb)), false)
		}
	}
	rep.Extra["bech32_valid_checksum_under_6_symbols"] = map[string]interface{}{"count": shortBech, "samples": shortBechSamples}
	// ConvertBits: every (from, to) in 0..10 plus large values, both pads
	sizes := []uint8{0, 1, 2, 3, 4, 5, 6, 7, 8, 9, 10, 16, 31, 32, 127, 128, 200, 255}
	for _, from := range sizes {
		for _, to := range sizes {
			for _, pad := range []bool{true, false} {
				for _, n := range []int{0, 1, 2, 7, 33} {
					if !cfg.Thorough() && n > 2 && r.Intn(3) != 0 {
						continue
					}
					callConvert("structured", r.Bytes(n), from, to, pad, from <= 10 && to <= 10 && n <= 7 && r.Intn(3) == 0)
				}
			}
		}
	}

	// ===== (2) mutation stream over valid samples =====
	r = rng.Fork("mut-strings")
	nm := cfg.Scale(60, 600)
	mutS := func(s string) string { return string(mutate(r, []byte(s))) }
	charMut := func(s string, alpha string) string { // character-level: keeps the string inside its alphabet
		if len(s) == 0 {
			return s
		}
		b := []byte(s)
		b[r.Intn(len(b))] = alpha[r.Intn(len(alpha))]
		return string(b)
	}
	for i := 0; i < nm; i++ {
		a := vh.Pick(r, validAddrs)
		for _, m := range []string{mutS(a), charMut(a, cashCharset+":"), charMut(a, b58Alphabet)} {
			callDecodeAddress("mutation", m, false)
			callDecodeCash("mutation", m, i%6 == 0)
		}
		b := vh.Pick(r, validB58)
		for _, m := range []string{mutS(b), charMut(b, b58Alphabet)} {
			callB58("mutation", m, i%6 == 0)
			callDecodeAddress("mutation", m, false)
		}
		w := vh.Pick(r, validWIF)
		for _, m := range []string{mutS(w), charMut(w, b58Alphabet)} {
			callWIF("mutation", m)
		}
		h := vh.Pick(r, validHD)
		for _, m := range []string{mutS(h), charMut(h, b58Alphabet)} {
			callHD("mutation", m)
		}
		// mutate the body but recompute the checksum: passes the outer layer by construction
		if d := base58.Decode(h); len(d) > 4 {
			body := mutate(r, d[:len(d)-4])
			callHD("mutation", b58check(body))
			callWIF("mutation", b58check(body))
		}
		if d := base58.Decode(w); len(d) > 4 {
			body := mutate(r, d[:len(d)-4])
			callWIF("mutation", b58check(body))
			callDecodeAddress("mutation", b58check(body), false)
		}
		if len(validBech) > 0 {
			be := vh.Pick(r, validBech)
			for _, m := range []string{mutS(be), charMut(be, cashCharset+"1")} {
				callBech("mutation", m, i%4 == 0)
			}
		}
	}

	// ===== (3) random bytes / random strings =====
	r = rng.Fork("rand-strings")
	nr := cfg.Scale(150, 3000)
	for i := 0; i < nr; i++ {
		n := r.Intn(130)
		var s string
		switch i % 4 {
		case 0:
			s = string(r.Bytes(n))
		case 1:
			b := make([]byte, n)
			for j := range b {
				b[j] = b58Alphabet[r.Intn(58)]
			}
			s = string(b)
		case 2:
			b := make([]byte, n)
			for j := range b {
				b[j] = (cashCharset + ":1")[r.Intn(34)]
			}
			s = string(b)
		case 3:
			b := make([]byte, n)
			for j := range b {
				b[j] = byte(32 + r.Intn(96))
			}
			s = string(b)
		}
		callDecodeAddress("random", s, false)
		callDecodeCash("random", s, i%20 == 0)
		callWIF("random", s)
		callB58("random", s, i%20 == 0)
		callBech("random", s, i%20 == 0)
		callHD("random", s)
		if i%5 == 0 {
			callConvert("random", r.Bytes(r.Intn(40)), r.Byte(), r.Byte(), r.Bool(), false)
			callBechEncode("random", string(r.Bytes(r.Intn(10))), r.Bytes(r.Intn(40)), false)
		}
	}

	// ===== scaling: base58 is legitimately quadratic (big-integer accumulation); it must not be worse =====
	r = rng.Fork("scale-b58")
	// allocation: math/big grows its operands by a constant four words at a time, so Base58 decoding allocates
	// ~n^2/40 bytes (dependency behaviour, observed ratio 3.9); the allocation rule of these families allows quadratic
	// growth (limit 5) and still refuses cubic growth (8)
	scaleProbeOpt("base58.Decode", cfg.Scale(3000, 6000), 5, b58AllocRatioMax, func(n int) (func(), func() interface{}) {
		b := make([]byte, n)
		for j := range b {
			b[j] = b58Alphabet[1+r.Intn(57)]
		}
		s := string(b)
		return func() { base58.Decode(s) }, func() interface{} {
			return map[string]interface{}{"family": "random base58 string of the given length", "length": n, "head": s[:40]}
		}
	})
	scaleProbeOpt("base58.CheckDecode", cfg.Scale(3000, 6000), 5, b58AllocRatioMax, func(n int) (func(), func() interface{}) {
		s := b58check(r.Bytes(n * 733 / 1000))
		return func() { base58.CheckDecode(s) }, func() interface{} {
			return map[string]interface{}{"family": "valid Base58Check string of about the given length", "length": len(s), "head": s[:40]}
		}
	})
	scaleProbe("DecodeCashAddress", 20000, 5, func(n int) (func(), func() interface{}) {
		syms := make([]byte, n)
		for j := range syms {
			syms[j] = byte(r.Intn(32))
		}
		s := cashString("bitcoincash", syms)
		return func() { bchutil.DecodeCashAddress(s) }, func() interface{} {
			return map[string]interface{}{"family": "valid CashAddr checksum over n payload symbols", "symbols": n, "head": s[:50]}
		}
	})
}

func bytesOf(v byte, n int) []byte {
	b := make([]byte, n)
	for i := range b {
		b[i] = v
	}
	return b
}

package main

import (
	"fmt"
	"os"
	"runtime"
	"sync"
	"syscall"
	"time"
	"unsafe"

	"verif/harness/internal/vh"
)

// ---------- budgets (stated in design/notes_C08.md and in the evidence) ----------
const (
	// allocation budget of one call: runtime.MemStats.TotalAlloc delta <= allocBase + allocPerByte*len(input)
	allocBase    = 64 << 10
	allocPerByte = 4096
	// time budget of one call: <= timeBase + timePerByte*len(input)  (minimum of up to 3 runs, to damp scheduler noise)
	timeBase    = 400 * time.Millisecond
	timePerByte = 40 * time.Microsecond
	// a call still running after hardLimit is reported as a hang by the watchdog, and the harness stops
	hardLimit = 25 * time.Second
	// quadratic-time probes: T(2n)/T(n) must stay below ratioMax (a quadratic routine gives 4) once T(2n) is
	// above ratioFloor (below it the clock noise dominates), and T(2n) below scaleCap
	ratioMax   = 6.0
	ratioFloor = 4 * time.Millisecond
	scaleCap   = 3 * time.Second
	// round 3: the same probes read the PROCESS CPU clock (getrusage RUSAGE_SELF, user + system) next to the
	// thread clock, so that work handed to another goroutine is charged too: Tproc(2n)/Tproc(n) <= procRatioMax once
	// Tproc(2n) > procRatioFloor (the process clock also contains the garbage collector's background workers and has
	// a coarser noise floor); and the ALLOCATION scaling rule A(2n)/A(n) <= allocRatioMax once A(2n) > allocRatioFloor
	// (a routine that allocates proportionally to its input gives 2; one that allocates quadratically gives 4)
	procRatioMax    = 6.0
	procRatioFloor  = 20 * time.Millisecond
	allocRatioMax   = 3.0
	allocRatioFloor = 256 << 10
	// Base58 decoding (math/big accumulation, operands grown four words at a time) legitimately allocates
	// quadratically with a small constant: its families use this limit (quadratic 4 passes, cubic 8 does not)
	b58AllocRatioMax = 5.0
)

var cfg vh.Config
var rep *vh.Report
var cases *vh.Cases

// ---------- watchdog ----------
type watchdog struct {
	mu     sync.Mutex
	active bool
	entry  string
	replay func() interface{}
	start  time.Time
}

var wd watchdog

func (w *watchdog) begin(entry string, replay func() interface{}) {
	w.mu.Lock()
	w.active, w.entry, w.replay, w.start = true, entry, replay, time.Now()
	w.mu.Unlock()
}
func (w *watchdog) end() {
	w.mu.Lock()
	w.active = false
	w.mu.Unlock()
}
func (w *watchdog) run(onHang func(entry string, replay interface{}, d time.Duration)) {
	for {
		time.Sleep(200 * time.Millisecond)
		w.mu.Lock()
		if w.active && time.Since(w.start) > hardLimit {
			e, r, d := w.entry, w.replay, time.Since(w.start)
			w.mu.Unlock()
			onHang(e, r(), d)
			return
		}
		w.mu.Unlock()
	}
}

// ---------- clock ----------
// Time budgets and scaling ratios are measured in CPU time of the calling thread
// (CLOCK_THREAD_CPUTIME_ID; main locks its goroutine to an OS thread), so that a loaded machine
// (other checks running in parallel) does not turn into false "time" findings.  Hangs are caught by
// the wall-clock watchdog.
func cpuNow() time.Duration {
	var ts syscall.Timespec
	const clockThreadCPUTimeID = 3
	if _, _, e := syscall.Syscall(syscall.SYS_CLOCK_GETTIME, clockThreadCPUTimeID, uintptr(unsafe.Pointer(&ts)), 0); e != 0 {
		return time.Duration(time.Now().UnixNano())
	}
	return time.Duration(ts.Sec)*time.Second + time.Duration(ts.Nsec)
}

// procNow is the CPU time (user + system) of the whole process: every thread, hence every goroutine the code under
// test may have started.  Round 3 (red team): a parser that hands its work to a worker goroutine costs the calling
// thread nothing; the per-call budget and the scaling rules therefore read BOTH clocks.
func procNow() time.Duration {
	var ru syscall.Rusage
	if err := syscall.Getrusage(syscall.RUSAGE_SELF, &ru); err != nil {
		return 0
	}
	return time.Duration(ru.Utime.Sec+ru.Stime.Sec)*time.Second + time.Duration(ru.Utime.Usec+ru.Stime.Usec)*time.Microsecond
}

// ---------- guarded call ----------
type outcome struct {
	panicked bool
	msg      string
	dt       time.Duration // thread CPU of the call (kept under this name by the older call sites)
	thread   time.Duration
	proc     time.Duration
	alloc    uint64
}

func measure(f func()) outcome {
	var m0, m1 runtime.MemStats
	runtime.ReadMemStats(&m0)
	p0 := procNow()
	t0 := cpuNow()
	p, msg := vh.Catch(f)
	dt := cpuNow() - t0
	dp := procNow() - p0
	runtime.ReadMemStats(&m1)
	return outcome{p, msg, dt, dt, dp, m1.TotalAlloc - m0.TotalAlloc}
}

// budget of a call; extraAlloc is what a dependency was measured to allocate on the same input
// (used only for the wire deserialisers, see notes: the wrapper is charged for what it adds).
type budget struct {
	n          int
	extraAlloc uint64
	noAlloc    bool          // entry whose allocation is legitimately super-linear (base58 big-integer arithmetic on long strings)
	timeExtra  time.Duration // additional allowance
}

func (b budget) allocMax() uint64      { return allocBase + allocPerByte*uint64(b.n) + b.extraAlloc }

// procMax: the budget of the PROCESS clock.  It contains the garbage collector's background workers (about a
// nanosecond or two of marking per allocated byte, also for garbage left by earlier calls), hence twice the thread
// budget plus 4 ns per byte the call allocated.  A parser that hides its work on another goroutine is still held to
// a budget of the same order.
func (b budget) procMax(alloc uint64) time.Duration {
	return 2*b.timeMax() + time.Duration(4*alloc)*time.Nanosecond
}
func (b budget) timeMax() time.Duration { return timeBase + time.Duration(b.n)*timePerByte + b.timeExtra }

// g runs f (one call of an entry point, with whatever accessors follow) under recover with the budgets.
// entry: name used in violation keys C08:<entry>:panic|time|alloc.  stream: structured|mutation|random|edge|scale.
// f returns whether the input got past the outer validation layer (for the non-trivial count).
// Returns false when the call panicked.
func g(entry, stream, key string, b budget, replay func() interface{}, f func() bool) bool {
	wd.begin(entry, replay)
	passed := false
	o := measure(func() { passed = f() })
	over := func(o outcome) bool { return o.thread > b.timeMax() || o.proc > b.procMax(o.alloc) }
	if !o.panicked && over(o) {
		for i := 0; i < 2 && over(o); i++ {
			o2 := measure(func() { f() })
			if o2.thread < o.thread {
				o.thread = o2.thread
			}
			if o2.proc < o.proc {
				o.proc = o2.proc
			}
			if o2.alloc < o.alloc {
				o.alloc = o2.alloc
			}
		}
		o.dt = o.thread
	}
	if !o.panicked && !b.noAlloc && o.alloc > b.allocMax() {
		o2 := measure(func() { f() })
		if o2.alloc < o.alloc {
			o.alloc = o2.alloc
		}
	}
	wd.end()
	rep.Count(entry+"/"+stream, entry+"|"+key, passed || stream == "structured")
	if o.panicked {
		rep.Violate("C08:"+entry+":panic", entry+" panicked on untrusted input: "+o.msg,
			map[string]interface{}{"entry": entry, "stream": stream, "input": replay(), "panic": o.msg})
		return false
	}
	if over(o) {
		rep.Violate("C08:"+entry+":time", fmt.Sprintf("%s took %v of CPU time on the calling thread and %v in the whole process (all goroutines) on an input of %d bytes (budgets %v / %v)", entry, o.thread, o.proc, b.n, b.timeMax(), b.procMax(o.alloc)),
			map[string]interface{}{"entry": entry, "stream": stream, "input": replay(), "elapsed_ms": o.thread.Milliseconds(), "process_cpu_ms": o.proc.Milliseconds(), "budget_ms": b.timeMax().Milliseconds(), "process_budget_ms": b.procMax(o.alloc).Milliseconds(), "input_len": b.n})
	}
	if !b.noAlloc && o.alloc > b.allocMax() {
		rep.Violate("C08:"+entry+":alloc", fmt.Sprintf("%s allocated %d bytes on an input of %d bytes (budget %d = 64 KiB + 4096*len + dependency %d)", entry, o.alloc, b.n, b.allocMax(), b.extraAlloc),
			map[string]interface{}{"entry": entry, "stream": stream, "input": replay(), "allocated_bytes": o.alloc, "budget_bytes": b.allocMax(), "input_len": b.n})
	}
	if o.alloc > maxAllocSeen[entry] {
		maxAllocSeen[entry] = o.alloc
	}
	return true
}

var maxAllocSeen = map[string]uint64{}

// scaleProbe measures run(n) and run(2n) (minimum of reps runs each; build prepares a fresh input so that
// state mutated by the call does not leak between runs) and applies the ratio rules: thread CPU time, process CPU
// time (work done on other goroutines) and allocated bytes.
func scaleProbe(entry string, n int, reps int, build func(n int) (run func(), replay func() interface{})) {
	scaleProbeOpt(entry, n, reps, allocRatioMax, build)
}

type scaleM struct {
	thread, proc time.Duration
	alloc        uint64
}

// hungEntries: entry points on which the size-sweep child process (sizes.go) saw a hang; the in-process scaling
// probes of those entries are skipped (they would only hang the harness itself on the same defect).
var hungEntries = map[string]bool{}

// scaleProbeOpt: allocMax is the allocation-ratio limit of this family (allocRatioMax unless the notes say why not).
func scaleProbeOpt(entry string, n int, reps int, allocMax float64, build func(n int) (run func(), replay func() interface{})) {
	if hungEntries[entry] {
		return
	}
	tmin := func(n int) (scaleM, func() interface{}, bool) {
		best := scaleM{time.Duration(1 << 62), time.Duration(1 << 62), ^uint64(0)}
		var rp func() interface{}
		for i := 0; i < reps; i++ {
			run, r := build(n)
			rp = r
			wd.begin(entry, r)
			o := measure(run)
			wd.end()
			rep.Count(entry+"/scale", fmt.Sprintf("%s|scale%d", entry, n), true)
			if o.panicked {
				rep.Violate("C08:"+entry+":panic", entry+" panicked in the scaling probe: "+o.msg, map[string]interface{}{"entry": entry, "size_parameter": n, "input": r(), "panic": o.msg})
				return best, r, false
			}
			if o.thread < best.thread {
				best.thread = o.thread
			}
			if o.proc < best.proc {
				best.proc = o.proc
			}
			if o.alloc < best.alloc {
				best.alloc = o.alloc
			}
			if o.dt > scaleCap {
				break
			}
		}
		return best, rp, true
	}
	worst := func(m scaleM) time.Duration {
		if m.proc > m.thread {
			return m.proc
		}
		return m.thread
	}
	m1, _, ok := tmin(n)
	if !ok {
		return
	}
	if worst(m1) > scaleCap {
		_, r := build(n)
		rep.Violate("C08:"+entry+":time", fmt.Sprintf("%s: size parameter %d took %v of CPU time (thread %v, process %v; cap %v)", entry, n, worst(m1), m1.thread, m1.proc, scaleCap),
			map[string]interface{}{"entry": entry, "size_parameter": n, "elapsed_ms": worst(m1).Milliseconds(), "input": r()})
		return
	}
	m2, r2, ok := tmin(2 * n)
	if !ok {
		return
	}
	ratio := float64(m2.thread) / float64(m1.thread+1)
	pratio := float64(m2.proc) / float64(m1.proc+1)
	aratio := float64(m2.alloc) / float64(m1.alloc+1)
	scaleObs = append(scaleObs, map[string]interface{}{"entry": entry, "n": n, "t_n_us": m1.thread.Microseconds(), "t_2n_us": m2.thread.Microseconds(), "ratio": fmt.Sprintf("%.2f", ratio),
		"proc_n_us": m1.proc.Microseconds(), "proc_2n_us": m2.proc.Microseconds(), "proc_ratio": fmt.Sprintf("%.2f", pratio),
		"alloc_n": m1.alloc, "alloc_2n": m2.alloc, "alloc_ratio": fmt.Sprintf("%.2f", aratio)})
	if worst(m2) > scaleCap || (m2.thread > ratioFloor && ratio > ratioMax) {
		rep.Violate("C08:"+entry+":time", fmt.Sprintf("%s grows faster than quadratically: T(%d)=%v, T(%d)=%v, ratio %.1f (max %.1f, cap %v; process CPU %v -> %v)", entry, n, m1.thread, 2*n, m2.thread, ratio, ratioMax, scaleCap, m1.proc, m2.proc),
			map[string]interface{}{"entry": entry, "size_parameter": 2 * n, "t_n_us": m1.thread.Microseconds(), "t_2n_us": m2.thread.Microseconds(), "ratio": ratio, "proc_n_us": m1.proc.Microseconds(), "proc_2n_us": m2.proc.Microseconds(), "input": r2()})
	} else if m2.proc > procRatioFloor && pratio > procRatioMax {
		// confirm once (the process clock contains the garbage collector's workers): both sizes again
		m1b, _, ok1 := tmin(n)
		m2b, _, ok2 := tmin(2 * n)
		if ok1 && ok2 {
			if m1b.proc > m1.proc { // the larger T(n) and the smaller T(2n): the most favourable reading
				m1.proc = m1b.proc
			}
			if m2b.proc < m2.proc {
				m2.proc = m2b.proc
			}
			pratio = float64(m2.proc) / float64(m1.proc+1)
		}
		if m2.proc > procRatioFloor && pratio > procRatioMax {
			rep.Violate("C08:"+entry+":time", fmt.Sprintf("%s grows faster than quadratically in PROCESS CPU time (all goroutines; the calling thread saw %v -> %v): Tproc(%d)=%v, Tproc(%d)=%v, ratio %.1f (max %.1f)", entry, m1.thread, m2.thread, n, m1.proc, 2*n, m2.proc, pratio, procRatioMax),
				map[string]interface{}{"entry": entry, "size_parameter": 2 * n, "clock": "getrusage(RUSAGE_SELF) user+system", "proc_n_us": m1.proc.Microseconds(), "proc_2n_us": m2.proc.Microseconds(), "ratio": pratio, "t_n_us": m1.thread.Microseconds(), "t_2n_us": m2.thread.Microseconds(), "input": r2()})
		}
	}
	if m2.alloc > allocRatioFloor && aratio > allocMax {
		rep.Violate("C08:"+entry+":alloc", fmt.Sprintf("%s: allocation grows faster than the input: A(%d)=%d bytes, A(%d)=%d bytes, ratio %.2f (max %.1f)", entry, n, m1.alloc, 2*n, m2.alloc, aratio, allocMax),
			map[string]interface{}{"entry": entry, "size_parameter": 2 * n, "alloc_n": m1.alloc, "alloc_2n": m2.alloc, "ratio": aratio, "rule": "A(2n)/A(n) <= limit once A(2n) > 256 KiB", "input": r2()})
	}
}

var scaleObs []interface{}

// ---------- mutation of byte strings ----------
func mutate(r *vh.RNG, b []byte) []byte {
	out := append([]byte(nil), b...)
	k := 1 + r.Intn(3)
	for i := 0; i < k; i++ {
		switch r.Intn(9) {
		case 0: // flip a bit
			if len(out) > 0 {
				out[r.Intn(len(out))] ^= 1 << uint(r.Intn(8))
			}
		case 1: // overwrite a byte with an interesting value
			if len(out) > 0 {
				out[r.Intn(len(out))] = vh.Pick(r, []byte{0, 1, 0x7f, 0x80, 0xfc, 0xfd, 0xfe, 0xff, 0x4c, 0x4d, 0x4e})
			}
		case 2: // truncate
			if len(out) > 0 {
				out = out[:r.Intn(len(out))]
			}
		case 3: // delete a byte
			if len(out) > 0 {
				p := r.Intn(len(out))
				out = append(out[:p:p], out[p+1:]...)
			}
		case 4: // insert a byte
			p := r.Intn(len(out) + 1)
			out = append(out[:p:p], append([]byte{r.Byte()}, out[p:]...)...)
		case 5: // duplicate a chunk
			if len(out) > 1 {
				p := r.Intn(len(out))
				q := p + r.Intn(len(out)-p)
				out = append(out[:q:q], append(append([]byte(nil), out[p:q]...), out[q:]...)...)
			}
		case 6: // overwrite 4 bytes with a large little-endian count
			if len(out) >= 5 {
				p := r.Intn(len(out) - 4)
				copy(out[p:], vh.Pick(r, [][]byte{{0xfe, 0xff, 0xff, 0xff, 0xff}, {0xfd, 0xff, 0xff}, {0xff, 0xff, 0xff, 0xff, 0xff}, {0xfe, 0x40, 0x42, 0x0f, 0}})) // the last one declares 1,000,000: large, yet keeps the wire decoder's own pre-allocation below ~100 MB
			}
		case 7: // append garbage
			out = append(out, r.Bytes(1+r.Intn(8))...)
		case 8: // swap two bytes
			if len(out) > 1 {
				p, q := r.Intn(len(out)), r.Intn(len(out))
				out[p], out[q] = out[q], out[p]
			}
		}
	}
	return out
}

func hexIn(b []byte) func() interface{} {
	return func() interface{} { return map[string]interface{}{"hex": vh.Hex(b), "len": len(b)} }
}
func strIn(s string) func() interface{} {
	return func() interface{} { return map[string]interface{}{"string": s, "hex": vh.Hex([]byte(s))} }
}

func fatal(err error) {
	if err != nil {
		fmt.Fprintln(os.Stderr, "c08 harness error:", err)
		os.Exit(3)
	}
}

package main

// jsonpb: the Unmarshal / Marshal wrappers (dynamic monitors over encoding/json + protobuf, which are
// dependencies) and the two tree rewriters convertHex / convertBase64 (correspondence with JsonPb.v).

import (
	"bytes"
	"encoding/base64"
	"encoding/hex"
	"encoding/json"
	"fmt"
	"sort"
	"strconv"
	"strings"

	"github.com/golang/protobuf/proto"

	bjson "github.com/gcash/bchutil/jsonpb"
	pb "github.com/gcash/bchutil/jsonpb/testpb"

	"verif/harness/internal/vh"
)

const sampleTxJSON = `{"type":"UNCONFIRMED","unconfirmedTransaction":{"addedHeight":578547,"addedTime":1555442269,"fee":274,"feePerKb":1007,"startingPriority":233.78512396694214,"transaction":{"hash":"14e2ca55e5da7867799609092c66fe4d8f55d83f6035f85de00b89e7fb8102a4","inputs":[{"outpoint":{"hash":"216817355c6a8f1b6d3ee139ad2c7c2c5700f6b2fd73249ea891f1d5025da3ad","index":242},"sequence":4294967295,"signatureScript":"48304502210082beee6891f47370cce6c45f321c981fd26306550585f47d2d3493a7039c6d7102205bccf89f75187c74fcc8e2be1c182759b668635c4fcbb01b3dd2aff661e7982a41410467ff2df20f28bc62ad188525868f41d461f7dab3c1e500314cdb5218e5637bfd0f9c02eb5b3f383f698d28ff13547eaf05dd9216130861dd0216824e9d7337e3"}],"outputs":[{"disassembledScript":"OP_RETURN 5cb62a5c","pubkeyScript":"6a045cb62a5c2045a2cc00378a946e3d7e5c923a8bc9cd3d0553263c81450f36b12adb3885ec94"},{"address":"qqrxa0h9jqnc7v4wmj9ysetsp3y7w9l36u8gnnjulq","index":1,"pubkeyScript":"76a914066ebee590278f32aedc8a4865700c49e717f1d788ac","scriptClass":"pubkeyhash","value":3262}],"size":272,"version":1}}}`

// ---------- JSON value -> Coq term of JsonPb.json ----------
func coqJSON(v interface{}) string {
	switch t := v.(type) {
	case nil:
		return "JNull"
	case bool:
		return "(JBool " + vh.CoqBool(t) + ")"
	case float64:
		return "(JNum " + vh.CoqStr(strconv.FormatFloat(t, 'g', -1, 64)) + ")"
	case json.Number:
		return "(JNum " + vh.CoqStr(string(t)) + ")"
	case string:
		return "(JStr " + vh.CoqStr(t) + ")"
	case []interface{}:
		it := make([]string, len(t))
		for i, x := range t {
			it[i] = coqJSON(x)
		}
		return "(JArr " + vh.CoqList(it) + ")"
	case map[string]interface{}:
		keys := make([]string, 0, len(t))
		for k := range t {
			keys = append(keys, k)
		}
		sort.Strings(keys)
		it := make([]string, len(keys))
		for i, k := range keys {
			it[i] = "(" + vh.CoqStr(k) + ", " + coqJSON(t[k]) + ")"
		}
		return "(JObj " + vh.CoqList(it) + ")"
	}
	return "JNull"
}

func deepCopy(v interface{}) interface{} {
	switch t := v.(type) {
	case []interface{}:
		c := make([]interface{}, len(t))
		for i, x := range t {
			c[i] = deepCopy(x)
		}
		return c
	case map[string]interface{}:
		c := make(map[string]interface{}, len(t))
		for k, x := range t {
			c[k] = deepCopy(x)
		}
		return c
	}
	return v
}

func jsonText(v interface{}) string {
	b, err := json.Marshal(v)
	if err != nil {
		return fmt.Sprintf("<unmarshalable: %v>", err)
	}
	return string(b)
}

// ---------- generators ----------
// strings on which the codecs (base64 StdEncoding, hex, chainhash) take their rare branches
var specialLeaves = []string{"=", "==", "a=", "ab=", "ab==", "abc=", "ab==ab==", "ab=\n=", "\r\n", "a\nb\nc\nd", "zz", "0", "00", "0g", "é", " ", "OP_RETURN 5cb6", "qqrxa0h9jqnc7v4wmj9ysetsp3y7w9l36u8gnnjulq",
			// review round 2: URL-safe alphabet, data after the padding, other white space, padding in front / too much / none, 65 and 66 hex digits, 0x prefix, mixed-case and non-ASCII 64-character strings
			"-_-_", "YWI=x", "\tYWJj", "YWJj\n", "YW\rJj", "=YWJj", "YWJj====", "YWJ", "YWJj YWJj", "YR==", "YWI", strings.Repeat("ab", 32) + "a", strings.Repeat("ab", 33), "0x" + strings.Repeat("ab", 31), strings.Repeat("aB", 32), strings.Repeat("0", 63) + "\xc3", strings.Repeat("\xc3\xa9", 32), strings.Repeat("A", 42) + "==", strings.Repeat("A", 43) + "B"}

func randLeafString(r *vh.RNG) string {
	h := func(n int) string { return hex.EncodeToString(r.Bytes(n)) }
	b := func(n int) string { return base64.StdEncoding.EncodeToString(r.Bytes(n)) }
	switch r.Intn(22) {
	case 0:
		return ""
	case 1:
		return h(32) // 64 hex characters: a hash
	case 2:
		return strings.ToUpper(h(32))
	case 3:
		return h(31)
	case 4:
		return h(33)
	case 5:
		return h(32)[:63] // odd length
	case 6:
		return h(r.Intn(40))
	case 7:
		return h(32)[:63] + "g" // 64 characters, not hex
	case 8:
		return b(32) // base64 of 32 bytes: a hash on the Marshal side
	case 9:
		return b(31)
	case 10:
		return b(33)
	case 11:
		return b(r.Intn(50))
	case 12:
		s := b(32)
		return s[:10] + "\n" + s[10:] // newline inside base64 (the decoder skips it)
	case 13:
		s := b(1 + r.Intn(10))
		return strings.TrimRight(s, "=") // missing padding
	case 14:
		return b(4) + "="
	case 15:
		return "ab" // the historical example's string: valid hex AND not valid base64
	case 16:
		return "abcd" // valid hex and valid base64
	case 17:
		return vh.Pick(r, specialLeaves)
	case 18:
		return strings.Repeat("0", 64)
	case 19:
		return strings.Repeat("f", 64)
	case 20:
		return strings.Repeat("A", 44)[:43] + "=" // 32 zero bytes in base64
	default:
		return string(r.Bytes(r.Intn(12)))
	}
}

func randLeaf(r *vh.RNG) interface{} {
	switch r.Intn(9) {
	case 0:
		return nil
	case 1:
		return r.Bool()
	case 2:
		return float64(r.Intn(1000))
	case 3:
		return vh.Pick(r, []float64{0, -1, 1.5, 4294967295, 1e21, -2.5e-7, 9007199254740993})
	default:
		return randLeafString(r)
	}
}

var fieldNames = []string{"hash", "inputs", "outputs", "transaction", "outpoint", "signatureScript", "pubkeyScript", "hashes", "flags", "block", "a", "b", "", "type", "index", "blockLocatorHashes", "stopHash", "addresses"}

func randTree(r *vh.RNG, depth int) interface{} {
	if depth <= 0 {
		return randLeaf(r)
	}
	switch r.Intn(10) {
	case 0, 1, 2: // object
		m := map[string]interface{}{}
		for i := 0; i < r.Intn(5); i++ {
			m[vh.Pick(r, fieldNames)] = randTree(r, depth-1)
		}
		return m
	case 3: // homogeneous string array
		a := []interface{}{}
		for i := 0; i < r.Intn(5); i++ {
			a = append(a, randLeafString(r))
		}
		return a
	case 4: // heterogeneous array: the first element decides the rewriter's branch
		a := []interface{}{}
		first := r.Intn(5)
		for i := 0; i < 1+r.Intn(5); i++ {
			k := r.Intn(6)
			if i == 0 {
				k = first
			}
			switch k {
			case 0:
				a = append(a, randLeafString(r))
			case 1:
				a = append(a, map[string]interface{}{vh.Pick(r, fieldNames): randTree(r, depth-1)})
			case 2:
				a = append(a, []interface{}{randTree(r, depth-1)})
			case 3:
				a = append(a, float64(r.Intn(10)))
			case 4:
				a = append(a, nil)
			default:
				a = append(a, r.Bool())
			}
		}
		return a
	case 5: // array of trees
		a := []interface{}{}
		for i := 0; i < r.Intn(4); i++ {
			a = append(a, randTree(r, depth-1))
		}
		return a
	default:
		return randLeaf(r)
	}
}

var fixedTrees = []string{
	`{"a":["ab",1]}`, `["ab",1]`, `[1,"ab"]`, `["ab",null]`, `["ab",{"a":"ab"}]`, `["ab",["ab"]]`, `[{"a":"ab"},"ab"]`, `[["ab"],"ab",{"a":"abcd"}]`, `[null,"ab"]`, `[true,"ab"]`,
	`[]`, `{}`, `null`, `"ab"`, `1`, `true`, `{"a":null}`, `{"a":{"b":null,"c":[null]}}`, `[[],[[]],[[[]]]]`, `{"a":[]}`, `{"":""}`,
	`{"hash":"14e2ca55e5da7867799609092c66fe4d8f55d83f6035f85de00b89e7fb8102a4"}`, `["14e2ca55e5da7867799609092c66fe4d8f55d83f6035f85de00b89e7fb8102a4","ab",""]`,
	`{"hash":"pAKB++eJC+Bd+DVgP9hVj03+ZiwJCZZ3Z3ja5VXK4hQ="}`, `["pAKB++eJC+Bd+DVgP9hVj03+ZiwJCZZ3Z3ja5VXK4hQ=","YWI=","ab"]`, `{"a":{"a":{"a":{"a":["ab",1,{"a":["cd",2]}]}}}}`,
}

// ---------- calls ----------
type msgCtor struct {
	name string
	mk   func() proto.Message
}

var msgTypes = []msgCtor{
	{"TransactionNotification", func() proto.Message { return &pb.TransactionNotification{} }},
	{"Transaction", func() proto.Message { return &pb.Transaction{} }},
	{"GetMerkleProofResponse", func() proto.Message { return &pb.GetMerkleProofResponse{} }},
	{"GetHeadersRequest", func() proto.Message { return &pb.GetHeadersRequest{} }},
	{"GetBlockResponse", func() proto.Message { return &pb.GetBlockResponse{} }},
	{"TransactionFilter", func() proto.Message { return &pb.TransactionFilter{} }},
}

func callUnmarshal(stream string, doc []byte) {
	for i, mt := range msgTypes {
		if stream != "structured" && stream != "edge" && i > 1 {
			break
		}
		mt := mt
		g("jsonpb.Unmarshal", stream, mt.name+"|"+string(doc), budget{n: len(doc)},
			func() interface{} { return map[string]interface{}{"json": string(doc), "hex": vh.Hex(doc), "message": mt.name} },
			func() bool {
				m := mt.mk()
				err := bjson.Unmarshal(bytes.NewReader(doc), m)
				if err != nil {
					return json.Valid(doc)
				}
				// what was accepted must marshal again without a fault
				mar := bjson.Marshaler{Indent: "  "}
				_, _ = mar.MarshalToString(m)
				var out bytes.Buffer
				_ = (&bjson.Marshaler{EmitDefaults: true, OrigName: true, EnumsAsInts: true}).Marshal(&out, m)
				return true
			})
	}
	// the stream decoder variant
	g("jsonpb.UnmarshalNext", stream, string(doc), budget{n: len(doc)},
		func() interface{} { return map[string]interface{}{"json": string(doc), "hex": vh.Hex(doc)} },
		func() bool {
			dec := json.NewDecoder(bytes.NewReader(doc))
			ok := false
			for i := 0; i < 4; i++ {
				if err := bjson.UnmarshalNext(dec, &pb.Transaction{}); err != nil {
					break
				}
				ok = true
			}
			u := bjson.Unmarshaler{AllowUnknownFields: false}
			_ = u.Unmarshal(bytes.NewReader(doc), &pb.TransactionNotification{})
			return ok
		})
}

func callMarshal(stream string, m proto.Message, desc string) {
	raw, _ := proto.Marshal(m)
	g("jsonpb.Marshal", stream, desc+string(raw), budget{n: len(raw) + 64},
		func() interface{} { return map[string]interface{}{"message": desc, "protobuf_hex": vh.Hex(raw), "text": proto.CompactTextString(m)} },
		func() bool {
			for _, mar := range []bjson.Marshaler{{}, {Indent: "    "}, {EmitDefaults: true}, {OrigName: true, EnumsAsInts: true}} {
				s, err := mar.MarshalToString(m)
				if err != nil {
					return false
				}
				var out bytes.Buffer
				_ = mar.Marshal(&out, m)
				// and back
				back := proto.Clone(m)
				back.Reset()
				_ = bjson.Unmarshal(strings.NewReader(s), back)
			}
			return true
		})
}

// callConvert runs one of the two rewriters on a decoded JSON tree and records the correspondence case.
func callRewriter(stream string, which string, tree interface{}, corr bool) {
	in := deepCopy(tree)
	work := deepCopy(tree)
	text := jsonText(in)
	ok := g("jsonpb."+which, stream, which+"|"+text, budget{n: len(text)},
		func() interface{} { return map[string]interface{}{"json": text, "rewriter": which} },
		func() bool {
			if which == "convertHex" {
				bjson.VerifConvertHex(work)
			} else {
				bjson.VerifConvertBase64(work)
			}
			return true
		})
	if ok && corr {
		ctor := "ConvHex"
		if which == "convertBase64" {
			ctor = "ConvB64"
		}
		cases.Add(fmt.Sprintf("%s %s %s", ctor, coqJSON(in), coqJSON(work)),
			map[string]interface{}{"op": "jsonpb." + which, "json": text, "impl": jsonText(work)})
	}
}

func runJSON(rng *vh.RNG) {
	r := rng.Fork("json")
	var sample interface{}
	fatal(json.Unmarshal([]byte(sampleTxJSON), &sample))

	// ---- rewriters on trees (correspondence with the Coq model) ----
	for _, t := range fixedTrees {
		var v interface{}
		fatal(json.Unmarshal([]byte(t), &v))
		callRewriter("edge", "convertHex", v, true)
		callRewriter("edge", "convertBase64", v, true)
		callUnmarshal("edge", []byte(t))
		callUnmarshal("edge", []byte(`{"transaction":`+t+`}`))
		callUnmarshal("edge", []byte(`{"hashes":`+t+`,"inputs":`+t+`,"blockLocatorHashes":`+t+`,"addresses":`+t+`}`))
	}
	// every special leaf as a map value, as the first and as a later element of a string array
	for _, l := range specialLeaves {
		for _, t := range []interface{}{map[string]interface{}{"a": l}, []interface{}{l, "ab"}, []interface{}{"ab", l, 1.0}} {
			callRewriter("edge", "convertHex", t, true)
			callRewriter("edge", "convertBase64", t, true)
		}
	}
	callRewriter("structured", "convertHex", sample, true)
	callRewriter("structured", "convertBase64", sample, true)
	nt := cfg.Scale(260, 3000)
	for i := 0; i < nt; i++ {
		t := randTree(r, 1+r.Intn(4))
		callRewriter("structured", "convertHex", t, true)
		callRewriter("structured", "convertBase64", t, true)
		// the same tree as a document, bare and planted under real field names of the test messages
		doc, err := json.Marshal(t)
		if err != nil {
			continue
		}
		callUnmarshal("structured", doc)
		w1, _ := json.Marshal(map[string]interface{}{"unconfirmedTransaction": map[string]interface{}{"transaction": map[string]interface{}{"inputs": t, "outputs": t, "hash": t}}, "hashes": t, "flags": t})
		callUnmarshal("structured", w1)
		w2, _ := json.Marshal(map[string]interface{}{"hash": t, "inputs": []interface{}{map[string]interface{}{"outpoint": t, "signatureScript": t}}, "blockLocatorHashes": t, "stopHash": t, "addresses": t})
		callUnmarshal("structured", w2)
	}
	// deep nesting and wide arrays
	for _, d := range []int{10, 100, 1000, 9999, 10001, 50000} {
		callUnmarshal("structured", []byte(strings.Repeat("[", d)+strings.Repeat("]", d)))
		callUnmarshal("structured", []byte(strings.Repeat(`{"a":`, d)+`"ab"`+strings.Repeat("}", d)))
		callUnmarshal("structured", []byte(`{"hashes":[`+strings.Repeat(`"ab",`, d)+`1]}`))
		if d <= 1000 {
			var v interface{}
			if json.Unmarshal([]byte(`[`+strings.Repeat(`"ab",`, d)+`1]`), &v) == nil {
				callRewriter("structured", "convertHex", v, d <= 100)
				callRewriter("structured", "convertBase64", v, d <= 100)
			}
		}
	}
	// ---- Marshal side: messages whose byte fields have every interesting length ----
	for _, n := range []int{0, 1, 20, 31, 32, 33, 64} {
		h := r.Bytes(n)
		callMarshal("structured", &pb.Transaction{Hash: h, BlockHash: r.Bytes(32), Inputs: []*pb.Transaction_Input{{Outpoint: &pb.Transaction_Input_Outpoint{Hash: r.Bytes(n), Index: 1}, SignatureScript: r.Bytes(n)}, {}}, Outputs: []*pb.Transaction_Output{{PubkeyScript: r.Bytes(n), Address: "q" + strings.Repeat("q", n)}}}, fmt.Sprintf("Transaction/%d", n))
		callMarshal("structured", &pb.GetMerkleProofResponse{Hashes: [][]byte{r.Bytes(32), r.Bytes(n), {}, nil}, Flags: r.Bytes(n), Block: &pb.BlockInfo{Hash: r.Bytes(n), MerkleRoot: r.Bytes(32)}}, fmt.Sprintf("GetMerkleProofResponse/%d", n))
		callMarshal("structured", &pb.GetHeadersRequest{BlockLocatorHashes: [][]byte{r.Bytes(n)}, StopHash: r.Bytes(32)}, fmt.Sprintf("GetHeadersRequest/%d", n))
		callMarshal("structured", &pb.TransactionFilter{Addresses: []string{base64.StdEncoding.EncodeToString(r.Bytes(n)), "ab", hex.EncodeToString(r.Bytes(n)), ""}, AllTransactions: true}, fmt.Sprintf("TransactionFilter/%d", n))
	}
	callMarshal("structured", &pb.TransactionNotification{}, "TransactionNotification/empty")
	callMarshal("structured", &pb.GetMerkleProofResponse{}, "GetMerkleProofResponse/empty")

	// ---- (2) mutation of the sample document ----
	nm := cfg.Scale(400, 6000)
	for i := 0; i < nm; i++ {
		callUnmarshal("mutation", mutate(r, []byte(sampleTxJSON)))
	}
	// token-level mutations that keep the document valid JSON
	toks := []string{`"ab"`, `1`, `null`, `[]`, `{}`, `["ab",1]`, `[1,"ab"]`, `{"a":null}`, `true`, `"14e2ca55e5da7867799609092c66fe4d8f55d83f6035f85de00b89e7fb8102a4"`, `[["ab"],1]`, `-0`, `1e400`}
	for i := 0; i < cfg.Scale(300, 4000); i++ {
		s := sampleTxJSON
		for k := 0; k < 1+r.Intn(2); k++ {
			// replace a value after a random ':' or inside an array
			idx := []int{}
			for p := 0; p < len(s); p++ {
				if s[p] == ':' && p > 0 && s[p-1] == '"' {
					idx = append(idx, p)
				}
			}
			if len(idx) == 0 {
				break
			}
			p := vh.Pick(r, idx) + 1
			// find the end of the value (scan a balanced value)
			e := scanValue(s, p)
			s = s[:p] + vh.Pick(r, toks) + s[e:]
		}
		callUnmarshal("mutation", []byte(s))
		if i%4 == 0 {
			var v interface{}
			if json.Unmarshal([]byte(s), &v) == nil {
				callRewriter("mutation", "convertHex", v, i%8 == 0)
			}
		}
	}
	// ---- (3) random bytes ----
	for i := 0; i < cfg.Scale(300, 5000); i++ {
		n := r.Intn(80)
		var b []byte
		if i%2 == 0 {
			b = r.Bytes(n)
		} else {
			b = make([]byte, n)
			for j := range b {
				b[j] = `{}[]",:0123456789abcdeftrunl \\`[r.Intn(31)]
			}
		}
		callUnmarshal("random", b)
	}
}

// scanValue returns the index just past the JSON value starting at s[p].
func scanValue(s string, p int) int {
	depth := 0
	inStr := false
	for i := p; i < len(s); i++ {
		c := s[i]
		if inStr {
			if c == '\\' {
				i++
			} else if c == '"' {
				inStr = false
				if depth == 0 {
					return i + 1
				}
			}
			continue
		}
		switch c {
		case '"':
			inStr = true
		case '{', '[':
			depth++
		case '}', ']':
			if depth == 0 {
				return i
			}
			depth--
			if depth == 0 {
				return i + 1
			}
		case ',':
			if depth == 0 {
				return i
			}
		}
	}
	return len(s)
}

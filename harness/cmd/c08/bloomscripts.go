package main

// Review round 2: the output-script classes that steer Filter.matchTxAndUpdate / maybeAddOutpoint, each with a
// filter that really contains one of the script's data elements, under every update flag.  The random script
// stream produces a bare multisig output in one script out of twelve and a matching element only under a
// saturated filter, so the combination (P2PubkeyOnly, bare multisig, matching key) - the only one in which
// maybeAddOutpoint takes its multisig branch - was reached by luck.  A call that never returns (e.g. a lock taken
// twice) is reported by the watchdog as C08:<entry>:time with the message as replay.

import (
	"bytes"
	"fmt"

	"github.com/gcash/bchd/chaincfg/chainhash"
	"github.com/gcash/bchd/wire"
	"github.com/gcash/bchutil"
	"github.com/gcash/bchutil/bloom"
	"github.com/gcash/bchutil/merkleblock"

	"verif/harness/internal/vh"
)

func pushData(d []byte) []byte { return append([]byte{byte(len(d))}, d...) }

func multisigScript(m int, keys [][]byte) []byte {
	s := []byte{byte(0x50 + m)}
	for _, k := range keys {
		s = append(s, pushData(k)...)
	}
	return append(s, byte(0x50+len(keys)), 0xae)
}

func runBloomScripts(rng *vh.RNG) {
	r := rng.Fork("bloom-scripts")
	gx := unhex("79be667ef9dcbbac55a06295ce870b07029bfcdb2dce28d959f2815b16f81798")
	gy := unhex("483ada7726a3c4655da4fbfc0e1108a8fd17b448a68554199c47d08ffb10d4b8")
	k1 := append([]byte{0x02}, gx...)
	k2 := append([]byte{0x03}, r.Bytes(32)...)
	k3 := append(append([]byte{0x04}, gx...), gy...)
	h20 := r.Bytes(20)
	type sc struct {
		name   string
		script []byte
		elem   []byte // a data element of the script (what a client would have put into its filter)
	}
	var many [][]byte
	for i := 0; i < 15; i++ {
		many = append(many, append([]byte{0x02}, r.Bytes(32)...))
	}
	scripts := []sc{
		{"p2pk-compressed", append(pushData(k1), 0xac), k1},
		{"p2pk-uncompressed", append(pushData(k3), 0xac), k3},
		{"multisig-1of1", multisigScript(1, [][]byte{k1}), k1},
		{"multisig-1of2", multisigScript(1, [][]byte{k2, k1}), k1},
		{"multisig-2of3", multisigScript(2, [][]byte{k1, k2, k3}), k3},
		{"multisig-15of15", multisigScript(15, many), many[7]},
		{"multisig-wrong-count", append(append([]byte{0x51}, pushData(k1)...), 0x52, 0xae), k1}, // says 2 keys, has 1
		{"multisig-short-key", multisigScript(1, [][]byte{k1[:32]}), k1[:32]},
		{"p2pkh", append(append([]byte{0x76, 0xa9, 0x14}, h20...), 0x88, 0xac), h20},
		{"p2sh", append(append([]byte{0xa9, 0x14}, h20...), 0x87), h20},
		{"nulldata", append([]byte{0x6a}, pushData(h20)...), h20},
		{"nonstandard", append(pushData(k1), pushData(k2)...), k2},
	}
	flagsList := []wire.BloomUpdateType{wire.BloomUpdateNone, wire.BloomUpdateAll, wire.BloomUpdateP2PubkeyOnly, 3, 255}
	var prevHash chainhash.Hash
	prevHash[3] = 7
	mkTx := func(outs ...[]byte) (*bchutil.Tx, []byte) {
		tx := wire.NewMsgTx(1)
		tx.AddTxIn(wire.NewTxIn(wire.NewOutPoint(&prevHash, 1), pushData(k2)))
		for i, o := range outs {
			tx.AddTxOut(wire.NewTxOut(int64(1000+i), o, wire.TokenData{}))
		}
		raw := serTx(tx)
		t, err := bchutil.NewTxFromBytes(raw) // as received: parsed from bytes
		fatal(err)
		return t, raw
	}
	for _, s := range scripts {
		for _, flags := range flagsList {
			// (a) a filter that contains exactly the element; (b) a saturated filter
			nf := bloom.NewFilter(10, r.U32(), 0.0001, flags)
			nf.Add(s.elem)
			loads := []*wire.MsgFilterLoad{nf.MsgFilterLoad(), wire.NewMsgFilterLoad(bytesOf(0xff, 16), 3, 1, flags)}
			for li, fl := range loads {
				// the message as it arrives: through the wire codec
				var buf bytes.Buffer
				if err := fl.BchEncode(&buf, wire.ProtocolVersion, wire.BaseEncoding); err != nil {
					continue
				}
				var back wire.MsgFilterLoad
				if err := back.BchDecode(bytes.NewReader(buf.Bytes()), wire.ProtocolVersion, wire.BaseEncoding); err != nil {
					continue
				}
				fl := &back
				for _, shape := range []string{"alone", "second-output", "with-p2pk"} {
					var tx *bchutil.Tx
					var raw []byte
					switch shape {
					case "alone":
						tx, raw = mkTx(s.script)
					case "second-output":
						tx, raw = mkTx([]byte{0x51}, s.script)
					default:
						tx, raw = mkTx(scripts[0].script, s.script, scripts[0].script)
					}
					key := fmt.Sprintf("%s|%d|%d|%s", s.name, flags, li, shape)
					g("bloom.MatchTxAndUpdate", "structured", flKey(fl)+"|"+key+"|"+string(raw), budget{n: flLen(fl) + len(raw)},
						flReplay(fl, map[string]interface{}{"tx_hex": vh.Hex(raw), "script_class": s.name, "matching_element": vh.Hex(s.elem), "then": "Matches(element), MatchTxAndUpdate again, MatchesOutPoint, Add"}),
						func() bool {
							f := bloom.LoadFilter(cloneFL(fl))
							m := f.MatchTxAndUpdate(tx)
							_ = f.Matches(s.elem) // a later call on the same filter must return too
							_ = f.MatchTxAndUpdate(tx)
							_ = f.MatchesOutPoint(wire.NewOutPoint(tx.Hash(), 0))
							f.Add(s.elem)
							_ = f.IsLoaded()
							return m
						})
				}
				// the same inside a block, through the three builders
				if li == 0 || flags == wire.BloomUpdateP2PubkeyOnly {
					var z chainhash.Hash
					mblk := wire.NewMsgBlock(wire.NewBlockHeader(1, &z, &z, 0, 0))
					t1, _ := mkTx(s.script)
					t2 := wire.NewMsgTx(1)
					t2.AddTxIn(wire.NewTxIn(wire.NewOutPoint(t1.Hash(), 0), nil))
					t2.AddTxOut(wire.NewTxOut(5, []byte{0x51}, wire.TokenData{}))
					mblk.AddTransaction(t2) // the spender first
					mblk.AddTransaction(t1.MsgTx())
					raw := serBlock(mblk)
					blk, err := bchutil.NewBlockFromBytes(raw)
					if err != nil {
						continue
					}
					rp := flReplay(fl, map[string]interface{}{"block_hex": vh.Hex(raw), "script_class": s.name, "matching_element": vh.Hex(s.elem)})
					bkey := flKey(fl) + "|blk|" + s.name + fmt.Sprint(flags, li)
					g("bloom.NewMerkleBlock", "structured", bkey, budget{n: flLen(fl) + len(raw)}, rp, func() bool {
						mb, _ := bloom.NewMerkleBlock(blk, bloom.LoadFilter(cloneFL(fl)))
						_ = bloom.GetMatchedIndices(blk, bloom.LoadFilter(cloneFL(fl)))
						return mb != nil
					})
					g("merkleblock.NewMerkleBlockWithFilter", "structured", bkey, budget{n: flLen(fl) + len(raw)}, rp, func() bool {
						mb, _ := merkleblock.NewMerkleBlockWithFilter(blk, bloom.LoadFilter(cloneFL(fl)))
						return mb != nil
					})
				}
			}
		}
	}
}

package main

// GCS filters are parsed and queried in a CHILD PROCESS with a virtual-memory cap (ulimit -v) and a
// timeout: a filter that claims 2^32-1 elements in seven bytes must not be able to take the harness (or
// the machine) down.  The child runs the same guarded calls as everything else and prints
//   B <idx> <replay json>   before a probe,   E <idx> <evaluations so far>   after it,
//   R <report json>         at the end.
// If the child dies, the probe named by the last B without E is the violation's replay.

import (
	"bufio"
	"context"
	"encoding/hex"
	"encoding/json"
	"fmt"
	"os"
	"os/exec"
	"runtime"
	"strconv"
	"strings"
	"time"

	"github.com/gcash/bchd/chaincfg/chainhash"
	"github.com/gcash/bchd/wire"
	"github.com/gcash/bchutil/gcs"

	"verif/harness/internal/vh"
)

const (
	gcsChildEnv  = "C08_GCS_CHILD"
	gcsMemCapKiB = 3 << 20 // ulimit -v, in KiB: 3 GiB of address space
	defaultM     = 784931
)

type gcsProbe struct {
	Stream  string   `json:"stream"`
	Form    string   `json:"form"` // FromBytes | FromNBytes
	N       uint32   `json:"n"`
	P       uint8    `json:"p"`
	M       uint64   `json:"m"`
	Bytes   string   `json:"bytes_hex"`
	Key     string   `json:"key_hex"`
	Queries []string `json:"queries_hex"`
	Note    string   `json:"note,omitempty"`
}

func (p gcsProbe) replay(op string) func() interface{} {
	return func() interface{} {
		q := p
		if len(q.Bytes) > 600 {
			q.Note += fmt.Sprintf(" (filter bytes truncated in this replay: %d bytes)", len(q.Bytes)/2)
			q.Bytes = q.Bytes[:600] + "..."
		}
		if len(q.Queries) > 8 {
			q.Note += fmt.Sprintf(" (%d queries, first 8 shown)", len(q.Queries))
			q.Queries = q.Queries[:8]
		}
		return map[string]interface{}{"probe": q, "op": op}
	}
}

// merkleProbe: a merkle-block message whose declared transaction count is huge and whose body is tiny.
// These run in the capped child as well: code that sizes anything by the declared count must not be
// able to exhaust the machine.
type merkleProbe struct {
	Stream       string `json:"stream"`
	Transactions uint32 `json:"transactions"`
	NumHashes    int    `json:"num_hashes"`
	HashByte     byte   `json:"hash_fill_byte"`
	FlagsHex     string `json:"flags_hex"`
	Note         string `json:"note,omitempty"`
}

type risky struct {
	Entry  string       `json:"entry"`
	GCS    *gcsProbe    `json:"gcs,omitempty"`
	Merkle *merkleProbe `json:"merkle,omitempty"`
}

func (m merkleProbe) msg() *wire.MsgMerkleBlock {
	msg := &wire.MsgMerkleBlock{Transactions: m.Transactions}
	for i := 0; i < m.NumHashes; i++ {
		var h chainhash.Hash
		for j := range h {
			h[j] = m.HashByte + byte(i)
		}
		msg.Hashes = append(msg.Hashes, &h)
	}
	msg.Flags, _ = hex.DecodeString(m.FlagsHex)
	return msg
}

func merkleProbes(rng *vh.RNG, thorough bool) []merkleProbe {
	r := rng.Fork("merkle-huge")
	var out []merkleProbe
	for _, nt := range []uint32{1 << 22, 1 << 24, 1 << 26, 1 << 28, 1 << 31, 0xfffffffe, 0xffffffff} {
		for _, nh := range []int{0, 1, 3} {
			for _, fl := range []string{"", "00", "01", "ff", "ffffffffffffff"} {
				out = append(out, merkleProbe{Stream: "structured", Transactions: nt, NumHashes: nh, HashByte: r.Byte(), FlagsHex: fl,
					Note: "declared transaction count far beyond what the hashes and flag bits can describe"})
			}
		}
	}
	n := 40
	if thorough {
		n = 400
	}
	for i := 0; i < n; i++ {
		out = append(out, merkleProbe{Stream: "random", Transactions: r.U32(), NumHashes: r.Intn(6), HashByte: r.Byte(), FlagsHex: hex.EncodeToString(r.Bytes(r.Intn(6)))})
	}
	return out
}

func riskyProbes(rng *vh.RNG, thorough bool) []risky {
	var out []risky
	for _, p := range gcsProbes(rng, thorough) {
		p := p
		out = append(out, risky{Entry: "gcs." + p.Form + "+queries", GCS: &p})
	}
	for _, m := range merkleProbes(rng, thorough) {
		m := m
		out = append(out, risky{Entry: "merkleblock.ExtractMatches", Merkle: &m})
	}
	return out
}

func gcsProbes(rng *vh.RNG, thorough bool) []gcsProbe {
	r := rng.Fork("gcs")
	var out []gcsProbe
	key := r.Bytes(16)
	var key16 [16]byte
	copy(key16[:], key)
	hx := hex.EncodeToString
	qsets := func() [][]string {
		one := []string{hx(r.Bytes(20))}
		many := []string{}
		for i := 0; i < 40; i++ {
			many = append(many, hx(r.Bytes(r.Intn(40))))
		}
		return [][]string{{}, one, {""}, many}
	}
	Ms := []uint64{0, 1, defaultM, 1 << 32, 1 << 63, ^uint64(0)}
	// the historical 54 GB input and its relatives: tiny byte strings that claim huge N
	for _, b := range []string{"feffffffff0000", "feffffffff", "feffffffffffffffffff", "fdffff00", "fe00000001", "ffffffffffffffffff", "ff0000000001000000", "00", "", "01", "fd0100", "fc"} {
		for _, p := range []uint8{19, 0, 1, 32, 33, 255} {
			out = append(out, gcsProbe{Stream: "structured", Form: "FromNBytes", P: p, M: defaultM, Bytes: b, Key: hx(key), Queries: []string{hx([]byte{1})}, Note: "N-prefixed bytes declaring a count far beyond what the bytes can hold"})
		}
	}
	for _, n := range []uint32{0, 1, 2, 1000, 1 << 20, 1 << 31, 0xfffffffe, 0xffffffff} {
		for _, p := range []uint8{0, 1, 19, 20, 31, 32, 33, 255} {
			for _, bl := range []int{0, 1, 2, 7, 64} {
				if !thorough && r.Intn(3) != 0 && n != 0xffffffff {
					continue
				}
				var b []byte
				switch r.Intn(3) {
				case 0:
					b = make([]byte, bl)
				case 1:
					b = bytesOf(0xff, bl)
				default:
					b = r.Bytes(bl)
				}
				qs := qsets()
				out = append(out, gcsProbe{Stream: "structured", Form: "FromBytes", N: n, P: p, M: vh.Pick(r, Ms), Bytes: hx(b), Key: hx(key), Queries: qs[r.Intn(len(qs))]})
			}
		}
	}
	// honest filters (valid outer layer), then parsed with the right and with wrong parameters
	type honestT struct {
		n     uint32
		p     uint8
		m     uint64
		b, nb []byte
		elems []string
	}
	var honest []honestT
	for _, n := range []int{0, 1, 2, 10, 100, 1000} {
		for _, p := range []uint8{0, 1, 10, 19, 32} {
			if !thorough && r.Intn(2) == 0 {
				continue
			}
			m := vh.Pick(r, []uint64{1, defaultM, 1 << 20})
			var elems [][]byte
			var es []string
			for i := 0; i < n; i++ {
				e := r.Bytes(1 + r.Intn(30))
				elems = append(elems, e)
				es = append(es, hx(e))
			}
			f, err := gcs.BuildGCSFilter(p, m, key16, elems)
			if err != nil {
				continue
			}
			b, _ := f.Bytes()
			nb, _ := f.NBytes()
			if len(b) > 4096 { // P = 0 / M = 1 shapes stay small; wide ones are capped for the replay size
				continue
			}
			honest = append(honest, honestT{uint32(n), p, m, b, nb, es})
		}
	}
	for _, h := range honest {
		q := h.elems
		if len(q) > 12 {
			q = q[:12]
		}
		q = append(append([]string{}, q...), hx(r.Bytes(9)))
		out = append(out, gcsProbe{Stream: "structured", Form: "FromBytes", N: h.n, P: h.p, M: h.m, Bytes: hx(h.b), Key: hx(key), Queries: q, Note: "honest filter, right parameters"})
		out = append(out, gcsProbe{Stream: "structured", Form: "FromNBytes", P: h.p, M: h.m, Bytes: hx(h.nb), Key: hx(key), Queries: q, Note: "honest N-prefixed filter"})
		for _, n2 := range []uint32{0, h.n + 1, h.n * 2, 0xffffffff} {
			out = append(out, gcsProbe{Stream: "structured", Form: "FromBytes", N: n2, P: vh.Pick(r, []uint8{h.p, 0, 32, h.p + 1}), M: vh.Pick(r, Ms), Bytes: hx(h.b), Key: hx(key), Queries: q, Note: "honest bytes, wrong parameters"})
		}
		// truncated honest bytes
		if len(h.b) > 1 {
			out = append(out, gcsProbe{Stream: "structured", Form: "FromBytes", N: h.n, P: h.p, M: h.m, Bytes: hx(h.b[:r.Intn(len(h.b))]), Key: hx(key), Queries: q, Note: "honest filter truncated"})
		}
	}
	// mutation stream
	nm := 150
	if thorough {
		nm = 2500
	}
	for i := 0; i < nm && len(honest) > 0; i++ {
		h := vh.Pick(r, honest)
		form := "FromBytes"
		src := h.b
		if r.Bool() {
			form, src = "FromNBytes", h.nb
		}
		q := h.elems
		if len(q) > 6 {
			q = q[:6]
		}
		out = append(out, gcsProbe{Stream: "mutation", Form: form, N: h.n, P: h.p, M: h.m, Bytes: hx(mutate(r, src)), Key: hx(key), Queries: append([]string{hx(r.Bytes(5))}, q...)})
	}
	// random bytes
	nr := 150
	if thorough {
		nr = 2500
	}
	for i := 0; i < nr; i++ {
		form := "FromBytes"
		if r.Bool() {
			form = "FromNBytes"
		}
		qs := qsets()
		out = append(out, gcsProbe{Stream: "random", Form: form, N: vh.Pick(r, []uint32{r.U32(), uint32(r.Intn(100))}), P: vh.Pick(r, []uint8{r.Byte(), byte(r.Intn(33))}), M: vh.Pick(r, Ms), Bytes: hx(r.Bytes(r.Intn(80))), Key: hx(r.Bytes(16)), Queries: qs[r.Intn(len(qs))]})
	}
	return out
}

func runGCSProbe(p gcsProbe) {
	b, _ := hex.DecodeString(p.Bytes)
	kb, _ := hex.DecodeString(p.Key)
	var key [16]byte
	copy(key[:], kb)
	var qs [][]byte
	qn := 0
	for _, q := range p.Queries {
		d, _ := hex.DecodeString(q)
		qs = append(qs, d)
		qn += len(d) + 16
	}
	var f *gcs.Filter
	ikey := p.Form + "|" + p.Bytes + fmt.Sprintf("|%d|%d|%d|%d", p.N, p.P, p.M, len(qs))
	g("gcs."+p.Form, p.Stream, ikey, budget{n: len(b)}, p.replay(p.Form), func() bool {
		var err error
		if p.Form == "FromNBytes" {
			f, err = gcs.FromNBytes(p.P, p.M, b)
		} else {
			f, err = gcs.FromBytes(p.N, p.P, p.M, b)
		}
		if err != nil {
			f = nil
			return false
		}
		_ = f.N()
		_ = f.P()
		_, _ = f.Bytes()
		_, _ = f.NBytes()
		_, _ = f.PBytes()
		_, _ = f.NPBytes()
		return true
	})
	if f == nil {
		return
	}
	bud := budget{n: len(b) + qn}
	// Every query function is called TWICE in a row on the same *Filter (review round 2: state kept on the object
	// - a cache built on the second lookup and sized by the claimed N - shows on the second call only), and the
	// filter is parsed afresh INSIDE the measured closure: g() re-runs a closure that went over budget and keeps
	// the smaller figure, which would hide a one-time allocation cached on an object that survives the re-run.
	fresh := func() *gcs.Filter {
		var ff *gcs.Filter
		if p.Form == "FromNBytes" {
			ff, _ = gcs.FromNBytes(p.P, p.M, b)
		} else {
			ff, _ = gcs.FromBytes(p.N, p.P, p.M, b)
		}
		return ff
	}
	if len(qs) > 0 {
		g("gcs.Match", p.Stream, ikey, bud, p.replay("Match"), func() bool {
			ff := fresh()
			for i, q := range qs {
				if i >= 3 {
					break
				}
				_, _ = ff.Match(key, q)
				_, _ = ff.Match(key, q)
			}
			_, _ = ff.Match(key, qs[0])
			return true
		})
	}
	g("gcs.MatchAny", p.Stream, ikey, bud, p.replay("MatchAny"), func() bool {
		ff := fresh()
		_, _ = ff.MatchAny(key, qs)
		_, _ = ff.MatchAny(key, qs)
		return true
	})
	g("gcs.ZipMatchAny", p.Stream, ikey, bud, p.replay("ZipMatchAny"), func() bool {
		ff := fresh()
		_, _ = ff.ZipMatchAny(key, qs)
		_, _ = ff.ZipMatchAny(key, qs)
		return true
	})
	g("gcs.HashMatchAny", p.Stream, ikey, bud, p.replay("HashMatchAny"), func() bool {
		ff := fresh()
		_, _ = ff.HashMatchAny(key, qs)
		_, _ = ff.HashMatchAny(key, qs)
		return true
	})
	// and all four interleaved on the object that was parsed first (serialisers in between)
	g("gcs.Match", p.Stream, ikey+"|mixed", bud, p.replay("Match/MatchAny/ZipMatchAny/HashMatchAny interleaved, twice"), func() bool {
		for round := 0; round < 2; round++ {
			if len(qs) > 0 {
				_, _ = f.Match(key, qs[0])
			}
			_, _ = f.HashMatchAny(key, qs)
			_, _ = f.NBytes()
			_, _ = f.ZipMatchAny(key, qs)
			_, _ = f.MatchAny(key, qs)
		}
		return true
	})
}

// gcsChildMain is what the re-executed harness binary runs.
func gcsChildMain() {
	runtime.LockOSThread()
	inChild = true
	seed, _ := strconv.ParseUint(os.Getenv("C08_SEED"), 10, 64)
	skip, _ := strconv.Atoi(os.Getenv("C08_SKIP"))
	thorough := os.Getenv("C08_TIER") == "thorough"
	cfg = vh.Config{Prop: "C08", Seed: seed, Tier: os.Getenv("C08_TIER")}
	rep = vh.NewReport(cfg)
	w := bufio.NewWriter(os.Stdout)
	emit := func(format string, a ...interface{}) {
		fmt.Fprintf(w, format, a...)
		w.Flush()
	}
	cur := -1
	go wd.run(func(entry string, replay interface{}, d time.Duration) {
		j, _ := json.Marshal(map[string]interface{}{"entry": entry, "replay": replay, "elapsed_ms": d.Milliseconds()})
		emit("H %d %s\n", cur, j)
		os.Exit(4)
	})
	probes := riskyProbes(vh.NewRNG(seed), thorough)
	for i, p := range probes {
		if i < skip {
			continue
		}
		cur = i
		j, _ := json.Marshal(p)
		emit("B %d %s\n", i, j)
		if p.GCS != nil {
			runGCSProbe(*p.GCS)
		} else if p.Merkle != nil {
			callMerkle(p.Merkle.Stream, p.Merkle.msg())
		}
		emit("E %d %d\n", i, rep.Evaluations)
	}
	if skip == 0 || skip <= len(probes) {
		// scaling: a non-member query must read the filter to its end; n vs 2n filter bytes
		r := vh.NewRNG(seed).Fork("gcs-scale")
		for _, op := range []string{"Match", "ZipMatchAny", "HashMatchAny"} {
			op := op
			emit("B %d %s\n", len(probes), fmt.Sprintf(`{"scale":%q}`, op))
			scaleProbe("gcs."+op, 100000, 5, func(n int) (func(), func() interface{}) {
				var key [16]byte
				var elems [][]byte
				for i := 0; i < n/3; i++ { // about 2.6 bytes per element at P = 19
					elems = append(elems, r.Bytes(8))
				}
				f0, _ := gcs.BuildGCSFilter(19, defaultM, key, elems)
				b, _ := f0.Bytes()
				f, _ := gcs.FromBytes(f0.N(), 19, defaultM, b)
				q := [][]byte{{0xff, 0xff, 0xff, 0xff, 0xff, 0xff, 0xff, 0xff, 0xff}}
				return func() {
						switch op {
						case "Match":
							f.Match(key, q[0])
						case "ZipMatchAny":
							f.ZipMatchAny(key, q)
						default:
							f.HashMatchAny(key, q)
						}
					}, func() interface{} {
						return map[string]interface{}{"family": "honest filter of n/3 elements (P=19), one non-member query", "filter_bytes": len(b), "op": op}
					}
			})
			emit("E %d %d\n", len(probes), rep.Evaluations)
		}
	}
	rep.Extra["scale"] = scaleObs
	rep.Extra["max_alloc_seen"] = maxAllocSeen
	j, _ := json.Marshal(rep)
	emit("R %s\n", j)
}

// runGCS is the parent side.
func runGCS() {
	exe, err := os.Executable()
	fatal(err)
	total := len(riskyProbes(vh.NewRNG(cfg.Seed), cfg.Thorough()))
	rep.Extra["child_process_probes"] = total
	rep.Extra["child_process"] = fmt.Sprintf("GCS probes and merkle-block messages with huge declared counts run in the re-executed harness under `ulimit -v %d` (KiB) with a timeout; crash of the child = violation with the probe as replay", gcsMemCapKiB)
	skip := 0
	var gcsScale interface{}
	for attempt := 0; attempt < 6 && skip <= total; attempt++ {
		ctx, cancel := context.WithTimeout(context.Background(), time.Duration(cfg.Scale(120, 480))*time.Second)
		cmd := exec.CommandContext(ctx, "sh", "-c", fmt.Sprintf("ulimit -v %d; exec %q", gcsMemCapKiB, exe))
		cmd.Env = append(os.Environ(), gcsChildEnv+"=1", "C08_SEED="+strconv.FormatUint(cfg.Seed, 10), "C08_TIER="+cfg.Tier, "C08_SKIP="+strconv.Itoa(skip), "GOMEMLIMIT=off")
		var stderr strings.Builder
		cmd.Stderr = &stderr
		stdout, err := cmd.StdoutPipe()
		fatal(err)
		fatal(cmd.Start())
		sc := bufio.NewScanner(stdout)
		sc.Buffer(make([]byte, 1<<20), 64<<20)
		open := -1
		var openReplay json.RawMessage
		evals := 0
		done := false
		var hang json.RawMessage
		for sc.Scan() {
			line := sc.Text()
			if len(line) < 2 {
				continue
			}
			f := strings.SplitN(line, " ", 3)
			switch f[0] {
			case "B":
				open, _ = strconv.Atoi(f[1])
				openReplay = json.RawMessage(f[2])
			case "E":
				open = -1
				evals, _ = strconv.Atoi(f[2])
			case "H":
				hang = json.RawMessage(f[2])
			case "R":
				var cr vh.Report
				if err := json.Unmarshal([]byte(line[2:]), &cr); err == nil {
					done = true
					rep.Evaluations += cr.Evaluations
					rep.Nontrivial += cr.Nontrivial
					for k, v := range cr.Histogram {
						rep.Histogram[k] += v
					}
					for _, v := range cr.Violations {
						rep.Violate(v.Key, v.What, v.Replay)
					}
					gcsScale = cr.Extra["scale"]
					if m, ok := cr.Extra["max_alloc_seen"].(map[string]interface{}); ok {
						for k, v := range m {
							if fv, ok := v.(float64); ok && uint64(fv) > maxAllocSeen[k] {
								maxAllocSeen[k] = uint64(fv)
							}
						}
					}
				}
			}
		}
		werr := cmd.Wait()
		timedOut := ctx.Err() != nil
		cancel()
		if done {
			break
		}
		// the child died: attribute to the open probe
		rep.Evaluations += evals
		rep.Histogram["gcs/child-run-that-died"] += evals
		full := stderr.String()
		se := full
		if len(se) > 600 {
			se = se[:600]
		}
		kind, what := "panic", "the child process died (fatal error / crash) while running this probe"
		if timedOut || hang != nil {
			kind, what = "time", "the probe did not finish within the child's time limit"
		} else if strings.Contains(full, "out of memory") || strings.Contains(full, "cannot allocate") || strings.Contains(full, "too large") ||
			strings.Contains(full, "pthread_create failed") || strings.Contains(full, "failed to create new OS thread") || strings.Contains(full, "errno=12") {
			kind, what = "alloc", fmt.Sprintf("the probe tried to allocate beyond the child's %d KiB address-space cap (allocation driven by a count claimed inside the input, not by its length)", gcsMemCapKiB)
		}
		entry := "gcs"
		var pr struct {
			Entry  string          `json:"entry"`
			Merkle json.RawMessage `json:"merkle"`
			Scale  string          `json:"scale"`
		}
		json.Unmarshal(openReplay, &pr)
		op := lastOp(full)
		how := "gcs.FromBytes/FromNBytes on the probe, then Match, MatchAny, ZipMatchAny, HashMatchAny with the probe's key and queries"
		if len(pr.Merkle) > 0 {
			entry = "merkleblock.ExtractMatches"
			how = "merkleblock.NewMerkleBlockFromMsg on a wire.MsgMerkleBlock with these fields (hash i filled with byte hash_fill_byte+i), then ExtractMatches"
		} else if op != "" {
			entry = "gcs." + op
		} else if pr.Scale != "" {
			entry = "gcs." + pr.Scale
		} else if pr.Entry != "" {
			entry = pr.Entry
		}
		rep.Violate("C08:"+entry+":"+kind, entry+": "+what,
			map[string]interface{}{"probe": openReplay, "probe_index": open, "child_exit": fmt.Sprint(werr), "child_stderr_head": se, "hang": hang,
				"how": how})
		if open < 0 {
			break
		}
		skip = open + 1
	}
	if gcsScale != nil {
		if l, ok := gcsScale.([]interface{}); ok {
			scaleObs = append(scaleObs, l...)
		}
	}
}

// lastOp finds which query function is on the crashing goroutine's stack.
func lastOp(stderr string) string {
	for _, op := range []string{"HashMatchAny", "ZipMatchAny", "MatchAny", "Match", "FromNBytes", "FromBytes"} {
		if strings.Contains(stderr, "gcs.(*Filter)."+op) || strings.Contains(stderr, "gcs."+op) {
			return op
		}
	}
	return ""
}

package main

// Round 3 (red team): SIZE SWEEPS around 2^8 and 2^16 for every counted quantity of every input language, run in a
// CHILD PROCESS with a per-probe deadline.
//
// A counter, cursor or length kept in a uint8 / uint16 makes a loop endless exactly when some counted quantity of the
// input (a run of one character, the number of items of a query set, the number of elements / keys / nesting levels
// of a JSON value, the number of inputs / outputs / pushes / transactions / hashes / flag bytes of a message) reaches
// 256 or 65536; a recursive pre-pass that evaluates its recursive call twice is exponential in a nesting depth that
// no random generator reaches.  A goroutine stuck in such a loop cannot be killed, so every probe of these families
// runs in the re-executed harness binary: the child prints
//
//	B <idx> <json: entry, family, n, input>   before a probe
//	V <json: key, what, replay>               for every monitor violation the probe produced
//	E <idx> <evaluations so far>              after it
//	R <report json>                           at the end
//
// and the parent watches the child's CPU time (/proc/<pid>/stat) and the wall clock: a probe that has burnt more than
// sizeCPULimit of CPU, or has not returned after sizeWallLimit, is a HANG: the child is killed, the probe (with its
// concrete input) is the replay of `C08:<entry>:time`, and the child is restarted behind that probe with the entry
// point that hung taken out (its other probes would hang on the same defect; one witness per key is kept anyway).
// Inside the child every probe goes through g(): recover, time budget (thread and process CPU), allocation budget.
//
// The same child runs the DIFFERENTIAL monitor for declared counts (diffcount.go).

import (
	"bufio"
	"bytes"
	"encoding/binary"
	"encoding/json"
	"fmt"
	"os"
	"os/exec"
	"runtime"
	"strconv"
	"strings"
	"sync"
	"time"

	"github.com/gcash/bchd/chaincfg"
	"github.com/gcash/bchd/chaincfg/chainhash"
	"github.com/gcash/bchd/wire"
	"github.com/gcash/bchutil"
	"github.com/gcash/bchutil/base58"
	"github.com/gcash/bchutil/bech32"
	"github.com/gcash/bchutil/bloom"
	"github.com/gcash/bchutil/gcs"
	"github.com/gcash/bchutil/hdkeychain"
	bjson "github.com/gcash/bchutil/jsonpb"
	pb "github.com/gcash/bchutil/jsonpb/testpb"
	"github.com/gcash/bchutil/merkleblock"

	"verif/harness/internal/vh"
)

const (
	sizeChildEnv  = "C08_SIZE_CHILD"
	sizeCPULimit  = 10 * time.Second // CPU time one probe may burn before it is called a hang (no probe needs 1 s)
	sizeWallLimit = 60 * time.Second // a probe blocked without burning CPU (lock taken twice, channel never written)
)

type sizeProbe struct {
	Entry  string
	Family string
	N      int
	// build prepares the input (not measured) and returns the budget, the replay and the measured call
	build func() (budget, func() interface{}, func() bool)
	// direct, when set, is run instead of build/g: the probe reports its own violations (differential monitors)
	direct func()
}

// bigStrIn is the replay of a long string: the exact construction, the length, and the string itself when it is
// short enough to be pasted (otherwise its two ends).
func bigStrIn(construction, s string) func() interface{} {
	return func() interface{} {
		m := map[string]interface{}{"construction": construction, "length": len(s)}
		if len(s) <= 1200 {
			m["string"] = s
		} else {
			m["head"] = s[:100]
			m["tail"] = s[len(s)-100:]
		}
		return m
	}
}

func rp(n int, c string) string { return fmt.Sprintf("strings.Repeat(%q, %d)", c, n) }

var (
	sizesSmall = []int{255, 256, 257, 300, 513}
	sizesBig   = []int{65535, 65536, 65537}
)

func sizesOf(thorough bool, quickBig bool) []int {
	s := append([]int{}, sizesSmall...)
	if thorough {
		s = append(s, 1000, 4097)
	}
	if thorough {
		s = append(s, sizesBig...)
	} else if quickBig {
		s = append(s, 65536)
	}
	return s
}

// ---------------------------------------------------------------------------------------------------------------
// the probe list: a deterministic function of (seed, tier); the child and the parent build the same list
// ---------------------------------------------------------------------------------------------------------------
func sizeProbes(seed uint64, thorough bool) []sizeProbe {
	r := vh.NewRNG(seed).Fork("size-sweeps")
	var out []sizeProbe
	add := func(entry, family string, n int, build func() (budget, func() interface{}, func() bool)) {
		out = append(out, sizeProbe{Entry: entry, Family: family, N: n, build: build})
	}
	strProbe := func(entry, family string, n int, cons, s string, call func(string) bool) {
		add(entry, family, n, func() (budget, func() interface{}, func() bool) {
			return budget{n: len(s)}, bigStrIn(cons, s), func() bool { return call(s) }
		})
	}

	// ===== Base58 consumers: runs of one character =====
	main := &chaincfg.MainNetParams
	type sEntry struct {
		name string
		call func(string) bool
	}
	b58Entries := []sEntry{
		{"base58.Decode", func(s string) bool { return len(base58.Decode(s)) > 0 }},
		{"base58.CheckDecode", func(s string) bool { _, _, err := base58.CheckDecode(s); return err == nil }},
		{"DecodeAddress", func(s string) bool { _, err := bchutil.DecodeAddress(s, main); return err == nil }},
		{"DecodeWIF", func(s string) bool { _, err := bchutil.DecodeWIF(s); return err == nil }},
		{"hdkeychain.NewKeyFromString", func(s string) bool { _, err := hdkeychain.NewKeyFromString(s); return err == nil }},
	}
	tail := base58.Encode(r.Bytes(12))
	for _, n := range sizesOf(thorough, false) {
		big := n > 5000
		type fam struct{ name, cons, s string }
		fams := []fam{
			{"n leading '1' characters, then \"2\"", rp(n, "1") + ` + "2"`, strings.Repeat("1", n) + "2"},
			{"valid Base58Check over n zero bytes and 0x01", fmt.Sprintf("b58check(append(make([]byte, %d), 1))", n), b58check(append(make([]byte, n), 1))},
		}
		if !big {
			fams = append(fams,
				fam{"n '1' characters", rp(n, "1"), strings.Repeat("1", n)},
				fam{"n leading '1' characters, then a random Base58 tail", rp(n, "1") + fmt.Sprintf(" + %q", tail), strings.Repeat("1", n) + tail},
				fam{"n 'z' characters (largest digit)", rp(n, "z"), strings.Repeat("z", n)},
				fam{"a digit, then n '1' characters (interior zero digits)", `"2" + ` + rp(n, "1"), "2" + strings.Repeat("1", n)},
				fam{"valid Base58Check over version 0x80 and n 0xff bytes", fmt.Sprintf("b58check(append([]byte{0x80}, bytesOf(0xff, %d)...))", n), b58check(append([]byte{0x80}, bytesOf(0xff, n)...))},
			)
		}
		for _, f := range fams {
			for _, e := range b58Entries {
				strProbe(e.name, f.name, n, f.cons, f.s, e.call)
			}
		}
	}

	// ===== CashAddr: runs in the payload, in the prefix, of separators =====
	cashEntries := []sEntry{
		{"DecodeCashAddress", func(s string) bool { _, _, err := bchutil.DecodeCashAddress(s); return err == nil }},
		{"DecodeAddress", func(s string) bool { _, err := bchutil.DecodeAddress(s, main); return err == nil }},
	}
	body20 := to5(append([]byte{0}, r.Bytes(20)...))
	for _, n := range sizesOf(thorough, true) {
		type fam struct{ name, cons, s string }
		fams := []fam{
			{"valid checksum over n zero symbols", fmt.Sprintf(`cashString("bitcoincash", make([]byte, %d))`, n), cashString("bitcoincash", make([]byte, n))},
			{"valid checksum, prefix of n letters", fmt.Sprintf(`cashString(strings.Repeat("a", %d), <21-byte P2PKH payload>)`, n), cashString(strings.Repeat("a", n), body20)},
			{"n separators", rp(n, ":"), strings.Repeat(":", n)},
			{"n 'q' characters after the prefix, no checksum", `"bitcoincash:" + ` + rp(n, "q"), "bitcoincash:" + strings.Repeat("q", n)},
			{"n upper-case 'Q' characters", rp(n, "Q"), strings.Repeat("Q", n)},
		}
		for _, f := range fams {
			for _, e := range cashEntries {
				if n > 5000 && !thorough && e.name == "DecodeAddress" {
					continue // falls through to the (quadratic) Base58 decoder: thorough tier
				}
				strProbe(e.name, f.name, n, f.cons, f.s, e.call)
			}
		}
	}

	// ===== bech32 =====
	for _, n := range sizesOf(thorough, true) {
		n := n
		dec := func(s string) bool { _, _, err := bech32.Decode(s); return err == nil }
		zeros := make([]byte, n)
		longData, _ := bech32.Encode("a", zeros)
		longHrp, _ := bech32.Encode(strings.Repeat("a", n), []byte{0, 1})
		strProbe("bech32.Decode", "n separators", n, rp(n, "1"), strings.Repeat("1", n), dec)
		strProbe("bech32.Decode", "valid checksum over n zero symbols", n, fmt.Sprintf(`bech32.Encode("a", make([]byte, %d))`, n), longData, dec)
		strProbe("bech32.Decode", "valid checksum, hrp of n letters", n, fmt.Sprintf(`bech32.Encode(strings.Repeat("a", %d), []byte{0, 1})`, n), longHrp, dec)
		strProbe("bech32.Decode", "n 'q' characters", n, rp(n, "q"), strings.Repeat("q", n), dec)
		add("bech32.Encode", "n data symbols", n, func() (budget, func() interface{}, func() bool) {
			d := bytesOf(31, n)
			return budget{n: n}, func() interface{} {
					return map[string]interface{}{"hrp": "a", "data": fmt.Sprintf("bytesOf(31, %d)", n)}
				},
				func() bool { _, err := bech32.Encode("a", d); return err == nil }
		})
		add("bech32.Encode", "hrp of n letters", n, func() (budget, func() interface{}, func() bool) {
			h := strings.Repeat("a", n)
			return budget{n: n}, func() interface{} { return map[string]interface{}{"hrp": rp(n, "a"), "data": "0001"} },
				func() bool { _, err := bech32.Encode(h, []byte{0, 1}); return err == nil }
		})
		for _, c := range []struct {
			from, to uint8
			pad      bool
			fill     byte
		}{{8, 5, true, 0xff}, {5, 8, false, 31}, {5, 8, true, 0}, {1, 8, true, 1}, {8, 1, true, 0xaa}} {
			c := c
			add("bech32.ConvertBits", fmt.Sprintf("n groups, %d -> %d bits, pad %v", c.from, c.to, c.pad), n, func() (budget, func() interface{}, func() bool) {
				d := bytesOf(c.fill, n)
				return budget{n: n}, func() interface{} {
						return map[string]interface{}{"data": fmt.Sprintf("bytesOf(%#x, %d)", c.fill, n), "from": c.from, "to": c.to, "pad": c.pad}
					},
					func() bool { _, err := bech32.ConvertBits(d, c.from, c.to, c.pad); return err == nil }
			})
		}
	}

	// ===== JSON =====
	out = append(out, jsonSizeProbes(thorough)...)
	// ===== wire-shaped messages, bloom, merkle =====
	out = append(out, wireSizeProbes(r, thorough)...)
	// ===== GCS query sets and filters =====
	out = append(out, gcsSizeProbes(thorough)...)
	// ===== declared-count differential =====
	out = append(out, diffCountProbes(thorough)...)
	return out
}

// ---------------------------------------------------------------------------------------------------------------
// JSON: nesting along every branch of the rewriters' dispatch, long strings, wide arrays / objects, long streams
// ---------------------------------------------------------------------------------------------------------------
type nestKind struct {
	name        string
	open, close string
	leaf        string
	wrap        func(inner interface{}) interface{}
	leafV       interface{}
}

func nestKinds() []nestKind {
	arr := func(xs ...interface{}) interface{} { return xs }
	obj := func(v interface{}) interface{} { return map[string]interface{}{"a": v} }
	return []nestKind{
		{"string-led arrays", `["ab",`, `]`, `"ab"`, func(x interface{}) interface{} { return arr("ab", x) }, "ab"},
		{"number-led arrays", `[1,`, `]`, `1`, func(x interface{}) interface{} { return arr(1.0, x) }, 1.0},
		{"object-led arrays", `[{"a":"ab"},`, `]`, `"ab"`, func(x interface{}) interface{} { return arr(obj("ab"), x) }, "ab"},
		{"array-led arrays", `[[],`, `]`, `[]`, func(x interface{}) interface{} { return arr(arr(), x) }, arr()},
		{"null-led arrays", `[null,`, `]`, `null`, func(x interface{}) interface{} { return arr(nil, x) }, nil},
		{"bool-led arrays", `[true,`, `]`, `"ab"`, func(x interface{}) interface{} { return arr(true, x) }, "ab"},
		{"arrays whose only element is an array", `[`, `]`, `"ab"`, func(x interface{}) interface{} { return arr(x) }, "ab"},
		{"arrays with the nested array first and a string after it", `[`, `,"ab"]`, `"ab"`, func(x interface{}) interface{} { return arr(x, "ab") }, "ab"},
		{"objects", `{"a":`, `}`, `"ab"`, obj, "ab"},
		{"object / array alternation", `{"a":[`, `]}`, `"ab"`, func(x interface{}) interface{} { return obj(arr(x)) }, "ab"},
		{"object / string-led array alternation", `{"a":["ab",`, `]}`, `"ab"`, func(x interface{}) interface{} { return obj(arr("ab", x)) }, "ab"},
		{"string-led array / object alternation", `["ab",{"a":`, `}]`, `1`, func(x interface{}) interface{} { return arr("ab", obj(x)) }, 1.0},
		{"object-led array / object alternation", `[{"a":`, `}]`, `"ab"`, func(x interface{}) interface{} { return arr(obj(x)) }, "ab"},
	}
}

func (k nestKind) doc(d int) string {
	return strings.Repeat(k.open, d) + k.leaf + strings.Repeat(k.close, d)
}
func (k nestKind) tree(d int) interface{} {
	v := k.leafV
	for i := 0; i < d; i++ {
		v = k.wrap(v)
	}
	return v
}

// unmarshalAll drives every Unmarshal* entry point of the package with one document and three message types.
func unmarshalAll(doc []byte) bool {
	ok := false
	if bjson.Unmarshal(bytes.NewReader(doc), &pb.Transaction{}) == nil {
		ok = true
	}
	if bjson.Unmarshal(bytes.NewReader(doc), &pb.GetMerkleProofResponse{}) == nil {
		ok = true
	}
	u := bjson.Unmarshaler{AllowUnknownFields: false}
	if u.Unmarshal(bytes.NewReader(doc), &pb.TransactionNotification{}) == nil {
		ok = true
	}
	dec := json.NewDecoder(bytes.NewReader(doc))
	if bjson.UnmarshalNext(dec, &pb.Transaction{}) == nil {
		ok = true
	}
	return ok
}

func docReplay(cons string, doc string) func() interface{} {
	return func() interface{} {
		m := map[string]interface{}{"construction": cons, "length": len(doc), "messages": "Transaction, GetMerkleProofResponse, TransactionNotification (Unmarshal, Unmarshaler.Unmarshal, UnmarshalNext)"}
		if len(doc) <= 1200 {
			m["json"] = doc
		} else {
			m["head"] = doc[:120]
			m["tail"] = doc[len(doc)-120:]
		}
		return m
	}
}

func jsonSizeProbes(thorough bool) []sizeProbe {
	var out []sizeProbe
	add := func(entry, family string, n int, build func() (budget, func() interface{}, func() bool)) {
		out = append(out, sizeProbe{Entry: entry, Family: family, N: n, build: build})
	}
	docProbe := func(family string, n int, cons string, mk func() string) {
		add("jsonpb.Unmarshal", family, n, func() (budget, func() interface{}, func() bool) {
			doc := mk()
			b := []byte(doc)
			return budget{n: 4 * len(b)}, docReplay(cons, doc), func() bool { return unmarshalAll(b) }
		})
	}
	treeProbe := func(family string, n int, cons string, mk func() interface{}, approxLen int) {
		for _, which := range []string{"convertHex", "convertBase64"} {
			which := which
			add("jsonpb."+which, family, n, func() (budget, func() interface{}, func() bool) {
				t := mk()
				return budget{n: approxLen}, func() interface{} { return map[string]interface{}{"construction": cons, "rewriter": which} },
					func() bool {
						if which == "convertHex" {
							bjson.VerifConvertHex(t)
						} else {
							bjson.VerifConvertBase64(t)
						}
						return true
					}
			})
		}
	}

	// ---- nesting: every first-element kind, every alternation; depths from "a doubled recursive call shows" (20, 40,
	// 64) over the 2^8 boundary to encoding/json's own limit (10000) and, for the rewriters on a built tree, 2^16
	depths := []int{20, 40, 64, 255, 256, 257, 1000}
	if thorough {
		depths = append(depths, 5000, 9999, 10001, 65536)
	}
	for _, k := range nestKinds() {
		k := k
		for _, d := range depths {
			d := d
			cons := fmt.Sprintf("strings.Repeat(%q, %d) + %q + strings.Repeat(%q, %d)", k.open, d, k.leaf, k.close, d)
			docProbe("nesting: "+k.name, d, cons, func() string { return k.doc(d) })
			docProbe("nesting under real field names: "+k.name, d, `{"hashes":X,"transaction":{"inputs":X},"inputs":X} with X = `+cons,
				func() string {
					x := k.doc(d)
					return `{"hashes":` + x + `,"transaction":{"inputs":` + x + `},"inputs":` + x + `}`
				})
			treeProbe("nesting: "+k.name, d, "the decoded tree of "+cons, func() interface{} { return k.tree(d) }, d*(len(k.open)+len(k.close))+4)
		}
	}

	// ---- long strings: every string kind the codecs distinguish, at every position the rewriters look at
	lens := []int{255, 256, 257, 1000, 4096, 60000}
	if thorough {
		lens = append(lens, 65535, 65536, 65537, 120000, 1000000)
	}
	type skind struct {
		name string
		mk   func(n int) (lit string, val string) // JSON literal without the quotes, and the decoded value
		cons string
	}
	rep2 := func(unit string) func(n int) (string, string) {
		return func(n int) (string, string) { s := strings.Repeat(unit, n/len(unit)); return s, s }
	}
	skinds := []skind{
		{"lower-case hex digits", rep2("ab"), `strings.Repeat("ab", n/2)`},
		{"upper-case hex digits", rep2("AB"), `strings.Repeat("AB", n/2)`},
		{"hex digits with a 0x prefix", func(n int) (string, string) { s := "0x" + strings.Repeat("ab", n/2); return s, s }, `"0x" + strings.Repeat("ab", n/2)`},
		{"base64 characters", rep2("QUJD"), `strings.Repeat("QUJD", n/4)`},
		{"one letter (not hex)", rep2("z"), `strings.Repeat("z", n)`},
		{"zeros", rep2("0"), `strings.Repeat("0", n)`},
		{"padding characters", rep2("="), `strings.Repeat("=", n)`},
		{"spaces", rep2(" "), `strings.Repeat(" ", n)`},
		{"two-byte UTF-8", rep2("\xc3\xa9"), `strings.Repeat("é", n/2)`},
		{"JSON escapes", func(n int) (string, string) { return strings.Repeat(`a\n`, n/8), strings.Repeat("a\n", n/8) }, `strings.Repeat("\\u0061\\n", n/8) (escaped form)`},
	}
	for _, sk := range skinds {
		sk := sk
		for _, n := range lens {
			n := n
			if n >= 20000 {
				// one occurrence, one message type, one call: a pass that is quadratic in the length of a string then
				// costs about a second and is MEASURED (allocation budget) instead of running into the hang deadline
				add("jsonpb.Unmarshal", "one long string: "+sk.name, n, func() (budget, func() interface{}, func() bool) {
					lit, _ := sk.mk(n)
					doc := `{"hash":"ab","inputs":[{"signatureScript":"` + lit + `"}]}`
					b := []byte(doc)
					return budget{n: len(b)}, docReplay(fmt.Sprintf(`{"hash":"ab","inputs":[{"signatureScript":S}]} with S = %s, n = %d; Unmarshal into Transaction`, sk.cons, n), doc),
						func() bool { return bjson.Unmarshal(bytes.NewReader(b), &pb.Transaction{}) == nil }
				})
				add("jsonpb.Unmarshal", "one long string in an array: "+sk.name, n, func() (budget, func() interface{}, func() bool) {
					lit, _ := sk.mk(n)
					doc := `{"hashes":["ab","` + lit + `"]}`
					b := []byte(doc)
					return budget{n: len(b)}, docReplay(fmt.Sprintf(`{"hashes":["ab",S]} with S = %s, n = %d; Unmarshal into GetMerkleProofResponse`, sk.cons, n), doc),
						func() bool { return bjson.Unmarshal(bytes.NewReader(b), &pb.GetMerkleProofResponse{}) == nil }
				})
			} else {
				docProbe("one long string: "+sk.name, n,
					fmt.Sprintf(`S = %s, n = %d; document {"hash":S,"inputs":[{"signatureScript":S,"outpoint":{"hash":S}}],"outputs":[{"pubkeyScript":S,"address":S}]}`, sk.cons, n),
					func() string {
						lit, _ := sk.mk(n)
						s := `"` + lit + `"`
						return `{"hash":` + s + `,"inputs":[{"signatureScript":` + s + `,"outpoint":{"hash":` + s + `}}],"outputs":[{"pubkeyScript":` + s + `,"address":` + s + `}]}`
					})
				docProbe("one long string in an array / as a key: "+sk.name, n,
					fmt.Sprintf(`S = %s, n = %d; document {"hashes":[S,"ab",S],"flags":S,S:S}`, sk.cons, n),
					func() string {
						lit, _ := sk.mk(n)
						s := `"` + lit + `"`
						return `{"hashes":[` + s + `,"ab",` + s + `],"flags":` + s + `,` + s + `:` + s + `}`
					})
			}
			treeProbe("one long string: "+sk.name, n, fmt.Sprintf(`S = %s, n = %d; tree {"hash":S,"a":[S,"ab",S],S:S}`, sk.cons, n),
				func() interface{} {
					_, v := sk.mk(n)
					return map[string]interface{}{"hash": v, "a": []interface{}{v, "ab", v}, v: v}
				}, 4*n)
		}
	}

	// ---- wide arrays (every element kind), wide objects, long streams
	widths := []int{255, 256, 257, 1000, 65536}
	if thorough {
		widths = append(widths, 65535, 65537, 131072)
	}
	quickWide := map[string]bool{"strings": true, "objects": true} // 2^16 elements in the quick tier: these kinds only
	elems := []struct {
		name, lit string
		v         func() interface{}
	}{
		{"strings", `"ab"`, func() interface{} { return "ab" }},
		{"hash strings", `"14e2ca55e5da7867799609092c66fe4d8f55d83f6035f85de00b89e7fb8102a4"`, func() interface{} { return "14e2ca55e5da7867799609092c66fe4d8f55d83f6035f85de00b89e7fb8102a4" }},
		{"numbers", `1`, func() interface{} { return 1.0 }},
		{"empty objects", `{}`, func() interface{} { return map[string]interface{}{} }},
		{"objects", `{"hash":"ab"}`, func() interface{} { return map[string]interface{}{"hash": "ab"} }},
		{"empty arrays", `[]`, func() interface{} { return []interface{}{} }},
		{"string arrays", `["ab"]`, func() interface{} { return []interface{}{"ab"} }},
		{"nulls", `null`, func() interface{} { return nil }},
	}
	for _, e := range elems {
		e := e
		for _, n := range widths {
			n := n
			if n > 5000 && !thorough && !quickWide[e.name] {
				continue
			}
			if n > 100000 && !(e.name == "strings" || e.name == "numbers" || e.name == "nulls") {
				continue // a 131072-element document of the heavier kinds costs seconds in encoding/json + protobuf alone
			}
			list := func() string { return strings.TrimSuffix(strings.Repeat(e.lit+",", n), ",") }
			docProbe("array of n "+e.name, n, fmt.Sprintf(`{"hashes":[L],"inputs":[L],"outputs":[L]} with L = n x %s, n = %d`, e.lit, n),
				func() string { l := list(); return `{"hashes":[` + l + `],"inputs":[` + l + `],"outputs":[` + l + `]}` })
			treeProbe("array of n "+e.name, n, fmt.Sprintf(`{"a":[n x %s],"b":["ab", n x %s]}, n = %d`, e.lit, e.lit, n), func() interface{} {
				a := make([]interface{}, n)
				b := make([]interface{}, n+1)
				b[0] = "ab"
				for i := range a {
					a[i] = e.v()
					b[i+1] = e.v()
				}
				return map[string]interface{}{"a": a, "b": b}
			}, n*(len(e.lit)+1)*2)
		}
	}
	for _, n := range widths {
		n := n
		keys := func() string {
			var sb strings.Builder
			sb.WriteByte('{')
			for i := 0; i < n; i++ {
				if i > 0 {
					sb.WriteByte(',')
				}
				fmt.Fprintf(&sb, `"k%d":"ab"`, i)
			}
			sb.WriteByte('}')
			return sb.String()
		}
		docProbe("object with n distinct keys", n, fmt.Sprintf(`{"k0":"ab","k1":"ab",...,"k%d":"ab"}`, n-1), keys)
		if n > 5000 && !thorough || n > 100000 {
			continue
		}
		docProbe("object with n distinct keys under a real field", n, fmt.Sprintf(`{"transaction":{"k0":"ab",...,"k%d":"ab"},"inputs":[{...same...}]}`, n-1),
			func() string { k := keys(); return `{"transaction":` + k + `,"inputs":[` + k + `]}` })
		docProbe("object with one key n times", n, fmt.Sprintf(`{"hash":"ab","hash":"ab",... n = %d times}`, n),
			func() string { return "{" + strings.TrimSuffix(strings.Repeat(`"hash":"ab",`, n), ",") + "}" })
		treeProbe("object with n distinct keys", n, fmt.Sprintf(`{"k0":"ab",...,"k%d":"ab"} (every fourth value null, every fourth an object)`, n-1), func() interface{} {
			m := make(map[string]interface{}, n)
			for i := 0; i < n; i++ {
				switch i % 4 {
				case 0:
					m["k"+strconv.Itoa(i)] = nil
				case 1:
					m["k"+strconv.Itoa(i)] = map[string]interface{}{"a": "ab"}
				default:
					m["k"+strconv.Itoa(i)] = "ab"
				}
			}
			return m
		}, n*12)
		add("jsonpb.UnmarshalNext", "stream of n documents", n, func() (budget, func() interface{}, func() bool) {
			doc := []byte(strings.Repeat(`{"hash":"ab"} `, n))
			return budget{n: len(doc), timeExtra: time.Duration(n) * 20 * time.Microsecond}, func() interface{} {
					return map[string]interface{}{"construction": fmt.Sprintf("strings.Repeat(`{\"hash\":\"ab\"} `, %d); UnmarshalNext(dec, &Transaction{}) until it fails", n)}
				},
				func() bool {
					dec := json.NewDecoder(bytes.NewReader(doc))
					k := 0
					for bjson.UnmarshalNext(dec, &pb.Transaction{}) == nil {
						k++
						if k > n+2 {
							panic("UnmarshalNext keeps succeeding past the end of the stream")
						}
					}
					return k == n
				}
		})
	}
	return out
}

// ---------------------------------------------------------------------------------------------------------------
// wire-shaped messages: n inputs / outputs / script bytes / pushes / transactions / matches / hashes / flag bytes
// ---------------------------------------------------------------------------------------------------------------
func wireSizeProbes(r *vh.RNG, thorough bool) []sizeProbe {
	var out []sizeProbe
	add := func(entry, family string, n int, build func() (budget, func() interface{}, func() bool)) {
		out = append(out, sizeProbe{Entry: entry, Family: family, N: n, build: build})
	}
	var prev chainhash.Hash
	prev[0] = 0xaa
	p2pkh := append(append([]byte{0x76, 0xa9, 0x14}, r.Bytes(20)...), 0x88, 0xac)
	mkTx := func(nin, nout int, inScript, outScript []byte) *wire.MsgTx {
		tx := wire.NewMsgTx(1)
		for i := 0; i < nin; i++ {
			tx.AddTxIn(wire.NewTxIn(wire.NewOutPoint(&prev, uint32(i)), inScript))
		}
		for i := 0; i < nout; i++ {
			tx.AddTxOut(wire.NewTxOut(int64(i), outScript, wire.TokenData{}))
		}
		return tx
	}
	pushes := func(n int) []byte {
		s := make([]byte, 0, 2*n)
		for i := 0; i < n; i++ {
			s = append(s, 0x01, byte(i))
		}
		return s
	}
	type txFam struct {
		name string
		mk   func(n int) *wire.MsgTx
	}
	txFams := []txFam{
		{"transaction with n inputs", func(n int) *wire.MsgTx { return mkTx(n, 1, nil, p2pkh) }},
		{"transaction with n P2PKH outputs", func(n int) *wire.MsgTx { return mkTx(1, n, nil, p2pkh) }},
		{"one output whose script is n one-byte pushes", func(n int) *wire.MsgTx { return mkTx(1, 1, pushes(n), pushes(n)) }},
		{"one output whose script is n zero bytes", func(n int) *wire.MsgTx { return mkTx(1, 1, make([]byte, n), make([]byte, n)) }},
	}
	for _, n := range sizesOf(thorough, false) {
		n := n
		for _, f := range txFams {
			f := f
			desc := func(raw []byte) func() interface{} {
				return func() interface{} {
					m := map[string]interface{}{"construction": f.name + fmt.Sprintf(", n = %d (version 1, previous outpoints aa00..00:i, values i, lock time 0)", n), "tx_bytes": len(raw)}
					if len(raw) <= 1500 {
						m["tx_hex"] = vh.Hex(raw)
					} else {
						m["tx_hex_head"] = vh.Hex(raw[:200])
					}
					return m
				}
			}
			add("NewTxFromBytes", f.name, n, func() (budget, func() interface{}, func() bool) {
				raw := serTx(f.mk(n))
				base, bt := wireBaseline("tx", raw)
				return budget{n: len(raw), extraAlloc: base, timeExtra: 3 * bt}, desc(raw), func() bool {
					t, err := bchutil.NewTxFromBytes(raw)
					if err != nil {
						return false
					}
					_ = t.Hash()
					_, err = bchutil.NewTxFromReader(bytes.NewReader(raw))
					return err == nil
				}
			})
			add("bloom.MatchTxAndUpdate", f.name+"; saturated filter, BloomUpdateAll", n, func() (budget, func() interface{}, func() bool) {
				raw := serTx(f.mk(n))
				tx, err := bchutil.NewTxFromBytes(raw)
				fatal(err)
				fl := fullFilter(8)
				return budget{n: len(raw) + 17}, func() interface{} {
					return map[string]interface{}{"filter": "eight 0xff bytes, 1 hash function, tweak 0, BloomUpdateAll", "tx": desc(raw)()}
				}, func() bool {
					f := bloom.LoadFilter(cloneFL(fl))
					m := f.MatchTxAndUpdate(tx)
					_ = f.MatchTxAndUpdate(tx)
					return m
				}
			})
			add("bloom.MatchTxAndUpdate", f.name+"; filter holding one element, BloomUpdateP2PubkeyOnly", n, func() (budget, func() interface{}, func() bool) {
				raw := serTx(f.mk(n))
				tx, err := bchutil.NewTxFromBytes(raw)
				fatal(err)
				nf := bloom.NewFilter(10, 0, 0.0001, wire.BloomUpdateP2PubkeyOnly)
				nf.Add(p2pkh[3:23])
				nf.Add([]byte{0})
				fl := nf.MsgFilterLoad()
				return budget{n: len(raw) + flLen(fl)}, flReplay(fl, map[string]interface{}{"tx": desc(raw)()}), func() bool {
					f := bloom.LoadFilter(cloneFL(fl))
					return f.MatchTxAndUpdate(tx)
				}
			})
		}
	}
	// blocks with n transactions: wrappers + accessors around the boundaries, the three merkle-block builders with
	// every transaction matching (n matched indices), extraction of the proof they build
	mkBlock := func(n int) *wire.MsgBlock {
		var z chainhash.Hash
		blk := wire.NewMsgBlock(wire.NewBlockHeader(1, &z, &z, 0, 0))
		for i := 0; i < n; i++ {
			tx := mkTx(1, 1, nil, []byte{0x51})
			tx.LockTime = uint32(i)
			blk.AddTransaction(tx)
		}
		return blk
	}
	blkDesc := func(n int, raw []byte) func() interface{} {
		return func() interface{} {
			m := map[string]interface{}{"construction": fmt.Sprintf("block of %d transactions (1 input aa00..00:0, 1 output OP_TRUE value 0, lock time = index), zero header", n), "block_bytes": len(raw)}
			if len(raw) <= 1500 {
				m["block_hex"] = vh.Hex(raw)
			}
			return m
		}
	}
	for _, n := range sizesOf(thorough, false) {
		n := n
		add("NewBlockFromBytes", "block with n transactions, accessors at the 2^8 / 2^16 indices", n, func() (budget, func() interface{}, func() bool) {
			raw := serBlock(mkBlock(n))
			base, bt := wireBaseline("block", raw)
			return budget{n: len(raw), extraAlloc: 2*base + 64<<10, timeExtra: 6 * bt}, blkDesc(n, raw), func() bool {
				k, err := bchutil.NewBlockFromBytes(raw)
				if err != nil {
					return false
				}
				for _, i := range []int{254, 255, 256, 257, 258, 65534, 65535, 65536, 65537, n - 1, n} {
					_, _ = k.Tx(i)
					_, _ = k.TxHash(i)
				}
				blockAccessors(k)
				return true
			}
		})
		for _, which := range []string{"bloom.NewMerkleBlock", "merkleblock.NewMerkleBlockWithFilter", "merkleblock.NewMerkleBlockWithTxnSet"} {
			which := which
			add(which, "block with n transactions, all matching; then ExtractMatches on the proof", n, func() (budget, func() interface{}, func() bool) {
				mb := mkBlock(n)
				raw := serBlock(mb)
				blk := bchutil.NewBlock(mb)
				var set []*chainhash.Hash
				for i, tx := range blk.Transactions() {
					if n <= 600 || i%(n/300) == 0 {
						set = append(set, tx.Hash())
					}
				}
				return budget{n: len(raw) + 32*len(set), timeExtra: time.Duration(n) * time.Duration(len(set)) * 50 * time.Nanosecond}, func() interface{} {
						return map[string]interface{}{"block": blkDesc(n, raw)(), "filter": "eight 0xff bytes, 1 hash function, BloomUpdateAll (builders with a filter)", "txn_set": fmt.Sprintf("%d hashes of the block's transactions (NewMerkleBlockWithTxnSet)", len(set))}
					}, func() bool {
						var msg *wire.MsgMerkleBlock
						switch which {
						case "bloom.NewMerkleBlock":
							msg, _ = bloom.NewMerkleBlock(blk, bloom.LoadFilter(fullFilter(8)))
						case "merkleblock.NewMerkleBlockWithFilter":
							msg, _ = merkleblock.NewMerkleBlockWithFilter(blk, bloom.LoadFilter(fullFilter(8)))
						default:
							msg, _ = merkleblock.NewMerkleBlockWithTxnSet(blk, set)
						}
						if msg == nil {
							return false
						}
						p := merkleblock.NewMerkleBlockFromMsg(*msg)
						root := p.ExtractMatches()
						_ = p.GetMatches()
						_ = p.GetItems()
						return root != nil
					}
			})
		}
		// raw merkle messages: n hashes, n flag bytes
		for _, shape := range []struct {
			name   string
			nh, nf func(n int) int
			fill   byte
		}{
			{"n identical hashes, n/8+1 flag bytes 0xff", func(n int) int { return n }, func(n int) int { return n/8 + 1 }, 0xff},
			{"n flag bytes 0xff, 8 hashes", func(n int) int { return 8 }, func(n int) int { return n }, 0xff},
			{"n flag bytes 0x00, n hashes", func(n int) int { return n }, func(n int) int { return n }, 0x00},
			{"n flag bytes 0x55, n hashes", func(n int) int { return n }, func(n int) int { return n }, 0x55},
		} {
			shape := shape
			for _, nt := range []uint32{uint32(n), merkleblock.MaxTxnCount} {
				nt := nt
				add("merkleblock.ExtractMatches", fmt.Sprintf("%s, Transactions = %d", shape.name, nt), n, func() (budget, func() interface{}, func() bool) {
					var h chainhash.Hash
					h[0] = 7
					msg := &wire.MsgMerkleBlock{Transactions: nt, Flags: bytesOf(shape.fill, shape.nf(n))}
					for i := 0; i < shape.nh(n); i++ {
						msg.Hashes = append(msg.Hashes, &h)
					}
					return budget{n: 84 + 32*len(msg.Hashes) + len(msg.Flags)}, func() interface{} {
							return map[string]interface{}{"transactions": nt, "num_hashes": len(msg.Hashes), "hash": "07 then 31 zero bytes (all equal)", "flags": fmt.Sprintf("bytesOf(%#x, %d)", shape.fill, len(msg.Flags))}
						}, func() bool {
							p := merkleblock.NewMerkleBlockFromMsg(*msg)
							root := p.ExtractMatches()
							_ = p.ExtractMatches()
							return root != nil
						}
				})
			}
		}
	}
	// bloom filter loads of n bytes, data elements of n bytes
	for _, n := range []int{255, 256, 257, 300, 513, 4096, 35999, 36000} {
		n := n
		for _, hf := range []uint32{1, 50} {
			hf := hf
			add("bloom.Matches", fmt.Sprintf("filter of n bytes (0x00), %d hash functions, element of n bytes; then Add, Matches, MatchesOutPoint", hf), n, func() (budget, func() interface{}, func() bool) {
				fl := wire.NewMsgFilterLoad(make([]byte, n), hf, 0, wire.BloomUpdateAll)
				d := bytesOf(0x5a, n)
				return budget{n: 2*n + 9}, flReplay(&wire.MsgFilterLoad{HashFuncs: hf, Flags: wire.BloomUpdateAll}, map[string]interface{}{"filter": fmt.Sprintf("make([]byte, %d)", n), "data": fmt.Sprintf("bytesOf(0x5a, %d)", n)}), func() bool {
					f := bloom.LoadFilter(cloneFL(fl))
					m0 := f.Matches(d)
					f.Add(d)
					m1 := f.Matches(d)
					var h chainhash.Hash
					_ = f.MatchesOutPoint(wire.NewOutPoint(&h, uint32(n)))
					if m0 || !m1 {
						panic(fmt.Sprintf("bloom: Matches before Add = %v, after Add = %v on an empty filter of %d bytes", m0, m1, n))
					}
					return true
				}
			})
		}
	}
	return out
}

// ---------------------------------------------------------------------------------------------------------------
// GCS: query sets of 2^8 / 2^16 items against honest filters on both sides of MatchAny's dispatch; filters of that
// many elements; query items of that many bytes.  Everything is built from counters (no random stream): the replay
// is the construction.
// ---------------------------------------------------------------------------------------------------------------
type gcsFixture struct {
	once  sync.Once
	n     int
	bytes []byte
	elems [][]byte
}

func (fx *gcsFixture) get() ([]byte, [][]byte) {
	fx.once.Do(func() {
		var key [16]byte
		for i := 0; i < fx.n; i++ {
			e := make([]byte, 8)
			binary.BigEndian.PutUint64(e, uint64(i))
			fx.elems = append(fx.elems, e)
		}
		f, err := gcs.BuildGCSFilter(19, defaultM, key, fx.elems)
		fatal(err)
		fx.bytes, _ = f.Bytes()
	})
	return fx.bytes, fx.elems
}

func gcsSizeProbes(thorough bool) []sizeProbe {
	var out []sizeProbe
	add := func(entry, family string, n int, build func() (budget, func() interface{}, func() bool)) {
		out = append(out, sizeProbe{Entry: entry, Family: family, N: n, build: build})
	}
	var key [16]byte
	filterNs := []int{100, 1000}
	if thorough {
		filterNs = append(filterNs, 255, 256, 257, 65536, 140000)
	}
	nonMember := func(i int) []byte {
		q := make([]byte, 9)
		q[0] = 0xff
		binary.BigEndian.PutUint64(q[1:], uint64(i))
		return q
	}
	type comp struct {
		name string
		mk   func(q int, elems [][]byte) [][]byte
	}
	comps := []comp{
		{"q non-members (0xff || counter)", func(q int, _ [][]byte) [][]byte {
			s := make([][]byte, q)
			for i := range s {
				s[i] = nonMember(i)
			}
			return s
		}},
		{"q-1 non-members and one member (the filter's last element) at the end", func(q int, el [][]byte) [][]byte {
			s := make([][]byte, q)
			for i := range s {
				s[i] = nonMember(i)
			}
			s[q-1] = el[len(el)-1]
			return s
		}},
		{"one non-member repeated q times", func(q int, _ [][]byte) [][]byte {
			s := make([][]byte, q)
			for i := range s {
				s[i] = nonMember(7)
			}
			return s
		}},
		{"q members (the filter's elements, cycled)", func(q int, el [][]byte) [][]byte {
			s := make([][]byte, q)
			for i := range s {
				s[i] = el[i%len(el)]
			}
			return s
		}},
	}
	for _, fn := range filterNs {
		fx := &gcsFixture{n: fn}
		for _, q := range sizesOf(thorough, false) {
			q := q
			if q > 5000 && fn != 1000 && fn != 140000 {
				continue
			}
			for _, c := range comps {
				c := c
				for _, op := range []string{"MatchAny", "ZipMatchAny", "HashMatchAny"} {
					op := op
					add("gcs."+op, fmt.Sprintf("honest filter of %d elements (P=19, M=784931, zero key, elements = 8-byte big-endian counters 0..N-1), query set: %s", fn, c.name), q,
						func() (budget, func() interface{}, func() bool) {
							b, el := fx.get()
							qs := c.mk(q, el)
							return budget{n: len(b) + 25*q}, func() interface{} {
									m := map[string]interface{}{"filter_elements": fn, "filter_bytes": len(b), "P": 19, "M": defaultM, "key": "16 zero bytes", "query_set_size": q, "query_set": c.name, "op": op,
										"how": "f0 := BuildGCSFilter(19, 784931, key, elements); b := f0.Bytes(); f := FromBytes(N, 19, 784931, b); f." + op + "(key, queries), twice"}
									if len(b) <= 3000 {
										m["filter_hex"] = vh.Hex(b)
									}
									return m
								}, func() bool {
									f, err := gcs.FromBytes(uint32(fn), 19, defaultM, b)
									if err != nil {
										return false
									}
									var m1, m2 bool
									switch op {
									case "MatchAny":
										m1, _ = f.MatchAny(key, qs)
										m2, _ = f.MatchAny(key, qs)
									case "ZipMatchAny":
										m1, _ = f.ZipMatchAny(key, qs)
										m2, _ = f.ZipMatchAny(key, qs)
									default:
										m1, _ = f.HashMatchAny(key, qs)
										m2, _ = f.HashMatchAny(key, qs)
									}
									if m1 != m2 {
										panic(fmt.Sprintf("gcs.%s answered %v and then %v on the same filter and query set", op, m1, m2))
									}
									return true
								}
						})
				}
			}
		}
		// items of n bytes through Match; the filter itself through FromNBytes + the serialisers
		for _, n := range sizesOf(thorough, false) {
			n := n
			add("gcs.Match", fmt.Sprintf("honest filter of %d elements, one query item of n bytes", fn), n, func() (budget, func() interface{}, func() bool) {
				b, _ := fx.get()
				item := bytesOf(0x33, n)
				return budget{n: len(b) + n}, func() interface{} {
						return map[string]interface{}{"filter_elements": fn, "P": 19, "M": defaultM, "key": "16 zero bytes", "item": fmt.Sprintf("bytesOf(0x33, %d)", n)}
					}, func() bool {
						f, err := gcs.FromBytes(uint32(fn), 19, defaultM, b)
						if err != nil {
							return false
						}
						_, _ = f.Match(key, item)
						_, _ = f.Match(key, item)
						return true
					}
			})
		}
		fn := fn
		add("gcs.FromNBytes", "honest N-prefixed filter of n elements, every serialiser, one member and one non-member through every query function", fn, func() (budget, func() interface{}, func() bool) {
			b, el := fx.get()
			nb := append(varint(uint64(fn)), b...)
			return budget{n: 4 * len(nb)}, func() interface{} {
					return map[string]interface{}{"filter_elements": fn, "P": 19, "M": defaultM, "key": "16 zero bytes", "bytes": "varint(N) || BuildGCSFilter(...).Bytes()", "filter_bytes": len(nb)}
				}, func() bool {
					f, err := gcs.FromNBytes(19, defaultM, nb)
					if err != nil {
						return false
					}
					_, _ = f.NBytes()
					_, _ = f.PBytes()
					_, _ = f.NPBytes()
					qs := [][]byte{nonMember(1), el[len(el)-1]}
					m, _ := f.Match(key, el[len(el)-1])
					z, _ := f.ZipMatchAny(key, qs)
					h, _ := f.HashMatchAny(key, qs)
					a, _ := f.MatchAny(key, qs)
					if !(m && z && h && a) {
						panic(fmt.Sprintf("gcs: the last of %d elements is not found: Match %v ZipMatchAny %v HashMatchAny %v MatchAny %v", fn, m, z, h, a))
					}
					return true
				}
		})
	}
	return out
}

// ---------------------------------------------------------------------------------------------------------------
// child side
// ---------------------------------------------------------------------------------------------------------------
func sizeChildMain() {
	runtime.LockOSThread()
	inChild = true
	seed, _ := strconv.ParseUint(os.Getenv("C08_SEED"), 10, 64)
	start, _ := strconv.Atoi(os.Getenv("C08_SKIP"))
	thorough := os.Getenv("C08_TIER") == "thorough"
	skipEntries := map[string]bool{}
	for _, e := range strings.Split(os.Getenv("C08_SKIP_ENTRIES"), ",") {
		if e != "" {
			skipEntries[e] = true
		}
	}
	cfg = vh.Config{Prop: "C08", Seed: seed, Tier: os.Getenv("C08_TIER")}
	rep = vh.NewReport(cfg)
	w := bufio.NewWriterSize(os.Stdout, 1<<16)
	emit := func(format string, a ...interface{}) {
		fmt.Fprintf(w, format, a...)
		w.Flush()
	}
	sent := map[string]int{}
	flushViolations := func() {
		for _, v := range rep.Violations {
			j, _ := json.Marshal(v)
			if n, ok := sent[v.Key]; !ok || n != len(j) {
				sent[v.Key] = len(j)
				emit("V %s\n", j)
			}
		}
	}
	probes := sizeProbes(seed, thorough)
	for i, p := range probes {
		if i < start || skipEntries[p.Entry] {
			continue
		}
		if p.direct != nil {
			j, _ := json.Marshal(map[string]interface{}{"entry": p.Entry, "family": p.Family, "n": p.N})
			emit("B %d %s\n", i, j)
			p.direct()
		} else {
			b, replay, run := p.build()
			full := func() interface{} {
				return map[string]interface{}{"entry": p.Entry, "family": p.Family, "n": p.N, "input": replay()}
			}
			j, _ := json.Marshal(full())
			emit("B %d %s\n", i, j)
			g(p.Entry, "size", fmt.Sprintf("%s|%d", p.Family, p.N), b, full, run)
		}
		flushViolations()
		emit("E %d %d\n", i, rep.Evaluations)
	}
	rep.Extra["max_alloc_seen"] = maxAllocSeen
	rep.Extra["diff_obs"] = diffObs
	j, _ := json.Marshal(rep)
	emit("R %s\n", j)
}

// childCPU reads utime + stime of a process from /proc (clock ticks of 10 ms).
func childCPU(pid int) time.Duration {
	b, err := os.ReadFile(fmt.Sprintf("/proc/%d/stat", pid))
	if err != nil {
		return 0
	}
	s := string(b)
	k := strings.LastIndexByte(s, ')')
	if k < 0 {
		return 0
	}
	f := strings.Fields(s[k+1:])
	if len(f) < 13 {
		return 0
	}
	u, _ := strconv.ParseInt(f[11], 10, 64)
	st, _ := strconv.ParseInt(f[12], 10, 64)
	return time.Duration(u+st) * 10 * time.Millisecond
}

// ---------------------------------------------------------------------------------------------------------------
// parent side
// ---------------------------------------------------------------------------------------------------------------
func runSizes() {
	exe, err := os.Executable()
	fatal(err)
	probes := sizeProbes(cfg.Seed, cfg.Thorough())
	rep.Extra["size_sweep_probes"] = len(probes)
	rep.Extra["size_sweep"] = fmt.Sprintf("size sweeps around 2^8 / 2^16 and the declared-count differential run in the re-executed harness (ulimit -v %d KiB); hang = a probe that burns more than %v of CPU or does not return within %v: the child is killed and the probe is the replay", gcsMemCapKiB, sizeCPULimit, sizeWallLimit)
	fams := map[string]bool{}
	for _, p := range probes {
		fams[p.Entry+" / "+p.Family] = true
	}
	rep.Extra["size_sweep_families"] = len(fams)
	start := 0
	skipEntries := []string{}
	for attempt := 0; attempt < 60 && start < len(probes); attempt++ {
		cmd := exec.Command("sh", "-c", fmt.Sprintf("ulimit -v %d; exec %q", gcsMemCapKiB, exe))
		cmd.Env = append(os.Environ(), sizeChildEnv+"=1", "C08_SEED="+strconv.FormatUint(cfg.Seed, 10), "C08_TIER="+cfg.Tier, "C08_SKIP="+strconv.Itoa(start),
			"C08_SKIP_ENTRIES="+strings.Join(skipEntries, ","), "GOMEMLIMIT=off")
		var stderr strings.Builder
		cmd.Stderr = &stderr
		stdout, err := cmd.StdoutPipe()
		fatal(err)
		fatal(cmd.Start())
		var mu sync.Mutex
		open, finished := -1, false
		var openSince time.Time
		var openCPU time.Duration
		hangWhy := ""
		var hangCPU, hangWall time.Duration
		go func() {
			for {
				time.Sleep(100 * time.Millisecond)
				mu.Lock()
				if finished {
					mu.Unlock()
					return
				}
				if open >= 0 {
					c, wl := childCPU(cmd.Process.Pid)-openCPU, time.Since(openSince)
					if c > sizeCPULimit || wl > sizeWallLimit {
						hangWhy = fmt.Sprintf("the probe had burnt %v of CPU time after %v without returning (limits: %v CPU, %v wall)", c, wl.Round(time.Millisecond), sizeCPULimit, sizeWallLimit)
						hangCPU, hangWall = c, wl
						finished = true
						_ = cmd.Process.Kill()
						mu.Unlock()
						return
					}
				}
				mu.Unlock()
			}
		}()
		sc := bufio.NewScanner(stdout)
		sc.Buffer(make([]byte, 1<<20), 256<<20)
		var openReplay json.RawMessage
		evals := 0
		done := false
		for sc.Scan() {
			line := sc.Text()
			if len(line) < 2 {
				continue
			}
			f := strings.SplitN(line, " ", 3)
			switch f[0] {
			case "B":
				mu.Lock()
				open, _ = strconv.Atoi(f[1])
				openSince, openCPU = time.Now(), childCPU(cmd.Process.Pid)
				openReplay = json.RawMessage(f[2])
				mu.Unlock()
			case "E":
				mu.Lock()
				if !finished {
					open = -1
				}
				mu.Unlock()
				evals, _ = strconv.Atoi(f[2])
			case "V":
				var v vh.Violation
				if json.Unmarshal([]byte(line[2:]), &v) == nil {
					rep.Violate(v.Key, v.What, v.Replay)
				}
			case "R":
				var cr vh.Report
				if err := json.Unmarshal([]byte(line[2:]), &cr); err == nil {
					done = true
					rep.Evaluations += cr.Evaluations
					rep.Nontrivial += cr.Nontrivial
					for k, v := range cr.Histogram {
						rep.Histogram[k] += v
					}
					for _, v := range cr.Violations {
						rep.Violate(v.Key, v.What, v.Replay)
					}
					if m, ok := cr.Extra["max_alloc_seen"].(map[string]interface{}); ok {
						for k, v := range m {
							if fv, ok := v.(float64); ok && uint64(fv) > maxAllocSeen[k] {
								maxAllocSeen[k] = uint64(fv)
							}
						}
					}
					if l, ok := cr.Extra["diff_obs"].([]interface{}); ok {
						diffObs = append(diffObs, l...)
					}
				}
			}
		}
		werr := cmd.Wait()
		mu.Lock()
		finished = true
		idx, why := open, hangWhy
		mu.Unlock()
		if done {
			break
		}
		rep.Evaluations += evals
		rep.Histogram["size/child-run-that-died"] += evals
		if idx < 0 || idx >= len(probes) {
			rep.Violate("C08:size-sweep:panic", "the size-sweep child process died outside a probe", map[string]interface{}{"child_exit": fmt.Sprint(werr), "child_stderr_head": head(stderr.String(), 600)})
			break
		}
		p := probes[idx]
		full := stderr.String()
		if why != "" {
			rep.Violate("C08:"+p.Entry+":time", fmt.Sprintf("%s does not return (hang or super-polynomial running time) on the family \"%s\" at size %d: %s", p.Entry, p.Family, p.N, why),
				map[string]interface{}{"probe": openReplay, "probe_index": idx, "cpu_ms": hangCPU.Milliseconds(), "wall_ms": hangWall.Milliseconds(), "note": "run in a child process with a deadline; the child was killed"})
			skipEntries = append(skipEntries, p.Entry)
			hungEntries[p.Entry] = true
		} else {
			kind, what := "panic", "the child process died (fatal error / crash) while running this probe"
			if strings.Contains(full, "out of memory") || strings.Contains(full, "cannot allocate") || strings.Contains(full, "too large") ||
				strings.Contains(full, "pthread_create failed") || strings.Contains(full, "failed to create new OS thread") || strings.Contains(full, "errno=12") {
				kind, what = "alloc", fmt.Sprintf("the probe tried to allocate beyond the child's %d KiB address-space cap", gcsMemCapKiB)
			} else if strings.Contains(full, "stack exceeds") || strings.Contains(full, "stack overflow") {
				kind, what = "panic", "unbounded recursion: the goroutine stack exceeded the runtime's limit (fatal, cannot be recovered)"
			}
			rep.Violate("C08:"+p.Entry+":"+kind, p.Entry+": "+what,
				map[string]interface{}{"probe": openReplay, "probe_index": idx, "child_exit": fmt.Sprint(werr), "child_stderr_head": head(full, 600)})
		}
		start = idx + 1
	}
	hung := []string{}
	for e := range hungEntries {
		hung = append(hung, e)
	}
	if len(hung) > 0 {
		rep.Extra["size_sweep_hung_entries"] = hung
	}
}

func head(s string, n int) string {
	if len(s) > n {
		return s[:n]
	}
	return s
}

// Command c08 checks property C08 (no parser panics, hangs or over-allocates on untrusted input) on
// the implementation: every entry point that interprets external data is driven with three input
// streams (structured inputs that pass the outer validation layer and carry degenerate inner content;
// mutations of valid samples; random bytes), each call under recover with a time budget and an
// allocation budget proportional to the input length, plus size-doubling probes for the families with
// a size parameter.  It also writes correspondence cases for the Coq models whose no-panic theorems are
// in Props/C08.v (CashAddr, Base58Check, bech32, and the jsonpb tree rewriters).
package main

import (
	"encoding/json"
	"fmt"
	"os"
	"runtime"
	"sort"
	"syscall"
	"time"

	"verif/harness/internal/vh"
)

func main() {
	if os.Getenv(gcsChildEnv) != "" {
		gcsChildMain()
		return
	}
	if os.Getenv(sizeChildEnv) != "" {
		sizeChildMain()
		return
	}
	runtime.LockOSThread() // CPU-time clock of this thread, see cpuNow
	// safety net: nothing this harness does legitimately needs more than a few hundred MB; a run-away
	// allocation in the code under test kills the harness (reported by bin/check) instead of the machine
	_ = syscall.Setrlimit(syscall.RLIMIT_AS, &syscall.Rlimit{Cur: 16 << 30, Max: 16 << 30})
	cfg = vh.ParseFlags("C08")
	rep = vh.NewReport(cfg)
	rep.Rule = "three streams per entry point: structured (valid outer layer: valid checksum / valid framing / valid JSON, degenerate inner content), mutation of valid samples, random bytes, plus fixed edge cases and size-doubling probes; " +
		"a case is non-trivial when it is structured by construction or got past the outer validation layer (accepted, or rejected by an inner check); distinct by (entry point, input)"
	cases = vh.NewCases(cfg, "Run.Run_C08", 400)
	if cfg.Replay != "" {
		// replay: every generator is a deterministic function of (seed, tier, search), which bin/check
		// restores from the replay file; re-running the streams re-evaluates the recorded input (and
		// everything else) on the current code.  A violation found by the search pass needs that pass.
		var rp struct {
			FoundBy string `json:"found_by"`
		}
		if b, err := os.ReadFile(cfg.Replay); err == nil && json.Unmarshal(b, &rp) == nil && rp.FoundBy == "search" {
			cfg.Search, cfg.Tier = true, "thorough"
		}
	}
	if cfg.Search {
		// search pass (run when an obligation / the correspondence broke or the anchored sources changed):
		// the thorough generators on a second, independent random stream; monitors only
		cfg.Seed = cfg.Seed*2654435761 + 0x5ea4c4
		rep.Seed = cfg.Seed
	}
	rng := vh.NewRNG(cfg.Seed)

	go wd.run(func(entry string, replay interface{}, d time.Duration) {
		rep.Violate("C08:"+entry+":time", fmt.Sprintf("%s did not return within %v (hang or super-polynomial running time)", entry, hardLimit),
			map[string]interface{}{"entry": entry, "input": replay, "elapsed_ms": d.Milliseconds(), "note": "reported by the watchdog; the harness stopped here"})
		finish()
		os.Exit(0)
	})

	t0 := time.Now()
	phase := func(name string, f func()) {
		t := time.Now()
		f()
		phases[name] = time.Since(t).Milliseconds()
	}
	// round 3: the size sweeps (and the declared-count differential) run first, in a child process with a deadline:
	// an entry point found to hang there is not driven into the same hang by the in-process scaling probes
	phase("size-sweeps", runSizes)
	phase("strings", func() { runStrings(rng) })
	phase("synthetic-nets+constructors", func() { runSyntheticNets(rng); runConstructors(rng) })
	phase("json", func() { runJSON(rng) })
	phase("wire", func() { runWire(rng) })
	phase("bloom-scripts", func() { runBloomScripts(rng) })
	phase("gcs", runGCS)
	phase("scaling-round3", func() { scaleStrings3(rng); scaleJSON(rng); scaleWire3(rng) })
	phases["total"] = time.Since(t0).Milliseconds()
	finish()
	fmt.Printf("c08: %d implementation executions, %d correspondence cases, %d monitor violations\n", rep.Evaluations, rep.Cases, len(rep.Violations))
}

var phases = map[string]int64{}

func finish() {
	rep.Cases = cases.Len()
	rep.Extra["duplicate_cases_dropped"] = cases.Dups
	rep.Extra["budgets"] = map[string]interface{}{
		"alloc":            "TotalAlloc delta of one call <= 64 KiB + 4096 * len(input) (+ what the wire deserialiser itself allocated on the same bytes, for NewBlock*/NewTx*)",
		"time":             fmt.Sprintf("one call <= %v + %v * len(input) of the calling thread's CPU time, and twice that + 4 ns per allocated byte on the whole process's CPU clock (getrusage: every goroutine, and the garbage collector), minimum of up to three runs", timeBase, timePerByte),
		"hang":             fmt.Sprintf("watchdog: a call running longer than %v is reported as C08:<entry>:time and the harness stops", hardLimit),
		"scaling":          fmt.Sprintf("thread CPU T(2n)/T(n) <= %.1f once T(2n) > %v, and T(2n) <= %v; process CPU (getrusage, all goroutines) Tproc(2n)/Tproc(n) <= %.1f once Tproc(2n) > %v; allocation A(2n)/A(n) <= %.1f once A(2n) > %d bytes", ratioMax, ratioFloor, scaleCap, procRatioMax, procRatioFloor, allocRatioMax, allocRatioFloor),
		"declared_counts":  fmt.Sprintf("same body, different claimed count: A(hostile count) <= max A(honest counts) + %d + k*len(body), k = %d (merkle), %d (GCS), 0 (bloom hash functions)", diffSlack, diffPerByteMerkle, diffPerByteGCS),
		"size_sweep_hang":  fmt.Sprintf("child process; a probe that burns more than %v of CPU or does not return within %v is a hang", sizeCPULimit, sizeWallLimit),
		"gcs_child_memory": fmt.Sprintf("ulimit -v %d KiB", gcsMemCapKiB),
	}
	rep.Extra["scaling_probes"] = scaleObs
	rep.Extra["declared_count_observations"] = diffObs
	rep.Extra["phase_ms"] = phases
	// dependencies are observed, not proved: record what they did beyond the budget
	var deps []interface{}
	names := make([]string, 0, len(worstDep))
	for k := range worstDep {
		names = append(names, k)
	}
	sort.Strings(names)
	for _, k := range names {
		deps = append(deps, worstDep[k])
	}
	rep.Extra["dependency_observations"] = map[string]interface{}{
		"note": "the wire deserialisers (github.com/gcash/bchd/wire) are dependencies; bchutil's wrappers are charged only for what they add on top. Listed: the worst allocation-per-input-byte seen in the dependency itself that exceeds the 64 KiB + 4096*len budget",
		"worst": deps,
	}
	top := map[string]uint64{}
	for k, v := range maxAllocSeen {
		top[k] = v
	}
	rep.Extra["max_alloc_bytes_per_entry"] = top
	_, err := cases.Flush()
	vh.Must(err)
	vh.Must(rep.Write(cfg))
}

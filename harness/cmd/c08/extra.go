package main

// Review round 2 additions.
//
//  1. DecodeAddress on SYNTHETIC network records.  The six registered networks have CashAddr / SLP
//     prefixes of (almost) equal length, so a length guard that looks at one prefix only, or that is off
//     by the difference of the two lengths, cannot misbehave on them; the theorem
//     C08_DecodeAddress_no_panic quantifies over every network record.  Here DecodeAddress is driven with
//     records whose two prefixes have very different lengths (empty, 1, 8, 30 characters; either one the
//     longer), on every string length around both guards, with the separator at every position.
//  2. The constructors that take raw bytes from outside (a serialized public key, a hash, a script, a
//     seed): every length around the accepted ones, the empty and the nil slice included.

import (
	"encoding/hex"
	"fmt"
	"strings"

	"github.com/gcash/bchd/chaincfg"
	"github.com/gcash/bchutil"
	"github.com/gcash/bchutil/hdkeychain"

	"verif/harness/internal/vh"
)

func syntheticNets() []netT {
	mk := func(name, bch, slp string) netT {
		p := chaincfg.MainNetParams // copy
		p.Name = name
		p.CashAddressPrefix = bch
		p.SlpAddressPrefix = slp
		return netT{name, &p}
	}
	long := "abcdefghijklmnopqrstuvwxyzabcd"
	return []netT{
		mk("syn-empty-empty", "", ""),
		mk("syn-empty-long", "", long),
		mk("syn-long-empty", long, ""),
		mk("syn-1-8", "a", "abcdefgh"),
		mk("syn-8-1", "abcdefgh", "a"),
		mk("syn-3-30", "bch", long),
		mk("syn-30-3", long, "slp"),
		mk("syn-same", "same", "same"),
	}
}

func callDecodeAddressOn(n netT, stream, s string) {
	g("DecodeAddress", stream, n.name+"|"+s, budget{n: len(s)},
		func() interface{} {
			return map[string]interface{}{"string": s, "hex": vh.Hex([]byte(s)), "net": n.name,
				"cash_prefix": n.p.CashAddressPrefix, "slp_prefix": n.p.SlpAddressPrefix}
		},
		func() bool {
			a, err := bchutil.DecodeAddress(s, n.p)
			if err != nil {
				return err == bchutil.ErrUnknownAddressType || strings.Contains(err.Error(), "unknown size")
			}
			_ = a.String()
			_ = a.EncodeAddress()
			_ = a.ScriptAddress()
			_ = a.IsForNet(n.p)
			return true
		})
}

func runSyntheticNets(rng *vh.RNG) {
	r := rng.Fork("synthetic-nets")
	for _, n := range syntheticNets() {
		bch, slp := n.p.CashAddressPrefix, n.p.SlpAddressPrefix
		maxLen := len(bch)
		if len(slp) > maxLen {
			maxLen = len(slp)
		}
		// every length around both guards; content: the prefixes themselves (so that EqualFold can succeed),
		// charset symbols, and a separator at the position either prefix expects
		for l := 0; l <= maxLen+4; l++ {
			for _, base := range []string{bch + ":", slp + ":", strings.ToUpper(bch) + ":", "", ":"} {
				b := []byte(base)
				for len(b) < l {
					b = append(b, cashCharset[r.Intn(32)])
				}
				callDecodeAddressOn(n, "structured", string(b[:l]))
			}
		}
		// valid CashAddr strings under each prefix (when it is a legal CashAddr prefix), prefixed and bare,
		// for both hash sizes and the empty payload
		for _, pf := range []string{bch, slp} {
			if pf == "" {
				continue
			}
			for _, body := range [][]byte{nil, append([]byte{0x00}, r.Bytes(20)...), append([]byte{0x08}, r.Bytes(20)...), append([]byte{0x0b}, r.Bytes(32)...), append([]byte{0x00}, r.Bytes(19)...)} {
				s := cashString(pf, to5(body))
				callDecodeAddressOn(n, "structured", s)
				callDecodeAddressOn(n, "structured", s[len(pf)+1:])
				callDecodeAddressOn(n, "structured", strings.ToUpper(s))
			}
		}
		// legacy and hex forms still reach their branches under a synthetic record
		for _, s := range []string{"1BpEi6DfDAUFd7GtittLSdBeYJvcoaVggu", "3CMNFxN1oHBc4R1EpboAL5yzHGgE611Xou",
			"0279be667ef9dcbbac55a06295ce870b07029bfcdb2dce28d959f2815b16f81798", strings.Repeat("0", 66), strings.Repeat("z", 130)} {
			callDecodeAddressOn(n, "structured", s)
		}
	}
	// the registered networks: every length 0 .. len(prefix)+3, prefix material and separators
	for _, n := range nets {
		bch, slp := n.p.CashAddressPrefix, n.p.SlpAddressPrefix
		for l := 0; l <= len(slp)+3; l++ {
			for _, base := range []string{bch + ":", slp + ":", strings.ToUpper(slp) + ":", ":"} {
				b := []byte(base)
				for len(b) < l {
					b = append(b, cashCharset[r.Intn(32)])
				}
				callDecodeAddressOn(n, "edge", string(b[:l]))
			}
		}
	}
}

func runConstructors(rng *vh.RNG) {
	r := rng.Fork("constructors")
	net := &chaincfg.MainNetParams
	gx := "79be667ef9dcbbac55a06295ce870b07029bfcdb2dce28d959f2815b16f81798"
	gy := "483ada7726a3c4655da4fbfc0e1108a8fd17b448a68554199c47d08ffb10d4b8"
	gxb, gyb := unhex(gx), unhex(gy)
	// serialized public keys: nil, empty, every length 1..66 with every interesting format byte
	var pks [][]byte
	pks = append(pks, nil, []byte{})
	for _, fb := range []byte{0, 1, 2, 3, 4, 5, 6, 7, 8, 0x80, 0xff} {
		pks = append(pks, []byte{fb})
		pks = append(pks, append([]byte{fb}, gxb...), append(append([]byte{fb}, gxb...), gyb...))
		for _, l := range []int{2, 31, 32, 34, 64, 66} {
			pks = append(pks, append([]byte{fb}, r.Bytes(l-1)...))
		}
	}
	for _, pk := range pks {
		pk := pk
		g("NewAddressPubKey", "structured", fmt.Sprintf("%v|%x", pk == nil, pk), budget{n: len(pk)}, hexIn(pk), func() bool {
			a, err := bchutil.NewAddressPubKey(pk, net)
			if err != nil {
				return false
			}
			_ = a.String()
			_ = a.EncodeAddress()
			_ = a.ScriptAddress()
			_ = a.AddressPubKeyHash().EncodeAddress()
			for _, f := range []bchutil.PubKeyFormat{bchutil.PKFUncompressed, bchutil.PKFCompressed, bchutil.PKFHybrid, 7} {
				a.SetFormat(f)
				_ = a.String()
				_ = a.EncodeAddress()
			}
			return true
		})
	}
	// hashes and scripts of every length around 20 and 32
	for _, l := range []int{-1, 0, 1, 19, 20, 21, 31, 32, 33, 64} {
		var h []byte
		if l >= 0 {
			h = r.Bytes(l)
		}
		h0 := h
		g("NewAddressFromHash", "structured", fmt.Sprintf("%d|%x", l, h0), budget{n: len(h0)}, hexIn(h0), func() bool {
			ok := false
			use := func(a bchutil.Address, err error) {
				if err != nil {
					return
				}
				ok = true
				s := a.EncodeAddress()
				_ = a.String()
				_ = a.ScriptAddress()
				_ = a.IsForNet(net)
				if s != "" {
					_, _ = bchutil.DecodeAddress(s, net)
				}
				if c, err := bchutil.ConvertCashToSlpAddress(a, net); err == nil {
					_ = c.EncodeAddress()
				}
				if c, err := bchutil.ConvertSlpToCashAddress(a, net); err == nil {
					_ = c.EncodeAddress()
				}
			}
			// a typed nil pointer must not reach use(): test err first
			if a, err := bchutil.NewAddressPubKeyHash(h0, net); err == nil {
				use(a, nil)
			}
			if a, err := bchutil.NewSlpAddressPubKeyHash(h0, net); err == nil {
				use(a, nil)
			}
			if a, err := bchutil.NewAddressScriptHashFromHash(h0, net); err == nil {
				use(a, nil)
			}
			if a, err := bchutil.NewSlpAddressScriptHashFromHash(h0, net); err == nil {
				use(a, nil)
			}
			if a, err := bchutil.NewAddressScriptHash32FromHash(h0, net); err == nil {
				use(a, nil)
			}
			if a, err := bchutil.NewSlpAddressScriptHash32FromHash(h0, net); err == nil {
				use(a, nil)
			}
			if a, err := bchutil.NewLegacyAddressPubKeyHash(h0, net); err == nil {
				use(a, nil)
			}
			if a, err := bchutil.NewLegacyAddressScriptHashFromHash(h0, net); err == nil {
				use(a, nil)
			}
			if a, err := bchutil.NewAddressScriptHash(h0, net); err == nil {
				use(a, nil)
			}
			if a, err := bchutil.NewAddressScriptHash32(h0, net); err == nil {
				use(a, nil)
			}
			if a, err := bchutil.NewLegacyAddressScriptHash(h0, net); err == nil {
				use(a, nil)
			}
			return ok
		})
	}
	// seeds of every length around the accepted 16..64
	for _, l := range []int{-1, 0, 1, 15, 16, 17, 32, 63, 64, 65, 128} {
		var seed []byte
		if l >= 0 {
			seed = r.Bytes(l)
		}
		s0 := seed
		g("hdkeychain.NewMaster", "structured", fmt.Sprintf("%d|%x", l, s0), budget{n: len(s0)}, hexIn(s0), func() bool {
			k, err := hdkeychain.NewMaster(s0, net)
			if err != nil {
				return false
			}
			_ = k.String()
			if c, err := k.Child(hdkeychain.HardenedKeyStart); err == nil {
				_ = c.String()
			}
			if n, err := k.Neuter(); err == nil {
				_ = n.String()
				_, _ = n.Child(1)
			}
			return true
		})
	}
}

func unhex(s string) []byte {
	b, err := hex.DecodeString(s)
	fatal(err)
	return b
}

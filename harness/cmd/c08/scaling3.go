package main

// Round 3 (red team): a size-doubling family for EVERY size parameter of every input language, each under the three
// ratio rules of scaleProbe (thread CPU, process CPU, allocated bytes).  The absolute budgets (64 KiB + 4096 bytes and
// 400 ms + 40 us per input byte) are so generous that a cost quadratic in ONE string / ONE array / ONE prefix only
// exceeds them beyond several thousand elements; the ratio rules see the growth itself.

import (
	"bytes"
	"fmt"
	"strconv"
	"strings"

	"github.com/gcash/bchd/chaincfg/chainhash"
	"github.com/gcash/bchd/wire"
	"github.com/gcash/bchutil"
	"github.com/gcash/bchutil/base58"
	"github.com/gcash/bchutil/bech32"
	"github.com/gcash/bchutil/bloom"
	bjson "github.com/gcash/bchutil/jsonpb"
	pb "github.com/gcash/bchutil/jsonpb/testpb"

	"verif/harness/internal/vh"
)

func scaleJSON(rng *vh.RNG) {
	docFam := func(family string, n int, mk func(n int) string) {
		scaleProbe("jsonpb.Unmarshal", n, 3, func(n int) (func(), func() interface{}) {
			doc := []byte(mk(n))
			return func() {
					_ = bjson.Unmarshal(bytes.NewReader(doc), &pb.Transaction{})
					_ = bjson.Unmarshal(bytes.NewReader(doc), &pb.GetMerkleProofResponse{})
				}, func() interface{} {
					return map[string]interface{}{"family": family, "size_parameter": n, "document_bytes": len(doc), "head": head(string(doc), 160), "messages": "Transaction, GetMerkleProofResponse"}
				}
		})
	}
	treeFam := func(family string, n int, mk func(n int) interface{}) {
		for _, which := range []string{"convertHex", "convertBase64"} {
			which := which
			scaleProbe("jsonpb."+which, n, 3, func(n int) (func(), func() interface{}) {
				t := mk(n)
				return func() {
						if which == "convertHex" {
							bjson.VerifConvertHex(t)
						} else {
							bjson.VerifConvertBase64(t)
						}
					}, func() interface{} {
						return map[string]interface{}{"family": family, "size_parameter": n}
					}
			})
		}
	}
	q := func(s string) string { return `"` + s + `"` }
	big := cfg.Scale(1, 2)
	docFam(`one hex string of n characters: {"hash":"ab","inputs":[{"signatureScript":S}]}, S = strings.Repeat("ab", n/2)`, 60000*big, func(n int) string {
		return `{"hash":"ab","inputs":[{"signatureScript":` + q(strings.Repeat("ab", n/2)) + `}]}`
	})
	docFam(`one upper-case hex string with a 0x prefix and blanks: {"inputs":[{"signatureScript":S}]}, S = "0x" + strings.Repeat("AB ", n/3)`, 60000*big, func(n int) string {
		return `{"inputs":[{"signatureScript":` + q("0x"+strings.Repeat("AB ", n/3)) + `}]}`
	})
	docFam(`one non-hex string of n characters under "address" and as a key`, 60000*big, func(n int) string {
		s := q(strings.Repeat("z", n))
		return `{"outputs":[{"address":` + s + `}],` + s + `:1}`
	})
	docFam(`array of n short hex strings: {"hashes":[n x "ab"]}`, 20000*big, func(n int) string {
		return `{"hashes":[` + strings.TrimSuffix(strings.Repeat(`"ab",`, n), ",") + `]}`
	})
	docFam(`array of n objects: {"inputs":[n x {"signatureScript":"ab"}]}`, 10000*big, func(n int) string {
		return `{"inputs":[` + strings.TrimSuffix(strings.Repeat(`{"signatureScript":"ab"},`, n), ",") + `]}`
	})
	docFam(`object with n distinct keys`, 10000*big, func(n int) string {
		var sb strings.Builder
		sb.WriteString(`{"hash":"ab"`)
		for i := 0; i < n; i++ {
			sb.WriteString(`,"k` + strconv.Itoa(i) + `":"ab"`)
		}
		sb.WriteString("}")
		return sb.String()
	})
	for _, k := range nestKinds() {
		k := k
		if !cfg.Thorough() && !(k.name == "string-led arrays" || k.name == "objects" || k.name == "object / string-led array alternation") {
			continue
		}
		docFam("nesting depth n: "+k.name, 2000, func(n int) string { return `{"hashes":` + k.doc(n) + `}` })
		treeFam("nesting depth n: "+k.name, 4000, func(n int) interface{} { return k.tree(n) })
	}
	treeFam(`one string of n hex characters as a map value and inside a string array`, 60000*big, func(n int) interface{} {
		s := strings.Repeat("ab", n/2)
		return map[string]interface{}{"a": s, "b": []interface{}{"ab", s}}
	})
	treeFam(`string array of n elements`, 30000*big, func(n int) interface{} {
		a := make([]interface{}, n)
		for i := range a {
			a[i] = "abcd"
		}
		return map[string]interface{}{"a": a}
	})
	treeFam(`object of n keys`, 20000*big, func(n int) interface{} {
		m := make(map[string]interface{}, n)
		for i := 0; i < n; i++ {
			m["k"+strconv.Itoa(i)] = "abcd"
		}
		return m
	})
}

func scaleStrings3(rng *vh.RNG) {
	strFam := func(entry, family string, n, reps int, mk func(n int) string, call func(s string)) {
		amax := allocRatioMax
		if strings.HasPrefix(entry, "base58.") {
			amax = b58AllocRatioMax
		}
		scaleProbeOpt(entry, n, reps, amax, func(n int) (func(), func() interface{}) {
			s := mk(n)
			return func() { call(s) }, func() interface{} {
				return map[string]interface{}{"family": family, "size_parameter": n, "length": len(s), "head": head(s, 60), "tail": s[len(s)-min(len(s), 60):]}
			}
		})
	}
	strFam("base58.Decode", `strings.Repeat("1", n) + "2"`, cfg.Scale(8000, 16000), 3, func(n int) string { return strings.Repeat("1", n) + "2" }, func(s string) { base58.Decode(s) })
	strFam("base58.CheckDecode", `b58check(append(make([]byte, n), 1))`, cfg.Scale(8000, 16000), 3, func(n int) string { return b58check(append(make([]byte, n), 1)) }, func(s string) { base58.CheckDecode(s) })
	strFam("DecodeCashAddress", `valid checksum under a prefix of n letters: cashString(strings.Repeat("a", n), make([]byte, 34))`, 20000, 3,
		func(n int) string { return cashString(strings.Repeat("a", n), make([]byte, 34)) }, func(s string) { bchutil.DecodeCashAddress(s) })
	strFam("DecodeCashAddress", `prefix of n letters, no valid checksum: strings.Repeat("a", n) + ":qqqqqqqqqq"`, 20000, 3,
		func(n int) string { return strings.Repeat("a", n) + ":qqqqqqqqqq" }, func(s string) { bchutil.DecodeCashAddress(s) })
	strFam("bech32.Decode", `bech32.Encode("a", make([]byte, n))`, 40000, 3, func(n int) string { s, _ := bech32.Encode("a", make([]byte, n)); return s }, func(s string) { bech32.Decode(s) })
	strFam("bech32.Decode", `bech32.Encode(strings.Repeat("a", n), []byte{0, 1})`, 40000, 3, func(n int) string { s, _ := bech32.Encode(strings.Repeat("a", n), []byte{0, 1}); return s }, func(s string) { bech32.Decode(s) })
	scaleProbe("bech32.Encode", 40000, 3, func(n int) (func(), func() interface{}) {
		d := bytesOf(31, n)
		return func() { bech32.Encode("a", d) }, func() interface{} {
			return map[string]interface{}{"family": "n data symbols of value 31", "size_parameter": n}
		}
	})
	scaleProbe("bech32.ConvertBits", 100000, 3, func(n int) (func(), func() interface{}) {
		d := bytesOf(0xff, n)
		return func() { bech32.ConvertBits(d, 8, 5, true) }, func() interface{} {
			return map[string]interface{}{"family": "n bytes 0xff, 8 -> 5 bits, padded", "size_parameter": n}
		}
	})
}

func scaleWire3(rng *vh.RNG) {
	r := rng.Fork("scale-wire3")
	p2pkh := append(append([]byte{0x76, 0xa9, 0x14}, r.Bytes(20)...), 0x88, 0xac)
	mkTx := func(nin, nout int, outScript []byte) []byte {
		tx := wire.NewMsgTx(1)
		for i := 0; i < nin; i++ {
			in := wire.NewTxIn(&wire.OutPoint{Index: uint32(i)}, nil)
			in.PreviousOutPoint.Hash[0] = 0xaa
			tx.AddTxIn(in)
		}
		for i := 0; i < nout; i++ {
			tx.AddTxOut(wire.NewTxOut(int64(i), outScript, wire.TokenData{}))
		}
		return serTx(tx)
	}
	for _, f := range []struct {
		name string
		mk   func(n int) []byte
	}{
		{"transaction with n inputs", func(n int) []byte { return mkTx(n, 1, p2pkh) }},
		{"transaction with n P2PKH outputs", func(n int) []byte { return mkTx(1, n, p2pkh) }},
		{"one output whose script is n one-byte pushes", func(n int) []byte {
			s := make([]byte, 0, 2*n)
			for i := 0; i < n; i++ {
				s = append(s, 1, byte(i))
			}
			return mkTx(1, 1, s)
		}},
	} {
		f := f
		scaleProbe("NewTxFromBytes", 4000, 3, func(n int) (func(), func() interface{}) {
			raw := f.mk(n)
			return func() {
					if t, err := bchutil.NewTxFromBytes(raw); err == nil {
						_ = t.Hash()
					}
				}, func() interface{} {
					return map[string]interface{}{"family": f.name, "size_parameter": n, "tx_bytes": len(raw)}
				}
		})
		scaleProbe("bloom.MatchTxAndUpdate", 4000, 3, func(n int) (func(), func() interface{}) {
			raw := f.mk(n)
			tx, err := bchutil.NewTxFromBytes(raw)
			fatal(err)
			return func() {
					fl := bloom.LoadFilter(fullFilter(8))
					fl.MatchTxAndUpdate(tx)
					fl.MatchTxAndUpdate(tx)
				}, func() interface{} {
					return map[string]interface{}{"family": f.name + "; filter = eight 0xff bytes, 1 hash function, BloomUpdateAll", "size_parameter": n, "tx_bytes": len(raw)}
				}
		})
	}
	scaleProbe("NewBlockFromBytes", 2000, 3, func(n int) (func(), func() interface{}) {
		blk := wire.NewMsgBlock(wire.NewBlockHeader(1, &chainhash.Hash{}, &chainhash.Hash{}, 0, 0))
		for i := 0; i < n; i++ {
			tx := wire.NewMsgTx(1)
			tx.AddTxIn(wire.NewTxIn(&wire.OutPoint{Index: uint32(i)}, nil))
			tx.AddTxOut(wire.NewTxOut(1, []byte{0x51}, wire.TokenData{}))
			blk.AddTransaction(tx)
		}
		raw := serBlock(blk)
		return func() {
				if k, err := bchutil.NewBlockFromBytes(raw); err == nil {
					blockAccessors(k)
				}
			}, func() interface{} {
				return map[string]interface{}{"family": "block of n minimal transactions, every accessor", "size_parameter": n, "block_bytes": len(raw)}
			}
	})
	_ = fmt.Sprint
}

func min(a, b int) int {
	if a < b {
		return a
	}
	return b
}

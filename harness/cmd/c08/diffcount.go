package main

// Round 3 (red team): DIFFERENTIAL monitor for declared counts.
//
// "Allocates memory proportional to the input rather than to counts claimed inside it" is checked without any budget:
// the SAME body bytes are presented with different claimed counts, and what the call allocates must not depend on
// the claim beyond what the body itself can explain.  Precisely: let cap(body) be the largest count the body could
// possibly describe (bits of the body); for every claimed count c > cap(body)
//
//	A(c) <= max { A(h) : h honest, i.e. h <= cap(body) or h the smallest count tried } + diffSlack + diffPerByte*len(body)
//
// (on an empty or tiny body the right-hand side is a couple of hundred bytes, so a reservation of min(count, 8192)
// slots - 98 KB - shows at once; the absolute budget of 64 KiB + 4096*len let it pass).  Subjects: the Transactions
// field of a merkle-block message (NewMerkleBlockFromMsg + ExtractMatches + accessors), N of a GCS filter (FromBytes,
// FromNBytes with the count as prefix, then every query function), the hash-function count of a filter load
// (LoadFilter, Matches, Add, MatchTxAndUpdate).  Runs in the memory-capped child (counts up to 2^32-1).

import (
	"fmt"
	"runtime"

	"github.com/gcash/bchd/chaincfg/chainhash"
	"github.com/gcash/bchd/wire"
	"github.com/gcash/bchutil"
	"github.com/gcash/bchutil/bloom"
	"github.com/gcash/bchutil/gcs"
	"github.com/gcash/bchutil/merkleblock"

	"verif/harness/internal/vh"
)

const (
	diffSlack = 2 << 10
	// slack per body byte: what a body byte can legitimately cost once the claimed count exceeds what the body holds.
	// merkle: a flag byte steers at most eight nodes (observed < 3 bytes per body byte); GCS with P = 0: a body byte
	// holds up to eight values, each of which becomes an entry of HashMatchAny's table (observed 410 bytes per byte);
	// bloom: nothing
	diffPerByte       = 64
	diffPerByteGCS    = 512
	diffPerByteMerkle = 64
)

var diffObs []interface{}

func allocOf(f func()) (uint64, bool, string) {
	best := ^uint64(0)
	for i := 0; i < 3; i++ {
		var m0, m1 runtime.MemStats
		runtime.ReadMemStats(&m0)
		p, msg := vh.Catch(f)
		runtime.ReadMemStats(&m1)
		if p {
			return 0, true, msg
		}
		if a := m1.TotalAlloc - m0.TotalAlloc; a < best {
			best = a
		}
	}
	return best, false, ""
}

// diffCount evaluates one body under every claimed count (ascending) and reports the first hostile count whose
// allocation exceeds the honest maximum by more than the slack.
func diffCount(entry, subject string, bodyLen int, perByte uint64, capacity uint64, counts []uint64, call func(c uint64), describe func(c uint64) interface{}) {
	var honestMax uint64
	var honestAt uint64
	type obs struct {
		c, a uint64
	}
	var seen []obs
	for i, c := range counts {
		a, p, msg := allocOf(func() { call(c) })
		rep.Count(entry+"/declared-count", fmt.Sprintf("%s|%s|%d|%d", entry, subject, bodyLen, c), true)
		if p {
			rep.Violate("C08:"+entry+":panic", entry+" panicked in the declared-count differential: "+msg, map[string]interface{}{"entry": entry, "subject": subject, "claimed_count": c, "input": describe(c), "panic": msg})
			return
		}
		seen = append(seen, obs{c, a})
		if i == 0 || c <= capacity {
			if a > honestMax {
				honestMax, honestAt = a, c
			}
			continue
		}
		limit := honestMax + diffSlack + perByte*uint64(bodyLen)
		if a > limit {
			rep.Violate("C08:"+entry+":alloc", fmt.Sprintf("%s allocates according to the CLAIMED %s, not to the input: same %d body bytes, claimed %d -> %d bytes allocated, claimed %d -> %d bytes (limit %d = honest maximum + %d + %d per body byte)", entry, subject, bodyLen, honestAt, honestMax, c, a, limit, diffSlack, perByte),
				map[string]interface{}{"entry": entry, "monitor": "declared-count differential (same body, different claimed count)", "subject": subject, "body_len": bodyLen, "body_capacity": capacity,
					"honest":  map[string]interface{}{"claimed_count": honestAt, "allocated_bytes": honestMax, "input": describe(honestAt)},
					"hostile": map[string]interface{}{"claimed_count": c, "allocated_bytes": a, "input": describe(c)}, "limit_bytes": limit})
			break
		}
	}
	if len(diffObs) < 40 {
		l := []interface{}{}
		for _, o := range seen {
			l = append(l, []uint64{o.c, o.a})
		}
		diffObs = append(diffObs, map[string]interface{}{"entry": entry, "subject": subject, "body_len": bodyLen, "count_alloc": l})
	}
}

func diffCountProbes(thorough bool) []sizeProbe {
	var out []sizeProbe
	addD := func(entry, family string, n int, f func()) {
		out = append(out, sizeProbe{Entry: entry, Family: family, N: n, direct: f})
	}
	counts := []uint64{1, 2, 3, 7, 8, 255, 256, 1 << 10, 8191, 8192, 8193, 1 << 16, 100000, 1 << 20, uint64(merkleblock.MaxTxnCount), uint64(merkleblock.MaxTxnCount) + 1, 1 << 22, 1 << 26, 1 << 31, 0xfffffffe, 0xffffffff}

	// ---- merkle block: Transactions ----
	type mbody struct {
		nh   int
		flag []byte
	}
	mbodies := []mbody{{0, nil}, {0, []byte{0}}, {1, []byte{1}}, {1, []byte{0xff}}, {2, []byte{7}}, {3, []byte{0xff, 0xff}}, {8, bytesOf(0xff, 4)}, {40, bytesOf(0x55, 12)}, {300, bytesOf(0xff, 80)}}
	for bi, mb := range mbodies {
		mb := mb
		addD("merkleblock.ExtractMatches", fmt.Sprintf("declared-count differential: %d hashes, flags %x", mb.nh, mb.flag), bi, func() {
			var hs []*chainhash.Hash
			for i := 0; i < mb.nh; i++ {
				var h chainhash.Hash
				h[0], h[1] = byte(i), byte(i>>8)
				hs = append(hs, &h)
			}
			body := 32*mb.nh + len(mb.flag)
			diffCount("merkleblock.ExtractMatches", "transaction count", body, diffPerByteMerkle, uint64(8*len(mb.flag)), counts,
				func(c uint64) {
					msg := wire.MsgMerkleBlock{Transactions: uint32(c), Hashes: hs, Flags: mb.flag}
					p := merkleblock.NewMerkleBlockFromMsg(msg)
					_ = p.ExtractMatches()
					_ = p.GetMatches()
					_ = p.GetItems()
					_ = p.ExtractMatches()
				},
				func(c uint64) interface{} {
					return map[string]interface{}{"transactions": uint32(c), "num_hashes": mb.nh, "hashes": "hash i = bytes (i, i>>8, 0, ..., 0)", "flags_hex": vh.Hex(mb.flag),
						"how": "merkleblock.NewMerkleBlockFromMsg(wire.MsgMerkleBlock{Transactions, Hashes, Flags}); ExtractMatches; GetMatches; GetItems; ExtractMatches"}
				})
		})
	}

	// ---- GCS: N (FromBytes argument / FromNBytes prefix) ----
	var key [16]byte
	var elems [][]byte
	for i := 0; i < 40; i++ {
		elems = append(elems, []byte{byte(i), 1, 2, 3})
	}
	honest, _ := gcs.BuildGCSFilter(19, defaultM, key, elems)
	hb, _ := honest.Bytes()
	gbodies := [][]byte{nil, {0}, {0xff}, {0xff, 0xff, 0xff, 0xff, 0xff, 0xff, 0xff}, bytesOf(0, 7), bytesOf(0xaa, 64), hb}
	queries := [][]byte{{1}, {2, 3}, elems[5]}
	for bi, gbody := range gbodies {
		gbody := gbody
		for _, P := range []uint8{19, 0, 1, 32} {
			P := P
			for _, op := range []string{"FromBytes", "Match", "MatchAny", "ZipMatchAny", "HashMatchAny", "FromNBytes+HashMatchAny"} {
				op := op
				if !thorough && P != 19 && op != "HashMatchAny" && op != "FromBytes" {
					continue
				}
				entry := "gcs." + op
				if op == "FromNBytes+HashMatchAny" {
					entry = "gcs.FromNBytes"
				}
				addD(entry, fmt.Sprintf("declared-count differential: body %x, P=%d", head2(gbody, 16), P), bi, func() {
					diffCount(entry, "element count N", len(gbody), diffPerByteGCS, uint64(8*len(gbody)), counts,
						func(c uint64) {
							var f *gcs.Filter
							var err error
							if op == "FromNBytes+HashMatchAny" {
								f, err = gcs.FromNBytes(P, defaultM, append(varint(c), gbody...))
							} else {
								f, err = gcs.FromBytes(uint32(c), P, defaultM, gbody)
							}
							if err != nil || f == nil {
								return
							}
							switch op {
							case "FromBytes":
								_, _ = f.NBytes()
								_ = f.N()
							case "Match":
								_, _ = f.Match(key, queries[0])
								_, _ = f.Match(key, queries[0])
							case "MatchAny":
								_, _ = f.MatchAny(key, queries)
								_, _ = f.MatchAny(key, queries)
							case "ZipMatchAny":
								_, _ = f.ZipMatchAny(key, queries)
								_, _ = f.ZipMatchAny(key, queries)
							default:
								_, _ = f.HashMatchAny(key, queries)
								_, _ = f.HashMatchAny(key, queries)
							}
						},
						func(c uint64) interface{} {
							return map[string]interface{}{"N": uint32(c), "P": P, "M": defaultM, "bytes_hex": vh.Hex(gbody), "key": "16 zero bytes", "queries_hex": []string{"01", "0203", vh.Hex(elems[5])}, "op": op,
								"how": "FromBytes(N, P, M, bytes) (or FromNBytes(P, M, varint(N) || bytes)), then the query function twice"}
						})
				})
			}
		}
	}

	// ---- bloom: hash-function count of a filter load (within the wire limit of 50) ----
	var prev chainhash.Hash
	tx := wire.NewMsgTx(1)
	tx.AddTxIn(wire.NewTxIn(wire.NewOutPoint(&prev, 0), []byte{0x01, 0x02}))
	tx.AddTxOut(wire.NewTxOut(1, []byte{0x76, 0xa9, 0x14, 1, 2, 3, 4, 5, 6, 7, 8, 9, 10, 11, 12, 13, 14, 15, 16, 17, 18, 19, 20, 0x88, 0xac}, wire.TokenData{}))
	btx := bchutil.NewTx(tx)
	for bi, fb := range [][]byte{nil, {0}, {0xff}, bytesOf(0xff, 8), bytesOf(0, 64), bytesOf(0x5a, 1024)} {
		fb := fb
		for _, op := range []string{"Matches", "Add", "MatchTxAndUpdate"} {
			op := op
			addD("bloom."+op, fmt.Sprintf("declared-count differential: filter of %d bytes", len(fb)), bi, func() {
				hcounts := []uint64{1, 2, 3, 10, 49, 50}
				d := []byte{1, 2, 3, 4}
				diffCount("bloom."+op, "hash-function count", len(fb), 0, 1, hcounts,
					func(c uint64) {
						f := bloom.LoadFilter(wire.NewMsgFilterLoad(append([]byte(nil), fb...), uint32(c), 5, wire.BloomUpdateAll))
						switch op {
						case "Matches":
							_ = f.Matches(d)
						case "Add":
							f.Add(d)
						default:
							_ = f.MatchTxAndUpdate(btx)
						}
					},
					func(c uint64) interface{} {
						return map[string]interface{}{"filter_hex": vh.Hex(head2(fb, 64)), "filter_len": len(fb), "hash_funcs": c, "tweak": 5, "flags": 1, "op": op, "data": "01020304 / a one-input one-P2PKH-output transaction"}
					})
			})
		}
	}
	return out
}

func head2(b []byte, n int) []byte {
	if len(b) > n {
		return b[:n]
	}
	return b
}

package main

// Wire-shaped entry points: NewBlockFromBytes / NewBlockFromReader / NewTxFromBytes (+ accessors),
// bloom.LoadFilter (+ Matches / MatchesOutPoint / Add / MatchTxAndUpdate), bloom.NewMerkleBlock,
// merkleblock.NewMerkleBlockWith{Filter,TxnSet}, merkleblock.NewMerkleBlockFromMsg + ExtractMatches.

import (
	"bytes"
	"strings"
	"fmt"
	"math"
	"runtime"
	"time"

	"github.com/gcash/bchd/chaincfg/chainhash"
	"github.com/gcash/bchd/wire"
	"github.com/gcash/bchutil"
	"github.com/gcash/bchutil/bloom"
	"github.com/gcash/bchutil/merkleblock"

	"verif/harness/internal/vh"
)

// ---------- construction of transactions and blocks ----------
func randScript(r *vh.RNG) []byte {
	switch r.Intn(12) {
	case 0:
		return nil
	case 1: // P2PKH
		return append(append([]byte{0x76, 0xa9, 0x14}, r.Bytes(20)...), 0x88, 0xac)
	case 2: // P2PK
		return append(append([]byte{0x21, 0x02}, r.Bytes(32)...), 0xac)
	case 3: // OP_RETURN data
		d := r.Bytes(r.Intn(40))
		return append([]byte{0x6a, byte(len(d))}, d...)
	case 4: // truncated direct push
		return append([]byte{0x20}, r.Bytes(r.Intn(20))...)
	case 5: // OP_PUSHDATA1 without a length byte / with too little data
		return vh.Pick(r, [][]byte{{0x4c}, {0x4c, 0xff, 1, 2}, {0x4d}, {0x4d, 0xff}, {0x4d, 0xff, 0xff, 1}, {0x4e}, {0x4e, 0xff, 0xff, 0xff}, {0x4e, 0xff, 0xff, 0xff, 0xff}, {0x4e, 0xff, 0xff, 0xff, 0x7f, 0}})
	case 6: // bare multisig 1-of-2
		return append(append(append([]byte{0x51, 0x21, 0x02}, r.Bytes(32)...), append([]byte{0x21, 0x03}, r.Bytes(32)...)...), 0x52, 0xae)
	case 7: // empty pushes
		return []byte{0x00, 0x00, 0x4c, 0x00, 0x4d, 0x00, 0x00}
	case 8: // P2SH
		return append(append([]byte{0xa9, 0x14}, r.Bytes(20)...), 0x87)
	case 9: // many small pushes
		var s []byte
		for i := 0; i < 1+r.Intn(30); i++ {
			s = append(s, 0x01, r.Byte())
		}
		return s
	default:
		return r.Bytes(r.Intn(60))
	}
}

func randTx(r *vh.RNG, nin, nout int, prev []chainhash.Hash) *wire.MsgTx {
	tx := wire.NewMsgTx(int32(vh.Pick(r, []int{1, 2, 0, -1, math.MaxInt32})))
	for i := 0; i < nin; i++ {
		var h chainhash.Hash
		if len(prev) > 0 && r.Intn(3) != 0 {
			h = prev[r.Intn(len(prev))]
		} else {
			copy(h[:], r.Bytes(32))
		}
		in := wire.NewTxIn(wire.NewOutPoint(&h, vh.Pick(r, []uint32{0, 1, 2, 0xffffffff, r.U32()})), randScript(r))
		in.Sequence = r.U32()
		tx.AddTxIn(in)
	}
	for i := 0; i < nout; i++ {
		tx.AddTxOut(wire.NewTxOut(int64(r.U64()>>uint(r.Intn(64))), randScript(r), wire.TokenData{}))
	}
	tx.LockTime = r.U32()
	return tx
}

func serTx(tx *wire.MsgTx) []byte {
	var buf bytes.Buffer
	fatal(tx.Serialize(&buf))
	return buf.Bytes()
}

func randBlock(r *vh.RNG, ntx int) *wire.MsgBlock {
	var ph, mr chainhash.Hash
	copy(ph[:], r.Bytes(32))
	copy(mr[:], r.Bytes(32))
	hdr := wire.NewBlockHeader(int32(r.U32()), &ph, &mr, r.U32(), r.U32())
	blk := wire.NewMsgBlock(hdr)
	var prev []chainhash.Hash
	for i := 0; i < ntx; i++ {
		tx := randTx(r, vh.Pick(r, []int{0, 1, 1, 2, 5}), vh.Pick(r, []int{0, 1, 2, 2, 6}), prev)
		blk.AddTransaction(tx)
		prev = append(prev, tx.TxHash())
	}
	if ntx > 2 && r.Bool() { // any order: reverse so that spenders come first
		for i, j := 0, ntx-1; i < j; i, j = i+1, j-1 {
			blk.Transactions[i], blk.Transactions[j] = blk.Transactions[j], blk.Transactions[i]
		}
	}
	return blk
}

func serBlock(b *wire.MsgBlock) []byte {
	var buf bytes.Buffer
	fatal(b.Serialize(&buf))
	return buf.Bytes()
}

func varint(v uint64) []byte {
	var buf bytes.Buffer
	wire.WriteVarInt(&buf, 0, v)
	return buf.Bytes()
}

// ---------- dependency baseline: what the wire deserialiser itself allocates / takes on the same bytes ----------
type depObs struct {
	Entry string `json:"dependency"`
	Len   int    `json:"input_len"`
	Alloc uint64 `json:"allocated_bytes"`
	Hex   string `json:"input_hex"`
}

var worstDep = map[string]depObs{}

func wireBaseline(kind string, b []byte) (uint64, time.Duration) {
	var m0, m1 runtime.MemStats
	runtime.ReadMemStats(&m0)
	t0 := cpuNow()
	vh.Catch(func() {
		if kind == "tx" {
			var m wire.MsgTx
			_ = m.Deserialize(bytes.NewReader(b))
		} else {
			var m wire.MsgBlock
			_ = m.Deserialize(bytes.NewReader(b))
		}
	})
	dt := cpuNow() - t0
	runtime.ReadMemStats(&m1)
	a := m1.TotalAlloc - m0.TotalAlloc
	name := "wire.MsgTx.Deserialize"
	if kind != "tx" {
		name = "wire.MsgBlock.Deserialize"
	}
	if a > allocBase+allocPerByte*uint64(len(b)) {
		w := worstDep[name]
		if w.Alloc == 0 || float64(a)/float64(len(b)+1) > float64(w.Alloc)/float64(w.Len+1) {
			h := vh.Hex(b)
			if len(h) > 400 {
				h = h[:400] + "..."
			}
			worstDep[name] = depObs{name, len(b), a, h}
		}
	}
	return a, dt
}

// ---------- entry wrappers ----------
var txIdx = []int{-1, 0, 1, math.MaxInt32, math.MinInt32}

func callTx(stream string, b []byte) (tx *bchutil.Tx) {
	base, bt := wireBaseline("tx", b)
	g("NewTxFromBytes", stream, string(b), budget{n: len(b), extraAlloc: base, timeExtra: 3 * bt}, hexIn(b), func() bool {
		t, err := bchutil.NewTxFromBytes(b)
		if err != nil {
			return false
		}
		_ = t.Hash()
		_ = t.Hash()
		_ = t.Index()
		t.SetIndex(3)
		_ = t.MsgTx()
		tx = t
		return true
	})
	g("NewTxFromReader", stream, string(b), budget{n: len(b), extraAlloc: base, timeExtra: 3 * bt}, hexIn(b), func() bool {
		t, err := bchutil.NewTxFromReader(bytes.NewReader(b))
		if err != nil {
			return false
		}
		_ = t.Hash()
		return true
	})
	return tx
}

func blockAccessors(blk *bchutil.Block) {
	n := len(blk.MsgBlock().Transactions)
	for _, i := range append(append([]int{}, txIdx...), n-1, n, n+1) {
		_, _ = blk.Tx(i)
		_, _ = blk.TxHash(i)
	}
	_, _ = blk.Bytes()
	_ = blk.Hash()
	_ = blk.Transactions()
	_, _ = blk.TxLoc()
	_ = blk.Height()
	blk.SetHeight(7)
	for _, i := range []int{0, n - 1, n} {
		_, _ = blk.Tx(i)
		_, _ = blk.TxHash(i)
	}
}

func callBlock(stream string, b []byte) (blk *bchutil.Block) {
	base, bt := wireBaseline("block", b)
	// the wrapper decodes once and TxLoc decodes a second time; serialisation and tx wrappers are linear
	bud := budget{n: len(b), extraAlloc: 2*base + 64<<10, timeExtra: 6 * bt}
	g("NewBlockFromBytes", stream, string(b), bud, hexIn(b), func() bool {
		k, err := bchutil.NewBlockFromBytes(b)
		if err != nil {
			return false
		}
		blockAccessors(k)
		blk = k
		return true
	})
	g("NewBlockFromReader", stream, string(b), bud, hexIn(b), func() bool {
		k, err := bchutil.NewBlockFromReader(bytes.NewReader(b))
		if err != nil {
			return false
		}
		blockAccessors(k)
		return true
	})
	return blk
}

func flReplay(fl *wire.MsgFilterLoad, extra map[string]interface{}) func() interface{} {
	return func() interface{} {
		m := map[string]interface{}{}
		if fl == nil {
			m["filterload"] = nil
		} else {
			m["filter_hex"] = vh.Hex(fl.Filter)
			m["filter_len"] = len(fl.Filter)
			m["hash_funcs"] = fl.HashFuncs
			m["tweak"] = fl.Tweak
			m["flags"] = uint8(fl.Flags)
		}
		for k, v := range extra {
			m[k] = v
		}
		return m
	}
}

func cloneFL(fl *wire.MsgFilterLoad) *wire.MsgFilterLoad {
	if fl == nil {
		return nil
	}
	c := *fl
	c.Filter = append([]byte(nil), fl.Filter...)
	if fl.Filter == nil {
		c.Filter = nil
	}
	return &c
}

func flLen(fl *wire.MsgFilterLoad) int {
	if fl == nil {
		return 0
	}
	return len(fl.Filter) + 9
}

func flKey(fl *wire.MsgFilterLoad) string {
	if fl == nil {
		return "nil"
	}
	return fmt.Sprintf("%x|%d|%d|%d", fl.Filter, fl.HashFuncs, fl.Tweak, fl.Flags)
}

// callBloom runs every query/update entry point of a filter loaded from fl.
func callBloom(stream string, fl *wire.MsgFilterLoad, datas [][]byte, txs []*bchutil.Tx, blk *bchutil.Block, blkBytes []byte) {
	k := flKey(fl)
	nontriv := fl != nil && fl.HashFuncs > 0
	for _, d := range datas {
		d := d
		var mres bool
		okM := g("bloom.Matches", stream, k+"|"+string(d), budget{n: flLen(fl) + len(d)}, flReplay(fl, map[string]interface{}{"data": vh.Hex(d)}), func() bool {
			f := bloom.LoadFilter(cloneFL(fl))
			_ = f.IsLoaded()
			mres = f.Matches(d)
			return nontriv
		})
		var after []byte
		okA := g("bloom.Add", stream, k+"|"+string(d), budget{n: flLen(fl) + len(d)}, flReplay(fl, map[string]interface{}{"data": vh.Hex(d)}), func() bool {
			f := bloom.LoadFilter(cloneFL(fl))
			f.Add(d)
			if m := f.MsgFilterLoad(); m != nil {
				after = append([]byte(nil), m.Filter...)
			}
			_ = f.Matches(d)
			if len(d) >= 32 {
				var h chainhash.Hash
				copy(h[:], d)
				f.AddHash(&h)
			}
			_ = f.MsgFilterLoad()
			// state changes between calls: unloaded, reloaded with the same message, reloaded with an EMPTY bit
			// array that keeps the hash-function count (the division-by-zero shape), then queried and updated again
			f.Unload()
			_ = f.Matches(d)
			f.Add(d)
			f.Reload(cloneFL(fl))
			_ = f.Matches(d)
			hf := uint32(1)
			if fl != nil && fl.HashFuncs > 0 {
				hf = fl.HashFuncs
			}
			f.Reload(&wire.MsgFilterLoad{Filter: []byte{}, HashFuncs: hf})
			_ = f.Matches(d)
			f.Add(d)
			f.Reload(&wire.MsgFilterLoad{HashFuncs: hf})
			_ = f.Matches(d)
			f.Add(d)
			// round 4: successive filterload messages of DIFFERENT non-empty sizes on one object (a peer may send
			// any number of them; the node reloads the filter it has), first smaller, then larger, then the
			// original again; and a first message arriving on an object created unloaded / by NewFilter
			// (anything derived from the bit array at construction time is stale after Reload)
			n0 := 0
			if fl != nil {
				n0 = len(fl.Filter)
			}
			for _, sz := range []int{1, n0/2 + 1, n0 + 7, 2*n0 + 1} {
				f.Reload(&wire.MsgFilterLoad{Filter: make([]byte, sz), HashFuncs: hf, Flags: wire.BloomUpdateAll})
				_ = f.Matches(d)
				f.Add(d)
				_ = f.Matches(d)
			}
			f.Reload(cloneFL(fl))
			_ = f.Matches(d)
			f.Add(d)
			f0 := bloom.LoadFilter(nil)
			f0.Reload(cloneFL(fl))
			_ = f0.Matches(d)
			f0.Add(d)
			f0.Reload(&wire.MsgFilterLoad{Filter: make([]byte, 3), HashFuncs: hf})
			_ = f0.Matches(d)
			f0.Add(d)
			nf := bloom.NewFilter(10, 0, 0.01, wire.BloomUpdateAll)
			nf.Add(d)
			nf.Reload(&wire.MsgFilterLoad{Filter: make([]byte, 2), HashFuncs: hf})
			_ = nf.Matches(d)
			nf.Add(d)
			nf.Reload(cloneFL(fl))
			_ = nf.Matches(d)
			nf.Add(d)
			return nontriv
		})
		// a recorded history on one object against the checked history model (NoPanic/BloomHistNP.v, run_checked)
		if okM && okA && (fl == nil || (len(fl.Filter) <= 64 && fl.HashFuncs <= 50)) && len(d) <= 64 && bloomHist < cfg.Scale(40, 200) {
			bloomHist++
			bloomHistoryCase(stream, fl, d)
		}
		// correspondence with the checked model (NoPanic/BloomNP.v), small arrays only
		if okM && okA && (fl == nil || len(fl.Filter) <= 128) && bloomCases < cfg.Scale(120, 600) {
			bloomCases++
			if fl == nil {
				cases.Add(fmt.Sprintf("BloomM false [] 0 0 0 %s %s", vh.CoqBytes(d), vh.CoqBool(mres)), map[string]interface{}{"op": "bloom.Matches (unloaded)", "data": vh.Hex(d), "impl": mres})
			} else {
				cases.Add(fmt.Sprintf("BloomM true %s %d %d %d %s %s", vh.CoqBytes(fl.Filter), fl.HashFuncs, fl.Tweak, uint8(fl.Flags), vh.CoqBytes(d), vh.CoqBool(mres)),
					map[string]interface{}{"op": "bloom.Matches", "filter": vh.Hex(fl.Filter), "hash_funcs": fl.HashFuncs, "tweak": fl.Tweak, "data": vh.Hex(d), "impl": mres})
				cases.Add(fmt.Sprintf("BloomA %s %d %d %d %s %s", vh.CoqBytes(fl.Filter), fl.HashFuncs, fl.Tweak, uint8(fl.Flags), vh.CoqBytes(d), vh.CoqBytes(after)),
					map[string]interface{}{"op": "bloom.Add", "filter": vh.Hex(fl.Filter), "hash_funcs": fl.HashFuncs, "tweak": fl.Tweak, "data": vh.Hex(d), "impl_filter_after": vh.Hex(after)})
			}
		}
		var h chainhash.Hash
		copy(h[:], d)
		idx := uint32(len(d)) * 0x01010101
		g("bloom.MatchesOutPoint", stream, k+"|"+string(d), budget{n: flLen(fl) + 36}, flReplay(fl, map[string]interface{}{"outpoint_hash": h.String(), "outpoint_index": idx}), func() bool {
			f := bloom.LoadFilter(cloneFL(fl))
			op := wire.NewOutPoint(&h, idx)
			_ = f.MatchesOutPoint(op)
			f.AddOutPoint(op)
			_ = f.MatchesOutPoint(op)
			return nontriv
		})
	}
	for _, tx := range txs {
		tx := tx
		raw := serTx(tx.MsgTx())
		g("bloom.MatchTxAndUpdate", stream, k+"|"+string(raw), budget{n: flLen(fl) + len(raw)}, flReplay(fl, map[string]interface{}{"tx_hex": vh.Hex(raw)}), func() bool {
			f := bloom.LoadFilter(cloneFL(fl))
			_ = f.MatchTxAndUpdate(tx)
			_ = f.MatchTxAndUpdate(tx)
			return nontriv
		})
	}
	if blk != nil {
		rp := flReplay(fl, map[string]interface{}{"block_hex": vh.Hex(blkBytes), "transactions": len(blk.MsgBlock().Transactions)})
		bud := budget{n: flLen(fl) + len(blkBytes)}
		var mb *wire.MsgMerkleBlock
		g("bloom.NewMerkleBlock", stream, k+"|"+string(blkBytes), bud, rp, func() bool {
			f := bloom.LoadFilter(cloneFL(fl))
			mb, _ = bloom.NewMerkleBlock(blk, f)
			return nontriv
		})
		g("merkleblock.NewMerkleBlockWithFilter", stream, k+"|"+string(blkBytes), bud, rp, func() bool {
			f := bloom.LoadFilter(cloneFL(fl))
			_, _ = merkleblock.NewMerkleBlockWithFilter(blk, f)
			return nontriv
		})
		if mb != nil {
			callMerkle(stream, mb)
		}
	}
}

func merkleReplay(msg *wire.MsgMerkleBlock) func() interface{} {
	return func() interface{} {
		hs := make([]string, 0, len(msg.Hashes))
		for i, h := range msg.Hashes {
			if i >= 64 {
				hs = append(hs, fmt.Sprintf("... %d more", len(msg.Hashes)-i))
				break
			}
			hs = append(hs, vh.Hex(h[:]))
		}
		fh := vh.Hex(msg.Flags)
		if len(fh) > 512 {
			fh = fh[:512] + fmt.Sprintf("... (%d bytes)", len(msg.Flags))
		}
		return map[string]interface{}{"transactions": msg.Transactions, "hashes": hs, "num_hashes": len(msg.Hashes), "flags_hex": fh, "flags_len": len(msg.Flags)}
	}
}

var bloomCases, merkleCases, bloomHist int

// inChild is set in the memory-capped child process; only there may a message declare more than
// 2^22 transactions (code that sizes anything by the declared count would otherwise be able to take the
// harness, and the machine, down instead of being reported).
var inChild bool

func callMerkle(stream string, msg *wire.MsgMerkleBlock) {
	if !inChild && msg.Transactions > 1<<22 {
		c := *msg
		c.Transactions = 1 << 22
		msg = &c
	}
	n := 84 + 32*len(msg.Hashes) + len(msg.Flags)
	key := fmt.Sprintf("%d|%x|", msg.Transactions, msg.Flags)
	for _, h := range msg.Hashes {
		key += string(h[:4])
	}
	var accepted, bad bool
	ok := g("merkleblock.ExtractMatches", stream, key, budget{n: n}, merkleReplay(msg), func() bool {
		pb := merkleblock.NewMerkleBlockFromMsg(*msg)
		root := pb.ExtractMatches()
		_ = pb.GetMatches()
		_ = pb.GetItems()
		accepted, bad = root != nil, pb.BadTree()
		// state left over between calls: the cursors of a PartialBlock are not reset; a second extraction
		// (and the accessors after it) must return, not index past the exhausted bit / hash arrays
		_ = pb.ExtractMatches()
		_ = pb.GetMatches()
		_ = pb.GetItems()
		_ = pb.BadTree()
		return root != nil
	})
	// correspondence with the model whose no-panic theorem is in Props/C08.v: tiny messages only
	// (each inner node costs two SHA-256 evaluations inside Coq)
	if ok && cases != nil && len(msg.Hashes) <= 6 && len(msg.Flags) <= 3 && merkleCases < cfg.Scale(60, 300) {
		merkleCases++
		hs := make([]string, len(msg.Hashes))
		for i, h := range msg.Hashes {
			hs[i] = vh.CoqBytes(h[:])
		}
		cases.Add(fmt.Sprintf("MerkleX %d %d %s %s %s %s", merkleblock.MaxTxnCount, msg.Transactions, vh.CoqList(hs), vh.CoqBytes(msg.Flags), vh.CoqBool(accepted), vh.CoqBool(bad)),
			map[string]interface{}{"op": "merkleblock.ExtractMatches", "msg": merkleReplay(msg)(), "impl_accepted": accepted, "impl_bad_tree": bad})
	}
}

// chainBlock builds the scan family: transaction k spends one output of every earlier transaction,
// and the block lists them in REVERSE topological order (spenders first).
func chainBlock(n int, dense bool) *wire.MsgBlock {
	var z chainhash.Hash
	hdr := wire.NewBlockHeader(1, &z, &z, 0, 0)
	blk := wire.NewMsgBlock(hdr)
	var hashes []chainhash.Hash
	txs := make([]*wire.MsgTx, n)
	for k := 0; k < n; k++ {
		tx := wire.NewMsgTx(1)
		if k == 0 {
			var h chainhash.Hash
			h[0] = 0xaa
			tx.AddTxIn(wire.NewTxIn(wire.NewOutPoint(&h, 0), nil))
		} else if dense {
			for j := 0; j < k; j++ {
				tx.AddTxIn(wire.NewTxIn(wire.NewOutPoint(&hashes[j], uint32(k)), nil))
			}
		} else {
			tx.AddTxIn(wire.NewTxIn(wire.NewOutPoint(&hashes[k-1], 0), nil))
		}
		tx.AddTxOut(wire.NewTxOut(int64(k), []byte{0x51}, wire.TokenData{}))
		tx.LockTime = uint32(k)
		txs[k] = tx
		hashes = append(hashes, tx.TxHash())
	}
	for k := n - 1; k >= 0; k-- {
		blk.AddTransaction(txs[k])
	}
	return blk
}

// diamondBlock: d stacked diamonds.  The root has `fan` outputs; at every level `fan` middle transactions spend
// one output of the previous tail each, and a new tail (again with `fan` outputs) spends output 0 of every middle
// transaction.  The block lists the transactions in REVERSE topological order (children first).
func diamondBlock(d, fan int) *wire.MsgBlock {
	var z chainhash.Hash
	hdr := wire.NewBlockHeader(1, &z, &z, 0, 0)
	blk := wire.NewMsgBlock(hdr)
	mk := func(lock uint32, ins []wire.OutPoint, nout int) *wire.MsgTx {
		tx := wire.NewMsgTx(1)
		for i := range ins {
			tx.AddTxIn(wire.NewTxIn(&ins[i], nil))
		}
		for i := 0; i < nout; i++ {
			tx.AddTxOut(wire.NewTxOut(int64(i), []byte{0x51}, wire.TokenData{}))
		}
		tx.LockTime = lock
		return tx
	}
	var ext chainhash.Hash
	ext[0] = 0xaa
	root := mk(0, []wire.OutPoint{*wire.NewOutPoint(&ext, 0)}, fan)
	txs := []*wire.MsgTx{root}
	tail := root.TxHash()
	lock := uint32(1)
	for lvl := 0; lvl < d; lvl++ {
		var mids []wire.OutPoint
		for j := 0; j < fan; j++ {
			m := mk(lock, []wire.OutPoint{*wire.NewOutPoint(&tail, uint32(j))}, 1)
			lock++
			txs = append(txs, m)
			h := m.TxHash()
			mids = append(mids, *wire.NewOutPoint(&h, 0))
		}
		t := mk(lock, mids, fan)
		lock++
		txs = append(txs, t)
		tail = t.TxHash()
	}
	for k := len(txs) - 1; k >= 0; k-- {
		blk.AddTransaction(txs[k])
	}
	return blk
}

func firstTxs(t []*bchutil.Tx, n int) []*bchutil.Tx {
	if len(t) < n {
		return t
	}
	return t[:n]
}

func fullFilter(nbytes int) *wire.MsgFilterLoad {
	return wire.NewMsgFilterLoad(bytesOf(0xff, nbytes), 1, 0, wire.BloomUpdateAll)
}

// ---------- streams ----------
func runWire(rng *vh.RNG) {
	// ===== transactions and blocks =====
	r := rng.Fork("blocks")
	var validTx, validBlk [][]byte
	var sampleTxs []*bchutil.Tx
	type blkS struct {
		b   *bchutil.Block
		raw []byte
	}
	var sampleBlks []blkS
	// (1) structured
	for _, shape := range [][2]int{{0, 0}, {1, 0}, {0, 1}, {1, 1}, {2, 3}, {7, 9}, {40, 40}, {300, 1}} {
		for rep := 0; rep < cfg.Scale(2, 8); rep++ {
			raw := serTx(randTx(r, shape[0], shape[1], nil))
			validTx = append(validTx, raw)
			if t := callTx("structured", raw); t != nil && len(sampleTxs) < 40 {
				sampleTxs = append(sampleTxs, t)
			}
			callTx("structured", append(append([]byte(nil), raw...), 0xde, 0xad)) // trailing bytes
		}
	}
	for _, ntx := range []int{0, 1, 2, 3, 4, 7, 8, 9, 16, 33, 100} {
		for rep := 0; rep < cfg.Scale(2, 6); rep++ {
			raw := serBlock(randBlock(r, ntx))
			validBlk = append(validBlk, raw)
			if k := callBlock("structured", raw); k != nil && len(sampleBlks) < 30 {
				sampleBlks = append(sampleBlks, blkS{k, raw})
			}
			callBlock("structured", append(append([]byte(nil), raw...), 0xde, 0xad))
		}
	}
	// valid framing, declared counts far beyond the body (zero, large, maximal, just past the maximum, 2^32-1, 2^64-1)
	hdr80 := r.Bytes(80)
	for _, c := range []uint64{0, 1, 2, 0xfc, 0xfd, 0xffff, 0x10000, 1000000, 12800001, 12800002, 1 << 31, 0xffffffff, 1 << 40, math.MaxUint64} {
		callBlock("structured", append(append([]byte(nil), hdr80...), varint(c)...))
		callBlock("structured", append(append(append([]byte(nil), hdr80...), varint(c)...), validTx[3]...))
		for _, ver := range [][]byte{{1, 0, 0, 0}, {2, 0, 0, 0}, {0xff, 0xff, 0xff, 0xff}} {
			in := append(append([]byte(nil), ver...), varint(c)...)
			callTx("structured", in)                                     // declared inputs, no body
			callTx("structured", append(append([]byte(nil), in...), r.Bytes(41)...)) // one input's worth of body
			// one real input then a declared output count
			one := append(append([]byte(nil), ver...), 1)
			one = append(one, r.Bytes(36)...)
			one = append(one, 0)
			one = append(one, 0xff, 0xff, 0xff, 0xff)
			callTx("structured", append(append([]byte(nil), one...), varint(c)...))
			// declared script lengths
			sc := append(append([]byte(nil), ver...), 1)
			sc = append(sc, r.Bytes(36)...)
			callTx("structured", append(append([]byte(nil), sc...), varint(c)...))
			callTx("structured", append(append(append([]byte(nil), sc...), varint(c)...), r.Bytes(10)...))
		}
	}
	// non-canonical varints, segwit-style marker
	for _, b := range [][]byte{{1, 0, 0, 0, 0xfd, 1, 0}, {1, 0, 0, 0, 0xfe, 1, 0, 0, 0}, {1, 0, 0, 0, 0xff, 1, 0, 0, 0, 0, 0, 0, 0}, {1, 0, 0, 0, 0, 1}, {1, 0, 0, 0, 0, 0, 0, 0, 0, 0}, {}, {1}, {1, 0, 0, 0}} {
		callTx("edge", b)
		callBlock("edge", append(append([]byte(nil), hdr80...), b...))
		callBlock("edge", b)
	}
	// (2) mutation
	nm := cfg.Scale(250, 3000)
	for i := 0; i < nm; i++ {
		callTx("mutation", mutate(r, vh.Pick(r, validTx)))
		if i%2 == 0 {
			callBlock("mutation", mutate(r, vh.Pick(r, validBlk)))
		}
	}
	// (3) random bytes
	for i := 0; i < cfg.Scale(150, 2000); i++ {
		b := r.Bytes(r.Intn(200))
		callTx("random", b)
		callBlock("random", b)
		callBlock("random", append(append([]byte(nil), hdr80...), b...))
	}

	// ===== bloom filter loads within the wire limits =====
	r = rng.Fork("bloom")
	datas := [][]byte{nil, {}, {0}, r.Bytes(20), r.Bytes(32), r.Bytes(33), r.Bytes(65), r.Bytes(520)}
	var loads []*wire.MsgFilterLoad
	loads = append(loads, nil) // unloaded filter
	for _, fl := range []int{0, 1, 2, 3, 8, 100, 1024, wire.MaxFilterLoadFilterSize} {
		for _, hf := range []uint32{0, 1, 2, 11, wire.MaxFilterLoadHashFuncs} {
			for _, flags := range []wire.BloomUpdateType{wire.BloomUpdateNone, wire.BloomUpdateAll, wire.BloomUpdateP2PubkeyOnly, 3, 255} {
				if !cfg.Thorough() && r.Intn(3) != 0 && !(fl == 0 || hf == 0) {
					continue
				}
				var fb []byte
				switch r.Intn(4) {
				case 0:
					fb = make([]byte, fl)
				case 1:
					fb = bytesOf(0xff, fl)
				default:
					fb = r.Bytes(fl)
				}
				if fl == 0 && r.Bool() {
					fb = nil
				}
				m := wire.NewMsgFilterLoad(fb, hf, vh.Pick(r, []uint32{0, 1, 0xffffffff, 0x7fffffff, r.U32()}), flags)
				// the message must survive the wire codec: that is what "within the wire limits" means
				var buf bytes.Buffer
				if err := m.BchEncode(&buf, wire.ProtocolVersion, wire.BaseEncoding); err != nil {
					continue
				}
				var back wire.MsgFilterLoad
				if err := back.BchDecode(bytes.NewReader(buf.Bytes()), wire.ProtocolVersion, wire.BaseEncoding); err != nil {
					continue
				}
				loads = append(loads, &back)
			}
		}
	}
	rep.Extra["bloom_filter_loads"] = len(loads)
	for i, fl := range loads {
		ds := datas
		txs := sampleTxs
		if !cfg.Thorough() && fl != nil && len(fl.Filter) > 8 {
			ds = [][]byte{datas[0], datas[3], datas[7]}
			txs = firstTxs(sampleTxs, 8)
		} else if !cfg.Thorough() {
			txs = firstTxs(sampleTxs, 20)
		}
		var blk *bchutil.Block
		var raw []byte
		if len(sampleBlks) > 0 {
			s := sampleBlks[i%len(sampleBlks)]
			blk, raw = s.b, s.raw
		}
		callBloom("structured", fl, ds, txs, blk, raw)
	}
	// every sample block (including the one with zero transactions) through the three builders with a few filters
	for _, s := range sampleBlks {
		for _, fl := range []*wire.MsgFilterLoad{nil, wire.NewMsgFilterLoad(nil, 1, 0, wire.BloomUpdateAll), fullFilter(4), wire.NewMsgFilterLoad(make([]byte, 8), 3, 5, wire.BloomUpdateNone)} {
			callBloom("structured", fl, nil, nil, s.b, s.raw)
		}
		var set []*chainhash.Hash
		for i, tx := range s.b.Transactions() {
			if i%3 == 0 {
				set = append(set, tx.Hash())
			}
		}
		var junk chainhash.Hash
		junk[5] = 9
		set = append(set, &junk)
		blk, raw := s.b, s.raw
		var mb *wire.MsgMerkleBlock
		g("merkleblock.NewMerkleBlockWithTxnSet", "structured", string(raw), budget{n: len(raw)}, hexIn(raw), func() bool {
			mb, _ = merkleblock.NewMerkleBlockWithTxnSet(blk, set)
			_, _ = merkleblock.NewMerkleBlockWithTxnSet(blk, nil)
			return true
		})
		if mb != nil {
			callMerkle("structured", mb)
		}
	}
	// bloom: mutation / random of the filter-load bytes through the wire codec
	for i := 0; i < cfg.Scale(60, 800); i++ {
		var buf bytes.Buffer
		base := vh.Pick(r, loads[1:])
		base.BchEncode(&buf, wire.ProtocolVersion, wire.BaseEncoding)
		b := buf.Bytes()
		if len(b) > 200 {
			b = append(varint(uint64(r.Intn(60))), r.Bytes(80)...)
		}
		b = mutate(r, b)
		var back wire.MsgFilterLoad
		if err := back.BchDecode(bytes.NewReader(b), wire.ProtocolVersion, wire.BaseEncoding); err != nil {
			continue
		}
		st := "mutation"
		if i%3 == 0 {
			st = "random"
		}
		callBloom(st, &back, [][]byte{r.Bytes(r.Intn(40))}, firstTxs(sampleTxs, 3), nil, nil)
	}

	// ===== merkle blocks: arbitrary messages =====
	r = rng.Fork("merkle")
	maxTxn := merkleblock.MaxTxnCount
	rep.Extra["merkle_MaxTxnCount"] = maxTxn
	mkHashes := func(n int, mode int) []*chainhash.Hash {
		hs := make([]*chainhash.Hash, n)
		var same chainhash.Hash
		copy(same[:], r.Bytes(32))
		for i := range hs {
			var h chainhash.Hash
			switch mode {
			case 0:
				copy(h[:], r.Bytes(32))
			case 1:
				h = same
			}
			hs[i] = &h
		}
		return hs
	}
	mkFlags := func(n int, mode int) []byte {
		switch mode {
		case 0:
			return make([]byte, n)
		case 1:
			return bytesOf(0xff, n)
		default:
			return r.Bytes(n)
		}
	}
	// counts above 2^22 are probed in the memory-capped child process (merkleProbes), not here
	txCounts := []uint32{0, 1, 2, 3, 4, 5, 7, 8, 9, 255, 256, 257, 65535, 65536, 1 << 20, maxTxn - 1, maxTxn, maxTxn + 1, 1 << 22}
	for _, nt := range txCounts {
		for _, nh := range []int{0, 1, 2, 3, 8, 50, 300} {
			for _, nf := range []int{0, 1, 2, 7, 40, 400} {
				if !cfg.Thorough() && r.Intn(3) != 0 {
					continue
				}
				msg := &wire.MsgMerkleBlock{Transactions: nt, Hashes: mkHashes(nh, r.Intn(3)), Flags: mkFlags(nf, r.Intn(3))}
				callMerkle("structured", msg)
			}
		}
	}
	// honest proofs (valid outer layer) and mutations of them
	var honest []*wire.MsgMerkleBlock
	for _, ntx := range []int{1, 2, 3, 4, 5, 7, 8, 9, 16, 17, 31, 33, 64, 100} {
		blk := bchutil.NewBlock(randBlock(r, ntx))
		var set []*chainhash.Hash
		for i, tx := range blk.Transactions() {
			if r.Intn(3) == 0 || i == ntx-1 {
				set = append(set, tx.Hash())
			}
		}
		mb, _ := merkleblock.NewMerkleBlockWithTxnSet(blk, set)
		honest = append(honest, mb)
		callMerkle("structured", mb)
		// through the wire codec
		var buf bytes.Buffer
		if err := mb.BchEncode(&buf, wire.ProtocolVersion, wire.BaseEncoding); err == nil {
			var back wire.MsgMerkleBlock
			if err := back.BchDecode(bytes.NewReader(buf.Bytes()), wire.ProtocolVersion, wire.BaseEncoding); err == nil {
				callMerkle("structured", &back)
			}
		}
	}
	for i := 0; i < cfg.Scale(400, 6000); i++ {
		h := vh.Pick(r, honest)
		m := &wire.MsgMerkleBlock{Header: h.Header, Transactions: h.Transactions, Hashes: append([]*chainhash.Hash(nil), h.Hashes...), Flags: append([]byte(nil), h.Flags...)}
		for k := 0; k < 1+r.Intn(2); k++ {
			switch r.Intn(8) {
			case 0:
				m.Flags = mutate(r, m.Flags)
			case 1:
				m.Transactions = vh.Pick(r, []uint32{0, m.Transactions + 1, m.Transactions - 1, m.Transactions * 2, maxTxn, maxTxn + 1, 1 << 22})
			case 2:
				if len(m.Hashes) > 0 {
					p := r.Intn(len(m.Hashes))
					m.Hashes = append(m.Hashes[:p:p], m.Hashes[p+1:]...)
				}
			case 3:
				if len(m.Hashes) > 0 {
					p := r.Intn(len(m.Hashes))
					m.Hashes = append(m.Hashes[:p:p], append([]*chainhash.Hash{m.Hashes[p]}, m.Hashes[p:]...)...)
				}
			case 4:
				m.Hashes = append(m.Hashes, mkHashes(1+r.Intn(3), 0)...)
			case 5:
				m.Flags = append(m.Flags, r.Bytes(1+r.Intn(3))...)
			case 6:
				if len(m.Flags) > 0 {
					m.Flags[r.Intn(len(m.Flags))] ^= 1 << uint(r.Intn(8))
				}
			case 7:
				if len(m.Hashes) > 1 {
					p, q := r.Intn(len(m.Hashes)), r.Intn(len(m.Hashes))
					m.Hashes[p], m.Hashes[q] = m.Hashes[q], m.Hashes[p]
				}
			}
		}
		callMerkle("mutation", m)
	}
	for i := 0; i < cfg.Scale(200, 3000); i++ {
		msg := &wire.MsgMerkleBlock{Transactions: vh.Pick(r, []uint32{r.U32() >> 10, uint32(r.Intn(40)), uint32(r.Intn(int(maxTxn)))}), Hashes: mkHashes(r.Intn(20), 0), Flags: r.Bytes(r.Intn(12))}
		callMerkle("random", msg)
	}

	// ===== scaling probes =====
	// merkle extraction: honest proof revealing every transaction (flag bits ~ 2n), and an all-ones flag array
	scaleProbe("merkleblock.ExtractMatches", cfg.Scale(3000, 10000), 5, func(n int) (func(), func() interface{}) {
		blk := wire.NewMsgBlock(wire.NewBlockHeader(1, &chainhash.Hash{}, &chainhash.Hash{}, 0, 0))
		var set []*chainhash.Hash
		for i := 0; i < n; i++ {
			tx := wire.NewMsgTx(1)
			tx.LockTime = uint32(i)
			blk.AddTransaction(tx)
		}
		b := bchutil.NewBlock(blk)
		for _, tx := range b.Transactions() {
			set = append(set, tx.Hash())
		}
		mb, _ := merkleblock.NewMerkleBlockWithFilter(b, bloom.LoadFilter(fullFilter(1)))
		_ = set
		return func() {
				pb := merkleblock.NewMerkleBlockFromMsg(*mb)
				pb.ExtractMatches()
			}, func() interface{} {
				return map[string]interface{}{"family": "honest proof revealing every transaction of an n-transaction block", "transactions": n, "flag_bytes": len(mb.Flags), "hashes": len(mb.Hashes)}
			}
	})
	scaleProbe("merkleblock.ExtractMatches", cfg.Scale(4000, 16000), 5, func(n int) (func(), func() interface{}) {
		msg := &wire.MsgMerkleBlock{Transactions: maxTxn, Hashes: mkHashes(n*4, 1), Flags: bytesOf(0xff, n)}
		return func() {
				pb := merkleblock.NewMerkleBlockFromMsg(*msg)
				pb.ExtractMatches()
			}, func() interface{} {
				return map[string]interface{}{"family": "n flag bytes all 0xff, 4n identical hashes, Transactions = MaxTxnCount", "flag_bytes": n}
			}
	})
	// block scan, sparse chain (tx k spends tx k-1), reverse order, every transaction matches: n vs 2n
	scaleProbe("bloom.NewMerkleBlock", cfg.Scale(300, 800), 5, func(n int) (func(), func() interface{}) {
		blk := bchutil.NewBlock(chainBlock(n, false))
		return func() { bloom.NewMerkleBlock(blk, bloom.LoadFilter(fullFilter(8))) }, func() interface{} {
			return map[string]interface{}{"family": "n transactions, tx k spends tx k-1, listed in reverse order; filter of eight 0xff bytes", "transactions": n}
		}
	})
	// block scan ramps with a time cap, children listed before their parents, every transaction matching:
	//  - dense chain (tx k spends one output of every earlier tx): the repaired scan makes about n^2/2 filter
	//    matches; the historical one 2^n;
	//  - stacked diamonds (review round 2): level i = `fan` transactions that each spend one output of the tail of
	//    level i-1, plus a tail that spends all of them: fan^d different paths lead from the root to the last tail,
	//    so a scan that re-expands a transaction once per PATH (instead of once) is exponential in d, while a
	//    plain chain and a fan-in chain stay fast.
	type rampFamily struct {
		key, family string
		from, to    int
		build       func(n int) *wire.MsgBlock
	}
	ramps := []rampFamily{
		{"chain", "tx k spends one output of every earlier tx; block lists the transactions in reverse topological order; filter = eight 0xff bytes, 1 hash function, BloomUpdateAll", 8, cfg.Scale(20, 22), func(n int) *wire.MsgBlock { return chainBlock(n, true) }},
		{"diamonds2", "n stacked diamonds (two middle transactions per level, 3 transactions per diamond), children before parents; filter = eight 0xff bytes, 1 hash function, BloomUpdateAll", 8, cfg.Scale(24, 30), func(n int) *wire.MsgBlock { return diamondBlock(n, 2) }},
		{"diamonds3", "n stacked 3-way diamonds (three middle transactions per level), children before parents; filter = eight 0xff bytes", 6, cfg.Scale(16, 20), func(n int) *wire.MsgBlock { return diamondBlock(n, 3) }},
	}
	for _, rf := range ramps {
		const cap = 1500 * time.Millisecond
		var prev time.Duration
		var obs []interface{}
		grew := 0
		for n := rf.from; n <= rf.to; n += 2 {
			mblk := rf.build(n)
			raw := serBlock(mblk)
			best := time.Duration(1 << 62)
			var calls int
			for rep2 := 0; rep2 < 3; rep2++ {
				blk := bchutil.NewBlock(mblk)
				fl := fullFilter(8)
				rp := flReplay(fl, map[string]interface{}{"family": rf.family, "size_parameter": n, "transactions": len(mblk.Transactions), "block_hex": vh.Hex(raw)})
				wd.begin("bloom.GetMatchedIndices", rp)
				t0 := cpuNow()
				p, msg := vh.Catch(func() { calls = len(bloom.GetMatchedIndices(blk, bloom.LoadFilter(fl))) })
				d := cpuNow() - t0
				wd.end()
				rep.Count("bloom.GetMatchedIndices/scale", fmt.Sprintf("%s%d", rf.key, n), true)
				if p {
					rep.Violate("C08:bloom.GetMatchedIndices:panic", "GetMatchedIndices panicked: "+msg, rp())
				}
				if d < best {
					best = d
				}
				if d > cap {
					break
				}
			}
			obs = append(obs, map[string]interface{}{"size_parameter": n, "transactions": len(mblk.Transactions), "block_bytes": len(raw), "t_us": best.Microseconds(), "matched": calls})
			if prev > 0 && best > ratioFloor && float64(best) > 3.2*float64(prev) {
				grew++
			} else {
				grew = 0
			}
			if best > cap || grew >= 2 {
				rep.Violate("C08:bloom.GetMatchedIndices:time",
					fmt.Sprintf("block scan is super-polynomial (family %s): size parameter %d = %d transactions (%d bytes) took %v; each step of two multiplies the time by > 3 (or the cap was hit)", rf.key, n, len(mblk.Transactions), len(raw), best),
					map[string]interface{}{"entry": "bloom.GetMatchedIndices / bloom.NewMerkleBlock", "family": rf.family,
						"size_parameter": n, "transactions": len(mblk.Transactions), "block_hex": vh.Hex(raw), "elapsed_ms": best.Milliseconds(), "cap_ms": cap.Milliseconds(), "ramp": obs})
				break
			}
			prev = best
		}
		rep.Extra["block_scan_ramp_"+rf.key] = obs
	}
}

// bloomHistoryCase replays on ONE filter object a history of successive filter-load messages of different sizes
// (the original, 1 byte, larger, the original again, empty, nil) with Add / Matches / IsLoaded between them and
// writes what every call returned (true for calls without a result) and the final array as a BloomH case.
func bloomHistoryCase(stream string, fl *wire.MsgFilterLoad, d []byte) {
	hf, tweak := uint32(3), uint32(0)
	n0 := 0
	if fl != nil {
		n0 = len(fl.Filter)
		tweak = fl.Tweak
		if fl.HashFuncs > 0 {
			hf = fl.HashFuncs
		}
	}
	coqMsg := func(m *wire.MsgFilterLoad) string {
		if m == nil {
			return "false [] 0 0 0"
		}
		return fmt.Sprintf("true %s %d %d %d", vh.CoqBytes(m.Filter), m.HashFuncs, m.Tweak, uint32(m.Flags))
	}
	d2 := append(append([]byte(nil), d...), 0x5a)
	msgs := []*wire.MsgFilterLoad{
		{Filter: make([]byte, 1), HashFuncs: hf, Tweak: tweak},
		{Filter: bytes.Repeat([]byte{0x11}, n0+7), HashFuncs: hf, Tweak: tweak + 1, Flags: wire.BloomUpdateAll},
		cloneFL(fl),
		{Filter: []byte{}, HashFuncs: hf},
		nil,
		{Filter: make([]byte, 2), HashFuncs: 1, Tweak: tweak},
	}
	var ops []string
	var outs []string
	var f *bloom.Filter
	finalLoaded, final := false, []byte(nil)
	if p, msg := vh.Catch(func() {
		f = bloom.LoadFilter(cloneFL(fl))
		step := func(op string, res bool) { ops = append(ops, op); outs = append(outs, vh.CoqBool(res)) }
		use := func() {
			f.Add(d)
			step("BAdd "+vh.CoqBytes(d), true)
			step("BMatches "+vh.CoqBytes(d), f.Matches(d))
			step("BMatches "+vh.CoqBytes(d2), f.Matches(d2))
			step("BIsLoaded", f.IsLoaded())
		}
		use()
		for i, m := range msgs {
			if i == 4 {
				f.Unload()
				step("BUnload", true)
				use()
			}
			f.Reload(cloneFL(m))
			step("BReload "+coqMsg(m), true)
			use()
		}
		if m := f.MsgFilterLoad(); m != nil {
			finalLoaded, final = true, append([]byte(nil), m.Filter...)
		}
	}); p {
		rep.Violate("C08:bloom.history:panic", "a call panicked in a history of successive filter-load messages on one filter object: "+msg,
			map[string]interface{}{"entry": "bloom.history", "stream": stream, "input": flReplay(fl, map[string]interface{}{"data": vh.Hex(d)})(), "steps_done": ops, "panic": msg})
		return
	}
	rep.Count("bloom.history/"+stream, flKey(fl)+"|"+string(d), true)
	cases.Add(fmt.Sprintf("BloomH %s [%s] [%s] %s %s", coqMsg(fl), strings.Join(ops, "; "), strings.Join(outs, "; "), vh.CoqBool(finalLoaded), vh.CoqBytes(final)),
		map[string]interface{}{"op": "bloom history on one object", "filter": flReplay(fl, nil)(), "data": vh.Hex(d), "steps": len(ops)})
}

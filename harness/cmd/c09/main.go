// Command c09 drives bloom.MurmurHash3 and bloom.Filter of the repository under
// test.  Monitors: the property's own predicates (no false negatives, BIP37
// bit-exactness against an independent reference written here from the BIP text
// and the MurmurHash3 reference, unloaded filters inert, sizing within the wire
// limits, no panic).  Correspondence cases for Run/Run_C09.v: murmur values, bit
// indices, operation histories with every return value and the final message,
// NewFilter sizing.
package main

import (
	"bytes"
	"crypto/sha256"
	"encoding/binary"
	"encoding/hex"
	"encoding/json"
	"flag"
	"fmt"
	"math"
	"os"
	"os/exec"
	"path/filepath"
	"strings"

	"github.com/gcash/bchd/chaincfg/chainhash"
	"github.com/gcash/bchd/wire"
	"github.com/gcash/bchutil/bloom"

	"verif/harness/internal/vh"
)

var cfg vh.Config
var rep *vh.Report
var cases *vh.Cases

// ---------------------------------------------------------------------------
// Independent reference.  Nothing below calls into package bloom.

// refMurmur is MurmurHash3_x86_32 written from Appleby's reference with 64-bit
// intermediates and explicit masking (a different style from the code under test).
func refMurmur(seed uint32, data []byte) uint32 {
	const mask = 0xffffffff
	rotl := func(x uint64, r uint) uint64 { return ((x << r) | (x >> (32 - r))) & mask }
	h := uint64(seed)
	n := len(data)
	for off := 0; off+4 <= n; off += 4 {
		k := uint64(data[off]) | uint64(data[off+1])<<8 | uint64(data[off+2])<<16 | uint64(data[off+3])<<24
		k = (k * 0xcc9e2d51) & mask
		k = rotl(k, 15)
		k = (k * 0x1b873593) & mask
		h ^= k
		h = rotl(h, 13)
		h = (h*5 + 0xe6546b64) & mask
	}
	rem := n % 4
	if rem > 0 {
		var k uint64
		for j := rem - 1; j >= 0; j-- {
			k = k<<8 | uint64(data[n-rem+j])
		}
		k = (k * 0xcc9e2d51) & mask
		k = rotl(k, 15)
		k = (k * 0x1b873593) & mask
		h ^= k
	}
	h ^= uint64(n) & mask
	h ^= h >> 16
	h = (h * 0x85ebca6b) & mask
	h ^= h >> 13
	h = (h * 0xc2b2ae35) & mask
	h ^= h >> 16
	return uint32(h)
}

// refFilter is BIP37 on a vector of booleans.
type refFilter struct {
	loaded bool
	bits   []bool // len = 8 * bytes
	nHash  uint32
	tweak  uint32
	flags  uint32
}

func refFromBytes(b []byte, nHash, tweak, flags uint32) *refFilter {
	r := &refFilter{loaded: true, bits: make([]bool, 8*len(b)), nHash: nHash, tweak: tweak, flags: flags}
	for k := range r.bits {
		r.bits[k] = (b[k/8]>>(uint(k)%8))&1 == 1
	}
	return r
}

func (r *refFilter) bitNumber(i uint32, item []byte) uint64 {
	seed := (uint64(i)*0xFBA4C795 + uint64(r.tweak)) % (1 << 32)
	return uint64(refMurmur(uint32(seed), item)) % uint64(len(r.bits))
}

func (r *refFilter) insert(item []byte) {
	if !r.loaded || len(r.bits) == 0 {
		return
	}
	for i := uint32(0); i < r.nHash; i++ {
		r.bits[r.bitNumber(i, item)] = true
	}
}

func (r *refFilter) contains(item []byte) bool {
	if !r.loaded {
		return false
	}
	if len(r.bits) == 0 {
		return true // Bitcoin Core since CVE-2013-5700: an empty filter matches everything
	}
	for i := uint32(0); i < r.nHash; i++ {
		if !r.bits[r.bitNumber(i, item)] {
			return false
		}
	}
	return true
}

func (r *refFilter) bytes() []byte {
	out := make([]byte, len(r.bits)/8)
	for k, b := range r.bits {
		if b {
			out[k/8] |= 1 << (uint(k) % 8)
		}
	}
	return out
}

func refOutpoint(txid []byte, index uint32) []byte {
	out := append([]byte(nil), txid...)
	return append(out, byte(index), byte(index>>8), byte(index>>16), byte(index>>24))
}

// ---------------------------------------------------------------------------
// histories

type msgRec struct {
	Filter    string `json:"filter"` // hex
	HashFuncs uint32 `json:"hashfuncs"`
	Tweak     uint32 `json:"tweak"`
	Flags     uint32 `json:"flags"`
}

type opRec struct {
	Op    string  `json:"op"` // add addhash addoutpoint matches matchesoutpoint reload reloadself unload isloaded
	Data  string  `json:"data,omitempty"`
	Index uint32  `json:"index,omitempty"`
	Msg   *msgRec `json:"msg,omitempty"` // reload: nil = Reload(nil)
	// Repeat > 1: the call is made that many times in a row (reload / unload only; such histories are
	// monitor-only, the Coq case would need the expanded list)
	Repeat int `json:"repeat,omitempty"`
}

type history struct {
	Init *msgRec `json:"init"` // nil = LoadFilter(nil)
	Ops  []opRec `json:"ops"`
	// NewFilter != nil: the object is built by bloom.NewFilter with these arguments instead of
	// LoadFilter(Init); Init then describes the message NewFilter produced (all-zero array)
	NewFilter *newFilterArgs `json:"newfilter,omitempty"`
}

type newFilterArgs struct {
	Elements   uint32 `json:"elements"`
	Tweak      uint32 `json:"tweak"`
	FprateBits string `json:"fprate_bits"` // %016x of math.Float64bits
	Flags      uint32 `json:"flags"`
}

func (a *newFilterArgs) build() *bloom.Filter {
	var bits uint64
	fmt.Sscanf(a.FprateBits, "%x", &bits)
	return bloom.NewFilter(a.Elements, a.Tweak, math.Float64frombits(bits), wire.BloomUpdateType(a.Flags))
}

func mkMsg(m *msgRec) *wire.MsgFilterLoad {
	if m == nil {
		return nil
	}
	b, _ := hex.DecodeString(m.Filter)
	if b == nil {
		b = []byte{}
	}
	return &wire.MsgFilterLoad{Filter: b, HashFuncs: m.HashFuncs, Tweak: m.Tweak, Flags: wire.BloomUpdateType(m.Flags)}
}

func recOf(b []byte, nh, tw, fl uint32) *msgRec {
	return &msgRec{Filter: hex.EncodeToString(b), HashFuncs: nh, Tweak: tw, Flags: fl}
}

func coqBytesOrZeros(b []byte) string {
	if len(b) > 64 {
		allz := true
		for _, x := range b {
			if x != 0 {
				allz = false
				break
			}
		}
		if allz {
			return fmt.Sprintf("(zeros %d)", len(b))
		}
	}
	return chunked(len(b), func(lo, hi int) string { return vh.CoqBytes(b[lo:hi]) })
}

// chunked writes a long Coq list as ([..] ++ [..] ++ ...) so that no literal has more than 400 elements
// (very long list literals overflow coqc's stack).
func chunked(n int, part func(lo, hi int) string) string {
	const c = 400
	if n <= c {
		return part(0, n)
	}
	var ps []string
	for lo := 0; lo < n; lo += c {
		hi := lo + c
		if hi > n {
			hi = n
		}
		ps = append(ps, part(lo, hi))
	}
	return "(" + strings.Join(ps, " ++ ") + ")"
}

func coqMsg(b []byte, nh, tw, fl uint32) string {
	return fmt.Sprintf("(Some (MkMsg %s %d %d %d))", coqBytesOrZeros(b), nh, tw, fl)
}

func coqFin(m *wire.MsgFilterLoad) string {
	if m == nil {
		return "None"
	}
	var nz []string
	for i, b := range m.Filter {
		if b != 0 {
			nz = append(nz, fmt.Sprintf("(%d,%d)", i, b))
		}
	}
	return fmt.Sprintf("(Some (%d, %s, %d, %d, %d))", len(m.Filter), chunked(len(nz), func(lo, hi int) string { return vh.CoqList(nz[lo:hi]) }), m.HashFuncs, m.Tweak, uint32(m.Flags))
}

func eqBytes(a, b []byte) bool {
	if len(a) != len(b) {
		return false
	}
	for i := range a {
		if a[i] != b[i] {
			return false
		}
	}
	return true
}

// runHistory executes h on the implementation with all monitors; returns false if it panicked.
func runHistory(h history, corr bool, family string) {
	var f *bloom.Filter
	var ref *refFilter
	init := mkMsg(h.Init)
	if h.NewFilter != nil {
		f = h.NewFilter.build()
	} else {
		f = bloom.LoadFilter(init)
	}
	if init != nil {
		ref = refFromBytes(init.Filter, init.HashFuncs, init.Tweak, uint32(init.Flags))
	} else {
		ref = &refFilter{}
	}
	var live [][]byte // items added since the last Reload/Unload
	var obs []bool
	var coqOps []string
	nontrivial := false
	violate := func(key, what string, extra map[string]interface{}) {
		r := map[string]interface{}{"history": h}
		for k, v := range extra {
			r[k] = v
		}
		rep.Violate(key, what, r)
	}
	for step, o := range h.Ops {
		data, _ := hex.DecodeString(o.Data)
		if data == nil {
			data = []byte{}
		}
		res := true
		var item []byte
		panicked, pmsg := vh.Catch(func() {
			switch o.Op {
			case "add":
				f.Add(data)
				item = data
				coqOps = append(coqOps, "OAdd "+vh.CoqBytes(data))
			case "addhash":
				var hh chainhash.Hash
				copy(hh[:], data)
				f.AddHash(&hh)
				item = hh[:]
				coqOps = append(coqOps, "OAddHash "+vh.CoqBytes(hh[:]))
			case "addoutpoint":
				var hh chainhash.Hash
				copy(hh[:], data)
				f.AddOutPoint(wire.NewOutPoint(&hh, o.Index))
				item = refOutpoint(hh[:], o.Index)
				coqOps = append(coqOps, fmt.Sprintf("OAddOutPoint %s %d", vh.CoqBytes(hh[:]), o.Index))
			case "matches":
				res = f.Matches(data)
				coqOps = append(coqOps, "OMatches "+vh.CoqBytes(data))
				if want := ref.contains(data); want != res {
					violate("C09:bip37:matches", "Matches disagrees with the BIP37 reference",
						map[string]interface{}{"step": step, "got": res, "bip37": want})
				}
			case "matchesoutpoint":
				var hh chainhash.Hash
				copy(hh[:], data)
				res = f.MatchesOutPoint(wire.NewOutPoint(&hh, o.Index))
				coqOps = append(coqOps, fmt.Sprintf("OMatchesOutPoint %s %d", vh.CoqBytes(hh[:]), o.Index))
				if want := ref.contains(refOutpoint(hh[:], o.Index)); want != res {
					violate("C09:bip37:matches_outpoint", "MatchesOutPoint disagrees with the BIP37 reference (txid ++ LE32 index)",
						map[string]interface{}{"step": step, "got": res, "bip37": want})
				}
			case "reload":
				m := mkMsg(o.Msg)
				for k := 1; k < o.Repeat; k++ {
					f.Reload(m)
				}
				f.Reload(m)
				if m == nil {
					ref = &refFilter{}
					coqOps = append(coqOps, "OReload None")
				} else {
					ref = refFromBytes(m.Filter, m.HashFuncs, m.Tweak, uint32(m.Flags))
					coqOps = append(coqOps, "OReload "+coqMsg(m.Filter, m.HashFuncs, m.Tweak, uint32(m.Flags)))
				}
				live = nil
			case "reloadself": // f.Reload(f.MsgFilterLoad()): same pointer, bits are kept
				m := f.MsgFilterLoad()
				f.Reload(m)
				if m == nil {
					coqOps = append(coqOps, "OReload None")
				} else {
					coqOps = append(coqOps, "OReload "+coqMsg(m.Filter, m.HashFuncs, m.Tweak, uint32(m.Flags)))
				}
				live = nil
			case "unload":
				for k := 1; k < o.Repeat; k++ {
					f.Unload()
				}
				f.Unload()
				ref = &refFilter{}
				live = nil
				coqOps = append(coqOps, "OUnload")
			case "isloaded":
				res = f.IsLoaded()
				coqOps = append(coqOps, "OIsLoaded")
				if res != ref.loaded {
					violate("C09:state:isloaded", "IsLoaded disagrees with the history", map[string]interface{}{"step": step, "got": res})
				}
			default:
				panic("harness: unknown op " + o.Op)
			}
		})
		if panicked {
			violate("C09:panic:"+o.Op, "bloom.Filter."+o.Op+" panicked: "+pmsg, map[string]interface{}{"step": step, "panic": pmsg})
			rep.Count("history:"+family, "", false)
			return
		}
		obs = append(obs, res)
		if item != nil {
			ref.insert(item)
			if f.IsLoaded() {
				live = append(live, item)
				nontrivial = nontrivial || len(ref.bits) > 0
				// the property itself: everything added since the last Reload still matches
				for _, it := range live {
					ok := false
					p, pm := vh.Catch(func() { ok = f.Matches(it) })
					if p {
						violate("C09:panic:matches", "Matches panicked: "+pm, map[string]interface{}{"step": step, "panic": pm})
						return
					}
					if !ok {
						violate("C09:false_negative", "an item added since the last Reload does not match",
							map[string]interface{}{"step": step, "item": vh.Hex(it)})
					}
				}
			} else {
				// unloaded: insertion ignored, nothing matches
				if f.Matches(item) || f.IsLoaded() {
					violate("C09:unloaded:inert", "an unloaded filter reacted to an insertion", map[string]interface{}{"step": step})
				}
			}
		}
		// bit-exactness after every step
		got := f.MsgFilterLoad()
		if (got != nil) != ref.loaded {
			violate("C09:state:loaded", "loaded state differs from the history", map[string]interface{}{"step": step})
		} else if got != nil {
			if want := ref.bytes(); !eqBytes(got.Filter, want) || got.HashFuncs != ref.nHash || got.Tweak != ref.tweak || uint32(got.Flags) != ref.flags {
				violate("C09:bip37:bits", "the filter's bit array differs from the BIP37 reference",
					map[string]interface{}{"step": step, "got": vh.Hex(clip(got.Filter)), "bip37": vh.Hex(clip(want))})
			}
		}
	}
	key := ""
	if nontrivial {
		j, _ := json.Marshal(h)
		d := sha256.Sum256(j) // distinct by the whole history; the digest keeps the table small (histories carry up to 36000-byte arrays)
		key = string(d[:])
	}
	rep.Count("history:"+family, key, nontrivial)
	if nontrivial && (family == "core" || family == "reload-stale" || family == "random") && len(h.Ops) <= 8 {
		rep.Sample(map[string]interface{}{"family": family, "history": clipHistory(h), "returned": obs}, 5)
	}
	for _, o := range h.Ops {
		if o.Repeat > 1 {
			corr = false
		}
	}
	if corr {
		initS := "None"
		if h.Init != nil {
			m := mkMsg(h.Init)
			initS = coqMsg(m.Filter, m.HashFuncs, m.Tweak, uint32(m.Flags))
		}
		obsS := make([]string, len(obs))
		for i, b := range obs {
			obsS[i] = vh.CoqBool(b)
		}
		cases.Add(fmt.Sprintf("Hist %s %s %s %s", initS, vh.CoqList(coqOps), vh.CoqList(obsS), coqFin(f.MsgFilterLoad())),
			map[string]interface{}{"kind": "history", "family": family, "history": clipHistory(h)})
	}
}

func clip(b []byte) []byte {
	if len(b) > 96 {
		return b[:96]
	}
	return b
}

func clipHistory(h history) interface{} {
	if h.Init != nil && len(h.Init.Filter) > 400 {
		c := *h.Init
		c.Filter = fmt.Sprintf("<%d bytes>", len(h.Init.Filter)/2)
		return map[string]interface{}{"init": c, "ops": h.Ops}
	}
	return h
}

// ---------------------------------------------------------------------------
// generators

var sizes = []int{1, 2, 3, 7, 8, 9, 36000}

func itemOfLen(r *vh.RNG, n int) []byte { return r.Bytes(n) }

var itemLens = []int{0, 1, 2, 3, 4, 5, 6, 7, 8, 9, 19, 20, 21, 32, 33, 34, 35, 36, 65}

// wrapTweaks returns tweaks for which hashNum*0xFBA4C795 + tweak crosses 2^32 for some hashNum < nHash
func wrapTweaks(r *vh.RNG, nHash uint32) []uint32 {
	out := []uint32{0, 1, 0x7fffffff, 0x80000000, 0x80000001, 0xfffffffe, 0xffffffff, r.U32()}
	if nHash > 0 {
		i := uint32(r.Intn(int(nHash)))
		p := i * 0xFBA4C795               // wrapped product
		out = append(out, -p, -p-1, -p+1) // sum = 0 (just wrapped), 2^32-1 (just not), 1
	}
	return out
}

func randOps(r *vh.RNG, n int, allowReload bool, size int) []opRec {
	var ops []opRec
	var added []opRec
	for len(ops) < n {
		switch c := r.Intn(20); {
		case c < 5:
			o := opRec{Op: "add", Data: vh.Hex(itemOfLen(r, vh.Pick(r, itemLens)))}
			ops, added = append(ops, o), append(added, o)
		case c < 7:
			o := opRec{Op: "addhash", Data: vh.Hex(r.Bytes(32))}
			ops, added = append(ops, o), append(added, o)
		case c < 9:
			o := opRec{Op: "addoutpoint", Data: vh.Hex(r.Bytes(32)), Index: vh.Pick(r, []uint32{0, 1, 255, 256, 65536, 0x01020304, 0xffffffff, r.U32()})}
			ops, added = append(ops, o), append(added, o)
		case c < 12: // query something added earlier (possibly before a reload)
			if len(added) == 0 {
				continue
			}
			a := vh.Pick(r, added)
			switch a.Op {
			case "addoutpoint":
				ops = append(ops, opRec{Op: "matchesoutpoint", Data: a.Data, Index: a.Index})
			default:
				ops = append(ops, opRec{Op: "matches", Data: a.Data})
			}
		case c < 14:
			ops = append(ops, opRec{Op: "matches", Data: vh.Hex(itemOfLen(r, vh.Pick(r, itemLens)))})
		case c < 15:
			ops = append(ops, opRec{Op: "matchesoutpoint", Data: vh.Hex(r.Bytes(32)), Index: r.U32()})
		case c < 16:
			ops = append(ops, opRec{Op: "isloaded"})
		case c < 17 && allowReload:
			ops = append(ops, opRec{Op: "unload"})
		case c < 19 && allowReload:
			if r.Intn(5) == 0 {
				ops = append(ops, opRec{Op: "reload"}) // Reload(nil)
			} else if r.Intn(4) == 0 {
				ops = append(ops, opRec{Op: "reloadself"})
			} else {
				sz := vh.Pick(r, []int{0, 1, 2, 3, 4, 7, 8, 9, 16, 32, size})
				if sz > 64 {
					sz = 64
				}
				nh := uint32(r.Intn(51))
				if r.Bool() {
					nh = uint32(r.Intn(7))
				}
				tw := vh.Pick(r, wrapTweaks(r, nh))
				fl := uint32(r.Intn(3))
				switch r.Intn(4) {
				case 0: // all-zero array
					ops = append(ops, opRec{Op: "reload", Msg: recOf(make([]byte, sz), nh, tw, fl)})
				case 1: // all-ones array ("match everything")
					ops = append(ops, opRec{Op: "reload", Msg: recOf(filled(sz, 0xff), nh, tw, fl)})
				case 2: // random bits
					ops = append(ops, opRec{Op: "reload", Msg: recOf(r.Bytes(sz), nh, tw, fl)})
				default: // populated by the reference with items that are queried afterwards
					var its [][]byte
					for k := 0; k < 1+r.Intn(3); k++ {
						it := itemOfLen(r, vh.Pick(r, itemLens))
						its = append(its, it)
					}
					ops = append(ops, opRec{Op: "reload", Msg: popMsg(sz, nh, tw, fl, its)})
					for _, it := range its {
						ops = append(ops, opRec{Op: "matches", Data: vh.Hex(it)})
						added = append(added, opRec{Op: "add", Data: vh.Hex(it)})
					}
				}
			}
		default:
			o := opRec{Op: "add", Data: vh.Hex(itemOfLen(r, r.Intn(40)))}
			ops, added = append(ops, o), append(added, o)
		}
	}
	return ops
}

// every power of two up to the wire limit with its neighbours, plus the limit itself
var pow2Sizes = func() []int {
	var out []int
	seen := map[int]bool{}
	for k := 0; k <= 15; k++ {
		for _, d := range []int{-1, 0, 1} {
			n := (1 << k) + d
			if n >= 1 && n <= 36000 && !seen[n] {
				seen[n] = true
				out = append(out, n)
			}
		}
	}
	return append(out, 35999, 36000)
}()

func filled(n int, b byte) []byte {
	out := make([]byte, n)
	for i := range out {
		out[i] = b
	}
	return out
}

// popMsg: a filterload populated by the REFERENCE (as a conforming peer would send it)
func popMsg(size int, nh, tweak, flags uint32, items [][]byte) *msgRec {
	ref := &refFilter{loaded: true, bits: make([]bool, 8*size), nHash: nh, tweak: tweak, flags: flags}
	for _, it := range items {
		ref.insert(it)
	}
	return recOf(ref.bytes(), nh, tweak, flags)
}

func murmurCase(seed uint32, data []byte, corr bool) {
	got := bloom.MurmurHash3(seed, data)
	rep.Count("murmur", fmt.Sprintf("m%d/%x", seed, data), true)
	if want := refMurmur(seed, data); got != want {
		rep.Violate("C09:murmur:reference", "bloom.MurmurHash3 differs from the MurmurHash3_x86_32 reference",
			map[string]interface{}{"seed": seed, "data": vh.Hex(data), "got": got, "reference": want})
	}
	if corr {
		cases.Add(fmt.Sprintf("Murmur %d %s %d", seed, vh.CoqBytes(data), got), map[string]interface{}{"kind": "murmur", "seed": seed, "data": vh.Hex(data), "impl": got})
	}
}

func bitIdxCase(size int, tweak, i uint32, data []byte, corr bool) {
	f := bloom.LoadFilter(&wire.MsgFilterLoad{Filter: make([]byte, size), HashFuncs: i + 1, Tweak: tweak})
	var got uint32
	if !builtWithVerifTag {
		return // production build: no hook; the bit numbers are observed through Add + MsgFilterLoad by the histories
	}
	if p, pm := vh.Catch(func() { got, _ = bitIndexHook(f, i, data) }); p {
		rep.Violate("C09:panic:hash", "Filter.hash panicked: "+pm, map[string]interface{}{"size": size, "tweak": tweak, "hashnum": i, "data": vh.Hex(data)})
		return
	}
	rep.Count("bitindex", fmt.Sprintf("b%d/%d/%d/%x", size, tweak, i, data), true)
	ref := &refFilter{loaded: true, bits: make([]bool, 8*size), tweak: tweak}
	if want := ref.bitNumber(i, data); uint64(got) != want {
		rep.Violate("C09:bip37:bit_number", "Filter.hash differs from BIP37's MurmurHash3(nHashNum*0xFBA4C795+nTweak) mod bit length",
			map[string]interface{}{"size": size, "tweak": tweak, "hashnum": i, "data": vh.Hex(data), "got": got, "bip37": want})
	}
	if corr {
		cases.Add(fmt.Sprintf("BitIdx %d %d %d %s %d", size, tweak, i, vh.CoqBytes(data), got),
			map[string]interface{}{"kind": "bitindex", "size": size, "tweak": tweak, "hashnum": i, "data": vh.Hex(data), "impl": got})
	}
}

const ln2Squared = math.Ln2 * math.Ln2

var sizingTable []interface{}

func sizingCase(elements, tweak uint32, fprate float64, flags uint32, corr bool) {
	var f *bloom.Filter
	if p, pm := vh.Catch(func() { f = bloom.NewFilter(elements, tweak, fprate, wire.BloomUpdateType(flags)) }); p {
		rep.Violate("C09:panic:newfilter", "NewFilter panicked: "+pm, map[string]interface{}{"elements": elements, "fprate": fmt.Sprint(fprate)})
		return
	}
	m := f.MsgFilterLoad()
	in := map[string]interface{}{"elements": elements, "fprate": fmt.Sprint(fprate), "fprate_bits": fmt.Sprintf("%016x", math.Float64bits(fprate)), "tweak": tweak, "flags": flags}
	rep.Count("sizing", fmt.Sprintf("s%d/%x", elements, math.Float64bits(fprate)), m != nil && len(m.Filter) > 0)
	if m == nil {
		rep.Violate("C09:sizing:unloaded", "NewFilter returned an unloaded filter", in)
		return
	}
	in["len"], in["hashfuncs"] = len(m.Filter), m.HashFuncs
	if len(m.Filter) > wire.MaxFilterLoadFilterSize || m.HashFuncs > wire.MaxFilterLoadHashFuncs {
		rep.Violate("C09:sizing:limits", "NewFilter produced a filter outside the wire limits", in)
	}
	for _, b := range m.Filter {
		if b != 0 {
			rep.Violate("C09:sizing:nonzero", "NewFilter produced a non-zero bit array", in)
			break
		}
	}
	if m.Tweak != tweak || uint32(m.Flags) != flags {
		rep.Violate("C09:sizing:params", "NewFilter did not store tweak/flags", in)
	}
	// the object NewFilter returns, used as it is: queries BEFORE any insertion (an all-zero array matches nothing
	// when there is at least one hash function and EVERYTHING when there is none or the array is empty), then an
	// insertion and queries again; same monitors and the same Coq case as a LoadFilter history with these fields
	{
		x := []byte(fmt.Sprintf("fresh/%d/%d", elements, tweak))
		txid := vh.Hex(append([]byte(fmt.Sprintf("%032d", elements)), x...)[:32])
		h := history{Init: recOf(make([]byte, len(m.Filter)), m.HashFuncs, m.Tweak, uint32(m.Flags)),
			NewFilter: &newFilterArgs{Elements: elements, Tweak: tweak, FprateBits: fmt.Sprintf("%016x", math.Float64bits(fprate)), Flags: flags},
			Ops: []opRec{{Op: "isloaded"}, {Op: "matches", Data: vh.Hex(x)}, {Op: "matchesoutpoint", Data: txid, Index: tweak}, {Op: "matches", Data: ""},
				{Op: "add", Data: vh.Hex(x)}, {Op: "matches", Data: vh.Hex(x)}, {Op: "matches", Data: vh.Hex(x[1:])},
				{Op: "addoutpoint", Data: txid, Index: tweak}, {Op: "matchesoutpoint", Data: txid, Index: tweak}}}
		// (in the 300000-case search sweep the large arrays - 288000 reference bits compared after each of the nine steps -
		// are used as they are for one case in sixteen; every case still has the sizing monitors above)
		if !cfg.Search || len(m.Filter) <= 4096 || rep.Histogram["sizing"]%16 == 0 {
			runHistory(h, corr && len(m.Filter) <= 4096, "newfilter-fresh")
		}
		if m.HashFuncs == 0 && len(m.Filter) > 0 {
			rep.Count("newfilter-fresh:k=0,non-empty", fmt.Sprintf("%d/%x", elements, math.Float64bits(fprate)), true)
		}
	}
	if len(sizingTable) < 60 && rep.Histogram["sizing"]%7 == 1 {
		sizingTable = append(sizingTable, in)
	}
	// the two float->uint32 conversions, re-evaluated with the same expressions (libm and the
	// conversion are not modelled; the model takes their results as given and applies the clamps)
	fp := fprate
	if fp > 1.0 {
		fp = 1.0
	}
	if fp < 1e-9 {
		fp = 1e-9
	}
	convLen := uint32(-1 * float64(elements) * math.Log(fp) / ln2Squared)
	arg := uint32(len(m.Filter)) * 8
	convHash := uint32(float64(arg) / float64(elements) * math.Ln2)
	if corr {
		cases.Add(fmt.Sprintf("Sizing %d %d %d %d %d %s", convLen, arg, convHash, tweak, flags, coqFin(m)),
			map[string]interface{}{"kind": "sizing", "input": in, "conv_len": convLen, "conv_hash": convHash})
	}
}

// coreVectors: Bitcoin Core's bloom_tests.cpp serialised vectors
func coreVectors() {
	items := []string{"99108ad8ed9bb6274d3980bab5a85c048f0950c8", "b5a2c786d9ef4658287ced5914b37a1b4aa32eee", "b9300670b4c5366e95b2699e8b18bc75e5f729c5"}
	absent := "19108ad8ed9bb6274d3980bab5a85c048f0950c8"
	for _, v := range []struct {
		tweak uint32
		want  string
	}{{0, "614e9b"}, {2147483649, "ce4299"}} {
		h := history{Init: recOf(make([]byte, 3), 5, v.tweak, 1)}
		for _, it := range items {
			h.Ops = append(h.Ops, opRec{Op: "add", Data: it}, opRec{Op: "matches", Data: it})
		}
		h.Ops = append(h.Ops, opRec{Op: "matches", Data: absent})
		runHistory(h, true, "core")
		f := bloom.LoadFilter(mkMsg(h.Init))
		for _, it := range items {
			b, _ := hex.DecodeString(it)
			f.Add(b)
		}
		ab, _ := hex.DecodeString(absent)
		if got := vh.Hex(f.MsgFilterLoad().Filter); got != v.want || f.Matches(ab) {
			rep.Violate("C09:core:vector", "Bitcoin Core's serialised bloom vector not reproduced", map[string]interface{}{"tweak": v.tweak, "got": got, "want": v.want})
		}
	}
	// bloom_create_insert_key: sizing 2 elements, 0.001 -> 8 hash functions over 3 bytes
	f := bloom.NewFilter(2, 0, 0.001, wire.BloomUpdateAll)
	if m := f.MsgFilterLoad(); len(m.Filter) != 3 || m.HashFuncs != 8 {
		rep.Violate("C09:core:sizing", "NewFilter(2, 0, 0.001) is not Core's 3 bytes / 8 hash functions", map[string]interface{}{"len": len(m.Filter), "hashfuncs": m.HashFuncs})
	}
	f = bloom.NewFilter(3, 0, 0.01, wire.BloomUpdateAll)
	if m := f.MsgFilterLoad(); len(m.Filter) != 3 || m.HashFuncs != 5 {
		rep.Violate("C09:core:sizing", "NewFilter(3, 0, 0.01) is not Core's 3 bytes / 5 hash functions", map[string]interface{}{"len": len(m.Filter), "hashfuncs": m.HashFuncs})
	}
}

// newFilterThenReload: a filter straight from NewFilter (all-zero) that is Reloaded with a peer's populated
// filterload must answer for the new contents
func newFilterThenReload(r *vh.RNG) {
	for j := 0; j < 12; j++ {
		f := bloom.NewFilter(uint32(1+r.Intn(20)), r.U32(), vh.Pick(r, []float64{0.5, 0.01, 0.0001}), wire.BloomUpdateAll)
		nh := uint32(1 + r.Intn(6))
		tw := r.U32()
		its := [][]byte{r.Bytes(20), r.Bytes(32)}
		m := popMsg(vh.Pick(r, []int{1, 3, 8, 32}), nh, tw, 1, its)
		m0 := f.MsgFilterLoad()
		equiv := history{Init: recOf(make([]byte, len(m0.Filter)), m0.HashFuncs, m0.Tweak, uint32(m0.Flags)),
			Ops: []opRec{{Op: "reload", Msg: m}, {Op: "matches", Data: vh.Hex(its[0])}, {Op: "matches", Data: vh.Hex(its[1])}}}
		f.Reload(mkMsg(m))
		rep.Count("history:newfilter-reload", fmt.Sprintf("nfr%d", j), true)
		for _, it := range its {
			if !f.Matches(it) {
				rep.Violate("C09:bip37:matches", "Matches disagrees with the BIP37 reference",
					map[string]interface{}{"scenario": "NewFilter then Reload(populated filterload) then Matches(member)", "reloaded": m, "item": vh.Hex(it), "got": false, "bip37": true, "history": equiv})
			}
		}
	}
}

// structuredTxids: ids with regular contents - constant bytes, position markers, one marked byte at every
// position, 32-bit words repeated or placed at every word-aligned offset (a dictionary of values programmers
// single out: all-zero, all-ones, sign bits, well-known debug constants; both byte orders) - next to random ones
func structuredTxids(r *vh.RNG, thorough bool) [][]byte {
	var out [][]byte
	for _, b := range []byte{0x00, 0xff, 0x01, 0x80, 0x7f} {
		out = append(out, filled(32, b))
	}
	asc, desc, hi := make([]byte, 32), make([]byte, 32), make([]byte, 32)
	for i := range asc {
		asc[i], desc[i], hi[i] = byte(i), byte(31-i), 0x80|byte(i)
	}
	out = append(out, asc, desc, hi)
	for pos := 0; pos < 32; pos++ {
		a := make([]byte, 32)
		a[pos] = 0xff
		b := r.Bytes(32)
		b[pos] = 0
		out = append(out, a, b)
	}
	words := []uint32{0, 0xffffffff, 0x80000000, 0x7fffffff, 1, 0x01000000, 0xdeadbeef, 0xcafebabe, 0xfeedface, 0xbaadf00d, 0x0badc0de, 0xdeadc0de,
		0x8badf00d, 0xdefec8ed, 0xfaceb00c, 0xabadcafe, 0xdeadfa11, 0x1badb002, 0xe8f3e1e3, 0xd9b4bef9, 0x0709110b, 0xdab5bffa}
	nonzero := func(n int) []byte {
		b := r.Bytes(n)
		for i := range b {
			if b[i] == 0 {
				b[i] = byte(1 + i)
			}
		}
		return b
	}
	for _, w := range words {
		rep := make([]byte, 32)
		for k := 0; k < 8; k++ {
			binary.BigEndian.PutUint32(rep[4*k:], w)
		}
		out = append(out, rep)
		for k := 0; k < 8; k++ {
			if !thorough && k != 0 && k != 7 && k != int(w%6)+1 {
				continue
			}
			be, le := nonzero(32), nonzero(32)
			binary.BigEndian.PutUint32(be[4*k:], w)
			binary.LittleEndian.PutUint32(le[4*k:], w)
			out = append(out, be, le)
		}
	}
	n := 60
	if thorough {
		n = 600
	}
	for i := 0; i < n; i++ {
		out = append(out, r.Bytes(32))
	}
	return out
}

// outpointBytesFamily: on an all-zero 64-byte / 16-function filter the array after ONE AddOutPoint is a fingerprint
// of the byte string that was hashed; it must be the fingerprint of txid ++ LE32(index) (reference; and, in the
// hooked build, exactly the bit numbers Filter.hash assigns to those 36 bytes); MatchesOutPoint must find an
// outpoint a conforming peer inserted and must not find its one-byte neighbours
func outpointBytesFamily(r *vh.RNG, corrAll bool) {
	idxs := []uint32{0, 1, 0xff, 0x100, 0xffff, 0x10000, 0x10001, 0xffffff, 0x1000000, 0x7fffffff, 0x80000000, 0xfffffffe, 0xffffffff, 0x01020304, 0xdeadbeef}
	ids := structuredTxids(r, cfg.Thorough() || cfg.Search)
	const size, nh = 64, 16
	for j, id := range ids {
		pick := []uint32{vh.Pick(r, idxs), vh.Pick(r, idxs)}
		if cfg.Thorough() || cfg.Search || j < 8 {
			pick = idxs
		}
		for _, idx := range pick {
			tw := r.U32()
			ser := refOutpoint(id, idx)
			near := append([]byte{}, id...)
			near[r.Intn(32)] ^= 1 << uint(r.Intn(8))
			h := history{Init: recOf(make([]byte, size), nh, tw, 0), Ops: []opRec{
				{Op: "addoutpoint", Data: vh.Hex(id), Index: idx}, {Op: "matchesoutpoint", Data: vh.Hex(id), Index: idx}, {Op: "matches", Data: vh.Hex(ser)},
				{Op: "matchesoutpoint", Data: vh.Hex(near), Index: idx}, {Op: "matchesoutpoint", Data: vh.Hex(id), Index: idx ^ (1 << uint(r.Intn(32)))},
				// a conforming peer's filter holding this outpoint (other tweak)
				{Op: "reload", Msg: popMsg(size, nh, tw^0x5a5a5a5a, 0, [][]byte{ser})}, {Op: "matchesoutpoint", Data: vh.Hex(id), Index: idx},
				{Op: "matchesoutpoint", Data: vh.Hex(near), Index: idx}}}
			runHistory(h, corrAll && j%40 == 3 && idx == pick[0], "opbytes")
			if builtWithVerifTag {
				f := bloom.LoadFilter(&wire.MsgFilterLoad{Filter: make([]byte, size), HashFuncs: nh, Tweak: tw})
				var hh chainhash.Hash
				copy(hh[:], id)
				want := make([]byte, size)
				p, pm := vh.Catch(func() {
					f.AddOutPoint(wire.NewOutPoint(&hh, idx))
					for i := uint32(0); i < nh; i++ {
						b, _ := bitIndexHook(f, i, ser)
						want[b>>3] |= 1 << (b & 7)
					}
				})
				rep.Count("opbytes:hook", fmt.Sprintf("%x/%d/%d", id, idx, tw), true)
				if p {
					rep.Violate("C09:panic:addoutpoint", "AddOutPoint panicked: "+pm, map[string]interface{}{"history": h})
				} else if got := f.MsgFilterLoad().Filter; !bytes.Equal(got, want) {
					rep.Violate("C09:bip37:outpoint_bytes", "the bits AddOutPoint sets are not the bit numbers Filter.hash assigns to txid ++ LE32(index): other bytes were hashed",
						map[string]interface{}{"history": h, "txid": vh.Hex(id), "index": idx, "expected_hashed_bytes": vh.Hex(ser)})
				}
			}
		}
	}
}

// ---------------------------------------------------------------------------
// the production configuration (Round 3).  bin/check builds this command with -tags verif; code of the library
// that is compiled only WITHOUT that tag is then not in this binary.  The hooked binary therefore builds the same
// command a second time with no tag at all (what every user of the library compiles) and runs all monitors that
// need no hook in it; its violations are merged under their own keys, the replay says which build showed them.
func harnessDir() string {
	if exe, err := os.Executable(); err == nil {
		d := filepath.Dir(filepath.Dir(exe))
		if _, err := os.Stat(filepath.Join(d, "go.mod")); err == nil {
			return d
		}
	}
	wd, _ := os.Getwd()
	return wd
}

func runProdChild(extra ...string) {
	if !builtWithVerifTag {
		return
	}
	dir := harnessDir()
	bin := filepath.Join(dir, "bin", "c09_prod")
	build := exec.Command("go", "build", "-o", bin, "./cmd/c09")
	build.Dir = dir
	if out, err := build.CombinedOutput(); err != nil {
		rep.Extra["production_build"] = "go build (no tags) of cmd/c09 failed: " + err.Error() + ": " + string(clip(out))
		fmt.Fprintln(os.Stderr, "c09: production build failed:", err, string(out))
		return
	}
	out := filepath.Join(cfg.Out, "prod")
	args := append([]string{"-prodchild", "-seed", fmt.Sprint(cfg.Seed), "-tier", cfg.Tier, "-out", out}, extra...)
	cmd := exec.Command(bin, args...)
	cmd.Dir = dir
	cmd.Stderr = os.Stderr
	if err := cmd.Run(); err != nil {
		rep.Extra["production_build"] = "run failed: " + err.Error()
	}
	raw, err := os.ReadFile(filepath.Join(out, "report.json"))
	if err != nil {
		return
	}
	var pr vh.Report
	if json.Unmarshal(raw, &pr) != nil {
		return
	}
	os.RemoveAll(out)
	rep.Extra["production_build"] = fmt.Sprintf("cmd/c09 rebuilt without any build tag and run as a child: %d executions, %d violations", pr.Evaluations, len(pr.Violations))
	rep.Histogram["production-build executions"] = pr.Evaluations
	for _, v := range pr.Violations {
		r, _ := v.Replay.(map[string]interface{})
		if r == nil {
			r = map[string]interface{}{"input": v.Replay}
		}
		r["build"] = "production configuration (go build without -tags verif); the hooked build may not show it"
		rep.Violate(v.Key, v.What, r)
	}
}

func main() {
	prodChild := flag.Bool("prodchild", false, "internal: monitors only (the production-configuration child)")
	cfg = vh.ParseFlags("C09")
	rep = vh.NewReport(cfg)
	rep.Rule = "a MurmurHash3/bit-index evaluation is non-trivial always (distinct by seed/tweak/size/data); a history is non-trivial when at least one item was inserted into a loaded filter with a non-empty array (distinct by the whole history); a sizing case when the resulting array is non-empty"
	cases = vh.NewCases(cfg, "Run.Run_C09", 300)
	rng := vh.NewRNG(cfg.Seed)

	if cfg.Replay != "" {
		raw, err := os.ReadFile(cfg.Replay)
		vh.Must(err)
		var rp struct {
			Input struct {
				History *history `json:"history"`
			} `json:"input"`
		}
		vh.Must(json.Unmarshal(raw, &rp))
		if rp.Input.History != nil {
			runHistory(*rp.Input.History, false, "replay")
		}
		runProdChild("-replay", cfg.Replay)
		vh.Must(rep.Write(cfg))
		return
	}

	corrAll := !cfg.Search && !*prodChild

	// wire limits as linked
	cases.Add(fmt.Sprintf("Limits %d %d", wire.MaxFilterLoadFilterSize, wire.MaxFilterLoadHashFuncs), map[string]interface{}{"kind": "limits"})

	// --- MurmurHash3: every length mod 4, seeds incl. extremes
	r := rng.Fork("murmur")
	seeds := []uint32{0, 1, 0xfba4c795, 0x7fffffff, 0x80000000, 0xffffffff}
	for n := 0; n <= 17; n++ {
		for _, s := range seeds {
			murmurCase(s, r.Bytes(n), corrAll && (n < 9 || s == 0xffffffff))
		}
		murmurCase(r.U32(), make([]byte, n), corrAll)
		ff := make([]byte, n)
		for i := range ff {
			ff[i] = 0xff
		}
		murmurCase(r.U32(), ff, corrAll)
	}
	nm := cfg.Scale(150, 3000)
	if cfg.Search {
		nm = 200000
	}
	for i := 0; i < nm; i++ {
		n := r.Intn(70)
		if i%20 == 0 {
			n = r.Intn(600)
		}
		murmurCase(r.U32(), r.Bytes(n), corrAll && i < cfg.Scale(150, 600))
	}

	// items at and beyond the 8/16/20-bit length boundaries: the length is folded into the finaliser and
	// drives the block count (monitors only: a 64 KiB list literal is too slow to parse in Coq; the model's
	// answer for such items was compared by hand, see design/notes_C09.md "Review round 2")
	for _, n := range []int{255, 256, 257, 258, 259, 65535, 65536, 65537, 65538, 65539, 131071, 131073, 1<<20 + 3} {
		murmurCase(r.U32(), r.Bytes(n), false)
		rep.Count("murmur:long", fmt.Sprint(n), true)
	}

	// --- bit indices: sizes x wrapping tweaks x hash numbers
	r = rng.Fork("bitidx")
	for _, sz := range sizes {
		for _, i := range []uint32{0, 1, 2, 3, 4, 5, 17, 49} {
			for k, tw := range wrapTweaks(r, i+1) {
				bitIdxCase(sz, tw, i, itemOfLen(r, vh.Pick(r, itemLens)), corrAll && (k%3 == int(i)%3 || cfg.Thorough()))
			}
		}
	}
	nb := cfg.Scale(100, 2000)
	if cfg.Search {
		nb = 100000
	}
	for j := 0; j < nb; j++ {
		sz := vh.Pick(r, []int{1, 2, 3, 7, 8, 9, 36000, 1 + r.Intn(36000), 1 + r.Intn(64)})
		i := uint32(r.Intn(50))
		// a tweak that makes exactly this hash number wrap (or just not)
		p := i * 0xFBA4C795
		tw := vh.Pick(r, []uint32{-p, -p - 1, -p + 1, r.U32(), r.U32()})
		bitIdxCase(sz, tw, i, itemOfLen(r, vh.Pick(r, itemLens)), corrAll && j < cfg.Scale(100, 400))
	}

	// --- histories
	coreVectors()
	newFilterThenReload(rng.Fork("nfreload"))
	r = rng.Fork("hist")
	// every size x every hash-function count 0..50: insert items of every length class, query them
	for _, sz := range sizes {
		for nh := uint32(0); nh <= 50; nh++ {
			tws := wrapTweaks(r, nh)
			tw := tws[r.Intn(len(tws))]
			h := history{Init: recOf(make([]byte, sz), nh, tw, uint32(r.Intn(3)))}
			for _, l := range []int{0, 1, 2, 3, 4 + r.Intn(60)} {
				it := vh.Hex(itemOfLen(r, l))
				h.Ops = append(h.Ops, opRec{Op: "add", Data: it}, opRec{Op: "matches", Data: it})
			}
			txid := vh.Hex(r.Bytes(32))
			idx := vh.Pick(r, []uint32{0, 1, 0x01020304, 0xffffffff})
			h.Ops = append(h.Ops, opRec{Op: "addoutpoint", Data: txid, Index: idx}, opRec{Op: "matchesoutpoint", Data: txid, Index: idx},
				opRec{Op: "matches", Data: vh.Hex(refOutpoint(mustHex(txid), idx))}, opRec{Op: "matches", Data: vh.Hex(r.Bytes(20))})
			corr := corrAll && (sz != 36000 || nh%10 == 0 || nh == 49) && (cfg.Thorough() || int(nh)%3 == sz%3 || nh <= 1 || nh >= 49)
			runHistory(h, corr, "grid")
		}
	}
	// long items (script pushes go up to 520 bytes; Add accepts anything): 64 KiB and more, through Add/Matches
	// (255..257: one-byte length; 519..524: wire.MaxFilterAddDataSize = 520, the filteradd payload limit, is NOT a
	// limit of Filter.Add; 4099, 65535..: two-byte length and beyond)
	for _, n := range []int{255, 256, 257, 519, 520, 521, 522, 523, 524, 1000, 4099, 65535, 65536, 65537, 70000} {
		big := vh.Hex(r.Bytes(n))
		h := history{Init: recOf(make([]byte, vh.Pick(r, []int{3, 64, 2000, 36000})), uint32(1+r.Intn(50)), r.U32(), 0),
			Ops: []opRec{{Op: "matches", Data: big}, {Op: "add", Data: big}, {Op: "matches", Data: big}, {Op: "matches", Data: big[:len(big)-2]}}}
		runHistory(h, corrAll && n <= 1000 && (n%2 == 1 || cfg.Thorough()), "longitem")
	}
	// random histories with Reload/Unload, all starting states
	nh := cfg.Scale(400, 6000)
	if cfg.Search {
		nh = 60000
	}
	for j := 0; j < nh; j++ {
		var h history
		sz := vh.Pick(r, []int{0, 1, 2, 3, 7, 8, 9, 1 + r.Intn(40)})
		if j%40 == 7 {
			sz = 36000
		}
		switch r.Intn(12) {
		case 0:
			h.Init = nil // LoadFilter(nil): starts unloaded
		default:
			b := make([]byte, sz)
			if r.Intn(4) == 0 && sz <= 64 {
				b = r.Bytes(sz)
			}
			k := uint32(r.Intn(51))
			if r.Intn(3) == 0 {
				k = uint32(r.Intn(6))
			}
			h.Init = recOf(b, k, vh.Pick(r, wrapTweaks(r, k)), uint32(r.Intn(3)))
		}
		h.Ops = randOps(r, 3+r.Intn(14), true, sz)
		runHistory(h, corrAll && j < cfg.Scale(300, 1200), "random")
	}
	// power-of-two sizes and their neighbours: bit numbers, and a filter populated by the REFERENCE queried
	// through the implementation (what a peer's filterload looks like)
	for si, sz := range pow2Sizes {
		for t := 0; t < 3; t++ {
			i := uint32(r.Intn(50))
			p := i * 0xFBA4C795
			bitIdxCase(sz, vh.Pick(r, []uint32{0, -p, -p - 1, r.U32()}), i, itemOfLen(r, vh.Pick(r, itemLens)), corrAll && (t == 0 || cfg.Thorough()))
		}
		nhf := uint32(1 + r.Intn(8))
		tw := vh.Pick(r, wrapTweaks(r, nhf))
		var its [][]byte
		h := history{}
		for k := 0; k < 3; k++ {
			it := itemOfLen(r, vh.Pick(r, itemLens))
			its = append(its, it)
		}
		h.Init = popMsg(sz, nhf, tw, 0, its)
		for _, it := range its {
			h.Ops = append(h.Ops, opRec{Op: "matches", Data: vh.Hex(it)})
		}
		extra := itemOfLen(r, 20)
		h.Ops = append(h.Ops, opRec{Op: "matches", Data: vh.Hex(r.Bytes(20))}, opRec{Op: "add", Data: vh.Hex(extra)}, opRec{Op: "matches", Data: vh.Hex(extra)})
		runHistory(h, corrAll && (sz <= 1100 || si%6 == 0 || cfg.Thorough()), "refpop")
	}
	// Reload over an all-zero / all-ones / fresh filter WITHOUT Unload in between (stale cached summaries)
	for j := 0; j < cfg.Scale(60, 600); j++ {
		sz := vh.Pick(r, []int{1, 2, 3, 4, 8, 9, 16, 33, 64})
		nh0 := uint32(1 + r.Intn(6))
		var h history
		switch j % 3 {
		case 0:
			h.Init = recOf(make([]byte, sz), nh0, r.U32(), uint32(r.Intn(3)))
		case 1:
			h.Init = recOf(filled(sz, 0xff), nh0, r.U32(), uint32(r.Intn(3)))
		default:
			h.Init = recOf(r.Bytes(sz), nh0, r.U32(), uint32(r.Intn(3)))
		}
		if r.Bool() {
			h.Ops = append(h.Ops, opRec{Op: "matches", Data: vh.Hex(r.Bytes(8))})
		}
		sz2 := vh.Pick(r, []int{1, 2, 3, 4, 8, 9, 16, 33, 64})
		nh2 := uint32(1 + r.Intn(6))
		tw2 := vh.Pick(r, wrapTweaks(r, nh2))
		its := [][]byte{itemOfLen(r, vh.Pick(r, itemLens)), itemOfLen(r, 20)}
		switch (j / 3) % 3 {
		case 0:
			h.Ops = append(h.Ops, opRec{Op: "reload", Msg: popMsg(sz2, nh2, tw2, 1, its)})
		case 1:
			h.Ops = append(h.Ops, opRec{Op: "reload", Msg: recOf(make([]byte, sz2), nh2, tw2, 1)})
		default:
			h.Ops = append(h.Ops, opRec{Op: "reload", Msg: recOf(filled(sz2, 0xff), nh2, tw2, 1)})
		}
		y := itemOfLen(r, vh.Pick(r, itemLens))
		h.Ops = append(h.Ops, opRec{Op: "matches", Data: vh.Hex(its[0])}, opRec{Op: "matches", Data: vh.Hex(its[1])},
			opRec{Op: "add", Data: vh.Hex(y)}, opRec{Op: "matches", Data: vh.Hex(y)}, opRec{Op: "matches", Data: vh.Hex(r.Bytes(12))})
		if r.Bool() { // and once more over the now populated filter
			h.Ops = append(h.Ops, opRec{Op: "reload", Msg: recOf(make([]byte, sz), nh0, r.U32(), 0)}, opRec{Op: "matches", Data: vh.Hex(y)},
				opRec{Op: "add", Data: vh.Hex(y)}, opRec{Op: "matches", Data: vh.Hex(y)})
		}
		runHistory(h, corrAll && j < cfg.Scale(60, 300), "reload-stale")
	}
	// the SAME item immediately before and after a Reload / Unload+Reload with other parameters (size, tweak, hash
	// function count): anything remembered about "the last item" across calls must not survive the new message
	for j := 0; j < cfg.Scale(40, 400); j++ {
		x := itemOfLen(r, vh.Pick(r, itemLens))
		sz1, sz2 := vh.Pick(r, []int{1, 2, 3, 8, 9, 33, 64}), vh.Pick(r, []int{1, 2, 3, 8, 9, 33, 64, 36000})
		nh1, nh2 := uint32(1+r.Intn(8)), uint32(1+r.Intn(8))
		tw1 := r.U32()
		tw2 := vh.Pick(r, []uint32{tw1, tw1 + 1, r.U32()})
		h := history{Init: recOf(make([]byte, sz1), nh1, tw1, 0)}
		first := vh.Pick(r, []string{"add", "matches"})
		h.Ops = append(h.Ops, opRec{Op: first, Data: vh.Hex(x)})
		var m2 *msgRec
		switch j % 3 {
		case 0:
			m2 = popMsg(sz2, nh2, tw2, 1, [][]byte{x}) // the peer's new filter contains x
		case 1:
			m2 = recOf(make([]byte, sz2), nh2, tw2, 1) // ... does not contain it
		default:
			m2 = popMsg(sz2, nh2, tw2, 1, [][]byte{itemOfLen(r, 20)})
		}
		if j%5 == 0 {
			h.Ops = append(h.Ops, opRec{Op: "unload"}, opRec{Op: "matches", Data: vh.Hex(x)})
		}
		h.Ops = append(h.Ops, opRec{Op: "reload", Msg: m2}, opRec{Op: "matches", Data: vh.Hex(x)}, opRec{Op: "add", Data: vh.Hex(x)},
			opRec{Op: "matches", Data: vh.Hex(x)})
		if len(x) == 32 { // the same bytes through the hash and outpoint entry points
			h.Ops = append(h.Ops, opRec{Op: "addhash", Data: vh.Hex(x)}, opRec{Op: "addoutpoint", Data: vh.Hex(x), Index: 7}, opRec{Op: "matchesoutpoint", Data: vh.Hex(x), Index: 7})
		}
		runHistory(h, corrAll && (sz2 <= 64) && j < cfg.Scale(30, 150), "reload-sameitem")
	}
	// ... and with a RUN of n replacements (Reload/Unload calls) in between, n around the widths a generation
	// counter could have (2^8, 2^16; Reload is O(1)); nothing else is hashed in between
	for _, n := range []int{2, 255, 256, 257, 65535, 65536, 65537, 131072} {
		for v := 0; v < 2; v++ {
			x := itemOfLen(r, vh.Pick(r, []int{20, 32, 36}))
			szA, szB := vh.Pick(r, []int{8, 64}), vh.Pick(r, []int{3, 4096})
			a := recOf(make([]byte, szA), 5, 1+r.U32()%1000, 0)
			b := popMsg(szB, uint32(1+r.Intn(8)), r.U32(), 1, [][]byte{x}) // the final filter contains x
			h := history{Init: a, Ops: []opRec{{Op: vh.Pick(r, []string{"add", "matches"}), Data: vh.Hex(x)}}}
			if v == 0 { // n-1 times Unload, then Reload(b): n replacements
				h.Ops = append(h.Ops, opRec{Op: "unload", Repeat: n - 1}, opRec{Op: "matches", Data: vh.Hex(x)}, opRec{Op: "reload", Msg: b})
			} else { // n-1 times Reload(a'), then Reload(b)
				h.Ops = append(h.Ops, opRec{Op: "reload", Msg: recOf(make([]byte, szA), 5, r.U32(), 0), Repeat: n - 1}, opRec{Op: "reload", Msg: b})
			}
			h.Ops = append(h.Ops, opRec{Op: "matches", Data: vh.Hex(x)}, opRec{Op: "add", Data: vh.Hex(x)}, opRec{Op: "matches", Data: vh.Hex(x)})
			runHistory(h, corrAll && n <= 2, fmt.Sprintf("reload-run:%d", n))
		}
	}
	// unloaded filters: no reload at all
	for j := 0; j < cfg.Scale(20, 200); j++ {
		h := history{Init: nil, Ops: randOps(r, 2+r.Intn(8), false, 0)}
		if j%2 == 0 {
			h.Init = recOf(r.Bytes(3), 5, r.U32(), 0)
			h.Ops = append([]opRec{{Op: "unload"}}, h.Ops...)
		}
		runHistory(h, corrAll, "unloaded")
	}
	// empty arrays (the repaired division by zero): every operation
	for j := 0; j < cfg.Scale(12, 100); j++ {
		h := history{Init: recOf([]byte{}, uint32(r.Intn(51)), r.U32(), uint32(r.Intn(3))), Ops: randOps(r, 2+r.Intn(8), j%3 == 0, 0)}
		runHistory(h, corrAll, "empty")
	}
	// Filter == nil slice (as a decoder would leave an absent field)
	{
		f := bloom.LoadFilter(&wire.MsgFilterLoad{Filter: nil, HashFuncs: 1})
		if p, pm := vh.Catch(func() { f.Add([]byte{1}); _ = f.Matches([]byte{1}) }); p {
			rep.Violate("C09:panic:matches", "Matches/Add on a nil bit array panicked: "+pm, map[string]interface{}{"history": history{Init: recOf([]byte{}, 1, 0, 0), Ops: []opRec{{Op: "matches", Data: "01"}}}})
		}
	}

	// --- every small item length through every entry point (Round 3): the EMPTY item first.  A query before the
	// insertion, the insertion, the query, near misses (one byte shorter / longer / last byte changed); zero-filled and
	// random contents; AddHash of the all-zero hash, AddOutPoint of the null outpoint and of (zero hash, 0)
	r = rng.Fork("smalllen")
	for _, shape := range []struct {
		sz int
		nh uint32
	}{{3, 5}, {8, 1}, {64, 11}, {1, 50}, {36000, 50}} {
		for n := 0; n <= 72; n++ {
			if shape.sz == 36000 && n > 8 && !cfg.Thorough() && !cfg.Search {
				continue
			}
			for v := 0; v < 2; v++ {
				x := r.Bytes(n)
				if v == 1 {
					x = make([]byte, n)
				}
				tw := vh.Pick(r, wrapTweaks(r, shape.nh))
				h := history{Init: recOf(make([]byte, shape.sz), shape.nh, tw, uint32(r.Intn(3))),
					Ops: []opRec{{Op: "matches", Data: vh.Hex(x)}, {Op: "add", Data: vh.Hex(x)}, {Op: "matches", Data: vh.Hex(x)},
						{Op: "matches", Data: vh.Hex(append(append([]byte{}, x...), 0))}}}
				if n > 0 {
					y := append([]byte{}, x...)
					y[n-1] ^= 0x80
					h.Ops = append(h.Ops, opRec{Op: "matches", Data: vh.Hex(x[:n-1])}, opRec{Op: "matches", Data: vh.Hex(y)})
				}
				// the same item offered by a peer's populated filter
				h.Ops = append(h.Ops, opRec{Op: "reload", Msg: popMsg(shape.sz, shape.nh, tw+1, 0, [][]byte{x})}, opRec{Op: "matches", Data: vh.Hex(x)})
				runHistory(h, corrAll && shape.sz <= 64 && (n <= 5 || (n+v)%9 == 0) && (v == 0 || n <= 1), "smalllen")
			}
		}
		zero := strings.Repeat("00", 32)
		h := history{Init: recOf(make([]byte, shape.sz), shape.nh, r.U32(), 1), Ops: []opRec{
			{Op: "addhash", Data: zero}, {Op: "matches", Data: zero}, {Op: "matchesoutpoint", Data: zero, Index: 0},
			{Op: "addoutpoint", Data: zero, Index: 0xffffffff}, {Op: "matchesoutpoint", Data: zero, Index: 0xffffffff}, {Op: "matchesoutpoint", Data: zero, Index: 0},
			{Op: "addoutpoint", Data: zero, Index: 0}, {Op: "matchesoutpoint", Data: zero, Index: 0}, {Op: "matches", Data: zero + "00000000"},
			{Op: "add", Data: ""}, {Op: "matches", Data: ""}}}
		runHistory(h, corrAll && shape.sz <= 64, "smalllen")
	}

	// --- the 36 bytes AddOutPoint / MatchesOutPoint feed to the hash, for random AND structured txids (Round 3)
	outpointBytesFamily(rng.Fork("opbytes"), corrAll)

	// --- sizing
	r = rng.Fork("sizing")
	elems := []uint32{0, 1, 2, 3, 10, 100, 1000, 10000, 199626, 199627, 288000, 300000, 1000000, 100000000, 1 << 31, 0xfffffffe, 0xffffffff}
	rates := []float64{math.NaN(), math.Inf(1), math.Inf(-1), 0, math.Copysign(0, -1), -1, -1e300, 5e-324, 1e-300, 1e-10, 0.99e-9, 1e-9, 1.01e-9, 1e-6, 0.001, 0.01, 0.5, 0.500001, 0.6, 0.75, 0.9, 0.999999, math.Nextafter(1, 0), 1.0, math.Nextafter(1, 2), 20.9999999769, 1e300, math.MaxFloat64}
	for _, e := range elems {
		for k, p := range rates {
			sizingCase(e, r.U32(), p, uint32(r.Intn(3)), corrAll && (k%4 == int(e)%4 || cfg.Thorough()))
		}
	}
	ns := cfg.Scale(100, 3000)
	if cfg.Search {
		ns = 300000
	}
	for j := 0; j < ns; j++ {
		e := vh.Pick(r, []uint32{uint32(r.Intn(20)), uint32(r.Intn(100000)), r.U32()})
		p := vh.Pick(r, []float64{math.Float64frombits(r.U64()), float64(r.Intn(1000001)) / 1e6, math.Pow(10, -float64(r.Intn(12))) * (0.5 + float64(r.Intn(1000))/1000)})
		sizingCase(e, r.U32(), p, uint32(r.Intn(3)), corrAll && j < cfg.Scale(60, 300))
	}
	rep.Extra["sizing_observed"] = sizingTable
	rep.Extra["note_sizing"] = "float64->uint32 conversion of out-of-range values (elements*ln(fprate) beyond 2^32, NaN from elements=0 or fprate=NaN) is implementation-defined in Go; the clamps minUint32(.,36000*8)/8 and minUint32(.,50) bound the result whatever it is (theorem C09_sizing_within_limits); values above are what this platform produced"

	runProdChild() // at the driver's tier (the search pass runs with -tier thorough); the wide sweeps stay in the hooked binary
	if !cfg.Search && !*prodChild {
		_, err := cases.Flush()
		vh.Must(err)
	}
	rep.Cases = cases.Len()
	vh.Must(rep.Write(cfg))
	fmt.Printf("c09: %d executions, %d distinct non-trivial, %d cases, %d violations\n", rep.Evaluations, rep.Nontrivial, cases.Len(), len(rep.Violations))
}

func mustHex(s string) []byte {
	b, err := hex.DecodeString(s)
	if err != nil {
		panic(err)
	}
	return b
}

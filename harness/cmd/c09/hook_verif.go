//go:build verif

package main

import "github.com/gcash/bchutil/bloom"

// builtWithVerifTag: this binary links the repository's verif_export.go hooks (bin/check builds it with -tags verif).
const builtWithVerifTag = true

func bitIndexHook(f *bloom.Filter, i uint32, data []byte) (uint32, bool) {
	return f.VerifBitIndex(i, data), true
}

//go:build !verif

package main

import "github.com/gcash/bchutil/bloom"

// The production configuration: no build tag, hence no hooks; only the exported API is exercised.
const builtWithVerifTag = false

func bitIndexHook(f *bloom.Filter, i uint32, data []byte) (uint32, bool) { return 0, false }

// Command c17 drives amount.go of the repository under test: NewAmount, round,
// ToUnit/ToBCH, Format/String, MulF64 and AmountUnit.String.  Monitors evaluate
// the property's own predicate against an exact-rational reference (math/big);
// correspondence cases carry floats as 64-bit patterns for the Flocq model.
package main

import (
	"encoding/json"
	"fmt"
	"math"
	"math/big"
	"os"
	"regexp"
	"runtime"
	"sort"
	"strconv"
	"strings"

	"github.com/gcash/bchutil"

	"verif/harness/cmd/c16/srclits"
	"verif/harness/cmd/c17/prodrun"
	"verif/harness/internal/vh"
)

var cfg vh.Config
var rep *vh.Report
var cases *vh.Cases

const capSat = int64(2100000000000000) // 21e6 * 1e8 (checked against bchutil.MaxSatoshi in main)
const knownKey = "C17:format:unit<-8"

var (
	ratHalf = big.NewRat(1, 2)
	two62   = new(big.Rat).SetInt(new(big.Int).Lsh(big.NewInt(1), 62))
	rat1e8  = new(big.Rat).SetInt64(100000000)
)

// ---------- exact-rational reference ----------
func ratOf(f float64) *big.Rat { return new(big.Rat).SetFloat64(f) } // exact; nil when not finite

// nearest integer, ties away from zero
func nearestAway(r *big.Rat) *big.Int {
	abs := new(big.Rat).Abs(r)
	abs.Add(abs, ratHalf)
	q := new(big.Int).Quo(abs.Num(), abs.Denom())
	if r.Sign() < 0 {
		q.Neg(q)
	}
	return q
}

// correctly rounded (nearest even) float64 of an exact rational
func rn(r *big.Rat) float64 { f, _ := r.Float64(); return f }

func guard62(r *big.Rat) bool { return new(big.Rat).Abs(r).Cmp(two62) < 0 }

func pow10Rat(k int) *big.Rat {
	p := new(big.Int).Exp(big.NewInt(10), big.NewInt(int64(abs(k))), nil)
	if k >= 0 {
		return new(big.Rat).SetInt(p)
	}
	return new(big.Rat).SetFrac(big.NewInt(1), p)
}

func abs(k int) int {
	if k < 0 {
		return -k
	}
	return k
}

func isFinite(f float64) bool { return !math.IsNaN(f) && !math.IsInf(f, 0) }

func fdesc(f float64) string { return strconv.FormatFloat(f, 'g', 20, 64) }

func bitsOf(f float64) uint64 { return math.Float64bits(f) }

var labelRef = map[int]string{6: "MBCH", 3: "kBCH", 0: "BCH", -3: "mBCH", -6: "μBCH", -8: "Satoshi"}

func refLabel(u int) string {
	if s, ok := labelRef[u]; ok {
		return s
	}
	return "1e" + strconv.Itoa(u) + " BCH"
}

// ---------- NewAmount / round ----------
func newAmount(f float64, corr bool) (int64, bool) {
	amt, err := bchutil.NewAmount(f)
	ok := err == nil
	nontriv := false
	if !isFinite(f) {
		if ok {
			rep.Violate("C17:newamount:nan_inf", "NewAmount accepted NaN or an infinity",
				map[string]interface{}{"op": "newamount", "bits": bitsOf(f), "float": fdesc(f), "returned": int64(amt)})
		}
	} else {
		if !ok {
			rep.Violate("C17:newamount:finite_rejected", "NewAmount rejected a finite float",
				map[string]interface{}{"op": "newamount", "bits": bitsOf(f), "float": fdesc(f)})
		}
		prod := ratOf(rn(new(big.Rat).Mul(ratOf(f), rat1e8)))
		if prod != nil && guard62(prod) && ok {
			want := nearestAway(prod)
			fr := new(big.Rat).Sub(new(big.Rat).Abs(prod), new(big.Rat).SetInt(new(big.Int).Quo(new(big.Rat).Abs(prod).Num(), new(big.Rat).Abs(prod).Denom())))
			nontriv = fr.Sign() != 0
			if fr.Cmp(ratHalf) == 0 {
				rep.Histogram["newamount_exact_tie"]++
			}
			if !want.IsInt64() || want.Int64() != int64(amt) {
				rep.Violate("C17:newamount:nearest", "NewAmount(f) is not the integer nearest to fl(f*1e8), ties away from zero",
					map[string]interface{}{"op": "newamount", "bits": bitsOf(f), "call": "NewAmount(" + fdesc(f) + ")", "product": prod.FloatString(20), "returned": int64(amt), "required": want.String()})
			}
			// odd symmetry
			neg, err2 := bchutil.NewAmount(-f)
			rep.Evaluations++
			if err2 != nil || int64(neg) != -int64(amt) {
				rep.Violate("C17:newamount:odd", "NewAmount(-f) != -NewAmount(f)",
					map[string]interface{}{"op": "newamount", "bits": bitsOf(f), "call": "NewAmount(" + fdesc(f) + ")", "returned": int64(amt), "negated_call_returned": int64(neg)})
			}
		}
	}
	rep.Count("newamount", "n"+strconv.FormatUint(bitsOf(f), 16), nontriv)
	if corr {
		cases.Add(fmt.Sprintf("NewAmt %d %s %s", bitsOf(f), vh.CoqBool(ok), vh.CoqZ(int64(amt))),
			map[string]interface{}{"op": "NewAmount", "float": fdesc(f), "bits": bitsOf(f), "impl_ok": ok, "impl": int64(amt)})
	}
	return int64(amt), ok
}

func roundHook(f float64, corr bool) int64 {
	got := int64(bchutil.VerifRound(f))
	nontriv := false
	if isFinite(f) {
		r := ratOf(f)
		if guard62(r) {
			want := nearestAway(r)
			nontriv = !r.IsInt()
			if want.Int64() != got {
				rep.Violate("C17:round:nearest", "round(f) is not the integer nearest to f, ties away from zero",
					map[string]interface{}{"op": "round", "bits": bitsOf(f), "call": "round(" + fdesc(f) + ")", "returned": got, "required": want.String()})
			}
			if o := int64(bchutil.VerifRound(-f)); o != -got {
				rep.Violate("C17:round:odd", "round(-f) != -round(f)",
					map[string]interface{}{"op": "round", "bits": bitsOf(f), "call": "round(" + fdesc(f) + ")", "returned": got, "negated_call_returned": o})
			}
		}
	}
	rep.Count("round", "r"+strconv.FormatUint(bitsOf(f), 16), nontriv)
	if corr && (runtime.GOARCH == "amd64" || (isFinite(f) && math.Abs(f) < 9e18)) {
		cases.Add(fmt.Sprintf("Rnd %d %s", bitsOf(f), vh.CoqZ(got)), map[string]interface{}{"op": "round", "float": fdesc(f), "bits": bitsOf(f), "impl": got})
	}
	return got
}

// monotonicity on a sorted sample (finite, within the guard)
func monotone(fs []float64) {
	s := make([]float64, 0, len(fs))
	for _, f := range fs {
		if isFinite(f) && math.Abs(f) < 4e10 { // |f*1e8| < 2^62
			s = append(s, f)
		}
	}
	sort.Float64s(s)
	var prevF float64
	var prevA, prevR int64
	for i, f := range s {
		a, err := bchutil.NewAmount(f)
		r := int64(bchutil.VerifRound(f * 1e8))
		rep.Evaluations += 2
		rep.Histogram["monotone_pair"]++
		if err != nil {
			continue
		}
		if i > 0 {
			if int64(a) < prevA {
				rep.Violate("C17:newamount:monotone", "f1 <= f2 but NewAmount(f1) > NewAmount(f2)",
					map[string]interface{}{"op": "monotone", "bits1": bitsOf(prevF), "bits2": bitsOf(f), "f1": fdesc(prevF), "f2": fdesc(f), "amount1": prevA, "amount2": int64(a)})
			}
			if r < prevR {
				rep.Violate("C17:round:monotone", "y1 <= y2 but round(y1) > round(y2)",
					map[string]interface{}{"op": "monotone", "bits1": bitsOf(prevF), "bits2": bitsOf(f), "f1": fdesc(prevF), "f2": fdesc(f), "round1": prevR, "round2": r})
			}
		}
		prevF, prevA, prevR = f, int64(a), r
	}
}

// ---------- round trip ----------
func roundTrip(a int64, corr bool, count bool) {
	f := bchutil.Amount(a).ToBCH()
	b, err := bchutil.NewAmount(f)
	if count {
		rep.Count("roundtrip", "t"+strconv.FormatInt(a, 10), a != 0)
	}
	if a >= -capSat && a <= capSat {
		// ToBCH is a unit conversion of its own: it must be the correctly rounded quotient a / 1e8
		// (and hence equal ToUnit(AmountBCH)).  The bulk sweeps (count == false) pre-filter with the
		// hardware division and confirm with the exact rational before reporting.
		if count || bitsOf(f) != bitsOf(float64(a)/1e8) {
			want := rn(new(big.Rat).Quo(new(big.Rat).SetInt64(a), rat1e8))
			if bitsOf(want) != bitsOf(f) {
				rep.Violate("C17:tobch:quotient", "ToBCH() is not the correctly rounded value of a / 1e8",
					map[string]interface{}{"op": "tobch", "amount": a, "returned": fdesc(f), "required": fdesc(want)})
			}
		}
		if err != nil || int64(b) != a {
			rep.Violate("C17:roundtrip", "NewAmount(Amount(a).ToBCH()) != a for |a| <= 2.1e15",
				map[string]interface{}{"op": "roundtrip", "amount": a, "to_bch": fdesc(f), "back": int64(b)})
		}
	}
	if corr {
		cases.Add(fmt.Sprintf("ToBCH %s %d", vh.CoqZ(a), bitsOf(f)), map[string]interface{}{"op": "ToBCH", "amount": a, "impl": fdesc(f), "bits": bitsOf(f)})
		newAmount(f, true)
	}
}

// ToBCH only (bulk): bit-exact against the correctly rounded quotient a / 1e8 and against
// ToUnit(AmountBCH); hardware division as pre-filter, exact rational before reporting.
func toBCHBulk(a int64) {
	f := bchutil.Amount(a).ToBCH()
	if bitsOf(f) != bitsOf(float64(a)/1e8) {
		want := rn(new(big.Rat).Quo(new(big.Rat).SetInt64(a), rat1e8))
		if bitsOf(want) != bitsOf(f) {
			rep.Violate("C17:tobch:quotient", "ToBCH() is not the correctly rounded value of a / 1e8",
				map[string]interface{}{"op": "tobch", "amount": a, "returned": fdesc(f), "required": fdesc(want)})
		}
	}
	if g := bchutil.Amount(a).ToUnit(bchutil.AmountBCH); bitsOf(g) != bitsOf(f) {
		rep.Violate("C17:tobch:tounit", "ToBCH() != ToUnit(AmountBCH)",
			map[string]interface{}{"op": "tobch", "amount": a, "returned": fdesc(f), "to_unit": fdesc(g)})
	}
}

// ---------- ToUnit ----------
func toUnit(a int64, u int, corr bool) float64 {
	f := bchutil.Amount(a).ToUnit(bchutil.AmountUnit(u))
	inCap := a >= -capSat && a <= capSat
	rep.Count("tounit", fmt.Sprintf("u%d:%d", a, u), a != 0)
	if inCap && u >= -12 && u <= 12 {
		want := rn(new(big.Rat).Mul(new(big.Rat).SetInt64(a), pow10Rat(-(u + 8))))
		if bitsOf(want) != bitsOf(f) {
			key := "C17:tounit:quotient"
			if u < -8 {
				key = knownKey
			}
			rep.Violate(key, "ToUnit(u) is not the correctly rounded value of a * 10^-(u+8)",
				map[string]interface{}{"op": "tounit", "amount": a, "unit": u, "returned": fdesc(f), "required": fdesc(want)})
		}
	}
	if corr {
		cases.Add(fmt.Sprintf("ToUnit %s %s %d %s", vh.CoqZ(a), vh.CoqZ(int64(u)), bitsOf(f), vh.CoqBool(math.IsNaN(f))),
			map[string]interface{}{"op": "ToUnit", "amount": a, "unit": u, "impl": fdesc(f), "bits": bitsOf(f)})
	}
	return f
}

// ---------- call history (state left over between calls) ----------
// The last histK Format/String calls made on the implementation.  Every text/label violation
// carries them in its replay ("history": [[op, amount, unit], ...]); -replay executes the
// history first, so a fault that depends on earlier calls reproduces in a fresh process.
type fcall struct {
	op string // "F" Format(u), "S" String()
	a  int64
	u  int
}

const histK = 48

var hist []fcall

func histPush(op string, a int64, u int) {
	hist = append(hist, fcall{op, a, u})
	if len(hist) >= 4*histK {
		hist = append(hist[:0], hist[len(hist)-histK:]...)
	}
}

func histSnapshot() []interface{} {
	h := hist
	if len(h) > histK {
		h = h[len(h)-histK:]
	}
	out := make([]interface{}, 0, len(h))
	for _, c := range h {
		out = append(out, []interface{}{c.op, c.a, c.u})
	}
	return out
}

// ---------- text ----------
var decRe = regexp.MustCompile(`^-?[0-9]+(\.[0-9]+)?$`)

func unitString(u int, corr bool) string {
	s := bchutil.AmountUnit(u).String()
	rep.Count("unitstring", "s"+strconv.Itoa(u), true)
	if s != refLabel(u) {
		rep.Violate("C17:unit:label", "AmountUnit(u).String() is not the unit's label",
			map[string]interface{}{"op": "unit", "unit": u, "returned": s, "required": refLabel(u)})
	}
	if corr {
		cases.Add(fmt.Sprintf("UnitStr %s %s", vh.CoqZ(int64(u)), vh.CoqStr(s)), map[string]interface{}{"op": "AmountUnit.String", "unit": u, "impl": s})
	}
	return s
}

// corr: 0 none, 1 Fmt (against format_spec), 2 FmtO (shortest text as oracle)
func format(a int64, u int, corr int) string {
	s := bchutil.Amount(a).Format(bchutil.AmountUnit(u))
	defer histPush("F", a, u)
	inCap := a >= -capSat && a <= capSat
	rep.Count("format", fmt.Sprintf("f%d:%d", a, u), a != 0)
	if inCap && u >= -12 && u <= 12 {
		label := " " + refLabel(u)
		replay := map[string]interface{}{"op": "format", "amount": a, "unit": u, "printed": s}
		addHist := func() { replay["history"] = histSnapshot() }
		if !strings.HasSuffix(s, label) {
			addHist()
			rep.Violate("C17:format:label", "Format(u) does not end with the unit's label", replay)
		} else {
			num := strings.TrimSuffix(s, label)
			want := new(big.Rat).Mul(new(big.Rat).SetInt64(a), pow10Rat(-(u + 8)))
			replay["required_value"] = want.FloatString(maxInt(0, u+8))
			var got *big.Rat
			if decRe.MatchString(num) {
				got, _ = new(big.Rat).SetString(num)
			}
			if got == nil || got.Cmp(want) != 0 {
				if u >= -8 {
					addHist()
				}
				if u < -8 {
					rep.Violate(knownKey, "Format(u) for u < -8: printed number is not amount * 10^-(u+8)", replay)
				} else {
					rep.Violate("C17:format:text", "Format(u): printed number does not denote amount * 10^-(u+8) exactly", replay)
				}
			}
		}
	}
	switch corr {
	case 1:
		cases.Add(fmt.Sprintf("Fmt %s %s %s", vh.CoqZ(a), vh.CoqZ(int64(u)), vh.CoqStr(s)), map[string]interface{}{"op": "Format", "amount": a, "unit": u, "impl": s})
	case 2:
		short := strconv.FormatFloat(bchutil.Amount(a).ToUnit(bchutil.AmountUnit(u)), 'f', -1, 64)
		cases.Add(fmt.Sprintf("FmtO %s %s %s %s", vh.CoqZ(a), vh.CoqZ(int64(u)), vh.CoqStr(short), vh.CoqStr(s)),
			map[string]interface{}{"op": "Format(oracle)", "amount": a, "unit": u, "shortest": short, "impl": s})
	}
	return s
}

func maxInt(a, b int) int {
	if a > b {
		return a
	}
	return b
}

func stringer(a int64) {
	s := bchutil.Amount(a).String()
	rep.Count("string", "S"+strconv.FormatInt(a, 10), a != 0)
	// the text of String() itself: exact decimal of a * 1e-8 and the BCH label
	if a >= -capSat && a <= capSat {
		ok := strings.HasSuffix(s, " BCH")
		if ok {
			num := strings.TrimSuffix(s, " BCH")
			var got *big.Rat
			if decRe.MatchString(num) {
				got, _ = new(big.Rat).SetString(num)
			}
			ok = got != nil && got.Cmp(new(big.Rat).Quo(new(big.Rat).SetInt64(a), rat1e8)) == 0
		}
		if !ok {
			rep.Violate("C17:string", "Amount.String() is not the exact decimal of a * 1e-8 followed by \" BCH\"",
				map[string]interface{}{"op": "string", "amount": a, "string": s, "history": histSnapshot()})
		}
	}
	histPush("S", a, 0)
	if w := bchutil.Amount(a).Format(bchutil.AmountBCH); s != w {
		rep.Violate("C17:string", "Amount.String() != Format(AmountBCH)", map[string]interface{}{"op": "string", "amount": a, "string": s, "format": w, "history": histSnapshot()})
	}
	histPush("F", a, 0)
}

// strconv dependency: the shortest text parses back to the same float (checked in Go and in Coq)
func shortest(f float64, corr bool) {
	s := strconv.FormatFloat(f, 'f', -1, 64)
	rep.Histogram["strconv_shortest"]++
	if g, err := strconv.ParseFloat(s, 64); err != nil || bitsOf(g) != bitsOf(f) {
		rep.Violate("C17:dependency:strconv", "strconv shortest text does not parse back", map[string]interface{}{"op": "short", "bits": bitsOf(f), "text": s})
	}
	if corr && isFinite(f) {
		cases.Add(fmt.Sprintf("Short %d %s", bitsOf(f), vh.CoqStr(s)), map[string]interface{}{"op": "strconv.FormatFloat(f,'f',-1,64)", "float": fdesc(f), "bits": bitsOf(f), "text": s})
	}
}

// ---------- MulF64 ----------
func mulF64(a int64, f float64, corr bool) int64 {
	got := int64(bchutil.Amount(a).MulF64(f))
	nontriv := false
	if isFinite(f) {
		fa := rn(new(big.Rat).SetInt64(a)) // float64(a)
		prod := ratOf(rn(new(big.Rat).Mul(ratOf(fa), ratOf(f))))
		if prod != nil && guard62(prod) {
			want := nearestAway(prod)
			nontriv = !prod.IsInt()
			pa := new(big.Rat).Abs(prod)
			fr := new(big.Rat).Sub(pa, new(big.Rat).SetInt(new(big.Int).Quo(pa.Num(), pa.Denom())))
			if fr.Cmp(ratHalf) == 0 {
				rep.Histogram["mulf64_exact_tie"]++
			}
			if want.Int64() != got {
				rep.Violate("C17:mulf64:nearest", "Amount(a).MulF64(f) is not the integer nearest to fl(float64(a)*f), ties away from zero",
					map[string]interface{}{"op": "mulf64", "amount": a, "fbits": bitsOf(f), "call": fmt.Sprintf("Amount(%d).MulF64(%s)", a, fdesc(f)), "product": prod.FloatString(20), "returned": got, "required": want.String()})
			}
		}
	}
	rep.Count("mulf64", fmt.Sprintf("m%d:%x", a, bitsOf(f)), nontriv)
	if corr && (runtime.GOARCH == "amd64" || (isFinite(f) && math.Abs(float64(a)*f) < 9e18)) {
		cases.Add(fmt.Sprintf("MulF %s %d %s", vh.CoqZ(a), bitsOf(f), vh.CoqZ(got)),
			map[string]interface{}{"op": "MulF64", "amount": a, "f": fdesc(f), "fbits": bitsOf(f), "impl": got})
	}
	return got
}

// ---------- generators ----------
func ulps(f float64, n int) []float64 {
	out := []float64{f}
	up, dn := f, f
	for i := 0; i < n; i++ {
		up = math.Nextafter(up, math.Inf(1))
		dn = math.Nextafter(dn, math.Inf(-1))
		out = append(out, up, dn)
	}
	return out
}

// floats near (k+0.5)*1e-8: the float itself, neighbours, and any neighbour whose product is exactly k+0.5
func halfIntegerFloats(k int64, width int) []float64 {
	g := (float64(k) + 0.5) * 1e-8
	g2 := (float64(k) + 0.5) / 1e8
	out := ulps(g, width)
	if g2 != g {
		out = append(out, ulps(g2, 1)...)
	}
	return out
}

func amountBand(centre int64, w int64) []int64 {
	var out []int64
	for d := -w; d <= w; d++ {
		out = append(out, centre+d)
	}
	return out
}

func main() {
	cfg = vh.ParseFlags("C17")
	rep = vh.NewReport(cfg)
	rep.Rule = "floats one ulp either side of every generated half-integer*1e-8, products around 2^52/2^53, subnormal/huge/NaN/Inf, random decimals; amounts in dense bands around powers of ten and the 2.1e15 cap; units MBCH..Satoshi and exponents -12..12; MulF64 multipliers incl. 0.5-tie producers.  Non-trivial: the product has a fractional part (NewAmount/round/MulF64), the amount is non-zero (ToUnit/Format/round trip); distinct by input.  Bulk round-trip sweeps are counted as executions only."
	cases = vh.NewCases(cfg, "Run.Run_C17", 300)
	if int64(bchutil.MaxSatoshi) != capSat || bchutil.SatoshiPerBitcoin != 1e8 {
		rep.Violate("C17:constants", "MaxSatoshi / SatoshiPerBitcoin are not 2.1e15 / 1e8", map[string]interface{}{"op": "constants", "MaxSatoshi": int64(bchutil.MaxSatoshi)})
	}
	if cfg.Replay != "" {
		replay()
		finish()
		return
	}
	rng := vh.NewRNG(cfg.Seed)
	wide := cfg.Thorough() || cfg.Search
	corrOn := !cfg.Search
	T := func(q, t int) int {
		if wide {
			return t
		}
		return q
	}

	// ---------------- floats for NewAmount / round ----------------
	r := rng.Fork("floats")
	var mono []float64
	try := func(f float64, corr bool) {
		newAmount(f, corr && corrOn)
		mono = append(mono, f)
	}
	// every half-integer k+0.5 for small k, then sampled k up to and beyond the cap
	smallK := int64(T(300, 5000))
	for k := int64(0); k < smallK; k++ {
		for i, f := range halfIntegerFloats(k, 2) {
			try(f, k < 12 && i < 3)
			try(-f, k < 4 && i < 3)
		}
	}
	for i := 0; i < T(3000, 60000); i++ {
		var k int64
		switch i % 6 {
		case 0:
			k = int64(r.U64() % uint64(capSat))
		case 1:
			k = int64(r.U64() % 100000000000)
		case 2: // around powers of ten
			k = pow10i(1+r.Intn(17)) + int64(r.Intn(41)) - 20
		case 3: // products around 2^52, 2^53
			k = (int64(1) << uint(52+r.Intn(2))) + int64(r.Intn(65)) - 32
		case 4: // odd products in [2^52, 2^53)
			k = (int64(1) << 52) + int64(r.U64()%(1<<52)) | 1
		case 5:
			k = capSat + int64(r.Intn(2001)) - 1000
		}
		for j, f := range halfIntegerFloats(k, 1) {
			s := 1.0
			if r.Bool() {
				s = -1.0
			}
			try(s*f, i%T(30, 600) == 0 && j < 3)
		}
		// integer products too (f = k / 1e8 and neighbours): the old +-0.5 defect at odd k >= 2^52
		for j, f := range ulps(float64(k)/1e8, 1) {
			try(f, i%T(40, 800) == 1 && j < 2)
		}
	}
	// the two published witnesses of the repaired rounding defect
	try(4.9999999999999992774e-09, true)
	try(45035996.273704968393, true)
	// typical decimal amounts: d.dddddddd and 9-place decimals ending in 5
	for i := 0; i < T(2000, 40000); i++ {
		n := int64(r.U64() % uint64(capSat))
		if i%3 == 0 {
			n = int64(r.U64() % 10000000000)
		}
		f, _ := strconv.ParseFloat(fmt.Sprintf("%d.%08d", n/100000000, n%100000000), 64)
		try(f, i%T(100, 2000) == 0)
		g, _ := strconv.ParseFloat(fmt.Sprintf("%d.%08d5", n/100000000, n%100000000), 64)
		try(g, i%T(100, 2000) == 1)
	}
	// specials, subnormals, huge, guard boundary
	specials := []float64{0, math.Copysign(0, -1), math.NaN(), math.Inf(1), math.Inf(-1),
		math.SmallestNonzeroFloat64, -math.SmallestNonzeroFloat64, 2.2250738585072014e-308, 2.225073858507201e-308, 1e-320, 1e-300,
		math.MaxFloat64, -math.MaxFloat64, 1e300, -1e300, 1e22, 1e23, 1.7976931348623157e300,
		math.Float64frombits(0x7ff8000000000001), math.Float64frombits(0xfff8000000000000), math.Float64frombits(0x7ff0000000000001),
		4.9e-9, 5e-9, 5.1e-9, 0.5e-8, 1.5e-8, 2.5e-8, 1e-8, 1e-9, 0.1, 0.2, 0.3, 1, 21e6, 21000000.00000001, 20999999.99999999}
	for _, e := range []int{60, 61, 62, 63, 64} { // around the guard and the int64 range, scaled and unscaled
		p := math.Ldexp(1, e)
		for _, f := range ulps(p/1e8, 2) {
			specials = append(specials, f, -f)
		}
	}
	for _, f := range specials {
		try(f, true)
	}
	// NaN and infinity bit patterns over the whole payload range, both signs: quiet and signalling
	// NaNs (mantissa bit 51 set / clear), every single payload bit, smallest and largest payloads.
	// Also through round and MulF64 (results compared with the model; amd64 gives MinInt64).
	{
		const expOnes = uint64(0x7FF) << 52
		var pay []uint64
		pay = append(pay, 0, 1, 2, 3, 1<<51-1, 1<<51, 1<<51+1, 1<<52-1, 1<<52-2, 0x5555555555555, 0xAAAAAAAAAAAAA, 0x7FFFFFFFFFFFF, 0x4000000000000, 0x0000000080000, 0x00000FFFFFFFF)
		for b := uint(0); b < 52; b++ {
			pay = append(pay, uint64(1)<<b)
		}
		for i := 0; i < T(150, 3000); i++ {
			p := r.U64() & (1<<52 - 1)
			if i%2 == 0 {
				p &^= 1 << 51 // signalling
			}
			pay = append(pay, p)
		}
		for i, p := range pay {
			for _, sign := range []uint64{0, 1 << 63} {
				f := math.Float64frombits(sign | expOnes | p)
				c := i < 75 || i%T(10, 100) == 0
				newAmount(f, corrOn && c)
				roundHook(f, corrOn && c && i%3 == 0)
				mulF64(int64(i+1), f, corrOn && c && i%3 == 1)
				rep.Histogram["nan_inf_pattern"]++
			}
		}
	}
	for i := 0; i < T(600, 20000); i++ { // random bit patterns (all exponents) and random values in range
		try(math.Float64frombits(r.U64()), i%T(12, 400) == 0)
		try(float64(r.U64()%uint64(capSat))/1e8*(1+float64(r.Intn(3)-1)*1e-16), i%T(40, 800) == 0)
	}
	monotone(mono)

	// round (hook) directly on y = k + 0.5 neighbours and products
	r = rng.Fork("round")
	var ys []float64
	for k := int64(0); k < int64(T(200, 3000)); k++ {
		ys = append(ys, ulps(float64(k)+0.5, 1)...)
	}
	for i := 0; i < T(1500, 30000); i++ {
		var k int64
		switch i % 4 {
		case 0:
			k = int64(r.U64() % (1 << 53))
		case 1:
			k = (int64(1) << uint(50+r.Intn(4))) + int64(r.Intn(33)) - 16
		case 2:
			k = (int64(1) << 52) + int64(r.U64()%(1<<52)) | 1
		case 3:
			k = int64(r.U64() % (1 << 62))
		}
		ys = append(ys, ulps(float64(k)+0.5, 1)...)
		ys = append(ys, float64(k))
	}
	ys = append(ys, specials...)
	ys = append(ys, 0.49999999999999994, 0.5, 0.5000000000000001, 4503599627370497, 9007199254740991, 9007199254740993, math.Ldexp(1, 62), math.Nextafter(math.Ldexp(1, 62), 0), math.Ldexp(1, 63), math.Nextafter(math.Ldexp(1, 63), 0))
	for i, y := range ys {
		c := corrOn && (i%T(25, 300) == 0 || i >= len(ys)-len(specials)-10)
		roundHook(y, c)
		roundHook(-y, c && i%2 == 0)
	}

	// ---------------- amounts ----------------
	r = rng.Fork("amounts")
	var amts []int64
	bw := int64(T(40, 1500))
	amts = append(amts, amountBand(0, bw)...)
	for j := 1; j <= 18; j++ {
		for _, a := range amountBand(pow10i(j), bw) {
			amts = append(amts, a, -a)
		}
	}
	for _, a := range amountBand(capSat, int64(T(200, 5000))) {
		amts = append(amts, a, -a)
	}
	for _, e := range []uint{31, 32, 50, 51, 52, 53, 54, 62} {
		for _, a := range amountBand(int64(1)<<e, 3) {
			amts = append(amts, a, -a)
		}
	}
	amts = append(amts, math.MaxInt64, math.MinInt64, math.MaxInt64-1, math.MinInt64+1, 2099999999999999, -2099999999999999)
	for i := 0; i < T(1500, 40000); i++ {
		a := int64(r.U64() % uint64(capSat+1))
		switch i % 5 {
		case 1:
			a = int64(r.U64() % 1000000000000)
		case 2:
			a = int64(r.U64()%uint64(capSat/100000)) * 100000 // trailing zeros
		case 3:
			a = int64(r.U64() >> 1) // any int63
		}
		if r.Bool() {
			a = -a
		}
		amts = append(amts, a)
	}
	units := []int{}
	for u := -12; u <= 12; u++ {
		units = append(units, u)
	}
	named := []int{int(bchutil.AmountMegaBCH), int(bchutil.AmountKiloBCH), int(bchutil.AmountBCH), int(bchutil.AmountMilliBCH), int(bchutil.AmountMicroBCH), int(bchutil.AmountSatoshi)}
	for i, a := range amts {
		inCap := a >= -capSat && a <= capSat
		roundTrip(a, corrOn && i%T(60, 900) == 0, true)
		stringer(a)
		for _, u := range named {
			c := corrOn && (i*7+u)%T(211, 3001) == 0
			toUnit(a, u, c)
			fc := 0
			if corrOn && (i*5+u)%T(157, 2503) == 0 {
				if inCap {
					fc = 1
				} else {
					fc = 2
				}
			}
			format(a, u, fc)
		}
		for _, u := range units {
			c := corrOn && (i*31+u+12)%T(401, 6007) == 0
			toUnit(a, u, c)
			fc := 0
			if corrOn && (i*29+u+12)%T(307, 4507) == 0 {
				if inCap || u <= -8 {
					fc = 1
				} else {
					fc = 2
				}
			}
			format(a, u, fc)
			if corrOn && inCap && (i*13+u+12)%T(997, 9001) == 0 {
				format(a, u, 2)
				shortest(bchutil.Amount(a).ToUnit(bchutil.AmountUnit(u)), true)
			}
		}
	}
	// amounts smaller than one unit, both signs, for every unit above Satoshi: the sign must
	// survive in the text (the text is compared as an exact SIGNED rational)
	r = rng.Fork("subunit")
	for _, u := range units {
		k := u + 8
		if k <= 0 {
			continue
		}
		lim := pow10i(k)
		if k > 15 {
			lim = capSat
		}
		var sub []int64
		for j := 0; j < k && j <= 15; j++ {
			for _, d := range []int64{1, 5, 9} {
				if d*pow10i(j) < lim {
					sub = append(sub, d*pow10i(j))
				}
			}
		}
		for i := 0; i < T(30, 1500); i++ {
			sub = append(sub, 1+int64(r.U64()%uint64(lim-1)))
		}
		for i, a := range sub {
			fc := 0
			if corrOn && (i+k)%T(29, 211) == 0 {
				fc = 1
			}
			format(-a, u, fc)
			format(a, u, 0)
			toUnit(-a, u, fc == 1)
			if u == int(bchutil.AmountBCH) {
				stringer(-a)
			}
			rep.Histogram["subunit_negative"]++
		}
	}

	// the listed known finding's own witness, and far-away exponents for the table model of math.Pow10
	format(2099999999999999, -9, 1)
	toUnit(2099999999999999, -9, corrOn)
	if corrOn {
		for _, u := range []int{13, 14, 15, 23, 24, 25, 40, 100, 292, 300, 301, 1000, -13, -20, -39, -40, -41, -100, -330, -331, -332, -1000} {
			for _, a := range []int64{0, 1, -7, 123456789, capSat, math.MaxInt64} {
				toUnit(a, u, true)
			}
			unitString(u, true)
		}
		// AmountUnit is an int: u+8 wraps.  ToUnit(MaxInt64-7) divides by Pow10(MinInt64) = 0,
		// ToUnit(MaxInt64-8) by Pow10(MaxInt64) = +Inf.  (Format is only driven where the wrapped
		// precision is negative: a positive wrapped precision of ~2^63 digits cannot be allocated.)
		for _, u := range []int{math.MaxInt64, math.MaxInt64 - 1, math.MaxInt64 - 7, math.MaxInt64 - 8, math.MaxInt64 - 9,
			math.MaxInt64 - 300, math.MaxInt64 - 331, math.MinInt64, math.MinInt64 + 1, math.MinInt64 + 300, math.MinInt64 + 400,
			1 << 32, -(1 << 32), 1<<31 - 8, 1<<32 - 8, -(1 << 31) - 8} {
			for _, a := range []int64{0, 1, -7, capSat, math.MinInt64} {
				toUnit(a, u, true)
			}
			unitString(u, true)
			rep.Histogram["unit_wrap"]++
		}
		for _, a := range []int64{0, 5, -5, capSat} {
			format(a, math.MaxInt64-8, 2)
		}
		// far negative exponents: fixed precision of several hundred digits, ToUnit = +-Inf / NaN / huge
		for _, u := range []int{-23, -40, -300, -316, -330, -331, -332, -340} {
			for _, a := range []int64{0, 5, -5, capSat} {
				format(a, u, 1)
			}
		}
		for n := -340; n <= 320; n++ {
			if (n >= -40 && n <= 40) || n%32 == 0 || (n+1)%32 == 0 || (n-1)%32 == 0 || n < -315 || n > 300 {
				f := math.Pow10(n)
				cases.Add(fmt.Sprintf("Pow10 %s %d", vh.CoqZ(int64(n)), bitsOf(f)), map[string]interface{}{"op": "math.Pow10", "n": n, "bits": bitsOf(f)})
			}
		}
	}
	for _, u := range units {
		unitString(u, corrOn)
	}
	for _, u := range named {
		unitString(u, corrOn)
	}

	// bulk round-trip sweeps (monitor only): top band below the cap, and random amounts
	r = rng.Fork("sweep")
	nband := int64(T(300000, 5000000))
	for a := capSat - nband; a <= capSat; a++ {
		roundTrip(a, false, false)
	}
	for a := int64(0); a <= nband; a++ {
		roundTrip(a, false, false)
	}
	nrand := T(1000000, 20000000)
	for i := 0; i < nrand; i++ {
		a := int64(r.U64() % uint64(capSat+1))
		roundTrip(a, false, false)
		roundTrip(-a, false, false)
	}
	rep.Evaluations += int(2*nband) + 2*nrand
	rep.Histogram["roundtrip_sweep"] += int(2*nband) + 2*nrand

	// ToBCH, bit-exact, log-uniform over the whole range: the same number of random amounts in every
	// binade [2^e, 2^(e+1)) up to the cap, both signs (uniform sampling starves the small binades;
	// double-rounding faults live in narrow magnitude bands)
	r = rng.Fork("tobch_binades")
	perBinade := T(500000, 4000000)
	nb := 0
	for e := uint(0); e <= 50; e++ {
		lo := int64(1) << e
		hi := lo<<1 - 1
		if hi > capSat {
			hi = capSat
		}
		span := hi - lo + 1
		if span <= int64(perBinade) {
			for a := lo; a <= hi; a++ {
				toBCHBulk(a)
				toBCHBulk(-a)
				nb += 2
			}
			continue
		}
		for i := 0; i < perBinade; i++ {
			a := lo + int64(r.U64()%uint64(span))
			toBCHBulk(a)
			toBCHBulk(-a)
			nb += 2
		}
	}
	rep.Evaluations += nb
	rep.Histogram["tobch_binade_sweep"] += nb

	// ---------------- call sequences (state between calls) ----------------
	// X' then X then X again then String: X = Format(a,u), X' = Format(a+da, u+du) for EVERY unit
	// offset du that stays inside -12..12 and da in -2..2.  A result that depends on what was
	// formatted before (memo, cache, shared buffer) shows up as a wrong text or label for X.
	r = rng.Fork("history")
	hbase := []int64{0, 1, -1, 7, 12345, -12345, 99999999, 100000000, -100000001, capSat - 1, capSat, -capSat + 1}
	for i := 0; i < T(4, 60); i++ {
		hbase = append(hbase, int64(r.U64()%uint64(capSat))-capSat/2)
	}
	for _, a := range hbase {
		for _, u := range units {
			for _, u2 := range units {
				for da := int64(-2); da <= 2; da++ {
					a2 := a + da
					if a2 > capSat || a2 < -capSat || (a2 == a && u2 == u) {
						continue
					}
					format(a2, u2, 0)
					format(a, u, 0)
					if (da+int64(u2))%3 == 0 {
						format(a, u, 0) // immediately repeated call
						stringer(a)
						format(a2, u2, 0)
					}
					rep.Histogram["history_sequence"]++
				}
			}
		}
	}
	// random interleavings over a small pool (many repeats and near-collisions)
	for i := 0; i < T(20000, 400000); i++ {
		a := vh.Pick(r, hbase) + int64(r.Intn(5)) - 2
		if a > capSat || a < -capSat {
			continue
		}
		if r.Intn(6) == 0 {
			stringer(a)
		} else {
			format(a, vh.Pick(r, units), 0)
		}
	}

	// ---------------- MulF64 ----------------
	r = rng.Fork("mulf64")
	mults := []float64{0.5, -0.5, 1.5, 2.5, 0.25, 0.75, 0.125, 1, -1, 0, math.Copysign(0, -1), 0.1, 0.01, 0.001, 0.0025, 1.0 / 3, 2.0 / 3, 1e-8, 1e8, 3, 1.0000000000000002, 0.9999999999999999,
		0.49999999999999994, 0.5000000000000001, 1e-300, 1e300, math.NaN(), math.Inf(1), math.Inf(-1), math.SmallestNonzeroFloat64}
	mam := []int64{0, 1, -1, 2, 3, -3, 5, 7, 99, 100, 101, 12345, 100000000, 100000001, capSat, capSat - 1, -capSat, (1 << 52) + 1, (1 << 53) - 1, (1 << 53) + 1, (1 << 62) - 1, 1 << 62, math.MaxInt64, math.MinInt64}
	for i, a := range mam {
		for j, f := range mults {
			mulF64(a, f, corrOn && (cfg.Thorough() || (i+j)%3 == 0 || j < 5))
		}
	}
	for i := 0; i < T(4000, 100000); i++ {
		a := int64(r.U64() % uint64(capSat+1))
		switch i % 4 {
		case 1:
			a = int64(r.U64()%1000000000) | 1
		case 2:
			a = (int64(1) << uint(50+r.Intn(4))) + int64(r.Intn(64)) | 1
		}
		if r.Intn(4) == 0 {
			a = -a
		}
		var f float64
		switch i % 5 {
		case 0:
			f = vh.Pick(r, []float64{0.5, 1.5, 2.5, -0.5, 0.25, 0.75}) // tie producers for odd a
		case 1:
			f = float64(r.Intn(10000)) / 10000 // percentages / basis points
		case 2: // f chosen so that a*f is near a half-integer
			k := int64(r.U64() % uint64(capSat))
			if a != 0 {
				f = (float64(k) + 0.5) / float64(a)
				f = ulps(f, 1)[r.Intn(3)]
			}
		case 3:
			f = math.Float64frombits(r.U64())
		case 4:
			f = float64(r.U64()%(1<<53)) / float64(uint64(1)<<uint(40+r.Intn(20)))
		}
		mulF64(a, f, corrOn && i%T(40, 600) == 0)
	}

	dictionaryFamily()
	runProd(T(1, 6), nil)

	finish()
}

// ---------- dictionary family (round 3) ----------
// Numbers that occur as literals in the source of the package as it is now (harvested with
// go/parser from every non-test file, whatever its build constraints) and memorable numbers
// (digit runs, repdigits, hexspeak, powers of two and ten): as the half-way point k + 0.5 seen by
// the rounding (through round, NewAmount and MulF64), as the amount, as the multiplier.
func dictionary() (ints []int64, floats []float64) {
	d := srclits.Harvest(false, srclits.RepoDir())
	rep.Extra["dictionary"] = map[string]interface{}{"files": d.Files, "source_literals": len(d.Raw), "float_literals": len(d.Floats)}
	return d.Numbers(600), d.Floats
}

func tiesAt(k int64) {
	for _, s := range []int64{1, -1} {
		if k < 1<<52 {
			mulF64(s*(2*k+1), 0.5, false)
			mulF64(2*k+1, float64(s)*0.5, false)
		}
		mulF64(s, float64(k)+0.5, false)
		roundHook(float64(s)*(float64(k)+0.5), false)
		for _, f := range halfIntegerFloats(k, 1) {
			newAmount(float64(s)*f, false)
		}
	}
	rep.Histogram["dictionary_tie"]++
}

func dictionaryFamily() {
	ints, floats := dictionary()
	for _, v := range ints {
		if v < 0 {
			v = -v
		}
		if v < 0 || v >= 1<<53 {
			continue
		}
		tiesAt(v)
		if v > 0 {
			tiesAt(v - 1)
		}
		for _, f := range []float64{0.5, 1.5, 0.25, 0.75, 0.1, 1e-8, 2.5} {
			mulF64(v, f, false)
			mulF64(-v, f, false)
		}
		newAmount(float64(v)/1e8, false)
		newAmount(float64(v), false)
		if v <= capSat {
			for _, u := range []int{-8, -6, -3, 0, 3, 6} {
				toUnit(v, u, false)
				format(v, u, 0)
				format(-v, u, 0)
			}
			roundTrip(v, false, true)
			roundTrip(-v, false, true)
		}
	}
	for _, f := range floats {
		if !isFinite(f) {
			continue
		}
		roundHook(f, false)
		mulF64(1, f, false)
		mulF64(-1, f, false)
		mulF64(2, f/2, false)
		for _, g := range append(ulps(f/1e8, 1), f*1e-8, f) {
			newAmount(g, false)
		}
		rep.Histogram["dictionary_float"]++
	}
}

// ---------- the build that ships ----------
// runProd builds harness/cmd/c17/prod WITHOUT -tags verif in a scratch module (neutral module
// path, neutral binary name, no VERIF_* environment) and merges what it found.  This harness is
// built with the tag, so a file pair `//go:build verif` / `//go:build !verif` would show it another
// amount.go than the one every user compiles.
func runProd(scale int, one map[string]interface{}) {
	ints, floats := dictionary()
	in := map[string]interface{}{"ints": ints}
	fb := make([]uint64, len(floats))
	for i, f := range floats {
		fb[i] = bitsOf(f)
	}
	in["float_bits"] = fb
	args := []string{"-seed", fmt.Sprint(cfg.Seed), "-scale", fmt.Sprint(scale)}
	if one != nil {
		in["replay"] = one
		args = append(args, "-replay")
	}
	stdin, _ := json.Marshal(in)
	o, err := prodrun.Run(cfg.Out, "c17", "cmd/c17/prod", stdin, args...)
	if err != nil {
		rep.Extra["production_build"] = "NOT RUN: " + err.Error()
		rep.Histogram["production_build/not_run"]++
		return
	}
	rep.Extra["production_build"] = map[string]interface{}{"main_module": o.MainPath, "build_tags": o.Tags, "executions": o.Executions, "build_seconds": o.BuildSecs, "run_seconds": o.RunSecs}
	rep.Evaluations += o.Executions
	rep.Histogram["production_build/executions"] += o.Executions
	for k, v := range o.Histogram {
		rep.Histogram["production_build/"+k] += v
	}
	for _, v := range o.Violations {
		rep.Violate(v.Key, v.What+" [build without -tags verif]", v.Replay)
	}
}

func pow10i(j int) int64 {
	p := int64(1)
	for i := 0; i < j; i++ {
		p *= 10
	}
	return p
}

func finish() {
	rep.Cases = cases.Len()
	rep.Extra["duplicate_cases_dropped"] = cases.Dups
	rep.Extra["goarch"] = runtime.GOARCH
	_, err := cases.Flush()
	vh.Must(err)
	vh.Must(rep.Write(cfg))
	fmt.Printf("c17: %d implementation executions, %d correspondence cases, %d monitor violations\n", rep.Evaluations, rep.Cases, len(rep.Violations))
}

// replay re-runs the monitor named by a recorded input
func replay() {
	raw, err := os.ReadFile(cfg.Replay)
	vh.Must(err)
	var doc struct {
		Input map[string]interface{} `json:"input"`
	}
	dec := json.NewDecoder(strings.NewReader(string(raw)))
	dec.UseNumber()
	vh.Must(dec.Decode(&doc))
	in := doc.Input
	num := func(k string) int64 {
		n, _ := in[k].(json.Number)
		v, _ := strconv.ParseInt(n.String(), 10, 64)
		return v
	}
	unum := func(k string) uint64 {
		n, _ := in[k].(json.Number)
		v, _ := strconv.ParseUint(n.String(), 10, 64)
		return v
	}
	op, _ := in["op"].(string)
	if pb, _ := in["prod_build"].(bool); pb {
		runProd(1, in)
		return
	}
	switch op {
	case "newamount":
		newAmount(math.Float64frombits(unum("bits")), true)
	case "round":
		roundHook(math.Float64frombits(unum("bits")), true)
	case "monotone":
		monotone([]float64{math.Float64frombits(unum("bits1")), math.Float64frombits(unum("bits2"))})
	case "roundtrip":
		roundTrip(num("amount"), true, true)
	case "tobch":
		roundTrip(num("amount"), true, true)
	case "tounit":
		toUnit(num("amount"), int(num("unit")), true)
	case "format":
		replayHistory(in["history"])
		format(num("amount"), int(num("unit")), 1)
	case "string":
		replayHistory(in["history"])
		stringer(num("amount"))
	case "unit":
		unitString(int(num("unit")), true)
	case "mulf64":
		mulF64(num("amount"), math.Float64frombits(unum("fbits")), true)
	case "short":
		shortest(math.Float64frombits(unum("bits")), true)
	default:
		fmt.Fprintln(os.Stderr, "replay: unknown op", op)
	}
}

// replayHistory re-executes the recorded earlier Format/String calls (monitors active) so that
// state-dependent faults reproduce in a fresh process
func replayHistory(h interface{}) {
	list, _ := h.([]interface{})
	for _, e := range list {
		c, _ := e.([]interface{})
		if len(c) != 3 {
			continue
		}
		op, _ := c[0].(string)
		an, _ := c[1].(json.Number)
		un, _ := c[2].(json.Number)
		a, _ := strconv.ParseInt(an.String(), 10, 64)
		u, _ := strconv.ParseInt(un.String(), 10, 64)
		if op == "S" {
			_ = bchutil.Amount(a).String()
			histPush("S", a, 0)
		} else {
			format(a, int(u), 0)
		}
	}
}

// Package prodrun builds and runs a small self-contained monitor program the way an ordinary user
// program is built - WITHOUT the build tag `verif` the harness commands are built with, in a scratch
// module with a neutral path ("np"), under a neutral binary name, in an environment without VERIF_*
// variables - and returns what it found.  Files selected by `//go:build !verif` (or excluded by
// `//go:build verif`) are invisible to a harness built with the tag; the child sees the package that
// ships.  Same pattern as harness/cmd/c12/plainrun, generalised to any child directory: used by the
// harness commands c16, c17, c18 and c19 (children harness/cmd/cNN/prod, public API only, standard
// library + the repository under test + its dependencies).
package prodrun

import (
	"context"
	"encoding/json"
	"fmt"
	"os"
	"os/exec"
	"path/filepath"
	"regexp"
	"strings"
	"time"
)

type Violation struct {
	Key    string                 `json:"key"`
	What   string                 `json:"what"`
	Replay map[string]interface{} `json:"replay"`
}

// Output is the JSON document a child prints on stdout.
type Output struct {
	MainPath   string         `json:"main_path"`
	Tags       string         `json:"build_tags"`
	Executions int            `json:"executions"`
	Histogram  map[string]int `json:"histogram"`
	Violations []Violation    `json:"violations"`
	BuildSecs  float64        `json:"build_seconds"`
	RunSecs    float64        `json:"run_seconds"`
}

func harnessDir(rel string) (string, error) {
	var cands []string
	if wd, err := os.Getwd(); err == nil {
		cands = append(cands, wd)
	}
	if exe, err := os.Executable(); err == nil {
		cands = append(cands, filepath.Dir(filepath.Dir(exe)))
	}
	cands = append(cands, "/verif/harness")
	for _, d := range cands {
		if _, err := os.Stat(filepath.Join(d, rel, "main.go")); err == nil {
			return d, nil
		}
	}
	return "", fmt.Errorf("%s not found from %v", rel, cands)
}

var modfileFlag = regexp.MustCompile(`-modfile=(\S+)`)

// Run copies the .go files of harness/<rel> (e.g. "cmd/c17/prod") into outDir/np_<name>, builds them
// with a plain `go build` and runs the binary with args.  stdin: optional input for the child.
func Run(outDir, name, rel string, stdin []byte, args ...string) (*Output, error) {
	hd, err := harnessDir(rel)
	if err != nil {
		return nil, err
	}
	// the module file in force (bin/check passes -modfile=go.alt.mod for a scratch copy of the repository)
	modfile := filepath.Join(hd, "go.mod")
	if m := modfileFlag.FindStringSubmatch(os.Getenv("GOFLAGS")); m != nil {
		modfile = m[1]
	}
	mod, err := os.ReadFile(modfile)
	if err != nil {
		return nil, err
	}
	sum, err := os.ReadFile(strings.TrimSuffix(modfile, ".mod") + ".sum")
	if err != nil {
		return nil, err
	}
	dir := filepath.Join(outDir, "np_"+name)
	os.RemoveAll(dir)
	if err := os.MkdirAll(dir, 0o755); err != nil {
		return nil, err
	}
	if err := os.WriteFile(filepath.Join(dir, "go.mod"), []byte(strings.Replace(string(mod), "module verif/harness", "module np", 1)), 0o644); err != nil {
		return nil, err
	}
	if err := os.WriteFile(filepath.Join(dir, "go.sum"), sum, 0o644); err != nil {
		return nil, err
	}
	ents, err := os.ReadDir(filepath.Join(hd, rel))
	if err != nil {
		return nil, err
	}
	for _, e := range ents {
		if e.IsDir() || !strings.HasSuffix(e.Name(), ".go") || strings.HasSuffix(e.Name(), "_test.go") {
			continue
		}
		b, err := os.ReadFile(filepath.Join(hd, rel, e.Name()))
		if err != nil {
			return nil, err
		}
		if err := os.WriteFile(filepath.Join(dir, e.Name()), b, 0o644); err != nil {
			return nil, err
		}
	}
	env := []string{"GOFLAGS=-mod=mod", "GOPROXY=off", "GOSUMDB=off", "GOTOOLCHAIN=local"}
	for _, kv := range os.Environ() {
		k := strings.SplitN(kv, "=", 2)[0]
		switch {
		case k == "GOFLAGS" || k == "GOPROXY" || k == "GOSUMDB" || k == "GOTOOLCHAIN" || strings.HasPrefix(k, "VERIF"):
		default:
			env = append(env, kv)
		}
	}
	t0 := time.Now()
	ctx, cancel := context.WithTimeout(context.Background(), 10*time.Minute)
	defer cancel()
	build := exec.CommandContext(ctx, "go", "build", "-o", "node", ".")
	build.Dir, build.Env = dir, env
	if b, err := build.CombinedOutput(); err != nil {
		return nil, fmt.Errorf("go build (no tags) failed: %v\n%s", err, b)
	}
	o := &Output{BuildSecs: time.Since(t0).Seconds()}
	t0 = time.Now()
	run := exec.CommandContext(ctx, filepath.Join(dir, "node"), args...)
	run.Dir, run.Env = dir, env
	run.Stderr = os.Stderr
	if stdin != nil {
		run.Stdin = strings.NewReader(string(stdin))
	}
	b, err := run.Output()
	if err != nil {
		return nil, fmt.Errorf("running the production-build program: %v\n%s", err, b)
	}
	dec := json.NewDecoder(strings.NewReader(string(b)))
	dec.UseNumber() // 64-bit patterns in the replays must survive
	if err := dec.Decode(o); err != nil {
		return nil, fmt.Errorf("output of the production-build program: %v", err)
	}
	o.RunSecs = time.Since(t0).Seconds()
	return o, nil
}
